/-
  Proofs/Pending.lean — the pending column position (`SetColumnPosition` … consumed by the next `AddColumn`).
  Every primitive except `SetColumnPosition` leaves it alone or clears it; `AddColumn` clears it unless it takes the
  merge branch (the column already exists with action `add`).  So after every reader step no table has a pending
  position, provided a positional ADD COLUMN does not name a column the table already created (`posFresh`).
-/
import SqlizeModel.Proofs.Reach

namespace Sqlize
namespace Table

/-- `AddColumn(col)` would take the merge branch -/
def mergeHit (t : Table) (name : String) : Prop :=
  ∃ id c, t.colIdx.get? name = some id ∧ t.cols[id]? = some c ∧ c.action = .add

theorem positionStep_pending (t t' : Table) (c : String) (id : Nat) (hs : t.positionStep c id = .ok t') :
    t'.pendingPos = none := by
  unfold positionStep at hs
  cases hp : t.pendingPos with
  | none => rw [hp] at hs; have := pure_ok hs; subst this; exact hp
  | some p =>
    rw [hp] at hs
    cases p with
    | first =>
      obtain ⟨t1, _, hs⟩ := bind_ok hs
      have := pure_ok hs; subst this; rfl
    | after r =>
      simp only at hs
      cases hr : t.colIdx.get? r with
      | none => rw [hr] at hs; have := pure_ok hs; subst this; rfl
      | some a =>
        rw [hr] at hs
        obtain ⟨t1, _, hs⟩ := bind_ok hs
        have := pure_ok hs; subst this; rfl

theorem addColumn_pending (t t' : Table) (col : Column) (mysql : Bool) {pg : Bool} (hs : t.addColumn col mysql pg = .ok t')
    (h : t.pendingPos = none ∨ ¬ t.mergeHit col.name) : t'.pendingPos = none := by
  unfold addColumn at hs
  cases hg : t.colIdx.get? col.name with
  | none =>
    rw [hg] at hs
    exact positionStep_pending _ t' _ _ hs
  | some id =>
    rw [hg] at hs
    simp only at hs
    obtain ⟨c, hc, hs⟩ := bind_ok hs
    have hc := getIdx_ok hc
    by_cases ha : (c.action != .add) = true
    · rw [if_pos ha] at hs
      exact positionStep_pending _ t' _ _ hs
    · rw [if_neg ha] at hs
      have := pure_ok hs; subst this
      rcases h with h | h
      · exact h
      · exfalso
        apply h
        refine ⟨id, c, hg, hc, ?_⟩
        simpa using ha

theorem forgetIndex_pending (t t' : Table) (id : Nat) (hs : t.forgetIndex id = .ok t') :
    t'.pendingPos = t.pendingPos := by
  unfold forgetIndex at hs
  obtain ⟨i, _, hs⟩ := bind_ok hs
  have := pure_ok hs; subst this; rfl

theorem forgetForeignKey_pending (t t' : Table) (id : Nat) (hs : t.forgetForeignKey id = .ok t') :
    t'.pendingPos = t.pendingPos := by
  unfold forgetForeignKey at hs
  obtain ⟨i, _, hs⟩ := bind_ok hs
  have := pure_ok hs; subst this; rfl

theorem stripColFromIndexes_pending (col : String) (k : Nat) : ∀ (t t' : Table),
    t.stripColFromIndexes col k = .ok t' → t'.pendingPos = t.pendingPos := by
  induction k with
  | zero => intro t t' hs; unfold stripColFromIndexes at hs; have := pure_ok hs; subst this; rfl
  | succ k ih =>
    intro t t' hs
    unfold stripColFromIndexes at hs
    obtain ⟨i, _, hs⟩ := bind_ok hs
    obtain ⟨t1, h1, hs⟩ := bind_ok hs
    have h1p : t1.pendingPos = t.pendingPos := by
      split at h1
      · exact forgetIndex_pending t t1 k h1
      · have := pure_ok h1; subst this; rfl
    rw [ih t1 t' hs, h1p]

theorem dropFksOnCol_pending (col : String) (k : Nat) : ∀ (t t' : Table),
    t.dropFksOnCol col k = .ok t' → t'.pendingPos = t.pendingPos := by
  induction k with
  | zero => intro t t' hs; unfold dropFksOnCol at hs; have := pure_ok hs; subst this; rfl
  | succ k ih =>
    intro t t' hs
    unfold dropFksOnCol at hs
    obtain ⟨f, _, hs⟩ := bind_ok hs
    obtain ⟨t1, h1, hs⟩ := bind_ok hs
    have h1p : t1.pendingPos = t.pendingPos := by
      split at h1
      · exact forgetForeignKey_pending t t1 k h1
      · have := pure_ok h1; subst this; rfl
    rw [ih t1 t' hs, h1p]

theorem removeColumn_pending (t t' : Table) (name : String) (hs : t.removeColumn name = .ok t') :
    t'.pendingPos = t.pendingPos := by
  unfold removeColumn at hs
  cases hg : t.colIdx.get? name with
  | none => rw [hg] at hs; have := pure_ok hs; subst this; rfl
  | some id =>
    rw [hg] at hs
    simp only at hs
    obtain ⟨c, _, hs⟩ := bind_ok hs
    split at hs
    · obtain ⟨t2, h2, hs⟩ := bind_ok hs
      rw [dropFksOnCol_pending name _ t2 t' hs, stripColFromIndexes_pending name _ _ t2 h2]
    · have := pure_ok hs; subst this; rfl

theorem renameColumn_pending (t t' : Table) (o n : String) (hs : t.renameColumn o n = .ok t') :
    t'.pendingPos = t.pendingPos := by
  unfold renameColumn at hs
  cases hg : t.colIdx.get? o with
  | none => rw [hg] at hs; have := pure_ok hs; subst this; rfl
  | some id =>
    rw [hg] at hs
    simp only at hs
    obtain ⟨c, _, hs⟩ := bind_ok hs
    have := pure_ok hs; subst this; rfl

theorem addIndex_pending (t t' : Table) (idx : Index) (hs : t.addIndex idx = .ok t') :
    t'.pendingPos = t.pendingPos := by
  unfold addIndex at hs
  cases hg : t.idxIdx.get? idx.name with
  | none => rw [hg] at hs; have := pure_ok hs; subst this; rfl
  | some id =>
    rw [hg] at hs
    simp only at hs
    obtain ⟨l, _, hs⟩ := bind_ok hs
    have := pure_ok hs; subst this; rfl

theorem removeIndex_pending (t t' : Table) (name : String) (hs : t.removeIndex name = .ok t') :
    t'.pendingPos = t.pendingPos := by
  unfold removeIndex at hs
  cases hg : t.idxIdx.get? name with
  | none => rw [hg] at hs; have := pure_ok hs; subst this; rfl
  | some id =>
    rw [hg] at hs
    simp only at hs
    obtain ⟨i, _, hs⟩ := bind_ok hs
    split at hs
    · exact forgetIndex_pending t t' id hs
    · have := pure_ok hs; subst this; rfl

theorem renameIndex_pending (t t' : Table) (o n : String) (hs : t.renameIndex o n = .ok t') :
    t'.pendingPos = t.pendingPos := by
  unfold renameIndex at hs
  cases hg : t.idxIdx.get? o with
  | none => rw [hg] at hs; have := pure_ok hs; subst this; rfl
  | some id =>
    rw [hg] at hs
    simp only at hs
    obtain ⟨l, _, hs⟩ := bind_ok hs
    have := pure_ok hs; subst this; rfl

theorem addForeignKey_pending (t t' : Table) (fk : ForeignKey) (hs : t.addForeignKey fk = .ok t') :
    t'.pendingPos = t.pendingPos := by
  unfold addForeignKey at hs
  obtain ⟨t1, h1, hs⟩ := bind_ok hs
  have := pure_ok hs; subst this
  show t1.pendingPos = _
  cases hg : t.fkIdx.get? fk.name with
  | none => rw [hg] at h1; have := pure_ok h1; subst this; rfl
  | some id =>
    rw [hg] at h1
    simp only at h1
    obtain ⟨l, _, h1⟩ := bind_ok h1
    have := pure_ok h1; subst this; rfl

theorem removeForeignKey_pending (t t' : Table) (name : String) (hs : t.removeForeignKey name = .ok t') :
    t'.pendingPos = t.pendingPos := by
  unfold removeForeignKey at hs
  cases hg : t.fkIdx.get? name with
  | none => rw [hg] at hs; have := pure_ok hs; subst this; rfl
  | some id =>
    rw [hg] at hs
    simp only at hs
    obtain ⟨f, _, hs⟩ := bind_ok hs
    split at hs
    · exact forgetForeignKey_pending t t' id hs
    · have := pure_ok hs; subst this; rfl

end Table

namespace Migration

/-- only the table named `nm` may carry a pending position -/
def PendingOnly (m : Migration) (nm : String) : Prop := ∀ t ∈ m.tables, t.name ≠ nm → t.pendingPos = none

theorem NoPending.only {m : Migration} (h : m.NoPending) (nm : String) : m.PendingOnly nm := fun t ht _ => h t ht

theorem noPending_empty : ({} : Migration).NoPending := by intro t ht; cases ht

theorem mem_set_cases {α : Type} {l : List α} {i : Nat} {x y : α} (h : y ∈ l.set i x) :
    y = x ∨ ∃ j, j ≠ i ∧ l[j]? = some y := by
  obtain ⟨j, hj⟩ := List.mem_iff_getElem?.mp h
  rw [List.getElem?_set] at hj
  by_cases hij : i = j
  · rw [if_pos hij] at hj
    split at hj
    · left; exact (Option.some.inj hj).symm
    · cases hj
  · rw [if_neg hij] at hj
    right; exact ⟨j, fun e => hij e.symm, hj⟩

/-- editing the table at `id` (named `nm`) so that it ends with no pending position -/
theorem onTable_pending (m m' : Migration) (site : String) (id : Nat) (f : Table → M Table) (nm : String)
    (h : m.Inv) (hnm : m.tblNames[id]? = some nm) (hpo : m.PendingOnly nm)
    (hf : ∀ t t', t ∈ m.tables → t.name = nm → f t = .ok t' → t'.pendingPos = none)
    (hs : m.onTable site id f = .ok m') : m'.NoPending := by
  unfold onTable at hs
  obtain ⟨t, ht, hs⟩ := bind_ok hs
  have ht := getIdx_ok ht
  obtain ⟨t', ht', hs⟩ := bind_ok hs
  have := pure_ok hs; subst this
  have htn : t.name = nm := by
    simp only [tblNames, List.getElem?_map, ht, Option.map_some] at hnm
    exact Option.some.inj hnm
  intro x hx
  rcases mem_set_cases hx with h1 | ⟨j, hji, hj⟩
  · rw [h1]; exact hf t t' (List.mem_of_getElem? ht) htn ht'
  · apply hpo x (List.mem_of_getElem? hj)
    intro hxn
    have hjn : m.tblNames[j]? = some nm := by simp [tblNames, hj, hxn]
    have hlt : id < m.tblNames.length := (List.getElem?_eq_some_iff.mp hnm).1
    exact hji ((List.getElem?_inj hlt h.tbls.nodup).mp (hnm.trans hjn.symm)).symm

theorem ensureTable_spec (m m' : Migration) (tb : String) (id : Nat) (h : m.Inv)
    (hs : m.ensureTable tb = .ok (m', id)) :
    m'.tblNames[id]? = some tb ∧ (∀ nm, m.PendingOnly nm → m'.PendingOnly nm) ∧
      (∀ t ∈ m'.tables, t ∈ m.tables ∨ t = Table.new tb .modify) := by
  unfold ensureTable at hs
  cases hg : m.tblIdx.get? tb with
  | some i =>
    rw [hg] at hs
    have := pure_ok hs
    obtain ⟨e1, e2⟩ := Prod.mk.inj this
    subst e1; subst e2
    exact ⟨(h.tbls.get tb i).mp hg, fun _ hp => hp, fun t ht => Or.inl ht⟩
  | none =>
    rw [hg] at hs
    simp only at hs
    obtain ⟨m1, h1, hs⟩ := bind_ok hs
    have := pure_ok hs
    obtain ⟨e1, e2⟩ := Prod.mk.inj this
    subst e1; subst e2
    unfold addTable at h1
    have hg' : m.tblIdx.get? (Table.new tb .modify).name = none := hg
    rw [hg'] at h1
    have := pure_ok h1; subst this
    refine ⟨?_, ?_, ?_⟩
    · show ((m.tables ++ [Table.new tb .modify]).map (·.name))[(m.tables ++ [Table.new tb .modify]).length - 1]? = _
      simp [Table.new]
    · intro nm hp t ht _
      have ht : t ∈ m.tables ++ [Table.new tb .modify] := ht
      rcases List.mem_append.mp ht with h1 | h1
      · exact hp t h1 ‹_›
      · rw [List.mem_singleton.mp h1]; rfl
    · intro t ht
      have ht : t ∈ m.tables ++ [Table.new tb .modify] := ht
      rcases List.mem_append.mp ht with h1 | h1
      · exact Or.inl h1
      · exact Or.inr (List.mem_singleton.mp h1)

/-- "ensure the table, then edit it" where the edit ends with no pending position on that table -/
theorem ensure_then_pending (m m' : Migration) (tb site : String) (f : Table → M Table) (h : m.Inv)
    (hpo : m.PendingOnly tb)
    (hf : ∀ t t', (t ∈ m.tables ∨ t = Table.new tb .modify) → t.name = tb → f t = .ok t' → t'.pendingPos = none)
    (hs : (do let (m1, id) ← m.ensureTable tb; m1.onTable site id f) = .ok m') : m'.NoPending := by
  obtain ⟨⟨m1, id⟩, h1, hs⟩ := bind_ok hs
  obtain ⟨hnm, hp, hmem⟩ := ensureTable_spec m m1 tb id h h1
  exact onTable_pending m1 m' site id f tb (ensureTable_inv m m1 tb id h h1) hnm (hp tb hpo)
    (fun t t' ht htn hft => hf t t' (hmem t ht) htn hft) hs

theorem addColumn_pending (m m' : Migration) (tb : String) (col : Column) (mysql : Bool) {pg : Bool} (h : m.Inv)
    (hpo : m.PendingOnly (m.resolve tb))
    (hc : ∀ t ∈ m.tables, t.name = m.resolve tb → t.pendingPos = none ∨ ¬ t.mergeHit col.name)
    (hs : m.addColumn tb col mysql pg = .ok m') : m'.NoPending := by
  unfold addColumn at hs
  refine ensure_then_pending m m' _ _ _ h hpo ?_ hs
  intro t t' ht htn hft
  refine Table.addColumn_pending t t' col mysql hft ?_
  rcases ht with ht | ht
  · exact hc t ht htn
  · left; rw [ht]; rfl

/-- the generic case: an edit that leaves the pending position alone -/
theorem ensure_keep_pending (m m' : Migration) (tb site : String) (f : Table → M Table) (h : m.Inv)
    (hp : m.NoPending) (hf : ∀ t t', f t = .ok t' → t'.pendingPos = t.pendingPos)
    (hs : (do let (m1, id) ← m.ensureTable tb; m1.onTable site id f) = .ok m') : m'.NoPending := by
  refine ensure_then_pending m m' tb site f h (hp.only _) ?_ hs
  intro t t' ht _ hft
  rw [hf t t' hft]
  rcases ht with ht | ht
  · exact hp t ht
  · rw [ht]; rfl

theorem removeColumn_pending (m m' : Migration) (tb col : String) (h : m.Inv) (hp : m.NoPending)
    (hs : m.removeColumn tb col = .ok m') : m'.NoPending :=
  ensure_keep_pending m m' _ _ _ h hp (fun t t' hf => Table.removeColumn_pending t t' col hf) hs

theorem addIndex_pending (m m' : Migration) (tb : String) (idx : Index) (h : m.Inv) (hp : m.NoPending)
    (hs : m.addIndex tb idx = .ok m') : m'.NoPending :=
  ensure_keep_pending m m' _ _ _ h hp (fun t t' hf => Table.addIndex_pending t t' idx hf) hs

theorem removeIndex_pending (m m' : Migration) (tb name : String) (h : m.Inv) (hp : m.NoPending)
    (hs : m.removeIndex tb name = .ok m') : m'.NoPending :=
  ensure_keep_pending m m' _ _ _ h hp (fun t t' hf => Table.removeIndex_pending t t' name hf) hs

theorem addForeignKey_pending (m m' : Migration) (tb : String) (fk : ForeignKey) (h : m.Inv) (hp : m.NoPending)
    (hs : m.addForeignKey tb fk = .ok m') : m'.NoPending := by
  unfold addForeignKey at hs
  exact ensure_keep_pending m m' _ _ _ h hp (fun t t' hf => Table.addForeignKey_pending t t' _ hf) hs

theorem removeForeignKey_pending (m m' : Migration) (tb name : String) (h : m.Inv) (hp : m.NoPending)
    (hs : m.removeForeignKey tb name = .ok m') : m'.NoPending :=
  ensure_keep_pending m m' _ _ _ h hp (fun t t' hf => Table.removeForeignKey_pending t t' name hf) hs

/-- "look the table up, edit it if known" with an edit that leaves the pending position alone -/
theorem lookup_keep_pending (m m' : Migration) (tb site : String) (f : Table → M Table) (h : m.Inv)
    (hp : m.NoPending) (hf : ∀ t t', f t = .ok t' → t'.pendingPos = t.pendingPos)
    (hs : (match m.tblIdx.get? tb with
      | some id => m.onTable site id f
      | none => pure m) = .ok m') : m'.NoPending := by
  cases hg : m.tblIdx.get? tb with
  | none => rw [hg] at hs; have := pure_ok hs; subst this; exact hp
  | some id =>
    rw [hg] at hs
    refine onTable_pending m m' site id f tb h ((h.tbls.get tb id).mp hg) (hp.only _) ?_ hs
    intro t t' ht _ hft
    rw [hf t t' hft]; exact hp t ht

theorem renameColumn_pending (m m' : Migration) (tb o n : String) (h : m.Inv) (hp : m.NoPending)
    (hs : m.renameColumn tb o n = .ok m') : m'.NoPending :=
  lookup_keep_pending m m' _ _ _ h hp (fun t t' hf => Table.renameColumn_pending t t' o n hf) hs

theorem renameIndex_pending (m m' : Migration) (tb o n : String) (h : m.Inv) (hp : m.NoPending)
    (hs : m.renameIndex tb o n = .ok m') : m'.NoPending :=
  lookup_keep_pending m m' _ _ _ h hp (fun t t' hf => Table.renameIndex_pending t t' o n hf) hs

theorem addComment_pending (m m' : Migration) (tb col comment : String) (h : m.Inv) (hp : m.NoPending)
    (hs : m.addComment tb col comment = .ok m') : m'.NoPending := by
  unfold addComment at hs
  cases hg : m.tblIdx.get? (m.resolve tb) with
  | none => rw [hg] at hs; have := pure_ok hs; subst this; exact hp
  | some id =>
    rw [hg] at hs
    refine onTable_pending m m' _ id _ _ h ((h.tbls.get _ id).mp hg) (hp.only _) ?_ hs
    intro t t' ht _ hft
    cases hc : t.colIdx.get? col with
    | none => rw [hc] at hft; have := pure_ok hft; subst this; exact hp t ht
    | some ci =>
      rw [hc] at hft
      simp only at hft
      obtain ⟨l, _, hft⟩ := bind_ok hft
      have := pure_ok hft; subst this
      exact hp t ht

theorem addTable_pending (m m' : Migration) (tb : Table) (hp : m.NoPending) (htb : tb.pendingPos = none)
    (hs : m.addTable tb = .ok m') : m'.NoPending := by
  unfold addTable at hs
  cases hg : m.tblIdx.get? tb.name with
  | none =>
    rw [hg] at hs
    have := pure_ok hs; subst this
    intro t ht
    have ht : t ∈ m.tables ++ [tb] := ht
    rcases List.mem_append.mp ht with h1 | h1
    · exact hp t h1
    · rw [List.mem_singleton.mp h1]; exact htb
  | some id =>
    rw [hg] at hs
    simp only at hs
    obtain ⟨l, hl, hs⟩ := bind_ok hs
    obtain ⟨_, hl⟩ := setIdx_ok hl
    have := pure_ok hs; subst this
    subst hl
    intro t ht
    rcases mem_set ht with h1 | h1
    · exact hp t h1
    · rw [h1]; exact htb

theorem removeTable_pending (m m' : Migration) (name : String) (hp : m.NoPending)
    (hs : m.removeTable name = .ok m') : m'.NoPending := by
  unfold removeTable at hs
  cases hg : m.tblIdx.get? name with
  | none =>
    rw [hg] at hs
    have := pure_ok hs; subst this
    intro t ht
    have ht : t ∈ m.tables ++ [Table.new name .remove] := ht
    rcases List.mem_append.mp ht with h1 | h1
    · exact hp t h1
    · rw [List.mem_singleton.mp h1]; rfl
  | some id =>
    rw [hg] at hs
    simp only at hs
    obtain ⟨t0, ht0, hs⟩ := bind_ok hs
    have ht0 := getIdx_ok ht0
    split at hs
    · have := pure_ok hs; subst this
      intro t ht
      exact hp t ((List.eraseIdx_sublist _ _).subset ht)
    · have := pure_ok hs; subst this
      intro t ht
      rcases mem_set ht with h1 | h1
      · exact hp t h1
      · rw [h1]; exact hp t0 (List.mem_of_getElem? ht0)

/-- `SetColumnPosition(tb, pos)`: only the table it names may now carry a pending position; nothing else changes -/
theorem setColumnPosition_spec (m m' : Migration) (tb : String) (pos : Pos) (h : m.Inv) (hp : m.NoPending)
    (hs : m.setColumnPosition tb pos = .ok m') :
    m'.PendingOnly (m.resolve tb) ∧ m'.cursor = m.cursor ∧
      ∀ t ∈ m'.tables, ∃ t0 ∈ m.tables, t.name = t0.name ∧ t.cols = t0.cols ∧ t.colIdx = t0.colIdx := by
  unfold setColumnPosition at hs
  cases hg : m.tblIdx.get? (m.resolve tb) with
  | none =>
    rw [hg] at hs; have := pure_ok hs; subst this
    exact ⟨hp.only _, rfl, fun t ht => ⟨t, ht, rfl, rfl, rfl⟩⟩
  | some id =>
    rw [hg] at hs
    have hnm := (h.tbls.get _ id).mp hg
    unfold onTable at hs
    obtain ⟨t, ht, hs⟩ := bind_ok hs
    have ht := getIdx_ok ht
    obtain ⟨t', ht', hs⟩ := bind_ok hs
    have := pure_ok ht'; subst this
    have := pure_ok hs; subst this
    have htn : t.name = m.resolve tb := by
      simp only [tblNames, List.getElem?_map, ht, Option.map_some] at hnm
      exact Option.some.inj hnm
    refine ⟨?_, rfl, ?_⟩
    · intro x hx hne
      rcases mem_set hx with h1 | h1
      · exact hp x h1
      · exfalso; apply hne; rw [h1]; exact htn
    · intro x hx
      rcases mem_set hx with h1 | h1
      · exact ⟨x, h1, rfl, rfl, rfl⟩
      · rw [h1]; exact ⟨t, List.mem_of_getElem? ht, rfl, rfl, rfl⟩

end Migration
end Sqlize
