/-
  Proofs/FkRefineDown.lean — the foreign-key walk of the down migration in the presence of dropped columns refines
  `Abs.Idx.emitDownKeepSup`: DROP for the keys only the new side has except those on a dropped column, ADD CONSTRAINT for
  the keys only the old side has, nothing for a key found on both sides.  The mirror of Proofs/FkRefine.lean.
-/
import SqlizeModel.Proofs.FkRefine
import SqlizeModel.Abs.FkDropDown

namespace Sqlize
open Spec Abs.Idx

namespace Table

/-- what the key walk of the down migration prints for one record when `dc` are the dropped columns -/
def fkDownSupStmts (dc : List String) (tb : String) (f : ForeignKey) : List Stmt :=
  if f.action == .add && dc.contains f.column then [] else f.migrationDown tb

theorem walkFk_down_sup (tb : String) (dc : List String) (fks : List ForeignKey) :
    walkFk tb false dc fks = fks.flatMap (fkDownSupStmts dc tb) := by
  unfold walkFk
  congr 1
  funext f
  unfold fkDownSupStmts
  by_cases hn : f.action = .none
  · simp [hn, ForeignKey.migrationDown]
  · have h1 : (f.action != .none) = true := by simpa using hn
    by_cases hr : f.action = .add
    · cases hc : dc.contains f.column <;> simp [hr, hc]
    · have h2 : (f.action != .add) = true := by simpa using hr
      have h3 : (f.action == .add) = false := by simpa using hr
      simp [h1, h2, h3]

/-- the records of the new side: a key the old side does not have is dropped unless its column goes, a key it has gets
    nothing -/
theorem walkFk_new_half_down (tb : String) (dc : List String) (t o : Table) (ht : ∀ f ∈ t.fks, f.action = .add) :
    (t.fks.map (tagFk o)).flatMap (fun f => (fkDownSupStmts dc tb f).filterMap fkStmt) =
      ((fkSpecOf t.fks).filter (fun s => !(names (fkSpecOf o.fks)).contains (Named.name s) && !dc.contains s.col)).map
        (fun s => IStmt.drop s.name) := by
  unfold fkSpecOf
  rw [List.flatMap_map]
  have : ∀ l : List ForeignKey, (∀ f ∈ l, f.action = .add) →
      l.flatMap (fun f => (fkDownSupStmts dc tb (tagFk o f)).filterMap fkStmt) =
        ((l.map ForeignKey.toSpec).filter (fun s => !(names (o.fks.map ForeignKey.toSpec)).contains (Named.name s) &&
          !dc.contains s.col)).map (fun s => IStmt.drop s.name) := by
    intro l
    induction l with
    | nil => intro _; rfl
    | cons f r ih =>
      intro hl
      rw [List.flatMap_cons, ih (fun x hx => hl x (by simp [hx])), List.map_cons, List.filter_cons]
      have hnm : Named.name f.toSpec = f.name := rfl
      have hcol : f.toSpec.col = f.column := rfl
      have hnames : names (o.fks.map ForeignKey.toSpec) = o.fks.map (·.name) := by
        show (o.fks.map ForeignKey.toSpec).map (fun s : FkSpec => Named.name s) = _
        rw [List.map_map]; rfl
      rw [hnm, hcol, hnames]
      unfold tagFk
      cases hf : o.fks.find? (fun y => y.name == f.name) with
      | none =>
        have hnot : f.name ∉ o.fks.map (·.name) := by
          intro hm
          obtain ⟨x, hx, he⟩ := List.mem_map.mp hm
          have := List.find?_eq_none.mp hf x hx
          simp [he] at this
        have hc : (!(o.fks.map (·.name)).contains f.name) = true := by simpa using hnot
        rw [hc]
        cases h2 : dc.contains f.column
        · have hm : f.column ∉ dc := by simpa using h2
          simp [fkDownSupStmts, hm, ForeignKey.migrationDown, ForeignKey.migrationUp, hl f (by simp), fkStmt, ForeignKey.toSpec]
        · have hm : f.column ∈ dc := by simpa using h2
          simp [fkDownSupStmts, hm, hl f (by simp)]
      | some of_ =>
        have hin : f.name ∈ o.fks.map (·.name) := by
          have h1 := List.mem_of_find?_eq_some hf
          have h2 : of_.name = f.name := by simpa using List.find?_some hf
          exact h2 ▸ List.mem_map_of_mem h1
        have hc : (!(o.fks.map (·.name)).contains f.name) = false := by simpa using hin
        rw [hc]
        simp [fkDownSupStmts, ForeignKey.migrationDown]
  exact this t.fks ht

/-- **the key walk of the down migration with a dropped-column list refines `Abs.Idx.emitDownKeepSup`** -/
theorem walkFk_refines_down_sup (tb : String) (dc : List String) (t o : Table) (ht : ∀ f ∈ t.fks, f.action = .add) :
    (walkFk tb false dc
        (t.fks.map (tagFk o) ++
          (o.fks.filter (fun f => !t.fkNames.contains f.name)).map (fun f => { f with action := .remove }))).filterMap fkStmt =
      emitDownKeepSup dc (fkSpecOf t.fks) (fkSpecOf o.fks) := by
  rw [walkFk_down_sup, filterMap_flatMap', List.flatMap_append]
  unfold emitDownKeepSup
  congr 1
  · exact walkFk_new_half_down tb dc t o ht
  · rw [List.flatMap_map]
    have hnames : names (fkSpecOf t.fks) = t.fkNames := by
      show ((t.fks.map ForeignKey.toSpec)).map (fun s : FkSpec => Named.name s) = _
      rw [List.map_map]; rfl
    rw [hnames]
    unfold fkSpecOf
    have : ∀ l : List ForeignKey,
        (l.filter (fun f => !t.fkNames.contains f.name)).flatMap
            (fun f => (fkDownSupStmts dc tb { f with action := .remove }).filterMap fkStmt) =
          ((l.map ForeignKey.toSpec).filter (fun o => !t.fkNames.contains o.name)).map IStmt.create := by
      intro l
      induction l with
      | nil => rfl
      | cons f r ih =>
        rw [List.filter_cons, List.map_cons, List.filter_cons]
        have e1 : (ForeignKey.toSpec f).name = f.name := rfl
        rw [e1]
        cases h1 : t.fkNames.contains f.name
        · simp only [Bool.not_false, if_true, List.flatMap_cons, List.map_cons, ih]
          simp [fkDownSupStmts, ForeignKey.migrationDown, ForeignKey.migrationUp, fkStmt, ForeignKey.toSpec]
        · simp only [Bool.not_true, Bool.false_eq_true, if_false, ih]
    exact this o.fks

end Table
end Sqlize
