/-
  Proofs/TablesClause.lean — the table clause of C01 on the implementation model: which CREATE TABLE / DROP TABLE
  statements `MigrationUp` prints for the state `Migration.Diff` leaves.  A table only the new side has is created (in
  the new side's order), a table only the old side has is dropped, a table both sides have gets neither statement.
-/
import SqlizeModel.Proofs.PrintTotal
import SqlizeModel.Proofs.Untouched

namespace Sqlize
open Spec Abs.Idx

instance : Named String := ⟨id⟩

/-- the table-level statements among the printed statements -/
def tblStmt : Stmt → Option (IStmt String)
  | .createTable t _ _ _ => some (.create t)
  | .dropTable t => some (.drop t)
  | _ => none

theorem upAlter_noTbl (g : Globals) (c : Column) (tb after : String) :
    ∀ s ∈ c.migrationUpAlter g tb after, tblStmt s = none := by
  intro s hs
  unfold Column.migrationUpAlter at hs
  cases ha : c.action <;> rw [ha] at hs <;> simp only at hs
  · cases hs
  · rw [List.mem_singleton.mp hs]; rfl
  · split at hs
    · cases hs
    · rw [List.mem_singleton.mp hs]; rfl
  · rw [List.mem_singleton.mp hs]; rfl
  · rw [List.mem_singleton.mp hs]; rfl
  · rw [List.mem_singleton.mp hs]; rfl

theorem downAlter_noTbl (g : Globals) (c : Column) (tb after : String) :
    ∀ s ∈ c.migrationDownAlter g tb after, tblStmt s = none := by
  intro s hs
  unfold Column.migrationDownAlter at hs
  cases ha : c.action <;> rw [ha] at hs <;> simp only at hs
  · cases hs
  · exact upAlter_noTbl g _ tb after s hs
  · exact upAlter_noTbl g _ tb after s hs
  · exact upAlter_noTbl g _ tb after s hs
  · cases hs
  · exact upAlter_noTbl g _ tb after s hs

namespace Table

theorem walkCols_noTbl (g : Globals) (tb : String) (up : Bool) : ∀ (cols before : List Column),
    ∀ s ∈ (walkCols g tb up before cols).1, tblStmt s = none := by
  intro cols
  induction cols with
  | nil => intro before s hs; simp [walkCols] at hs
  | cons c rest ih =>
    intro before s hs
    unfold walkCols at hs
    simp only at hs
    by_cases hnone : c.action = .none
    · simp only [hnone, beq_self_eq_true, if_true] at hs
      exact ih (before ++ [c]) s hs
    · have hne : (c.action == .none) = false := by simpa using hnone
      simp only [hne, Bool.false_eq_true, if_false] at hs
      rcases List.mem_append.mp hs with h1 | h1
      · cases up
        · exact downAlter_noTbl g c tb _ s (by simpa using h1)
        · exact upAlter_noTbl g c tb _ s (by simpa using h1)
      · exact ih (before ++ [c]) s h1

end Table

theorem idxUp_noTbl (g : Globals) (i : Index) (tb : String) (r : List Stmt) (h : i.migrationUp g tb = .ok r) :
    ∀ s ∈ r, tblStmt s = none := by
  intro s hs
  unfold Index.migrationUp at h
  cases ha : i.action <;> rw [ha] at h <;> simp only [pure, Except.pure] at h
  · cases Except.ok.inj h; cases hs
  · split at h
    · cases Except.ok.inj h; rw [List.mem_singleton.mp hs]; rfl
    · split at h <;> (cases Except.ok.inj h) <;> first | (rw [List.mem_singleton.mp hs]; rfl) | cases hs
  · split at h <;> (cases Except.ok.inj h) <;> (rw [List.mem_singleton.mp hs]; rfl)
  · simp only [bind, Except.bind] at h
    split at h
    · cases h
    · rename_i v hv
      cases Except.ok.inj h
      rcases List.mem_cons.mp hs with rfl | hs'
      · split <;> rfl
      · have : s = v := by simpa using hs'
        subst this
        split at hv
        · cases Except.ok.inj hv; rfl
        · split at hv
          · cases Except.ok.inj hv; rfl
          · cases Except.ok.inj hv; rfl
          all_goals cases hv
  · cases Except.ok.inj h; cases hs
  · cases Except.ok.inj h; rw [List.mem_singleton.mp hs]; rfl

namespace Table

theorem walkIdx_noTbl (g : Globals) (tb : String) (dc : List String) : ∀ (idxs : List Index) (ss : List Stmt),
    walkIdx g tb true dc idxs = .ok ss → ∀ s ∈ ss, tblStmt s = none := by
  intro idxs
  induction idxs with
  | nil => intro ss h s hs; unfold walkIdx at h; cases Except.ok.inj h; cases hs
  | cons i r ih =>
    intro ss h s hs
    unfold walkIdx at h
    obtain ⟨a, ha, h⟩ := bind_ok h
    obtain ⟨b, hb, h⟩ := bind_ok h
    have := pure_ok h; subst this
    rcases List.mem_append.mp hs with h1 | h1
    · by_cases hcnd : (i.action != .none && (i.action != (if true then Action.remove else Action.add) || !idxSuppressed i dc)) = true
      · rw [if_pos hcnd] at ha
        simp only [if_true] at ha
        exact idxUp_noTbl g i tb a ha s h1
      · rw [if_neg hcnd] at ha
        have := pure_ok ha; subst this; cases h1
    · exact ih b hb s h1

theorem addedIdx_noTbl (g : Globals) (tb : String) : ∀ (idxs : List Index) (ss : List Stmt),
    addedIdx g tb idxs = .ok ss → ∀ s ∈ ss, tblStmt s = none := by
  intro idxs
  induction idxs with
  | nil => intro ss h s hs; unfold addedIdx at h; cases Except.ok.inj h; cases hs
  | cons i r ih =>
    intro ss h s hs
    unfold addedIdx at h
    obtain ⟨a, ha, h⟩ := bind_ok h
    obtain ⟨b, hb, h⟩ := bind_ok h
    have := pure_ok h; subst this
    rcases List.mem_append.mp hs with h1 | h1
    · split at ha
      · exact idxUp_noTbl g i tb a ha s h1
      · split at ha
        · exact idxUp_noTbl g _ tb a ha s h1
        · have := pure_ok ha; subst this; cases h1
    · exact ih b hb s h1

theorem indexUp_noTbl (g : Globals) (t : Table) (dc : List String) (ss : List Stmt)
    (h : t.migrationIndexUp g dc = .ok ss) : ∀ s ∈ ss, tblStmt s = none := by
  unfold migrationIndexUp at h
  cases ha : t.action <;> rw [ha] at h <;> simp only at h
  · exact walkIdx_noTbl g t.name dc t.idxs ss h
  · exact addedIdx_noTbl g t.name t.idxs ss h
  all_goals (cases Except.ok.inj h; intro s hs; cases hs)

theorem fkUp_noTbl (f : ForeignKey) (tb : String) : ∀ s ∈ f.migrationUp tb, tblStmt s = none := by
  intro s hs
  unfold ForeignKey.migrationUp at hs
  cases ha : f.action <;> rw [ha] at hs <;> simp only at hs
  · cases hs
  · rw [List.mem_singleton.mp hs]; rfl
  · rw [List.mem_singleton.mp hs]; rfl
  · cases hs
  · cases hs
  · cases hs

theorem foreignKeyUp_noTbl (t : Table) (dc : List String) : ∀ s ∈ t.migrationForeignKeyUp dc, tblStmt s = none := by
  intro s hs
  unfold migrationForeignKeyUp at hs
  cases ha : t.action <;> rw [ha] at hs <;> simp only at hs
  · unfold walkFk at hs
    obtain ⟨f, _, hf⟩ := List.mem_flatMap.mp hs
    by_cases hcnd : (f.action != .none && (f.action != (if true then Action.remove else Action.add) || !dc.contains f.column)) = true
    · rw [if_pos hcnd] at hf
      simp only [if_true] at hf
      exact fkUp_noTbl f t.name s hf
    · rw [if_neg hcnd] at hf
      cases hf
  · obtain ⟨f, _, hf⟩ := List.mem_flatMap.mp hs
    split at hf
    · exact fkUp_noTbl f t.name s hf
    · cases hf
  all_goals cases hs

/-- the table-level content of `MigrationColumnUp` of one table -/
theorem columnUp_tbl (g : Globals) (t : Table) (cs : List Stmt) (dc : List String) (h : t.migrationColumnUp g = .ok (cs, dc)) :
    cs.filterMap tblStmt = match t.action with
      | .add => [IStmt.create t.name]
      | .remove => [IStmt.drop t.name]
      | _ => [] := by
  unfold migrationColumnUp at h
  cases ha : t.action <;> rw [ha] at h <;> simp only at h
  · have := Except.ok.inj h
    have hcs : cs = (walkCols g t.name true [] t.cols).1 := (congrArg Prod.fst this).symm
    rw [hcs, List.filterMap_eq_nil_iff]
    exact walkCols_noTbl g t.name true t.cols []
  · obtain ⟨ss, hss, h⟩ := bind_ok h
    have := pure_ok h
    have hcs : cs = ss := (congrArg Prod.fst this).symm
    subst hcs
    unfold createTableStmts at hss
    have := pure_ok hss; subst this
    simp only [List.filterMap_cons, tblStmt]
    congr 1
    rw [List.filterMap_eq_nil_iff]
    intro s hs
    obtain ⟨c, _, hc⟩ := List.mem_flatMap.mp hs
    unfold Column.commentUp at hc
    split at hc
    · cases hc
    · rw [List.mem_singleton.mp hc]; rfl
  · have := Except.ok.inj h
    have hcs : cs = [Stmt.dropTable t.name] := (congrArg Prod.fst this).symm
    rw [hcs]; rfl
  all_goals (have := Except.ok.inj h; have hcs : cs = [] := (congrArg Prod.fst this).symm; rw [hcs]; rfl)

end Table

/-- the table-level statement of a table record, by name and action -/
def tblOut (t : Table) : List (IStmt String) :=
  match t.action with
  | .add => [.create t.name]
  | .remove => [.drop t.name]
  | _ => []

namespace Migration

/-- the table-level content of `MigrationUp`: one statement per created / dropped table record, in table order -/
theorem migrate_tbl (g : Globals) : ∀ (ts ts' : List Table) (out : List (List Stmt)),
    (∀ t ∈ ts, t.name ≠ defaultMigrationTable ∧ t.arrange = .ok t) → migrate g true ts = .ok (ts', out) →
    out.flatten.filterMap tblStmt = ts.flatMap tblOut := by
  intro ts
  induction ts with
  | nil =>
    intro ts' out _ h
    unfold migrate at h
    have := Except.ok.inj h
    have ho : out = [] := (congrArg Prod.snd this).symm
    rw [ho]; rfl
  | cons t r ih =>
    intro ts' out hall h
    obtain ⟨hn, hst⟩ := hall t (by simp)
    unfold migrate at h
    have hne : (t.name == defaultMigrationTable) = false := by simpa using hn
    simp only [hne, Bool.false_eq_true, if_false, hst, bind, Except.bind, if_true] at h
    cases hc : t.migrationColumnUp g with
    | error e => rw [hc] at h; cases h
    | ok cres =>
      obtain ⟨cs, dc⟩ := cres
      rw [hc] at h
      simp only at h
      cases hi : t.migrationIndexUp g dc with
      | error e => rw [hi] at h; cases h
      | ok is =>
        rw [hi] at h
        simp only at h
        cases hr : migrate g true r with
        | error e => rw [hr] at h; cases h
        | ok res =>
          obtain ⟨ts1, out1⟩ := res
          rw [hr] at h
          simp only [pure, Except.pure] at h
          have := Except.ok.inj h
          have ho : out = if (cs ++ is ++ t.migrationForeignKeyUp dc).isEmpty then out1
              else (cs ++ is ++ t.migrationForeignKeyUp dc) :: out1 := (congrArg Prod.snd this).symm
          have ihr := ih ts1 out1 (fun x hx => hall x (by simp [hx])) hr
          have hall' : (cs ++ is ++ t.migrationForeignKeyUp dc).filterMap tblStmt = tblOut t := by
            rw [List.filterMap_append, List.filterMap_append, Table.columnUp_tbl g t cs dc hc]
            have h1 : is.filterMap tblStmt = [] := by
              rw [List.filterMap_eq_nil_iff]; exact Table.indexUp_noTbl g t dc is hi
            have h2 : (t.migrationForeignKeyUp dc).filterMap tblStmt = [] := by
              rw [List.filterMap_eq_nil_iff]; exact Table.foreignKeyUp_noTbl t dc
            rw [h1, h2, List.append_nil, List.append_nil]
            rfl
          rw [ho, List.flatMap_cons, ← ihr]
          split
          · rename_i hemp
            have : cs ++ is ++ t.migrationForeignKeyUp dc = [] := by simpa using hemp
            rw [← hall', this]
            rfl
          · rw [List.flatten_cons, List.filterMap_append, hall']

end Migration

-- ---------------------------------------------------------------------------------------------------------------
-- the down direction

theorem idxDown_noTbl (g : Globals) (i : Index) (tb : String) (r : List Stmt) (h : i.migrationDown g tb = .ok r) :
    ∀ s ∈ r, tblStmt s = none := by
  unfold Index.migrationDown at h
  cases ha : i.action <;> rw [ha] at h <;> simp only at h
  · cases Except.ok.inj h; intro s hs; cases hs
  · exact idxUp_noTbl g _ tb r h
  · exact idxUp_noTbl g _ tb r h
  · cases hp : i.prev with
    | none => rw [hp] at h; exact idxUp_noTbl g i tb r h
    | some p => rw [hp] at h; exact idxUp_noTbl g _ tb r h
  · cases Except.ok.inj h; intro s hs; cases hs
  · exact idxUp_noTbl g _ tb r h

namespace Table

theorem walkIdx_noTbl_down (g : Globals) (tb : String) (dc : List String) : ∀ (idxs : List Index) (ss : List Stmt),
    walkIdx g tb false dc idxs = .ok ss → ∀ s ∈ ss, tblStmt s = none := by
  intro idxs
  induction idxs with
  | nil => intro ss h s hs; unfold walkIdx at h; cases Except.ok.inj h; cases hs
  | cons i r ih =>
    intro ss h s hs
    unfold walkIdx at h
    obtain ⟨a, ha, h⟩ := bind_ok h
    obtain ⟨b, hb, h⟩ := bind_ok h
    have := pure_ok h; subst this
    rcases List.mem_append.mp hs with h1 | h1
    · by_cases hcnd : (i.action != .none && (i.action != (if false then Action.remove else Action.add) || !idxSuppressed i dc)) = true
      · rw [if_pos hcnd] at ha
        simp only [Bool.false_eq_true, if_false] at ha
        exact idxDown_noTbl g i tb a ha s h1
      · rw [if_neg hcnd] at ha
        have := pure_ok ha; subst this; cases h1
    · exact ih b hb s h1

theorem indexDown_noTbl (g : Globals) (t : Table) (dc : List String) (ss : List Stmt)
    (h : t.migrationIndexDown g dc = .ok ss) : ∀ s ∈ ss, tblStmt s = none := by
  unfold migrationIndexDown at h
  cases ha : t.action <;> rw [ha] at h <;> simp only at h
  · exact walkIdx_noTbl_down g t.name dc t.idxs ss h
  · exact indexUp_noTbl g _ dc ss h
  · exact indexUp_noTbl g _ dc ss h
  all_goals (cases Except.ok.inj h; intro s hs; cases hs)

theorem fkDown_noTbl (f : ForeignKey) (tb : String) : ∀ s ∈ f.migrationDown tb, tblStmt s = none := by
  intro s hs
  unfold ForeignKey.migrationDown at hs
  cases ha : f.action <;> rw [ha] at hs <;> simp only at hs
  · cases hs
  · exact fkUp_noTbl _ tb s hs
  · exact fkUp_noTbl _ tb s hs
  · cases hs
  · cases hs
  · cases hs

theorem foreignKeyDown_noTbl (t : Table) (dc : List String) : ∀ s ∈ t.migrationForeignKeyDown dc, tblStmt s = none := by
  intro s hs
  unfold migrationForeignKeyDown at hs
  cases ha : t.action <;> rw [ha] at hs <;> simp only at hs
  · unfold walkFk at hs
    obtain ⟨f, _, hf⟩ := List.mem_flatMap.mp hs
    by_cases hcnd : (f.action != .none && (f.action != (if false then Action.remove else Action.add) || !dc.contains f.column)) = true
    · rw [if_pos hcnd] at hf
      simp only [Bool.false_eq_true, if_false] at hf
      exact fkDown_noTbl f t.name s hf
    · rw [if_neg hcnd] at hf
      cases hf
  · exact foreignKeyUp_noTbl _ dc s hs
  · exact foreignKeyUp_noTbl _ dc s hs
  all_goals cases hs

theorem columnDown_tbl (g : Globals) (t : Table) (cs : List Stmt) (dc : List String)
    (h : t.migrationColumnDown g = .ok (cs, dc)) :
    cs.filterMap tblStmt = match t.action with
      | .add => [IStmt.drop t.name]
      | .remove => [IStmt.create t.name]
      | _ => [] := by
  unfold migrationColumnDown at h
  cases ha : t.action <;> rw [ha] at h <;> simp only at h
  · have := Except.ok.inj h
    have hcs : cs = (walkCols g t.name false [] t.cols).1 := (congrArg Prod.fst this).symm
    rw [hcs, List.filterMap_eq_nil_iff]
    exact walkCols_noTbl g t.name false t.cols []
  · exact columnUp_tbl g { t with action := .remove } cs dc h
  · exact columnUp_tbl g { t with action := .add } cs dc h
  all_goals (have := Except.ok.inj h; have hcs : cs = [] := (congrArg Prod.fst this).symm; rw [hcs]; rfl)

end Table

/-- the table-level statement of a table record on the way down -/
def tblOutDown (t : Table) : List (IStmt String) :=
  match t.action with
  | .add => [.drop t.name]
  | .remove => [.create t.name]
  | _ => []

namespace Migration

theorem migrate_tbl_down (g : Globals) : ∀ (ts ts' : List Table) (out : List (List Stmt)),
    (∀ t ∈ ts, t.name ≠ defaultMigrationTable ∧ t.arrange = .ok t) → migrate g false ts = .ok (ts', out) →
    out.flatten.filterMap tblStmt = ts.flatMap tblOutDown := by
  intro ts
  induction ts with
  | nil =>
    intro ts' out _ h
    unfold migrate at h
    have := Except.ok.inj h
    have ho : out = [] := (congrArg Prod.snd this).symm
    rw [ho]; rfl
  | cons t r ih =>
    intro ts' out hall h
    obtain ⟨hn, hst⟩ := hall t (by simp)
    unfold migrate at h
    have hne : (t.name == defaultMigrationTable) = false := by simpa using hn
    simp only [hne, Bool.false_eq_true, if_false, hst, bind, Except.bind] at h
    cases hc : t.migrationColumnDown g with
    | error e => rw [hc] at h; cases h
    | ok cres =>
      obtain ⟨cs, dc⟩ := cres
      rw [hc] at h
      simp only at h
      cases hi : t.migrationIndexDown g dc with
      | error e => rw [hi] at h; cases h
      | ok is =>
        rw [hi] at h
        simp only at h
        cases hr : migrate g false r with
        | error e => rw [hr] at h; cases h
        | ok res =>
          obtain ⟨ts1, out1⟩ := res
          rw [hr] at h
          simp only [pure, Except.pure] at h
          have := Except.ok.inj h
          have ho : out = if (cs ++ is ++ t.migrationForeignKeyDown dc).isEmpty then out1
              else (cs ++ is ++ t.migrationForeignKeyDown dc) :: out1 := (congrArg Prod.snd this).symm
          have ihr := ih ts1 out1 (fun x hx => hall x (by simp [hx])) hr
          have hall' : (cs ++ is ++ t.migrationForeignKeyDown dc).filterMap tblStmt = tblOutDown t := by
            rw [List.filterMap_append, List.filterMap_append, Table.columnDown_tbl g t cs dc hc]
            have h1 : is.filterMap tblStmt = [] := by
              rw [List.filterMap_eq_nil_iff]; exact Table.indexDown_noTbl g t dc is hi
            have h2 : (t.migrationForeignKeyDown dc).filterMap tblStmt = [] := by
              rw [List.filterMap_eq_nil_iff]; exact Table.foreignKeyDown_noTbl t dc
            rw [h1, h2, List.append_nil, List.append_nil]
            rfl
          rw [ho, List.flatMap_cons, ← ihr]
          split
          · rename_i hemp
            have : cs ++ is ++ t.migrationForeignKeyDown dc = [] := by simpa using hemp
            rw [← hall', this]
            rfl
          · rw [List.flatten_cons, List.filterMap_append, hall']

/-- first table loop, table-level view: a table the old side has gets no table statement, the others are created -/
theorem diffTables1_tbl (d : Dialect) (old : Migration) (hold : old.Inv) (hoa : ∀ ot ∈ old.tables, ot.action = .add)
    :
    ∀ (ts ts' : List Table), (∀ t ∈ ts, t.action = .add) →
      (∀ t ∈ ts, ∀ ot ∈ old.tables, ∀ t1, t.diff d ot = .ok t1 → t1.name = t.name) → diffTables1 d old ts = .ok ts' →
      ts'.flatMap tblOut = ((ts.map (·.name)).filter (fun n => !old.tblNames.contains n)).map IStmt.create ∧
      ts'.map (·.name) = ts.map (·.name) := by
  intro ts
  induction ts with
  | nil => intro ts' _ _ hs; unfold diffTables1 at hs; have := pure_ok hs; subst this; exact ⟨rfl, rfl⟩
  | cons t rest ih =>
    intro ts' ha hdn hs
    unfold diffTables1 at hs
    obtain ⟨t', hc, hs⟩ := bind_ok hs
    obtain ⟨rest', hr, hs⟩ := bind_ok hs
    have := pure_ok hs; subst this
    obtain ⟨ih1, ih2⟩ := ih rest' (fun x hx => ha x (by simp [hx])) (fun x hx => hdn x (by simp [hx])) hr
    have hta := ha t (by simp)
    have hstep : tblOut t' = (if !old.tblNames.contains t.name then [IStmt.create t.name] else []) ∧ t'.name = t.name := by
      cases hg : old.tblIdx.get? t.name with
      | none =>
        rw [hg] at hc
        have := pure_ok hc; subst this
        have hnot : t.name ∉ old.tblNames := (hold.tbls.get?_none_iff t.name).mp hg
        have : (!old.tblNames.contains t.name) = true := by simpa using hnot
        rw [this]
        exact ⟨by simp [tblOut, hta], rfl⟩
      | some j =>
        rw [hg] at hc
        simp only at hc
        obtain ⟨ot, hot, hc⟩ := bind_ok hc
        have hotm : ot ∈ old.tables := List.mem_of_getElem? (getIdx_ok hot)
        have hin : t.name ∈ old.tblNames := by
          have := (hold.tbls.get t.name j).mp hg
          exact List.mem_of_getElem? this
        have hcont : (!old.tblNames.contains t.name) = false := by simpa using hin
        rw [hcont]
        have hex : ot.exists_ = true := by unfold Table.exists_; rw [hoa ot hotm]; rfl
        rw [if_pos hex] at hc
        obtain ⟨t1, h1, hc⟩ := bind_ok hc
        have := pure_ok hc; subst this
        exact ⟨rfl, hdn t (by simp) ot hotm t1 h1⟩
    refine ⟨?_, by simp only [List.map_cons, hstep.2, ih2]⟩
    rw [List.flatMap_cons, ih1, hstep.1, List.map_cons, List.filter_cons]
    split <;> rfl

/-- … and on the way down: the others are dropped -/
theorem diffTables1_tbl_down (d : Dialect) (old : Migration) (hold : old.Inv) (hoa : ∀ ot ∈ old.tables, ot.action = .add)
    :
    ∀ (ts ts' : List Table), (∀ t ∈ ts, t.action = .add) →
      (∀ t ∈ ts, ∀ ot ∈ old.tables, ∀ t1, t.diff d ot = .ok t1 → t1.name = t.name) → diffTables1 d old ts = .ok ts' →
      ts'.flatMap tblOutDown = ((ts.map (·.name)).filter (fun n => !old.tblNames.contains n)).map (IStmt.drop (α := String)) ∧
      ts'.map (·.name) = ts.map (·.name) := by
  intro ts
  induction ts with
  | nil => intro ts' _ _ hs; unfold diffTables1 at hs; have := pure_ok hs; subst this; exact ⟨rfl, rfl⟩
  | cons t rest ih =>
    intro ts' ha hdn hs
    unfold diffTables1 at hs
    obtain ⟨t', hc, hs⟩ := bind_ok hs
    obtain ⟨rest', hr, hs⟩ := bind_ok hs
    have := pure_ok hs; subst this
    obtain ⟨ih1, ih2⟩ := ih rest' (fun x hx => ha x (by simp [hx])) (fun x hx => hdn x (by simp [hx])) hr
    have hta := ha t (by simp)
    have hstep : tblOutDown t' = (if !old.tblNames.contains t.name then [(IStmt.drop (α := String)) t.name] else []) ∧ t'.name = t.name := by
      cases hg : old.tblIdx.get? t.name with
      | none =>
        rw [hg] at hc
        have := pure_ok hc; subst this
        have hnot : t.name ∉ old.tblNames := (hold.tbls.get?_none_iff t.name).mp hg
        have : (!old.tblNames.contains t.name) = true := by simpa using hnot
        rw [this]
        exact ⟨by simp [tblOutDown, hta], rfl⟩
      | some j =>
        rw [hg] at hc
        simp only at hc
        obtain ⟨ot, hot, hc⟩ := bind_ok hc
        have hotm : ot ∈ old.tables := List.mem_of_getElem? (getIdx_ok hot)
        have hin : t.name ∈ old.tblNames := by
          have := (hold.tbls.get t.name j).mp hg
          exact List.mem_of_getElem? this
        have hcont : (!old.tblNames.contains t.name) = false := by simpa using hin
        rw [hcont]
        have hex : ot.exists_ = true := by unfold Table.exists_; rw [hoa ot hotm]; rfl
        rw [if_pos hex] at hc
        obtain ⟨t1, h1, hc⟩ := bind_ok hc
        have := pure_ok hc; subst this
        exact ⟨rfl, hdn t (by simp) ot hotm t1 h1⟩
    refine ⟨?_, by simp only [List.map_cons, hstep.2, ih2]⟩
    rw [List.flatMap_cons, ih1, hstep.1, List.map_cons, List.filter_cons]
    split <;> rfl

/-- second table loop: the old side's tables without a namesake are appended, tagged `remove` -/
theorem diffTables2_appends : ∀ (ots : List Table) (m m' : Migration), m.Inv → (∀ ot ∈ ots, ot.Inv) →
    (ots.map (·.name)).Nodup → (∀ ot ∈ ots, ot.action = .add) → diffTables2 m ots = .ok m' →
    m'.tables = m.tables ++ (ots.filter (fun ot => !m.tblNames.contains ot.name)).map (fun ot => { ot with action := .remove }) := by
  intro ots
  induction ots with
  | nil =>
    intro m m' _ _ _ _ hs
    unfold diffTables2 at hs
    have := pure_ok hs; subst this
    simp
  | cons ot rest ih =>
    intro m m' hi hall hnd ha hs
    rw [List.map_cons, List.nodup_cons] at hnd
    unfold diffTables2 at hs
    obtain ⟨m1, h1, hs⟩ := bind_ok hs
    have hoa := ha ot (by simp)
    have hoi := hall ot (by simp)
    by_cases hmem : ot.name ∈ m.tblNames
    · have hg : (m.tblIdx.get? ot.name).isNone = false := by
        cases hc : m.tblIdx.get? ot.name with
        | none => exact absurd hmem ((hi.tbls.get?_none_iff _).mp hc)
        | some _ => rfl
      rw [hg] at h1
      simp only [Bool.false_and, Bool.false_eq_true, if_false] at h1
      have := pure_ok h1; subst this
      rw [ih m m' hi (fun x hx => hall x (by simp [hx])) hnd.2 (fun x hx => ha x (by simp [hx])) hs, List.filter_cons]
      have : (!m.tblNames.contains ot.name) = false := by simpa using hmem
      rw [this]
      rfl
    · have hgn : m.tblIdx.get? ot.name = none := (hi.tbls.get?_none_iff _).mpr hmem
      have hex : ot.exists_ = true := by unfold Table.exists_; rw [hoa]; rfl
      rw [hgn, hex] at h1
      simp only [Option.isNone_none, Bool.and_self, if_true] at h1
      have hm1 : m1 = { m with tables := m.tables ++ [{ ot with action := .remove }]
                               tblIdx := m.tblIdx.set ot.name m.tables.length } := by
        unfold addTable at h1
        have hg' : m.tblIdx.get? ({ ot with action := Action.remove } : Table).name = none := hgn
        rw [hg'] at h1
        exact (pure_ok h1).symm
      have hi1 : m1.Inv := addTable_inv m m1 { ot with action := .remove } hi ⟨hoi.cols, hoi.idxs, hoi.fks⟩ h1
      rw [ih m1 m' hi1 (fun x hx => hall x (by simp [hx])) hnd.2 (fun x hx => ha x (by simp [hx])) hs, hm1, List.filter_cons]
      have : (!m.tblNames.contains ot.name) = true := by simpa using hmem
      rw [this]
      simp only [if_true, List.map_cons, List.append_assoc, List.singleton_append]
      congr 3
      apply List.filter_congr
      intro x hx
      have hne : x.name ≠ ot.name := fun he => hnd.1 (he ▸ List.mem_map_of_mem hx)
      show (!(List.map (fun y : Table => y.name) (m.tables ++ [{ ot with action := Action.remove }])).contains x.name) = _
      rw [List.map_append]
      simp [List.contains_eq_mem, hne, tblNames]

end Migration

/-- **C01, table clause, end to end** (MySQL reader model).  For two scripts of any length the reference engine accepts,
    neither schema having a table called like the default bookkeeping table: `Diff` and `MigrationUp` return, and the
    CREATE TABLE / DROP TABLE statements printed are exactly — a table only the new schema has is created, in the new
    schema's order, a table only the old schema has is dropped, a table both have gets neither — `Abs.Idx.emitKeep` of
    the two lists of table names; executed on the old table names they are well-formed at every step and give the new
    table names up to order. -/
theorem tables_end_to_end (g : Globals) (hg : g.dialect = .mysql) (rc : Bool) (old new : List Stmt) (dbO dbN : DB)
    (ho : old.all Stmt.elemSafe = true) (hn : new.all Stmt.elemSafe = true)
    (heo : execAll rc [] old = some dbO) (hen : execAll rc [] new = some dbN)
    (hdef : ∀ tb ∈ dbO ++ dbN, tb.name ≠ Migration.defaultMigrationTable) :
    ∃ d out outD, loadAndDiff g old new = .ok d ∧ d.migrationUp g = .ok (d, out) ∧ d.migrationDown g = .ok (d, outD) ∧
      out.flatten.filterMap tblStmt = emitKeep (dbN.map (·.name)) (dbO.map (·.name)) ∧
      (∃ R, execAll (dbO.map (·.name)) (out.flatten.filterMap tblStmt) = some R ∧ R.Perm (dbN.map (·.name))) ∧
      outD.flatten.filterMap tblStmt = emitDownKeep (dbN.map (·.name)) (dbO.map (·.name)) ∧
      (∃ R, execAll (dbN.map (·.name)) (outD.flatten.filterMap tblStmt) = some R ∧ R.Perm (dbO.map (·.name))) := by
  obtain ⟨d, outU, outD, hd, hU, hD⟩ := diff_print_total g hg rc old new dbO dbN ho hn heo hen
  obtain ⟨mo, hmo', hro, heo'⟩ := ReaderMysql.run_elems rc old {} [] dbO Rel.empty ElemsOK.empty ho heo
  obtain ⟨mn, hmn', hrn, hen'⟩ := ReaderMysql.run_elems rc new {} [] dbN Rel.empty ElemsOK.empty hn hen
  have e1 : readScript g {} old = .ok mo := by unfold readScript; rw [hg]; exact hmo'
  have e2 : readScript g {} new = .ok mn := by unfold readScript; rw [hg]; exact hmn'
  have hd' : mn.diff g.dialect mo = .ok d := by
    unfold loadAndDiff at hd
    simp only [e1, e2, bind, Except.bind] at hd
    exact hd
  -- the table list `Diff` leaves
  have hd'' := hd'
  unfold Migration.diff at hd''
  obtain ⟨ts, h1, h2⟩ := bind_ok hd''
  have hdn : ∀ t ∈ mn.tables, ∀ ot ∈ mo.tables, ∀ t1, t.diff g.dialect ot = .ok t1 → t1.name = t.name :=
    fun t ht ot hot t1 h => (Table.diff_inv g.dialect t ot t1 (hrn.inv.each t ht) (hro.inv.each ot hot) (hrn.np t ht) h).2
  obtain ⟨htbl1, hnames⟩ := Migration.diffTables1_tbl g.dialect mo hro.inv (fun ot hot => (hro.fresh ot hot).2) mn.tables ts
    (fun t ht => (hrn.fresh t ht).2) hdn h1
  obtain ⟨_, hinvs⟩ := Migration.diffTables1_inv g.dialect mo hro.inv mn.tables ts
    (fun t ht => ⟨hrn.inv.each t ht, hrn.np t ht⟩) h1
  have hm1 : Migration.Inv { mn with tables := ts } :=
    ⟨by show NInv (ts.map (·.name)) _; rw [hnames]; exact hrn.inv.tbls, hinvs⟩
  have happ := Migration.diffTables2_appends mo.tables { mn with tables := ts } d hm1 hro.inv.each hro.inv.tbls.nodup
    (fun ot hot => (hro.fresh ot hot).2) h2
  have hts : Migration.tblNames { mn with tables := ts } = mn.tblNames := hnames
  rw [hts] at happ
  -- names on the reference side
  have hNn : dbN.map (·.name) = mn.tblNames := hrn.names
  have hOn : dbO.map (·.name) = mo.tblNames := hro.names
  -- the table-level content of the printed migration
  have hdinv := Migration.diff_inv g.dialect mn mo d hrn.inv hro.inv hrn.np hd'
  have hmemname : ∀ t ∈ d.tables, t.name ∈ mn.tblNames ∨ t.name ∈ mo.tblNames := by
    intro t ht
    rw [happ] at ht
    rcases List.mem_append.mp ht with h | h
    · left
      have : t.name ∈ ts.map (·.name) := List.mem_map_of_mem h
      rw [hnames] at this; exact this
    · right
      obtain ⟨ot, hot, rfl⟩ := List.mem_map.mp h
      have h1 : ot.name ∈ mo.tblNames := List.mem_map_of_mem (f := fun x : Table => x.name) (List.mem_filter.mp hot).1
      exact h1
  have hall : ∀ t ∈ d.tables, t.name ≠ Migration.defaultMigrationTable ∧ t.arrange = .ok t := by
    intro t ht
    refine ⟨?_, arrange_id t (hdinv.each t ht).colInv⟩
    rcases hmemname t ht with h | h
    · rw [← hNn] at h
      obtain ⟨tb, htb, he⟩ := List.mem_map.mp h
      rw [← he]; exact hdef tb (List.mem_append_right _ htb)
    · rw [← hOn] at h
      obtain ⟨tb, htb, he⟩ := List.mem_map.mp h
      rw [← he]; exact hdef tb (List.mem_append_left _ htb)
  have hmig : ∃ ts', Migration.migrate g true d.tables = .ok (ts', outU) := by
    unfold Migration.migrationUp at hU
    obtain ⟨⟨ts', o'⟩, hm, hU⟩ := bind_ok hU
    have := pure_ok hU
    have ho : o' = outU := congrArg Prod.snd this
    exact ⟨ts', by rw [← ho]; exact hm⟩
  obtain ⟨ts', hmig⟩ := hmig
  have hproj := Migration.migrate_tbl g d.tables ts' outU hall hmig
  have hemit : outU.flatten.filterMap tblStmt = emitKeep (dbN.map (·.name)) (dbO.map (·.name)) := by
    rw [hproj, happ, List.flatMap_append, htbl1, hNn, hOn]
    unfold emitKeep
    congr 1
    · simp [names, Named.name]
    · rw [List.flatMap_map]
      simp only [names, Named.name, List.map_id, id]
      have : ∀ l : List Table, (l.filter (fun ot => !mn.tblNames.contains ot.name)).flatMap
            (fun ot => tblOut { ot with action := .remove }) =
          ((l.map (·.name)).filter (fun o => !mn.tblNames.contains o)).map (fun o => IStmt.drop o) := by
        intro l
        induction l with
        | nil => rfl
        | cons a r ih =>
          rw [List.filter_cons, List.map_cons, List.filter_cons]
          split
          · rw [List.flatMap_cons, List.map_cons, ih]; rfl
          · exact ih
      exact this mo.tables
  -- the down direction
  obtain ⟨htbl1d, _⟩ := Migration.diffTables1_tbl_down g.dialect mo hro.inv (fun ot hot => (hro.fresh ot hot).2) mn.tables ts
    (fun t ht => (hrn.fresh t ht).2) hdn h1
  have hmigD : ∃ ts', Migration.migrate g false d.tables = .ok (ts', outD) := by
    unfold Migration.migrationDown at hD
    obtain ⟨⟨ts', o'⟩, hm, hD⟩ := bind_ok hD
    have := pure_ok hD
    have ho : o' = outD := congrArg Prod.snd this
    exact ⟨ts', by rw [← ho]; exact hm⟩
  obtain ⟨tsD, hmigD⟩ := hmigD
  have hprojD := Migration.migrate_tbl_down g d.tables tsD outD hall hmigD
  have hemitD : outD.flatten.filterMap tblStmt = emitDownKeep (dbN.map (·.name)) (dbO.map (·.name)) := by
    rw [hprojD, happ, List.flatMap_append, htbl1d, hNn, hOn]
    unfold emitDownKeep
    congr 1
    · simp [names, Named.name]
    · rw [List.flatMap_map]
      simp only [names, Named.name, List.map_id, id]
      have : ∀ l : List Table, (l.filter (fun ot => !mn.tblNames.contains ot.name)).flatMap
            (fun ot => tblOutDown { ot with action := .remove }) =
          ((l.map (·.name)).filter (fun o => !mn.tblNames.contains o)).map (fun o => IStmt.create o) := by
        intro l
        induction l with
        | nil => rfl
        | cons a r ih =>
          rw [List.filter_cons, List.map_cons, List.filter_cons]
          split
          · rw [List.flatMap_cons, List.map_cons, ih]; rfl
          · exact ih
      exact this mo.tables
  have hndN : (names (dbN.map (·.name))).Nodup := by
    show ((dbN.map (·.name)).map id).Nodup
    rw [List.map_id]; exact hrn.nodup
  have hndO : (names (dbO.map (·.name))).Nodup := by
    show ((dbO.map (·.name)).map id).Nodup
    rw [List.map_id]; exact hro.nodup
  have hnr : ∀ s ∈ dbN.map (·.name), ∀ o ∈ dbO.map (·.name), Named.name s = Named.name o → s = o :=
    fun s _ o _ h => h
  refine ⟨d, outU, outD, hd, hU, hD, hemit, ?_, hemitD, ?_⟩
  · rw [hemit]; exact emitKeep_correct _ _ hndN hndO hnr
  · rw [hemitD]; exact emitDownKeep_correct _ _ hndN hndO hnr

end Sqlize
