/-
  Proofs/DiffSame.lean — **`Diff` of two models with equal live content leaves every element without action**, on the
  implementation model (the part C03 was missing).

  `Table.Same d t o`: every column of `t` has a column of the same name in `o` whose options and type compare equal
  (`hasChangedOptions = false`, `hasChangedType = ok false`), every index of `t` has an index of the same name in `o`
  with the same uniqueness, column list and (normalised) index type, the foreign-key names agree, and nothing of `o` is
  missing from `t`.  Column *order* is not part of it: `Table.Diff` never compares positions of common columns.

  For two fresh (every action `add`), consistent (`Inv`) tables that are `Same`:

    * `Table.diff` returns (no panic), and every column and index of the result carries no action, every foreign key the
      `modify` tag `Table.Diff` puts on a key found on both sides — for which nothing is printed (`Table.Quiet`);
    * at `Migration` level: `Migration.diff` returns a state whose tables are all `Quiet`, hence (Proofs/Quiet.lean)
      `MigrationUp` and `MigrationDown` print nothing.
-/
import SqlizeModel.Proofs.DiffInv
import SqlizeModel.Proofs.Quiet
import SqlizeModel.Proofs.InvLink

namespace Sqlize

/-- a record that is in the slice is found through the map -/
theorem NInv.getIdx_of_mem {α : Type} {f : α → String} {l : List α} {m : AMap} (h : NInv (l.map f) m) {x : α}
    (hx : x ∈ l) (site : String) : ∃ j, m.get? (f x) = some j ∧ getIdx site l j = .ok x := by
  obtain ⟨j, hj⟩ := List.mem_iff_getElem?.mp hx
  refine ⟨j, (h.get (f x) j).mpr (by simp [hj]), ?_⟩
  unfold getIdx
  rw [hj]
  rfl

/-- a name that is in the slice is in the map -/
theorem NInv.get?_ne_none {names : List String} {m : AMap} (h : NInv names m) {n : String} (hn : n ∈ names) :
    m.get? n ≠ none := fun hg => (h.get?_none_iff n).mp hg hn

namespace Table

/-- every element was created by the history that was read (no tombstone, no pending modify / rename) -/
structure Fresh (t : Table) : Prop where
  cols : ∀ c ∈ t.cols, c.action = .add
  idxs : ∀ i ∈ t.idxs, i.action = .add
  fks : ∀ f ∈ t.fks, f.action = .add

/-- what `Table.Diff`'s first loop compares for a column found on both sides -/
def colSame (d : Dialect) (c oc : Column) : Prop :=
  hasChangedOptions c.cur.opts oc.cur.opts = false ∧ hasChangedType d c.cur.typ oc.cur.typ = .ok false

/-- what `Table.Diff` compares for an index found on both sides -/
def idxSame (i oi : Index) : Prop :=
  i.typ = oi.typ ∧ i.cols = oi.cols ∧ normIdxType i.indexType = normIdxType oi.indexType

structure Same (d : Dialect) (t o : Table) : Prop where
  cols : ∀ c ∈ t.cols, ∃ oc ∈ o.cols, oc.name = c.name ∧ colSame d c oc
  colsBack : ∀ oc ∈ o.cols, oc.name ∈ t.colNames
  idxs : ∀ i ∈ t.idxs, ∃ oi ∈ o.idxs, oi.name = i.name ∧ idxSame i oi
  idxsBack : ∀ oi ∈ o.idxs, oi.name ∈ t.idxNames
  fks : ∀ f ∈ t.fks, f.name ∈ o.fkNames
  fksBack : ∀ f ∈ o.fks, f.name ∈ t.fkNames

theorem colSame_refl (d : Dialect) (c : Column) : colSame d c c := by
  refine ⟨hasChangedOptions_refl _, ?_⟩
  unfold hasChangedType
  cases d <;> cases c.cur.typ <;> simp [pure, Except.pure]

theorem same_refl (d : Dialect) (t : Table) : Same d t t :=
  ⟨fun c hc => ⟨c, hc, rfl, colSame_refl d c⟩, fun oc hoc => List.mem_map.mpr ⟨oc, hoc, rfl⟩,
   fun i hi => ⟨i, hi, rfl, rfl, rfl, rfl⟩, fun oi hoi => List.mem_map.mpr ⟨oi, hoi, rfl⟩,
   fun f hf => List.mem_map.mpr ⟨f, hf, rfl⟩, fun f hf => List.mem_map.mpr ⟨f, hf, rfl⟩⟩

/-- executable form of `Same` (used for the non-vacuity examples) -/
def sameB (d : Dialect) (t o : Table) : Bool :=
  t.cols.all (fun c => o.cols.any (fun oc => oc.name == c.name && !hasChangedOptions c.cur.opts oc.cur.opts &&
    (match hasChangedType d c.cur.typ oc.cur.typ with | .ok false => true | _ => false))) &&
  o.cols.all (fun oc => t.colNames.contains oc.name) &&
  t.idxs.all (fun i => o.idxs.any (fun oi => oi.name == i.name && i.typ == oi.typ && i.cols == oi.cols &&
    normIdxType i.indexType == normIdxType oi.indexType)) &&
  o.idxs.all (fun oi => t.idxNames.contains oi.name) &&
  t.fks.all (fun f => o.fkNames.contains f.name) && o.fks.all (fun f => t.fkNames.contains f.name)

theorem same_of_sameB (d : Dialect) (t o : Table) (h : sameB d t o = true) : Same d t o := by
  unfold sameB at h
  simp only [Bool.and_eq_true] at h
  obtain ⟨⟨⟨⟨⟨h1, h2⟩, h3⟩, h4⟩, h5⟩, h6⟩ := h
  refine ⟨?_, ?_, ?_, ?_, ?_, ?_⟩
  · intro c hc
    obtain ⟨oc, hoc, hp⟩ := List.any_eq_true.mp (List.all_eq_true.mp h1 c hc)
    simp only [Bool.and_eq_true, beq_iff_eq, Bool.not_eq_true'] at hp
    refine ⟨oc, hoc, hp.1.1, hp.1.2, ?_⟩
    have := hp.2
    split at this
    · assumption
    · cases this
  · intro oc hoc; simpa using List.all_eq_true.mp h2 oc hoc
  · intro i hi
    obtain ⟨oi, hoi, hp⟩ := List.any_eq_true.mp (List.all_eq_true.mp h3 i hi)
    simp only [Bool.and_eq_true, beq_iff_eq] at hp
    exact ⟨oi, hoi, hp.1.1.1, hp.1.1.2, hp.1.2, hp.2⟩
  · intro oi hoi; simpa using List.all_eq_true.mp h4 oi hoi
  · intro f hf; simpa using List.all_eq_true.mp h5 f hf
  · intro f hf; simpa using List.all_eq_true.mp h6 f hf

theorem fresh_of_lists (t : Table) (h1 : t.cols.all (·.action == .add) = true) (h2 : t.idxs.all (·.action == .add) = true)
    (h3 : t.fks.all (·.action == .add) = true) : t.Fresh :=
  ⟨fun c hc => by simpa using (List.all_eq_true.mp h1) c hc, fun c hc => by simpa using (List.all_eq_true.mp h2) c hc,
   fun c hc => by simpa using (List.all_eq_true.mp h3) c hc⟩

/-- first column loop on equal content: every column comes out with no action, nothing else touched -/
theorem diffCols1_same (d : Dialect) (old : Table) (hold : old.Inv) (hof : ∀ c ∈ old.cols, c.action = .add) :
    ∀ cols : List Column, (∀ c ∈ cols, c.action = .add ∧ ∃ oc ∈ old.cols, oc.name = c.name ∧ colSame d c oc) →
      diffCols1 d old cols = .ok (cols.map (fun c => { c with action := .none })) := by
  intro cols
  induction cols with
  | nil => intro _; rfl
  | cons c rest ih =>
    intro h
    obtain ⟨ha, oc, hoc, hn, hso, hst⟩ := h c (by simp)
    have hr := ih (fun x hx => h x (by simp [hx]))
    obtain ⟨j, hg, hgi⟩ := NInv.getIdx_of_mem (f := fun x : Column => x.name) hold.cols hoc "Table.Diff"
    rw [hn] at hg
    unfold diffCols1
    rw [hr]
    simp only [ha, hg, hgi, hof oc hoc, hso, hst, bind, Except.bind, pure, Except.pure, List.map_cons]
    rfl

/-- second column loop when every old column is present: nothing is merged in -/
theorem diffCols2_present (mysql : Bool) : ∀ (ocs : List Column) (t : Table) (before : List Column),
    (∀ oc ∈ ocs, t.colIdx.get? oc.name ≠ none) → diffCols2 mysql t before ocs = .ok t := by
  intro ocs
  induction ocs with
  | nil => intro t before _; rfl
  | cons oc rest ih =>
    intro t before h
    have h1 : (t.colIdx.get? oc.name).isNone = false := by
      cases hg : t.colIdx.get? oc.name with
      | none => exact absurd hg (h oc (by simp))
      | some _ => rfl
    unfold diffCols2
    simp only [h1, Bool.and_false, bind, Except.bind, pure, Except.pure]
    exact ih t _ (fun x hx => h x (by simp [hx]))

theorem diffIdx1_same (old : Table) (hold : old.Inv) (hof : ∀ i ∈ old.idxs, i.action = .add) :
    ∀ is : List Index, (∀ i ∈ is, i.action = .add ∧ ∃ oi ∈ old.idxs, oi.name = i.name ∧ idxSame i oi) →
      diffIdx1 old is = .ok (is.map (fun i => { i with action := .none })) := by
  intro is
  induction is with
  | nil => intro _; rfl
  | cons i rest ih =>
    intro h
    obtain ⟨ha, oi, hoi, hn, h1, h2, h3⟩ := h i (by simp)
    have hr := ih (fun x hx => h x (by simp [hx]))
    obtain ⟨j, hg, hgi⟩ := NInv.getIdx_of_mem (f := fun x : Index => x.name) hold.idxs hoi "Table.Diff"
    rw [hn] at hg
    unfold diffIdx1
    rw [hr]
    simp only [ha, hg, hgi, hof oi hoi, h1, h2, h3, bind, Except.bind, pure, Except.pure, List.map_cons]
    simp

theorem diffIdx2_present : ∀ (ois : List Index) (t : Table),
    (∀ oi ∈ ois, t.idxIdx.get? oi.name ≠ none) → diffIdx2 t ois = .ok t := by
  intro ois
  induction ois with
  | nil => intro t _; rfl
  | cons oi rest ih =>
    intro t h
    have h1 : (t.idxIdx.get? oi.name).isNone = false := by
      cases hg : t.idxIdx.get? oi.name with
      | none => exact absurd hg (h oi (by simp))
      | some _ => rfl
    unfold diffIdx2
    simp only [h1, Bool.and_false, bind, Except.bind, pure, Except.pure]
    exact ih t (fun x hx => h x (by simp [hx]))

/-- the foreign-key loop on equal names: every key comes out as the old record tagged `modify` -/
theorem diffFk1_same (old : Table) (hold : old.Inv) (hof : ∀ f ∈ old.fks, f.action = .add) :
    ∀ fs : List ForeignKey, (∀ f ∈ fs, f.action = .add ∧ f.name ∈ old.fkNames) →
      ∃ fs', diffFk1 old fs = .ok fs' ∧ ∀ f ∈ fs', f.action = .modify := by
  intro fs
  induction fs with
  | nil => intro _; exact ⟨[], rfl, by simp⟩
  | cons f rest ih =>
    intro h
    obtain ⟨ha, hmem⟩ := h f (by simp)
    obtain ⟨fs', hr, hall⟩ := ih (fun x hx => h x (by simp [hx]))
    obtain ⟨of_, hof_, hn⟩ := List.mem_map.mp hmem
    obtain ⟨j, hg, hgi⟩ := NInv.getIdx_of_mem (f := fun x : ForeignKey => x.name) hold.fks hof_ "Table.Diff"
    rw [hn] at hg
    refine ⟨{ of_ with action := .modify } :: fs', ?_, ?_⟩
    · unfold diffFk1
      rw [hr]
      simp only [ha, hg, hgi, hof of_ hof_, bind, Except.bind, pure, Except.pure]
      rfl
    · intro x hx
      rcases List.mem_cons.mp hx with rfl | hx
      · rfl
      · exact hall x hx

theorem diffFk2_present : ∀ (ofs : List ForeignKey) (t : Table),
    (∀ f ∈ ofs, t.fkIdx.get? f.name ≠ none) → diffFk2 t ofs = .ok t := by
  intro ofs
  induction ofs with
  | nil => intro t _; rfl
  | cons f rest ih =>
    intro t h
    have h1 : (t.fkIdx.get? f.name).isNone = false := by
      cases hg : t.fkIdx.get? f.name with
      | none => exact absurd hg (h f (by simp))
      | some _ => rfl
    unfold diffFk2
    simp only [h1, Bool.and_false, bind, Except.bind, pure, Except.pure]
    exact ih t (fun x hx => h x (by simp [hx]))

/-- **`Table.Diff` on equal content**: it returns, and leaves no action on any column or index and the silent `modify`
    tag on every foreign key -/
theorem diff_same (d : Dialect) (t o : Table) (h : t.Inv) (ho : o.Inv) (hf : t.Fresh) (hof : o.Fresh)
    (hs : Same d t o) :
    ∃ t', t.diff d o = .ok t' ∧ t'.name = t.name ∧ t'.action = t.action ∧
      t'.cols = t.cols.map (fun c => { c with action := .none }) ∧
      t'.idxs = t.idxs.map (fun i => { i with action := .none }) ∧
      (∀ f ∈ t'.fks, f.action = .modify) ∧ t'.Inv := by
  have h1 := diffCols1_same d o ho hof.cols t.cols (fun c hc => ⟨hf.cols c hc, hs.cols c hc⟩)
  have h2 := diffCols2_present (d == .mysql) o.cols { t with cols := t.cols.map (fun c => { c with action := .none }) } []
    (fun oc hoc => NInv.get?_ne_none h.cols (hs.colsBack oc hoc))
  have h3 := diffIdx1_same o ho hof.idxs t.idxs (fun i hi => ⟨hf.idxs i hi, hs.idxs i hi⟩)
  have h4 := diffIdx2_present o.idxs
    { t with cols := t.cols.map (fun c => { c with action := .none }), idxs := t.idxs.map (fun i => { i with action := .none }) }
    (fun oi hoi => NInv.get?_ne_none h.idxs (hs.idxsBack oi hoi))
  obtain ⟨fks, h5, hall⟩ := diffFk1_same o ho hof.fks t.fks (fun f hf' => ⟨hf.fks f hf', hs.fks f hf'⟩)
  have h6 := diffFk2_present o.fks
    { t with cols := t.cols.map (fun c => { c with action := .none }), idxs := t.idxs.map (fun i => { i with action := .none }),
             fks := fks }
    (fun f hf' => NInv.get?_ne_none h.fks (hs.fksBack f hf'))
  refine ⟨{ t with cols := t.cols.map (fun c => { c with action := .none }),
                   idxs := t.idxs.map (fun i => { i with action := .none }),
                   fks := fks }, ?_, rfl, rfl, rfl, rfl, hall, ?_⟩
  · unfold diff
    simp only [h1, bind, Except.bind, h2, h3, h4, h5, h6]
  · have hfn := diffFk1_names o ho t.fks fks h5
    refine ⟨?_, ?_, ?_⟩
    · show NInv ((t.cols.map (fun c : Column => { c with action := .none })).map (fun x : Column => x.name)) t.colIdx
      rw [List.map_map]
      exact h.cols
    · show NInv ((t.idxs.map (fun i : Index => { i with action := .none })).map (fun x : Index => x.name)) t.idxIdx
      rw [List.map_map]
      exact h.idxs
    · show NInv (fks.map (fun x : ForeignKey => x.name)) t.fkIdx
      rw [hfn]
      exact h.fks

end Table

namespace Migration

/-- every table and every element was created by the history that was read -/
structure Fresh (m : Migration) : Prop where
  tables : ∀ t ∈ m.tables, t.Fresh ∧ t.action = .add

/-- equal live content: the same table names, and `Table.Same` for the tables of one name -/
structure Same (d : Dialect) (m o : Migration) : Prop where
  tables : ∀ t ∈ m.tables, ∃ ot ∈ o.tables, ot.name = t.name ∧ Table.Same d t ot
  back : ∀ ot ∈ o.tables, ot.name ∈ m.tblNames

theorem same_refl (d : Dialect) (m : Migration) : Same d m m :=
  ⟨fun t ht => ⟨t, ht, rfl, Table.same_refl d t⟩, fun ot hot => List.mem_map.mpr ⟨ot, hot, rfl⟩⟩

theorem diffTables1_same (d : Dialect) (old : Migration) (hold : old.Inv) (hof : old.Fresh) :
    ∀ ts : List Table, (∀ t ∈ ts, t.Inv ∧ t.Fresh ∧ ∃ ot ∈ old.tables, ot.name = t.name ∧ Table.Same d t ot) →
      ∃ ts', diffTables1 d old ts = .ok ts' ∧ ts'.map (·.name) = ts.map (·.name) ∧
        ∀ t ∈ ts', t.Quiet ∧ t.Inv := by
  intro ts
  induction ts with
  | nil => intro _; exact ⟨[], rfl, rfl, by simp⟩
  | cons t rest ih =>
    intro h
    obtain ⟨hi, hf, ot, hot, hn, hs⟩ := h t (by simp)
    obtain ⟨ts', hr, hnames, hall⟩ := ih (fun x hx => h x (by simp [hx]))
    obtain ⟨j, hg, hgi⟩ := NInv.getIdx_of_mem (f := fun x : Table => x.name) hold.tbls hot "Migration.Diff"
    rw [hn] at hg
    obtain ⟨hotf, hota⟩ := hof.tables ot hot
    obtain ⟨t1, hd, h1n, _, h1c, h1i, h1f, h1inv⟩ := Table.diff_same d t ot hi (hold.each ot hot) hf hotf hs
    refine ⟨{ t1 with action := .none } :: ts', ?_, ?_, ?_⟩
    · unfold diffTables1
      rw [hr]
      simp only [hg, hgi, Table.exists_, hota, hd, bind, Except.bind, pure, Except.pure]
      rfl
    · simp only [List.map_cons, h1n, hnames]
    · intro x hx
      rcases List.mem_cons.mp hx with rfl | hx
      · refine ⟨⟨rfl, ?_, ?_, ?_⟩, ⟨h1inv.cols, h1inv.idxs, h1inv.fks⟩⟩
        · intro c hc
          rw [show (Table.cols { t1 with action := Action.none }) = t1.cols from rfl, h1c] at hc
          obtain ⟨c0, _, rfl⟩ := List.mem_map.mp hc
          rfl
        · intro i hi'
          rw [show (Table.idxs { t1 with action := Action.none }) = t1.idxs from rfl, h1i] at hi'
          obtain ⟨i0, _, rfl⟩ := List.mem_map.mp hi'
          rfl
        · intro f hf'
          exact Or.inr (h1f f hf')
      · exact hall x hx

theorem diffTables2_present : ∀ (ots : List Table) (m : Migration),
    (∀ ot ∈ ots, m.tblIdx.get? ot.name ≠ none) → diffTables2 m ots = .ok m := by
  intro ots
  induction ots with
  | nil => intro m _; rfl
  | cons ot rest ih =>
    intro m h
    have h1 : (m.tblIdx.get? ot.name).isNone = false := by
      cases hg : m.tblIdx.get? ot.name with
      | none => exact absurd hg (h ot (by simp))
      | some _ => rfl
    unfold diffTables2
    simp only [h1, Bool.false_and, bind, Except.bind, pure, Except.pure]
    exact ih m (fun x hx => h x (by simp [hx]))

/-- **`Migration.Diff` on equal content**: it returns, keeps the table list's names and map, and every table is quiet -/
theorem diff_same (d : Dialect) (m o : Migration) (h : m.Inv) (ho : o.Inv) (hf : m.Fresh) (hof : o.Fresh)
    (hs : Same d m o) :
    ∃ dm, m.diff d o = .ok dm ∧ dm.tblNames = m.tblNames ∧ dm.tblIdx = m.tblIdx ∧ ∀ t ∈ dm.tables, t.Quiet ∧ t.Inv := by
  obtain ⟨ts, h1, hn, hall⟩ := diffTables1_same d o ho hof m.tables
    (fun t ht => ⟨h.each t ht, (hf.tables t ht).1, hs.tables t ht⟩)
  have h2 := diffTables2_present o.tables { m with tables := ts }
    (fun ot hot => NInv.get?_ne_none h.tbls (hs.back ot hot))
  refine ⟨{ m with tables := ts }, ?_, hn, rfl, hall⟩
  unfold diff
  simp only [h1, bind, Except.bind, h2]

/-- quiet, arrange-stable tables: `MigrationUp` / `MigrationDown` return, print nothing and leave the state alone -/
theorem migrate_quiet_total (g : Globals) (up : Bool) : ∀ ts : List Table,
    (∀ t ∈ ts, t.Quiet ∧ t.arrange = .ok t) → migrate g up ts = .ok (ts, []) := by
  intro ts
  induction ts with
  | nil => intro _; rfl
  | cons t r ih =>
    intro h
    obtain ⟨hq, ha⟩ := h t (by simp)
    have hr := ih (fun x hx => h x (by simp [hx]))
    obtain ⟨hc, hi, hfk⟩ := quiet_prints_nothing g up t hq
    unfold migrate
    split
    · simp only [hr, bind, Except.bind, pure, Except.pure]
    · simp only [ha, hr, bind, Except.bind, pure, Except.pure]
      cases up
      · simp only [Bool.false_eq_true, if_false] at hc hi hfk ⊢
        simp [hc, hi, hfk]
      · simp only [if_true] at hc hi hfk ⊢
        simp [hc, hi, hfk]

/-- **equal content ⇒ empty migration, both directions, no panic** -/
theorem same_prints_nothing (g : Globals) (d : Dialect) (m o : Migration) (h : m.Inv) (ho : o.Inv) (hf : m.Fresh)
    (hof : o.Fresh) (hs : Same d m o) :
    ∃ dm, m.diff d o = .ok dm ∧ dm.migrationUp g = .ok (dm, []) ∧ dm.migrationDown g = .ok (dm, []) := by
  obtain ⟨dm, hd, _, _, hall⟩ := diff_same d m o h ho hf hof hs
  have hq : ∀ t ∈ dm.tables, t.Quiet ∧ t.arrange = .ok t :=
    fun t ht => ⟨(hall t ht).1, arrange_id t (hall t ht).2.colInv⟩
  refine ⟨dm, hd, ?_, ?_⟩
  · unfold migrationUp
    simp only [migrate_quiet_total g true dm.tables hq, bind, Except.bind, pure, Except.pure]
  · unfold migrationDown
    simp only [migrate_quiet_total g false dm.tables hq, bind, Except.bind, pure, Except.pure]

end Migration
end Sqlize
