/-
  Proofs/CaseOnly.lean — C10, keyword case: the lower-case option changes the letter case of what a statement prints
  and nothing else.  `Stmt.render` under the option and without it give texts that are equal after ASCII lower-casing —
  for every statement, dialect and argument (identifiers, literals, comments, type names of any spelling).
  The argument: the option reaches the text through `Globals.tpl` (the template is lower-cased *before* substitution) and
  `Globals.kw` (option keywords) only; `fmt.Sprintf`'s scanner (`sprintfAux`) sees the same verbs in a template and in
  its lower-casing, provided no `%` of the template is followed by a capital `S`, `D` or `T` (`okTpl`: true of every
  regenerated template, `templates_ok`, by kernel evaluation of `Generated/Facts.lean`; an index type given by the user is
  part of the template text, hence the hypothesis `Stmt.usingOK`).
  The first attempt needed one more hypothesis — no column definition whose PRIMARY KEY is stripped (`stripPk`) — because
  the code cut the keyword out of the *rendered* definition (`strings.Replace`), and a comment containing the words was hit
  first: run on the real code, the excluded point was a genuine defect (the comment literal was cut, the key re-declared);
  it is repaired in /repo (the option is skipped instead), the model follows, and the hypothesis is gone.
-/
import SqlizeModel.Impl.Render

namespace Sqlize

theorem Char.toLower_idem (c : Char) : c.toLower.toLower = c.toLower := by
  simp only [Char.toLower]
  split
  · split
    · next h1 h2 =>
      simp only [UInt32.le_iff_toNat_le, UInt32.toNat_add, seval] at h1 h2
      omega
    · simp
  · rfl

/-- lower-casing maps no other character to a character that is not a lower-case letter -/
theorem Char.toLower_eq_iff (c x : Char) (hx : x.val < 97 ∨ 122 < x.val) (hx2 : x.val < 65 ∨ 90 < x.val) :
    c.toLower = x ↔ c = x := by
  constructor
  · intro h
    simp only [Char.toLower] at h
    split at h
    · next h1 =>
      exfalso
      have := congrArg Char.val h
      simp only [UInt32.le_iff_toNat_le, seval] at h1
      simp only [UInt32.lt_iff_toNat_lt, seval] at hx
      have h2 := congrArg UInt32.toNat this
      simp only [UInt32.toNat_add, seval] at h2
      omega
    · exact h
  · intro h
    subst h
    simp only [Char.toLower]
    split
    · next h1 =>
      exfalso
      simp only [UInt32.le_iff_toNat_le, seval] at h1
      simp only [UInt32.lt_iff_toNat_lt, seval] at hx2
      omega
    · rfl

/-- a lower-case letter is the image of itself and of its capital only -/
theorem Char.toLower_eq_lower (c x : Char) (hx : 97 ≤ x.val ∧ x.val ≤ 122) :
    c.toLower = x → c = x ∨ c.val + 32 = x.val := by
  intro h
  simp only [Char.toLower] at h
  split at h
  · right
    have := congrArg Char.val h
    exact this
  · left; exact h

theorem toLowerAscii_append (a b : String) : toLowerAscii (a ++ b) = toLowerAscii a ++ toLowerAscii b := by
  unfold toLowerAscii
  rw [String.toList_append, List.map_append, String.ofList_append]

theorem toLowerAscii_toList (a : String) : (toLowerAscii a).toList = a.toList.map Char.toLower := by
  unfold toLowerAscii
  rw [String.toList_ofList]

theorem toLowerAscii_idem (a : String) : toLowerAscii (toLowerAscii a) = toLowerAscii a := by
  unfold toLowerAscii
  rw [String.toList_ofList, List.map_map]
  congr 1
  apply List.map_congr_left
  intro c _
  exact Char.toLower_idem c

def isVerb (v : Char) : Bool := v == 's' || v == 'd' || v == 't'

/-- no `%` of the template is followed by a capital `S`, `D` or `T` -/
def okTpl : List Char → Bool
  | '%' :: v :: rest => v != 'S' && v != 'D' && v != 'T' && okTpl (v :: rest)
  | _ :: rest => okTpl rest
  | [] => true

theorem Char.eq_of_add32 (v x X : Char) (h : v.val + 32 = x.val) (hX : X.val.toNat + 32 = x.val.toNat) : v = X := by
  apply Char.ext
  apply UInt32.toNat_inj.mp
  have h2 := congrArg UInt32.toNat h
  simp only [UInt32.toNat_add, seval] at h2
  have := v.val.toNat_lt
  omega

theorem Char.toLower_self_of_lower (x : Char) (hx : 97 ≤ x.val ∧ x.val ≤ 122) : x.toLower = x := by
  simp only [Char.toLower]
  split
  · next h1 =>
    exfalso
    simp only [UInt32.le_iff_toNat_le, seval] at h1
    have := hx.1
    simp only [UInt32.le_iff_toNat_le, seval] at this
    omega
  · rfl

theorem beq_toLower (v x X : Char) (hx : 97 ≤ x.val ∧ x.val ≤ 122) (hX : X.val.toNat + 32 = x.val.toNat) (hv : v ≠ X) :
    (v.toLower == x) = (v == x) := by
  cases hvx : (v == x) with
  | true =>
    have : v = x := by simpa using hvx
    subst this
    rw [Char.toLower_self_of_lower v hx]; simp
  | false =>
    have hne : v ≠ x := by simpa using hvx
    cases hl : (v.toLower == x) with
    | false => rfl
    | true =>
      exfalso
      have hl : v.toLower = x := by simpa using hl
      rcases Char.toLower_eq_lower v x hx hl with h | h
      · exact hne h
      · exact hv (Char.eq_of_add32 v x X h hX)

theorem isVerb_lower (v : Char) (h : (v != 'S' && v != 'D' && v != 'T') = true) : isVerb v.toLower = isVerb v := by
  simp only [Bool.and_eq_true, bne_iff_ne, ne_eq] at h
  obtain ⟨⟨h1, h2⟩, h3⟩ := h
  unfold isVerb
  rw [beq_toLower v 's' 'S' (by decide) (by decide) h1, beq_toLower v 'd' 'D' (by decide) (by decide) h2,
    beq_toLower v 't' 'T' (by decide) (by decide) h3]

theorem sprintfAux_verb (v : Char) (rest : List Char) (a : String) (as : List String) :
    sprintfAux ('%' :: v :: rest) (a :: as) =
      if isVerb v then a.toList ++ sprintfAux rest as else '%' :: sprintfAux (v :: rest) (a :: as) := by
  unfold isVerb
  rw [sprintfAux]

theorem sprintfAux_missing (v : Char) (rest : List Char) :
    sprintfAux ('%' :: v :: rest) [] =
      if v == 's' then "%!s(MISSING)".toList ++ sprintfAux rest []
      else if v == 'd' then "%!d(MISSING)".toList ++ sprintfAux rest []
      else if v == 't' then "%!t(MISSING)".toList ++ sprintfAux rest []
      else '%' :: sprintfAux (v :: rest) [] := by
  rw [sprintfAux]

theorem sprintfAux_other (c : Char) (rest : List Char) (as : List String) (h : c ≠ '%') :
    sprintfAux (c :: rest) as = c :: sprintfAux rest as := by
  rw [sprintfAux]
  · intro v r a as' _ hc _; exact h hc
  · intro v r _ hc _; exact h hc

theorem sprintfAux_last (as : List String) : sprintfAux ['%'] as = ['%'] := by
  rw [sprintfAux]
  · rw [sprintfAux]
  · intro v r a as' _ _ hr; cases hr
  · intro v r _ _ hr; cases hr

theorem okTpl_tail (c : Char) (rest : List Char) (h : okTpl (c :: rest) = true) : okTpl rest = true := by
  cases rest with
  | nil => rfl
  | cons v r =>
    by_cases hc : c = '%'
    · subst hc
      simp only [okTpl, Bool.and_eq_true] at h
      exact h.2
    · unfold okTpl at h
      split at h
      · rename_i heq; injection heq with h1 _; exact absurd h1 hc
      · rename_i heq; injection heq with _ h2; rw [h2]; exact h
      · rename_i heq; cases heq

/-- **`fmt.Sprintf` on a template and on its lower-casing**, with arguments equal up to case: the results are equal up
    to case -/
theorem sprintfAux_case : ∀ (n : Nat) (t : List Char) (aU aL : List String), t.length ≤ n → okTpl t = true →
    aU.map toLowerAscii = aL.map toLowerAscii →
    (sprintfAux t aU).map Char.toLower = (sprintfAux (t.map Char.toLower) aL).map Char.toLower := by
  intro n
  induction n with
  | zero =>
    intro t aU aL hl _ _
    have : t = [] := List.length_eq_zero_iff.mp (by omega)
    subst this
    simp [sprintfAux]
  | succ n ih =>
    intro t aU aL hl hok hargs
    cases t with
    | nil => simp [sprintfAux]
    | cons c rest =>
      have hlr : rest.length ≤ n := by simp at hl; omega
      have hokr := okTpl_tail c rest hok
      by_cases hc : c = '%'
      · subst hc
        have hpl : Char.toLower '%' = '%' := by decide
        cases rest with
        | nil =>
          rw [List.map_cons, List.map_nil, hpl, sprintfAux_last, sprintfAux_last]
        | cons v r =>
          have hv : (v != 'S' && v != 'D' && v != 'T') = true := by
            simp only [okTpl, Bool.and_eq_true] at hok
            simp only [Bool.and_eq_true]
            exact hok.1
          have hverb := isVerb_lower v hv
          have hlr2 : r.length ≤ n := by simp at hlr; omega
          have hokr2 := okTpl_tail v r hokr
          rw [List.map_cons, List.map_cons, hpl]
          cases aU with
          | nil =>
            have : aL = [] := by
              cases aL with
              | nil => rfl
              | cons _ _ => simp at hargs
            subst this
            rw [sprintfAux_missing, sprintfAux_missing]
            have hv' := hv
            simp only [Bool.and_eq_true, bne_iff_ne, ne_eq] at hv'
            have e1 := beq_toLower v 's' 'S' (by decide) (by decide) hv'.1.1
            have e2 := beq_toLower v 'd' 'D' (by decide) (by decide) hv'.1.2
            have e3 := beq_toLower v 't' 'T' (by decide) (by decide) hv'.2
            rw [e1, e2, e3]
            have hrec := ih r [] [] hlr2 hokr2 rfl
            have hrec2 := ih (v :: r) [] [] hlr hokr rfl
            rw [List.map_cons] at hrec2
            by_cases h1 : (v == 's') = true
            · rw [if_pos h1, if_pos h1, List.map_append, List.map_append, hrec]
            · rw [if_neg h1, if_neg h1]
              by_cases h2 : (v == 'd') = true
              · rw [if_pos h2, if_pos h2, List.map_append, List.map_append, hrec]
              · rw [if_neg h2, if_neg h2]
                by_cases h3 : (v == 't') = true
                · rw [if_pos h3, if_pos h3, List.map_append, List.map_append, hrec]
                · rw [if_neg h3, if_neg h3, List.map_cons, List.map_cons, hrec2]
          | cons a as =>
            cases aL with
            | nil => simp at hargs
            | cons b bs =>
              simp only [List.map_cons, List.cons.injEq] at hargs
              rw [sprintfAux_verb, sprintfAux_verb, hverb]
              by_cases hvb : isVerb v = true
              · rw [if_pos hvb, if_pos hvb, List.map_append, List.map_append]
                have h1 : a.toList.map Char.toLower = b.toList.map Char.toLower := by
                  rw [← toLowerAscii_toList, ← toLowerAscii_toList, hargs.1]
                rw [h1, ih r as bs hlr2 hokr2 hargs.2]
              · rw [if_neg hvb, if_neg hvb, List.map_cons, List.map_cons]
                congr 1
                have := ih (v :: r) (a :: as) (b :: bs) hlr hokr (by simp [hargs.1, hargs.2])
                rw [List.map_cons] at this
                exact this
      · have hcl : c.toLower ≠ '%' := fun h => hc ((Char.toLower_eq_iff c '%' (by decide) (by decide)).mp h)
        rw [List.map_cons, sprintfAux_other c rest aU hc, sprintfAux_other c.toLower _ aL hcl, List.map_cons, List.map_cons,
          ih rest aU aL hlr hokr hargs, Char.toLower_idem]

/-- the same template, arguments equal up to case -/
theorem sprintfAux_same : ∀ (n : Nat) (t : List Char) (aU aL : List String), t.length ≤ n →
    aU.map toLowerAscii = aL.map toLowerAscii →
    (sprintfAux t aU).map Char.toLower = (sprintfAux t aL).map Char.toLower := by
  intro n
  induction n with
  | zero =>
    intro t aU aL hl _
    have : t = [] := List.length_eq_zero_iff.mp (by omega)
    subst this
    simp [sprintfAux]
  | succ n ih =>
    intro t aU aL hl hargs
    cases t with
    | nil => simp [sprintfAux]
    | cons c rest =>
      have hlr : rest.length ≤ n := by simp at hl; omega
      by_cases hc : c = '%'
      · subst hc
        cases rest with
        | nil => rw [sprintfAux_last, sprintfAux_last]
        | cons v r =>
          have hlr2 : r.length ≤ n := by simp at hlr; omega
          cases aU with
          | nil =>
            have : aL = [] := by
              cases aL with
              | nil => rfl
              | cons _ _ => simp at hargs
            subst this
            rfl
          | cons a as =>
            cases aL with
            | nil => simp at hargs
            | cons b bs =>
              simp only [List.map_cons, List.cons.injEq] at hargs
              rw [sprintfAux_verb, sprintfAux_verb]
              by_cases hvb : isVerb v = true
              · rw [if_pos hvb, if_pos hvb, List.map_append, List.map_append]
                have h1 : a.toList.map Char.toLower = b.toList.map Char.toLower := by
                  rw [← toLowerAscii_toList, ← toLowerAscii_toList, hargs.1]
                rw [h1, ih r as bs hlr2 hargs.2]
              · rw [if_neg hvb, if_neg hvb, List.map_cons, List.map_cons]
                congr 1
                exact ih (v :: r) (a :: as) (b :: bs) hlr (by simp [hargs.1, hargs.2])
      · rw [sprintfAux_other c rest aU hc, sprintfAux_other c rest aL hc, List.map_cons, List.map_cons, ih rest aU aL hlr hargs]

theorem sprintf_case (t : String) (aU aL : List String) (hok : okTpl t.toList = true)
    (hargs : aU.map toLowerAscii = aL.map toLowerAscii) :
    toLowerAscii (sprintf t aU) = toLowerAscii (sprintf (toLowerAscii t) aL) := by
  unfold sprintf
  apply String.toList_inj.mp
  rw [toLowerAscii_toList, toLowerAscii_toList, String.toList_ofList, String.toList_ofList, toLowerAscii_toList]
  exact sprintfAux_case _ _ _ _ (Nat.le_refl _) hok hargs

theorem sprintf_same (t : String) (aU aL : List String) (hargs : aU.map toLowerAscii = aL.map toLowerAscii) :
    toLowerAscii (sprintf t aU) = toLowerAscii (sprintf t aL) := by
  unfold sprintf
  apply String.toList_inj.mp
  rw [toLowerAscii_toList, toLowerAscii_toList, String.toList_ofList, String.toList_ofList]
  exact sprintfAux_same _ _ _ _ (Nat.le_refl _) hargs

theorem tpl_lower (g : Globals) (method arg : String) :
    ({ g with lower := true } : Globals).tpl method arg =
      if (Facts.getTpl method g.dialect.name (arg != "")).applied then toLowerAscii (rawTpl g.dialect method arg)
      else rawTpl g.dialect method arg := by
  unfold Globals.tpl
  simp

theorem tpl_upper (g : Globals) (method arg : String) :
    ({ g with lower := false } : Globals).tpl method arg = rawTpl g.dialect method arg := by
  unfold Globals.tpl
  simp

/-- **one template, both settings**: the statement printed from a template under the lower-case option equals, up to
    case, the one printed without it -/
theorem tpl_case (g : Globals) (method arg : String) (aU aL : List String)
    (hok : okTpl (rawTpl g.dialect method arg).toList = true) (hargs : aU.map toLowerAscii = aL.map toLowerAscii) :
    toLowerAscii (sprintf (({ g with lower := true } : Globals).tpl method arg) aL) =
      toLowerAscii (sprintf (({ g with lower := false } : Globals).tpl method arg) aU) := by
  rw [tpl_lower, tpl_upper]
  split
  · exact (sprintf_case _ aU aL hok hargs).symm
  · exact (sprintf_same _ aU aL hargs).symm

/-- every regenerated template without a string argument passes `okTpl`, for every dialect (kernel evaluation of
    `Generated/Facts.lean`) -/
theorem templates_ok : ∀ d : Dialect, ∀ m ∈ ["CreateTableStm", "DropTableStm", "AlterTableAddColumnAfterStm",
    "AlterTableAddColumnFirstStm", "AlterTableAddColumnStm", "AlterTableDropColumnStm", "AlterTableModifyColumnStm",
    "AlterTableRenameColumnStm", "CreatePrimaryKeyStm", "DropPrimaryKeyStm", "CreateForeignKeyStm", "DropForeignKeyStm",
    "AlterTableRenameIndexStm", "CreateUniqueIndexStm", "CreateIndexStm", "DropIndexStm", "ColumnComment"],
    okTpl (rawTpl d m "").toList = true := by
  intro d
  cases d <;> decide +kernel

abbrev gL (g : Globals) : Globals := { g with lower := true }
abbrev gU (g : Globals) : Globals := { g with lower := false }

theorem esc_case (g : Globals) (n : String) : (gL g).esc n = (gU g).esc n := rfl

theorem kw_case (g : Globals) (s : String) : toLowerAscii ((gL g).kw s) = toLowerAscii ((gU g).kw s) := by
  unfold Globals.kw
  simp only [if_true, Bool.false_eq_true, if_false]
  exact toLowerAscii_idem s

theorem default_case (g : Globals) (d : DefaultVal) :
    toLowerAscii (d.render (gL g)) = toLowerAscii (d.render (gU g)) := by
  cases d with
  | num s => rfl
  | str s => rfl
  | now => simp only [DefaultVal.render, toLowerAscii_append, kw_case]
  | null => simp only [DefaultVal.render, kw_case]
  | raw s => rfl

/-- results equal up to case -/
def MEq (a b : M String) : Prop := a.map toLowerAscii = b.map toLowerAscii
def MOEq (a b : M (Option String)) : Prop := a.map (Option.map toLowerAscii) = b.map (Option.map toLowerAscii)

theorem opt_case (g : Globals) (o : Opt) : MOEq (o.render (gL g)) (o.render (gU g)) := by
  unfold MOEq Opt.render
  have hd : (gL g).dialect = (gU g).dialect := rfl
  rw [hd]
  split
  · cases o.dflt with
    | raw s => rfl
    | num s => rfl
    | str s => rfl
    | now => simp only [Except.map, pure, Except.pure, Option.map_some, default_case]
    | null => simp only [Except.map, pure, Except.pure, Option.map_some, default_case]
  · split
    · rfl
    · cases o.kind with
      | primaryKey => simp only [Except.map, pure, Except.pure, Option.map_some, kw_case]
      | notNull => simp only [Except.map, pure, Except.pure, Option.map_some, kw_case]
      | null => simp only [Except.map, pure, Except.pure, Option.map_some, kw_case]
      | autoIncrement => simp only [Except.map, pure, Except.pure, Option.map_some, kw_case]
      | uniqKey => simp only [Except.map, pure, Except.pure, Option.map_some, kw_case]
      | default =>
        simp only
        split
        · simp only [Except.map, pure, Except.pure, Option.map_some, toLowerAscii_append, kw_case, default_case]
        · rfl
      | comment =>
        simp only
        split
        · simp only [Except.map, pure, Except.pure, Option.map_some, toLowerAscii_append, kw_case]
        · rfl
      | reference => rfl

theorem mapM_ok_cons {α β : Type} (f : α → M β) (x : α) (r : List α) :
    (x :: r).mapM f = (f x).bind (fun y => (r.mapM f).bind (fun ys => .ok (y :: ys))) := by
  rw [List.mapM_cons]
  rfl

/-- `mapM` of two functions whose results agree after `L` -/
theorem mapM_case {α β : Type} (f f' : α → M β) (L : β → β) :
    ∀ l : List α, (∀ x ∈ l, (f x).map L = (f' x).map L) → (l.mapM f).map (List.map L) = (l.mapM f').map (List.map L) := by
  intro l
  induction l with
  | nil => intro _; rfl
  | cons x r ih =>
    intro h
    have ih := ih (fun y hy => h y (List.mem_cons_of_mem _ hy))
    rw [mapM_ok_cons, mapM_ok_cons]
    have hx := h x (by simp)
    cases hfx : f x with
    | error e =>
      rw [hfx] at hx
      cases hfx' : f' x with
      | error e' => rw [hfx'] at hx; simp only [Except.map, Except.error.injEq] at hx; simp only [Except.bind, Except.map, hx]
      | ok y' => rw [hfx'] at hx; simp [Except.map] at hx
    | ok y =>
      rw [hfx] at hx
      cases hfx' : f' x with
      | error e' => rw [hfx'] at hx; simp [Except.map] at hx
      | ok y' =>
        rw [hfx'] at hx
        simp only [Except.map, Except.ok.injEq] at hx
        simp only [Except.bind]
        cases hr : r.mapM f with
        | error e =>
          rw [hr] at ih
          cases hr' : r.mapM f' with
          | error e' => rw [hr'] at ih; simp only [Except.map, Except.error.injEq] at ih; simp only [Except.map, ih]
          | ok ys' => rw [hr'] at ih; simp [Except.map] at ih
        | ok ys =>
          rw [hr] at ih
          cases hr' : r.mapM f' with
          | error e' => rw [hr'] at ih; simp [Except.map] at ih
          | ok ys' =>
            rw [hr'] at ih
            simp only [Except.map, Except.ok.injEq] at ih ⊢
            rw [List.map_cons, List.map_cons, hx, ih]

/-- the fold of `pkDefinition` over option texts equal up to case -/
theorem foldParts_case : ∀ (pL pU : List (Option String)) (accL accU : String),
    pL.map (Option.map toLowerAscii) = pU.map (Option.map toLowerAscii) → toLowerAscii accL = toLowerAscii accU →
    toLowerAscii (pL.foldl (fun acc p => match p with | some s => acc ++ " " ++ s | none => acc) accL) =
      toLowerAscii (pU.foldl (fun acc p => match p with | some s => acc ++ " " ++ s | none => acc) accU) := by
  intro pL
  induction pL with
  | nil =>
    intro pU accL accU h ha
    cases pU with
    | nil => exact ha
    | cons _ _ => simp at h
  | cons x r ih =>
    intro pU accL accU h ha
    cases pU with
    | nil => simp at h
    | cons y r' =>
      simp only [List.map_cons, List.cons.injEq] at h
      rw [List.foldl_cons, List.foldl_cons]
      apply ih r' _ _ h.2
      cases x with
      | none =>
        cases y with
        | none => exact ha
        | some _ => simp at h
      | some sx =>
        cases y with
        | none => simp at h
        | some sy =>
          have : toLowerAscii sx = toLowerAscii sy := by simpa using h.1
          simp only [toLowerAscii_append, ha, this]

/-- a column definition -/
theorem definition_case (g : Globals) (c : ColDef) : MEq (c.definition (gL g)) (c.definition (gU g)) := by
  unfold MEq ColDef.definition
  generalize (if c.stripPk then c.opts.filter (fun o => o.kind != .primaryKey) else c.opts) = opts
  have hp := mapM_case (fun o => Opt.render (gL g) o) (fun o => Opt.render (gU g) o) (Option.map toLowerAscii)
    opts (fun o _ => opt_case g o)
  simp only [bind, Except.bind, pure, Except.pure]
  cases hL : opts.mapM (Opt.render (gL g)) with
  | error e =>
    rw [hL] at hp
    cases hU : opts.mapM (Opt.render (gU g)) with
    | error e' => rw [hU] at hp; simp only [Except.map, Except.error.injEq] at hp; simp only [Except.map, hp]
    | ok _ => rw [hU] at hp; simp [Except.map] at hp
  | ok pL =>
    rw [hL] at hp
    cases hU : opts.mapM (Opt.render (gU g)) with
    | error e' => rw [hU] at hp; simp [Except.map] at hp
    | ok pU =>
      rw [hU] at hp
      simp only [Except.map, Except.ok.injEq] at hp ⊢
      exact foldParts_case pL pU _ _ hp rfl

theorem intercalate_case (sep : String) : ∀ (lL lU : List String), lL.map toLowerAscii = lU.map toLowerAscii →
    toLowerAscii (sep.intercalate lL) = toLowerAscii (sep.intercalate lU) := by
  intro lL
  induction lL with
  | nil =>
    intro lU h
    cases lU with
    | nil => rfl
    | cons _ _ => simp at h
  | cons a r ih =>
    intro lU h
    cases lU with
    | nil => simp at h
    | cons b r' =>
      simp only [List.map_cons, List.cons.injEq] at h
      cases r with
      | nil =>
        cases r' with
        | nil => simpa using h.1
        | cons _ _ => simp at h
      | cons a2 r2 =>
        cases r' with
        | nil => simp at h
        | cons b2 r2' =>
          rw [String.intercalate_cons_cons, String.intercalate_cons_cons]
          simp only [toLowerAscii_append, h.1]
          rw [ih (b2 :: r2') h.2]

theorem MEq.bind {dL dU : M String} {kL kU : String → M String} (hd : MEq dL dU)
    (hk : ∀ xL xU, toLowerAscii xL = toLowerAscii xU → MEq (kL xL) (kU xU)) : MEq (dL >>= kL) (dU >>= kU) := by
  unfold MEq at hd
  cases hL : dL with
  | error e =>
    rw [hL] at hd
    cases hU : dU with
    | error e' =>
      rw [hU] at hd; simp only [Except.map, Except.error.injEq] at hd
      subst hd; rfl
    | ok _ => rw [hU] at hd; simp [Except.map] at hd
  | ok xL =>
    rw [hL] at hd
    cases hU : dU with
    | error e' => rw [hU] at hd; simp [Except.map] at hd
    | ok xU =>
      rw [hU] at hd
      simp only [Except.map, Except.ok.injEq] at hd
      exact hk xL xU hd

/-- the index type given by the user becomes part of the template text: it must not smuggle a `%S`, `%D`, `%T` in -/
def Stmt.usingOK (d : Dialect) : Stmt → Bool
  | .createIndex _ _ _ uniq usingT => okTpl (rawTpl d (if uniq then "CreateUniqueIndexStm" else "CreateIndexStm") usingT).toList
  | _ => true

theorem pure_case (g : Globals) (method : String) (aU aL : List String)
    (hm : okTpl (rawTpl g.dialect method "").toList = true) (hargs : aU.map toLowerAscii = aL.map toLowerAscii) :
    MEq (pure (sprintf ((gL g).tpl method) aL)) (pure (sprintf ((gU g).tpl method) aU)) := by
  unfold MEq
  simp only [Except.map, pure, Except.pure, Except.ok.injEq]
  exact tpl_case g method "" aU aL hm hargs

/-- **C10, keyword case, one statement**: for every dialect and every statement whose index type (if any) is free of
    `%S`/`%D`/`%T`: the text printed under the lower-case option and the text printed without it are equal up to ASCII
    case (and fail with the same message when the renderer fails) -/
theorem render_case_only (g : Globals) (s : Stmt) (hu : s.usingOK g.dialect = true) :
    MEq (s.render (gL g)) (s.render (gU g)) := by
  have tok := templates_ok g.dialect
  cases s with
  | createTable t ident cols pk =>
    simp only [Stmt.render]
    -- the lines, equal up to case
    have hline : ∀ c ∈ cols, ((do let d ← c.definition (gL g); pure (" " ++ (gL g).esc c.name ++ spaces (ident - c.name.utf8ByteSize) ++ d) : M String)).map toLowerAscii =
        ((do let d ← c.definition (gU g); pure (" " ++ (gU g).esc c.name ++ spaces (ident - c.name.utf8ByteSize) ++ d) : M String)).map toLowerAscii := by
      intro c hc
      have hd := definition_case g c
      unfold MEq at hd
      cases hL : c.definition (gL g) with
      | error e =>
        rw [hL] at hd
        cases hU : c.definition (gU g) with
        | error e' => rw [hU] at hd; simp only [Except.map, Except.error.injEq] at hd; simp only [bind, Except.bind, Except.map, hd]
        | ok _ => rw [hU] at hd; simp [Except.map] at hd
      | ok dL =>
        rw [hL] at hd
        cases hU : c.definition (gU g) with
        | error e' => rw [hU] at hd; simp [Except.map] at hd
        | ok dU =>
          rw [hU] at hd
          simp only [Except.map, Except.ok.injEq] at hd
          simp only [bind, Except.bind, pure, Except.pure, Except.map, Except.ok.injEq, toLowerAscii_append, hd]
          rfl
    have hp := mapM_case _ _ toLowerAscii cols hline
    cases hL : cols.mapM (fun c => (do let d ← c.definition (gL g); pure (" " ++ (gL g).esc c.name ++ spaces (ident - c.name.utf8ByteSize) ++ d) : M String)) with
    | error e =>
      rw [hL] at hp
      cases hU : cols.mapM (fun c => (do let d ← c.definition (gU g); pure (" " ++ (gU g).esc c.name ++ spaces (ident - c.name.utf8ByteSize) ++ d) : M String)) with
      | error e' =>
        rw [hU] at hp; simp only [Except.map, Except.error.injEq] at hp
        subst hp; rfl
      | ok _ => rw [hU] at hp; simp [Except.map] at hp
    | ok lL =>
      rw [hL] at hp
      cases hU : cols.mapM (fun c => (do let d ← c.definition (gU g); pure (" " ++ (gU g).esc c.name ++ spaces (ident - c.name.utf8ByteSize) ++ d) : M String)) with
      | error e' => rw [hU] at hp; simp [Except.map] at hp
      | ok lU =>
        rw [hU] at hp
        simp only [Except.map, Except.ok.injEq] at hp
        exact pure_case g _ _ _ (tok _ (by simp)) (by
          simp only [List.map_cons, List.map_nil, List.cons.injEq, and_true]
          exact ⟨rfl, (intercalate_case _ lL lU hp).symm⟩)
  | dropTable t => exact pure_case g _ _ _ (tok _ (by simp)) rfl
  | addColumn t c pos =>
    simp only [Stmt.render]
    apply MEq.bind (definition_case g c)
    intro xL xU hx
    cases pos with
    | after a => exact pure_case g _ _ _ (tok _ (by simp)) (by simp [toLowerAscii_append, hx, esc_case])
    | first => exact pure_case g _ _ _ (tok _ (by simp)) (by simp [toLowerAscii_append, hx, esc_case])
    | none => exact pure_case g _ _ _ (tok _ (by simp)) (by simp [toLowerAscii_append, hx, esc_case])
  | dropColumn t c => exact pure_case g _ _ _ (tok _ (by simp)) rfl
  | modifyColumn t c =>
    simp only [Stmt.render]
    apply MEq.bind (definition_case g c)
    intro xL xU hx
    exact pure_case g _ _ _ (tok _ (by simp)) (by simp [toLowerAscii_append, hx, esc_case])
  | renameColumn t o n => exact pure_case g _ _ _ (tok _ (by simp)) rfl
  | addPrimaryKey t cols => exact pure_case g _ _ _ (tok _ (by simp)) rfl
  | dropPrimaryKey t => exact pure_case g _ _ _ (tok _ (by simp)) rfl
  | addFk t n c rt rc => exact pure_case g _ _ _ (tok _ (by simp)) rfl
  | dropFk t n => exact pure_case g _ _ _ (tok _ (by simp)) rfl
  | renameIndex t o n => exact pure_case g _ _ _ (tok _ (by simp)) rfl
  | createIndex t n cols uniq usingT =>
    simp only [Stmt.render, MEq]
    simp only [Except.map, pure, Except.pure, Except.ok.injEq]
    exact tpl_case g _ usingT _ _ hu rfl
  | dropIndex t n =>
    simp only [Stmt.render]
    have hd : (gL g).dialect = (gU g).dialect := rfl
    rw [hd]
    split
    · exact pure_case g _ _ _ (tok _ (by simp)) rfl
    · exact pure_case g _ _ _ (tok _ (by simp)) rfl
  | commentOn t c text => exact pure_case g _ _ _ (tok _ (by simp)) rfl
  | alterType t c ty => rfl
  | setDefault t c d => rfl
  | dropNotNull t c => rfl

/-- results equal up to case, lists -/
theorem MEq.of_mapM {α : Type} (f f' : α → M String) (l : List α) (h : ∀ x ∈ l, MEq (f x) (f' x)) (k : List String → String)
    (hk : ∀ a b : List String, a.map toLowerAscii = b.map toLowerAscii → toLowerAscii (k a) = toLowerAscii (k b)) :
    MEq (do let xs ← l.mapM f; pure (k xs)) (do let xs ← l.mapM f'; pure (k xs)) := by
  have hp := mapM_case f f' toLowerAscii l (fun x hx => h x hx)
  unfold MEq
  cases hL : l.mapM f with
  | error e =>
    rw [hL] at hp
    cases hU : l.mapM f' with
    | error e' =>
      rw [hU] at hp; simp only [Except.map, Except.error.injEq] at hp
      subst hp; rfl
    | ok _ => rw [hU] at hp; simp [Except.map] at hp
  | ok a =>
    rw [hL] at hp
    cases hU : l.mapM f' with
    | error e' => rw [hU] at hp; simp [Except.map] at hp
    | ok b =>
      rw [hU] at hp
      simp only [Except.map, Except.ok.injEq] at hp
      show Except.ok (toLowerAscii (k a)) = Except.ok (toLowerAscii (k b))
      rw [hk a b hp]

/-- **C10, keyword case, a whole migration**: the text of a migration — the statements of a table joined by line breaks,
    the tables by empty lines — printed under the lower-case option equals, up to ASCII case, the text printed without it -/
theorem migration_case_only (g : Globals) (tables : List (List Stmt))
    (h : ∀ ss ∈ tables, ∀ s ∈ ss, s.usingOK g.dialect = true) :
    MEq (renderMigration (gL g) tables) (renderMigration (gU g) tables) := by
  unfold renderMigration
  apply MEq.of_mapM _ _ tables _ _ (fun a b hab => intercalate_case _ a b hab)
  intro ss hss
  apply MEq.of_mapM _ _ ss _ _ (fun a b hab => intercalate_case _ a b hab)
  intro s hs
  exact render_case_only g s (h ss hss s hs)

/-- the index types the MySQL grammar knows pass the template check, for every dialect -/
theorem usingOK_known (d : Dialect) (t n : String) (cols : List String) (uniq : Bool) (usingT : String)
    (h : usingT ∈ ["", "BTREE", "HASH", "RTREE", "btree", "hash", "rtree"]) :
    (Stmt.createIndex t n cols uniq usingT).usingOK d = true := by
  show okTpl (rawTpl d (if uniq then "CreateUniqueIndexStm" else "CreateIndexStm") usingT).toList = true
  simp only [List.mem_cons, List.mem_nil_iff, or_false] at h
  rcases h with rfl | rfl | rfl | rfl | rfl | rfl | rfl <;> cases d <;> cases uniq <;> decide +kernel

/-- **C10, keyword case, migrations whose index types are the grammar's**: no hypothesis about templates is left -/
theorem migration_case_only_known (g : Globals) (tables : List (List Stmt))
    (h : ∀ ss ∈ tables, ∀ s ∈ ss, ∀ t n cols uniq usingT, s = Stmt.createIndex t n cols uniq usingT →
      usingT ∈ ["", "BTREE", "HASH", "RTREE", "btree", "hash", "rtree"]) :
    MEq (renderMigration (gL g) tables) (renderMigration (gU g) tables) := by
  apply migration_case_only g tables
  intro ss hss s hs
  cases s with
  | createIndex t n cols uniq usingT => exact usingOK_known g.dialect t n cols uniq usingT (h ss hss _ hs t n cols uniq usingT rfl)
  | _ => rfl

end Sqlize
