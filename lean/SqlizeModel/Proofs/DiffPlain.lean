/-
  Proofs/DiffPlain.lean — `Table.Diff` / `Migration.Diff` keep the options of every column plain-or-mark
  (`Table.Plain False`): the first column loop only tags records and stores previous attributes, the second appends
  copies of the old side's columns, the index loops do not touch columns, the foreign-key loop appends marks.
-/
import SqlizeModel.Proofs.OptsGood

namespace Sqlize
namespace Table

theorem diffCols1_cur (d : Dialect) (old : Table) : ∀ (cols cols' : List Column), diffCols1 d old cols = .ok cols' →
    ∀ c' ∈ cols', ∃ c ∈ cols, c'.cur = c.cur := by
  intro cols
  induction cols with
  | nil =>
    intro cols' hs c' hc'
    unfold diffCols1 at hs
    have := pure_ok hs; subst this
    cases hc'
  | cons c rest ih =>
    intro cols' hs c' hc'
    unfold diffCols1 at hs
    obtain ⟨c1, h1, hs⟩ := bind_ok hs
    obtain ⟨r', hr, hs⟩ := bind_ok hs
    have := pure_ok hs; subst this
    have hc1 : c1.cur = c.cur := by
      split at h1
      · split at h1
        · obtain ⟨oc, _, h1⟩ := bind_ok h1
          split at h1
          · split at h1
            · rw [← pure_ok h1]
            · obtain ⟨tc, _, h1⟩ := bind_ok h1
              split at h1 <;> rw [← pure_ok h1]
          · rw [← pure_ok h1]
        · rw [← pure_ok h1]
      · rw [← pure_ok h1]
    rcases List.mem_cons.mp hc' with rfl | h
    · exact ⟨c, by simp, hc1⟩
    · obtain ⟨x, hx, he⟩ := ih r' hr c' h
      exact ⟨x, List.mem_cons_of_mem _ hx, he⟩

theorem diffCols2_plain (mysql : Bool) : ∀ (ocs before : List Column) (t t' : Table), t.Plain False →
    (∀ oc ∈ ocs, ∀ o ∈ oc.cur.opts, o.Plain) → diffCols2 mysql t before ocs = .ok t' → t'.Plain False := by
  intro ocs
  induction ocs with
  | nil =>
    intro before t t' h _ hs
    unfold diffCols2 at hs
    have := pure_ok hs; subst this; exact h
  | cons oc rest ih =>
    intro before t t' h hocs hs
    unfold diffCols2 at hs
    obtain ⟨t1, h1, hs⟩ := bind_ok hs
    have ht1 : t1.Plain False := by
      split at h1
      · obtain ⟨t2, h2, h1⟩ := bind_ok h1
        have hp2 := addColumn_plain t t2 { oc with action := .remove } mysql h (hocs oc (by simp)) h2
        exact swapOrder_plain t2 t1 _ _ _ hp2 h1
      · have := pure_ok h1; subst this; exact h
    exact ih _ t1 t' ht1 (fun x hx => hocs x (List.mem_cons_of_mem _ hx)) hs

theorem diffIdx2_plain : ∀ (ois : List Index) (t t' : Table), t.Plain False → diffIdx2 t ois = .ok t' → t'.Plain False := by
  intro ois
  induction ois with
  | nil => intro t t' h hs; unfold diffIdx2 at hs; have := pure_ok hs; subst this; exact h
  | cons oi rest ih =>
    intro t t' h hs
    unfold diffIdx2 at hs
    obtain ⟨t1, h1, hs⟩ := bind_ok hs
    have ht1 : t1.Plain False := by
      split at h1
      · exact addIndex_plain t t1 _ h (fun k => k.elim) h1
      · have := pure_ok h1; subst this; exact h
    exact ih t1 t' ht1 hs

theorem diffFk2_plain : ∀ (ofs : List ForeignKey) (t t' : Table), t.Plain False → diffFk2 t ofs = .ok t' → t'.Plain False := by
  intro ofs
  induction ofs with
  | nil => intro t t' h hs; unfold diffFk2 at hs; have := pure_ok hs; subst this; exact h
  | cons o rest ih =>
    intro t t' h hs
    unfold diffFk2 at hs
    obtain ⟨t1, h1, hs⟩ := bind_ok hs
    have ht1 : t1.Plain False := by
      split at h1
      · exact addForeignKey_plain t t1 _ h h1
      · have := pure_ok h1; subst this; exact h
    exact ih t1 t' ht1 hs

/-- **`Table.Diff` keeps the column options plain-or-mark** -/
theorem diff_plain (d : Dialect) (t old t' : Table) (h : t.Plain False) (ho : old.Plain False) (hs : t.diff d old = .ok t') :
    t'.Plain False := by
  unfold diff at hs
  obtain ⟨cols, hc, hs⟩ := bind_ok hs
  obtain ⟨t1, h1, hs⟩ := bind_ok hs
  obtain ⟨idxs, hi, hs⟩ := bind_ok hs
  obtain ⟨t2, h2, hs⟩ := bind_ok hs
  obtain ⟨fks, hf, hs⟩ := bind_ok hs
  have hp0 : ({ t with cols := cols } : Table).Plain False := by
    refine ⟨?_, fun k => k.elim⟩
    intro c' hc' o ho'
    obtain ⟨c, hcm, he⟩ := diffCols1_cur d old t.cols cols hc c' hc'
    rw [he] at ho'
    exact h.opts c hcm o ho'
  have hp1 := diffCols2_plain (d == .mysql) old.cols [] _ t1 hp0 (fun oc hoc => ho.opts oc hoc) h1
  have hp1' : ({ t1 with idxs := idxs } : Table).Plain False := ⟨hp1.opts, fun k => k.elim⟩
  have hp2 := diffIdx2_plain old.idxs _ t2 hp1' h2
  have hp2' : ({ t2 with fks := fks } : Table).Plain False := ⟨hp2.opts, fun k => k.elim⟩
  exact diffFk2_plain old.fks _ t' hp2' hs

end Table

namespace Migration

theorem diffTables1_plain (d : Dialect) (old : Migration) (ho : old.Plain False) : ∀ (ts ts' : List Table),
    (∀ t ∈ ts, t.Plain False) → diffTables1 d old ts = .ok ts' → ∀ t' ∈ ts', t'.Plain False := by
  intro ts
  induction ts with
  | nil =>
    intro ts' _ hs t' ht'
    unfold diffTables1 at hs
    have := pure_ok hs; subst this
    cases ht'
  | cons t rest ih =>
    intro ts' h hs t' ht'
    unfold diffTables1 at hs
    obtain ⟨t1, h1, hs⟩ := bind_ok hs
    obtain ⟨r', hr, hs⟩ := bind_ok hs
    have := pure_ok hs; subst this
    have hp1 : t1.Plain False := by
      split at h1
      · obtain ⟨ot, hot, h1⟩ := bind_ok h1
        split at h1
        · obtain ⟨t2, h2, h1⟩ := bind_ok h1
          have hp2 := Table.diff_plain d t ot t2 (h t (by simp)) (ho ot (List.mem_of_getElem? (getIdx_ok hot))) h2
          have := pure_ok h1; subst this
          exact ⟨hp2.opts, fun k => k.elim⟩
        · have := pure_ok h1; subst this; exact h t (by simp)
      · have := pure_ok h1; subst this; exact h t (by simp)
    rcases List.mem_cons.mp ht' with rfl | hm
    · exact hp1
    · exact ih r' (fun x hx => h x (List.mem_cons_of_mem _ hx)) hr t' hm

theorem diffTables2_plain : ∀ (ots : List Table) (m m' : Migration), m.Plain False → (∀ ot ∈ ots, ot.Plain False) →
    diffTables2 m ots = .ok m' → m'.Plain False := by
  intro ots
  induction ots with
  | nil => intro m m' h _ hs; unfold diffTables2 at hs; have := pure_ok hs; subst this; exact h
  | cons ot rest ih =>
    intro m m' h hots hs
    unfold diffTables2 at hs
    obtain ⟨m1, h1, hs⟩ := bind_ok hs
    have hp1 : m1.Plain False := by
      split at h1
      · have hot := hots ot (by simp)
        exact plain_addTable m m1 { ot with action := .remove } h ⟨hot.opts, fun k => k.elim⟩ h1
      · have := pure_ok h1; subst this; exact h
    exact ih m1 m' hp1 (fun x hx => hots x (List.mem_cons_of_mem _ hx)) hs

/-- **`Migration.Diff` keeps the column options plain-or-mark** -/
theorem diff_plain (d : Dialect) (m old m' : Migration) (h : m.Plain False) (ho : old.Plain False)
    (hs : m.diff d old = .ok m') : m'.Plain False := by
  unfold diff at hs
  obtain ⟨ts, h1, hs⟩ := bind_ok hs
  have hts := diffTables1_plain d old ho m.tables ts h h1
  exact diffTables2_plain old.tables { m with tables := ts } m' hts ho hs

end Migration
end Sqlize
