/-
  Proofs/HashInj.lean — C07, "different schema ⇒ different value", under an explicit collision-freeness hypothesis.

  md5 cannot be injective on all strings, so the hypothesis is stated on the *finitely many pre-images involved*: `H` does
  not collide on the column / index / key pre-images of the two schemas nor on the two lists of joined digests, `F` does
  not collide on the two joined table-digest strings, and a digest is a non-empty string without the separator `;` (hex
  text).  Then equal values force: the same number of tables and, table by table in order, the same multiset of column
  pre-images (escaped name + type) and the same multiset of key / index pre-images — provided a column pre-image is
  never an index pre-image (they start differently; a hypothesis here).  Contrapositive: a table that differs in the name
  or type of a column, or in an index, gives another value.
-/
import SqlizeModel.Proofs.HashScripts

namespace Sqlize
open Spec

/-- a digest text: not empty, no separator -/
def Digest (s : String) : Prop := s ≠ "" ∧ ';' ∉ s.toList

instance (s : String) : Decidable (Digest s) := inferInstanceAs (Decidable (s ≠ "" ∧ ';' ∉ s.toList))

theorem append_sep_inj : ∀ (l1 l2 r1 r2 : List Char), ';' ∉ l1 → ';' ∉ l2 →
    l1 ++ ';' :: r1 = l2 ++ ';' :: r2 → l1 = l2 ∧ r1 = r2 := by
  intro l1
  induction l1 with
  | nil =>
    intro l2 r1 r2 _ h2 h
    cases l2 with
    | nil => simp at h; exact ⟨rfl, h⟩
    | cons c r =>
      simp only [List.nil_append, List.cons_append, List.cons.injEq] at h
      exact absurd (h.1 ▸ List.mem_cons_self) h2
  | cons a r ih =>
    intro l2 r1 r2 h1 h2 h
    cases l2 with
    | nil =>
      simp only [List.nil_append, List.cons_append, List.cons.injEq] at h
      exact absurd (h.1 ▸ List.mem_cons_self) h1
    | cons b r' =>
      simp only [List.cons_append, List.cons.injEq] at h
      obtain ⟨e1, e2⟩ := ih r' r1 r2 (fun hm => h1 (List.mem_cons_of_mem _ hm)) (fun hm => h2 (List.mem_cons_of_mem _ hm)) h.2
      exact ⟨by rw [h.1, e1], e2⟩

theorem sep_not_mem_of_eq (a : List Char) (x y : List Char) (ha : ';' ∉ a) (h : a = x ++ ';' :: y) : False := by
  apply ha
  rw [h]; simp

/-- joining digest texts with `;` loses nothing -/
theorem intercalate_inj : ∀ (l1 l2 : List String), (∀ s ∈ l1, Digest s) → (∀ s ∈ l2, Digest s) →
    ";".intercalate l1 = ";".intercalate l2 → l1 = l2 := by
  intro l1
  induction l1 with
  | nil =>
    intro l2 _ h2 h
    cases l2 with
    | nil => rfl
    | cons b r =>
      exfalso
      have hb := h2 b (by simp)
      cases r with
      | nil => simp at h; exact hb.1 h
      | cons c r' =>
        rw [String.intercalate_nil, String.intercalate_cons_cons] at h
        have := congrArg String.toList h
        simp at this
  | cons a r ih =>
    intro l2 h1 h2 h
    have ha := h1 a (by simp)
    cases l2 with
    | nil =>
      exfalso
      cases r with
      | nil => simp at h; exact ha.1 h
      | cons c r' =>
        rw [String.intercalate_nil, String.intercalate_cons_cons] at h
        have := congrArg String.toList h
        simp at this
    | cons b r2 =>
      have hb := h2 b (by simp)
      cases r with
      | nil =>
        cases r2 with
        | nil => simp at h; rw [h]
        | cons c r' =>
          exfalso
          rw [String.intercalate_singleton, String.intercalate_cons_cons] at h
          have := congrArg String.toList h
          simp only [String.toList_append] at this
          have hsep : (";" : String).toList = [';'] := rfl
          rw [hsep] at this
          exact sep_not_mem_of_eq _ b.toList (";".intercalate (c :: r')).toList ha.2 (by rw [this]; simp)
      | cons a2 r' =>
        cases r2 with
        | nil =>
          exfalso
          rw [String.intercalate_singleton, String.intercalate_cons_cons] at h
          have := congrArg String.toList h
          simp only [String.toList_append] at this
          have hsep : (";" : String).toList = [';'] := rfl
          rw [hsep] at this
          exact sep_not_mem_of_eq _ a.toList (";".intercalate (a2 :: r')).toList hb.2 (by rw [← this]; simp)
        | cons b2 r2' =>
          rw [String.intercalate_cons_cons, String.intercalate_cons_cons] at h
          have := congrArg String.toList h
          simp only [String.toList_append] at this
          have hsep : (";" : String).toList = [';'] := rfl
          rw [hsep] at this
          simp only [List.append_assoc, List.singleton_append] at this
          obtain ⟨e1, e2⟩ := append_sep_inj _ _ _ _ ha.2 hb.2 this
          have eab : a = b := String.toList_inj.mp e1
          have erest : ";".intercalate (a2 :: r') = ";".intercalate (b2 :: r2') := String.toList_inj.mp e2
          rw [eab, ih (b2 :: r2') (fun s hs => h1 s (List.mem_cons_of_mem _ hs)) (fun s hs => h2 s (List.mem_cons_of_mem _ hs)) erest]

theorem insertStr_perm (x : String) (l : List String) : (insertStr x l).Perm (x :: l) := by
  induction l with
  | nil => exact List.Perm.refl _
  | cons y r ih =>
    unfold insertStr
    split
    · exact List.Perm.refl _
    · exact (List.Perm.cons y ih).trans (List.Perm.swap x y r)

theorem sortStrs_isPerm (l : List String) : (sortStrs l).Perm l := by
  induction l with
  | nil => exact List.Perm.refl _
  | cons x r ih =>
    simp only [sortStrs, List.foldr_cons]
    exact (insertStr_perm x _).trans (List.Perm.cons x ih)

/-- a function that does not collide on the elements of two lists reflects permutations of their images -/
theorem perm_of_map_perm_on (f : String → String) : ∀ (l1 l2 : List String),
    (∀ x ∈ l1 ++ l2, ∀ y ∈ l1 ++ l2, f x = f y → x = y) → (l1.map f).Perm (l2.map f) → l1.Perm l2 := by
  intro l1
  induction l1 with
  | nil =>
    intro l2 _ h
    have : l2.map f = [] := List.perm_nil.mp h.symm |> fun e => e
    cases l2 with
    | nil => exact List.Perm.refl _
    | cons _ _ => simp at this
  | cons a r ih =>
    intro l2 hinj h
    have hfa : f a ∈ l2.map f := h.subset (by simp)
    obtain ⟨b, hb, hfb⟩ := List.mem_map.mp hfa
    have hab : b = a := hinj b (by simp [hb]) a (by simp) hfb
    subst hab
    have hl2 : l2.Perm (b :: l2.erase b) := List.perm_cons_erase hb
    have h' : ((b :: r).map f).Perm ((b :: l2.erase b).map f) := h.trans (hl2.map f)
    rw [List.map_cons, List.map_cons] at h'
    have h'' := List.Perm.cons_inv h'
    have := ih (l2.erase b) (by
      intro x hx y hy
      apply hinj
      · rcases List.mem_append.mp hx with hx | hx
        · simp [hx]
        · exact List.mem_append_right _ (List.mem_of_mem_erase hx)
      · rcases List.mem_append.mp hy with hy | hy
        · simp [hy]
        · exact List.mem_append_right _ (List.mem_of_mem_erase hy)) h''
    exact (List.Perm.cons b this).trans hl2.symm

/-- **one table**: equal digests force equal multisets of column pre-images and of index pre-images, when `H` collides
    neither on the pre-images nor on the two joined digest lists, digests are `;`-free and non-empty, and no column
    pre-image is an index pre-image -/
theorem tableHashOf_inj (H : String → String) (c1 c2 i1 i2 : List String)
    (hdig : ∀ x ∈ c1 ++ c2 ++ i1 ++ i2, Digest (H x))
    (hinj : ∀ x ∈ c1 ++ i1 ++ (c2 ++ i2), ∀ y ∈ c1 ++ i1 ++ (c2 ++ i2), H x = H y → x = y)
    (hjoin : H (";".intercalate (sortStrs (c1.map H) ++ sortStrs (i1.map H))) =
      H (";".intercalate (sortStrs (c2.map H) ++ sortStrs (i2.map H))) →
      ";".intercalate (sortStrs (c1.map H) ++ sortStrs (i1.map H)) = ";".intercalate (sortStrs (c2.map H) ++ sortStrs (i2.map H)))
    (hdisj : ∀ x ∈ c1 ++ c2, ∀ y ∈ i1 ++ i2, x ≠ y)
    (h : tableHashOf H c1 i1 = tableHashOf H c2 i2) : c1.Perm c2 ∧ i1.Perm i2 := by
  unfold tableHashOf at h
  have hj := hjoin h
  have hd1 : ∀ s ∈ sortStrs (c1.map H) ++ sortStrs (i1.map H), Digest s := by
    intro s hs
    rcases List.mem_append.mp hs with hs | hs
    · obtain ⟨x, hx, rfl⟩ := List.mem_map.mp ((sortStrs_isPerm _).subset hs)
      exact hdig x (by simp [hx])
    · obtain ⟨x, hx, rfl⟩ := List.mem_map.mp ((sortStrs_isPerm _).subset hs)
      exact hdig x (by simp [hx])
  have hd2 : ∀ s ∈ sortStrs (c2.map H) ++ sortStrs (i2.map H), Digest s := by
    intro s hs
    rcases List.mem_append.mp hs with hs | hs
    · obtain ⟨x, hx, rfl⟩ := List.mem_map.mp ((sortStrs_isPerm _).subset hs)
      exact hdig x (by simp [hx])
    · obtain ⟨x, hx, rfl⟩ := List.mem_map.mp ((sortStrs_isPerm _).subset hs)
      exact hdig x (by simp [hx])
  have hl := intercalate_inj _ _ hd1 hd2 hj
  -- the images of the pre-images, up to order
  have hp : ((c1 ++ i1).map H).Perm ((c2 ++ i2).map H) := by
    rw [List.map_append, List.map_append]
    have p1 := ((sortStrs_isPerm (c1.map H)).append (sortStrs_isPerm (i1.map H))).symm
    have p2 := (sortStrs_isPerm (c2.map H)).append (sortStrs_isPerm (i2.map H))
    exact p1.trans (hl ▸ p2)
  have hperm : (c1 ++ i1).Perm (c2 ++ i2) := perm_of_map_perm_on H _ _ hinj hp
  -- split by kind
  have hf1 : (c1 ++ i1).filter (fun x => decide (x ∈ c1 ++ c2)) = c1 := by
    rw [List.filter_append]
    have e1 : c1.filter (fun x => decide (x ∈ c1 ++ c2)) = c1 := List.filter_eq_self.mpr (fun x hx => by simp [hx])
    have e2 : i1.filter (fun x => decide (x ∈ c1 ++ c2)) = [] := by
      apply List.filter_eq_nil_iff.mpr
      intro y hy hm
      have hm : y ∈ c1 ++ c2 := by simpa using hm
      exact hdisj y hm y (by simp [hy]) rfl
    rw [e1, e2, List.append_nil]
  have hf2 : (c2 ++ i2).filter (fun x => decide (x ∈ c1 ++ c2)) = c2 := by
    rw [List.filter_append]
    have e1 : c2.filter (fun x => decide (x ∈ c1 ++ c2)) = c2 := List.filter_eq_self.mpr (fun x hx => by simp [hx])
    have e2 : i2.filter (fun x => decide (x ∈ c1 ++ c2)) = [] := by
      apply List.filter_eq_nil_iff.mpr
      intro y hy hm
      have hm : y ∈ c1 ++ c2 := by simpa using hm
      exact hdisj y hm y (by simp [hy]) rfl
    rw [e1, e2, List.append_nil]
  have hg1 : (c1 ++ i1).filter (fun x => !decide (x ∈ c1 ++ c2)) = i1 := by
    rw [List.filter_append]
    have e1 : c1.filter (fun x => !decide (x ∈ c1 ++ c2)) = [] := by
      apply List.filter_eq_nil_iff.mpr
      intro y hy; simp [hy]
    have e2 : i1.filter (fun x => !decide (x ∈ c1 ++ c2)) = i1 := by
      apply List.filter_eq_self.mpr
      intro y hy
      have : y ∉ c1 ++ c2 := fun hm => hdisj y hm y (by simp [hy]) rfl
      simpa using this
    rw [e1, e2, List.nil_append]
  have hg2 : (c2 ++ i2).filter (fun x => !decide (x ∈ c1 ++ c2)) = i2 := by
    rw [List.filter_append]
    have e1 : c2.filter (fun x => !decide (x ∈ c1 ++ c2)) = [] := by
      apply List.filter_eq_nil_iff.mpr
      intro y hy; simp [hy]
    have e2 : i2.filter (fun x => !decide (x ∈ c1 ++ c2)) = i2 := by
      apply List.filter_eq_self.mpr
      intro y hy
      have : y ∉ c1 ++ c2 := fun hm => hdisj y hm y (by simp [hy]) rfl
      simpa using this
    rw [e1, e2, List.nil_append]
  refine ⟨?_, ?_⟩
  · have := hperm.filter (fun x => decide (x ∈ c1 ++ c2))
    rw [hf1, hf2] at this; exact this
  · have := hperm.filter (fun x => !decide (x ∈ c1 ++ c2))
    rw [hg1, hg2] at this; exact this

/-- pre-images of a reference table -/
def Spec.TableSpec.colPre (g : Globals) (tb : TableSpec) : List String := tb.cols.map (ColSpec.hashInput g)
def Spec.TableSpec.idxPre (g : Globals) (tb : TableSpec) : List String :=
  (if tb.pk = [] then [] else [pkHashInput g tb.pk]) ++ tb.idxs.map (IdxSpec.hashInput g)
/-- the string a table digest is taken of -/
def Spec.TableSpec.joined (H : String → String) (g : Globals) (tb : TableSpec) : String :=
  ";".intercalate (sortStrs ((tb.colPre g).map H) ++ sortStrs ((tb.idxPre g).map H))

theorem TableSpec.hashOf_joined (H : String → String) (g : Globals) (tb : TableSpec) :
    tb.hashOf H g = H (tb.joined H g) := rfl

/-- **C07, different schema ⇒ different value** (reference schemas, any number of tables): if `H` and `F` do not collide
    on the pre-images the two schemas give rise to, digests are non-empty `;`-free texts and no column pre-image is a key /
    index pre-image, then two non-empty schemas with the same value have the same number of tables and, table by table
    in order, the same multiset of column pre-images (escaped name + type) and the same multiset of key / index
    pre-images -/
theorem hashOf_inj (H : String → String) (F : String → Int) (g : Globals) (A B : DB) (hA : A ≠ []) (hB : B ≠ [])
    (hF : F (";".intercalate (A.map (TableSpec.hashOf H g))) = F (";".intercalate (B.map (TableSpec.hashOf H g))) →
      ";".intercalate (A.map (TableSpec.hashOf H g)) = ";".intercalate (B.map (TableSpec.hashOf H g)))
    (hdigT : ∀ t ∈ A ++ B, Digest (t.hashOf H g))
    (hdig : ∀ t ∈ A ++ B, ∀ x ∈ t.colPre g ++ t.idxPre g, Digest (H x))
    (hinj : ∀ t ∈ A ++ B, ∀ u ∈ A ++ B, ∀ x ∈ t.colPre g ++ t.idxPre g, ∀ y ∈ u.colPre g ++ u.idxPre g, H x = H y → x = y)
    (hjoin : ∀ t ∈ A ++ B, ∀ u ∈ A ++ B, H (t.joined H g) = H (u.joined H g) → t.joined H g = u.joined H g)
    (hdisj : ∀ t ∈ A ++ B, ∀ u ∈ A ++ B, ∀ x ∈ t.colPre g, ∀ y ∈ u.idxPre g, x ≠ y)
    (h : A.hashOf H F g = B.hashOf H F g) :
    A.length = B.length ∧ ∀ (i : Nat) (a b : TableSpec), A[i]? = some a → B[i]? = some b →
      (a.colPre g).Perm (b.colPre g) ∧ (a.idxPre g).Perm (b.idxPre g) := by
  unfold DB.hashOf at h
  have eA : A.isEmpty = false := by cases A <;> simp_all
  have eB : B.isEmpty = false := by cases B <;> simp_all
  rw [eA, eB] at h
  simp only [Bool.false_eq_true, if_false] at h
  have hj := hF h
  have hl : A.map (TableSpec.hashOf H g) = B.map (TableSpec.hashOf H g) := by
    apply intercalate_inj _ _ _ _ hj
    · intro s hs
      obtain ⟨t, ht, rfl⟩ := List.mem_map.mp hs
      exact hdigT t (by simp [ht])
    · intro s hs
      obtain ⟨t, ht, rfl⟩ := List.mem_map.mp hs
      exact hdigT t (by simp [ht])
  have hlen : A.length = B.length := by simpa using congrArg List.length hl
  refine ⟨hlen, ?_⟩
  intro i a b ha hb
  have hma : a ∈ A ++ B := List.mem_append_left _ (List.mem_of_getElem? ha)
  have hmb : b ∈ A ++ B := List.mem_append_right _ (List.mem_of_getElem? hb)
  have hab : a.hashOf H g = b.hashOf H g := by
    have h1 : (A.map (TableSpec.hashOf H g))[i]? = some (a.hashOf H g) := by rw [List.getElem?_map, ha]; rfl
    have h2 : (B.map (TableSpec.hashOf H g))[i]? = some (b.hashOf H g) := by rw [List.getElem?_map, hb]; rfl
    rw [hl, h2] at h1
    exact (Option.some.inj h1).symm
  exact tableHashOf_inj H (a.colPre g) (b.colPre g) (a.idxPre g) (b.idxPre g)
    (by
      intro x hx
      simp only [List.mem_append] at hx
      rcases hx with ((hx | hx) | hx) | hx
      · exact hdig a hma x (by simp [hx])
      · exact hdig b hmb x (by simp [hx])
      · exact hdig a hma x (by simp [hx])
      · exact hdig b hmb x (by simp [hx]))
    (by
      intro x hx y hy
      have mem : ∀ z, z ∈ a.colPre g ++ a.idxPre g ++ (b.colPre g ++ b.idxPre g) →
          (z ∈ a.colPre g ++ a.idxPre g) ∨ (z ∈ b.colPre g ++ b.idxPre g) := by
        intro z hz; exact List.mem_append.mp hz
      rcases mem x hx with hx | hx <;> rcases mem y hy with hy | hy
      · exact hinj a hma a hma x hx y hy
      · exact hinj a hma b hmb x hx y hy
      · exact hinj b hmb a hma x hx y hy
      · exact hinj b hmb b hmb x hx y hy)
    (hjoin a hma b hmb)
    (by
      intro x hx y hy
      rcases List.mem_append.mp hx with hx | hx <;> rcases List.mem_append.mp hy with hy | hy
      · exact hdisj a hma a hma x hx y hy
      · exact hdisj a hma b hmb x hx y hy
      · exact hdisj b hmb a hma x hx y hy
      · exact hdisj b hmb b hmb x hx y hy)
    hab

end Sqlize
