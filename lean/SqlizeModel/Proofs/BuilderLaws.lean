/-
  Proofs/BuilderLaws.lean — the tag switch of the struct builder (`Builder.tagItem`, one call per `;`-separated item of a
  field's tag, folded over the items): what decides the column name, the option flags and the foreign-key attribute.
-/
import SqlizeModel.Impl.Builder

namespace Sqlize.Builder

/-- a tag item that is not a `column:` item leaves the column name alone -/
theorem tagItem_name (c : Cfg) (tb pre ftn : String) (st : TagState) (ot : String)
    (h : (snake ot).startsWith "column:" = false) : (tagItem c tb pre ftn st ot).at_.name = st.at_.name := by
  unfold tagItem
  simp only [h, Bool.false_eq_true, if_false, apply_ite TagState.at_, apply_ite Attrs.name, ite_self]

/-- the tag switch of one field: the state after all its items -/
def tagFold (c : Cfg) (tb pre ftn : String) (st0 : TagState) (items : List String) : TagState :=
  items.foldl (tagItem c tb pre ftn) st0

theorem tagFold_name (c : Cfg) (tb pre ftn : String) : ∀ (items : List String) (st0 : TagState),
    (∀ ot ∈ items, (snake ot).startsWith "column:" = false) →
    (tagFold c tb pre ftn st0 items).at_.name = st0.at_.name := by
  intro items
  induction items with
  | nil => intro st0 _; rfl
  | cons ot r ih =>
    intro st0 h
    unfold tagFold
    rw [List.foldl_cons]
    have := ih (tagItem c tb pre ftn st0 ot) (fun x hx => h x (List.mem_cons_of_mem _ hx))
    unfold tagFold at this
    rw [this, tagItem_name c tb pre ftn st0 ot (h ot (by simp))]

/-- PRIMARY KEY is declared by the item `primary_key` (in either spelling: the key is normalised) and by nothing else -/
theorem tagItem_isPk (c : Cfg) (tb pre ftn : String) (st : TagState) (ot : String) :
    (tagItem c tb pre ftn st ot).at_.isPk = (st.at_.isPk || snake ot == "primary_key") := by
  by_cases hn : snake ot = "primary_key"
  · unfold tagItem
    simp only [hn]
    simp (decide := true)
  · have hb : (snake ot == "primary_key") = false := by simpa using hn
    unfold tagItem
    simp only [hb, Bool.false_eq_true, if_false, apply_ite TagState.at_, apply_ite Attrs.isPk, ite_self, Bool.or_false]
    repeat' split
    all_goals rfl

theorem tagItem_isNotNull (c : Cfg) (tb pre ftn : String) (st : TagState) (ot : String) :
    (tagItem c tb pre ftn st ot).at_.isNotNull = (st.at_.isNotNull || snake ot == "not_null") := by
  by_cases hn : snake ot = "not_null"
  · unfold tagItem
    simp only [hn]
    simp (decide := true)
  · have hb : (snake ot == "not_null") = false := by simpa using hn
    unfold tagItem
    simp only [hb, Bool.false_eq_true, if_false, apply_ite TagState.at_, apply_ite Attrs.isNotNull, ite_self, Bool.or_false]
    repeat' split
    all_goals rfl

theorem tagItem_isNull (c : Cfg) (tb pre ftn : String) (st : TagState) (ot : String) :
    (tagItem c tb pre ftn st ot).at_.isNull = (st.at_.isNull || snake ot == "null") := by
  by_cases hn : snake ot = "null"
  · unfold tagItem
    simp only [hn]
    simp (decide := true)
  · have hb : (snake ot == "null") = false := by simpa using hn
    unfold tagItem
    simp only [hb, Bool.false_eq_true, if_false, apply_ite TagState.at_, apply_ite Attrs.isNull, ite_self, Bool.or_false]
    repeat' split
    all_goals rfl

theorem tagItem_isAutoIncr (c : Cfg) (tb pre ftn : String) (st : TagState) (ot : String) :
    (tagItem c tb pre ftn st ot).at_.isAutoIncr = (st.at_.isAutoIncr || snake ot == "auto_increment") := by
  by_cases hn : snake ot = "auto_increment"
  · unfold tagItem
    simp only [hn]
    simp (decide := true)
  · have hb : (snake ot == "auto_increment") = false := by simpa using hn
    unfold tagItem
    simp only [hb, Bool.false_eq_true, if_false, apply_ite TagState.at_, apply_ite Attrs.isAutoIncr, ite_self, Bool.or_false]
    repeat' split
    all_goals rfl

theorem tagFold_isPk (c : Cfg) (tb pre ftn : String) : ∀ (items : List String) (st0 : TagState),
    (tagFold c tb pre ftn st0 items).at_.isPk = (st0.at_.isPk || items.any (fun ot => snake ot == "primary_key")) := by
  intro items
  induction items with
  | nil => intro st0; simp [tagFold]
  | cons ot r ih =>
    intro st0
    have := ih (tagItem c tb pre ftn st0 ot)
    unfold tagFold at this ⊢
    rw [List.foldl_cons, this, tagItem_isPk, List.any_cons, Bool.or_assoc]

theorem tagFold_isNotNull (c : Cfg) (tb pre ftn : String) : ∀ (items : List String) (st0 : TagState),
    (tagFold c tb pre ftn st0 items).at_.isNotNull = (st0.at_.isNotNull || items.any (fun ot => snake ot == "not_null")) := by
  intro items
  induction items with
  | nil => intro st0; simp [tagFold]
  | cons ot r ih =>
    intro st0
    have := ih (tagItem c tb pre ftn st0 ot)
    unfold tagFold at this ⊢
    rw [List.foldl_cons, this, tagItem_isNotNull, List.any_cons, Bool.or_assoc]

theorem tagFold_isNull (c : Cfg) (tb pre ftn : String) : ∀ (items : List String) (st0 : TagState),
    (tagFold c tb pre ftn st0 items).at_.isNull = (st0.at_.isNull || items.any (fun ot => snake ot == "null")) := by
  intro items
  induction items with
  | nil => intro st0; simp [tagFold]
  | cons ot r ih =>
    intro st0
    have := ih (tagItem c tb pre ftn st0 ot)
    unfold tagFold at this ⊢
    rw [List.foldl_cons, this, tagItem_isNull, List.any_cons, Bool.or_assoc]

theorem tagFold_isAutoIncr (c : Cfg) (tb pre ftn : String) : ∀ (items : List String) (st0 : TagState),
    (tagFold c tb pre ftn st0 items).at_.isAutoIncr = (st0.at_.isAutoIncr || items.any (fun ot => snake ot == "auto_increment")) := by
  intro items
  induction items with
  | nil => intro st0; simp [tagFold]
  | cons ot r ih =>
    intro st0
    have := ih (tagItem c tb pre ftn st0 ot)
    unfold tagFold at this ⊢
    rw [List.foldl_cons, this, tagItem_isAutoIncr, List.any_cons, Bool.or_assoc]

/-- the column name the tag of a field asks for: the last `column:` item (its `previous:` part when it has one: the
    column is created under the old name and renamed), behind the accumulated prefix; the given name otherwise -/
def nameStep (pre : String) (nm ot : String) : String :=
  if (snake ot).startsWith "column:" then
    match (trimPrefix ot "column:").splitOn ",previous:" with
    | [one] => pre ++ one
    | _ :: prev :: _ => pre ++ prev
    | [] => nm
  else nm

def nameOf (pre : String) (items : List String) (init : String) : String := items.foldl (nameStep pre) init

theorem tagItem_name_eq (c : Cfg) (tb pre ftn : String) (st : TagState) (ot : String) :
    (tagItem c tb pre ftn st ot).at_.name = nameStep pre st.at_.name ot := by
  unfold nameStep
  by_cases h : (snake ot).startsWith "column:" = true
  · unfold tagItem
    simp only [h, if_true]
    cases hsp : (trimPrefix ot "column:").splitOn ",previous:" with
    | nil => rfl
    | cons a r =>
      cases r with
      | nil => rfl
      | cons b r' => rfl
  · have h' : (snake ot).startsWith "column:" = false := by simpa using h
    rw [tagItem_name c tb pre ftn st ot h', if_neg h]

theorem tagFold_name_eq (c : Cfg) (tb pre ftn : String) : ∀ (items : List String) (st0 : TagState),
    (tagFold c tb pre ftn st0 items).at_.name = nameOf pre items st0.at_.name := by
  intro items
  induction items with
  | nil => intro st0; rfl
  | cons ot r ih =>
    intro st0
    have := ih (tagItem c tb pre ftn st0 ot)
    unfold tagFold nameOf at this ⊢
    rw [List.foldl_cons, List.foldl_cons, this, tagItem_name_eq]

/-- a foreign-key attribute comes from a `foreign_key:` / `references:` / `constraint:` item only -/
def fkItem (ot : String) : Bool :=
  (snake ot).startsWith "foreign_key:" || (snake ot).startsWith "references:" || (snake ot).startsWith "constraint:"

theorem tagItem_fk (c : Cfg) (tb pre ftn : String) (st : TagState) (ot : String) (h : fkItem ot = false) :
    (tagItem c tb pre ftn st ot).at_.fk = st.at_.fk := by
  unfold fkItem at h
  simp only [Bool.or_eq_false_iff] at h
  unfold tagItem
  simp only [h.1.1, h.1.2, h.2, Bool.false_eq_true, if_false, apply_ite TagState.at_, apply_ite Attrs.fk, ite_self]
  repeat' split
  all_goals rfl

theorem tagFold_fk (c : Cfg) (tb pre ftn : String) : ∀ (items : List String) (st0 : TagState),
    (∀ ot ∈ items, fkItem ot = false) → (tagFold c tb pre ftn st0 items).at_.fk = st0.at_.fk := by
  intro items
  induction items with
  | nil => intro st0 _; rfl
  | cons ot r ih =>
    intro st0 h
    have := ih (tagItem c tb pre ftn st0 ot) (fun x hx => h x (List.mem_cons_of_mem _ hx))
    unfold tagFold at this ⊢
    rw [List.foldl_cons, this, tagItem_fk c tb pre ftn st0 ot (h ot (by simp))]

end Sqlize.Builder
