/-
  Proofs/Inv.lean — the map invariant: the name → position map of a table is exactly `name ↦ index` of its column
  slice and names are unique.  Under it `Arrange` is the identity (whatever order Go iterates the map in), hence every
  state whose tables satisfy it is arrange-stable (Proofs/Stable.lean) and output calls are pure (C08).
-/
import SqlizeModel.Proofs.Stable

namespace Sqlize

/-- `name ↦ index` of a column slice -/
def canonIdx (cols : List Column) : AMap := (cols.map (·.name)).zipIdx

/-- the column part of the invariant `Inv` -/
def Table.ColInv (t : Table) : Prop :=
  (t.cols.map (·.name)).Nodup ∧ List.Perm t.colIdx (canonIdx t.cols)

-- ---------------------------------------------------------------------------------------------------------------
-- sorting the map entries by position gives the canonical list

def ByVal (a b : String × Nat) : Prop := a.2 ≤ b.2

theorem insertByVal_perm (p : String × Nat) (l : List (String × Nat)) : (Table.insertByVal p l).Perm (p :: l) := by
  induction l with
  | nil => exact List.Perm.refl _
  | cons q r ih =>
    unfold Table.insertByVal
    split
    · exact List.Perm.refl _
    · exact (List.Perm.cons q ih).trans (List.Perm.swap p q r)

theorem insertByVal_sorted (p : String × Nat) (l : List (String × Nat)) (h : l.Pairwise ByVal) :
    (Table.insertByVal p l).Pairwise ByVal := by
  induction l with
  | nil => simp [Table.insertByVal]
  | cons q r ih =>
    unfold Table.insertByVal
    have hq := List.pairwise_cons.mp h
    split
    · rename_i hlt
      refine List.pairwise_cons.mpr ⟨?_, h⟩
      intro b hb
      simp only [List.mem_cons] at hb
      rcases hb with rfl | hb
      · exact Nat.le_of_lt hlt
      · exact Nat.le_trans (Nat.le_of_lt hlt) (hq.1 b hb)
    · rename_i hnlt
      refine List.pairwise_cons.mpr ⟨?_, ih hq.2⟩
      intro b hb
      have := (insertByVal_perm p r).subset hb
      simp only [List.mem_cons] at this
      rcases this with rfl | hb'
      · exact Nat.le_of_not_lt hnlt
      · exact hq.1 b hb'

theorem foldl_insert_inv (m acc : List (String × Nat)) (hacc : acc.Pairwise ByVal) :
    (m.foldl (fun a p => Table.insertByVal p a) acc).Pairwise ByVal ∧
    (m.foldl (fun a p => Table.insertByVal p a) acc).Perm (m ++ acc) := by
  induction m generalizing acc with
  | nil => exact ⟨hacc, List.Perm.refl _⟩
  | cons p r ih =>
    simp only [List.foldl_cons]
    obtain ⟨h1, h2⟩ := ih (Table.insertByVal p acc) (insertByVal_sorted p acc hacc)
    refine ⟨h1, h2.trans ?_⟩
    have := insertByVal_perm p acc
    exact (List.Perm.append_left r this).trans List.perm_middle

theorem sortByVal_props (m : AMap) : (Table.sortByVal m).Pairwise ByVal ∧ (Table.sortByVal m).Perm m := by
  have := foldl_insert_inv m [] List.Pairwise.nil
  simpa [Table.sortByVal] using this

theorem zipIdx_sorted (l : List String) (k : Nat) : (l.zipIdx k).Pairwise ByVal := by
  induction l generalizing k with
  | nil => simp
  | cons x r ih =>
    simp only [List.zipIdx_cons]
    refine List.pairwise_cons.mpr ⟨?_, ih (k + 1)⟩
    intro b hb
    have := List.mem_zipIdx hb
    show k ≤ b.2
    omega

theorem zipIdx_snd_inj (l : List String) (k : Nat) (a b : String × Nat) (ha : a ∈ l.zipIdx k) (hb : b ∈ l.zipIdx k)
    (h : a.2 = b.2) : a = b := by
  induction l generalizing k with
  | nil => simp at ha
  | cons x r ih =>
    simp only [List.zipIdx_cons, List.mem_cons] at ha hb
    rcases ha with rfl | ha <;> rcases hb with rfl | hb
    · rfl
    · have := List.mem_zipIdx hb; simp at h; omega
    · have := List.mem_zipIdx ha; simp at h; omega
    · exact ih (k + 1) ha hb

/-- sorting a permutation of `name ↦ index` by value gives `name ↦ index` in index order -/
theorem sortByVal_canon (m : AMap) (cols : List Column) (h : m.Perm (canonIdx cols)) :
    Table.sortByVal m = canonIdx cols := by
  obtain ⟨hs, hp⟩ := sortByVal_props m
  apply List.Perm.eq_of_pairwise (le := ByVal) _ hs (zipIdx_sorted _ 0) (hp.trans h)
  intro a b ha hb hab hba
  have ha' : a ∈ canonIdx cols := (hp.trans h).subset ha
  exact zipIdx_snd_inj _ 0 a b ha' hb (Nat.le_antisymm hab hba)

end Sqlize

namespace Sqlize

-- ---------------------------------------------------------------------------------------------------------------
-- Arrange is the identity under the invariant

theorem findIdx_name (cols : List Column) (hn : (cols.map (·.name)).Nodup) (i : Nat) (hi : i < cols.length) :
    cols.findIdx? (fun c => c.name == cols[i].name) = some i := by
  rw [List.findIdx?_eq_some_iff_getElem]
  refine ⟨hi, by simp, ?_⟩
  intro j hji
  have hj : j < cols.length := Nat.lt_trans hji hi
  intro heq
  have heq' : cols[j].name = cols[i].name := by simpa using heq
  have h1 : (cols.map (·.name))[j]'(by simpa using hj) = (cols.map (·.name))[i]'(by simpa using hi) := by
    simpa using heq'
  have := (List.getElem_inj hn).mp h1
  omega

/-- the loop of `Arrange` over the entries `name ↦ index` for the indices `i, i+1, …` changes nothing -/
theorem arrangeGo_canon (cols : List Column) (hn : (cols.map (·.name)).Nodup) :
    ∀ (k : Nat) (i : Nat), i + k = cols.length →
      Table.arrangeGo cols i (((cols.drop i).map (·.name)).zipIdx i) = .ok cols := by
  intro k
  induction k with
  | zero =>
    intro i hi
    have : cols.drop i = [] := List.drop_eq_nil_iff.mpr (by omega)
    simp [this, Table.arrangeGo, pure, Except.pure]
  | succ k ih =>
    intro i hi
    have hlt : i < cols.length := by omega
    have hdrop : cols.drop i = cols[i] :: cols.drop (i + 1) := by
      rw [List.drop_eq_getElem_cons hlt]
    rw [hdrop]
    simp only [List.map_cons, List.zipIdx_cons, Table.arrangeGo]
    rw [findIdx_name cols hn i hlt]
    have hg : getIdx "Arrange" cols i = .ok cols[i] := by
      simp [getIdx, List.getElem?_eq_getElem hlt, pure, Except.pure]
    simp only [hg, bind, Except.bind]
    have hset : (cols.set i cols[i]).set i cols[i] = cols := by
      simp
    rw [hset]
    exact ih (i + 1) (by omega)

theorem arrange_id (t : Table) (h : t.ColInv) : t.arrange = .ok t := by
  obtain ⟨hn, hp⟩ := h
  unfold Table.arrange
  rw [sortByVal_canon t.colIdx t.cols hp]
  have := arrangeGo_canon t.cols hn t.cols.length 0 (by omega)
  simp only [List.drop_zero] at this
  unfold canonIdx
  rw [this]
  rfl

/-- every table satisfies the column invariant -/
def Migration.ColInv (m : Migration) : Prop := ∀ t ∈ m.tables, t.ColInv

/-- `Inv` ⇒ arrange-stable: with C08.calls_pure, every output call sequence on a state whose position maps agree with
    the slices is pure, whatever order Go iterates the maps in -/
theorem stable_of_inv (m : Migration) (h : m.ColInv) : m.Stable :=
  fun t ht _ => arrange_id t (h t ht)

end Sqlize
