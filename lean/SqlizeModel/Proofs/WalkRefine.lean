/-
  Proofs/WalkRefine.lean — refinement of the `Impl` column walk (`walkCols`: the `MigrateNoAction` branch of
  `MigrationColumnUp/Down`, over full column records, dialect and option flags) to the `Abs` walk (`emitUpAux` over
  tagged names): the column-structure statements the implementation model prints are exactly the abstract walk's, in
  order, in both directions and under the ignore-field-order option.  With `Abs.emitUp_correct` &c. the printed ADD /
  DROP COLUMN statements, executed by the reference rules, turn the old column order into the new one.
  Columns being renamed are outside (a rename changes the name the later AFTER clauses refer to: recorded region
  `rename-column`); SQLite prints no DROP COLUMN at all (recorded region `sqlite-*`).
-/
import SqlizeModel.Impl.Emit
import SqlizeModel.Abs.Walk

namespace Sqlize

def tagOfAction : Action → Abs.Tag
  | .add => .add
  | .remove => .rem
  | _ => .keep

/-- the abstract view of a column slice -/
def absCols (cols : List Column) : Abs.M := cols.map (fun c => (c.name, tagOfAction c.action))

/-- the column-structure content of a printed statement -/
def colStmt : Stmt → Option Abs.Stmt
  | .addColumn _ c .first => some (.addCol c.name none)
  | .addColumn _ c (.after p) => some (.addCol c.name (some p))
  | .addColumn _ c .none => some (.appendCol c.name)
  | .dropColumn _ c => some (.dropCol c)
  | _ => none

/-- the AFTER target the walk has at a point: last column before it that is not being dropped -/
def afterOf (skip : Action) (before : List Column) : Option String :=
  (before.reverse.find? (·.action != skip)).map (·.name)

theorem nearestBefore_eq (skip : Action) (before : List Column) :
    Table.nearestBefore skip before = (afterOf skip before).getD "" := by
  unfold Table.nearestBefore afterOf
  cases before.reverse.find? (·.action != skip) <;> rfl

theorem afterOf_snoc_keep (skip : Action) (before : List Column) (c : Column) (h : c.action ≠ skip) :
    afterOf skip (before ++ [c]) = some c.name := by
  unfold afterOf
  have : (c.action != skip) = true := by simpa using h
  simp [List.reverse_append, List.find?_cons, this]

theorem afterOf_snoc_skip (skip : Action) (before : List Column) (c : Column) (h : c.action = skip) :
    afterOf skip (before ++ [c]) = afterOf skip before := by
  unfold afterOf
  have : (c.action != skip) = false := by simp [h]
  simp [List.reverse_append, List.find?_cons, this]

theorem afterOf_ne_empty (skip : Action) (before : List Column) (hne : ∀ c ∈ before, c.name ≠ "") (p : String)
    (h : afterOf skip before = some p) : p ≠ "" := by
  unfold afterOf at h
  cases hf : before.reverse.find? (·.action != skip) with
  | none => rw [hf] at h; cases h
  | some c =>
    rw [hf] at h
    have hm : c ∈ before := by
      have := List.mem_of_find?_eq_some hf
      simpa using this
    have : c.name = p := Option.some.inj h
    rw [← this]; exact hne c hm

/-- actions of the walk this refinement covers -/
def SimpleAction (a : Action) : Prop := a = .none ∨ a = .add ∨ a = .remove ∨ a = .modify

theorem absCols_cons (c : Column) (r : List Column) :
    absCols (c :: r) = (c.name, tagOfAction c.action) :: absCols r := rfl

theorem walkCols_cons_none (g : Globals) (tb : String) (up : Bool) (before : List Column) (c : Column)
    (rest : List Column) (h : c.action = .none) :
    Table.walkCols g tb up before (c :: rest) = Table.walkCols g tb up (before ++ [c]) rest := by
  rw [Table.walkCols]
  simp [h]

/-- the statement and dropped-name contribution of one column with an action -/
def colStep (g : Globals) (tb : String) (up : Bool) (before : List Column) (c : Column) : List Stmt × List String :=
  let positioned := if up then Action.add else Action.remove
  let dropped := if up then Action.remove else Action.add
  let after := if c.action == positioned then Table.nearestBefore dropped before else ""
  let d := if c.action == dropped then [c.name] else []
  let after' := if g.ignoreOrder then "" else after
  (if up then c.migrationUpAlter g tb after' else c.migrationDownAlter g tb after', d)

theorem walkCols_cons_act (g : Globals) (tb : String) (up : Bool) (before : List Column) (c : Column)
    (rest : List Column) (h : c.action ≠ .none) :
    Table.walkCols g tb up before (c :: rest) =
      ((colStep g tb up before c).1 ++ (Table.walkCols g tb up (before ++ [c]) rest).1,
       (colStep g tb up before c).2 ++ (Table.walkCols g tb up (before ++ [c]) rest).2) := by
  rw [Table.walkCols]
  have : (c.action == Action.none) = false := by simpa using h
  simp only [this, Bool.false_eq_true, if_false, colStep]

/-- **up walk**: the ADD/DROP COLUMN content of `walkCols … up` is the abstract walk, and the dropped-column list is
    the list of `rem`-tagged names -/
theorem walkCols_up_refines (g : Globals) (hio : g.ignoreOrder = false) (hd : g.dialect ≠ .sqlite) (tb : String)
    (cols : List Column) : ∀ (before : List Column), (∀ c ∈ cols, SimpleAction c.action) →
      (∀ c ∈ before ++ cols, c.name ≠ "") →
      (Table.walkCols g tb true before cols).1.filterMap colStmt
          = Abs.emitUpAux (afterOf .remove before) (absCols cols) ∧
      (Table.walkCols g tb true before cols).2 = ((absCols cols).filter (·.2 = .rem)).map (·.1) := by
  induction cols with
  | nil => intro before _ _; exact ⟨rfl, rfl⟩
  | cons c rest ih =>
    intro before hact hne
    have hrest := ih (before ++ [c]) (fun x hx => hact x (List.mem_cons_of_mem _ hx))
      (fun x hx => hne x (by simpa [List.append_assoc] using hx))
    have hneb : ∀ x ∈ before, x.name ≠ "" := fun x hx => hne x (List.mem_append_left _ hx)
    have hsq : (g.dialect == Dialect.sqlite) = false := by simpa using hd
    rw [absCols_cons]
    rcases hact c List.mem_cons_self with ha | ha | ha | ha
    · -- none
      rw [walkCols_cons_none g tb true before c rest ha, ha]
      rw [afterOf_snoc_keep .remove before c (by rw [ha]; decide)] at hrest
      exact ⟨hrest.1, hrest.2⟩
    · -- add
      rw [walkCols_cons_act g tb true before c rest (by rw [ha]; decide), ha]
      rw [afterOf_snoc_keep .remove before c (by rw [ha]; decide)] at hrest
      have hst : (colStep g tb true before c).1.filterMap colStmt = [Abs.Stmt.addCol c.name (afterOf .remove before)] ∧
          (colStep g tb true before c).2 = [] := by
        cases hp : afterOf .remove before with
        | none => simp [colStep, Column.migrationUpAlter, ha, nearestBefore_eq, hio, hp, colStmt, Column.colDef]
        | some p =>
          have := afterOf_ne_empty .remove before hneb p hp
          have hb : (p != "") = true := by simpa using this
          simp [colStep, Column.migrationUpAlter, ha, nearestBefore_eq, hio, hp, colStmt, Column.colDef, hb]
      refine ⟨?_, ?_⟩
      · show List.filterMap colStmt ((colStep g tb true before c).1 ++ _) = _
        rw [List.filterMap_append, hst.1, hrest.1]
        rfl
      · show (colStep g tb true before c).2 ++ _ = _
        rw [hst.2, hrest.2]
        rfl
    · -- remove
      rw [walkCols_cons_act g tb true before c rest (by rw [ha]; decide), ha]
      rw [afterOf_snoc_skip .remove before c ha] at hrest
      have hst : (colStep g tb true before c).1.filterMap colStmt = [Abs.Stmt.dropCol c.name] ∧
          (colStep g tb true before c).2 = [c.name] := by
        simp [colStep, Column.migrationUpAlter, ha, hsq, colStmt]
      refine ⟨?_, ?_⟩
      · show List.filterMap colStmt ((colStep g tb true before c).1 ++ _) = _
        rw [List.filterMap_append, hst.1, hrest.1]
        rfl
      · show (colStep g tb true before c).2 ++ _ = _
        rw [hst.2, hrest.2]
        rfl
    · -- modify
      rw [walkCols_cons_act g tb true before c rest (by rw [ha]; decide), ha]
      rw [afterOf_snoc_keep .remove before c (by rw [ha]; decide)] at hrest
      have hst : (colStep g tb true before c).1.filterMap colStmt = [] ∧ (colStep g tb true before c).2 = [] := by
        simp [colStep, Column.migrationUpAlter, ha, colStmt]
      refine ⟨?_, ?_⟩
      · show List.filterMap colStmt ((colStep g tb true before c).1 ++ _) = _
        rw [List.filterMap_append, hst.1, hrest.1]
        rfl
      · show (colStep g tb true before c).2 ++ _ = _
        rw [hst.2, hrest.2]
        rfl

theorem flipM_cons (p : Abs.Name × Abs.Tag) (r : Abs.M) : Abs.flipM (p :: r) = (p.1, p.2.flip) :: Abs.flipM r := rfl

/-- **down walk**: the same for `walkCols … down` and the flipped tagging (`Abs.emitDown`) -/
theorem walkCols_down_refines (g : Globals) (hio : g.ignoreOrder = false) (hd : g.dialect ≠ .sqlite) (tb : String)
    (cols : List Column) : ∀ (before : List Column), (∀ c ∈ cols, SimpleAction c.action) →
      (∀ c ∈ before ++ cols, c.name ≠ "") →
      (Table.walkCols g tb false before cols).1.filterMap colStmt
          = Abs.emitUpAux (afterOf .add before) (Abs.flipM (absCols cols)) ∧
      (Table.walkCols g tb false before cols).2 = ((absCols cols).filter (·.2 = .add)).map (·.1) := by
  induction cols with
  | nil => intro before _ _; exact ⟨rfl, rfl⟩
  | cons c rest ih =>
    intro before hact hne
    have hrest := ih (before ++ [c]) (fun x hx => hact x (List.mem_cons_of_mem _ hx))
      (fun x hx => hne x (by simpa [List.append_assoc] using hx))
    have hneb : ∀ x ∈ before, x.name ≠ "" := fun x hx => hne x (List.mem_append_left _ hx)
    have hsq : (g.dialect == Dialect.sqlite) = false := by simpa using hd
    rw [absCols_cons, flipM_cons]
    rcases hact c List.mem_cons_self with ha | ha | ha | ha
    · -- none
      rw [walkCols_cons_none g tb false before c rest ha, ha]
      rw [afterOf_snoc_keep .add before c (by rw [ha]; decide)] at hrest
      exact ⟨hrest.1, hrest.2⟩
    · -- add: dropped on the way down
      rw [walkCols_cons_act g tb false before c rest (by rw [ha]; decide), ha]
      rw [afterOf_snoc_skip .add before c ha] at hrest
      have hst : (colStep g tb false before c).1.filterMap colStmt = [Abs.Stmt.dropCol c.name] ∧
          (colStep g tb false before c).2 = [c.name] := by
        simp [colStep, Column.migrationDownAlter, Column.migrationUpAlter, ha, hsq, colStmt]
      refine ⟨?_, ?_⟩
      · show List.filterMap colStmt ((colStep g tb false before c).1 ++ _) = _
        rw [List.filterMap_append, hst.1, hrest.1]
        rfl
      · show (colStep g tb false before c).2 ++ _ = _
        rw [hst.2, hrest.2]
        rfl
    · -- remove: re-added on the way down
      rw [walkCols_cons_act g tb false before c rest (by rw [ha]; decide), ha]
      rw [afterOf_snoc_keep .add before c (by rw [ha]; decide)] at hrest
      have hst : (colStep g tb false before c).1.filterMap colStmt = [Abs.Stmt.addCol c.name (afterOf .add before)] ∧
          (colStep g tb false before c).2 = [] := by
        cases hp : afterOf .add before with
        | none =>
          simp [colStep, Column.migrationDownAlter, Column.migrationUpAlter, ha, nearestBefore_eq, hio, hp, colStmt,
            Column.colDef]
        | some p =>
          have := afterOf_ne_empty .add before hneb p hp
          have hb : (p != "") = true := by simpa using this
          simp [colStep, Column.migrationDownAlter, Column.migrationUpAlter, ha, nearestBefore_eq, hio, hp, colStmt,
            Column.colDef, hb]
      refine ⟨?_, ?_⟩
      · show List.filterMap colStmt ((colStep g tb false before c).1 ++ _) = _
        rw [List.filterMap_append, hst.1, hrest.1]
        rfl
      · show (colStep g tb false before c).2 ++ _ = _
        rw [hst.2, hrest.2]
        rfl
    · -- modify
      rw [walkCols_cons_act g tb false before c rest (by rw [ha]; decide), ha]
      rw [afterOf_snoc_keep .add before c (by rw [ha]; decide)] at hrest
      have hst : (colStep g tb false before c).1.filterMap colStmt = [] ∧ (colStep g tb false before c).2 = [] := by
        simp [colStep, Column.migrationDownAlter, Column.migrationUpAlter, ha, colStmt]
      refine ⟨?_, ?_⟩
      · show List.filterMap colStmt ((colStep g tb false before c).1 ++ _) = _
        rw [List.filterMap_append, hst.1, hrest.1]
        rfl
      · show (colStep g tb false before c).2 ++ _ = _
        rw [hst.2, hrest.2]
        rfl

/-- **ignore-field-order**: the up walk prints the same statements without positional clause -/
theorem walkCols_up_ignore_refines (g : Globals) (hio : g.ignoreOrder = true) (hd : g.dialect ≠ .sqlite) (tb : String)
    (cols : List Column) : ∀ (before : List Column), (∀ c ∈ cols, SimpleAction c.action) →
      (Table.walkCols g tb true before cols).1.filterMap colStmt = Abs.emitUpIgnore (absCols cols) := by
  induction cols with
  | nil => intro before _; rfl
  | cons c rest ih =>
    intro before hact
    have hrest := ih (before ++ [c]) (fun x hx => hact x (List.mem_cons_of_mem _ hx))
    have hsq : (g.dialect == Dialect.sqlite) = false := by simpa using hd
    rw [absCols_cons]
    rcases hact c List.mem_cons_self with ha | ha | ha | ha
    · rw [walkCols_cons_none g tb true before c rest ha, ha]; exact hrest
    · rw [walkCols_cons_act g tb true before c rest (by rw [ha]; decide), ha]
      have hst : (colStep g tb true before c).1.filterMap colStmt = [Abs.Stmt.appendCol c.name] := by
        simp [colStep, Column.migrationUpAlter, ha, hio, colStmt, Column.colDef]
      show List.filterMap colStmt ((colStep g tb true before c).1 ++ _) = _
      rw [List.filterMap_append, hst, hrest]; rfl
    · rw [walkCols_cons_act g tb true before c rest (by rw [ha]; decide), ha]
      have hst : (colStep g tb true before c).1.filterMap colStmt = [Abs.Stmt.dropCol c.name] := by
        simp [colStep, Column.migrationUpAlter, ha, hsq, colStmt]
      show List.filterMap colStmt ((colStep g tb true before c).1 ++ _) = _
      rw [List.filterMap_append, hst, hrest]; rfl
    · rw [walkCols_cons_act g tb true before c rest (by rw [ha]; decide), ha]
      have hst : (colStep g tb true before c).1.filterMap colStmt = [] := by
        simp [colStep, Column.migrationUpAlter, ha, colStmt]
      show List.filterMap colStmt ((colStep g tb true before c).1 ++ _) = _
      rw [List.filterMap_append, hst, hrest]; rfl

/-- the old / new column lists a diffed table stands for -/
def oldNames (cols : List Column) : List String := Abs.oldSide (absCols cols)
def newNames (cols : List Column) : List String := Abs.newSide (absCols cols)

/-- **C01, column core on the implementation model**: the ADD / DROP COLUMN statements `MigrationColumnUp` prints for
    a diffed table (no action on the table itself), executed by the reference rules on the old column order, are
    well-formed at every step and give exactly the new column order -/
theorem printed_up_correct (g : Globals) (hio : g.ignoreOrder = false) (hd : g.dialect ≠ .sqlite) (tb : String)
    (cols : List Column) (hact : ∀ c ∈ cols, SimpleAction c.action) (hne : ∀ c ∈ cols, c.name ≠ "")
    (hnd : (cols.map (·.name)).Nodup) :
    Abs.execAll (oldNames cols) ((Table.walkCols g tb true [] cols).1.filterMap colStmt) = some (newNames cols) := by
  rw [(walkCols_up_refines g hio hd tb cols [] hact (by simpa using hne)).1]
  have hn : (absCols cols).map (·.1) = cols.map (·.name) := by
    simp [absCols, List.map_map, Function.comp_def]
  exact Abs.emitUp_correct (absCols cols) (by rw [hn]; exact hnd)

/-- **C02, column core on the implementation model** -/
theorem printed_down_correct (g : Globals) (hio : g.ignoreOrder = false) (hd : g.dialect ≠ .sqlite) (tb : String)
    (cols : List Column) (hact : ∀ c ∈ cols, SimpleAction c.action) (hne : ∀ c ∈ cols, c.name ≠ "")
    (hnd : (cols.map (·.name)).Nodup) :
    Abs.execAll (newNames cols) ((Table.walkCols g tb false [] cols).1.filterMap colStmt) = some (oldNames cols) := by
  rw [(walkCols_down_refines g hio hd tb cols [] hact (by simpa using hne)).1]
  have hn : (absCols cols).map (·.1) = cols.map (·.name) := by
    simp [absCols, List.map_map, Function.comp_def]
  exact Abs.emitDown_correct (absCols cols) (by rw [hn]; exact hnd)

/-- **C13 on the implementation model**: with the option, kept columns stay where they are and added ones are appended -/
theorem printed_up_ignore_correct (g : Globals) (hio : g.ignoreOrder = true) (hd : g.dialect ≠ .sqlite) (tb : String)
    (cols : List Column) (hact : ∀ c ∈ cols, SimpleAction c.action) (hnd : (cols.map (·.name)).Nodup) :
    Abs.execAll (oldNames cols) ((Table.walkCols g tb true [] cols).1.filterMap colStmt)
      = some (Abs.keptSide (absCols cols) ++ Abs.addedSide (absCols cols)) := by
  rw [walkCols_up_ignore_refines g hio hd tb cols [] hact]
  have hn : (absCols cols).map (·.1) = cols.map (·.name) := by
    simp [absCols, List.map_map, Function.comp_def]
  exact Abs.emitUpIgnore_correct (absCols cols) (by rw [hn]; exact hnd)

end Sqlize
