import SqlizeModel.Proofs.SpecTable
import SqlizeModel.Proofs.SpecJustified
import SqlizeModel.Proofs.Textual
import SqlizeModel.Proofs.FkWF

namespace Sqlize
open Spec

theorem find_name' (db : DB) (t : String) (tb : TableSpec) (h : db.find t = some tb) : tb.name = t := by
  obtain ⟨_, _, hn⟩ := find_getElem db t tb h
  exact hn

theorem nodup_allNodup (l : List String) (h : l.Nodup) : allNodup l = true := (ReaderMysql.allNodup_iff l).mpr h

/-- the statement(s) a live index record of a created table prints, on the reference engine -/
theorem exec_added_idx (db : DB) (hnd : (db.map (·.name)).Nodup) (t : String) (tb : TableSpec) (hf : db.find t = some tb)
    (i : Index) (hl : i.Live)
    (hfresh : i.name ≠ pkName → tb.idxs.any (·.name == i.name) = false) (hpk : i.name = pkName → tb.pk = [])
    (hcols : ∀ c ∈ i.cols, c ∈ tb.colNames) (hcnd : i.name = pkName → i.cols.Nodup) :
    ∃ tb', execAll false db (i.upStmts t) = some (db.replace tb') ∧ tb'.name = tb.name ∧ tb'.cols = tb.cols ∧ tb'.fks = tb.fks ∧
      tb'.idxs = tb.idxs ++ idxSpecOf [i] ∧ tb'.pk = (if i.name == pkName then i.cols else tb.pk) := by
  have hall : i.cols.all tb.hasCol = true := by
    rw [List.all_eq_true]; intro c hc; exact (ReaderMysql.hasCol_iff tb c).mpr (hcols c hc)
  have hne : i.cols.isEmpty = false := by
    cases hc : i.cols with
    | nil => exact absurd hc hl.ne
    | cons _ _ => rfl
  by_cases hp : i.name = pkName
  · have hisPk : i.isPk = true := by rw [hl.pk, hp]; simp
    have hpk0 := hpk hp
    refine ⟨{ tb with pk := i.cols }, ?_, rfl, rfl, rfl, ?_, ?_⟩
    · unfold Index.upStmts
      simp only [hl.add, hisPk, if_true, execAll, exec, hf]
      have h1 : tb.pk.isEmpty = true := by rw [hpk0]; rfl
      have h2 : allNodup i.cols = true := nodup_allNodup _ (hcnd hp)
      simp [h1, hne, hall, h2]
    · show tb.idxs = tb.idxs ++ idxSpecOf [i]
      unfold idxSpecOf
      have : (i.name != pkName) = false := by rw [hp]; simp
      simp [this]
    · show i.cols = _
      have : (i.name == pkName) = true := by rw [hp]; simp
      rw [if_pos this]
  · have hisPk : i.isPk = false := by
      rw [hl.pk]; simpa using hp
    have hfr := hfresh hp
    refine ⟨{ tb with idxs := tb.idxs ++ [i.toSpec] }, ?_, rfl, rfl, rfl, ?_, ?_⟩
    · unfold Index.upStmts
      simp only [hl.add, hisPk, Bool.false_eq_true, if_false, execAll, exec, hf]
      simp [hfr, hne, hall, Index.toSpec, Table.normIdxType]
    · show tb.idxs ++ [i.toSpec] = tb.idxs ++ idxSpecOf [i]
      unfold idxSpecOf
      have : (i.name != pkName) = true := by simpa using hp
      simp [this]
    · show tb.pk = _
      have : (i.name == pkName) = false := by simpa using hp
      rw [if_neg (by simp [this])]

theorem idxSpecOf_cons (i : Index) (r : List Index) : idxSpecOf (i :: r) = idxSpecOf [i] ++ idxSpecOf r := by
  unfold idxSpecOf
  rw [List.filter_cons]
  by_cases h : (i.name != pkName) = true
  · simp [h]
  · simp [h]

/-- the index statements of a created table, executed on the reference engine: the indexes are created in order, the
    `primary_key` record becomes the table's key -/
theorem exec_added_idxs : ∀ (is : List Index) (db : DB) (t : String) (tb : TableSpec),
    (db.map (·.name)).Nodup → db.find t = some tb →
    (∀ i ∈ is, i.Live) → (is.map (·.name)).Nodup →
    (∀ i ∈ is, i.name ≠ pkName → tb.idxs.any (·.name == i.name) = false) →
    (tb.pk = [] ∨ ∀ i ∈ is, i.name ≠ pkName) →
    (∀ i ∈ is, ∀ c ∈ i.cols, c ∈ tb.colNames) → (∀ i ∈ is, i.name = pkName → i.cols.Nodup) →
    ∃ db' tb', execAll false db (is.flatMap (fun i => i.upStmts t)) = some db' ∧ db'.find t = some tb' ∧
      tb'.name = tb.name ∧ tb'.cols = tb.cols ∧ tb'.fks = tb.fks ∧ tb'.idxs = tb.idxs ++ idxSpecOf is ∧
      tb'.pk = (if is.any (·.name == pkName) then pkOf is else tb.pk) ∧
      (∀ u, u ≠ t → db'.find u = db.find u) ∧ db'.map (·.name) = db.map (·.name) := by
  intro is
  induction is with
  | nil =>
    intro db t tb _ hf _ _ _ _ _ _
    exact ⟨db, tb, rfl, hf, rfl, rfl, rfl, by simp [idxSpecOf], by simp, fun _ _ => rfl, rfl⟩
  | cons i rest ih =>
    intro db t tb hnd hf hl hndI hfresh hpk hcols hcnd
    rw [List.map_cons, List.nodup_cons] at hndI
    obtain ⟨tb1, he1, hn1, hc1, hfk1, hi1, hp1⟩ := exec_added_idx db hnd t tb hf i (hl i (by simp))
      (hfresh i (by simp)) (fun hp => by
        rcases hpk with h | h
        · exact h
        · exact absurd hp (h i (by simp))) (hcols i (by simp)) (hcnd i (by simp))
    obtain ⟨k, hk, hname⟩ := find_getElem db t tb hf
    obtain ⟨hf1, _, hnames1⟩ := ReaderMysql.find_replace db hnd k tb tb1 hk hn1
    have hf1 : (db.replace tb1).find t = some tb1 := by rw [← hname]; exact hf1
    have hnd1 : ((db.replace tb1).map (·.name)).Nodup := by rw [hnames1]; exact hnd
    have hcn1 : tb1.colNames = tb.colNames := by show tb1.cols.map _ = tb.cols.map _; rw [hc1]
    obtain ⟨db', tb', he', hf', hn', hc', hfk', hi', hp', hother, hnames'⟩ := ih (db.replace tb1) t tb1 hnd1 hf1
      (fun x hx => hl x (List.mem_cons_of_mem _ hx)) hndI.2
      (by
        intro x hx hxp
        rw [hi1, List.any_append]
        have h1 := hfresh x (List.mem_cons_of_mem _ hx) hxp
        rw [h1, Bool.false_or]
        -- the record just created has another name
        have hne : i.name ≠ x.name := fun e => hndI.1 (e ▸ List.mem_map_of_mem hx)
        unfold idxSpecOf
        by_cases hip : (i.name != pkName) = true
        · simp [hip, Index.toSpec, hne]
        · simp [hip])
      (by
        by_cases hip : i.name = pkName
        · right
          intro x hx hxp
          exact hndI.1 (by rw [hip, ← hxp]; exact List.mem_map_of_mem hx)
        · rcases hpk with h | h
          · left
            rw [hp1]
            have : (i.name == pkName) = false := by simpa using hip
            rw [if_neg (by simp [this])]; exact h
          · right; exact fun x hx => h x (List.mem_cons_of_mem _ hx))
      (fun x hx c hc => by rw [hcn1]; exact hcols x (List.mem_cons_of_mem _ hx) c hc)
      (fun x hx => hcnd x (List.mem_cons_of_mem _ hx))
    refine ⟨db', tb', ?_, hf', hn'.trans hn1, hc'.trans hc1, hfk'.trans hfk1, ?_, ?_, ?_, hnames'.trans hnames1⟩
    · rw [List.flatMap_cons, execAll_append, he1]; exact he'
    · rw [hi', hi1, List.append_assoc, ← idxSpecOf_cons]
    · rw [hp', hp1]
      by_cases hip : (i.name == pkName) = true
      · -- the key record comes first: no other record has that name
        have hrest : rest.any (·.name == pkName) = false := by
          rw [List.any_eq_false]
          intro x hx hxp
          have hxp : x.name = pkName := by simpa using hxp
          have hip' : i.name = pkName := by simpa using hip
          exact hndI.1 (by rw [hip', ← hxp]; exact List.mem_map_of_mem hx)
        simp [hrest, hip, pkOf, List.find?_cons]
      · have hip' : (i.name == pkName) = false := by simpa using hip
        simp only [List.any_cons, hip', Bool.false_or, Bool.false_eq_true, if_false]
        by_cases hr : rest.any (·.name == pkName) = true
        · simp [hr, pkOf, List.find?_cons, hip']
        · simp [hr]
    · intro u hu
      rw [hother u hu]
      exact find_replace_other db tb1 u (by rw [hn1, hname]; exact hu)

/-- the ADD CONSTRAINT statements of a created table, executed on the reference engine: the keys are appended in order -/
theorem exec_added_fks : ∀ (fs : List ForeignKey) (db : DB) (t : String) (tb : TableSpec),
    (db.map (·.name)).Nodup → db.find t = some tb →
    (∀ f ∈ fs, f.action = .add) → (fs.map (·.name)).Nodup →
    (∀ f ∈ fs, tb.fks.any (·.name == f.name) = false) → (∀ f ∈ fs, f.column ∈ tb.colNames) →
    ∃ db' tb', execAll false db (fs.flatMap (fun f => f.migrationUp t)) = some db' ∧ db'.find t = some tb' ∧
      tb'.name = tb.name ∧ tb'.cols = tb.cols ∧ tb'.idxs = tb.idxs ∧ tb'.pk = tb.pk ∧ tb'.fks = tb.fks ++ fkSpecOf fs ∧
      (∀ u, u ≠ t → db'.find u = db.find u) ∧ db'.map (·.name) = db.map (·.name) := by
  intro fs
  induction fs with
  | nil =>
    intro db t tb _ hf _ _ _ _
    exact ⟨db, tb, rfl, hf, rfl, rfl, rfl, rfl, by simp [fkSpecOf], fun _ _ => rfl, rfl⟩
  | cons f rest ih =>
    intro db t tb hnd hf hadd hndF hfresh hcols
    rw [List.map_cons, List.nodup_cons] at hndF
    have ha := hadd f (by simp)
    have hfr := hfresh f (by simp)
    have hcol : tb.hasCol f.column = true := (ReaderMysql.hasCol_iff tb f.column).mpr (hcols f (by simp))
    let tb1 : TableSpec := { tb with fks := tb.fks ++ [f.toSpec] }
    have he1 : exec false db (.addFk t f.name f.column f.refTable f.refColumn) = some (db.replace tb1) := by
      simp only [exec, hf, hfr, hcol, Bool.not_true, Bool.or_self, Bool.false_eq_true, if_false, Bool.false_and]
      rfl
    obtain ⟨k, hk, hname⟩ := find_getElem db t tb hf
    obtain ⟨hf1, _, hnames1⟩ := ReaderMysql.find_replace db hnd k tb tb1 hk rfl
    have hf1 : (db.replace tb1).find t = some tb1 := by rw [← hname]; exact hf1
    have hnd1 : ((db.replace tb1).map (·.name)).Nodup := by rw [hnames1]; exact hnd
    obtain ⟨db', tb', he', hf', hn', hc', hi', hp', hk', hother, hnames'⟩ := ih (db.replace tb1) t tb1 hnd1 hf1
      (fun x hx => hadd x (List.mem_cons_of_mem _ hx)) hndF.2
      (by
        intro x hx
        show (tb.fks ++ [f.toSpec]).any (·.name == x.name) = false
        rw [List.any_append, hfresh x (List.mem_cons_of_mem _ hx), Bool.false_or]
        have hne : f.name ≠ x.name := fun e => hndF.1 (e ▸ List.mem_map_of_mem hx)
        simp [ForeignKey.toSpec, hne])
      (fun x hx => hcols x (List.mem_cons_of_mem _ hx))
    refine ⟨db', tb', ?_, hf', hn', hc', hi', hp', ?_, ?_, hnames'.trans hnames1⟩
    · rw [List.flatMap_cons]
      have : f.migrationUp t = [.addFk t f.name f.column f.refTable f.refColumn] := by
        unfold ForeignKey.migrationUp; rw [ha]
      rw [this]
      simp only [List.singleton_append, execAll, he1, Option.bind_some]
      exact he'
    · rw [hk']
      show tb.fks ++ [f.toSpec] ++ fkSpecOf rest = tb.fks ++ fkSpecOf (f :: rest)
      unfold fkSpecOf
      simp
    · intro u hu
      rw [hother u hu]
      exact find_replace_other db tb1 u (by show u ≠ tb.name; rw [hname]; exact hu)

namespace Table

/-- the index statements of a created table: every live record prints its own statement(s) -/
theorem addedIdx_pure (g : Globals) (tb : String) : ∀ idxs : List Index, (∀ i ∈ idxs, i.Live) →
    addedIdx g tb idxs = .ok (idxs.flatMap (fun i => i.upStmts tb)) := by
  intro idxs
  induction idxs with
  | nil => intro _; rfl
  | cons i r ih =>
    intro h
    have hl := h i (by simp)
    have hr := ih (fun x hx => h x (by simp [hx]))
    unfold addedIdx
    have ha : (i.action == .add) = true := by rw [hl.add]; rfl
    rw [hr, if_pos ha, Index.migrationUp_pure g i tb hl.typ (Or.inr (Or.inl hl.add))]
    simp [bind, Except.bind, pure, Except.pure]

end Table

/-- **a table as the reader loaded it, printed as a new table, on the reference engine.**  For a table a script declares
    (MySQL reader model, no inline PRIMARY KEY, no foreign key on it), the record `td` the reader holds for it is
    marked `add`, and the CREATE TABLE statement followed by the index statements printed for it, executed on any
    schema that does not have the table, are well-formed at every step and add a table equal to the script's (columns,
    primary key, indexes), leaving every other table alone; against any schema without the table, each of these
    statements is justified by a difference. -/
theorem loaded_table_spec (g : Globals) (hg : g.dialect = .mysql) (rc : Bool)
    (new : List Stmt) (dbN : DB) (hn : new.all Stmt.elemSafe = true) (hpn : new.all Stmt.plainOpts = true)
    (hen : execAll rc [] new = some dbN) (mn : Migration) (hmn' : ReaderMysql.run {} new = .ok mn)
    (t : String) (tbN : TableSpec) (hfn : dbN.find t = some tbN) :
    ∃ (i : Nat) (td : Table), mn.tables[i]? = some td ∧ td.name = t ∧ td.action = .add ∧
      ∃ cs is fs, td.migrationColumnUp g = .ok (cs, []) ∧ (∀ dc, td.migrationIndexUp g dc = .ok is) ∧
        (∀ dc, td.migrationForeignKeyUp dc = fs) ∧
        (∀ dbO : DB, dbO.has t = false → ∀ s ∈ cs ++ is ++ fs, justified dbO dbN s = true) ∧
        (t ≠ "" → ∀ s ∈ cs ++ is ++ fs, s.vocab = true) ∧
        ∀ db : DB, (db.map (·.name)).Nodup → db.has t = false →
          ∃ db' tb', execAll false db (cs ++ is ++ fs) = some db' ∧ db'.find t = some tb' ∧ tb'.equiv tbN = true ∧
            (∀ u, u ≠ t → db'.find u = db.find u) ∧ db'.map (·.name) = db.map (·.name) ++ [t] := by
  have hnc : new.all Stmt.colSafe = true :=
    List.all_eq_true.mpr (fun s hs => Stmt.colSafe_of_elemSafe s (List.all_eq_true.mp hn s hs))
  have htn : new.all Stmt.tablePk = true :=
    List.all_eq_true.mpr (fun s hs => ReaderMysql.tablePk_of_plainOpts s (List.all_eq_true.mp hpn s hs))
  obtain ⟨mn2, hmn2, hrn, hxn, hkn⟩ := ReaderMysql.run_pk rc new {} [] dbN Rel.empty ElemsOK.empty PkOK.empty hn htn hen
  have : mn = mn2 := by rw [hmn2] at hmn'; exact (Except.ok.inj hmn').symm
  subst this
  have hpln : mn.Plain False := ReaderMysql.run_plain new {} mn Migration.plain_empty hpn (fun k => k.elim) hmn2
  obtain ⟨i, td, hgi, hmn, hdn, hnmn, hcoln, _, htyN⟩ := hrn.lookup hfn
  have hmemn := List.mem_of_getElem? hmn
  have hi_n := hrn.inv.each td hmemn
  have hact : td.action = .add := (hrn.fresh td hmemn).2
  have hall : td.AllAdd := (hrn.fresh td hmemn).1
  -- the slices
  have hrawn := Migration.raws_getElem mn hmn
  obtain ⟨hvi, hvf⟩ := hxn.at_ hrawn hdn
  have hvi : idxSpecOf td.idxs = tbN.idxs := hvi
  have hvf : fkSpecOf td.fks = tbN.fks := hvf
  obtain ⟨hlive, _⟩ := hxn.fresh _ (List.mem_of_getElem? hrawn)
  have hlive : ∀ i ∈ td.idxs, i.Live := hlive
  have hpkv : pkOf td.idxs = tbN.pk := hkn.at_ hrawn hdn
  obtain ⟨_, hfkadd⟩ := hxn.fresh _ (List.mem_of_getElem? hrawn)
  have hfkadd : ∀ f ∈ td.fks, f.action = .add := hfkadd
  -- what is printed
  have hprinted : td.cols.filter (fun c => c.action == .add || c.action == .modify || c.action == .rename) = td.cols := by
    apply List.filter_eq_self.mpr
    intro c hc
    rw [hall c hc]; rfl
  have hcomments : td.cols.flatMap (fun c => c.commentUp g td.name) = [] := by
    apply List.flatMap_eq_nil_iff.mpr
    intro c _
    unfold Column.commentUp
    simp [hg]
  have hcs : td.migrationColumnUp g = .ok ([.createTable td.name
      ((td.cols.foldl (fun m c => max m c.name.utf8ByteSize) (((td.cols[0]?).map (·.name.utf8ByteSize)).getD 0)))
      (td.cols.map (fun c => c.colDef false)) []], []) := by
    unfold Table.migrationColumnUp Table.createTableStmts
    rw [hact]
    simp only [hprinted, hcomments, bind, Except.bind, pure, Except.pure]
  have his : ∀ dc, td.migrationIndexUp g dc = .ok (td.idxs.flatMap (fun i => i.upStmts t)) := by
    intro dc
    unfold Table.migrationIndexUp
    rw [hact, hnmn]
    exact Table.addedIdx_pure g t td.idxs hlive
  have hfs : ∀ dc, td.migrationForeignKeyUp dc = td.fks.flatMap (fun f => f.migrationUp t) := by
    intro dc
    unfold Table.migrationForeignKeyUp
    rw [hact, hnmn]
    simp only
    apply Table.flatMap_congr'
    intro f hf
    have : (f.action == .add) = true := by rw [hfkadd f hf]; rfl
    rw [if_pos this]
  rw [hnmn] at hcs
  have hwfN : tbN.WF := execAll_wf rc new [] dbN hnc wf_empty hen tbN (mem_of_find hfn)
  have hndI : (td.idxs.map (·.name)).Nodup := hi_n.idxs.nodup
  have hjust : ∀ dbO : DB, dbO.has t = false → ∀ s ∈ [Stmt.createTable t
      ((td.cols.foldl (fun m c => max m c.name.utf8ByteSize) (((td.cols[0]?).map (·.name.utf8ByteSize)).getD 0)))
      (td.cols.map (fun c => c.colDef false)) []] ++ td.idxs.flatMap (fun i => i.upStmts t), justified dbO dbN s = true := by
    intro dbO hnew
    have hfoNone : dbO.find t = none := by
      cases hfo : dbO.find t with
      | none => rfl
      | some x =>
        have := (has_iff dbO t).mpr (by rw [← find_name' dbO t x hfo]; exact List.mem_map_of_mem (mem_of_find hfo))
        rw [hnew] at this; cases this
    intro s hs
    rcases List.mem_append.mp hs with h | h
    · rw [List.mem_singleton.mp h]
      show (!dbO.has t && dbN.has t) = true
      have : dbN.has t = true := (has_iff dbN t).mpr (by rw [← find_name' dbN t tbN hfn]; exact List.mem_map_of_mem (mem_of_find hfn))
      rw [hnew, this]; rfl
    · obtain ⟨i, hi, hsi⟩ := List.mem_flatMap.mp h
      have hl := hlive i hi
      unfold Index.upStmts at hsi
      rw [hl.add] at hsi
      simp only at hsi
      by_cases hp : i.name = pkName
      · have hisPk : i.isPk = true := by rw [hl.pk, hp]; simp
        rw [if_pos hisPk] at hsi
        rw [List.mem_singleton.mp hsi]
        show (dbO.pk t != dbN.pk t) = true
        have h1 : dbO.pk t = [] := by unfold DB.pk; rw [hfoNone]; rfl
        have h2 : dbN.pk t = i.cols := by
          unfold DB.pk; rw [hfn]
          show tbN.pk = i.cols
          rw [← hpkv]
          unfold pkOf
          have hfind : td.idxs.find? (fun i => i.name == pkName) = some i := by
            have := find?_of_mem_nodup (fun i : Index => i.name) td.idxs i hndI hi
            rw [hp] at this; exact this
          rw [hfind]; rfl
        rw [h1, h2]
        cases hc : i.cols with
        | nil => exact absurd hc hl.ne
        | cons _ _ => rfl
      · have hisPk : i.isPk = false := by rw [hl.pk]; simpa using hp
        rw [if_neg (by simp [hisPk])] at hsi
        rw [List.mem_singleton.mp hsi]
        show (dbO.idx t i.name != dbN.idx t i.name) = true
        have h1 : dbO.idx t i.name = none := by unfold DB.idx; rw [hfoNone]; rfl
        have hm : i.toSpec ∈ tbN.idxs := by
          rw [← hvi]
          unfold idxSpecOf
          exact List.mem_map_of_mem (List.mem_filter.mpr ⟨hi, by simpa using hp⟩)
        have hndS : (tbN.idxs.map (·.name)).Nodup := by
          rw [← hvi, idxSpecOf_names]
          exact hndI.sublist List.filter_sublist
        have h2 := idx_some_of_mem dbN t tbN hfn hndS _ hm
        have h2 : dbN.idx t i.name = some i.toSpec := h2
        rw [h1, h2]; rfl
  have hvocab : t ≠ "" → ∀ s ∈ [Stmt.createTable t
      ((td.cols.foldl (fun m c => max m c.name.utf8ByteSize) (((td.cols[0]?).map (·.name.utf8ByteSize)).getD 0)))
      (td.cols.map (fun c => c.colDef false)) []] ++ td.idxs.flatMap (fun i => i.upStmts t), s.vocab = true := by
    intro ht s hs
    have ht' : (t != "") = true := by simpa using ht
    rcases List.mem_append.mp hs with h | h
    · rw [List.mem_singleton.mp h]
      unfold Stmt.vocab
      simp only [Stmt.elemSafe, Stmt.colSafe, Stmt.table, ht', Stmt.textual, Stmt.plainOpts, Bool.true_and]
      rw [List.all_eq_true]
      intro cd hcd
      obtain ⟨cd0, hcd0, rfl⟩ := List.mem_map.mp hcd
      obtain ⟨c, hc, rfl⟩ := List.mem_map.mp hcd0
      exact plain_textual _ ((hpln td hmemn).opts c hc)
    · obtain ⟨i, hi, hsi⟩ := List.mem_flatMap.mp h
      have hl := hlive i hi
      unfold Index.upStmts at hsi
      rw [hl.add] at hsi
      simp only at hsi
      by_cases hp : i.name = pkName
      · have hisPk : i.isPk = true := by rw [hl.pk, hp]; simp
        rw [if_pos hisPk] at hsi
        rw [List.mem_singleton.mp hsi]
        simp [Stmt.vocab, Stmt.elemSafe, Stmt.colSafe, Stmt.table, ht', Stmt.textual, Stmt.plainOpts]
      · have hisPk : i.isPk = false := by rw [hl.pk]; simpa using hp
        rw [if_neg (by simp [hisPk])] at hsi
        have hp' : (i.name != pkName) = true := by simpa using hp
        rw [List.mem_singleton.mp hsi]
        simp [Stmt.vocab, Stmt.elemSafe, ht', hp', Stmt.textual, Stmt.plainOpts]
  -- the key statements: one ADD CONSTRAINT per key record
  have hfkshape : ∀ s ∈ td.fks.flatMap (fun f => f.migrationUp t), ∃ f ∈ td.fks,
      s = .addFk t f.name f.column f.refTable f.refColumn := by
    intro s hs
    obtain ⟨f, hf, hsf⟩ := List.mem_flatMap.mp hs
    unfold ForeignKey.migrationUp at hsf
    rw [hfkadd f hf] at hsf
    exact ⟨f, hf, List.mem_singleton.mp hsf⟩
  have hndF : (td.fks.map (·.name)).Nodup := hi_n.fks.nodup
  have hndFS : (tbN.fks.map (·.name)).Nodup := by
    rw [← hvf, fkSpecOf_names]; exact hndF
  have hjustFk : ∀ dbO : DB, dbO.has t = false → ∀ s ∈ td.fks.flatMap (fun f => f.migrationUp t), justified dbO dbN s = true := by
    intro dbO hnew s hs
    obtain ⟨f, hf, rfl⟩ := hfkshape s hs
    have hfoNone : dbO.find t = none := by
      cases hfo : dbO.find t with
      | none => rfl
      | some x =>
        have := (has_iff dbO t).mpr (by rw [← find_name' dbO t x hfo]; exact List.mem_map_of_mem (mem_of_find hfo))
        rw [hnew] at this; cases this
    show (dbO.fk t f.name != dbN.fk t f.name) = true
    have h1 : dbO.fk t f.name = none := by unfold DB.fk; rw [hfoNone]; rfl
    have hm : f.toSpec ∈ tbN.fks := by rw [← hvf]; exact List.mem_map_of_mem hf
    have h2 : dbN.fk t f.name = some f.toSpec := by
      unfold DB.fk; rw [hfn]
      exact find?_of_mem_nodup (fun x : FkSpec => x.name) tbN.fks f.toSpec hndFS hm
    rw [h1, h2]; rfl
  have hvocabFk : t ≠ "" → ∀ s ∈ td.fks.flatMap (fun f => f.migrationUp t), s.vocab = true := by
    intro ht s hs
    obtain ⟨f, _, rfl⟩ := hfkshape s hs
    have ht' : (t != "") = true := by simpa using ht
    simp [Stmt.vocab, Stmt.elemSafe, Stmt.colSafe, Stmt.table, ht', Stmt.textual, Stmt.plainOpts]
  refine ⟨i, td, hmn, hnmn, hact, _, _, _, hcs, his, hfs,
    (fun dbO hnew s hs => (List.mem_append.mp hs).elim (hjust dbO hnew s) (hjustFk dbO hnew s)),
    (fun ht s hs => (List.mem_append.mp hs).elim (hvocab ht s) (hvocabFk ht s)), ?_⟩
  intro db hnd hnot
  -- CREATE TABLE
  have hplain := (hpln td hmemn).opts
  have hnopk : ∀ c ∈ td.cols, (colOf (c.colDef false)).2 = false := by
    intro c hc
    show ((optsOf c.cur.opts).2 && !false) = false
    rw [optsOf_snd, no_pk_of_like _ _ (hplain c hc) rfl]; rfl
  let C : List ColSpec := (td.cols.map (fun c => c.colDef false)).map (fun c => (colOf c).1)
  have hCnames : C.map (·.name) = tbN.colNames := by
    show ((td.cols.map (fun c => c.colDef false)).map (fun c => (colOf c).1)).map (·.name) = _
    rw [List.map_map, List.map_map, ← hcoln]
    apply List.map_congr_left
    intro c _
    rfl
  have hndN : tbN.colNames.Nodup := by rw [← hcoln]; exact hi_n.cols.nodup
  let tb0 : TableSpec := { name := t, cols := C, pk := [] }
  have hcreate : exec false db (.createTable t
      ((td.cols.foldl (fun m c => max m c.name.utf8ByteSize) (((td.cols[0]?).map (·.name.utf8ByteSize)).getD 0)))
      (td.cols.map (fun c => c.colDef false)) []) = some (db ++ [tb0]) := by
    have hspecs : ((td.cols.map (fun c => c.colDef false)).map colOf).filter (·.2) = [] := by
      apply List.filter_eq_nil_iff.mpr
      intro x hx
      obtain ⟨cd, hcd, rfl⟩ := List.mem_map.mp hx
      obtain ⟨c, hc, rfl⟩ := List.mem_map.mp hcd
      rw [hnopk c hc]; simp
    have hnames : allNodup (((td.cols.map (fun c => c.colDef false)).map colOf).map (·.1.name)) = true := by
      apply nodup_allNodup
      have : ((td.cols.map (fun c => c.colDef false)).map colOf).map (·.1.name) = tbN.colNames := by
        rw [← hCnames]; simp [C, List.map_map, Function.comp_def]
      rw [this]; exact hndN
    simp only [exec, hnot, Bool.false_eq_true, if_false, hnames, Bool.not_true, hspecs, List.map_nil, List.isEmpty_nil,
      Bool.not_true, Bool.and_false, List.length_nil, List.all_nil, allNodup, Bool.or_self, if_true]
    simp [tb0, C, List.map_map, Function.comp_def]
  have hnd0 : ((db ++ [tb0]).map (·.name)).Nodup := by
    rw [List.map_append, List.map_singleton]
    apply List.nodup_append.mpr
    refine ⟨hnd, List.nodup_cons.mpr ⟨by simp, List.nodup_nil⟩, ?_⟩
    intro a ha b hb hab
    have hb : b = t := by simpa using hb
    have : db.has t = true := (has_iff db t).mpr (by rw [← hb, ← hab]; exact ha)
    rw [hnot] at this; cases this
  have hf0 : (db ++ [tb0]).find t = some tb0 :=
    find_of_getElem (db ++ [tb0]) hnd0 db.length tb0 (by simp)
  -- the indexes and the key
  have hpkN : tbN.PkIn := execAll_pkin rc new [] dbN hnc pkin_empty hen tbN (mem_of_find hfn)
  obtain ⟨db', tb', he', hf', hn', hc', hfk', hi', hp', hother, hnames'⟩ :=
    exec_added_idxs td.idxs (db ++ [tb0]) t tb0 hnd0 hf0 hlive hndI (fun _ _ _ => rfl) (Or.inl rfl)
      (by
        intro x hx c hc
        show c ∈ C.map (·.name)
        rw [hCnames]
        by_cases hp : x.name = pkName
        · -- the key record
          have : pkOf td.idxs = x.cols := by
            unfold pkOf
            have hfind : td.idxs.find? (fun i => i.name == pkName) = some x := by
              have := find?_of_mem_nodup (fun i : Index => i.name) td.idxs x hndI hx
              rw [hp] at this; exact this
            rw [hfind]; rfl
          rw [← this, hpkv] at hc
          exact hpkN.1 c hc
        · have hm : x.toSpec ∈ idxSpecOf td.idxs := by
            unfold idxSpecOf
            exact List.mem_map_of_mem (List.mem_filter.mpr ⟨hx, by simpa using hp⟩)
          rw [hvi] at hm
          exact (hwfN _ hm).2 c hc)
      (by
        intro x hx hp
        have : pkOf td.idxs = x.cols := by
          unfold pkOf
          have hfind : td.idxs.find? (fun i => i.name == pkName) = some x := by
            have := find?_of_mem_nodup (fun i : Index => i.name) td.idxs x hndI hx
            rw [hp] at this; exact this
          rw [hfind]; rfl
        rw [← this, hpkv]; exact hpkN.2)
  -- the foreign keys
  have hfkwf : tbN.FkWF := execAll_fkwf rc new [] dbN hnc fkwf_empty hen tbN (mem_of_find hfn)
  have hndD' : (db'.map (·.name)).Nodup := by
    rw [hnames']; exact hnd0
  obtain ⟨db2, tb2, he2, hf2, hn2, hc2, hi2, hp2, hk2, hother2, hnames2⟩ :=
    exec_added_fks td.fks db' t tb' hndD' hf' hfkadd hndF
      (by intro f _; rw [hfk']; rfl)
      (by
        intro f hf
        show f.column ∈ tb'.cols.map (·.name)
        rw [hc']
        show f.column ∈ C.map (·.name)
        rw [hCnames]
        have hm : f.toSpec ∈ tbN.fks := by rw [← hvf]; exact List.mem_map_of_mem hf
        exact hfkwf _ hm)
  refine ⟨db2, tb2, ?_, hf2, ?_, ?_, ?_⟩
  · rw [execAll_append, List.singleton_append]
    have : execAll false db (Stmt.createTable t
        ((td.cols.foldl (fun m c => max m c.name.utf8ByteSize) (((td.cols[0]?).map (·.name.utf8ByteSize)).getD 0)))
        (td.cols.map (fun c => c.colDef false)) [] :: td.idxs.flatMap (fun i => i.upStmts t)) = some db' := by
      rw [execAll, hcreate]; exact he'
    rw [this]; exact he2
  · -- the table equals the new side's
    have hcols : colsEquiv tb2.cols tbN.cols = true := by
      rw [hc2, hc']
      refine colsEquiv_of C tbN.cols hCnames hndN ?_
      intro x hx y hy hxy
      obtain ⟨cd, hcd, rfl⟩ := List.mem_map.mp hx
      obtain ⟨c, hc, rfl⟩ := List.mem_map.mp hcd
      obtain ⟨cs, hcs, hcsn, hcst, hcso⟩ := htyN c hc
      have : cs = y := eq_of_name_nodup (fun z : ColSpec => z.name) hndN hcs hy (hcsn.trans hxy)
      subst this
      refine equiv_of _ cs hxy ?_ ?_
      · show c.cur.typeText = cs.typ
        unfold Attr.typeText; rw [hcst]; rfl
      · show (optsOf c.cur.opts).1.Perm cs.opts
        rw [Table.optsOf_fst]; exact hcso
    have hidx : tb2.idxs = tbN.idxs := by rw [hi2, hi', hvi]; rfl
    have hpk : tb2.pk = tbN.pk := by
      rw [hp2, hp', ← hpkv]
      by_cases ha : td.idxs.any (·.name == pkName) = true
      · rw [if_pos ha]
      · rw [if_neg ha]
        unfold pkOf
        have : td.idxs.find? (fun i => i.name == pkName) = none := by
          apply List.find?_eq_none.mpr
          intro x hx hxp
          exact ha (List.any_eq_true.mpr ⟨x, hx, hxp⟩)
        rw [this]; rfl
    have hnameN : tbN.name = t := by
      obtain ⟨_, _, hn0⟩ := find_getElem dbN t tbN hfn
      exact hn0
    have hfkeq : tb2.fks = tbN.fks := by rw [hk2, hfk', hvf]; rfl
    unfold TableSpec.equiv
    rw [hn2, hn', hcols, hpk, hidx, hfkeq]
    simp [tb0, hnameN, perm_permEq tbN.idxs tbN.idxs (List.Perm.refl _), perm_permEq tbN.fks tbN.fks (List.Perm.refl _)]
  · intro u hu
    rw [hother2 u hu, hother u hu]
    unfold DB.find
    rw [List.find?_append]
    cases hfu : List.find? (fun x => x.name == u) db with
    | some x => rfl
    | none =>
      simp only [Option.none_or]
      have : (tb0.name == u) = false := by
        show (t == u) = false
        simpa using (Ne.symm hu)
      simp [List.find?_cons, this]
  · rw [hnames2, hnames', List.map_append, List.map_singleton]


/-- **C01, a table only the new side has, on the reference engine.**  For a table the new script declares and the old one
    does not (MySQL reader model, no inline PRIMARY KEY, no foreign key on it): the CREATE TABLE statement followed by
    the index statements `MigrationIndexUp` prints for it, executed on any schema that does not have the table, are
    well-formed at every step and add a table equal to the new side's (columns, primary key, indexes), leaving every
    other table alone. -/
theorem created_table_spec (g : Globals) (hg : g.dialect = .mysql) (rc : Bool)
    (old new : List Stmt) (dbO dbN : DB) (ho : old.all Stmt.elemSafe = true) (hn : new.all Stmt.elemSafe = true)
    (hpo : old.all Stmt.plainOpts = true) (hpn : new.all Stmt.plainOpts = true)
    (heo : execAll rc [] old = some dbO) (hen : execAll rc [] new = some dbN)
    (d : Migration) (hd : loadAndDiff g old new = .ok d)
    (t : String) (tbN : TableSpec) (hfn : dbN.find t = some tbN) (hnew : dbO.has t = false) :
    ∃ td ∈ d.tables, td.name = t ∧ td.action = .add ∧
      ∃ cs is fs, td.migrationColumnUp g = .ok (cs, []) ∧ td.migrationIndexUp g [] = .ok is ∧
        td.migrationForeignKeyUp [] = fs ∧ (∀ s ∈ cs ++ is ++ fs, justified dbO dbN s = true) ∧
        (t ≠ "" → ∀ s ∈ cs ++ is ++ fs, s.vocab = true) ∧
        ∀ db : DB, (db.map (·.name)).Nodup → db.has t = false →
          ∃ db' tb', execAll false db (cs ++ is ++ fs) = some db' ∧ db'.find t = some tb' ∧ tb'.equiv tbN = true ∧
            (∀ u, u ≠ t → db'.find u = db.find u) ∧ db'.map (·.name) = db.map (·.name) ++ [t] := by
  have hoc : old.all Stmt.colSafe = true :=
    List.all_eq_true.mpr (fun s hs => Stmt.colSafe_of_elemSafe s (List.all_eq_true.mp ho s hs))
  have hnc : new.all Stmt.colSafe = true :=
    List.all_eq_true.mpr (fun s hs => Stmt.colSafe_of_elemSafe s (List.all_eq_true.mp hn s hs))
  unfold loadAndDiff at hd
  obtain ⟨o, hlo, hd⟩ := bind_ok hd
  obtain ⟨n, hln, hd⟩ := bind_ok hd
  obtain ⟨mo, hmo', hro⟩ := ReaderMysql.run_rel rc old {} [] dbO Rel.empty hoc heo
  obtain ⟨mn, hmn', hrn⟩ := ReaderMysql.run_rel rc new {} [] dbN Rel.empty hnc hen
  have : mo = o := by
    have : readScript g {} old = .ok mo := by unfold readScript; rw [hg]; exact hmo'
    rw [this] at hlo; exact Except.ok.inj hlo
  subst this
  have : mn = n := by
    have : readScript g {} new = .ok mn := by unfold readScript; rw [hg]; exact hmn'
    rw [this] at hln; exact Except.ok.inj hln
  subst this
  obtain ⟨i, td, hmn, hnmn, hact, cs, is, fs, hcs, his, hfs, hjust, hvoc, hrun⟩ :=
    loaded_table_spec g hg rc new dbN hn hpn hen mn hmn' t tbN hfn
  have hgo : mo.tblIdx.get? t = none := hro.unknown hnew
  unfold Migration.diff at hd
  obtain ⟨ts, h1, hd⟩ := bind_ok hd
  obtain ⟨td', htd, hspec⟩ := Migration.diffTables1_getElem g.dialect mo mn.tables ts i td h1 hmn
  rw [hnmn, hgo] at hspec
  have htdeq : td' = td := hspec
  subst htdeq
  obtain ⟨extra, hext⟩ := Migration.diffTables2_prefix mo.tables _ d hd
  have htd_mem : td' ∈ d.tables := by
    rw [hext]; exact List.mem_append_left _ (List.mem_of_getElem? htd)
  exact ⟨td', htd_mem, hnmn, hact, cs, is, fs, hcs, his [], hfs [], hjust dbO hnew, hvoc, hrun⟩

end Sqlize
