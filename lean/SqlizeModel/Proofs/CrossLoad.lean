/-
  Proofs/CrossLoad.lean — C03 "however each side was loaded", for schemas without PRIMARY KEY declarations: two scripts
  the reference engine accepts whose reference schemas are equivalent (same tables; per table the same columns by name
  with the same type and the same options up to order, the same indexes up to order, the same foreign-key names) load —
  whatever statements, statement order, option order, column order or index-type spelling each uses — into models that
  `Migration.Diff` finds equal: it returns, and `MigrationUp` / `MigrationDown` print nothing.
-/
import SqlizeModel.Proofs.OptsGood
import SqlizeModel.Proofs.FidelityElems
import SqlizeModel.Proofs.IdxRefine
import SqlizeModel.Proofs.FidelityPk

namespace Sqlize
open Spec

/-- `optionKey` of an option built with its expression node, as a function of its reference image -/
def ckey : COpt → String
  | .notNull => "NOT NULL"
  | .null => "NULL"
  | .autoInc => "AUTO_INCREMENT"
  | .uniq => "UNIQUE KEY"
  | .default r => "DEFAULT " ++ r
  | .comment t => "COMMENT '" ++ doubleQuotes t ++ "'"

theorem plain_key (o : Opt) (h1 : o.kind ≠ .reference) (h2 : o.kind ≠ .primaryKey) (h3 : o.hasExpr = true) :
    ∃ k, Table.optKind o = some k ∧ Opt.key o = ckey k := by
  unfold Table.optKind Opt.key
  cases hk : o.kind with
  | primaryKey => exact absurd hk h2
  | reference => exact absurd hk h1
  | notNull => exact ⟨_, rfl, rfl⟩
  | null => exact ⟨_, rfl, rfl⟩
  | autoIncrement => exact ⟨_, rfl, rfl⟩
  | uniqKey => exact ⟨_, rfl, rfl⟩
  | default => exact ⟨_, rfl, by simp [h3, ckey]⟩
  | comment => exact ⟨_, rfl, by simp [h3, ckey]⟩

theorem eq_of_name_nodup {α : Type} (f : α → String) : ∀ {l : List α}, (l.map f).Nodup → ∀ {a b : α}, a ∈ l → b ∈ l →
    f a = f b → a = b := by
  intro l
  induction l with
  | nil => intro _ a b ha; cases ha
  | cons x r ih =>
    intro h a b ha hb hn
    rw [List.map_cons, List.nodup_cons] at h
    rcases List.mem_cons.mp ha with rfl | ha'
    · rcases List.mem_cons.mp hb with rfl | hb'
      · rfl
      · exact absurd (hn ▸ List.mem_map_of_mem hb') h.1
    · rcases List.mem_cons.mp hb with rfl | hb'
      · exact absurd (hn ▸ List.mem_map_of_mem ha') h.1
      · exact ih h.2 ha' hb' hn

theorem keys_of_plain : ∀ (a : List Opt), (∀ o ∈ a, o.Plain) →
    (withoutFkMarks a).map Opt.key = (Table.optKinds a).map ckey := by
  intro a
  induction a with
  | nil => intro _; rfl
  | cons o r ih =>
    intro h
    have hr := ih (fun x hx => h x (by simp [hx]))
    unfold withoutFkMarks Table.optKinds at hr ⊢
    rw [List.filter_cons, List.filterMap_cons]
    rcases h o (by simp) with hm | ⟨h1, h2, h3⟩
    · -- a bare foreign-key mark: dropped on both sides
      have hk : o.kind = .reference := by
        unfold Opt.isMark at hm
        simp only [Bool.and_eq_true, beq_iff_eq] at hm
        exact hm.1
      have hc : (!(o.kind == .reference && !o.hasExpr)) = false := by
        have : (o.kind == .reference && !o.hasExpr) = true := hm
        rw [this]; rfl
      rw [hc]
      simp only [Bool.false_eq_true, if_false]
      have : Table.optKind o = none := by unfold Table.optKind; rw [hk]
      rw [this]
      exact hr
    · have hc : (!(o.kind == .reference && !o.hasExpr)) = true := by
        have : (o.kind == .reference) = false := by simpa using h1
        rw [this]; rfl
      obtain ⟨k, e1, e2⟩ := plain_key o h1 h2 h3
      rw [hc, e1]
      simp only [if_true, List.map_cons]
      rw [e2, hr]

/-- **`Table.Diff`'s option comparison on option lists whose reference images agree up to order** -/
theorem hasChangedOptions_of_perm (a b : List Opt) (ha : ∀ o ∈ a, o.Plain) (hb : ∀ o ∈ b, o.Plain)
    (hp : (Table.optKinds a).Perm (Table.optKinds b)) : hasChangedOptions a b = false := by
  unfold hasChangedOptions
  rw [keys_of_plain a ha, keys_of_plain b hb]
  have hperm : ((Table.optKinds a).map ckey).Perm ((Table.optKinds b).map ckey) := hp.map ckey
  simp only [Bool.or_eq_false_iff, bne_eq_false_iff_eq, beq_iff_eq]
  refine ⟨hperm.length_eq, ?_⟩
  rw [List.any_eq_false]
  intro k _
  simp [hperm.count_eq k]

/-- equivalence of two reference tables as C03 reads "equal schemas" (the primary key apart) -/
structure TblEquiv (A B : TableSpec) : Prop where
  cols : ∀ c ∈ B.cols, ∃ c' ∈ A.cols, c'.name = c.name ∧ c'.typ = c.typ ∧ c'.opts.Perm c.opts
  colsBack : ∀ c' ∈ A.cols, c'.name ∈ B.colNames
  idxs : A.idxs.Perm B.idxs
  pk : A.pk = B.pk
  fks : ∀ n, n ∈ A.fks.map (·.name) ↔ n ∈ B.fks.map (·.name)

structure DBEquiv (A B : DB) : Prop where
  tables : ∀ tb ∈ B, ∃ ta ∈ A, ta.name = tb.name ∧ TblEquiv ta tb
  back : ∀ ta ∈ A, ta.name ∈ B.map (·.name)

theorem pkOf_of_mem {is : List Index} (hnd : (is.map (·.name)).Nodup) {i : Index} (hi : i ∈ is) (hn : i.name = pkName) :
    pkOf is = i.cols := by
  unfold pkOf
  have := find?_of_mem_nodup (fun y : Index => y.name) is i hnd hi
  simp only [hn] at this
  rw [this]
  rfl

theorem pkOf_ne_nil {is : List Index} (h : pkOf is ≠ []) : ∃ oi ∈ is, oi.name = pkName ∧ oi.cols = pkOf is := by
  unfold pkOf at h ⊢
  cases hf : is.find? (fun i => i.name == pkName) with
  | none => rw [hf] at h; exact absurd rfl h
  | some oi =>
    refine ⟨oi, List.mem_of_find?_eq_some hf, by simpa using List.find?_some hf, ?_⟩
    rfl

/-- two model tables related to equivalent reference tables are `Table.Same` -/
theorem table_same (d : Dialect) (hd : d = .mysql) (tA tB : Table) (tbA tbB : TableSpec) (hiA : tA.Inv) (hiB : tB.Inv)
    (hpA : tA.Plain False) (hpB : tB.Plain False) (hkA : pkOf tA.idxs = tbA.pk) (hkB : pkOf tB.idxs = tbB.pk)
    (hsA : PkShape tA.idxs) (hsB : PkShape tB.idxs)
    (hcA : tA.colNames = tbA.colNames) (hcB : tB.colNames = tbB.colNames)
    (htA : TypesOK tA tbA) (htB : TypesOK tB tbB)
    (hxA : idxSpecOf tA.idxs = tbA.idxs) (hxB : idxSpecOf tB.idxs = tbB.idxs)
    (hfA : fkSpecOf tA.fks = tbA.fks) (hfB : fkSpecOf tB.fks = tbB.fks)
    (hlA : ∀ i ∈ tA.idxs, i.Live) (hlB : ∀ i ∈ tB.idxs, i.Live) (he : TblEquiv tbA tbB) :
    Table.Same d tB tA := by
  have hndA : tbA.colNames.Nodup := by rw [← hcA]; exact hiA.cols.nodup
  refine ⟨?_, ?_, ?_, ?_, ?_, ?_⟩
  · intro c hc
    obtain ⟨cs, hcs, hn, hty, hop⟩ := htB c hc
    obtain ⟨cs', hcs', hn', hty', hop'⟩ := he.cols cs hcs
    have hmem : cs'.name ∈ tA.colNames := by rw [hcA]; exact List.mem_map_of_mem hcs'
    obtain ⟨oc, hoc, hocn⟩ := List.mem_map.mp hmem
    obtain ⟨cs'', hcs'', hn'', hty'', hop''⟩ := htA oc hoc
    have hsame : cs'' = cs' := by
      -- unique names in the reference table
      have h1 : cs''.name = cs'.name := hn''.trans hocn
      exact eq_of_name_nodup (fun x : ColSpec => x.name) hndA hcs'' hcs' h1
    subst hsame
    refine ⟨oc, hoc, hocn.trans (hn'.trans hn), ?_, ?_⟩
    · apply hasChangedOptions_of_perm _ _ (hpB.opts c hc) (hpA.opts oc hoc)
      exact hop.trans (hop'.symm.trans hop''.symm)
    · rw [hty, hty'', hty', hd]
      simp [hasChangedType, pure, Except.pure]
  · intro oc hoc
    obtain ⟨cs, hcs, hn, _, _⟩ := htA oc hoc
    rw [hcB, ← hn]
    exact he.colsBack cs hcs
  · intro i hi
    by_cases hnpk : i.name = pkName
    · -- the `primary_key` record: the other side has the very same record
      have hic : pkOf tB.idxs = i.cols := pkOf_of_mem hiB.idxs.nodup hi hnpk
      have hne : pkOf tA.idxs ≠ [] := by
        rw [hkA, he.pk, ← hkB, hic]; exact (hlB i hi).ne
      obtain ⟨oi, hoi, hon, hoc⟩ := pkOf_ne_nil hne
      have heq : oi = i := by
        rw [hsA oi hoi hon, hsB i hi hnpk, hoc, hkA, he.pk, ← hkB, hic]
      exact ⟨oi, hoi, by rw [heq], by rw [heq]; exact ⟨rfl, rfl, rfl⟩⟩
    · have h1 : i.toSpec ∈ tbB.idxs := by
        rw [← hxB]; unfold idxSpecOf
        exact List.mem_map_of_mem (List.mem_filter.mpr ⟨hi, by simpa using hnpk⟩)
      have h2 : i.toSpec ∈ idxSpecOf tA.idxs := by rw [hxA]; exact he.idxs.mem_iff.mpr h1
      unfold idxSpecOf at h2
      obtain ⟨oi, hoi, hoe⟩ := List.mem_map.mp h2
      have hoi' := (List.mem_filter.mp hoi).1
      have hon : oi.name = i.name := congrArg IdxSpec.name hoe
      refine ⟨oi, hoi', hon, ?_⟩
      have := (Table.same_iff_toSpec i oi (hlB i hi) (hlA oi hoi') hon).mpr hoe
      simp only [Bool.and_eq_true, beq_iff_eq] at this
      exact ⟨this.1.1, this.1.2, this.2⟩
  · intro oi hoi
    by_cases hnpk : oi.name = pkName
    · have hoc : pkOf tA.idxs = oi.cols := pkOf_of_mem hiA.idxs.nodup hoi hnpk
      have hne : pkOf tB.idxs ≠ [] := by
        rw [hkB, ← he.pk, ← hkA, hoc]; exact (hlA oi hoi).ne
      obtain ⟨i, hi, hin, _⟩ := pkOf_ne_nil hne
      rw [hnpk, ← hin]
      exact List.mem_map_of_mem hi
    · have h1 : oi.toSpec ∈ tbA.idxs := by
        rw [← hxA]; unfold idxSpecOf
        exact List.mem_map_of_mem (List.mem_filter.mpr ⟨hoi, by simpa using hnpk⟩)
      have h2 : oi.toSpec ∈ idxSpecOf tB.idxs := by rw [hxB]; exact he.idxs.mem_iff.mp h1
      unfold idxSpecOf at h2
      obtain ⟨i, hi, hie⟩ := List.mem_map.mp h2
      have : i.name = oi.name := congrArg IdxSpec.name hie
      rw [← this]
      exact List.mem_map_of_mem (List.mem_filter.mp hi).1
  · intro f hf
    have h1 : f.name ∈ tbB.fks.map (·.name) := by
      rw [← hfB, fkSpecOf_names]; exact List.mem_map_of_mem hf
    have h2 := (he.fks f.name).mpr h1
    rw [← hfA, fkSpecOf_names] at h2
    exact h2
  · intro f hf
    have h1 : f.name ∈ tbA.fks.map (·.name) := by
      rw [← hfA, fkSpecOf_names]; exact List.mem_map_of_mem hf
    have h2 := (he.fks f.name).mp h1
    rw [← hfB, fkSpecOf_names] at h2
    exact h2

theorem permEq_perm {α : Type} [DecidableEq α] : ∀ (a b : List α), permEq a b = true → a.Perm b := by
  intro a
  induction a with
  | nil => intro b h; cases b with
    | nil => exact List.Perm.refl _
    | cons _ _ => simp [permEq] at h
  | cons x xs ih =>
    intro b h
    unfold permEq at h
    simp only [Bool.and_eq_true] at h
    have hx : x ∈ b := by simpa using h.1
    exact (List.Perm.cons x (ih _ h.2)).trans (List.perm_cons_erase hx).symm

/-- executable form of the equivalence (for the non-vacuity examples) -/
def tblEquivB (A B : TableSpec) : Bool :=
  B.cols.all (fun c => A.cols.any (fun c' => c'.name == c.name && c'.typ == c.typ && permEq c'.opts c.opts)) &&
  A.cols.all (fun c' => B.colNames.contains c'.name) && permEq A.idxs B.idxs && A.pk == B.pk &&
  (A.fks.map (·.name)).all (B.fks.map (·.name)).contains && (B.fks.map (·.name)).all (A.fks.map (·.name)).contains

def dbEquivB (A B : DB) : Bool :=
  B.all (fun tb => A.any (fun ta => ta.name == tb.name && tblEquivB ta tb)) && A.all (fun ta => (B.map (·.name)).contains ta.name)

theorem tblEquiv_of_B (A B : TableSpec) (h : tblEquivB A B = true) : TblEquiv A B := by
  unfold tblEquivB at h
  simp only [Bool.and_eq_true] at h
  obtain ⟨⟨⟨⟨⟨h1, h2⟩, h3⟩, hpk⟩, h4⟩, h5⟩ := h
  refine ⟨?_, ?_, permEq_perm _ _ h3, by simpa using hpk, ?_⟩
  · intro c hc
    obtain ⟨c', hc', hp⟩ := List.any_eq_true.mp (List.all_eq_true.mp h1 c hc)
    simp only [Bool.and_eq_true, beq_iff_eq] at hp
    exact ⟨c', hc', hp.1.1, hp.1.2, permEq_perm _ _ hp.2⟩
  · intro c' hc'
    simpa using List.all_eq_true.mp h2 c' hc'
  · intro n
    constructor
    · intro hn; simpa using List.all_eq_true.mp h4 n hn
    · intro hn; simpa using List.all_eq_true.mp h5 n hn

theorem dbEquiv_of_B (A B : DB) (h : dbEquivB A B = true) : DBEquiv A B := by
  unfold dbEquivB at h
  simp only [Bool.and_eq_true] at h
  refine ⟨?_, ?_⟩
  · intro tb htb
    obtain ⟨ta, hta, hp⟩ := List.any_eq_true.mp (List.all_eq_true.mp h.1 tb htb)
    simp only [Bool.and_eq_true, beq_iff_eq] at hp
    exact ⟨ta, hta, hp.1, tblEquiv_of_B ta tb hp.2⟩
  · intro ta hta
    simpa using List.all_eq_true.mp h.2 ta hta

namespace ReaderMysql

theorem run_plain {K : Prop} (ss : List Stmt) : ∀ (m m' : Migration), m.Plain K → ss.all Stmt.plainOpts = true →
    (K → ss.all Stmt.plain = true) → run m ss = .ok m' → m'.Plain K := by
  induction ss with
  | nil => intro m m' h _ _ hs; unfold run at hs; exact (pure_ok hs) ▸ h
  | cons s rest ih =>
    intro m m' h hp hk hs
    simp only [List.all_cons, Bool.and_eq_true] at hp
    unfold run at hs
    obtain ⟨m1, h1, hs⟩ := bind_ok hs
    have hk1 : K → s.plain = true := fun k => by
      have := hk k; simp only [List.all_cons, Bool.and_eq_true] at this; exact this.1
    have hk2 : K → rest.all Stmt.plain = true := fun k => by
      have := hk k; simp only [List.all_cons, Bool.and_eq_true] at this; exact this.2
    exact ih m1 m' (step_plain m m1 s h hp.1 hk1 h1) hp.2 hk2 hs

theorem tablePk_of_plainOpts (s : Stmt) (h : s.plainOpts = true) : s.tablePk = true := by
  have hc : ∀ c : ColDef, c.plain = true → c.noPk = true := by
    intro c hc
    unfold ColDef.plain at hc
    unfold ColDef.noPk
    rw [List.all_eq_true] at hc ⊢
    intro o ho
    have := hc o ho
    simp only [Bool.and_eq_true] at this
    exact this.1.2
  cases s <;> simp_all [Stmt.plainOpts, Stmt.tablePk]
  all_goals (first | (intro c hcm; exact hc c (h c hcm)) | exact hc _ h)

end ReaderMysql

/-- **C03 across two different scripts** (MySQL reader model, schemas without PRIMARY KEY declarations): equivalent
    reference schemas ⇒ `Diff` returns and both migrations are empty -/
theorem equal_schemas_empty (g : Globals) (hg : g.dialect = .mysql) (rc : Bool) (A B : List Stmt) (dbA dbB : DB)
    (hA : A.all Stmt.elemSafe = true) (hB : B.all Stmt.elemSafe = true)
    (hpA : A.all Stmt.plainOpts = true) (hpB : B.all Stmt.plainOpts = true)
    (heA : execAll rc [] A = some dbA) (heB : execAll rc [] B = some dbB) (heq : DBEquiv dbA dbB) :
    ∃ d, loadAndDiff g A B = .ok d ∧ d.migrationUp g = .ok (d, []) ∧ d.migrationDown g = .ok (d, []) := by
  have htA : A.all Stmt.tablePk = true :=
    List.all_eq_true.mpr (fun s hs => ReaderMysql.tablePk_of_plainOpts s (List.all_eq_true.mp hpA s hs))
  have htB : B.all Stmt.tablePk = true :=
    List.all_eq_true.mpr (fun s hs => ReaderMysql.tablePk_of_plainOpts s (List.all_eq_true.mp hpB s hs))
  obtain ⟨mA, hmA, hrA, hxA, hkA⟩ := ReaderMysql.run_pk rc A {} [] dbA Rel.empty ElemsOK.empty PkOK.empty hA htA heA
  obtain ⟨mB, hmB, hrB, hxB, hkB⟩ := ReaderMysql.run_pk rc B {} [] dbB Rel.empty ElemsOK.empty PkOK.empty hB htB heB
  have hplA : mA.Plain False := ReaderMysql.run_plain A {} mA Migration.plain_empty hpA (fun k => k.elim) hmA
  have hplB : mB.Plain False := ReaderMysql.run_plain B {} mB Migration.plain_empty hpB (fun k => k.elim) hmB
  have hsame : Migration.Same g.dialect mB mA := by
    refine ⟨?_, ?_⟩
    · intro t ht
      -- the reference table of `t`
      have hn : t.name ∈ dbB.map (·.name) := by rw [hrB.names]; exact List.mem_map_of_mem ht
      obtain ⟨tb, htb, htbn⟩ := List.mem_map.mp hn
      obtain ⟨j, hj⟩ := List.mem_iff_getElem?.mp htb
      have hfB := find_of_getElem dbB hrB.nodup j tb hj
      obtain ⟨idB, tm, _, hmtB, hdB, hnmB, hcB, _, htyB⟩ := hrB.lookup hfB
      have htm : tm = t :=
        eq_of_name_nodup (fun x : Table => x.name) hrB.inv.tbls.nodup (List.mem_of_getElem? hmtB) ht (hnmB.trans htbn)
      subst htm
      -- its counterpart on the other side
      obtain ⟨ta, hta, htan, hequiv⟩ := heq.tables tb htb
      obtain ⟨k, hk⟩ := List.mem_iff_getElem?.mp hta
      have hfA := find_of_getElem dbA hrA.nodup k ta hk
      obtain ⟨idA, tA, _, hmtA, hdA, hnmA, hcA, _, htyA⟩ := hrA.lookup hfA
      have hmemA := List.mem_of_getElem? hmtA
      have hrawA := Migration.raws_getElem mA hmtA
      have hrawB := Migration.raws_getElem mB hmtB
      obtain ⟨hviA, hvfA⟩ := hxA.at_ hrawA hdA
      obtain ⟨hviB, hvfB⟩ := hxB.at_ hrawB hdB
      obtain ⟨hlA, _⟩ := hxA.fresh _ (List.mem_of_getElem? hrawA)
      obtain ⟨hlB, _⟩ := hxB.fresh _ (List.mem_of_getElem? hrawB)
      refine ⟨tA, hmemA, ?_, ?_⟩
      · rw [hnmA, htan, ← htbn]
      · exact table_same g.dialect hg tA tm ta tb (hrA.inv.each tA hmemA) (hrB.inv.each tm ht) (hplA tA hmemA)
          (hplB tm ht) (hkA.at_ hrawA hdA) (hkB.at_ hrawB hdB) (hkA.shape _ (List.mem_of_getElem? hrawA))
          (hkB.shape _ (List.mem_of_getElem? hrawB)) hcA hcB htyA htyB hviA hviB hvfA hvfB hlA hlB hequiv
    · intro ot hot
      have hn : ot.name ∈ dbA.map (·.name) := by rw [hrA.names]; exact List.mem_map_of_mem hot
      obtain ⟨ta, hta, htan⟩ := List.mem_map.mp hn
      have := heq.back ta hta
      rw [hrB.names, htan] at this
      exact this
  obtain ⟨d, hd, hu, hdn⟩ := Migration.same_prints_nothing g g.dialect mB mA hrB.inv hrA.inv
    (ReaderMysql.fresh_of_rel hrB hxB) (ReaderMysql.fresh_of_rel hrA hxA) hsame
  refine ⟨d, ?_, hu, hdn⟩
  have h1 : readScript g {} A = .ok mA := by unfold readScript; rw [hg]; exact hmA
  have h2 : readScript g {} B = .ok mB := by unfold readScript; rw [hg]; exact hmB
  unfold loadAndDiff
  simp only [h1, h2, bind, Except.bind]
  exact hd

end Sqlize
