/-
  Proofs/SpecTableFk.lean — C01 for one table with foreign keys: column, index and key statements composed on the
  reference engine (referential checks aside).
-/
import SqlizeModel.Proofs.SpecTable
import SqlizeModel.Proofs.EndToEndFk
import SqlizeModel.Proofs.FkWF
import SqlizeModel.Spec.Props

namespace Sqlize
open Spec

/-- a key statement of table `t` on the reference engine is a step of the abstract machine on the table's key list,
    provided a created key is on a column of the table -/
theorem exec_fk_step (db : DB) (t : String) (tb : TableSpec) (hf : db.find t = some tb) (s : Stmt) (a : Abs.Idx.IStmt FkSpec)
    (hs : fkStmt s = some a) (hst : s.table = t) (l' : List FkSpec) (he : Abs.Idx.exec tb.fks a = some l')
    (hcols : ∀ f, a = .create f → f.col ∈ tb.colNames) :
    exec false db s = some (db.replace { tb with fks := l' }) := by
  cases s with
  | addFk t' name col rt rc =>
    have : t' = t := hst
    subst this
    have ha : a = .create { name := name, col := col, refT := rt, refC := rc } := by
      simpa [fkStmt] using hs.symm
    subst ha
    have hcol := hcols _ rfl
    simp only [Abs.Idx.exec] at he
    split at he
    · cases he
    · rename_i hany
      have := Option.some.inj he; subst this
      have h1 : tb.fks.any (·.name == name) = false := by
        cases h : tb.fks.any (·.name == name) with
        | true => exact absurd h hany
        | false => rfl
      have h2 : tb.hasCol col = true := (ReaderMysql.hasCol_iff tb col).mpr hcol
      simp only [exec, hf, h1, h2, Bool.not_true, Bool.or_self, Bool.false_eq_true, if_false, Bool.false_and]
  | dropFk t' name =>
    have : t' = t := hst
    subst this
    have ha : a = .drop name := by simpa [fkStmt] using hs.symm
    subst ha
    simp only [Abs.Idx.exec] at he
    split at he
    · rename_i hany
      have := Option.some.inj he; subst this
      have h1 : tb.fks.any (·.name == name) = true := hany
      simp only [exec, hf, h1, Bool.not_true, Bool.false_eq_true, if_false]
      rfl
    · cases he
  | _ => simp [fkStmt] at hs

/-- the sequence of key statements -/
theorem execAll_fk : ∀ (ss : List Stmt) (db : DB) (t : String) (tb : TableSpec) (R : List FkSpec),
    (db.map (·.name)).Nodup → db.find t = some tb →
    (∀ s ∈ ss, s.table = t ∧ (fkStmt s).isSome = true) →
    (∀ f, Abs.Idx.IStmt.create f ∈ ss.filterMap fkStmt → f.col ∈ tb.colNames) →
    Abs.Idx.execAll tb.fks (ss.filterMap fkStmt) = some R →
    ∃ db', execAll false db ss = some db' ∧ db'.find t = some { tb with fks := R } ∧
      (∀ u, u ≠ t → db'.find u = db.find u) ∧ db'.map (·.name) = db.map (·.name) := by
  intro ss
  induction ss with
  | nil =>
    intro db t tb R _ hf _ _ he
    simp only [List.filterMap_nil, Abs.Idx.execAll] at he
    have := Option.some.inj he; subst this
    exact ⟨db, rfl, hf, fun _ _ => rfl, rfl⟩
  | cons s rest ih =>
    intro db t tb R hnd hf hss hcols he
    obtain ⟨hst, hsome⟩ := hss s (by simp)
    obtain ⟨a, ha⟩ := Option.isSome_iff_exists.mp hsome
    rw [List.filterMap_cons, ha] at he hcols
    simp only [Abs.Idx.execAll] at he
    cases h1 : Abs.Idx.exec tb.fks a with
    | none => rw [h1] at he; cases he
    | some l1 =>
      rw [h1] at he
      simp only [Option.bind_some] at he
      have he1 := exec_fk_step db t tb hf s a ha hst l1 h1 (fun f hfa => hcols f (by rw [hfa]; simp))
      obtain ⟨i, hi, hname⟩ := find_getElem db t tb hf
      obtain ⟨hf1, _, hnames1⟩ := ReaderMysql.find_replace db hnd i tb { tb with fks := l1 } hi rfl
      have hf1 : (db.replace { tb with fks := l1 }).find t = some { tb with fks := l1 } := by rw [← hname]; exact hf1
      have hnd1 : ((db.replace { tb with fks := l1 }).map (·.name)).Nodup := by rw [hnames1]; exact hnd
      obtain ⟨db', he', hf', hother, hnames'⟩ := ih (db.replace { tb with fks := l1 }) t { tb with fks := l1 } R hnd1 hf1
        (fun s' hs' => hss s' (List.mem_cons_of_mem _ hs'))
        (fun f hfm => hcols f (List.mem_cons_of_mem _ hfm)) he
      refine ⟨db', ?_, hf', ?_, hnames'.trans hnames1⟩
      · simp only [execAll, he1, Option.bind_some]; exact he'
      · intro u hu
        rw [hother u hu]
        exact find_replace_other db _ u (by show u ≠ tb.name; rw [hname]; exact hu)

theorem create_mem_emitKeepSup (D : List String) (N O : List FkSpec) (f : FkSpec)
    (h : Abs.Idx.IStmt.create f ∈ Abs.Idx.emitKeepSup D N O) : f ∈ N := by
  unfold Abs.Idx.emitKeepSup at h
  rcases List.mem_append.mp h with h1 | h1
  · obtain ⟨s, hs, he⟩ := List.mem_map.mp h1
    have : s = f := by injection he
    rw [← this]; exact (List.mem_filter.mp hs).1
  · obtain ⟨o, _, ho⟩ := List.mem_map.mp h1
    cases ho

/-- **C01, one table, with its foreign keys**: the column, index and key statements printed for the diffed record,
    executed in that order on any schema that holds the old table, are well-formed at every step; afterwards the table
    has the new side's columns, indexes, primary key and foreign keys (up to order) — provided no key found on both sides
    differs (the recorded finding `foreign-key-redefined`). -/
theorem table_spec_up_fk_any (g : Globals) (hg : g.dialect = .mysql) (hio : g.ignoreOrder = false) (rc : Bool)
    (old new : List Stmt) (dbO dbN : DB) (ho : old.all Stmt.elemSafe = true) (hn : new.all Stmt.elemSafe = true)
    (hpo : old.all Stmt.plainOpts = true) (hpn : new.all Stmt.plainOpts = true)
    (heo : execAll rc [] old = some dbO) (hen : execAll rc [] new = some dbN)
    (d : Migration) (hd : loadAndDiff g old new = .ok d)
    (t : String) (tbO tbN : TableSpec) (hfo : dbO.find t = some tbO) (hfn : dbN.find t = some tbN)
    (hc : Abs.OrderCompatible tbN.colNames tbO.colNames) (hne : ∀ n ∈ tbN.colNames ++ tbO.colNames, n ≠ "")
    (hpk : tbO.pk = tbN.pk)
    (hredef : ∀ dc : List String, (∀ c ∈ dc, c ∉ tbN.colNames) →
      ∀ s ∈ tbN.idxs, ∀ o ∈ tbO.idxs, o.name = s.name → o ≠ s → ∃ c ∈ o.cols, c ∉ dc)
    (hnr : ∀ s ∈ tbN.fks, ∀ o ∈ tbO.fks, s.name = o.name → s = o) :
    ∃ td ∈ d.tables, td.name = t ∧
      ∃ cs dc is, td.migrationColumnUp g = .ok (cs, dc) ∧ td.migrationIndexUp g dc = .ok is ∧
        ∀ db0 : DB, (db0.map (·.name)).Nodup → db0.find t = some tbO →
        ∃ db' tb', execAll false db0 (cs ++ is ++ td.migrationForeignKeyUp dc) = some db' ∧ db'.find t = some tb' ∧
          colsEquiv tb'.cols tbN.cols = true ∧ tb'.idxs.Perm tbN.idxs ∧
          tb'.pk = tbN.pk ∧ tb'.name = t ∧ tb'.fks.Perm tbN.fks ∧
          (∀ u, u ≠ t → db'.find u = db0.find u) ∧ db'.map (·.name) = db0.map (·.name) := by
  have hnc : new.all Stmt.colSafe = true :=
    List.all_eq_true.mpr (fun s hs => Stmt.colSafe_of_elemSafe s (List.all_eq_true.mp hn s hs))
  obtain ⟨td, htd, hname, cs, dc, is, hcs, his, hrun⟩ := table_spec_up_any g hg hio rc old new dbO dbN ho hn hpo hpn heo hen d hd
    t tbO tbN hfo hfn hc hne hpk hredef
  obtain ⟨td2, h21, h22, _, hfkall, hNf, hOf⟩ := fks_with_drops_end_to_end g hg rc old new dbO dbN ho hn heo hen d hd t tbO tbN hfo hfn
  -- uniqueness of the diffed record
  have hoc : old.all Stmt.colSafe = true :=
    List.all_eq_true.mpr (fun s hs => Stmt.colSafe_of_elemSafe s (List.all_eq_true.mp ho s hs))
  have hdInv : d.Inv := by
    have hd' := hd
    unfold loadAndDiff at hd'
    obtain ⟨o, hlo, hd'⟩ := bind_ok hd'
    obtain ⟨n, hln, hd'⟩ := bind_ok hd'
    obtain ⟨mo', hmo', hro'⟩ := ReaderMysql.run_rel rc old {} [] dbO Rel.empty hoc heo
    obtain ⟨mn, hmn', hrn⟩ := ReaderMysql.run_rel rc new {} [] dbN Rel.empty hnc hen
    have : mo' = o := by
      have : readScript g {} old = .ok mo' := by unfold readScript; rw [hg]; exact hmo'
      rw [this] at hlo; exact Except.ok.inj hlo
    subst this
    have : mn = n := by
      have : readScript g {} new = .ok mn := by unfold readScript; rw [hg]; exact hmn'
      rw [this] at hln; exact Except.ok.inj hln
    subst this
    exact Migration.diff_inv g.dialect mn mo' d hrn.inv hro'.inv hrn.np hd'
  have e2 : td2 = td := eq_of_name_nodup (fun x : Table => x.name) hdInv.tbls.nodup h21 htd (h22.trans hname.symm)
  subst e2
  obtain ⟨hproj, hshape⟩ := hfkall dc
  have hfkwf : tbN.FkWF := execAll_fkwf rc new [] dbN hnc fkwf_empty hen tbN (mem_of_find hfn)
  refine ⟨td2, htd, hname, cs, dc, is, hcs, his, ?_⟩
  intro db0 hnd0 hf0
  obtain ⟨db1, tb1, he1, hf1, hc1, hi1, hp1, hn1, hk1, hdcN, hother1, hnames1⟩ := hrun db0 hnd0 hf0
  obtain ⟨R, hR, hperm⟩ := Abs.Idx.emitKeepSup_correct dc tbN.fks tbO.fks hNf hOf hnr
    (fun s hs hcd => hdcN _ hcd (hfkwf s hs))
  have hnames : tb1.colNames = tbN.colNames := by
    show tb1.cols.map (·.name) = tbN.cols.map (·.name)
    exact colsEquiv_names _ _ hc1
  have hnd1 : (db1.map (·.name)).Nodup := by rw [hnames1]; exact hnd0
  obtain ⟨db2, he2, hf2, hother2, hnames2⟩ := execAll_fk (td2.migrationForeignKeyUp dc) db1 t tb1 R hnd1 hf1 hshape (by
      intro f hf
      rw [hproj] at hf
      have hfN := create_mem_emitKeepSup _ _ _ f hf
      rw [hnames]; exact hfkwf f hfN) (by rw [hk1, hproj]; exact hR)
  refine ⟨db2, { tb1 with fks := R }, ?_, hf2, hc1, hi1, hp1, hn1, hperm, ?_, hnames2.trans hnames1⟩
  · rw [execAll_append, he1]; exact he2
  · intro u hu
    rw [hother2 u hu, hother1 u hu]

theorem fk_find (db : DB) (t : String) (tb : TableSpec) (hf : db.find t = some tb) (n : String) :
    db.fk t n = tb.fks.find? (·.name == n) := by
  unfold DB.fk; rw [hf]; rfl

/-- **C01, second half, foreign keys of a table both sides have**: every key statement printed for it acts on a key that
    differs between the two reference schemas -/
theorem fk_stmts_justified (g : Globals) (hg : g.dialect = .mysql) (rc : Bool)
    (old new : List Stmt) (dbO dbN : DB) (ho : old.all Stmt.elemSafe = true) (hn : new.all Stmt.elemSafe = true)
    (heo : execAll rc [] old = some dbO) (hen : execAll rc [] new = some dbN)
    (d : Migration) (hd : loadAndDiff g old new = .ok d)
    (t : String) (tbO tbN : TableSpec) (hfo : dbO.find t = some tbO) (hfn : dbN.find t = some tbN) :
    ∃ td ∈ d.tables, td.name = t ∧ ∀ dc, ∀ s ∈ td.migrationForeignKeyUp dc, justified dbO dbN s = true := by
  obtain ⟨td, htd, hname, _, hfkall, hNf, hOf⟩ := fks_with_drops_end_to_end g hg rc old new dbO dbN ho hn heo hen d hd t tbO tbN hfo hfn
  refine ⟨td, htd, hname, ?_⟩
  intro dc s hs
  obtain ⟨hproj, hshape⟩ := hfkall dc
  obtain ⟨ht', hsome⟩ := hshape s hs
  obtain ⟨a, ha⟩ := Option.isSome_iff_exists.mp hsome
  have hmem : a ∈ Abs.Idx.emitKeepSup dc tbN.fks tbO.fks := by
    rw [← hproj]; exact List.mem_filterMap.mpr ⟨s, hs, ha⟩
  cases s with
  | addFk t2 name col rt rcol =>
    have ht2 : t2 = t := ht'
    subst ht2
    have hae : a = .create { name := name, col := col, refT := rt, refC := rcol } := by
      simpa [fkStmt] using ha.symm
    subst hae
    unfold Abs.Idx.emitKeepSup at hmem
    rcases List.mem_append.mp hmem with h1 | h1
    · obtain ⟨f, hf, he⟩ := List.mem_map.mp h1
      have hfe : f = { name := name, col := col, refT := rt, refC := rcol } := by injection he
      obtain ⟨hfN, hc⟩ := List.mem_filter.mp hf
      have hnot : f.name ∉ Abs.Idx.names tbO.fks := by simpa using hc
      show (dbO.fk t2 name != dbN.fk t2 name) = true
      have h2 : dbN.fk t2 name = some f := by
        rw [fk_find dbN t2 tbN hfn]
        have := find?_of_mem_nodup (fun x : FkSpec => x.name) tbN.fks f hNf hfN
        rw [hfe] at this ⊢; exact this
      have h3 : dbO.fk t2 name = none := by
        rw [fk_find dbO t2 tbO hfo]
        apply List.find?_eq_none.mpr
        intro x hx hxn
        apply hnot
        have hxn : x.name = name := by simpa using hxn
        rw [hfe]
        show name ∈ _
        rw [← hxn]
        exact List.mem_map_of_mem (f := fun y : FkSpec => Abs.Idx.Named.name y) hx
      rw [h2, h3]; rfl
    · obtain ⟨o, _, he⟩ := List.mem_map.mp h1
      cases he
  | dropFk t2 name =>
    have ht2 : t2 = t := ht'
    subst ht2
    have hae : a = .drop name := by simpa [fkStmt] using ha.symm
    subst hae
    unfold Abs.Idx.emitKeepSup at hmem
    rcases List.mem_append.mp hmem with h1 | h1
    · obtain ⟨f, _, he⟩ := List.mem_map.mp h1
      cases he
    · obtain ⟨o, ho, he⟩ := List.mem_map.mp h1
      have hon : o.name = name := by injection he
      obtain ⟨hoO, hc⟩ := List.mem_filter.mp ho
      simp only [Bool.and_eq_true, Bool.not_eq_true'] at hc
      have hnot : o.name ∉ Abs.Idx.names tbN.fks := by simpa using hc.1
      show (dbO.fk t2 name != dbN.fk t2 name) = true
      have h2 : dbO.fk t2 name = some o := by
        rw [fk_find dbO t2 tbO hfo, ← hon]
        exact find?_of_mem_nodup (fun x : FkSpec => x.name) tbO.fks o hOf hoO
      have h3 : dbN.fk t2 name = none := by
        rw [fk_find dbN t2 tbN hfn]
        apply List.find?_eq_none.mpr
        intro x hx hxn
        apply hnot
        have hxn : x.name = name := by simpa using hxn
        rw [hon, ← hxn]
        exact List.mem_map_of_mem (f := fun y : FkSpec => Abs.Idx.Named.name y) hx
      rw [h2, h3]; rfl
  | _ => simp [fkStmt] at ha

end Sqlize
