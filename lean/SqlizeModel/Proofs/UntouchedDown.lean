/-
  Proofs/UntouchedDown.lean — an unchanged table-level primary key gets no statement from the *down* index walk either.
-/
import SqlizeModel.Proofs.Untouched
import SqlizeModel.Proofs.IdxRefineDown

namespace Sqlize
open Spec

theorem downStmts_pk (i : Index) (tb : String) (s : Stmt) (hs : s ∈ i.downStmts tb) (hp : pkStmt s = true) :
    i.action ≠ .none ∧ (i.isPk = true ∨ ∃ p, i.prev = some p ∧ p.isPk = true) := by
  unfold Index.downStmts at hs
  split at hs
  · rename_i ha
    exact ⟨by rw [ha]; simp, Or.inl (upStmts_pk _ tb s hs hp).1⟩
  · rename_i ha
    exact ⟨by rw [ha]; simp, Or.inl (upStmts_pk _ tb s hs hp).1⟩
  · rename_i ha
    split at hs
    · rename_i p hpr
      exact ⟨by rw [ha]; simp, Or.inr ⟨p, hpr, (upStmts_pk _ tb s hs hp).1⟩⟩
    · exact ⟨by rw [ha]; simp, Or.inl (upStmts_pk _ tb s hs hp).1⟩
  · cases hs

/-- **C02: an unchanged table-level primary key gets no statement on the way down**, end to end (MySQL reader model, no
    inline PRIMARY KEY option). -/
theorem equal_pk_untouched_down (g : Globals) (hg : g.dialect = .mysql) (rc : Bool)
    (old new : List Stmt) (dbO dbN : DB) (ho : old.all Stmt.elemSafe = true) (hn : new.all Stmt.elemSafe = true)
    (hto : old.all Stmt.tablePk = true) (htn : new.all Stmt.tablePk = true)
    (heo : execAll rc [] old = some dbO) (hen : execAll rc [] new = some dbN)
    (d : Migration) (hd : loadAndDiff g old new = .ok d)
    (t : String) (tbO tbN : TableSpec) (hfo : dbO.find t = some tbO) (hfn : dbN.find t = some tbN)
    (hpk : tbO.pk = tbN.pk) :
    ∃ td ∈ d.tables, td.name = t ∧ td.action = .none ∧
      ∀ dc, ∃ ss, Table.walkIdx g t false dc td.idxs = .ok ss ∧ ∀ s ∈ ss, pkStmt s = false := by
  unfold loadAndDiff at hd
  obtain ⟨o, hlo, hd⟩ := bind_ok hd
  obtain ⟨n, hln, hd⟩ := bind_ok hd
  obtain ⟨mo, hmo', hro, heo', hko⟩ := ReaderMysql.run_pk rc old {} [] dbO Rel.empty ElemsOK.empty PkOK.empty ho hto heo
  obtain ⟨mn, hmn', hrn, hen', hkn⟩ := ReaderMysql.run_pk rc new {} [] dbN Rel.empty ElemsOK.empty PkOK.empty hn htn hen
  have : mo = o := by
    have : readScript g {} old = .ok mo := by unfold readScript; rw [hg]; exact hmo'
    rw [this] at hlo; exact Except.ok.inj hlo
  subst this
  have : mn = n := by
    have : readScript g {} new = .ok mn := by unfold readScript; rw [hg]; exact hmn'
    rw [this] at hln; exact Except.ok.inj hln
  subst this
  obtain ⟨io, to, hgo, hmo, hdo, hnmo, _, _, _⟩ := hro.lookup hfo
  obtain ⟨i, tn, _, hmn, hdn, hnmn, _, _, _⟩ := hrn.lookup hfn
  have hmemo := List.mem_of_getElem? hmo
  have hmemn := List.mem_of_getElem? hmn
  unfold Migration.diff at hd
  obtain ⟨ts, h1, hd⟩ := bind_ok hd
  obtain ⟨td, htd, hspec⟩ := Migration.diffTables1_getElem g.dialect mo mn.tables ts i tn h1 hmn
  rw [hnmn, hgo] at hspec
  obtain ⟨ot, hot, hspec⟩ := hspec
  have : ot = to := by rw [hmo] at hot; exact (Option.some.inj hot).symm
  subst this
  have hex : ot.exists_ = true := by
    unfold Table.exists_; rw [(hro.fresh ot hmemo).2]; rfl
  rw [if_pos hex] at hspec
  obtain ⟨t1, ht1, htdeq⟩ := hspec
  obtain ⟨extra, hext⟩ := Migration.diffTables2_prefix mo.tables _ d hd
  have htd_mem : td ∈ d.tables := by
    rw [hext]; exact List.mem_append_left _ (List.mem_of_getElem? htd)
  have hi_n := hrn.inv.each tn hmemn
  have hi_o := hro.inv.each ot hmemo
  have hdi := Table.diff_inv g.dialect tn ot t1 hi_n hi_o (hrn.np tn hmemn) ht1
  have hname' : td.name = t := by rw [htdeq]; show t1.name = t; rw [hdi.2]; exact hnmn
  have hrawn := Migration.raws_getElem mn hmn
  have hrawo := Migration.raws_getElem mo hmo
  obtain ⟨hlin, _⟩ := hen'.fresh _ (List.mem_of_getElem? hrawn)
  obtain ⟨hlio, _⟩ := heo'.fresh _ (List.mem_of_getElem? hrawo)
  have hkN : pkOf tn.idxs = tbN.pk := hkn.at_ hrawn hdn
  have hkO : pkOf ot.idxs = tbO.pk := hko.at_ hrawo hdo
  have hsN : PkShape tn.idxs := hkn.shape _ (List.mem_of_getElem? hrawn)
  have hsO : PkShape ot.idxs := hko.shape _ (List.mem_of_getElem? hrawo)
  have hfn' := (ReaderMysql.fresh_of_rel hrn hen').tables tn hmemn
  have hfo' := (ReaderMysql.fresh_of_rel hro heo').tables ot hmemo
  obtain ⟨hidx, _⟩ := Table.diff_elems g.dialect tn ot t1 hi_n hi_o (hrn.np tn hmemn) hfn'.1 hfo'.1 ht1
  have htdi : td.idxs = t1.idxs := by rw [htdeq]
  refine ⟨td, htd_mem, hname', by rw [htdeq], ?_⟩
  intro dc
  have hw := Table.walkIdx_pure_down_sup g t dc _ (Table.tagged_ok tn ot hlin hlio)
  refine ⟨_, by rw [htdi, hidx]; exact hw, ?_⟩
  intro s hs
  cases hps : pkStmt s with
  | false => rfl
  | true =>
    exfalso
    obtain ⟨x, hx, hsx⟩ := List.mem_flatMap.mp hs
    have hsx' : s ∈ x.downStmts t := by
      unfold Table.downSupStmts at hsx
      split at hsx
      · cases hsx
      · exact hsx
    obtain ⟨hxa, hxpk⟩ := downStmts_pk x t s hsx' hps
    rcases List.mem_append.mp hx with h | h
    · -- a record of the new side: the key record, which the old side has too
      obtain ⟨i0, hi0, rfl⟩ := List.mem_map.mp h
      have hl := hlin i0 hi0
      have hi0pk : i0.isPk = true := by
        unfold Table.tagIdx at hxpk
        cases hf : ot.idxs.find? (fun y => y.name == i0.name) with
        | none =>
          rw [hf] at hxpk
          rcases hxpk with h1 | ⟨p, hp, _⟩
          · exact h1
          · have hp : i0.prev = some p := hp
            rw [hl.prev] at hp; cases hp
        | some oi =>
          rw [hf] at hxpk
          have hoi : oi ∈ ot.idxs := List.mem_of_find?_eq_some hf
          have hon : oi.name = i0.name := by simpa using List.find?_some hf
          simp only at hxpk
          split at hxpk
          · rcases hxpk with h1 | ⟨p, hp, _⟩
            · exact h1
            · have hp : i0.prev = some p := hp
              rw [hl.prev] at hp; cases hp
          · rcases hxpk with h1 | ⟨p, hp, hpp⟩
            · exact h1
            · have hp : some oi.toDef = some p := hp
              have hpe := Option.some.inj hp
              rw [← hpe] at hpp
              have hpp : oi.isPk = true := hpp
              rw [(hlio oi hoi).pk, hon] at hpp
              rw [hl.pk]; exact hpp
      have hi0n : i0.name = pkName := by
        have := hl.pk; rw [hi0pk] at this; simpa using this.symm
      have hic : pkOf tn.idxs = i0.cols := pkOf_of_mem hi_n.idxs.nodup hi0 hi0n
      have hne : pkOf ot.idxs ≠ [] := by rw [hkO, hpk, ← hkN, hic]; exact hl.ne
      obtain ⟨oi, hoi, hon, hoc⟩ := pkOf_ne_nil hne
      have heq : oi = i0 := by rw [hsO oi hoi hon, hsN i0 hi0 hi0n, hoc, hkO, hpk, ← hkN, hic]
      have hfind : ot.idxs.find? (fun y => y.name == i0.name) = some oi := by
        have := find?_of_mem_nodup (fun y : Index => y.name) ot.idxs oi hi_o.idxs.nodup hoi
        rw [heq] at this ⊢
        exact this
      apply hxa
      unfold Table.tagIdx
      rw [hfind, heq]
      simp
    · obtain ⟨oi, hoi, rfl⟩ := List.mem_map.mp h
      obtain ⟨hoi', hnot⟩ := List.mem_filter.mp hoi
      have hl := hlio oi hoi'
      have hxpk' : oi.isPk = true := by
        rcases hxpk with h1 | ⟨p, hp, _⟩
        · exact h1
        · have hp : oi.prev = some p := hp
          rw [hl.prev] at hp; cases hp
      have hon : oi.name = pkName := by
        have := hl.pk
        rw [hxpk'] at this; simpa using this.symm
      have hoc : pkOf ot.idxs = oi.cols := pkOf_of_mem hi_o.idxs.nodup hoi' hon
      have hne : pkOf tn.idxs ≠ [] := by rw [hkN, ← hpk, ← hkO, hoc]; exact hl.ne
      obtain ⟨i0, hi0, hi0n, _⟩ := pkOf_ne_nil hne
      have : oi.name ∈ tn.idxNames := by rw [hon, ← hi0n]; exact List.mem_map_of_mem hi0
      simp [this] at hnot

end Sqlize
