/-
  Proofs/FidelitySteps.lean — one commuting square per statement kind: if the reference engine accepts the statement in a
  schema related (`Rel`) to the model state, the MySQL reader model accepts it too and the results are related.
-/
import SqlizeModel.Proofs.Fidelity
import SqlizeModel.Impl.ReaderMysql

namespace Sqlize
open Spec

/-- the reference engine's outcome for a statement that only touches non-column parts of one table -/
theorem exec_find {db db' : DB} {t : String} {k : TableSpec → Option DB}
    (he : (match db.find t with | none => none | some tb => k tb) = some db') :
    ∃ tb, db.find t = some tb ∧ k tb = some db' := by
  cases hf : db.find t with
  | none => rw [hf] at he; cases he
  | some tb => rw [hf] at he; exact ⟨tb, rfl, he⟩

namespace ReaderMysql

variable {m : Migration} {db db' : DB}

/-- the index / key statements: the named table's columns do not change on either side -/
theorem step_addIndex (h : Rel m db) (t : String) (ht : t ≠ "") (idx : Index) {tb tb' : TableSpec}
    (hf : db.find t = some tb) (hn : tb'.name = tb.name) (hc : tb'.cols = tb.cols) :
    ∃ m1, m.addIndex t idx = .ok m1 ∧ Rel (m1.using_ t) (db.replace tb') := by
  unfold Migration.addIndex
  rw [Rel.resolve_ne m ht]
  obtain ⟨m1, h1, hr⟩ := h.framed hf hn hc "Migration.AddIndex" (·.addIndex idx)
    (fun tm hi => Table.addIndex_total tm idx hi)
    (fun tm tm' hi hs => ⟨(Table.addIndex_inv tm tm' idx hi hs).1, (Table.addIndex_inv tm tm' idx hi hs).2,
      Table.addIndex_frame tm tm' idx hs⟩)
  exact ⟨m1, h1, hr.using_ t⟩

theorem step_removeIndex (h : Rel m db) (t : String) (ht : t ≠ "") (name : String) {tb tb' : TableSpec}
    (hf : db.find t = some tb) (hn : tb'.name = tb.name) (hc : tb'.cols = tb.cols) :
    ∃ m1, m.removeIndex t name = .ok m1 ∧ Rel (m1.using_ t) (db.replace tb') := by
  unfold Migration.removeIndex
  rw [Rel.resolve_ne m ht]
  obtain ⟨m1, h1, hr⟩ := h.framed hf hn hc "Migration.RemoveIndex" (·.removeIndex name)
    (fun tm hi => Table.removeIndex_total tm name hi)
    (fun tm tm' hi hs => ⟨(Table.removeIndex_inv tm tm' name hi hs).1, (Table.removeIndex_inv tm tm' name hi hs).2,
      Table.removeIndex_frame tm tm' name hs⟩)
  exact ⟨m1, h1, hr.using_ t⟩

theorem step_addForeignKey (h : Rel m db) (t : String) (ht : t ≠ "") (fk : ForeignKey) {tb tb' : TableSpec}
    (hf : db.find t = some tb) (hn : tb'.name = tb.name) (hc : tb'.cols = tb.cols) :
    ∃ m1, m.addForeignKey t fk = .ok m1 ∧ Rel m1 (db.replace tb') := by
  unfold Migration.addForeignKey
  simp only
  rw [Rel.resolve_ne m ht]
  exact h.framed hf hn hc "Migration.AddForeignKey" _
    (fun tm hi => Table.addForeignKey_total tm _ hi)
    (fun tm tm' hi hs => ⟨(Table.addForeignKey_inv tm tm' _ hi hs).1, (Table.addForeignKey_inv tm tm' _ hi hs).2,
      Table.addForeignKey_frame tm tm' _ hs⟩)

theorem step_removeForeignKey (h : Rel m db) (t : String) (ht : t ≠ "") (name : String) {tb tb' : TableSpec}
    (hf : db.find t = some tb) (hn : tb'.name = tb.name) (hc : tb'.cols = tb.cols) :
    ∃ m1, m.removeForeignKey t name = .ok m1 ∧ Rel (m1.using_ t) (db.replace tb') := by
  unfold Migration.removeForeignKey
  rw [Rel.resolve_ne m ht]
  obtain ⟨m1, h1, hr⟩ := h.framed hf hn hc "Migration.RemoveForeignKey" (·.removeForeignKey name)
    (fun tm hi => Table.removeForeignKey_total tm name hi)
    (fun tm tm' hi hs => ⟨(Table.removeForeignKey_inv tm tm' name hi hs).1, (Table.removeForeignKey_inv tm tm' name hi hs).2,
      Table.removeForeignKey_frame tm tm' name hs⟩)
  exact ⟨m1, h1, hr.using_ t⟩


theorem hasCol_iff (tb : TableSpec) (c : String) : tb.hasCol c = true ↔ c ∈ tb.colNames := by
  unfold TableSpec.hasCol TableSpec.colNames
  rw [List.any_eq_true]
  constructor
  · intro ⟨x, hx, he⟩
    have : x.name = c := by simpa using he
    exact this ▸ List.mem_map_of_mem hx
  · intro hm
    obtain ⟨x, hx, he⟩ := List.mem_map.mp hm
    exact ⟨x, hx, by simpa using he⟩

/-- DROP COLUMN -/
theorem step_dropColumn (h : Rel m db) (t c : String) (ht : t ≠ "") {tb tb' : TableSpec} (hf : db.find t = some tb)
    (hc : tb.hasCol c = true) (hn : tb'.name = tb.name) (hcolsF : tb'.cols = tb.cols.filter (fun x => x.name != c)) :
    ∃ m1, m.removeColumn t c = .ok m1 ∧ Rel (m1.using_ t) (db.replace tb') := by
  have hcols : tb'.colNames = tb.colNames.filter (· != c) := by
    show tb'.cols.map (·.name) = (tb.cols.map (·.name)).filter (· != c)
    rw [hcolsF, List.filter_map]; rfl
  unfold Migration.removeColumn
  rw [Rel.resolve_ne m ht]
  obtain ⟨m1, h1, hr, _⟩ := h.edited hf hn "Migration.RemoveColumn" (·.removeColumn c) (by
    intro tm hi ha hp hnames hty
    have hmem : c ∈ tm.colNames := by rw [hnames]; exact (hasCol_iff tb c).mp hc
    obtain ⟨id, hid⟩ := List.mem_iff_getElem?.mp hmem
    have hg := (hi.cols.get c id).mpr hid
    obtain ⟨tm', hs, hnm, ha', hmem'⟩ := Table.removeColumn_names tm c hi ha id hg
    have hnames' : tm'.colNames = tb'.colNames := by
      rw [hnm, hcols, ← hnames]
      exact eraseIdx_eq_filter tm.colNames hi.cols.nodup id c hid
    refine ⟨tm', hs, (Table.removeColumn_inv tm tm' c hi hs).1, (Table.removeColumn_inv tm tm' c hi hs).2, ha',
      Table.removeColumn_action tm tm' c hs, ?_, hnames', ?_⟩
    · rw [Table.removeColumn_pending tm tm' c hs]; exact hp
    · intro x hx
      obtain ⟨x0, hx0, hxn, hxt, hxo⟩ := hmem' x hx
      obtain ⟨cs, hcs, hcsn, hcst, hcso⟩ := hty x0 hx0
      have hxin : x.name ∈ tb'.colNames := by rw [← hnames']; exact List.mem_map_of_mem hx
      have hne : x.name ≠ c := by
        rw [hcols] at hxin
        have := (List.mem_filter.mp hxin).2
        simpa using this
      refine ⟨cs, ?_, hcsn.trans hxn, by rw [← hxt]; exact hcst, by rw [← hxo]; exact hcso⟩
      rw [hcolsF]
      exact List.mem_filter.mpr ⟨hcs, by rw [hcsn, hxn]; simpa using hne⟩)
  exact ⟨m1, h1, hr.using_ t⟩

/-- MODIFY COLUMN: two merging `AddColumn` calls on the named table (the second through the cursor); the column keeps its
    place and takes the new type -/
theorem step_modifyColumn (h : Rel m db) (t : String) (ht : t ≠ "") (c : ColDef) {tb tb' : TableSpec}
    (hf : db.find t = some tb) (hc : tb.hasCol c.name = true) (hn : tb'.name = tb.name)
    (hcolsM : tb'.cols = tb.cols.map (fun x => if x.name == c.name then (colOf c).1 else x)) :
    ∃ m', step m (.modifyColumn t c) = .ok m' ∧ Rel m' (db.replace tb') := by
  obtain ⟨id, tm, hg, hm, hd, hnm, hcols, htn, hty⟩ := h.lookup hf
  have hmemT := List.mem_of_getElem? hm
  have hi := h.inv.each tm hmemT
  have ha := (h.fresh tm hmemT).1
  have hp := h.np tm hmemT
  have hcm : c.name ∈ tm.colNames := by rw [hcols]; exact (hasCol_iff tb c.name).mp hc
  obtain ⟨ci, hci⟩ := List.mem_iff_getElem?.mp hcm
  have hgc := (hi.cols.get c.name ci).mpr hci
  -- first call: the `modify` marker
  let col1 : Column := { name := c.name, action := .modify, cur := { typ := some c.typ } }
  obtain ⟨tm1, hs1, hn1, ha1, hp1, hmem1⟩ := Table.addColumn_merge tm col1 true hi ha ci hgc
  have hi1 := Table.addColumn_inv tm tm1 col1 true hi hs1
  -- second call: the column definition
  have hgc1 : tm1.colIdx.get? c.toColumn.name = some ci := by
    apply (hi1.1.cols.get _ ci).mpr
    rw [hn1]; exact hci
  obtain ⟨tm2, hs2, hn2, ha2, hp2, hmem2⟩ := Table.addColumn_merge tm1 c.toColumn true hi1.1 ha1 ci hgc1
  have hi2 := Table.addColumn_inv tm1 tm2 c.toColumn true hi1.1 hs2
  -- the two edits on the migration
  let m1 : Migration := { m with tables := m.tables.set id tm1 }
  have e1 : m.addColumn t col1 = .ok m1 := by
    unfold Migration.addColumn
    rw [Rel.resolve_ne m ht]
    exact Migration.edit_known m t _ _ id tm tm1 hg hm hs1
  have hlt : id < m.tables.length := (List.getElem?_eq_some_iff.mp hm).1
  have hres : (m1.using_ t).resolve "" = t := by rw [resolve_using]; exact Rel.resolve_ne m1 ht
  have hm1 : (m1.using_ t).tables[id]? = some tm1 := by
    rw [using_tables]
    show (m.tables.set id tm1)[id]? = _
    simp [hlt]
  have hg1 : (m1.using_ t).tblIdx.get? t = some id := by
    have : (m1.using_ t).tblIdx = m.tblIdx := by unfold Migration.using_; split <;> rfl
    rw [this]; exact hg
  have e2 := Migration.edit_known (m1.using_ t) t "Migration.AddColumn" (·.addColumn c.toColumn true) id tm1 tm2 hg1 hm1 hs2
  refine ⟨{ (m1.using_ t) with tables := (m1.using_ t).tables.set id tm2 }, ?_, ?_⟩
  · have e1' : m.addColumn t { name := c.name, action := .modify, cur := { typ := some c.typ } } = .ok m1 := e1
    unfold step
    simp only [e1', bind, Except.bind]
    unfold Migration.addColumn
    rw [hres]
    exact e2
  · have hcolsame : tb'.colNames = tb.colNames := by
      show tb'.cols.map (·.name) = tb.cols.map (·.name)
      rw [hcolsM, List.map_map]
      apply List.map_congr_left
      intro x _
      simp only [Function.comp_apply]
      split
      · rename_i hx
        have : x.name = c.name := by simpa using hx
        show (colOf c).1.name = x.name
        rw [this]; rfl
      · rfl
    have hup := h.update (tm' := tm2) (tb' := tb') hm hd hi2.1 (hi2.2.trans hi1.2) ha2
      (by rw [Table.addColumn_action tm1 tm2 _ true hs2, Table.addColumn_action tm tm1 _ true hs1]; exact (h.fresh tm hmemT).2)
      (by rw [hp2, hp1]; exact hp) hn (by rw [hn2, hn1, hcols, hcolsame]) (hnm.trans htn.symm) (by
        intro x hx
        rcases hmem2 x hx with ⟨hx1, hxne⟩ | ⟨hxn, hxt, old2, hold2, hold2n, hxo⟩
        · rcases hmem1 x hx1 with ⟨hx0, _⟩ | ⟨hxn', _⟩
          · obtain ⟨cs, hcs, hcsn, hcst, hcso⟩ := hty x hx0
            refine ⟨cs, ?_, hcsn, hcst, hcso⟩
            rw [hcolsM]
            refine List.mem_map.mpr ⟨cs, hcs, ?_⟩
            have : (cs.name == c.name) = false := by
              rw [hcsn]; simpa [ColDef.toColumn] using hxne
            simp [this]
          · exact absurd hxn' (by simpa [ColDef.toColumn] using hxne)
        · obtain ⟨x0, hx0c, hx0n⟩ : ∃ x0 ∈ tb.cols, x0.name = c.name := by
            obtain ⟨y, hy, hyn⟩ := List.mem_map.mp ((hasCol_iff tb c.name).mp hc)
            exact ⟨y, hy, hyn⟩
          -- the record the second call merges into is the one the first call left: no options
          have hold2o : old2.cur.opts = [] := by
            rcases hmem1 old2 hold2 with ⟨_, hne'⟩ | ⟨_, _, old1, _, _, ho1⟩
            · exact absurd hold2n (by simpa [ColDef.toColumn] using hne')
            · rw [ho1]; rfl
          have hopts : (Table.optKinds x.cur.opts).Perm (colOf c).1.opts := by
            rw [hxo, hold2o]
            have h1 := Table.optKinds_pkSwap ((if (c.toColumn.action == .modify && true && c.toColumn.cur.typ.isSome) = true then [] else ([] : List Opt)) ++ c.toColumn.cur.opts)
            have h2 : ((if (c.toColumn.action == .modify && true && c.toColumn.cur.typ.isSome) = true then [] else ([] : List Opt)) ++ c.toColumn.cur.opts) = c.opts := by
              simp [ColDef.toColumn]
            rw [h2] at h1
            have h3 : (colOf c).1.opts = Table.optKinds c.opts := by
              show (optsOf c.opts).1 = _
              exact Table.optsOf_fst c.opts
            rw [h3]; exact h1
          refine ⟨(colOf c).1, ?_, (by show (colOf c).1.name = x.name; rw [hxn]; rfl),
            (by rw [hxt]; rfl), hopts⟩
          rw [hcolsM]
          refine List.mem_map.mpr ⟨x0, hx0c, ?_⟩
          simp [hx0n])
    refine hup.of_tables ?_ ?_
    · show ((m1.using_ t).tables.set id tm2) = m.tables.set id tm2
      rw [using_tables]
      show (m.tables.set id tm1).set id tm2 = _
      rw [List.set_set]
    · show (m1.using_ t).tblIdx = m.tblIdx
      unfold Migration.using_; split <;> rfl

/-- the reference engine's `insertAfter` on the column names -/
theorem insertAfter_names (p : String) (c : ColSpec) (l l' : List ColSpec) (h : insertAfter p c l = some l') :
    ∃ i, (l.map (·.name))[i]? = some p ∧
      l'.map (·.name) = (l.map (·.name)).take (i + 1) ++ c.name :: (l.map (·.name)).drop (i + 1) := by
  induction l generalizing l' with
  | nil => simp [insertAfter] at h
  | cons x r ih =>
    unfold insertAfter at h
    by_cases hx : (x.name == p) = true
    · rw [if_pos hx] at h
      have := Option.some.inj h; subst this
      have hxp : x.name = p := by simpa using hx
      exact ⟨0, by simp [hxp], by simp⟩
    · rw [if_neg hx] at h
      cases hr : insertAfter p c r with
      | none => rw [hr] at h; cases h
      | some r' =>
        rw [hr] at h
        have := Option.some.inj h; subst this
        obtain ⟨i, hi, hn⟩ := ih r' hr
        exact ⟨i + 1, by simpa using hi, by simp [hn]⟩

theorem insertAfter_mem (p : String) (c : ColSpec) (l l' : List ColSpec) (h : insertAfter p c l = some l') :
    c ∈ l' ∧ ∀ y ∈ l, y ∈ l' := by
  induction l generalizing l' with
  | nil => simp [insertAfter] at h
  | cons x r ih =>
    unfold insertAfter at h
    by_cases hx : (x.name == p) = true
    · rw [if_pos hx] at h
      have := Option.some.inj h; subst this
      exact ⟨by simp, fun y hy => by
        rcases List.mem_cons.mp hy with e | e
        · simp [e]
        · simp [e]⟩
    · rw [if_neg hx] at h
      cases hr : insertAfter p c r with
      | none => rw [hr] at h; cases h
      | some r' =>
        rw [hr] at h
        have := Option.some.inj h; subst this
        obtain ⟨h1, h2⟩ := ih r' hr
        exact ⟨List.mem_cons_of_mem _ h1, fun y hy => by
          rcases List.mem_cons.mp hy with e | e
          · simp [e]
          · exact List.mem_cons_of_mem _ (h2 y e)⟩

/-- the types stay right when a column is added on both sides -/
theorem typesOK_add {tm tm' : Table} {tb tb' : TableSpec} (c : ColDef) (hty : TypesOK tm tb)
    (hold : ∀ y ∈ tb.cols, y ∈ tb'.cols) (hnew : (colOf c).1 ∈ tb'.cols)
    (hmem : ∀ x ∈ tm'.cols, x ∈ tm.cols ∨ x = c.toColumn) : TypesOK tm' tb' := by
  intro x hx
  rcases hmem x hx with h1 | h1
  · obtain ⟨cs, hcs, hn, ht, ho⟩ := hty x h1
    exact ⟨cs, hold cs hcs, hn, ht, ho⟩
  · rw [h1]
    refine ⟨(colOf c).1, hnew, rfl, rfl, ?_⟩
    have : (colOf c).1.opts = Table.optKinds c.opts := Table.optsOf_fst c.opts
    rw [this]; exact List.Perm.refl _

/-- ADD COLUMN without position -/
theorem step_addColumn_none (h : Rel m db) (t : String) (ht : t ≠ "") (c : ColDef) {tb tb' : TableSpec}
    (hf : db.find t = some tb) (hc : tb.hasCol c.name = false) (hn : tb'.name = tb.name)
    (hcolsS : tb'.cols = tb.cols ++ [(colOf c).1]) :
    ∃ m', step m (.addColumn t c .none) = .ok m' ∧ Rel m' (db.replace tb') := by
  have hcols : tb'.colNames = tb.colNames ++ [c.name] := by
    show tb'.cols.map (·.name) = _
    rw [hcolsS, List.map_append, List.map_singleton]; rfl
  have hres : (m.using_ t).resolve "" = t := by rw [resolve_using]; exact Rel.resolve_ne m ht
  have hu := h.using_ t
  obtain ⟨m1, h1, hr, _⟩ := hu.edited hf hn "Migration.AddColumn" (·.addColumn c.toColumn true) (by
    intro tm hi ha hp hnames hty
    have hnot : c.toColumn.name ∉ tm.colNames := by
      rw [hnames]; intro hm
      rw [(hasCol_iff tb c.name).mpr (by simpa [ColDef.toColumn] using hm)] at hc; cases hc
    have hg := (hi.cols.get?_none_iff _).mpr hnot
    have hs := Table.addColumn_append tm c.toColumn true (pg := false) hg hp
    refine ⟨_, hs, Table.appended_inv tm _ hi hg, rfl, Table.appended_allAdd tm _ ha rfl, rfl, hp, ?_, ?_⟩
    · rw [Table.appended_names, hnames, hcols]; rfl
    · refine typesOK_add c hty (by rw [hcolsS]; intro y hy; exact List.mem_append_left _ hy)
        (by rw [hcolsS]; simp) ?_
      intro x hx
      have hx : x ∈ tm.cols ++ [c.toColumn] := hx
      rcases List.mem_append.mp hx with h' | h'
      · exact Or.inl h'
      · exact Or.inr (List.mem_singleton.mp h'))
  refine ⟨m1, ?_, hr⟩
  unfold step
  simp only [AddPos.toPos?, pure, Except.pure, bind, Except.bind]
  unfold Migration.addColumn
  rw [hres]
  exact h1

/-- positional ADD COLUMN: `SetColumnPosition` on the named table, then `AddColumn` through the cursor -/
theorem addColumn_positioned (h : Rel m db) (t : String) (ht : t ≠ "") (col : Column)
    (p : Pos) {tb tb' : TableSpec} (hf : db.find t = some tb) (hc : col.name ∉ tb.colNames) (hn : tb'.name = tb.name)
    (hT : ∀ tmP : Table, tmP.Inv → tmP.AllAdd → tmP.pendingPos = some p → tmP.colNames = tb.colNames →
      tmP.colIdx.get? col.name = none → TypesOK tmP tb →
      ∃ tm', tmP.addColumn col true = .ok tm' ∧ tm'.colNames = tb'.colNames ∧ tm'.AllAdd ∧ TypesOK tm' tb') :
    ∃ m', (do let m1 ← m.setColumnPosition t p; (m1.using_ t).addColumn "" col) = .ok m' ∧
      Rel m' (db.replace tb') := by
  obtain ⟨id, tm, hg, hm, hd, hnm, hcols, htn, hty⟩ := h.lookup hf
  have hmem := List.mem_of_getElem? hm
  have hi := h.inv.each tm hmem
  let tmP : Table := { tm with pendingPos := some p }
  have hiP : tmP.Inv := ⟨hi.cols, hi.idxs, hi.fks⟩
  have hgc : tmP.colIdx.get? col.name = none := (hi.cols.get?_none_iff col.name).mpr (by rw [hcols]; exact hc)
  obtain ⟨tm', hs, hnames', ha', hty'⟩ := hT tmP hiP (h.fresh tm hmem).1 rfl hcols hgc hty
  -- `SetColumnPosition`
  let m1 : Migration := { m with tables := m.tables.set id tmP }
  have h1 : m.setColumnPosition t p = .ok m1 := by
    unfold Migration.setColumnPosition
    rw [Rel.resolve_ne m ht, hg]
    exact Migration.lookup_known m _ _ id tm tmP hm rfl
  -- `AddColumn("")` goes to the cursor, which `Using(t)` just set
  have hres : (m1.using_ t).resolve "" = t := by rw [resolve_using]; exact Rel.resolve_ne m1 ht
  have hlt : id < m.tables.length := (List.getElem?_eq_some_iff.mp hm).1
  have hm1 : (m1.using_ t).tables[id]? = some tmP := by
    rw [using_tables]
    show (m.tables.set id tmP)[id]? = _
    simp [hlt]
  have hg1 : (m1.using_ t).tblIdx.get? t = some id := by
    have : (m1.using_ t).tblIdx = m.tblIdx := by unfold Migration.using_; split <;> rfl
    rw [this]; exact hg
  have h2 := Migration.edit_known (m1.using_ t) t "Migration.AddColumn" (·.addColumn col true) id tmP tm' hg1 hm1 hs
  refine ⟨{ (m1.using_ t) with tables := (m1.using_ t).tables.set id tm' }, ?_, ?_⟩
  · simp only [h1, bind, Except.bind]
    unfold Migration.addColumn
    rw [hres]
    exact h2
  · have hinv' := (Table.addColumn_inv tmP tm' col true hiP hs)
    have hup := h.update (tm' := tm') (tb' := tb') hm hd hinv'.1 hinv'.2 ha'
      (by rw [Table.addColumn_action tmP tm' col true hs]; exact (h.fresh tm hmem).2)
      (Table.addColumn_pending tmP tm' col true hs (Or.inr (by
        intro ⟨i, c0, hgi, _, _⟩; rw [hgc] at hgi; cases hgi)))
      hn hnames' (hnm.trans htn.symm) hty'
    refine hup.of_tables ?_ ?_
    · show ((m1.using_ t).tables.set id tm') = m.tables.set id tm'
      rw [using_tables]
      show (m.tables.set id tmP).set id tm' = _
      rw [List.set_set]
    · show (m1.using_ t).tblIdx = m.tblIdx
      unfold Migration.using_; split <;> rfl

/-- ADD COLUMN … FIRST -/
theorem step_addColumn_first (h : Rel m db) (t : String) (ht : t ≠ "") (c : ColDef) {tb tb' : TableSpec}
    (hf : db.find t = some tb) (hc : tb.hasCol c.name = false) (hn : tb'.name = tb.name)
    (hcolsS : tb'.cols = (colOf c).1 :: tb.cols) :
    ∃ m', step m (.addColumn t c .first) = .ok m' ∧ Rel m' (db.replace tb') := by
  have hcols : tb'.colNames = c.name :: tb.colNames := by
    show tb'.cols.map (·.name) = _
    rw [hcolsS, List.map_cons]; rfl
  have hnot : c.toColumn.name ∉ tb.colNames := by
    intro hm; rw [(hasCol_iff tb c.name).mpr (by simpa [ColDef.toColumn] using hm)] at hc; cases hc
  obtain ⟨m', h1, hr⟩ := addColumn_positioned h t ht c.toColumn .first hf hnot hn (by
    intro tmP hi ha hp hnames hg hty
    obtain ⟨tm', hs, hnm, ha', hmem'⟩ := Table.addColumn_first tmP c.toColumn true hg hp ha rfl
    exact ⟨tm', hs, by rw [hnm, hnames, hcols]; rfl, ha',
      typesOK_add c hty (by rw [hcolsS]; intro y hy; exact List.mem_cons_of_mem _ hy) (by rw [hcolsS]; simp) hmem'⟩)
  refine ⟨m', ?_, hr⟩
  unfold step
  simpa only [AddPos.toPos?] using h1

/-- ADD COLUMN … AFTER p -/
theorem step_addColumn_after (h : Rel m db) (t : String) (ht : t ≠ "") (c : ColDef) (p : String) {tb tb' : TableSpec}
    (hf : db.find t = some tb) (hc : tb.hasCol c.name = false) (hn : tb'.name = tb.name)
    (hia : insertAfter p (colOf c).1 tb.cols = some tb'.cols) :
    ∃ m', step m (.addColumn t c (.after p)) = .ok m' ∧ Rel m' (db.replace tb') := by
  obtain ⟨i, hp, hnmS⟩ := insertAfter_names p (colOf c).1 tb.cols tb'.cols hia
  obtain ⟨hnewS, holdS⟩ := insertAfter_mem p (colOf c).1 tb.cols tb'.cols hia
  have hcols : tb'.colNames = tb.colNames.take (i + 1) ++ c.name :: tb.colNames.drop (i + 1) := hnmS
  have hnot : c.toColumn.name ∉ tb.colNames := by
    intro hm; rw [(hasCol_iff tb c.name).mpr (by simpa [ColDef.toColumn] using hm)] at hc; cases hc
  obtain ⟨m', h1, hr⟩ := addColumn_positioned h t ht c.toColumn (.after p) hf hnot hn (by
    intro tmP hi ha hpp hnames hg hty
    obtain ⟨tm', hs, hnm, ha', hmem'⟩ := Table.addColumn_after tmP c.toColumn true hi hg p hpp i (by rw [hnames]; exact hp) ha rfl
    exact ⟨tm', hs, by rw [hnm, hnames, hcols]; rfl, ha', typesOK_add c hty holdS hnewS hmem'⟩)
  refine ⟨m', ?_, hr⟩
  unfold step
  simpa only [AddPos.toPos?] using h1

theorem filter_name_eq_eraseIdx (db : DB) (hnd : (db.map (·.name)).Nodup) (i : Nat) (tb : TableSpec) (h : db[i]? = some tb) :
    db.filter (·.name != tb.name) = db.eraseIdx i := by
  induction db generalizing i with
  | nil => simp at h
  | cons x r ih =>
    have hx : x.name ∉ r.map (·.name) := (List.nodup_cons.mp hnd).1
    have hr : (r.map (·.name)).Nodup := (List.nodup_cons.mp hnd).2
    cases i with
    | zero =>
      have : x = tb := by simpa using h
      subst this
      simp only [List.filter_cons, bne_self_eq_false, Bool.false_eq_true, if_false, List.eraseIdx_cons_zero]
      rw [List.filter_eq_self.mpr]
      intro y hy
      have : y.name ≠ x.name := fun e => hx (e ▸ List.mem_map_of_mem hy)
      simpa using this
    | succ j =>
      have hj : r[j]? = some tb := by simpa using h
      have hne : x.name ≠ tb.name := fun e => hx (e ▸ List.mem_map_of_mem (List.mem_of_getElem? hj))
      have : (x.name != tb.name) = true := by simpa using hne
      simp only [List.filter_cons, this, if_true, List.eraseIdx_cons_succ, List.cons.injEq, true_and]
      exact ih hr j hj

/-- DROP TABLE: a table created in this history is forgotten -/
theorem step_dropTable (h : Rel m db) (t : String) (hh : db.has t = true) :
    ∃ m', step m (.dropTable t) = .ok m' ∧ Rel m' (db.filter (·.name != t)) := by
  have hmemN : t ∈ db.map (·.name) := (has_iff db t).mp hh
  obtain ⟨tb, htb, hname⟩ := List.mem_map.mp hmemN
  obtain ⟨i, hi⟩ := List.mem_iff_getElem?.mp htb
  have hfind := find_of_getElem db h.nodup i tb hi
  rw [hname] at hfind
  obtain ⟨id, tm, hg, hm, hd, hnm, _, _, _⟩ := h.lookup hfind
  have hact : tm.action = .add := (h.fresh tm (List.mem_of_getElem? hm)).2
  have hlt : id < m.tables.length := (List.getElem?_eq_some_iff.mp hm).1
  let m2 : Migration :=
    { cursor := m.cursor, tables := m.tables.eraseIdx id,
      tblIdx := (m.tblIdx.erase t).mapVals (fun v => if v > id then v - 1 else v) }
  have hs : m.removeTable t = .ok m2 := by
    unfold Migration.removeTable
    rw [hg]
    simp only
    rw [getIdx_of_lt _ _ _ hlt]
    have : m.tables[id] = tm := (List.getElem?_eq_some_iff.mp hm).2
    simp only [bind, Except.bind, this, hact, beq_self_eq_true, if_true, pure, Except.pure]
    rfl
  refine ⟨m2.using_ t, by unfold step; simp only [hs, bind, Except.bind, pure, Except.pure], ?_⟩
  refine Rel.using_ ?_ t
  refine ⟨Migration.removeTable_inv m _ t h.inv hs, Migration.removeTable_pending m _ t h.np hs, ?_, ?_, ?_⟩
  · intro x hx
    exact h.fresh x ((List.eraseIdx_sublist _ _).subset hx)
  · rw [← hname, filter_name_eq_eraseIdx db h.nodup id tb hd]
    unfold colView specView
    show (m.tables.eraseIdx id).map _ = (db.eraseIdx id).map _
    rw [← Table.map_eraseIdx', ← Table.map_eraseIdx']
    have := h.view
    unfold colView specView at this
    rw [this]
  · rw [← hname, filter_name_eq_eraseIdx db h.nodup id tb hd]
    intro i x y hx hy
    have hx : (m.tables.eraseIdx id)[i]? = some x := hx
    rw [List.getElem?_eraseIdx] at hx hy
    by_cases hii : i < id
    · rw [if_pos hii] at hx hy; exact h.types i x y hx hy
    · rw [if_neg hii] at hx hy; exact h.types (i + 1) x y hx hy


theorem find_replace (db : DB) (hnd : (db.map (·.name)).Nodup) (i : Nat) (tb tb' : TableSpec) (h : db[i]? = some tb)
    (hn : tb'.name = tb.name) : (db.replace tb').find tb.name = some tb' ∧ (db.replace tb')[i]? = some tb' ∧
      ((db.replace tb').map (·.name)) = db.map (·.name) := by
  rw [replace_eq_set db hnd i tb tb' h hn]
  have hlt : i < db.length := (List.getElem?_eq_some_iff.mp h).1
  have hget : (db.set i tb')[i]? = some tb' := by simp [hlt]
  have hnames : (db.set i tb').map (·.name) = db.map (·.name) := by
    rw [List.map_set, hn]
    have : (db.map (·.name))[i]? = some tb.name := by simp [h]
    obtain ⟨hi, he⟩ := List.getElem?_eq_some_iff.mp this
    rw [← he]; exact List.set_getElem_self hi
  refine ⟨?_, hget, hnames⟩
  have := find_of_getElem (db.set i tb') (by rw [hnames]; exact hnd) i tb' hget
  rw [hn] at this; exact this

/-- the `ColumnDef` visits of CREATE TABLE: every column is appended to the table the cursor names -/
theorem addCols_rel (t : String) (cols : List ColDef) : ∀ (m : Migration) (dbk : DB) (tbS : TableSpec),
    Rel m dbk → m.cursor = t → dbk.find t = some tbS → tbS.name = t →
    ((tbS.colNames ++ cols.map (·.name))).Nodup →
    ∃ m', addCols m cols = .ok m' ∧
      Rel m' (dbk.replace { tbS with cols := tbS.cols ++ cols.map (fun c => (colOf c).1) }) := by
  induction cols with
  | nil =>
    intro m dbk tbS h _ hf _ _
    refine ⟨m, rfl, ?_⟩
    obtain ⟨id, _, _, _, hd, _, _, _, _⟩ := h.lookup hf
    have : ({ tbS with cols := tbS.cols ++ ([] : List ColDef).map (fun c => (colOf c).1) } : TableSpec) = tbS := by simp
    rw [this, replace_self dbk h.nodup id tbS hd]
    exact h
  | cons c rest ih =>
    intro m dbk tbS h hcur hf hname hnd
    have hres : m.resolve "" = t := by unfold Migration.resolve; simpa using hcur
    have hcn : (colOf c).1.name = c.name := by unfold colOf; rfl
    let tbS1 : TableSpec := { tbS with cols := tbS.cols ++ [(colOf c).1] }
    have hfresh : c.name ∉ tbS.colNames := by
      intro hm
      have := List.nodup_append.mp hnd
      exact this.2.2 c.name hm c.name (by simp) rfl
    obtain ⟨m1, h1, hr1, hc1⟩ := h.edited hf (tb' := tbS1) rfl "Migration.AddColumn" (·.addColumn c.toColumn true) (by
      intro tm hi ha hp hnames hty
      have hnot : c.toColumn.name ∉ tm.colNames := by rw [hnames]; exact hfresh
      have hg := (hi.cols.get?_none_iff _).mpr hnot
      have hs := Table.addColumn_append tm c.toColumn true (pg := false) hg hp
      refine ⟨_, hs, Table.appended_inv tm _ hi hg, rfl, Table.appended_allAdd tm _ ha rfl, rfl, hp, ?_, ?_⟩
      · rw [Table.appended_names, hnames]
        show _ = (tbS.cols ++ [(colOf c).1]).map (·.name)
        rw [List.map_append, List.map_singleton, hcn]
        rfl
      · refine typesOK_add (tb' := tbS1) c hty (fun y hy => List.mem_append_left _ hy)
          (by show (colOf c).1 ∈ tbS.cols ++ [(colOf c).1]; simp) ?_
        intro x hx
        have hx : x ∈ tm.cols ++ [c.toColumn] := hx
        rcases List.mem_append.mp hx with h' | h'
        · exact Or.inl h'
        · exact Or.inr (List.mem_singleton.mp h'))
    obtain ⟨id, _, _, _, hd, _, _, _, _⟩ := h.lookup hf
    obtain ⟨hf1, _, _⟩ := find_replace dbk h.nodup id tbS tbS1 hd rfl
    rw [hname] at hf1
    have hnd1 : (tbS1.colNames ++ rest.map (·.name)).Nodup := by
      have : tbS1.colNames = tbS.colNames ++ [c.name] := by
        show (tbS.cols ++ [(colOf c).1]).map (·.name) = _
        rw [List.map_append, List.map_singleton, hcn]; rfl
      rw [this, List.append_assoc]
      simpa using hnd
    obtain ⟨m', h2, hr2⟩ := ih m1 _ tbS1 hr1 (hc1.trans hcur) hf1 hname hnd1
    refine ⟨m', ?_, ?_⟩
    · unfold addCols
      have : m.addColumn "" c.toColumn = .ok m1 := by
        unfold Migration.addColumn; rw [hres]; exact h1
      simp only [this, bind, Except.bind]
      exact h2
    · -- replacing twice = replacing once with the final table
      have hfin : ({ tbS1 with cols := tbS1.cols ++ rest.map (fun c => (colOf c).1) } : TableSpec)
          = { tbS with cols := tbS.cols ++ (c :: rest).map (fun c => (colOf c).1) } := by
        show ({ tbS with cols := (tbS.cols ++ [(colOf c).1]) ++ rest.map (fun c => (colOf c).1) } : TableSpec) = _
        simp [List.append_assoc]
      rw [hfin] at hr2
      let tbF : TableSpec := { tbS with cols := tbS.cols ++ (c :: rest).map (fun c => (colOf c).1) }
      have hrr : (dbk.replace tbS1).replace tbF = dbk.replace tbF := by
        have hlt : id < dbk.length := (List.getElem?_eq_some_iff.mp hd).1
        have e1 := replace_eq_set dbk h.nodup id tbS tbS1 hd rfl
        have e2 := replace_eq_set dbk h.nodup id tbS tbF hd rfl
        have hnd' : ((dbk.set id tbS1).map (·.name)).Nodup := by
          have := (find_replace dbk h.nodup id tbS tbS1 hd rfl).2.2
          rw [e1] at this
          rw [this]; exact h.nodup
        have e3 := replace_eq_set (dbk.set id tbS1) hnd' id tbS1 tbF (by simp [hlt]) rfl
        rw [e1, e3, e2, List.set_set]
      rw [hrr] at hr2
      exact hr2


theorem allNodup_iff (l : List String) : allNodup l = true ↔ l.Nodup := by
  induction l with
  | nil => simp [allNodup]
  | cons x r ih =>
    unfold allNodup
    rw [Bool.and_eq_true, ih, List.nodup_cons]
    simp

theorem using_cursor (m : Migration) {t : String} (ht : t ≠ "") : (m.using_ t).cursor = t := by
  unfold Migration.using_
  have : (t != "") = true := by simpa using ht
  simp [this]

/-- CREATE TABLE -/
theorem step_createTable (h : Rel m db) (t : String) (ht : t ≠ "") (ident : Nat) (cols : List ColDef) (pk pk' : List String)
    (hnew : db.has t = false) (hnd : (cols.map (·.name)).Nodup) :
    ∃ m', step m (.createTable t ident cols pk) = .ok m' ∧
      Rel m' (db ++ [{ name := t, cols := cols.map (fun c => (colOf c).1), pk := pk' }]) := by
  -- the table record with its table-level PRIMARY KEY
  have htb : ∃ tb0, (if pk.isEmpty then pure (Table.new t .add) else (Table.new t .add).addIndex (pkIndex pk) : M Table) = .ok tb0 ∧
      tb0.Inv ∧ tb0.AllAdd ∧ tb0.action = .add ∧ tb0.pendingPos = none ∧ tb0.name = t ∧ tb0.colNames = [] := by
    by_cases hp : pk.isEmpty = true
    · rw [if_pos hp]
      exact ⟨_, rfl, Table.inv_new _ _, Table.allAdd_new _ _, rfl, rfl, rfl, rfl⟩
    · rw [if_neg hp]
      obtain ⟨tb0, h0⟩ := Table.addIndex_total (Table.new t .add) (pkIndex pk) (Table.inv_new _ _)
      have hi := Table.addIndex_inv _ tb0 _ (Table.inv_new _ _) h0
      have hfr := Table.addIndex_frame _ tb0 _ h0
      refine ⟨tb0, h0, hi.1, Table.allAdd_of_sig hfr.sig (Table.allAdd_new _ _), by rw [hfr.action]; rfl,
        by rw [hfr.pending]; rfl, hi.2, ?_⟩
      rw [Table.names_of_sig hfr.sig]; rfl
  obtain ⟨tb0, h0, hi0, ha0, hact0, hp0, hn0, hc0⟩ := htb
  let tbS0 : TableSpec := { name := t, cols := [], pk := pk' }
  have hty0 : TypesOK tb0 tbS0 := by
    intro x hx
    have : x.name ∈ tb0.colNames := List.mem_map_of_mem hx
    rw [hc0] at this; cases this
  obtain ⟨m2, h2, hr2, hcur2⟩ := (h.using_ t).append_table tb0 tbS0 hi0 ha0 hact0 hp0 hn0 hc0 hnew hty0
  have hr2u := hr2.using_ t
  have hcur : (m2.using_ t).cursor = t := using_cursor m2 ht
  -- the new table is the last one
  have hlast : (db ++ [tbS0])[db.length]? = some tbS0 := by simp
  have hf0 : (db ++ [tbS0]).find t = some tbS0 := find_of_getElem (db ++ [tbS0]) hr2.nodup db.length tbS0 hlast
  obtain ⟨m', h3, hr3⟩ := addCols_rel t cols (m2.using_ t) (db ++ [tbS0]) tbS0 hr2u hcur hf0 rfl (by show (([] : List ColSpec).map (·.name) ++ cols.map (·.name)).Nodup; simpa using hnd)
  refine ⟨m', ?_, ?_⟩
  · unfold step
    simp only [h0, h2, bind, Except.bind]
    exact h3
  · have hrep := replace_eq_set (db ++ [tbS0]) hr2.nodup db.length tbS0
      { tbS0 with cols := tbS0.cols ++ cols.map (fun c => (colOf c).1) } hlast rfl
    rw [hrep] at hr3
    have : (db ++ [tbS0]).set db.length { tbS0 with cols := tbS0.cols ++ cols.map (fun c => (colOf c).1) }
        = db ++ [{ name := t, cols := cols.map (fun c => (colOf c).1), pk := pk' }] := by
      simp [tbS0]
    rw [this] at hr3
    exact hr3

end ReaderMysql
end Sqlize
