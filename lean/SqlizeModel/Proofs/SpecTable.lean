import SqlizeModel.Proofs.SpecColsDown
import SqlizeModel.Proofs.EndToEndElems
import SqlizeModel.Proofs.SpecPk
import SqlizeModel.Abs.FkDrop

namespace Sqlize
open Spec

/-- the column a DROP COLUMN statement drops -/
def dropName : Stmt → Option String
  | .dropColumn _ c => some c
  | _ => none

/-- what a column statement leaves of the table's index list and primary key -/
def idxsAfter (idxs : List IdxSpec) : Stmt → List IdxSpec
  | .dropColumn _ c => Abs.Idx.dropColIdx c idxs
  | _ => idxs

def pkAfter (pk : List String) : Stmt → List String
  | .dropColumn _ c => pk.filter (· != c)
  | _ => pk

def fksAfter (fks : List FkSpec) : Stmt → List FkSpec
  | .dropColumn _ c => fks.filter (·.col != c)
  | _ => fks

theorem after_of_none (s : Stmt) (h : dropName s = none) (idxs : List IdxSpec) (pk : List String) :
    idxsAfter idxs s = idxs ∧ pkAfter pk s = pk := by
  cases s <;> simp [dropName] at h <;> exact ⟨rfl, rfl⟩

theorem after_of_some (s : Stmt) (c : String) (h : dropName s = some c) (idxs : List IdxSpec) (pk : List String) :
    idxsAfter idxs s = Abs.Idx.dropColIdx c idxs ∧ pkAfter pk s = pk.filter (· != c) := by
  cases s <;> simp [dropName] at h
  subst h
  exact ⟨rfl, rfl⟩

theorem fksAfter_of_none (s : Stmt) (h : dropName s = none) (fks : List FkSpec) : fksAfter fks s = fks := by
  cases s <;> simp [dropName] at h <;> rfl

theorem fksAfter_of_some (s : Stmt) (c : String) (h : dropName s = some c) (fks : List FkSpec) :
    fksAfter fks s = fks.filter (·.col != c) := by
  cases s <;> simp [dropName] at h
  subst h
  rfl

/-- bridge, with the rest of the table: a column statement about table `t` changes its columns as `colExec` says, its
    indexes and primary key as DROP COLUMN's clean-up says -/
theorem exec_of_colExec_full (db : DB) (t : String) (tb : TableSpec) (hf : db.find t = some tb) (s : Stmt)
    (hst : s.table = t) (hpk : s.defNoPk = true) (cols' : List ColSpec) (hc : colExec tb.cols s = some cols') :
    ∃ tb', exec false db s = some (db.replace tb') ∧ tb'.name = tb.name ∧ tb'.cols = cols' ∧
      tb'.idxs = idxsAfter tb.idxs s ∧ tb'.pk = pkAfter tb.pk s ∧ tb'.fks = fksAfter tb.fks s := by
  cases s with
  | addColumn t' c pos =>
    have : t' = t := hst
    subst this
    simp only [Stmt.defNoPk, Bool.not_eq_true'] at hpk
    simp only [colExec] at hc
    split at hc
    · cases hc
    · rename_i hany
      have hcol : tb.hasCol c.name = false := by
        unfold TableSpec.hasCol; simpa using hany
      simp only [exec, hf]
      have hco : colOf c = ((colOf c).1, false) := by rw [← hpk]
      rw [hco]
      simp only [hcol, Bool.false_eq_true, if_false, Bool.false_and]
      cases pos with
      | none =>
        simp only at hc
        have := Option.some.inj hc; subst this
        exact ⟨_, rfl, rfl, rfl, rfl, rfl, rfl⟩
      | first =>
        simp only at hc
        have := Option.some.inj hc; subst this
        exact ⟨_, rfl, rfl, rfl, rfl, rfl, rfl⟩
      | after p =>
        simp only at hc
        simp only [hc]
        exact ⟨_, rfl, rfl, rfl, rfl, rfl, rfl⟩
  | dropColumn t' c =>
    have : t' = t := hst
    subst this
    simp only [colExec] at hc
    split at hc
    · rename_i hany
      have := Option.some.inj hc; subst this
      have hcol : tb.hasCol c = true := by unfold TableSpec.hasCol; exact hany
      simp only [exec, hf, hcol, Bool.not_true, Bool.false_eq_true, if_false, Bool.false_and]
      exact ⟨_, rfl, rfl, rfl, rfl, rfl, rfl⟩
    · cases hc
  | modifyColumn t' c =>
    have : t' = t := hst
    subst this
    simp only [Stmt.defNoPk, Bool.not_eq_true'] at hpk
    simp only [colExec] at hc
    split at hc
    · rename_i hany
      have := Option.some.inj hc; subst this
      have hcol : tb.hasCol c.name = true := by unfold TableSpec.hasCol; exact hany
      have hco : colOf c = ((colOf c).1, false) := by rw [← hpk]
      simp only [exec, hf]
      rw [hco]
      simp only [hcol, Bool.not_true, Bool.false_eq_true, if_false, Bool.false_and]
      exact ⟨_, rfl, rfl, rfl, rfl, rfl, rfl⟩
    · cases hc
  | _ => simp [colExec] at hc

/-- the lift to the database, with indexes and primary key: after the column statements of table `t` the table has the
    columns `colExecAll` gives, its index list has gone through DROP COLUMN's clean-up for every dropped column, in
    order, its primary key has lost the dropped columns, and every other table is untouched -/
theorem execAll_of_colExecAll_full : ∀ (ss : List Stmt) (db : DB) (t : String) (tb : TableSpec) (cols' : List ColSpec),
    (db.map (·.name)).Nodup → db.find t = some tb →
    (∀ s ∈ ss, s.table = t ∧ s.defNoPk = true) → colExecAll tb.cols ss = some cols' →
    ∃ db' tb', execAll false db ss = some db' ∧ db'.find t = some tb' ∧ tb'.cols = cols' ∧ tb'.name = tb.name ∧
      tb'.idxs = (ss.filterMap dropName).foldl (fun l c => Abs.Idx.dropColIdx c l) tb.idxs ∧
      tb'.pk = tb.pk.filter (fun c => !(ss.filterMap dropName).contains c) ∧
      tb'.fks = tb.fks.filter (fun f => !(ss.filterMap dropName).contains f.col) ∧
      (∀ u, u ≠ t → db'.find u = db.find u) ∧ db'.map (·.name) = db.map (·.name) := by
  intro ss
  induction ss with
  | nil =>
    intro db t tb cols' _ hf _ hc
    simp only [colExecAll] at hc
    refine ⟨db, tb, rfl, hf, Option.some.inj hc, rfl, rfl, ?_, ?_, fun _ _ => rfl, rfl⟩
    · exact (List.filter_eq_self.mpr (fun _ _ => rfl)).symm
    · exact (List.filter_eq_self.mpr (fun _ _ => rfl)).symm
  | cons s rest ih =>
    intro db t tb cols' hnd hf hss hc
    simp only [colExecAll] at hc
    cases h1 : colExec tb.cols s with
    | none => rw [h1] at hc; cases hc
    | some c1 =>
      rw [h1] at hc
      simp only [Option.bind_some] at hc
      obtain ⟨hst, hpk⟩ := hss s (by simp)
      obtain ⟨tb1, he1, hn1, hc1, hi1, hp1, hk1⟩ := exec_of_colExec_full db t tb hf s hst hpk c1 h1
      obtain ⟨i, hi, hname⟩ := find_getElem db t tb hf
      obtain ⟨hf1, _, hnames1⟩ := ReaderMysql.find_replace db hnd i tb tb1 hi hn1
      rw [hname] at hf1
      have hnd1 : ((db.replace tb1).map (·.name)).Nodup := by rw [hnames1]; exact hnd
      obtain ⟨db', tb', he', hf', hc', hn', hi', hp', hk', hother, hnames'⟩ := ih (db.replace tb1) t tb1 cols' hnd1 hf1
        (fun s' hs' => hss s' (List.mem_cons_of_mem _ hs')) (by rw [hc1]; exact hc)
      refine ⟨db', tb', ?_, hf', hc', hn'.trans hn1, ?_, ?_, ?_, ?_, hnames'.trans hnames1⟩
      · simp only [execAll, he1, Option.bind_some]; exact he'
      · rw [hi', hi1, List.filterMap_cons]
        cases hd : dropName s with
        | none => simp only; rw [(after_of_none s hd tb.idxs tb.pk).1]
        | some c => simp only [List.foldl_cons]; rw [(after_of_some s c hd tb.idxs tb.pk).1]
      · rw [hp', hp1, List.filterMap_cons]
        cases hd : dropName s with
        | none => simp only; rw [(after_of_none s hd tb.idxs tb.pk).2]
        | some c =>
          simp only
          rw [(after_of_some s c hd tb.idxs tb.pk).2, List.filter_filter]
          apply List.filter_congr
          intro x _
          by_cases hx : x = c <;> simp [hx]
      · rw [hk', hk1, List.filterMap_cons]
        cases hd : dropName s with
        | none => simp only; rw [fksAfter_of_none s hd tb.fks]
        | some c =>
          simp only
          rw [fksAfter_of_some s c hd tb.fks, List.filter_filter]
          apply List.filter_congr
          intro x _
          by_cases hx : x.col = c <;> simp [hx]
      · intro u hu
        rw [hother u hu]
        exact find_replace_other db tb1 u (by rw [hn1, hname]; exact hu)

/-- an index statement of table `t` on the reference engine is a step of the abstract index machine on the table's
    index list, provided a created index is non-empty and names columns of the table -/
theorem exec_idx_step (db : DB) (t : String) (tb : TableSpec) (hf : db.find t = some tb) (s : Stmt) (a : Abs.Idx.IStmt IdxSpec)
    (hs : idxStmt s = some a) (hst : s.table = t) (l' : List IdxSpec) (he : Abs.Idx.exec tb.idxs a = some l')
    (hcols : ∀ i, a = .create i → i.cols ≠ [] ∧ ∀ c ∈ i.cols, c ∈ tb.colNames) :
    exec false db s = some (db.replace { tb with idxs := l' }) := by
  cases s with
  | createIndex t' name cols uniq u =>
    have : t' = t := hst
    subst this
    have ha : a = .create { name := name, cols := cols, unique := uniq, itype := Table.normIdxType u } := by
      simpa [idxStmt] using hs.symm
    subst ha
    obtain ⟨hne, hsub⟩ := hcols _ rfl
    simp only [Abs.Idx.exec] at he
    split at he
    · cases he
    · rename_i hany
      have := Option.some.inj he; subst this
      have h1 : tb.idxs.any (·.name == name) = false := by
        cases h : tb.idxs.any (·.name == name) with
        | true => exact absurd h hany
        | false => rfl
      have h2 : cols.isEmpty = false := by
        cases cols with
        | nil => exact absurd rfl hne
        | cons _ _ => rfl
      have h3 : cols.all tb.hasCol = true := by
        rw [List.all_eq_true]
        intro c hc
        exact (ReaderMysql.hasCol_iff tb c).mpr (hsub c hc)
      simp only [exec, hf, h1, h2, h3, Bool.or_self, Bool.not_true, Bool.false_eq_true, if_false]
      rfl
  | dropIndex t' name =>
    have : t' = t := hst
    subst this
    have ha : a = .drop name := by simpa [idxStmt] using hs.symm
    subst ha
    simp only [Abs.Idx.exec] at he
    split at he
    · rename_i hany
      have := Option.some.inj he; subst this
      have h1 : tb.idxs.any (·.name == name) = true := hany
      simp only [exec, hf, h1, Bool.not_true, Bool.false_eq_true, if_false]
      rfl
    · cases he
  | _ => simp [idxStmt] at hs

/-- the sequence of index statements -/
theorem execAll_idx : ∀ (ss : List Stmt) (db : DB) (t : String) (tb : TableSpec) (R : List IdxSpec),
    (db.map (·.name)).Nodup → db.find t = some tb →
    (∀ s ∈ ss, s.table = t ∧ (idxStmt s).isSome = true) →
    (∀ i, Abs.Idx.IStmt.create i ∈ ss.filterMap idxStmt → i.cols ≠ [] ∧ ∀ c ∈ i.cols, c ∈ tb.colNames) →
    Abs.Idx.execAll tb.idxs (ss.filterMap idxStmt) = some R →
    ∃ db', execAll false db ss = some db' ∧ db'.find t = some { tb with idxs := R } ∧
      (∀ u, u ≠ t → db'.find u = db.find u) ∧ db'.map (·.name) = db.map (·.name) := by
  intro ss
  induction ss with
  | nil =>
    intro db t tb R _ hf _ _ he
    simp only [List.filterMap_nil, Abs.Idx.execAll] at he
    have := Option.some.inj he; subst this
    exact ⟨db, rfl, hf, fun _ _ => rfl, rfl⟩
  | cons s rest ih =>
    intro db t tb R hnd hf hss hcols he
    obtain ⟨hst, hsome⟩ := hss s (by simp)
    obtain ⟨a, ha⟩ := Option.isSome_iff_exists.mp hsome
    rw [List.filterMap_cons, ha] at he hcols
    simp only [Abs.Idx.execAll] at he
    cases h1 : Abs.Idx.exec tb.idxs a with
    | none => rw [h1] at he; cases he
    | some l1 =>
      rw [h1] at he
      simp only [Option.bind_some] at he
      have he1 := exec_idx_step db t tb hf s a ha hst l1 h1 (fun i hi => hcols i (by rw [hi]; simp))
      obtain ⟨i, hi, hname⟩ := find_getElem db t tb hf
      obtain ⟨hf1, _, hnames1⟩ := ReaderMysql.find_replace db hnd i tb { tb with idxs := l1 } hi rfl
      have hf1 : (db.replace { tb with idxs := l1 }).find t = some { tb with idxs := l1 } := by rw [← hname]; exact hf1
      have hnd1 : ((db.replace { tb with idxs := l1 }).map (·.name)).Nodup := by rw [hnames1]; exact hnd
      obtain ⟨db', he', hf', hother, hnames'⟩ := ih (db.replace { tb with idxs := l1 }) t { tb with idxs := l1 } R hnd1 hf1
        (fun s' hs' => hss s' (List.mem_cons_of_mem _ hs'))
        (fun i hi => hcols i (List.mem_cons_of_mem _ hi)) he
      refine ⟨db', ?_, hf', ?_, hnames'.trans hnames1⟩
      · simp only [execAll, he1, Option.bind_some]; exact he'
      · intro u hu
        rw [hother u hu]
        exact find_replace_other db _ u (by show u ≠ tb.name; rw [hname]; exact hu)

theorem execAll_append (rc : Bool) (a b : List Stmt) : ∀ (db : DB),
    execAll rc db (a ++ b) = (execAll rc db a).bind (execAll rc · b) := by
  induction a with
  | nil => intro db; rfl
  | cons s r ih =>
    intro db
    simp only [List.cons_append, execAll]
    cases exec rc db s with
    | none => rfl
    | some d1 => simp only [Option.bind_some]; exact ih d1

namespace Table

/-- MySQL: the dropped-column list the column walk returns is the list of its DROP COLUMN statements -/
theorem walkCols_dropNames (g : Globals) (hg : g.dialect = .mysql) (tb : String) : ∀ (cols before : List Column),
    (walkCols g tb true before cols).2 = (walkCols g tb true before cols).1.filterMap dropName := by
  intro cols
  induction cols with
  | nil => intro before; rfl
  | cons c rest ih =>
    intro before
    unfold walkCols
    simp only
    by_cases hnone : (c.action == .none) = true
    · simp only [hnone, if_true]; exact ih _
    · simp only [hnone, Bool.false_eq_true, if_false, if_true]
      rw [List.filterMap_append, ← ih (before ++ [c])]
      congr 1
      unfold Column.migrationUpAlter
      cases ha : c.action <;> simp [dropName, hg]

end Table

theorem create_mem_emitSup (D : List String) (N O : List IdxSpec) (i : IdxSpec)
    (h : Abs.Idx.IStmt.create i ∈ Abs.Idx.emitSup D N O) : i ∈ N := by
  unfold Abs.Idx.emitSup at h
  rcases List.mem_append.mp h with h1 | h1
  · obtain ⟨s, hs, hm⟩ := List.mem_flatMap.mp h1
    unfold Abs.Idx.emitOne at hm
    split at hm
    · have : i = s := by simpa using hm
      rw [this]; exact hs
    · split at hm
      · cases hm
      · have : i = s := by simpa using hm
        rw [this]; exact hs
  · obtain ⟨o, _, ho⟩ := List.mem_map.mp h1
    cases ho

theorem colsEquiv_names : ∀ (a b : List ColSpec), colsEquiv a b = true → a.map (·.name) = b.map (·.name) := by
  intro a
  induction a with
  | nil => intro b h; cases b with
    | nil => rfl
    | cons _ _ => simp [colsEquiv] at h
  | cons x r ih =>
    intro b h
    cases b with
    | nil => simp [colsEquiv] at h
    | cons y r' =>
      simp only [colsEquiv, Bool.and_eq_true] at h
      have hxy : x.name = y.name := by
        have := h.1; unfold ColSpec.equiv at this
        simp only [Bool.and_eq_true, beq_iff_eq] at this
        exact this.1.1
      simp [hxy, ih r' h.2]

/-- **C01, the column and index clauses composed on the reference engine.**  Under the hypotheses of `columns_spec_up`,
    for a table whose primary key is the same on both sides, and outside the recorded finding (no index redefined under
    its name while every column of its old definition is dropped): the statements `MigrationColumnUp` and
    `MigrationIndexUp` print for the diffed record, executed in that order by `Spec.execAll` on the old schema
    (referential checks aside), are well-formed at every step; afterwards the table has the new side's columns (same
    names, order, types, options up to order), the new side's indexes up to order and its primary key, and every other
    table is untouched. -/
theorem table_spec_up_any (g : Globals) (hg : g.dialect = .mysql) (hio : g.ignoreOrder = false) (rc : Bool)
    (old new : List Stmt) (dbO dbN : DB) (ho : old.all Stmt.elemSafe = true) (hn : new.all Stmt.elemSafe = true)
    (hpo : old.all Stmt.plainOpts = true) (hpn : new.all Stmt.plainOpts = true)
    (heo : execAll rc [] old = some dbO) (hen : execAll rc [] new = some dbN)
    (d : Migration) (hd : loadAndDiff g old new = .ok d)
    (t : String) (tbO tbN : TableSpec) (hfo : dbO.find t = some tbO) (hfn : dbN.find t = some tbN)
    (hc : Abs.OrderCompatible tbN.colNames tbO.colNames) (hne : ∀ n ∈ tbN.colNames ++ tbO.colNames, n ≠ "")
    (hpk : tbO.pk = tbN.pk)
    (hredef : ∀ dc : List String, (∀ c ∈ dc, c ∉ tbN.colNames) →
      ∀ s ∈ tbN.idxs, ∀ o ∈ tbO.idxs, o.name = s.name → o ≠ s → ∃ c ∈ o.cols, c ∉ dc) :
    ∃ td ∈ d.tables, td.name = t ∧
      ∃ cs dc is, td.migrationColumnUp g = .ok (cs, dc) ∧ td.migrationIndexUp g dc = .ok is ∧
        ∀ db0 : DB, (db0.map (·.name)).Nodup → db0.find t = some tbO →
        ∃ db' tb', execAll false db0 (cs ++ is) = some db' ∧ db'.find t = some tb' ∧
          colsEquiv tb'.cols tbN.cols = true ∧ tb'.idxs.Perm tbN.idxs ∧
          tb'.pk = tbN.pk ∧ tb'.name = t ∧ tb'.fks = Abs.Idx.pruneFk dc tbO.fks ∧ (∀ c ∈ dc, c ∉ tbN.colNames) ∧
          (∀ u, u ≠ t → db'.find u = db0.find u) ∧ db'.map (·.name) = db0.map (·.name) := by
  have hoc : old.all Stmt.colSafe = true :=
    List.all_eq_true.mpr (fun s hs => Stmt.colSafe_of_elemSafe s (List.all_eq_true.mp ho s hs))
  have hnc : new.all Stmt.colSafe = true :=
    List.all_eq_true.mpr (fun s hs => Stmt.colSafe_of_elemSafe s (List.all_eq_true.mp hn s hs))
  have hto : old.all Stmt.tablePk = true :=
    List.all_eq_true.mpr (fun s hs => ReaderMysql.tablePk_of_plainOpts s (List.all_eq_true.mp hpo s hs))
  have htn : new.all Stmt.tablePk = true :=
    List.all_eq_true.mpr (fun s hs => ReaderMysql.tablePk_of_plainOpts s (List.all_eq_true.mp hpn s hs))
  -- the column part
  obtain ⟨td, htd, hname, hact, hup, cols', hex, heq, hss, hnd⟩ := columns_spec_up_pre g hg hio rc old new dbO dbN ho hn hpo hpn
    heo hen d hd t tbO tbN hfo hfn hc hne
  -- uniqueness of the diffed record
  have hdInv : d.Inv := by
    have hd' := hd
    unfold loadAndDiff at hd'
    obtain ⟨o, hlo, hd'⟩ := bind_ok hd'
    obtain ⟨n, hln, hd'⟩ := bind_ok hd'
    obtain ⟨mo', hmo', hro'⟩ := ReaderMysql.run_rel rc old {} [] dbO Rel.empty hoc heo
    obtain ⟨mn, hmn', hrn⟩ := ReaderMysql.run_rel rc new {} [] dbN Rel.empty hnc hen
    have : mo' = o := by
      have : readScript g {} old = .ok mo' := by unfold readScript; rw [hg]; exact hmo'
      rw [this] at hlo; exact Except.ok.inj hlo
    subst this
    have : mn = n := by
      have : readScript g {} new = .ok mn := by unfold readScript; rw [hg]; exact hmn'
      rw [this] at hln; exact Except.ok.inj hln
    subst this
    exact Migration.diff_inv g.dialect mn mo' d hrn.inv hro'.inv hrn.np hd'
  have huniq : ∀ td' ∈ d.tables, td'.name = t → td' = td := fun td' h1 h2 =>
    eq_of_name_nodup (fun x : Table => x.name) hdInv.tbls.nodup h1 htd (h2.trans hname.symm)
  -- the index part
  obtain ⟨td2, h21, h22, _, cs, dc, is, hcs, his, hdcN, hproj, hcorr, hcs', hdc', hshape, _, _⟩ :=
    indexes_with_drops_end_to_end' g hg hio rc old new dbO dbN ho hn heo hen d hd t tbO tbN hfo hfn hne
  have e2 := huniq td2 h21 h22
  subst e2
  obtain ⟨td3, h31, h32, _, hnopk⟩ := equal_pk_untouched g hg rc old new dbO dbN ho hn hto htn heo hen d hd t tbO tbN hfo hfn hpk
  have e3 := huniq td3 h31 h32
  subst e3
  -- no PRIMARY KEY statement among the index statements
  have hisIdx : ∀ s ∈ is, s.table = t ∧ (idxStmt s).isSome = true := by
    intro s hs
    obtain ⟨ss', hw', hnp⟩ := hnopk dc
    have his' : td3.migrationIndexUp g dc = .ok ss' := by
      unfold Table.migrationIndexUp; rw [hact, hname]; exact hw'
    rw [his] at his'
    have : is = ss' := Except.ok.inj his'
    subst this
    obtain ⟨ht', hkind⟩ := hshape s hs
    refine ⟨ht', ?_⟩
    rcases hkind with ⟨cols, rfl⟩ | rfl | h
    · have := hnp _ hs; simp [pkStmt] at this
    · have := hnp _ hs; simp [pkStmt] at this
    · exact h
  -- the reference tables are well-formed
  have hwfN : tbN.WF := execAll_wf rc new [] dbN hnc wf_empty hen tbN (mem_of_find hfn)
  have hwfO : tbO.WF := execAll_wf rc old [] dbO hoc wf_empty heo tbO (mem_of_find hfo)
  -- run the column statements
  subst hcs' hdc'
  have hdrop : (Table.walkCols g t true [] td3.cols).1.filterMap dropName = (Table.walkCols g t true [] td3.cols).2 :=
    (Table.walkCols_dropNames g hg t td3.cols []).symm
  have hpkN : tbN.PkIn := execAll_pkin rc new [] dbN hnc pkin_empty hen tbN (mem_of_find hfn)
  obtain ⟨R, hR, hperm⟩ := hcorr (hredef _ hdcN)
  refine ⟨td3, htd, hname, _, _, is, hcs, his, ?_⟩
  intro db0 hnd0 hf0
  obtain ⟨db1, tb1, he1, hf1, hc1, hn1, hi1, hp1, hfk1, hother1, hnames1⟩ :=
    execAll_of_colExecAll_full _ db0 t tbO cols' hnd0 hf0 hss hex
  rw [hdrop] at hi1 hp1
  have hi1' : tb1.idxs = Abs.Idx.prune (Table.walkCols g t true [] td3.cols).2 tbO.idxs := by
    rw [hi1]; exact Abs.Idx.dropCols_idxs _ tbO.idxs (fun i hi => (hwfO i hi).1)
  -- run the index statements
  have hnames : tb1.colNames = tbN.colNames := by
    show tb1.cols.map (·.name) = tbN.cols.map (·.name)
    rw [hc1]; exact colsEquiv_names _ _ heq
  have hnd1 : (db1.map (·.name)).Nodup := by rw [hnames1]; exact hnd0
  obtain ⟨db2, he2, hf2, hother2, hnames2⟩ := execAll_idx is db1 t tb1 R hnd1 hf1 hisIdx (by
      intro i hi
      rw [hproj] at hi
      have hiN := create_mem_emitSup _ _ _ i hi
      refine ⟨(hwfN i hiN).1, fun c hc' => ?_⟩
      rw [hnames]; exact (hwfN i hiN).2 c hc') (by rw [hi1']; exact hR)
  -- the primary key names columns of the new table: none of them is dropped
  have hpkfin : tb1.pk = tbN.pk := by
    rw [hp1, hpk]
    apply List.filter_eq_self.mpr
    intro c hc
    have : c ∉ (Table.walkCols g t true [] td3.cols).2 := fun hcd => hdcN c hcd (hpkN.1 c hc)
    simpa using this
  have hnameO : tbO.name = t := by
    obtain ⟨_, _, hn0⟩ := find_getElem db0 t tbO hf0
    exact hn0
  refine ⟨db2, { tb1 with idxs := R }, ?_, hf2, ?_, hperm, hpkfin, hn1.trans hnameO, ?_, hdcN, ?_, hnames2.trans hnames1⟩
  · rw [execAll_append, he1]; exact he2
  · show colsEquiv tb1.cols tbN.cols = true
    rw [hc1]; exact heq
  · show tb1.fks = _
    rw [hfk1, hdrop]; rfl
  · intro u hu
    rw [hother2 u hu, hother1 u hu]

/-- `table_spec_up_any` on the old schema itself -/
theorem table_spec_up (g : Globals) (hg : g.dialect = .mysql) (hio : g.ignoreOrder = false) (rc : Bool)
    (old new : List Stmt) (dbO dbN : DB) (ho : old.all Stmt.elemSafe = true) (hn : new.all Stmt.elemSafe = true)
    (hpo : old.all Stmt.plainOpts = true) (hpn : new.all Stmt.plainOpts = true)
    (heo : execAll rc [] old = some dbO) (hen : execAll rc [] new = some dbN)
    (d : Migration) (hd : loadAndDiff g old new = .ok d)
    (t : String) (tbO tbN : TableSpec) (hfo : dbO.find t = some tbO) (hfn : dbN.find t = some tbN)
    (hc : Abs.OrderCompatible tbN.colNames tbO.colNames) (hne : ∀ n ∈ tbN.colNames ++ tbO.colNames, n ≠ "")
    (hpk : tbO.pk = tbN.pk)
    (hredef : ∀ dc : List String, (∀ c ∈ dc, c ∉ tbN.colNames) →
      ∀ s ∈ tbN.idxs, ∀ o ∈ tbO.idxs, o.name = s.name → o ≠ s → ∃ c ∈ o.cols, c ∉ dc) :
    ∃ td ∈ d.tables, td.name = t ∧
      ∃ cs dc is, td.migrationColumnUp g = .ok (cs, dc) ∧ td.migrationIndexUp g dc = .ok is ∧
        ∃ db' tb', execAll false dbO (cs ++ is) = some db' ∧ db'.find t = some tb' ∧
          colsEquiv tb'.cols tbN.cols = true ∧ tb'.idxs.Perm tbN.idxs ∧
          tb'.pk = tbN.pk ∧
          (∀ u, u ≠ t → db'.find u = dbO.find u) ∧ db'.map (·.name) = dbO.map (·.name) := by
  have hoc : old.all Stmt.colSafe = true :=
    List.all_eq_true.mpr (fun s hs => Stmt.colSafe_of_elemSafe s (List.all_eq_true.mp ho s hs))
  obtain ⟨mo, _, hro⟩ := ReaderMysql.run_rel rc old {} [] dbO Rel.empty hoc heo
  obtain ⟨td, h1, h2, cs, dc, is, h3, h4, h5⟩ := table_spec_up_any g hg hio rc old new dbO dbN ho hn hpo hpn heo hen d hd
    t tbO tbN hfo hfn hc hne hpk hredef
  obtain ⟨db', tb', e1, e2, e3, e4, e5, _, _, _, e6, e7⟩ := h5 dbO hro.nodup hfo
  exact ⟨td, h1, h2, cs, dc, is, h3, h4, db', tb', e1, e2, e3, e4, e5, e6, e7⟩

end Sqlize
