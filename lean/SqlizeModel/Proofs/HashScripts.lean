/-
  Proofs/HashScripts.lean — C07 from scripts: the value `HashValue` computes for a model the MySQL reader loaded is a
  function of the *reference schema* the script describes (`DB.hashOf`), whatever the script looks like — and that
  function does not see the order of columns or indexes inside a table, nor any column option.
-/
import SqlizeModel.Proofs.Hash
import SqlizeModel.Proofs.FidelityPk
import SqlizeModel.Proofs.CrossLoad

namespace Sqlize
open Spec

theorem normIdx_cases (t : String) :
    (if t == "BTREE" then "" else t) = (if Table.normIdxType t == "BTREE" then "" else Table.normIdxType t) := by
  unfold Table.normIdxType
  by_cases h1 : t = "BTREE"
  · subst h1; decide
  · by_cases h2 : t = ""
    · subst h2; decide
    · have e1 : (t == "BTREE") = false := by simpa using h1
      have e2 : (t == "") = false := by simpa using h2
      simp [e1, e2]

/-- what `Index.hashInput` computes for a record the reader left -/
theorem Index.hashInput_live (g : Globals) (i : Index) (hl : i.Live) :
    Index.hashInput g i = .ok (if i.name == pkName then pkHashInput g i.cols else IdxSpec.hashInput g i.toSpec) := by
  have hn := normIdx_cases i.indexType
  unfold Index.hashInput
  by_cases hp : i.name = pkName
  · have hisPk : i.isPk = true := by rw [hl.pk, hp]; simp
    have h1 : (i.name == pkName) = true := by simp [hp]
    rw [h1, if_pos rfl]
    by_cases hb : (i.indexType == "BTREE") = true
    · simp [hb, Index.migrationUp, hl.add, hisPk, Stmt.render, pkHashInput, bind, Except.bind, pure, Except.pure, List.mapM_cons]
    · simp [hb, Index.migrationUp, hl.add, hisPk, Stmt.render, pkHashInput, bind, Except.bind, pure, Except.pure, List.mapM_cons]
  · have hisPk : i.isPk = false := by rw [hl.pk]; simpa using hp
    have h1 : (i.name == pkName) = false := by simpa using hp
    rw [h1]
    simp only [Bool.false_eq_true, if_false]
    unfold IdxSpec.hashInput Index.toSpec
    simp only
    rw [← hn]
    rcases hl.typ with ht | ht
    · by_cases hb : (i.indexType == "BTREE") = true
      · simp [hb, Index.migrationUp, hl.add, hisPk, ht, Stmt.render, bind, Except.bind, pure, Except.pure, List.mapM_cons]
      · simp [hb, Index.migrationUp, hl.add, hisPk, ht, Stmt.render, bind, Except.bind, pure, Except.pure, List.mapM_cons]
    · by_cases hb : (i.indexType == "BTREE") = true
      · simp [hb, Index.migrationUp, hl.add, hisPk, ht, Stmt.render, bind, Except.bind, pure, Except.pure, List.mapM_cons]
      · simp [hb, Index.migrationUp, hl.add, hisPk, ht, Stmt.render, bind, Except.bind, pure, Except.pure, List.mapM_cons]

theorem mapM_ok {α β : Type} (f : α → M β) (g : α → β) : ∀ (l : List α), (∀ x ∈ l, f x = .ok (g x)) →
    l.mapM f = .ok (l.map g) := by
  intro l
  induction l with
  | nil => intro _; rfl
  | cons a r ih =>
    intro h
    rw [List.mapM_cons, h a (by simp), ih (fun x hx => h x (by simp [hx]))]
    rfl

theorem cols_hashInput (g : Globals) : ∀ (a : List Column) (b : List ColSpec), a.map (·.name) = b.map (·.name) →
    (b.map (·.name)).Nodup → (∀ c ∈ a, ∃ cs ∈ b, cs.name = c.name ∧ c.cur.typ = some cs.typ) →
    a.map (Column.hashInput g) = b.map (ColSpec.hashInput g) := by
  intro a
  induction a with
  | nil => intro b h _ _; cases b with
    | nil => rfl
    | cons _ _ => simp at h
  | cons c r ih =>
    intro b h hnd ht
    cases b with
    | nil => simp at h
    | cons y r' =>
      simp only [List.map_cons, List.cons.injEq] at h
      rw [List.map_cons, List.nodup_cons] at hnd
      obtain ⟨cs, hcs, hcsn, hcst⟩ := ht c (by simp)
      have hy : cs = y := by
        rcases List.mem_cons.mp hcs with e | e
        · exact e
        · exfalso
          apply hnd.1
          rw [← h.1, ← hcsn]
          exact List.mem_map_of_mem e
      subst hy
      rw [List.map_cons, List.map_cons]
      congr 1
      · unfold Column.hashInput ColSpec.hashInput Attr.typeText
        rw [hcst, h.1]; rfl
      · apply ih r' h.2 hnd.2
        intro c' hc'
        obtain ⟨cs', hcs', h1, h2⟩ := ht c' (List.mem_cons_of_mem _ hc')
        rcases List.mem_cons.mp hcs' with e | e
        · exfalso
          apply hnd.1
          have : c'.name ∈ r.map (·.name) := List.mem_map_of_mem hc'
          rw [h.2] at this
          rw [← e, h1]; exact this
        · exact ⟨cs', e, h1, h2⟩

theorem filter_name_nodup {α : Type} (f : α → String) (n : String) : ∀ (l : List α), (l.map f).Nodup →
    l.filter (fun x => f x == n) = (l.find? (fun x => f x == n)).toList := by
  intro l
  induction l with
  | nil => intro _; rfl
  | cons a r ih =>
    intro hnd
    rw [List.map_cons, List.nodup_cons] at hnd
    rw [List.filter_cons, List.find?_cons]
    by_cases h : (f a == n) = true
    · rw [if_pos h, h]
      have : r.filter (fun x => f x == n) = [] := by
        apply List.filter_eq_nil_iff.mpr
        intro x hx hxn
        apply hnd.1
        have e1 : f a = n := by simpa using h
        have e2 : f x = n := by simpa using hxn
        rw [e1, ← e2]; exact List.mem_map_of_mem hx
      rw [this]; rfl
    · have h' : (f a == n) = false := by simpa using h
      rw [if_neg h, h']
      exact ih hnd.2

/-- **the digest of a loaded table is the digest of the reference table** -/
theorem Table.hashWith_spec (H : String → String) (g : Globals) (tm : Table) (tb : TableSpec)
    (hcn : tm.colNames = tb.colNames) (hnd : tb.colNames.Nodup) (hty : TypesOK tm tb)
    (hlive : ∀ i ∈ tm.idxs, i.Live) (hidx : idxSpecOf tm.idxs = tb.idxs) (hpk : pkOf tm.idxs = tb.pk)
    (hndi : (tm.idxs.map (·.name)).Nodup) :
    tm.hashWith H g = .ok (tb.hashOf H g) := by
  have hcols : tm.cols.map (Column.hashInput g) = tb.cols.map (ColSpec.hashInput g) :=
    cols_hashInput g tm.cols tb.cols hcn hnd (fun c hc => by
      obtain ⟨cs, h1, h2, h3, _⟩ := hty c hc
      exact ⟨cs, h1, h2, h3⟩)
  let f : Index → String := fun i => if i.name == pkName then pkHashInput g i.cols else IdxSpec.hashInput g i.toSpec
  have hm : tm.idxs.mapM (Index.hashInput g) = .ok (tm.idxs.map f) :=
    mapM_ok _ f tm.idxs (fun i hi => Index.hashInput_live g i (hlive i hi))
  rw [hashWith_eq H g tm _ hm, hcols]
  unfold TableSpec.hashOf
  congr 1
  apply tableHashOf_perm H (List.Perm.refl _)
  -- the key record first, then the others
  have hsplit : (tm.idxs.map f).Perm ((tm.idxs.filter (fun i => i.name == pkName)).map f ++
      (tm.idxs.filter (fun i => !(i.name == pkName))).map f) := by
    rw [← List.map_append]
    exact (List.filter_append_perm (fun i : Index => i.name == pkName) tm.idxs).symm.map f
  refine hsplit.trans ?_
  have hrest : (tm.idxs.filter (fun i => !(i.name == pkName))).map f = tb.idxs.map (IdxSpec.hashInput g) := by
    rw [← hidx]
    unfold idxSpecOf
    rw [List.map_map]
    have : (fun i : Index => !(i.name == pkName)) = (fun i : Index => i.name != pkName) := rfl
    rw [this]
    apply List.map_congr_left
    intro i hi
    have hne := (List.mem_filter.mp hi).2
    have : (i.name == pkName) = false := by simpa using hne
    show (if i.name == pkName then _ else _) = _
    rw [this]; rfl
  have hkey : (tm.idxs.filter (fun i => i.name == pkName)).map f = (if tb.pk = [] then [] else [pkHashInput g tb.pk]) := by
    rw [filter_name_nodup (fun i : Index => i.name) pkName tm.idxs hndi, ← hpk]
    unfold pkOf
    cases hf : tm.idxs.find? (fun i => i.name == pkName) with
    | none => simp
    | some i =>
      have hi : i ∈ tm.idxs := List.mem_of_find?_eq_some hf
      have hin : (i.name == pkName) = true := by simpa using List.find?_some hf
      have hne := (hlive i hi).ne
      simp only [Option.toList, List.map_cons, List.map_nil, Option.map_some, Option.getD_some]
      rw [if_neg hne]
      show [if i.name == pkName then _ else _] = _
      rw [hin]; rfl
  rw [hrest, hkey]

/-- **C07 from scripts: `HashValue` is a function of the reference schema.**  For every script of the element-safe
    vocabulary without inline PRIMARY KEY that the reference engine accepts (MySQL reader model; any `H`, `F` for md5,
    any dialect templates and keyword-case option in `g`), the value computed for the loaded model is `DB.hashOf` of
    the schema the script describes. -/
theorem hash_of_schema (H : String → String) (F : String → Int) (g : Globals) (rc : Bool) (ss : List Stmt) (db : DB)
    (hs : ss.all Stmt.elemSafe = true) (ht : ss.all Stmt.tablePk = true) (he : execAll rc [] ss = some db) :
    ∃ m, ReaderMysql.run {} ss = .ok m ∧ m.hashWith H F g = .ok (db.hashOf H F g) := by
  obtain ⟨m, hm, hr, hx, hk⟩ := ReaderMysql.run_pk rc ss {} [] db Rel.empty ElemsOK.empty PkOK.empty hs ht he
  refine ⟨m, hm, ?_⟩
  -- every loaded table has the digest of its reference table
  let hashOfName : String → String := fun n => match db.find n with
    | some tb => tb.hashOf H g
    | none => ""
  have htab : ∀ tm ∈ m.tables, tm.hashWith H g = .ok (hashOfName tm.name) := by
    intro tm htm
    have hin : tm.name ∈ db.map (·.name) := by
      rw [hr.names]; exact List.mem_map_of_mem (f := fun t : Table => t.name) htm
    obtain ⟨tb, htb, hn⟩ := List.mem_map.mp hin
    obtain ⟨k, hk'⟩ := List.mem_iff_getElem?.mp htb
    have hf : db.find tm.name = some tb := by rw [← hn]; exact find_of_getElem db hr.nodup k tb hk'
    obtain ⟨id, tm', _, hm', hd, hnm, hcn, _, hty⟩ := hr.lookup hf
    have : tm' = tm := eq_of_name_nodup (fun t : Table => t.name) hr.inv.tbls.nodup (List.mem_of_getElem? hm') htm hnm
    subst this
    have hraw := Migration.raws_getElem m hm'
    obtain ⟨hvi, _⟩ := hx.at_ hraw hd
    obtain ⟨hlive, _⟩ := hx.fresh _ (List.mem_of_getElem? hraw)
    have hpk := hk.at_ hraw hd
    have hndc : tb.colNames.Nodup := by rw [← hcn]; exact (hr.inv.each tm' htm).cols.nodup
    show tm'.hashWith H g = .ok (match db.find tm'.name with | some tb => tb.hashOf H g | none => "")
    rw [hf]
    exact Table.hashWith_spec H g tm' tb hcn hndc hty hlive hvi hpk (hr.inv.each tm' htm).idxs.nodup
  have hmap : m.tables.mapM (Table.hashWith H g) = .ok (db.map (TableSpec.hashOf H g)) := by
    rw [mapM_ok _ (fun tm => hashOfName tm.name) m.tables htab]
    congr 1
    have h1 : m.tables.map (fun tm => hashOfName tm.name) = (m.tables.map (·.name)).map hashOfName := by
      rw [List.map_map]; rfl
    have h2 : m.tables.map (·.name) = db.map (·.name) := hr.names.symm
    rw [h1, h2, List.map_map]
    apply List.map_congr_left
    intro tb htb
    obtain ⟨k, hk'⟩ := List.mem_iff_getElem?.mp htb
    have hf : db.find tb.name = some tb := find_of_getElem db hr.nodup k tb hk'
    show (match db.find tb.name with | some tb => tb.hashOf H g | none => "") = _
    rw [hf]
  have hemp : m.tables.isEmpty = db.isEmpty := by
    have := hr.length_eq
    cases hdb : db with
    | nil => rw [hdb] at this; cases hmt : m.tables with
      | nil => rfl
      | cons _ _ => rw [hmt] at this; cases this
    | cons _ _ => rw [hdb] at this; cases hmt : m.tables with
      | nil => rw [hmt] at this; cases this
      | cons _ _ => rfl
  unfold Migration.hashWith DB.hashOf
  rw [hemp]
  split
  · rfl
  · simp only [hmap, bind, Except.bind, pure, Except.pure]

/-- the digest of a reference table does not see the order of its columns or indexes, nor the options of a column -/
theorem TableSpec.hashOf_congr (H : String → String) (g : Globals) (a b : TableSpec)
    (hc : (a.cols.map (fun c => (c.name, c.typ))).Perm (b.cols.map (fun c => (c.name, c.typ))))
    (hi : a.idxs.Perm b.idxs) (hp : a.pk = b.pk) : a.hashOf H g = b.hashOf H g := by
  unfold TableSpec.hashOf
  apply tableHashOf_perm H
  · have : ∀ l : List ColSpec, l.map (ColSpec.hashInput g) = (l.map (fun c => (c.name, c.typ))).map (fun p => g.esc p.1 ++ " " ++ p.2) := by
      intro l; rw [List.map_map]; rfl
    rw [this, this]
    exact hc.map _
  · rw [hp]
    exact (List.Perm.refl _).append (hi.map _)

/-- **same schema ⇒ same value, from scripts**: two scripts of any length, written any way (column order, index order,
    column options, ALTER histories, elements created and dropped again, keyword case option) whose reference schemas
    list tables that agree position by position on the columns' names and types, the indexes and the primary key — the
    table *names* do not enter the digest — have the same `HashValue`. -/
theorem same_schema_same_value (H : String → String) (F : String → Int) (g : Globals) (rc : Bool)
    (A B : List Stmt) (dbA dbB : DB)
    (hA : A.all Stmt.elemSafe = true) (hB : B.all Stmt.elemSafe = true)
    (htA : A.all Stmt.tablePk = true) (htB : B.all Stmt.tablePk = true)
    (heA : execAll rc [] A = some dbA) (heB : execAll rc [] B = some dbB)
    (hlen : dbA.length = dbB.length)
    (hsame : ∀ (i : Nat) (a b : TableSpec), dbA[i]? = some a → dbB[i]? = some b →
      (a.cols.map (fun c => (c.name, c.typ))).Perm (b.cols.map (fun c => (c.name, c.typ))) ∧ a.idxs.Perm b.idxs ∧ a.pk = b.pk) :
    ∃ mA mB v, ReaderMysql.run {} A = .ok mA ∧ ReaderMysql.run {} B = .ok mB ∧
      mA.hashWith H F g = .ok v ∧ mB.hashWith H F { g with lower := !g.lower } = .ok v := by
  obtain ⟨mA, hmA, hvA⟩ := hash_of_schema H F g rc A dbA hA htA heA
  obtain ⟨mB, hmB, hvB⟩ := hash_of_schema H F { g with lower := !g.lower } rc B dbB hB htB heB
  refine ⟨mA, mB, _, hmA, hmB, hvA, ?_⟩
  rw [hvB]
  congr 1
  have hmapeq : dbB.map (TableSpec.hashOf H { g with lower := !g.lower }) = dbA.map (TableSpec.hashOf H g) := by
    apply List.ext_getElem?
    intro i
    rw [List.getElem?_map, List.getElem?_map]
    cases hb : dbB[i]? with
    | none =>
      have : dbA[i]? = none := by
        rw [List.getElem?_eq_none_iff] at hb ⊢
        omega
      rw [this]; rfl
    | some b =>
      have hlt : i < dbA.length := by
        have := (List.getElem?_eq_some_iff.mp hb).1
        omega
      have ha : dbA[i]? = some dbA[i] := List.getElem?_eq_getElem hlt
      rw [ha]
      simp only [Option.map_some]
      congr 1
      obtain ⟨h1, h2, h3⟩ := hsame i dbA[i] b ha hb
      have hcase : ∀ tb : TableSpec, tb.hashOf H { g with lower := !g.lower } = tb.hashOf H g := by
        intro tb
        unfold TableSpec.hashOf ColSpec.hashInput IdxSpec.hashInput pkHashInput Globals.esc
        rfl
      rw [hcase b]
      exact (TableSpec.hashOf_congr H g dbA[i] b h1 h2 h3).symm
  unfold DB.hashOf
  have hemp : dbB.isEmpty = dbA.isEmpty := by
    cases dbA <;> cases dbB <;> simp_all
  rw [hemp, hmapeq]

end Sqlize
