/-
  Proofs/EndToEndFk.lean — the foreign-key clause with dropped columns, from scripts to printed statements.
-/
import SqlizeModel.Proofs.EndToEndElems
import SqlizeModel.Proofs.FkRefine

namespace Sqlize
open Spec

/-- **C01, foreign-key clause with dropped columns, end to end** (MySQL reader model).  For two scripts the reference
    engine accepts and a table present on both sides, `MigrationForeignKeyUp` of the diffed record — whatever
    dropped-column list it is called with — prints exactly `Abs.Idx.emitKeepSup` of the reference engine's two key lists,
    every statement an ADD / DROP of a key of that table. -/
theorem fks_with_drops_end_to_end (g : Globals) (hg : g.dialect = .mysql) (rc : Bool)
    (old new : List Stmt) (dbO dbN : DB) (ho : old.all Stmt.elemSafe = true) (hn : new.all Stmt.elemSafe = true)
    (heo : execAll rc [] old = some dbO) (hen : execAll rc [] new = some dbN)
    (d : Migration) (hd : loadAndDiff g old new = .ok d)
    (t : String) (tbO tbN : TableSpec) (hfo : dbO.find t = some tbO) (hfn : dbN.find t = some tbN) :
    ∃ td ∈ d.tables, td.name = t ∧ td.action = .none ∧
      (∀ dc, (td.migrationForeignKeyUp dc).filterMap fkStmt = Abs.Idx.emitKeepSup dc tbN.fks tbO.fks ∧
        ∀ s ∈ td.migrationForeignKeyUp dc, s.table = t ∧ (fkStmt s).isSome = true) ∧
      (Abs.Idx.names tbN.fks).Nodup ∧ (Abs.Idx.names tbO.fks).Nodup := by
  -- both sides loaded: related to their reference schemas, slices included
  unfold loadAndDiff at hd
  obtain ⟨o, hlo, hd⟩ := bind_ok hd
  obtain ⟨n, hln, hd⟩ := bind_ok hd
  obtain ⟨mo, hmo', hro, heo'⟩ := ReaderMysql.run_elems rc old {} [] dbO Rel.empty ElemsOK.empty ho heo
  obtain ⟨mn, hmn', hrn, hen'⟩ := ReaderMysql.run_elems rc new {} [] dbN Rel.empty ElemsOK.empty hn hen
  have : mo = o := by
    have : readScript g {} old = .ok mo := by unfold readScript; rw [hg]; exact hmo'
    rw [this] at hlo; exact Except.ok.inj hlo
  subst this
  have : mn = n := by
    have : readScript g {} new = .ok mn := by unfold readScript; rw [hg]; exact hmn'
    rw [this] at hln; exact Except.ok.inj hln
  subst this
  obtain ⟨io, to, hgo, hmo, hdo, hnmo, _, _, _⟩ := hro.lookup hfo
  obtain ⟨i, tn, _, hmn, hdn, hnmn, _, _, _⟩ := hrn.lookup hfn
  have hmemo := List.mem_of_getElem? hmo
  have hmemn := List.mem_of_getElem? hmn
  -- `Migration.Diff`
  unfold Migration.diff at hd
  obtain ⟨ts, h1, hd⟩ := bind_ok hd
  obtain ⟨td, htd, hspec⟩ := Migration.diffTables1_getElem g.dialect mo mn.tables ts i tn h1 hmn
  rw [hnmn, hgo] at hspec
  obtain ⟨ot, hot, hspec⟩ := hspec
  have : ot = to := by rw [hmo] at hot; exact (Option.some.inj hot).symm
  subst this
  have hex : ot.exists_ = true := by
    unfold Table.exists_; rw [(hro.fresh ot hmemo).2]; rfl
  rw [if_pos hex] at hspec
  obtain ⟨t1, ht1, htdeq⟩ := hspec
  obtain ⟨extra, hext⟩ := Migration.diffTables2_prefix mo.tables _ d hd
  have htd_mem : td ∈ d.tables := by
    rw [hext]; exact List.mem_append_left _ (List.mem_of_getElem? htd)
  have hi_n := hrn.inv.each tn hmemn
  have hi_o := hro.inv.each ot hmemo
  have hname : td.name = t := by
    have := Table.diff_inv g.dialect tn ot t1 hi_n hi_o (hrn.np tn hmemn) ht1
    rw [htdeq]; show t1.name = t; rw [this.2]; exact hnmn
  -- the slices of the two loaded tables are the reference lists, every record live
  have hrawn := Migration.raws_getElem mn hmn
  have hrawo := Migration.raws_getElem mo hmo
  obtain ⟨hvin, hvfn⟩ := hen'.at_ hrawn hdn
  obtain ⟨hvio, hvfo⟩ := heo'.at_ hrawo hdo
  have hvin : idxSpecOf tn.idxs = tbN.idxs := hvin
  have hvfn : fkSpecOf tn.fks = tbN.fks := hvfn
  have hvio : idxSpecOf ot.idxs = tbO.idxs := hvio
  have hvfo : fkSpecOf ot.fks = tbO.fks := hvfo
  obtain ⟨hlin, hlfn⟩ := hen'.fresh _ (List.mem_of_getElem? hrawn)
  obtain ⟨hlio, hlfo⟩ := heo'.fresh _ (List.mem_of_getElem? hrawo)
  have hfn' := (ReaderMysql.fresh_of_rel hrn hen').tables tn hmemn
  have hfo' := (ReaderMysql.fresh_of_rel hro heo').tables ot hmemo
  -- `Table.Diff` leaves the tagged slices
  obtain ⟨hidx, hfks⟩ := Table.diff_elems g.dialect tn ot t1 hi_n hi_o (hrn.np tn hmemn) hfn'.1 hfo'.1 ht1
  have htdi : td.idxs = t1.idxs := by rw [htdeq]
  have htdf : td.fks = t1.fks := by rw [htdeq]
  -- unique names on the reference side
  have hNn : (Abs.Idx.names tbN.idxs).Nodup := by
    rw [← hvin]
    show ((idxSpecOf tn.idxs).map (fun s : IdxSpec => s.name)).Nodup
    rw [idxSpecOf_names]
    exact hi_n.idxs.nodup.sublist List.filter_sublist
  have hOn : (Abs.Idx.names tbO.idxs).Nodup := by
    rw [← hvio]
    show ((idxSpecOf ot.idxs).map (fun s : IdxSpec => s.name)).Nodup
    rw [idxSpecOf_names]
    exact hi_o.idxs.nodup.sublist List.filter_sublist
  have hNf : (Abs.Idx.names tbN.fks).Nodup := by
    rw [← hvfn]
    show ((fkSpecOf tn.fks).map (fun s : FkSpec => s.name)).Nodup
    rw [fkSpecOf_names]
    exact hi_n.fks.nodup
  have hOf : (Abs.Idx.names tbO.fks).Nodup := by
    rw [← hvfo]
    show ((fkSpecOf ot.fks).map (fun s : FkSpec => s.name)).Nodup
    rw [fkSpecOf_names]
    exact hi_o.fks.nodup
  have hact : td.action = .none := by rw [htdeq]
  refine ⟨td, htd_mem, hname, hact, ?_, hNf, hOf⟩
  intro dc
  have hmig : td.migrationForeignKeyUp dc = Table.walkFk t true dc td.fks := by
    unfold Table.migrationForeignKeyUp
    rw [hact, hname]
  rw [hmig, htdf, hfks]
  refine ⟨?_, ?_⟩
  · have := Table.walkFk_refines_sup t dc tn ot hfn'.1.fks
    rw [hvfn, hvfo] at this
    exact this
  · intro s hs
    rw [Table.walkFk_sup] at hs
    obtain ⟨f, _, hsf⟩ := List.mem_flatMap.mp hs
    unfold Table.fkSupStmts at hsf
    split at hsf
    · cases hsf
    · unfold ForeignKey.migrationUp at hsf
      cases ha : f.action <;> rw [ha] at hsf <;> simp at hsf
      all_goals (rw [hsf]; exact ⟨rfl, rfl⟩)

end Sqlize
