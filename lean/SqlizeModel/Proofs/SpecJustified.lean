import SqlizeModel.Proofs.SpecTable
import SqlizeModel.Spec.Props

namespace Sqlize
open Spec

theorem col_find (db : DB) (t : String) (tb : TableSpec) (hf : db.find t = some tb) (n : String) :
    db.col t n = tb.cols.find? (·.name == n) := by
  unfold DB.col; rw [hf]; rfl

theorem col_none_of_not_mem (db : DB) (t : String) (tb : TableSpec) (hf : db.find t = some tb) (n : String)
    (h : n ∉ tb.colNames) : db.col t n = none := by
  rw [col_find db t tb hf]
  apply List.find?_eq_none.mpr
  intro x hx hxn
  exact h (List.mem_map.mpr ⟨x, hx, by simpa using hxn⟩)

theorem col_some_of_mem (db : DB) (t : String) (tb : TableSpec) (hf : db.find t = some tb) (hnd : tb.colNames.Nodup)
    (c : ColSpec) (hc : c ∈ tb.cols) : db.col t c.name = some c := by
  rw [col_find db t tb hf]
  exact find?_of_mem_nodup (fun x : ColSpec => x.name) tb.cols c hnd hc

theorem idx_find (db : DB) (t : String) (tb : TableSpec) (hf : db.find t = some tb) (n : String) :
    db.idx t n = tb.idxs.find? (·.name == n) := by
  unfold DB.idx; rw [hf]; rfl

theorem idx_some_of_mem (db : DB) (t : String) (tb : TableSpec) (hf : db.find t = some tb)
    (hnd : (tb.idxs.map (·.name)).Nodup) (i : IdxSpec) (hi : i ∈ tb.idxs) : db.idx t i.name = some i := by
  rw [idx_find db t tb hf]
  exact find?_of_mem_nodup (fun x : IdxSpec => x.name) tb.idxs i hnd hi

theorem idx_none_of_not_mem (db : DB) (t : String) (tb : TableSpec) (hf : db.find t = some tb) (n : String)
    (h : n ∉ tb.idxs.map (·.name)) : db.idx t n = none := by
  rw [idx_find db t tb hf]
  apply List.find?_eq_none.mpr
  intro x hx hxn
  exact h (List.mem_map.mpr ⟨x, hx, by simpa using hxn⟩)

/-- what the members of `emitSup` say about the two index lists -/
theorem emitSup_create (D : List String) (N O : List IdxSpec) (i : IdxSpec)
    (h : Abs.Idx.IStmt.create i ∈ Abs.Idx.emitSup D N O) :
    i ∈ N ∧ O.find? (fun y => y.name == i.name) ≠ some i := by
  refine ⟨create_mem_emitSup D N O i h, ?_⟩
  unfold Abs.Idx.emitSup at h
  rcases List.mem_append.mp h with h1 | h1
  · obtain ⟨s, hs, hm⟩ := List.mem_flatMap.mp h1
    unfold Abs.Idx.emitOne at hm
    split at hm
    · rename_i hnone
      have : i = s := by simpa using hm
      rw [this]
      have hnone : O.find? (fun y => y.name == s.name) = none := hnone
      rw [hnone]; simp
    · rename_i o hsome
      split at hm
      · cases hm
      · rename_i hne
        have : i = s := by simpa using hm
        rw [this]
        have hsome : O.find? (fun y => y.name == s.name) = some o := hsome
        rw [hsome]
        intro e
        exact hne (Option.some.inj e)
  · obtain ⟨o, _, ho⟩ := List.mem_map.mp h1
    cases ho

theorem emitSup_drop (D : List String) (N O : List IdxSpec) (n : String)
    (h : Abs.Idx.IStmt.drop n ∈ Abs.Idx.emitSup D N O) :
    (∃ s ∈ N, s.name = n ∧ ∃ o, O.find? (fun y => y.name == n) = some o ∧ o ≠ s) ∨
    (∃ o ∈ O, o.name = n ∧ n ∉ N.map (·.name)) := by
  unfold Abs.Idx.emitSup at h
  rcases List.mem_append.mp h with h1 | h1
  · left
    obtain ⟨s, hs, hm⟩ := List.mem_flatMap.mp h1
    unfold Abs.Idx.emitOne at hm
    split at hm
    · simp at hm
    · rename_i o hsome
      split at hm
      · cases hm
      · rename_i hne
        have hn : n = s.name := by
          rcases List.mem_cons.mp hm with e | e
          · injection e
          · simp at e
        have hsome : O.find? (fun y => y.name == s.name) = some o := hsome
        exact ⟨s, hs, hn.symm, o, by rw [hn]; exact hsome, hne⟩
  · right
    obtain ⟨o, ho, he⟩ := List.mem_map.mp h1
    have hn : o.name = n := by injection he
    obtain ⟨hoO, hcond⟩ := List.mem_filter.mp ho
    refine ⟨o, hoO, hn, ?_⟩
    simp only [Bool.and_eq_true, Bool.not_eq_true', Bool.not_eq_eq_eq_not] at hcond
    rw [← hn]
    have := hcond.1
    simpa [Abs.Idx.names] using this

/-- **C01, second half, for a table both sides have**: every column and index statement printed for it acts on an
    element that differs between the two reference schemas -/
theorem table_stmts_justified (g : Globals) (hg : g.dialect = .mysql) (hio : g.ignoreOrder = false) (rc : Bool)
    (old new : List Stmt) (dbO dbN : DB) (ho : old.all Stmt.elemSafe = true) (hn : new.all Stmt.elemSafe = true)
    (hpo : old.all Stmt.plainOpts = true) (hpn : new.all Stmt.plainOpts = true)
    (heo : execAll rc [] old = some dbO) (hen : execAll rc [] new = some dbN)
    (d : Migration) (hd : loadAndDiff g old new = .ok d)
    (t : String) (tbO tbN : TableSpec) (hfo : dbO.find t = some tbO) (hfn : dbN.find t = some tbN)
    (hne : ∀ n ∈ tbN.colNames ++ tbO.colNames, n ≠ "") (hpk : tbO.pk = tbN.pk) :
    ∃ td ∈ d.tables, td.name = t ∧
      ∃ cs dc is, td.migrationColumnUp g = .ok (cs, dc) ∧ td.migrationIndexUp g dc = .ok is ∧
        ∀ s ∈ cs ++ is, justified dbO dbN s = true := by
  have hoc : old.all Stmt.colSafe = true :=
    List.all_eq_true.mpr (fun s hs => Stmt.colSafe_of_elemSafe s (List.all_eq_true.mp ho s hs))
  have hnc : new.all Stmt.colSafe = true :=
    List.all_eq_true.mpr (fun s hs => Stmt.colSafe_of_elemSafe s (List.all_eq_true.mp hn s hs))
  have hto : old.all Stmt.tablePk = true :=
    List.all_eq_true.mpr (fun s hs => ReaderMysql.tablePk_of_plainOpts s (List.all_eq_true.mp hpo s hs))
  have htn : new.all Stmt.tablePk = true :=
    List.all_eq_true.mpr (fun s hs => ReaderMysql.tablePk_of_plainOpts s (List.all_eq_true.mp hpn s hs))
  have hdInv : d.Inv := by
    have hd' := hd
    unfold loadAndDiff at hd'
    obtain ⟨o, hlo, hd'⟩ := bind_ok hd'
    obtain ⟨n, hln, hd'⟩ := bind_ok hd'
    obtain ⟨mo', hmo', hro'⟩ := ReaderMysql.run_rel rc old {} [] dbO Rel.empty hoc heo
    obtain ⟨mn, hmn', hrn⟩ := ReaderMysql.run_rel rc new {} [] dbN Rel.empty hnc hen
    have : mo' = o := by
      have : readScript g {} old = .ok mo' := by unfold readScript; rw [hg]; exact hmo'
      rw [this] at hlo; exact Except.ok.inj hlo
    subst this
    have : mn = n := by
      have : readScript g {} new = .ok mn := by unfold readScript; rw [hg]; exact hmn'
      rw [this] at hln; exact Except.ok.inj hln
    subst this
    exact Migration.diff_inv g.dialect mn mo' d hrn.inv hro'.inv hrn.np hd'
  obtain ⟨td, htd, hname, hact, _, habs, hsimple, _, hndtd, hNnd, hOnd⟩ :=
    diffed_record g hg rc old new dbO dbN hoc hnc heo hen d hd t tbO tbN hfo hfn hne
  have huniq : ∀ td' ∈ d.tables, td'.name = t → td' = td := fun td' h1 h2 =>
    eq_of_name_nodup (fun x : Table => x.name) hdInv.tbls.nodup h1 htd (h2.trans hname.symm)
  obtain ⟨td2, h21, h22, _, cs, dc, is, hcs, his, _, hproj, _, hcs', _, hshape, hNi, hOi⟩ :=
    indexes_with_drops_end_to_end' g hg hio rc old new dbO dbN ho hn heo hen d hd t tbO tbN hfo hfn hne
  have e2 := huniq td2 h21 h22
  subst e2
  obtain ⟨td3, h31, h32, _, hnopk⟩ := equal_pk_untouched g hg rc old new dbO dbN ho hn hto htn heo hen d hd t tbO tbN hfo hfn hpk
  have e3 := huniq td3 h31 h32
  subst e3
  refine ⟨td3, htd, hname, cs, dc, is, hcs, his, ?_⟩
  -- the tag of a record says where its column is
  have htag : ∀ c ∈ td3.cols, Abs.tagOf tbN.colNames tbO.colNames c.name = tagOfAction c.action ∧
      (c.name ∈ tbN.colNames ∨ c.name ∈ tbO.colNames) := by
    intro c hc
    have hm : (c.name, tagOfAction c.action) ∈ absCols td3.cols := List.mem_map_of_mem hc
    rw [habs] at hm
    obtain ⟨x, hx, he⟩ := List.mem_map.mp hm
    have hx1 : x = c.name := (Prod.mk.inj he).1
    have hx2 : Abs.tagOf tbN.colNames tbO.colNames x = tagOfAction c.action := (Prod.mk.inj he).2
    rw [hx1] at hx2 hx
    exact ⟨hx2, Abs.mem_merge hx⟩
  intro s hs
  rcases List.mem_append.mp hs with hsc | hsi
  · -- a column statement
    rw [hcs'] at hsc
    obtain ⟨c, hc, hca, after, hsc'⟩ := Table.walkCols_shape g t td3.cols [] s hsc
    obtain ⟨htg, hwhere⟩ := htag c hc
    unfold Abs.tagOf at htg
    rcases hsimple c hc with h | h | h | h
    · exact absurd h hca
    · -- ADD COLUMN: the new side has the column, the old side does not
      simp only [Column.migrationUpAlter, h, List.mem_singleton] at hsc'
      rw [h] at htg
      have hinN : c.name ∈ tbN.colNames := by
        by_cases h1 : c.name ∈ tbN.colNames
        · exact h1
        · rw [if_neg h1] at htg; cases htg
      rw [if_pos hinN] at htg
      have hnotO : c.name ∉ tbO.colNames := by
        intro h2; rw [if_pos h2] at htg; cases htg
      rw [hsc']
      show ((dbO.col t c.name).isNone && (dbN.col t c.name).isSome) = true
      rw [col_none_of_not_mem dbO t tbO hfo _ hnotO]
      obtain ⟨cN, hcN, hcNn⟩ := List.mem_map.mp hinN
      rw [← hcNn, col_some_of_mem dbN t tbN hfn hNnd cN hcN]
      rfl
    · -- DROP COLUMN
      simp only [Column.migrationUpAlter, h, hg] at hsc'
      have hs' : s = .dropColumn t c.name := by simpa using hsc'
      rw [h] at htg
      have hnotN : c.name ∉ tbN.colNames := by
        intro h1; rw [if_pos h1] at htg
        split at htg <;> cases htg
      have hinO : c.name ∈ tbO.colNames := by
        rcases hwhere with h1 | h1
        · exact absurd h1 hnotN
        · exact h1
      rw [hs']
      show ((dbO.col t c.name).isSome && (dbN.col t c.name).isNone) = true
      rw [col_none_of_not_mem dbN t tbN hfn _ hnotN]
      obtain ⟨cO, hcO, hcOn⟩ := List.mem_map.mp hinO
      rw [← hcOn, col_some_of_mem dbO t tbO hfo hOnd cO hcO]
      rfl
    · -- MODIFY COLUMN: the two sides differ on that column
      simp only [Column.migrationUpAlter, h, List.mem_singleton] at hsc'
      rw [h] at htg
      have hinN : c.name ∈ tbN.colNames := by
        by_cases h1 : c.name ∈ tbN.colNames
        · exact h1
        · rw [if_neg h1] at htg; cases htg
      rw [if_pos hinN] at htg
      have hinO : c.name ∈ tbO.colNames := by
        by_cases h2 : c.name ∈ tbO.colNames
        · exact h2
        · rw [if_neg h2] at htg; cases htg
      obtain ⟨cN, hcN, hcNn⟩ := List.mem_map.mp hinN
      obtain ⟨cO, hcO, hcOn⟩ := List.mem_map.mp hinO
      rw [hsc']
      show (!optColEquiv (dbO.col t c.name) (dbN.col t c.name) ||
        (dbO.pk t).contains c.name != (dbN.pk t).contains c.name) = true
      have h1 : dbO.col t c.name = some cO := by rw [← hcOn]; exact col_some_of_mem dbO t tbO hfo hOnd cO hcO
      have h2 : dbN.col t c.name = some cN := by rw [← hcNn]; exact col_some_of_mem dbN t tbN hfn hNnd cN hcN
      rw [h1, h2]
      have hneq : cO.equiv cN = false := by
        cases heq : cO.equiv cN with
        | false => rfl
        | true =>
          exfalso
          unfold ColSpec.equiv at heq
          simp only [Bool.and_eq_true, beq_iff_eq] at heq
          obtain ⟨td', htd', hn', _, hno⟩ := equal_column_untouched g hg rc old new dbO dbN ho hn hpo hpn heo hen d hd t tbO tbN hfo hfn
            cN cO hcN hcO heq.1.1 heq.1.2 (permEq_perm _ _ heq.2)
          rw [huniq td' htd' hn'] at hno
          exact hno true s hsc (by rw [hsc']; show some c.name = some cN.name; rw [hcNn])
      simp [optColEquiv, hneq]
  · -- an index statement
    obtain ⟨ss', hw', hnp⟩ := hnopk dc
    have his' : td3.migrationIndexUp g dc = .ok ss' := by
      unfold Table.migrationIndexUp; rw [hact, hname]; exact hw'
    rw [his] at his'
    have hiss : is = ss' := Except.ok.inj his'
    subst hiss
    obtain ⟨ht', hkind⟩ := hshape s hsi
    rcases hkind with ⟨cols, rfl⟩ | rfl | hsome
    · have := hnp _ hsi; simp [pkStmt] at this
    · have := hnp _ hsi; simp [pkStmt] at this
    · obtain ⟨a, ha⟩ := Option.isSome_iff_exists.mp hsome
      have hmem : a ∈ Abs.Idx.emitSup dc tbN.idxs tbO.idxs := by
        rw [← hproj]; exact List.mem_filterMap.mpr ⟨s, hsi, ha⟩
      cases s with
      | createIndex t2 name cols uniq u =>
        have ht2 : t2 = t := ht'
        subst ht2
        have hae : a = .create { name := name, cols := cols, unique := uniq, itype := Table.normIdxType u } := by
          simpa [idxStmt] using ha.symm
        subst hae
        obtain ⟨hiN, hneO⟩ := emitSup_create _ _ _ _ hmem
        show (dbO.idx t2 name != dbN.idx t2 name) = true
        rw [idx_find dbO t2 tbO hfo]
        have hb := idx_some_of_mem dbN t2 tbN hfn hNi _ hiN
        simp only at hb
        rw [hb]
        simpa using hneO
      | dropIndex t2 name =>
        have ht2 : t2 = t := ht'
        subst ht2
        have hae : a = .drop name := by simpa [idxStmt] using ha.symm
        subst hae
        show (dbO.idx t2 name != dbN.idx t2 name) = true
        rcases emitSup_drop _ _ _ _ hmem with ⟨s', hs', hsn, o, hfo', hne'⟩ | ⟨o, hoO, hon, hnotN⟩
        · rw [idx_find dbO t2 tbO hfo, hfo']
          have hb := idx_some_of_mem dbN t2 tbN hfn hNi s' hs'
          rw [hsn] at hb
          rw [hb]
          simpa using hne'
        · have ha' := idx_some_of_mem dbO t2 tbO hfo hOi o hoO
          rw [hon] at ha'
          rw [ha', idx_none_of_not_mem dbN t2 tbN hfn name hnotN]
          rfl
      | _ => simp [idxStmt] at ha

end Sqlize
