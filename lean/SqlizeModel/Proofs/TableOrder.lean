/-
  Proofs/TableOrder.lean — the order in which the tables of a schema are listed after a migration.  `Migration.Diff`
  leaves the new side's tables in the new side's order, then the old-only tables tagged `remove`; the printer walks them in
  that order: a common table stays where it is, a created one goes to the end, a dropped one leaves.  `namesAfter O N`
  is the resulting list of names; `foldl_stepNames` computes it.  (The fingerprint `HashValue` depends on the order of the
  tables — C07 says "the same tables in the same order" —, so the fingerprint clause of C04 needs it.)
-/
namespace Sqlize

/-- what one table group does to the list of table names (`O`, `N`: the names of the old and the new schema) -/
def stepNames (O N : List String) (t : String) (l : List String) : List String :=
  if N.contains t then (if O.contains t then l else l ++ [t]) else l.filter (· != t)

/-- the table names after the up migration: the old tables the new side keeps, in the old order, then the new ones in
    the new side's order -/
def namesAfter (O N : List String) : List String :=
  O.filter (fun n => N.contains n) ++ N.filter (fun n => !O.contains n)

theorem foldl_stepNames_new (O N : List String) : ∀ (N' acc : List String), (∀ t ∈ N', N.contains t = true) →
    N'.foldl (fun l t => stepNames O N t l) (O ++ acc) = O ++ acc ++ N'.filter (fun n => !O.contains n) := by
  intro N'
  induction N' with
  | nil => intro acc _; simp
  | cons t r ih =>
    intro acc h
    have ht := h t (by simp)
    rw [List.foldl_cons, List.filter_cons]
    cases ho : O.contains t with
    | true =>
      have hstep : stepNames O N t (O ++ acc) = O ++ acc := by
        unfold stepNames; rw [if_pos ht, if_pos ho]
      rw [hstep]
      simp only [Bool.not_true, Bool.false_eq_true, if_false]
      exact ih acc (fun x hx => h x (List.mem_cons_of_mem _ hx))
    | false =>
      have hstep : stepNames O N t (O ++ acc) = O ++ (acc ++ [t]) := by
        unfold stepNames; rw [if_pos ht, ho]; simp
      rw [hstep]
      simp only [Bool.not_false, if_true]
      rw [ih (acc ++ [t]) (fun x hx => h x (List.mem_cons_of_mem _ hx))]
      simp

theorem foldl_stepNames_old (O N : List String) : ∀ (R L : List String), (∀ t ∈ R, N.contains t = false) →
    R.foldl (fun l t => stepNames O N t l) L = L.filter (fun x => !R.contains x) := by
  intro R
  induction R with
  | nil => intro L _; exact (List.filter_eq_self.mpr (fun _ _ => rfl)).symm
  | cons t r ih =>
    intro L h
    have ht := h t (by simp)
    rw [List.foldl_cons]
    have : stepNames O N t L = L.filter (· != t) := by
      unfold stepNames; rw [ht]; rfl
    rw [this, ih _ (fun x hx => h x (List.mem_cons_of_mem _ hx)), List.filter_filter]
    apply List.filter_congr
    intro x _
    rw [List.contains_cons]
    cases hxt : (x == t) <;> cases hr : r.contains x <;> simp [bne, hxt]

/-- **the table order after the up migration** -/
theorem foldl_stepNames (O N : List String) :
    (N ++ O.filter (fun n => !N.contains n)).foldl (fun l t => stepNames O N t l) O = namesAfter O N := by
  rw [List.foldl_append]
  have hA := foldl_stepNames_new O N N [] (fun t ht => by simpa using ht)
  rw [List.append_nil] at hA
  rw [hA, foldl_stepNames_old O N _ _ (fun t ht => by
    have := (List.mem_filter.mp ht).2
    simpa using this)]
  unfold namesAfter
  rw [List.filter_append]
  congr 1
  · apply List.filter_congr
    intro x hx
    cases hn : N.contains x with
    | true =>
      have : (O.filter (fun n => !N.contains n)).contains x = false := by
        cases hc : (O.filter (fun n => !N.contains n)).contains x with
        | false => rfl
        | true =>
          have hm : x ∈ O.filter (fun n => !N.contains n) := by simpa using hc
          have := (List.mem_filter.mp hm).2
          rw [hn] at this; cases this
      rw [this]; rfl
    | false =>
      have : (O.filter (fun n => !N.contains n)).contains x = true := by
        have hm : x ∈ O.filter (fun n => !N.contains n) := List.mem_filter.mpr ⟨hx, by rw [hn]; rfl⟩
        simpa using hm
      rw [this]; rfl
  · apply List.filter_eq_self.mpr
    intro x hx
    have hxN := (List.mem_filter.mp hx).1
    have hn : N.contains x = true := by simpa using hxN
    cases hc : (O.filter (fun n => !N.contains n)).contains x with
    | false => rfl
    | true =>
      have hm : x ∈ O.filter (fun n => !N.contains n) := by simpa using hc
      have := (List.mem_filter.mp hm).2
      rw [hn] at this; cases this

end Sqlize
