import SqlizeModel.Proofs.SpecWF

namespace Sqlize.Spec
open Sqlize

/-- the primary key of a table names columns of that table, each once -/
def TableSpec.PkIn (tb : TableSpec) : Prop := (∀ c ∈ tb.pk, c ∈ tb.colNames) ∧ tb.pk.Nodup

def DB.PkIn (db : DB) : Prop := ∀ tb ∈ db, tb.PkIn

theorem pkin_replace {db : DB} {tb' : TableSpec} (h : db.PkIn) (h' : tb'.PkIn) : (db.replace tb').PkIn := by
  intro x hx
  rcases mem_replace hx with rfl | hx'
  · exact h'
  · exact h x hx'

theorem pkin_of_superset {tb tb' : TableSpec} (h : tb.PkIn) (hp : tb'.pk = tb.pk)
    (hc : ∀ c ∈ tb.colNames, c ∈ tb'.colNames) : tb'.PkIn := by
  refine ⟨?_, by rw [hp]; exact h.2⟩
  intro c hcm
  rw [hp] at hcm
  exact hc c (h.1 c hcm)

theorem allNodup_nodup (l : List String) : allNodup l = true → l.Nodup := by
  induction l with
  | nil => intro _; exact List.nodup_nil
  | cons x r ih =>
    intro h
    unfold allNodup at h
    rw [Bool.and_eq_true] at h
    exact List.nodup_cons.mpr ⟨by simpa using h.1, ih h.2⟩

theorem exec_pkin (rc : Bool) {db db' : DB} (s : Stmt) (hs : s.colSafe = true) (h : db.PkIn)
    (he : exec rc db s = some db') : db'.PkIn := by
  cases s with
  | createTable t ident cols pk =>
    simp only [exec] at he
    split at he
    · cases he
    · split at he
      · cases he
      · split at he
        · cases he
        · split at he
          · cases he
          · have key : ∃ pk', db' = db ++ [{ name := t, cols := cols.map (fun c => (colOf c).1), pk := pk' }] ∧
                pk'.all ((cols.map colOf).map (·.1.name)).contains = true ∧ allNodup pk' = true := by
              split at he
              · split at he
                · cases he
                · rename_i hchk
                  simp only [Bool.or_eq_true, not_or, Bool.not_eq_true', Bool.not_eq_false, Bool.not_eq_true] at hchk
                  exact ⟨_, by simpa [List.map_map, Function.comp_def] using (Option.some.inj he).symm, by simpa using hchk.1, hchk.2⟩
              · split at he
                · cases he
                · rename_i hchk
                  simp only [Bool.or_eq_true, not_or, Bool.not_eq_true', Bool.not_eq_false, Bool.not_eq_true] at hchk
                  exact ⟨_, by simpa [List.map_map, Function.comp_def] using (Option.some.inj he).symm, by simpa using hchk.1, hchk.2⟩
            obtain ⟨pk', hdb, hall, hnd⟩ := key
            subst hdb
            intro x hx
            rcases List.mem_append.mp hx with hx' | hx'
            · exact h x hx'
            · have : x = _ := List.mem_singleton.mp hx'
              subst this
              refine ⟨?_, allNodup_nodup _ hnd⟩
              intro c hc
              have hc' := List.all_eq_true.mp hall c hc
              show c ∈ (cols.map (fun c => (colOf c).1)).map (·.name)
              have : c ∈ (List.map colOf cols).map (·.1.name) := by simpa using hc'
              simpa [List.map_map, Function.comp_def] using this
  | dropTable t =>
    simp only [exec] at he
    split at he
    · cases he
    · split at he
      · cases he
      · have := Option.some.inj he; subst this
        exact fun x hx => h x (List.mem_filter.mp hx).1
  | addColumn t c pos =>
    simp only [exec] at he
    obtain ⟨tb, hf, he⟩ := exec_find he
    have htb := h tb (mem_of_find hf)
    split at he
    · cases he
    · split at he
      · cases he
      · have fin : ∀ cols' : List ColSpec, (∀ x ∈ tb.cols, x ∈ cols') → (colOf c).1 ∈ cols' →
            TableSpec.PkIn { tb with cols := cols', pk := if (colOf c).2 = true then [c.name] else tb.pk } := by
          intro cols' hsup hnew
          refine ⟨?_, ?_⟩
          · intro x hx
            show x ∈ cols'.map (·.name)
            have hx : x ∈ (if (colOf c).2 = true then [c.name] else tb.pk) := hx
            split at hx
            · rw [List.mem_singleton.mp hx]
              exact List.mem_map.mpr ⟨(colOf c).1, hnew, rfl⟩
            · obtain ⟨y, hy, rfl⟩ := List.mem_map.mp (htb.1 x hx)
              exact List.mem_map_of_mem (hsup y hy)
          · show (if (colOf c).2 = true then [c.name] else tb.pk).Nodup
            split
            · exact List.nodup_cons.mpr ⟨by simp, List.nodup_nil⟩
            · exact htb.2
        cases pos with
        | none =>
          simp only at he
          have := Option.some.inj he; subst this
          exact pkin_replace h (fin _ (fun x hx => List.mem_append_left _ hx) (by simp))
        | first =>
          simp only at he
          have := Option.some.inj he; subst this
          exact pkin_replace h (fin _ (fun x hx => List.mem_cons_of_mem _ hx) (by simp))
        | after p =>
          simp only at he
          cases hia : insertAfter p (colOf c).1 tb.cols with
          | none => rw [hia] at he; cases he
          | some cols' =>
            rw [hia] at he
            simp only at he
            have := Option.some.inj he; subst this
            exact pkin_replace h (fin cols' (insertAfter_superset p _ tb.cols cols' hia)
              (ReaderMysql.insertAfter_mem p _ tb.cols cols' hia).1)
  | dropColumn t c =>
    simp only [exec] at he
    obtain ⟨tb, hf, he⟩ := exec_find he
    have htb := h tb (mem_of_find hf)
    split at he
    · cases he
    · split at he
      · cases he
      · have := Option.some.inj he; subst this
        refine pkin_replace h ⟨?_, htb.2.filter _⟩
        intro x hx
        have hx : x ∈ tb.pk.filter (· != c) := hx
        obtain ⟨hx1, hx2⟩ := List.mem_filter.mp hx
        show x ∈ (tb.cols.filter (·.name != c)).map (·.name)
        obtain ⟨y, hy, rfl⟩ := List.mem_map.mp (htb.1 x hx1)
        exact List.mem_map_of_mem (List.mem_filter.mpr ⟨hy, hx2⟩)
  | modifyColumn t c =>
    simp only [exec] at he
    obtain ⟨tb, hf, he⟩ := exec_find he
    have htb := h tb (mem_of_find hf)
    split at he
    · cases he
    · rename_i hcol
      split at he
      · cases he
      · have := Option.some.inj he; subst this
        refine pkin_replace h ?_
        have hnames : ∀ x ∈ tb.colNames, x ∈ (tb.cols.map (fun x => if x.name == c.name then (colOf c).1 else x)).map (·.name) := by
          intro x hx
          obtain ⟨y, hy, rfl⟩ := List.mem_map.mp hx
          rw [List.map_map]
          refine List.mem_map.mpr ⟨y, hy, ?_⟩
          simp only [Function.comp]
          split
          · rename_i hn
            have : y.name = c.name := by simpa using hn
            rw [this]; rfl
          · rfl
        refine ⟨?_, ?_⟩
        · intro x hx
          have hx : x ∈ (if (colOf c).2 = true then [c.name] else tb.pk) := hx
          split at hx
          · rw [List.mem_singleton.mp hx]
            have : tb.hasCol c.name = true := by simpa using hcol
            exact hnames _ ((ReaderMysql.hasCol_iff tb c.name).mp this)
          · exact hnames _ (htb.1 x hx)
        · show (if (colOf c).2 = true then [c.name] else tb.pk).Nodup
          split
          · exact List.nodup_cons.mpr ⟨by simp, List.nodup_nil⟩
          · exact htb.2
  | renameColumn t o n => simp [Stmt.colSafe] at hs
  | addPrimaryKey t cols =>
    simp only [exec] at he
    obtain ⟨tb, hf, he⟩ := exec_find he
    split at he
    · cases he
    · rename_i hchk
      have := Option.some.inj he; subst this
      simp only [Bool.or_eq_true, not_or, Bool.not_eq_true', Bool.not_eq_false, Bool.not_eq_true] at hchk
      refine pkin_replace h ⟨?_, allNodup_nodup _ hchk.2⟩
      intro x hx
      have hx : x ∈ cols := hx
      have := List.all_eq_true.mp hchk.1.2 x hx
      exact (ReaderMysql.hasCol_iff tb x).mp this
  | dropPrimaryKey t =>
    simp only [exec] at he
    obtain ⟨tb, hf, he⟩ := exec_find he
    split at he
    · cases he
    · have := Option.some.inj he; subst this
      refine pkin_replace h ⟨?_, List.nodup_nil⟩
      intro x hx
      cases hx
  | addFk t name col rt rc' =>
    simp only [exec] at he
    obtain ⟨tb, hf, he⟩ := exec_find he
    split at he
    · cases he
    · split at he
      · cases he
      · have := Option.some.inj he; subst this
        exact pkin_replace h (pkin_of_superset (h tb (mem_of_find hf)) rfl (fun x hx => hx))
  | dropFk t name =>
    simp only [exec] at he
    obtain ⟨tb, hf, he⟩ := exec_find he
    split at he
    · cases he
    · have := Option.some.inj he; subst this
      exact pkin_replace h (pkin_of_superset (h tb (mem_of_find hf)) rfl (fun x hx => hx))
  | renameIndex t o n => simp [Stmt.colSafe] at hs
  | createIndex t name cols uniq u =>
    simp only [exec] at he
    obtain ⟨tb, hf, he⟩ := exec_find he
    split at he
    · cases he
    · have := Option.some.inj he; subst this
      exact pkin_replace h (pkin_of_superset (h tb (mem_of_find hf)) rfl (fun x hx => hx))
  | dropIndex t name =>
    simp only [exec] at he
    obtain ⟨tb, hf, he⟩ := exec_find he
    split at he
    · cases he
    · have := Option.some.inj he; subst this
      exact pkin_replace h (pkin_of_superset (h tb (mem_of_find hf)) rfl (fun x hx => hx))
  | commentOn t c text => simp [Stmt.colSafe] at hs
  | alterType t c typ => simp [Stmt.colSafe] at hs
  | setDefault t c d => simp [Stmt.colSafe] at hs
  | dropNotNull t c => simp [Stmt.colSafe] at hs

theorem execAll_pkin (rc : Bool) (ss : List Stmt) : ∀ (db db' : DB), ss.all Stmt.colSafe = true → db.PkIn →
    execAll rc db ss = some db' → db'.PkIn := by
  induction ss with
  | nil => intro db db' _ h he; unfold execAll at he; exact (Option.some.inj he) ▸ h
  | cons s rest ih =>
    intro db db' hs h he
    simp only [List.all_cons, Bool.and_eq_true] at hs
    unfold execAll at he
    cases h1 : exec rc db s with
    | none => rw [h1] at he; cases he
    | some db1 =>
      rw [h1] at he
      exact ih db1 db' hs.2 (exec_pkin rc s hs.1 h h1) he

theorem pkin_empty : DB.PkIn [] := by intro tb h; cases h

end Sqlize.Spec
