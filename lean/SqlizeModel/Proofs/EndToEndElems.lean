/-
  Proofs/EndToEndElems.lean — the index and foreign-key clauses of C01, from scripts to printed statements on the
  implementation model: reader fidelity on the two slices (Proofs/FidelityElems.lean), the slices `Table.Diff` leaves
  (Proofs/DiffElems.lean), the walks' refinement (Proofs/IdxRefine.lean) and the abstract correctness (Abs/Idx.lean).
-/
import SqlizeModel.Proofs.IdxRefine
import SqlizeModel.Proofs.FidelityElems
import SqlizeModel.Proofs.EndToEnd
import SqlizeModel.Proofs.SpecWF

namespace Sqlize
open Spec

/-- **C01, index and foreign-key clauses, end to end** (MySQL reader model).  For two scripts of any length over the
    vocabulary of `Stmt.elemSafe` that the reference engine accepts, and a table present on both sides, the record
    `Migration.Diff` leaves for it has no action of its own and

    * the CREATE / DROP INDEX statements its index walk prints (no column dropped), executed on the reference engine's
      *old* index list, are well-formed at every step and give the reference engine's *new* index list up to order;
    * if no foreign key found on both sides differs, the ADD / DROP foreign-key statements its foreign-key walk prints,
      executed on the old foreign-key list, are well-formed at every step and give the new list up to order. -/
theorem elems_end_to_end (g : Globals) (hg : g.dialect = .mysql) (rc : Bool)
    (old new : List Stmt) (dbO dbN : DB) (ho : old.all Stmt.elemSafe = true) (hn : new.all Stmt.elemSafe = true)
    (heo : execAll rc [] old = some dbO) (hen : execAll rc [] new = some dbN)
    (d : Migration) (hd : loadAndDiff g old new = .ok d)
    (t : String) (tbO tbN : TableSpec) (hfo : dbO.find t = some tbO) (hfn : dbN.find t = some tbN) :
    ∃ td ∈ d.tables, td.name = t ∧ td.action = .none ∧
      (∃ ss, Table.walkIdx g t true [] td.idxs = .ok ss ∧
        ss.filterMap idxStmt = Abs.Idx.emit tbN.idxs tbO.idxs ∧
        ∃ R, Abs.Idx.execAll tbO.idxs (ss.filterMap idxStmt) = some R ∧ R.Perm tbN.idxs) ∧
      ((Table.walkFk t true [] td.fks).filterMap fkStmt = Abs.Idx.emitKeep tbN.fks tbO.fks ∧
        ((∀ s ∈ tbN.fks, ∀ o ∈ tbO.fks, s.name = o.name → s = o) →
          ∃ R, Abs.Idx.execAll tbO.fks ((Table.walkFk t true [] td.fks).filterMap fkStmt) = some R ∧ R.Perm tbN.fks)) ∧
      -- the down direction (C02): from the new lists back to the old ones
      (∃ ss, Table.walkIdx g t false [] td.idxs = .ok ss ∧
        ss.filterMap idxStmt = Abs.Idx.emitDown tbN.idxs tbO.idxs ∧
        ∃ R, Abs.Idx.execAll tbN.idxs (ss.filterMap idxStmt) = some R ∧ R.Perm tbO.idxs) ∧
      ((Table.walkFk t false [] td.fks).filterMap fkStmt = Abs.Idx.emitDownKeep tbN.fks tbO.fks ∧
        ((∀ s ∈ tbN.fks, ∀ o ∈ tbO.fks, s.name = o.name → s = o) →
          ∃ R, Abs.Idx.execAll tbN.fks ((Table.walkFk t false [] td.fks).filterMap fkStmt) = some R ∧ R.Perm tbO.fks)) := by
  -- both sides loaded: related to their reference schemas, slices included
  unfold loadAndDiff at hd
  obtain ⟨o, hlo, hd⟩ := bind_ok hd
  obtain ⟨n, hln, hd⟩ := bind_ok hd
  obtain ⟨mo, hmo', hro, heo'⟩ := ReaderMysql.run_elems rc old {} [] dbO Rel.empty ElemsOK.empty ho heo
  obtain ⟨mn, hmn', hrn, hen'⟩ := ReaderMysql.run_elems rc new {} [] dbN Rel.empty ElemsOK.empty hn hen
  have : mo = o := by
    have : readScript g {} old = .ok mo := by unfold readScript; rw [hg]; exact hmo'
    rw [this] at hlo; exact Except.ok.inj hlo
  subst this
  have : mn = n := by
    have : readScript g {} new = .ok mn := by unfold readScript; rw [hg]; exact hmn'
    rw [this] at hln; exact Except.ok.inj hln
  subst this
  obtain ⟨io, to, hgo, hmo, hdo, hnmo, _, _, _⟩ := hro.lookup hfo
  obtain ⟨i, tn, _, hmn, hdn, hnmn, _, _, _⟩ := hrn.lookup hfn
  have hmemo := List.mem_of_getElem? hmo
  have hmemn := List.mem_of_getElem? hmn
  -- `Migration.Diff`
  unfold Migration.diff at hd
  obtain ⟨ts, h1, hd⟩ := bind_ok hd
  obtain ⟨td, htd, hspec⟩ := Migration.diffTables1_getElem g.dialect mo mn.tables ts i tn h1 hmn
  rw [hnmn, hgo] at hspec
  obtain ⟨ot, hot, hspec⟩ := hspec
  have : ot = to := by rw [hmo] at hot; exact (Option.some.inj hot).symm
  subst this
  have hex : ot.exists_ = true := by
    unfold Table.exists_; rw [(hro.fresh ot hmemo).2]; rfl
  rw [if_pos hex] at hspec
  obtain ⟨t1, ht1, htdeq⟩ := hspec
  obtain ⟨extra, hext⟩ := Migration.diffTables2_prefix mo.tables _ d hd
  have htd_mem : td ∈ d.tables := by
    rw [hext]; exact List.mem_append_left _ (List.mem_of_getElem? htd)
  have hi_n := hrn.inv.each tn hmemn
  have hi_o := hro.inv.each ot hmemo
  have hname : td.name = t := by
    have := Table.diff_inv g.dialect tn ot t1 hi_n hi_o (hrn.np tn hmemn) ht1
    rw [htdeq]; show t1.name = t; rw [this.2]; exact hnmn
  -- the slices of the two loaded tables are the reference lists, every record live
  have hrawn := Migration.raws_getElem mn hmn
  have hrawo := Migration.raws_getElem mo hmo
  obtain ⟨hvin, hvfn⟩ := hen'.at_ hrawn hdn
  obtain ⟨hvio, hvfo⟩ := heo'.at_ hrawo hdo
  have hvin : idxSpecOf tn.idxs = tbN.idxs := hvin
  have hvfn : fkSpecOf tn.fks = tbN.fks := hvfn
  have hvio : idxSpecOf ot.idxs = tbO.idxs := hvio
  have hvfo : fkSpecOf ot.fks = tbO.fks := hvfo
  obtain ⟨hlin, hlfn⟩ := hen'.fresh _ (List.mem_of_getElem? hrawn)
  obtain ⟨hlio, hlfo⟩ := heo'.fresh _ (List.mem_of_getElem? hrawo)
  have hfn' := (ReaderMysql.fresh_of_rel hrn hen').tables tn hmemn
  have hfo' := (ReaderMysql.fresh_of_rel hro heo').tables ot hmemo
  -- `Table.Diff` leaves the tagged slices
  obtain ⟨hidx, hfks⟩ := Table.diff_elems g.dialect tn ot t1 hi_n hi_o (hrn.np tn hmemn) hfn'.1 hfo'.1 ht1
  have htdi : td.idxs = t1.idxs := by rw [htdeq]
  have htdf : td.fks = t1.fks := by rw [htdeq]
  -- unique names on the reference side
  have hNn : (Abs.Idx.names tbN.idxs).Nodup := by
    rw [← hvin]
    show ((idxSpecOf tn.idxs).map (fun s : IdxSpec => s.name)).Nodup
    rw [idxSpecOf_names]
    exact hi_n.idxs.nodup.sublist List.filter_sublist
  have hOn : (Abs.Idx.names tbO.idxs).Nodup := by
    rw [← hvio]
    show ((idxSpecOf ot.idxs).map (fun s : IdxSpec => s.name)).Nodup
    rw [idxSpecOf_names]
    exact hi_o.idxs.nodup.sublist List.filter_sublist
  have hNf : (Abs.Idx.names tbN.fks).Nodup := by
    rw [← hvfn]
    show ((fkSpecOf tn.fks).map (fun s : FkSpec => s.name)).Nodup
    rw [fkSpecOf_names]
    exact hi_n.fks.nodup
  have hOf : (Abs.Idx.names tbO.fks).Nodup := by
    rw [← hvfo]
    show ((fkSpecOf ot.fks).map (fun s : FkSpec => s.name)).Nodup
    rw [fkSpecOf_names]
    exact hi_o.fks.nodup
  refine ⟨td, htd_mem, hname, by rw [htdeq], ?_, ?_, ?_, ?_⟩
  · obtain ⟨ss, hw, hproj⟩ := Table.walkIdx_refines g t tn ot hlin hlio
    rw [htdi, hidx]
    rw [hvin, hvio] at hproj
    refine ⟨ss, hw, hproj, ?_⟩
    rw [hproj]
    exact Abs.Idx.emit_correct tbN.idxs tbO.idxs hNn hOn
  · have hproj := Table.walkFk_refines t tn ot hfn'.1.fks
    rw [hvfn, hvfo] at hproj
    rw [htdf, hfks]
    refine ⟨hproj, ?_⟩
    intro hnr
    rw [hproj]
    exact Abs.Idx.emitKeep_correct tbN.fks tbO.fks hNf hOf hnr
  · obtain ⟨ss, hw, hproj⟩ := Table.walkIdx_refines_down g t tn ot hlin hlio
    rw [htdi, hidx]
    rw [hvin, hvio] at hproj
    refine ⟨ss, hw, hproj, ?_⟩
    rw [hproj]
    exact Abs.Idx.emitDown_correct tbN.idxs tbO.idxs hNn hOn
  · have hproj := Table.walkFk_refines_down t tn ot hfn'.1.fks
    rw [hvfn, hvfo] at hproj
    rw [htdf, hfks]
    refine ⟨hproj, ?_⟩
    intro hnr
    rw [hproj]
    exact Abs.Idx.emitDownKeep_correct tbN.fks tbO.fks hNf hOf hnr

/-- **C01, index clause with dropped columns, end to end** (MySQL reader model, default field order).  For two scripts
    the reference engine accepts and a table present on both sides, `MigrationColumnUp` of the diffed record returns the
    column statements and the list `dc` of dropped columns — all of them columns the new table does not have —, and
    `MigrationIndexUp` called with that list prints index statements that are exactly `Abs.Idx.emitSup dc` of the
    reference engine's two index lists (the DROP of an old-only index all of whose columns are dropped is suppressed);
    executed on what the DROP COLUMN statements leave of the old index list (`prune dc`), they are well-formed at every
    step and give the new index list up to order — unless an index is redefined under its name while every column of its
    old definition is dropped (the recorded finding `index-redefined-old-columns-dropped`). -/
theorem indexes_with_drops_end_to_end' (g : Globals) (hg : g.dialect = .mysql) (hio : g.ignoreOrder = false) (rc : Bool)
    (old new : List Stmt) (dbO dbN : DB) (ho : old.all Stmt.elemSafe = true) (hn : new.all Stmt.elemSafe = true)
    (heo : execAll rc [] old = some dbO) (hen : execAll rc [] new = some dbN)
    (d : Migration) (hd : loadAndDiff g old new = .ok d)
    (t : String) (tbO tbN : TableSpec) (hfo : dbO.find t = some tbO) (hfn : dbN.find t = some tbN)
    (hne : ∀ n ∈ tbN.colNames ++ tbO.colNames, n ≠ "") :
    ∃ td ∈ d.tables, td.name = t ∧ td.action = .none ∧
      ∃ cs dc ss, td.migrationColumnUp g = .ok (cs, dc) ∧ td.migrationIndexUp g dc = .ok ss ∧
        (∀ c ∈ dc, c ∉ tbN.colNames) ∧
        ss.filterMap idxStmt = Abs.Idx.emitSup dc tbN.idxs tbO.idxs ∧
        ((∀ s ∈ tbN.idxs, ∀ o ∈ tbO.idxs, o.name = s.name → o ≠ s → ∃ c ∈ o.cols, c ∉ dc) →
          ∃ R, Abs.Idx.execAll (Abs.Idx.prune dc tbO.idxs) (ss.filterMap idxStmt) = some R ∧ R.Perm tbN.idxs) ∧
        cs = (Table.walkCols g t true [] td.cols).1 ∧ dc = (Table.walkCols g t true [] td.cols).2 ∧
        (∀ s ∈ ss, s.table = t ∧ ((∃ cols, s = .addPrimaryKey t cols) ∨ s = .dropPrimaryKey t ∨ (idxStmt s).isSome = true)) ∧
        (Abs.Idx.names tbN.idxs).Nodup ∧ (Abs.Idx.names tbO.idxs).Nodup := by
  have hoc : old.all Stmt.colSafe = true :=
    List.all_eq_true.mpr (fun s hs => Stmt.colSafe_of_elemSafe s (List.all_eq_true.mp ho s hs))
  have hnc : new.all Stmt.colSafe = true :=
    List.all_eq_true.mpr (fun s hs => Stmt.colSafe_of_elemSafe s (List.all_eq_true.mp hn s hs))
  have hd0 := hd
  unfold loadAndDiff at hd
  obtain ⟨o, hlo, hd⟩ := bind_ok hd
  obtain ⟨n, hln, hd⟩ := bind_ok hd
  obtain ⟨mo, hmo', hro, heo'⟩ := ReaderMysql.run_elems rc old {} [] dbO Rel.empty ElemsOK.empty ho heo
  obtain ⟨mn, hmn', hrn, hen'⟩ := ReaderMysql.run_elems rc new {} [] dbN Rel.empty ElemsOK.empty hn hen
  have : mo = o := by
    have : readScript g {} old = .ok mo := by unfold readScript; rw [hg]; exact hmo'
    rw [this] at hlo; exact Except.ok.inj hlo
  subst this
  have : mn = n := by
    have : readScript g {} new = .ok mn := by unfold readScript; rw [hg]; exact hmn'
    rw [this] at hln; exact Except.ok.inj hln
  subst this
  obtain ⟨io, to, hgo, hmo, hdo, hnmo, hcolo, _, _⟩ := hro.lookup hfo
  obtain ⟨i, tn, _, hmn, hdn, hnmn, hcoln, _, _⟩ := hrn.lookup hfn
  have hmemo := List.mem_of_getElem? hmo
  have hmemn := List.mem_of_getElem? hmn
  unfold Migration.diff at hd
  obtain ⟨ts, h1, hd⟩ := bind_ok hd
  obtain ⟨td, htd, hspec⟩ := Migration.diffTables1_getElem g.dialect mo mn.tables ts i tn h1 hmn
  rw [hnmn, hgo] at hspec
  obtain ⟨ot, hot, hspec⟩ := hspec
  have : ot = to := by rw [hmo] at hot; exact (Option.some.inj hot).symm
  subst this
  have hex : ot.exists_ = true := by
    unfold Table.exists_; rw [(hro.fresh ot hmemo).2]; rfl
  rw [if_pos hex] at hspec
  obtain ⟨t1, ht1, htdeq⟩ := hspec
  obtain ⟨extra, hext⟩ := Migration.diffTables2_prefix mo.tables _ d hd
  have htd_mem : td ∈ d.tables := by
    rw [hext]; exact List.mem_append_left _ (List.mem_of_getElem? htd)
  have hi_n := hrn.inv.each tn hmemn
  have hi_o := hro.inv.each ot hmemo
  have hname : td.name = t := by
    have := Table.diff_inv g.dialect tn ot t1 hi_n hi_o (hrn.np tn hmemn) ht1
    rw [htdeq]; show t1.name = t; rw [this.2]; exact hnmn
  have hact : td.action = .none := by rw [htdeq]
  -- the columns of the record: the tagged merged list
  obtain ⟨cols1, tc, hc1, hc2, hsig⟩ := Table.diff_decompose g.dialect tn ot t1 ht1
  obtain ⟨htag, hsimple⟩ := Table.diff_cols_tagged g.dialect tn ot tc cols1 hi_n hi_o (hrn.np tn hmemn)
    (hrn.fresh tn hmemn).1 (hro.fresh ot hmemo).1 hc1 hc2
  have habs : absCols td.cols = Abs.tagged tbN.colNames tbO.colNames := by
    rw [htdeq]
    show absCols t1.cols = _
    rw [Table.absCols_of_sig hsig, htag, hcoln, hcolo]
  have hsimple_td : ∀ c ∈ td.cols, SimpleAction c.action := by
    intro c hc
    rw [htdeq] at hc
    have hc : c ∈ t1.cols := hc
    have hm : (c.name, c.action, c.cur.typ, Table.optKinds c.cur.opts) ∈ t1.sig :=
      List.mem_map_of_mem (f := fun c : Column => (c.name, c.action, c.cur.typ, Table.optKinds c.cur.opts)) hc
    rw [hsig] at hm
    obtain ⟨c0, hc0, he⟩ := List.mem_map.mp hm
    have : c0.action = c.action := (Prod.mk.inj (Prod.mk.inj he).2).1
    rw [← this]; exact hsimple c0 hc0
  have hne_td : ∀ c ∈ ([] : List Column) ++ td.cols, c.name ≠ "" := by
    intro c hc
    have hc : c ∈ td.cols := by simpa using hc
    have hm : c.name ∈ (absCols td.cols).map (·.1) := by
      simp only [absCols, List.map_map]
      exact List.mem_map_of_mem (f := (fun c : Column => (c.name, tagOfAction c.action).1)) hc
    rw [habs, Abs.tagged_names] at hm
    rcases Abs.mem_merge hm with hm | hm
    · exact hne _ (List.mem_append_left _ hm)
    · exact hne _ (List.mem_append_right _ hm)
  have hsq : g.dialect ≠ .sqlite := by rw [hg]; decide
  obtain ⟨_, hdc⟩ := walkCols_up_refines g hio hsq t td.cols [] hsimple_td hne_td
  -- every dropped column is a column the new table does not have
  have hdcN : ∀ c ∈ (Table.walkCols g t true [] td.cols).2, c ∉ tbN.colNames := by
    intro c hc
    rw [hdc, habs] at hc
    obtain ⟨p, hp, rfl⟩ := List.mem_map.mp hc
    obtain ⟨hp1, hp2⟩ := List.mem_filter.mp hp
    unfold Abs.tagged at hp1
    obtain ⟨x, _, rfl⟩ := List.mem_map.mp hp1
    have hp2 : Abs.tagOf tbN.colNames tbO.colNames x = .rem := by simpa using hp2
    unfold Abs.tagOf at hp2
    intro hx
    rw [if_pos hx] at hp2
    split at hp2 <;> cases hp2
  -- the slices
  have hrawn := Migration.raws_getElem mn hmn
  have hrawo := Migration.raws_getElem mo hmo
  obtain ⟨hvin, _⟩ := hen'.at_ hrawn hdn
  obtain ⟨hvio, _⟩ := heo'.at_ hrawo hdo
  have hvin : idxSpecOf tn.idxs = tbN.idxs := hvin
  have hvio : idxSpecOf ot.idxs = tbO.idxs := hvio
  obtain ⟨hlin, _⟩ := hen'.fresh _ (List.mem_of_getElem? hrawn)
  obtain ⟨hlio, _⟩ := heo'.fresh _ (List.mem_of_getElem? hrawo)
  have hfn' := (ReaderMysql.fresh_of_rel hrn hen').tables tn hmemn
  have hfo' := (ReaderMysql.fresh_of_rel hro heo').tables ot hmemo
  obtain ⟨hidx, _⟩ := Table.diff_elems g.dialect tn ot t1 hi_n hi_o (hrn.np tn hmemn) hfn'.1 hfo'.1 ht1
  have htdi : td.idxs = t1.idxs := by rw [htdeq]
  have hNn : (Abs.Idx.names tbN.idxs).Nodup := by
    rw [← hvin]
    show ((idxSpecOf tn.idxs).map (fun s : IdxSpec => s.name)).Nodup
    rw [idxSpecOf_names]
    exact hi_n.idxs.nodup.sublist List.filter_sublist
  have hOn : (Abs.Idx.names tbO.idxs).Nodup := by
    rw [← hvio]
    show ((idxSpecOf ot.idxs).map (fun s : IdxSpec => s.name)).Nodup
    rw [idxSpecOf_names]
    exact hi_o.idxs.nodup.sublist List.filter_sublist
  -- the reference schemas are well-formed: indexes are non-empty and name columns of their table
  have hwfN : tbN.WF := execAll_wf rc new [] dbN hnc wf_empty hen tbN (mem_of_find hfn)
  have hwfO : tbO.WF := execAll_wf rc old [] dbO hoc wf_empty heo tbO (mem_of_find hfo)
  obtain ⟨ss, hw, hproj⟩ := Table.walkIdx_refines_sup g t (Table.walkCols g t true [] td.cols).2 tn ot hlin hlio
  rw [hvin, hvio] at hproj
  have hshape : ∀ s ∈ ss, s.table = t ∧ ((∃ cols, s = .addPrimaryKey t cols) ∨ s = .dropPrimaryKey t ∨ (idxStmt s).isSome = true) := by
    have hw2 := Table.walkIdx_sup_eq g t (Table.walkCols g t true [] td.cols).2 tn ot hlin hlio _ rfl
    rw [hw] at hw2
    have hss := Except.ok.inj hw2
    intro s hs
    rw [hss] at hs
    obtain ⟨i, _, hi⟩ := List.mem_flatMap.mp hs
    exact Table.supStmts_shape _ t i s hi
  refine ⟨td, htd_mem, hname, hact, (Table.walkCols g t true [] td.cols).1, (Table.walkCols g t true [] td.cols).2, ss,
    ?_, ?_, hdcN, hproj, ?_, rfl, rfl, hshape, hNn, hOn⟩
  · unfold Table.migrationColumnUp
    rw [hact, hname]
    rfl
  · unfold Table.migrationIndexUp
    rw [hact, hname, htdi, hidx]
    exact hw
  · intro hredef
    rw [hproj]
    refine Abs.Idx.emitSup_correct _ tbN.idxs tbO.idxs hNn hOn ?_ (fun o ho' => (hwfO o ho').1) hredef
    intro s hs c hc hcd
    exact hdcN c hcd ((hwfN s hs).2 c hc)


theorem indexes_with_drops_end_to_end (g : Globals) (hg : g.dialect = .mysql) (hio : g.ignoreOrder = false) (rc : Bool)
    (old new : List Stmt) (dbO dbN : DB) (ho : old.all Stmt.elemSafe = true) (hn : new.all Stmt.elemSafe = true)
    (heo : execAll rc [] old = some dbO) (hen : execAll rc [] new = some dbN)
    (d : Migration) (hd : loadAndDiff g old new = .ok d)
    (t : String) (tbO tbN : TableSpec) (hfo : dbO.find t = some tbO) (hfn : dbN.find t = some tbN)
    (hne : ∀ n ∈ tbN.colNames ++ tbO.colNames, n ≠ "") :
    ∃ td ∈ d.tables, td.name = t ∧ td.action = .none ∧
      ∃ cs dc ss, td.migrationColumnUp g = .ok (cs, dc) ∧ td.migrationIndexUp g dc = .ok ss ∧
        (∀ c ∈ dc, c ∉ tbN.colNames) ∧
        ss.filterMap idxStmt = Abs.Idx.emitSup dc tbN.idxs tbO.idxs ∧
        ((∀ s ∈ tbN.idxs, ∀ o ∈ tbO.idxs, o.name = s.name → o ≠ s → ∃ c ∈ o.cols, c ∉ dc) →
          ∃ R, Abs.Idx.execAll (Abs.Idx.prune dc tbO.idxs) (ss.filterMap idxStmt) = some R ∧ R.Perm tbN.idxs) := by
  obtain ⟨td, h1, h2, h3, cs, dc, ss, h4, h5, h6, h7, h8, _⟩ :=
    indexes_with_drops_end_to_end' g hg hio rc old new dbO dbN ho hn heo hen d hd t tbO tbN hfo hfn hne
  exact ⟨td, h1, h2, h3, cs, dc, ss, h4, h5, h6, h7, h8⟩

end Sqlize
