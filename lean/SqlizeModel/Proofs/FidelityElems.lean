/-
  Proofs/FidelityElems.lean — **index and foreign-key fidelity of the MySQL reader model**: along any script the reference
  engine accepts (vocabulary of `Stmt.elemSafe`), the loaded model's index slice of every table — the `primary_key`
  record left out — reads as exactly the reference table's index list (name, column list, uniqueness, normalised index
  type, in order), its foreign-key slice as exactly the reference table's foreign keys (name, column, referenced table
  and column, in order), every index and key record is live (`add`) and no index is empty.

  It is a second pass over `ReaderMysql.step`, run beside `step_rel` (Proofs/FidelityMain.lean): `Rel` provides the
  table lookup, the column facts and the model state's shape; this pass follows the two slices (`Migration.raws`).
-/
import SqlizeModel.Proofs.Elems
import SqlizeModel.Proofs.FidelityMain
import SqlizeModel.Proofs.DiffSame

namespace Sqlize
open Spec

def Migration.raws (m : Migration) : List (List Index × List ForeignKey) := m.tables.map Table.raw
def elemSpec (db : DB) : List (List IdxSpec × List FkSpec) := db.map (fun tb => (tb.idxs, tb.fks))
def rawSpec (r : List Index × List ForeignKey) : List IdxSpec × List FkSpec := (idxSpecOf r.1, fkSpecOf r.2)

/-- the index / foreign-key part of the simulation relation -/
structure ElemsOK (R : List (List Index × List ForeignKey)) (db : DB) : Prop where
  view : R.map rawSpec = elemSpec db
  fresh : ∀ r ∈ R, ElemFresh r

theorem set_self_of_getElem? {α : Type} {l : List α} {i : Nat} {x : α} (h : l[i]? = some x) : l.set i x = l := by
  obtain ⟨hi, he⟩ := List.getElem?_eq_some_iff.mp h
  rw [← he]; exact List.set_getElem_self hi

namespace ElemsOK

variable {R : List (List Index × List ForeignKey)} {db : DB}

theorem empty : ElemsOK [] [] := ⟨rfl, by intro r hr; cases hr⟩

theorem length_eq (he : ElemsOK R db) : R.length = db.length := by
  have := congrArg List.length he.view
  simpa [elemSpec] using this

/-- both sides of table `id` edited -/
theorem set (he : ElemsOK R db) (hnd : (db.map (·.name)).Nodup) {id : Nat} {tb tb' : TableSpec} (hd : db[id]? = some tb)
    (hn : tb'.name = tb.name) (r' : List Index × List ForeignKey) (hv : rawSpec r' = (tb'.idxs, tb'.fks))
    (hf : ElemFresh r') : ElemsOK (R.set id r') (db.replace tb') := by
  refine ⟨?_, ?_⟩
  · rw [replace_eq_set db hnd id tb tb' hd hn]
    unfold elemSpec
    rw [List.map_set, List.map_set, hv]
    have := he.view
    unfold elemSpec at this
    rw [this]
  · intro r hr
    rcases List.mem_or_eq_of_mem_set hr with h | h
    · exact he.fresh r h
    · rw [h]; exact hf

/-- the reference table changes in its columns / primary key only, the model table not in its slices -/
theorem replace_same (he : ElemsOK R db) (hnd : (db.map (·.name)).Nodup) {id : Nat} {tb tb' : TableSpec}
    (hd : db[id]? = some tb) (hn : tb'.name = tb.name) (hi : tb'.idxs = tb.idxs) (hf : tb'.fks = tb.fks) :
    ElemsOK R (db.replace tb') := by
  refine ⟨?_, he.fresh⟩
  rw [replace_eq_set db hnd id tb tb' hd hn]
  unfold elemSpec
  rw [List.map_set, hi, hf]
  have h1 : (db.map (fun tb => (tb.idxs, tb.fks)))[id]? = some (tb.idxs, tb.fks) := by simp [hd]
  rw [set_self_of_getElem? h1]
  exact he.view

theorem append (he : ElemsOK R db) (r : List Index × List ForeignKey) (tb : TableSpec)
    (hv : rawSpec r = (tb.idxs, tb.fks)) (hf : ElemFresh r) : ElemsOK (R ++ [r]) (db ++ [tb]) := by
  refine ⟨?_, ?_⟩
  · unfold elemSpec
    rw [List.map_append, List.map_append, List.map_singleton, List.map_singleton, hv]
    have := he.view
    unfold elemSpec at this
    rw [this]
  · intro x hx
    rcases List.mem_append.mp hx with h | h
    · exact he.fresh x h
    · rw [List.mem_singleton.mp h]; exact hf

theorem erase (he : ElemsOK R db) (id : Nat) : ElemsOK (R.eraseIdx id) (db.eraseIdx id) := by
  refine ⟨?_, fun r hr => he.fresh r ((List.eraseIdx_sublist _ _).subset hr)⟩
  unfold elemSpec
  rw [← Table.map_eraseIdx', ← Table.map_eraseIdx']
  have := he.view
  unfold elemSpec at this
  rw [this]

/-- the slices at a position, on both sides -/
theorem at_ (he : ElemsOK R db) {id : Nat} {r : List Index × List ForeignKey} {tb : TableSpec} (hr : R[id]? = some r)
    (hd : db[id]? = some tb) : idxSpecOf r.1 = tb.idxs ∧ fkSpecOf r.2 = tb.fks := by
  have := congrArg (fun l => l[id]?) he.view
  simp only [elemSpec, List.getElem?_map, hr, hd, Option.map_some] at this
  have := Option.some.inj this
  exact ⟨(Prod.mk.inj this).1, (Prod.mk.inj this).2⟩

end ElemsOK

namespace Migration

theorem raws_set (m : Migration) (id : Nat) (t' : Table) :
    Migration.raws { m with tables := m.tables.set id t' } = m.raws.set id t'.raw := by
  unfold raws
  show (m.tables.set id t').map Table.raw = _
  rw [List.map_set]

theorem raws_getElem (m : Migration) {id : Nat} {t : Table} (h : m.tables[id]? = some t) : m.raws[id]? = some t.raw := by
  unfold raws; simp [h]

/-- what an edit of the named, known table did -/
theorem edit_inv (m m1 : Migration) (nm site : String) (f : Table → M Table) (id : Nat) (t : Table)
    (hg : m.tblIdx.get? nm = some id) (ht : m.tables[id]? = some t)
    (hs : (do let (m', i) ← m.ensureTable nm; m'.onTable site i f) = .ok m1) :
    ∃ t', f t = .ok t' ∧ m1 = { m with tables := m.tables.set id t' } := by
  cases hf : f t with
  | error e =>
    exfalso
    unfold ensureTable at hs
    rw [hg] at hs
    simp only [pure, Except.pure, bind, Except.bind] at hs
    unfold onTable at hs
    have hlt : id < m.tables.length := (List.getElem?_eq_some_iff.mp ht).1
    rw [getIdx_of_lt _ _ _ hlt] at hs
    have : m.tables[id] = t := (List.getElem?_eq_some_iff.mp ht).2
    simp only [bind, Except.bind, this, hf] at hs
    cases hs
  | ok t' =>
    refine ⟨t', rfl, ?_⟩
    have := edit_known m nm site f id t t' hg ht hf
    rw [this] at hs
    exact (Except.ok.inj hs).symm

/-- an edit that leaves the slices of the table alone leaves `raws`, the table map and the cursor alone -/
theorem onTable_raws_same (m m' : Migration) (site : String) (id : Nat) (f : Table → M Table)
    (hf : ∀ t t', f t = .ok t' → t'.raw = t.raw) (hs : m.onTable site id f = .ok m') :
    m'.raws = m.raws ∧ m'.tblIdx = m.tblIdx ∧ m'.cursor = m.cursor := by
  unfold onTable at hs
  obtain ⟨t, ht, hs⟩ := bind_ok hs
  obtain ⟨t', ht', hs⟩ := bind_ok hs
  have := pure_ok hs; subst this
  refine ⟨?_, rfl, rfl⟩
  rw [raws_set, hf t t' ht']
  exact set_self_of_getElem? (raws_getElem m (getIdx_ok ht))

theorem addColumn_raws (m m' : Migration) (tb : String) (col : Column) (mysql : Bool) {id : Nat}
    (hk : m.tblIdx.get? (m.resolve tb) = some id) (hs : m.addColumn tb col mysql = .ok m') :
    m'.raws = m.raws ∧ m'.tblIdx = m.tblIdx ∧ m'.cursor = m.cursor := by
  unfold addColumn ensureTable at hs
  rw [hk] at hs
  simp only [pure, Except.pure, bind, Except.bind] at hs
  exact onTable_raws_same m m' _ id _ (fun t t' h => Table.addColumn_raw t t' col mysql h) hs

theorem setColumnPosition_raws (m m' : Migration) (tb : String) (pos : Pos) (hs : m.setColumnPosition tb pos = .ok m') :
    m'.raws = m.raws ∧ m'.tblIdx = m.tblIdx ∧ m'.cursor = m.cursor := by
  unfold setColumnPosition at hs
  split at hs
  · exact onTable_raws_same m m' _ _ _ (fun t t' h => by have := pure_ok h; subst this; rfl) hs
  · have := pure_ok hs; subst this; exact ⟨rfl, rfl, rfl⟩

theorem using_raws (m : Migration) (x : String) : (m.using_ x).raws = m.raws := by
  unfold raws; rw [using_tables]

theorem using_tblIdx (m : Migration) (x : String) : (m.using_ x).tblIdx = m.tblIdx := by
  unfold using_; split <;> rfl

end Migration

/-- statements covered by the index / foreign-key pass: those of `colSafe`, without DROP PRIMARY KEY (for a primary key
    declared inline the model has no `primary_key` record to drop and keeps a tombstone instead) and without an index
    that is itself called `primary_key` -/
def Stmt.elemSafe : Stmt → Bool
  | .dropPrimaryKey _ => false
  | .createIndex t name _ _ _ => t != "" && name != pkName
  | s => s.colSafe

theorem Stmt.colSafe_of_elemSafe (s : Stmt) (h : s.elemSafe = true) : s.colSafe = true := by
  cases s <;> simp_all [Stmt.elemSafe, Stmt.colSafe, Stmt.table]

namespace ReaderMysql

theorem addCols_raws (cols : List ColDef) : ∀ (m m' : Migration) (id : Nat), m.tblIdx.get? m.cursor = some id →
    addCols m cols = .ok m' → m'.raws = m.raws := by
  induction cols with
  | nil => intro m m' id _ hs; unfold addCols at hs; have := pure_ok hs; subst this; rfl
  | cons c rest ih =>
    intro m m' id hk hs
    unfold addCols at hs
    obtain ⟨m1, h1, hs⟩ := bind_ok hs
    have hres : m.resolve "" = m.cursor := by unfold Migration.resolve; simp
    obtain ⟨a, b, c'⟩ := Migration.addColumn_raws m m1 "" c.toColumn true (by rw [hres]; exact hk) h1
    rw [ih m1 m' id (by rw [b, c']; exact hk) hs, a]

variable {m : Migration} {db db' : DB}

/-- the commuting square of the slices, statement by statement -/
theorem step_elems (rc : Bool) (h : Rel m db) (he : ElemsOK m.raws db) (s : Stmt) (hs : s.elemSafe = true)
    (hx : exec rc db s = some db') {m' : Migration} (hm : step m s = .ok m') : ElemsOK m'.raws db' := by
  cases s with
  | createTable t ident cols pk =>
    have ht : t ≠ "" := by simpa [Stmt.elemSafe, Stmt.colSafe, Stmt.table] using hs
    simp only [exec] at hx
    split at hx
    · cases hx
    · rename_i hc1
      split at hx
      · cases hx
      · split at hx
        · cases hx
        · split at hx
          · cases hx
          · have key : ∃ pk', db' = db ++ [{ name := t, cols := cols.map (fun c => (colOf c).1), pk := pk' }] := by
              split at hx
              · split at hx
                · cases hx
                · exact ⟨_, by simpa [List.map_map, Function.comp_def] using (Option.some.inj hx).symm⟩
              · split at hx
                · cases hx
                · exact ⟨_, by simpa [List.map_map, Function.comp_def] using (Option.some.inj hx).symm⟩
            obtain ⟨pk', hdb⟩ := key
            subst hdb
            have hnew : db.has t = false := by simpa using hc1
            unfold step at hm
            obtain ⟨tb0, h0, hm⟩ := bind_ok hm
            obtain ⟨m2, h2, hm⟩ := bind_ok hm
            -- the table record: no slices, or the `primary_key` record only
            have htb : tb0.name = t ∧ rawSpec tb0.raw = ([], []) ∧ ElemFresh tb0.raw := by
              by_cases hp : pk.isEmpty = true
              · rw [if_pos hp] at h0
                have := pure_ok h0; subst this
                exact ⟨rfl, rfl, And.intro (fun i hi => (List.not_mem_nil hi).elim) (fun f hf => (List.not_mem_nil hf).elim)⟩
              · rw [if_neg hp] at h0
                have hr := Table.addIndex_raw_fresh (Table.new t .add) tb0 (pkIndex pk) rfl h0
                have hn := (Table.addIndex_inv _ tb0 _ (Table.inv_new _ _) h0).2
                refine ⟨hn, ?_, ?_⟩
                · rw [hr]; rfl
                · rw [hr]
                  refine And.intro ?_ (fun f hf => (List.not_mem_nil hf).elim)
                  intro i hi
                  have : i = pkIndex pk := by simpa [Table.new] using hi
                  subst this
                  refine ⟨rfl, ?_, rfl, Or.inl rfl, rfl⟩
                  intro hc
                  apply hp
                  show pk.isEmpty = true
                  have : pk = [] := hc
                  rw [this]; rfl
            obtain ⟨hn0, hv0, hf0⟩ := htb
            have hunk : (m.using_ t).tblIdx.get? tb0.name = none := by
              rw [Migration.using_tblIdx, hn0]; exact h.unknown hnew
            have hm2 : m2 = { (m.using_ t) with tables := (m.using_ t).tables ++ [tb0],
                                                 tblIdx := (m.using_ t).tblIdx.set tb0.name (m.using_ t).tables.length } := by
              unfold Migration.addTable at h2
              rw [hunk] at h2
              exact (pure_ok h2).symm
            have hcur : (m2.using_ t).cursor = t := using_cursor m2 ht
            have hk : (m2.using_ t).tblIdx.get? (m2.using_ t).cursor = some (m.using_ t).tables.length := by
              rw [hcur, Migration.using_tblIdx, hm2]
              show AMap.get? (AMap.set _ tb0.name _) t = _
              rw [AMap.get?_set, hn0, if_pos rfl]
            have hraws := addCols_raws cols (m2.using_ t) m' _ hk hm
            rw [hraws, Migration.using_raws, hm2]
            show ElemsOK (((m.using_ t).tables ++ [tb0]).map Table.raw) _
            rw [List.map_append, List.map_singleton]
            have : (m.using_ t).tables.map Table.raw = m.raws := Migration.using_raws m t
            rw [this]
            exact he.append tb0.raw _ hv0 hf0
  | dropTable t =>
    simp only [exec] at hx
    split at hx
    · cases hx
    · rename_i hc1
      split at hx
      · cases hx
      · have := Option.some.inj hx; subst this
        have hh : db.has t = true := by simpa using hc1
        have hmemN : t ∈ db.map (·.name) := (has_iff db t).mp hh
        obtain ⟨tb, htb, hname⟩ := List.mem_map.mp hmemN
        obtain ⟨i, hi⟩ := List.mem_iff_getElem?.mp htb
        have hfind := find_of_getElem db h.nodup i tb hi
        rw [hname] at hfind
        obtain ⟨id, tm, hg, hmt, hd, hnm, _, _, _⟩ := h.lookup hfind
        have hact : tm.action = .add := (h.fresh tm (List.mem_of_getElem? hmt)).2
        have hlt : id < m.tables.length := (List.getElem?_eq_some_iff.mp hmt).1
        let m2 : Migration :=
          { cursor := m.cursor, tables := m.tables.eraseIdx id,
            tblIdx := (m.tblIdx.erase t).mapVals (fun v => if v > id then v - 1 else v) }
        have hrm : m.removeTable t = .ok m2 := by
          unfold Migration.removeTable
          rw [hg]
          simp only
          rw [getIdx_of_lt _ _ _ hlt]
          have : m.tables[id] = tm := (List.getElem?_eq_some_iff.mp hmt).2
          simp only [bind, Except.bind, this, hact, beq_self_eq_true, if_true, pure, Except.pure]
          rfl
        unfold step at hm
        simp only [hrm, bind, Except.bind, pure, Except.pure] at hm
        have := Except.ok.inj hm; subst this
        rw [Migration.using_raws, ← hname, filter_name_eq_eraseIdx db h.nodup id tb hd]
        show ElemsOK ((m.tables.eraseIdx id).map Table.raw) _
        rw [← Table.map_eraseIdx']
        exact he.erase id
  | addColumn t c pos =>
    have ht : t ≠ "" := by simpa [Stmt.elemSafe, Stmt.colSafe, Stmt.table] using hs
    simp only [exec] at hx
    obtain ⟨tb, hf, hx⟩ := exec_find hx
    obtain ⟨id, tm, hg, hmt, hd, _, _, htn, _⟩ := h.lookup hf
    -- the reference table changes in its columns and primary key only
    have hdb : ∃ tb', db' = db.replace tb' ∧ tb'.name = tb.name ∧ tb'.idxs = tb.idxs ∧ tb'.fks = tb.fks := by
      split at hx
      · cases hx
      · split at hx
        · cases hx
        · split at hx
          · cases hx
          · exact ⟨_, (Option.some.inj hx).symm, rfl, rfl, rfl⟩
    obtain ⟨tb', hdb, hn', hi', hf'⟩ := hdb
    subst hdb
    unfold step at hm
    obtain ⟨m1, h1, hm⟩ := bind_ok hm
    have h1r : m1.raws = m.raws ∧ m1.tblIdx = m.tblIdx := by
      cases hp : pos.toPos? with
      | none => rw [hp] at h1; have := pure_ok h1; subst this; exact ⟨rfl, rfl⟩
      | some p =>
        rw [hp] at h1
        obtain ⟨a, b, _⟩ := Migration.setColumnPosition_raws m m1 t p h1
        exact ⟨a, b⟩
    have hres : (m1.using_ t).resolve "" = t := by
      unfold Migration.resolve; simp [using_cursor m1 ht]
    obtain ⟨a, _, _⟩ := Migration.addColumn_raws (m1.using_ t) m' "" c.toColumn true
      (id := id) (by rw [hres, Migration.using_tblIdx, h1r.2]; exact hg) hm
    rw [a, Migration.using_raws, h1r.1]
    exact he.replace_same h.nodup hd hn' hi' hf'
  | dropColumn t c =>
    have ht : t ≠ "" := by simpa [Stmt.elemSafe, Stmt.colSafe, Stmt.table] using hs
    simp only [exec] at hx
    obtain ⟨tb, hf, hx⟩ := exec_find hx
    split at hx
    · cases hx
    · rename_i hc1
      split at hx
      · cases hx
      · have := Option.some.inj hx; subst this
        have hcol : tb.hasCol c = true := by simpa using hc1
        obtain ⟨id, tm, hg, hmt, hd, _, hcols, htn, _⟩ := h.lookup hf
        have hmem := List.mem_of_getElem? hmt
        have hi := h.inv.each tm hmem
        have hcm : c ∈ tm.colNames := by rw [hcols]; exact (hasCol_iff tb c).mp hcol
        obtain ⟨ci, hci⟩ := List.mem_iff_getElem?.mp hcm
        have hgc := (hi.cols.get c ci).mpr hci
        obtain ⟨col, hcol', _⟩ : ∃ col, tm.cols[ci]? = some col ∧ col.name = c := by
          have : (tm.cols.map (·.name))[ci]? = some c := hci
          rw [List.getElem?_map] at this
          cases hcc : tm.cols[ci]? with
          | none => rw [hcc] at this; cases this
          | some col => rw [hcc] at this; exact ⟨col, rfl, by simpa using this⟩
        have hadd : col.action = .add := (h.fresh tm hmem).1 col (List.mem_of_getElem? hcol')
        have hr := Migration.raws_getElem m hmt
        have hfr := he.fresh _ (List.mem_of_getElem? hr)
        obtain ⟨hvi, hvf⟩ := he.at_ hr hd
        unfold step at hm
        obtain ⟨m1, h1, hm⟩ := bind_ok hm
        have := pure_ok hm; subst this
        unfold Migration.removeColumn at h1
        rw [Rel.resolve_ne m ht] at h1
        obtain ⟨tm', hft, hm1⟩ := Migration.edit_inv m m1 t _ _ id tm hg hmt h1
        subst hm1
        have hraw := Table.removeColumn_raw tm tm' c ci col hgc hcol' hadd (fun i hi' => (hfr.1 i hi').ne) hft
        rw [Migration.using_raws, Migration.raws_set, hraw]
        refine he.set h.nodup hd (by rfl) _ ?_ ?_
        · unfold rawSpec
          simp only
          rw [idxSpecOf_strip, fkSpecOf_filter_col]
          have hvi : idxSpecOf tm.idxs = tb.idxs := hvi
          have hvf : fkSpecOf tm.fks = tb.fks := hvf
          rw [hvi, hvf]
        · refine ⟨?_, ?_⟩
          · intro i hi'
            obtain ⟨hi1, hi2⟩ := List.mem_filter.mp hi'
            obtain ⟨i0, hi0, rfl⟩ := List.mem_map.mp hi1
            refine ⟨(hfr.1 i0 hi0).add, ?_, (hfr.1 i0 hi0).pk, (hfr.1 i0 hi0).typ, (hfr.1 i0 hi0).prev⟩
            intro hc
            rw [hc] at hi2
            cases hi2
          · intro f hf'
            exact hfr.2 f (List.mem_filter.mp hf').1
  | modifyColumn t c =>
    have ht : t ≠ "" := by simpa [Stmt.elemSafe, Stmt.colSafe, Stmt.table] using hs
    simp only [exec] at hx
    obtain ⟨tb, hf, hx⟩ := exec_find hx
    obtain ⟨id, tm, hg, hmt, hd, _, _, htn, _⟩ := h.lookup hf
    have hdb : ∃ tb', db' = db.replace tb' ∧ tb'.name = tb.name ∧ tb'.idxs = tb.idxs ∧ tb'.fks = tb.fks := by
      split at hx
      · cases hx
      · split at hx
        · cases hx
        · exact ⟨_, (Option.some.inj hx).symm, rfl, rfl, rfl⟩
    obtain ⟨tb', hdb, hn', hi', hf'⟩ := hdb
    subst hdb
    unfold step at hm
    obtain ⟨m1, h1, hm⟩ := bind_ok hm
    obtain ⟨a1, b1, _⟩ := Migration.addColumn_raws m m1 t _ true (id := id) (by rw [Rel.resolve_ne m ht]; exact hg) h1
    have hres : (m1.using_ t).resolve "" = t := by
      unfold Migration.resolve; simp [using_cursor m1 ht]
    obtain ⟨a2, _, _⟩ := Migration.addColumn_raws (m1.using_ t) m' "" c.toColumn true
      (id := id) (by rw [hres, Migration.using_tblIdx, b1]; exact hg) hm
    rw [a2, Migration.using_raws, a1]
    exact he.replace_same h.nodup hd hn' hi' hf'
  | renameColumn t o n => simp [Stmt.elemSafe, Stmt.colSafe] at hs
  | addPrimaryKey t cols =>
    have ht : t ≠ "" := by simpa [Stmt.elemSafe, Stmt.colSafe, Stmt.table] using hs
    simp only [exec] at hx
    obtain ⟨tb, hf, hx⟩ := exec_find hx
    split at hx
    · cases hx
    · rename_i hc1
      have := Option.some.inj hx; subst this
      have hcne : cols ≠ [] := by
        intro hc
        apply hc1
        simp [hc]
      obtain ⟨id, tm, hg, hmt, hd, _, _, htn, _⟩ := h.lookup hf
      have hi := h.inv.each tm (List.mem_of_getElem? hmt)
      have hr := Migration.raws_getElem m hmt
      have hfr := he.fresh _ (List.mem_of_getElem? hr)
      obtain ⟨hvi, hvf⟩ := he.at_ hr hd
      unfold step at hm
      obtain ⟨m1, h1, hm⟩ := bind_ok hm
      have := pure_ok hm; subst this
      unfold Migration.addIndex at h1
      rw [Rel.resolve_ne m ht] at h1
      obtain ⟨tm', hft, hm1⟩ := Migration.edit_inv m m1 t _ _ id tm hg hmt h1
      subst hm1
      rw [Migration.using_raws, Migration.raws_set]
      have hpkf : (pkIndex cols).Live := ⟨rfl, hcne, rfl, Or.inl rfl, rfl⟩
      cases hgi : tm.idxIdx.get? (pkIndex cols).name with
      | none =>
        rw [Table.addIndex_raw_fresh tm tm' _ hgi hft]
        refine he.set h.nodup hd (by rfl) _ ?_ ?_
        · unfold rawSpec
          simp only
          rw [idxSpecOf_append_pk _ _ rfl]
          exact Prod.ext hvi hvf
        · refine ⟨?_, hfr.2⟩
          intro i hi'
          rcases List.mem_append.mp hi' with h' | h'
          · exact hfr.1 i h'
          · rw [List.mem_singleton.mp h']; exact hpkf
      | some j =>
        rw [Table.addIndex_raw_hit tm tm' _ j hgi hft]
        have hj : (tm.idxs.map (·.name))[j]? = some pkName := (hi.idxs.get _ j).mp hgi
        obtain ⟨x, hx', hxn⟩ : ∃ x, tm.idxs[j]? = some x ∧ x.name = pkName := by
          rw [List.getElem?_map] at hj
          cases hcc : tm.idxs[j]? with
          | none => rw [hcc] at hj; cases hj
          | some x => rw [hcc] at hj; exact ⟨x, rfl, by simpa using hj⟩
        refine he.set h.nodup hd (by rfl) _ ?_ ?_
        · unfold rawSpec
          simp only
          rw [idxSpecOf_set_pk _ j x _ hx' hxn rfl]
          exact Prod.ext hvi hvf
        · refine ⟨?_, hfr.2⟩
          intro i hi'
          rcases List.mem_or_eq_of_mem_set hi' with h' | h'
          · exact hfr.1 i h'
          · rw [h']; exact hpkf
  | dropPrimaryKey t => simp [Stmt.elemSafe] at hs
  | addFk t name col rt rc' =>
    have ht : t ≠ "" := by simpa [Stmt.elemSafe, Stmt.colSafe, Stmt.table] using hs
    simp only [exec] at hx
    obtain ⟨tb, hf, hx⟩ := exec_find hx
    split at hx
    · cases hx
    · rename_i hc1
      split at hx
      · cases hx
      · have := Option.some.inj hx; subst this
        obtain ⟨id, tm, hg, hmt, hd, _, _, htn, _⟩ := h.lookup hf
        have hi := h.inv.each tm (List.mem_of_getElem? hmt)
        have hr := Migration.raws_getElem m hmt
        have hfr := he.fresh _ (List.mem_of_getElem? hr)
        obtain ⟨hvi, hvf⟩ := he.at_ hr hd
        have hvf : fkSpecOf tm.fks = tb.fks := hvf
        have hfreshName : name ∉ tm.fks.map (·.name) := by
          rw [← fkSpecOf_names, hvf]
          intro hmem
          obtain ⟨x, hx', hxn⟩ := List.mem_map.mp hmem
          apply hc1
          simp only [Bool.or_eq_true]
          right
          exact List.any_eq_true.mpr ⟨x, hx', by simpa using hxn⟩
        have hgf : tm.fkIdx.get? name = none := (hi.fks.get?_none_iff name).mpr hfreshName
        unfold step at hm
        obtain ⟨m1, h1, hm⟩ := bind_ok hm
        have := pure_ok hm; subst this
        unfold Migration.addForeignKey at h1
        simp only at h1
        rw [Rel.resolve_ne m ht] at h1
        obtain ⟨tm', hft, hm1⟩ := Migration.edit_inv m m1 t _ _ id tm hg hmt h1
        subst hm1
        have hteq : (t == "") = false := by simpa using ht
        simp only [hteq, Bool.false_eq_true, if_false] at hft
        rw [Migration.using_raws, Migration.using_raws, Migration.raws_set,
          Table.addForeignKey_raw_fresh tm tm' _ hgf hft]
        refine he.set h.nodup hd (by rfl) _ ?_ ?_
        · unfold rawSpec fkSpecOf
          simp only
          rw [List.map_append, List.map_singleton]
          exact Prod.ext hvi (by rw [show tm.fks.map ForeignKey.toSpec = tb.fks from hvf]; rfl)
        · refine ⟨hfr.1, ?_⟩
          intro f hf'
          rcases List.mem_append.mp hf' with h' | h'
          · exact hfr.2 f h'
          · rw [List.mem_singleton.mp h']
  | dropFk t name =>
    have ht : t ≠ "" := by simpa [Stmt.elemSafe, Stmt.colSafe, Stmt.table] using hs
    simp only [exec] at hx
    obtain ⟨tb, hf, hx⟩ := exec_find hx
    split at hx
    · cases hx
    · rename_i hc1
      have := Option.some.inj hx; subst this
      obtain ⟨id, tm, hg, hmt, hd, _, _, htn, _⟩ := h.lookup hf
      have hi := h.inv.each tm (List.mem_of_getElem? hmt)
      have hr := Migration.raws_getElem m hmt
      have hfr := he.fresh _ (List.mem_of_getElem? hr)
      obtain ⟨hvi, hvf⟩ := he.at_ hr hd
      have hvf : fkSpecOf tm.fks = tb.fks := hvf
      have hmemName : name ∈ tm.fks.map (·.name) := by
        rw [← fkSpecOf_names, hvf]
        have : tb.fks.any (·.name == name) = true := by simpa using hc1
        obtain ⟨x, hx', hxn⟩ := List.any_eq_true.mp this
        exact List.mem_map.mpr ⟨x, hx', by simpa using hxn⟩
      obtain ⟨j, hj⟩ := List.mem_iff_getElem?.mp hmemName
      have hgf := (hi.fks.get name j).mpr hj
      obtain ⟨f, hfj, hfn⟩ : ∃ f, tm.fks[j]? = some f ∧ f.name = name := by
        rw [List.getElem?_map] at hj
        cases hcc : tm.fks[j]? with
        | none => rw [hcc] at hj; cases hj
        | some x => rw [hcc] at hj; exact ⟨x, rfl, by simpa using hj⟩
      have hfa : f.action = .add := hfr.2 f (List.mem_of_getElem? hfj)
      unfold step at hm
      obtain ⟨m1, h1, hm⟩ := bind_ok hm
      have := pure_ok hm; subst this
      unfold Migration.removeForeignKey at h1
      rw [Rel.resolve_ne m ht] at h1
      obtain ⟨tm', hft, hm1⟩ := Migration.edit_inv m m1 t _ _ id tm hg hmt h1
      subst hm1
      rw [Migration.using_raws, Migration.raws_set, Table.removeForeignKey_raw_hit tm tm' name j f hgf hfj hfa hft]
      refine he.set h.nodup hd (by rfl) _ ?_ ?_
      · unfold rawSpec
        simp only
        rw [eraseIdx_eq_filter_name (fun x : ForeignKey => x.name) tm.fks j f hi.fks.nodup hfj, hfn,
          fkSpecOf_filter_name, hvf]
        exact Prod.ext hvi rfl
      · exact ⟨hfr.1, fun x hx' => hfr.2 x ((List.eraseIdx_sublist _ _).subset hx')⟩
  | renameIndex t o n => simp [Stmt.elemSafe, Stmt.colSafe] at hs
  | createIndex t name cols uniq u =>
    have hs' : t ≠ "" ∧ name ≠ pkName := by simpa [Stmt.elemSafe] using hs
    obtain ⟨ht, hnpk⟩ := hs'
    simp only [exec] at hx
    obtain ⟨tb, hf, hx⟩ := exec_find hx
    split at hx
    · cases hx
    · rename_i hc1
      have := Option.some.inj hx; subst this
      simp only [Bool.or_eq_true, not_or] at hc1
      obtain ⟨id, tm, hg, hmt, hd, _, _, htn, _⟩ := h.lookup hf
      have hi := h.inv.each tm (List.mem_of_getElem? hmt)
      have hr := Migration.raws_getElem m hmt
      have hfr := he.fresh _ (List.mem_of_getElem? hr)
      obtain ⟨hvi, hvf⟩ := he.at_ hr hd
      have hvi : idxSpecOf tm.idxs = tb.idxs := hvi
      have hcne : cols ≠ [] := by
        intro hc
        apply hc1.1.2
        simp [hc]
      have hfreshName : name ∉ tm.idxs.map (·.name) := by
        intro hmem
        have : name ∈ (idxSpecOf tm.idxs).map (·.name) := by
          rw [idxSpecOf_names]
          exact List.mem_filter.mpr ⟨hmem, by simpa using hnpk⟩
        rw [hvi] at this
        obtain ⟨x, hx', hxn⟩ := List.mem_map.mp this
        apply hc1.1.1
        exact List.any_eq_true.mpr ⟨x, hx', by simpa using hxn⟩
      have hgi : tm.idxIdx.get? name = none := (hi.idxs.get?_none_iff name).mpr hfreshName
      unfold step at hm
      obtain ⟨m1, h1, hm⟩ := bind_ok hm
      have := pure_ok hm; subst this
      unfold Migration.addIndex at h1
      rw [Rel.resolve_ne m ht] at h1
      obtain ⟨tm', hft, hm1⟩ := Migration.edit_inv m m1 t _ _ id tm hg hmt h1
      subst hm1
      rw [Migration.using_raws, Migration.raws_set, Table.addIndex_raw_fresh tm tm' _ hgi hft]
      refine he.set h.nodup hd (by rfl) _ ?_ ?_
      · unfold rawSpec
        simp only
        rw [idxSpecOf_append _ _ hnpk, hvi]
        refine Prod.ext ?_ hvf
        simp only
        congr 2
        unfold Index.toSpec Table.normIdxType
        cases uniq <;> simp
      · refine ⟨?_, hfr.2⟩
        intro i hi'
        rcases List.mem_append.mp hi' with h' | h'
        · exact hfr.1 i h'
        · rw [List.mem_singleton.mp h']
          refine ⟨rfl, hcne, ?_, by cases uniq <;> simp, rfl⟩
          have : (name == pkName) = false := by simpa using hnpk
          simp [this]
  | dropIndex t name =>
    have ht : t ≠ "" := by simpa [Stmt.elemSafe, Stmt.colSafe, Stmt.table] using hs
    simp only [exec] at hx
    obtain ⟨tb, hf, hx⟩ := exec_find hx
    split at hx
    · cases hx
    · rename_i hc1
      have := Option.some.inj hx; subst this
      obtain ⟨id, tm, hg, hmt, hd, _, _, htn, _⟩ := h.lookup hf
      have hi := h.inv.each tm (List.mem_of_getElem? hmt)
      have hr := Migration.raws_getElem m hmt
      have hfr := he.fresh _ (List.mem_of_getElem? hr)
      obtain ⟨hvi, hvf⟩ := he.at_ hr hd
      have hvi : idxSpecOf tm.idxs = tb.idxs := hvi
      have hmemName : name ∈ tm.idxs.map (·.name) := by
        have : tb.idxs.any (·.name == name) = true := by simpa using hc1
        obtain ⟨x, hx', hxn⟩ := List.any_eq_true.mp this
        have : name ∈ (idxSpecOf tm.idxs).map (·.name) := by
          rw [hvi]; exact List.mem_map.mpr ⟨x, hx', by simpa using hxn⟩
        rw [idxSpecOf_names] at this
        exact (List.mem_filter.mp this).1
      obtain ⟨j, hj⟩ := List.mem_iff_getElem?.mp hmemName
      have hgi := (hi.idxs.get name j).mpr hj
      obtain ⟨x, hxj, hxn⟩ : ∃ x, tm.idxs[j]? = some x ∧ x.name = name := by
        rw [List.getElem?_map] at hj
        cases hcc : tm.idxs[j]? with
        | none => rw [hcc] at hj; cases hj
        | some x => rw [hcc] at hj; exact ⟨x, rfl, by simpa using hj⟩
      have hxa : x.action = .add := (hfr.1 x (List.mem_of_getElem? hxj)).add
      unfold step at hm
      obtain ⟨m1, h1, hm⟩ := bind_ok hm
      have := pure_ok hm; subst this
      unfold Migration.removeIndex at h1
      rw [Rel.resolve_ne m ht] at h1
      obtain ⟨tm', hft, hm1⟩ := Migration.edit_inv m m1 t _ _ id tm hg hmt h1
      subst hm1
      rw [Migration.using_raws, Migration.raws_set, Table.removeIndex_raw_hit tm tm' name j x hgi hxj hxa hft]
      refine he.set h.nodup hd (by rfl) _ ?_ ?_
      · unfold rawSpec
        simp only
        rw [eraseIdx_eq_filter_name (fun y : Index => y.name) tm.idxs j x hi.idxs.nodup hxj, hxn,
          idxSpecOf_filter, hvi]
        exact Prod.ext rfl hvf
      · exact ⟨fun y hy => hfr.1 y ((List.eraseIdx_sublist _ _).subset hy), hfr.2⟩
  | commentOn t c text => simp [Stmt.elemSafe, Stmt.colSafe] at hs
  | alterType t c typ => simp [Stmt.elemSafe, Stmt.colSafe] at hs
  | setDefault t c d => simp [Stmt.elemSafe, Stmt.colSafe] at hs
  | dropNotNull t c => simp [Stmt.elemSafe, Stmt.colSafe] at hs

theorem run_elems (rc : Bool) (ss : List Stmt) : ∀ (m : Migration) (db db' : DB), Rel m db → ElemsOK m.raws db →
    ss.all Stmt.elemSafe = true → execAll rc db ss = some db' →
    ∃ m', run m ss = .ok m' ∧ Rel m' db' ∧ ElemsOK m'.raws db' := by
  induction ss with
  | nil =>
    intro m db db' h he _ hx
    unfold execAll at hx
    have := Option.some.inj hx; subst this
    exact ⟨m, rfl, h, he⟩
  | cons s rest ih =>
    intro m db db' h he hs hx
    simp only [List.all_cons, Bool.and_eq_true] at hs
    unfold execAll at hx
    cases h1 : exec rc db s with
    | none => rw [h1] at hx; cases hx
    | some db1 =>
      rw [h1] at hx
      obtain ⟨m1, hm1, hr1⟩ := step_rel rc h s (Stmt.colSafe_of_elemSafe s hs.1) h1
      have he1 := step_elems rc h he s hs.1 h1 hm1
      obtain ⟨m', hm', hr', he'⟩ := ih m1 db1 db' hr1 he1 hs.2 hx
      refine ⟨m', ?_, hr', he'⟩
      unfold run
      simp only [hm1, bind, Except.bind]
      exact hm'

/-- a related, element-related state is fresh in the sense of Proofs/DiffSame.lean -/
theorem fresh_of_rel (h : Rel m db) (he : ElemsOK m.raws db) : m.Fresh := by
  constructor
  intro t ht
  have hr : t.raw ∈ m.raws := List.mem_map_of_mem ht
  obtain ⟨hi, hf⟩ := he.fresh _ hr
  exact ⟨⟨(h.fresh t ht).1, fun i hi' => (hi i hi').add, hf⟩, (h.fresh t ht).2⟩

/-- **C05, indexes and foreign keys.**  For every script (any length) over the vocabulary of `Stmt.elemSafe` that the
    reference engine accepts from the empty schema, the MySQL reader model loads it without error, and table by table
    the loaded model's indexes (the `primary_key` record apart) and foreign keys are exactly the reference schema's, in
    the same order; every table, column, index and key record is live (`Migration.Fresh`). -/
theorem fidelity_elems (rc : Bool) (ss : List Stmt) (db : DB) (hs : ss.all Stmt.elemSafe = true)
    (he : execAll rc [] ss = some db) :
    ∃ m, run {} ss = .ok m ∧ colView m = specView db ∧
      m.tables.map (fun t => (idxSpecOf t.idxs, fkSpecOf t.fks)) = db.map (fun tb => (tb.idxs, tb.fks)) ∧
      m.Inv ∧ m.NoPending ∧ m.Fresh := by
  obtain ⟨m, hm, hr, hel⟩ := run_elems rc ss {} [] db Rel.empty ElemsOK.empty hs he
  refine ⟨m, hm, hr.view, ?_, hr.inv, hr.np, fresh_of_rel hr hel⟩
  have := hel.view
  unfold Migration.raws elemSpec at this
  rw [List.map_map] at this
  exact this

end ReaderMysql
end Sqlize
