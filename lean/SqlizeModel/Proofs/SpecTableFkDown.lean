/-
  Proofs/SpecTableFkDown.lean — C02 for one table with foreign keys: the column, index and key statements of the down
  migration composed on the reference engine (the mirror of Proofs/SpecTableFk.lean).
-/
import SqlizeModel.Proofs.SpecTableFk
import SqlizeModel.Proofs.SpecTableDown
import SqlizeModel.Proofs.EndToEndFkDown

namespace Sqlize
open Spec

theorem create_mem_emitDownKeepSup (D : List String) (N O : List FkSpec) (f : FkSpec)
    (h : Abs.Idx.IStmt.create f ∈ Abs.Idx.emitDownKeepSup D N O) : f ∈ O := by
  unfold Abs.Idx.emitDownKeepSup at h
  rcases List.mem_append.mp h with h1 | h1
  · obtain ⟨o, _, ho⟩ := List.mem_map.mp h1
    cases ho
  · obtain ⟨s, hs, he⟩ := List.mem_map.mp h1
    have : s = f := by injection he
    rw [← this]; exact (List.mem_filter.mp hs).1

/-- **C02, one table, with its foreign keys**: the column, index and key statements the down migration prints for the
    diffed record, executed in that order on any schema that holds the new table, are well-formed at every step;
    afterwards the table has the old side's columns, indexes, primary key and foreign keys (up to order) — provided no
    key found on both sides differs (the recorded finding `foreign-key-redefined`). -/
theorem table_spec_down_fk_any (g : Globals) (hg : g.dialect = .mysql) (hio : g.ignoreOrder = false) (rc : Bool)
    (old new : List Stmt) (dbO dbN : DB) (ho : old.all Stmt.elemSafe = true) (hn : new.all Stmt.elemSafe = true)
    (hpo : old.all Stmt.plainOpts = true) (hpn : new.all Stmt.plainOpts = true)
    (heo : execAll rc [] old = some dbO) (hen : execAll rc [] new = some dbN)
    (d : Migration) (hd : loadAndDiff g old new = .ok d)
    (t : String) (tbO tbN : TableSpec) (hfo : dbO.find t = some tbO) (hfn : dbN.find t = some tbN)
    (hc : Abs.OrderCompatible tbN.colNames tbO.colNames) (hne : ∀ n ∈ tbN.colNames ++ tbO.colNames, n ≠ "")
    (hpk : tbO.pk = tbN.pk)
    (hredef : ∀ dc : List String, (∀ c ∈ dc, c ∉ tbO.colNames) →
      ∀ s ∈ tbN.idxs, ∀ o ∈ tbO.idxs, o.name = s.name → o ≠ s → ∃ c ∈ s.cols, c ∉ dc)
    (hnr : ∀ s ∈ tbN.fks, ∀ o ∈ tbO.fks, s.name = o.name → s = o) :
    ∃ td ∈ d.tables, td.name = t ∧
      ∃ cs dc is, td.migrationColumnDown g = .ok (cs, dc) ∧ td.migrationIndexDown g dc = .ok is ∧
        ∀ db0 : DB, (db0.map (·.name)).Nodup → db0.find t = some tbN →
        ∃ db' tb', execAll false db0 (cs ++ is ++ td.migrationForeignKeyDown dc) = some db' ∧ db'.find t = some tb' ∧
          colsEquiv tb'.cols tbO.cols = true ∧ tb'.idxs.Perm tbO.idxs ∧
          tb'.pk = tbO.pk ∧ tb'.name = t ∧ tb'.fks.Perm tbO.fks ∧
          (∀ u, u ≠ t → db'.find u = db0.find u) ∧ db'.map (·.name) = db0.map (·.name) := by
  have hnc : new.all Stmt.colSafe = true :=
    List.all_eq_true.mpr (fun s hs => Stmt.colSafe_of_elemSafe s (List.all_eq_true.mp hn s hs))
  obtain ⟨td, htd, hname, cs, dc, is, hcs, his, hrun⟩ := table_spec_down_any g hg hio rc old new dbO dbN ho hn hpo hpn heo hen d hd
    t tbO tbN hfo hfn hc hne hpk hredef
  obtain ⟨td2, h21, h22, _, hfkall, hNf, hOf⟩ := fks_with_drops_end_to_end_down g hg rc old new dbO dbN ho hn heo hen d hd t tbO tbN hfo hfn
  -- uniqueness of the diffed record
  have hoc : old.all Stmt.colSafe = true :=
    List.all_eq_true.mpr (fun s hs => Stmt.colSafe_of_elemSafe s (List.all_eq_true.mp ho s hs))
  have hdInv : d.Inv := by
    have hd' := hd
    unfold loadAndDiff at hd'
    obtain ⟨o, hlo, hd'⟩ := bind_ok hd'
    obtain ⟨n, hln, hd'⟩ := bind_ok hd'
    obtain ⟨mo', hmo', hro'⟩ := ReaderMysql.run_rel rc old {} [] dbO Rel.empty hoc heo
    obtain ⟨mn, hmn', hrn⟩ := ReaderMysql.run_rel rc new {} [] dbN Rel.empty hnc hen
    have : mo' = o := by
      have : readScript g {} old = .ok mo' := by unfold readScript; rw [hg]; exact hmo'
      rw [this] at hlo; exact Except.ok.inj hlo
    subst this
    have : mn = n := by
      have : readScript g {} new = .ok mn := by unfold readScript; rw [hg]; exact hmn'
      rw [this] at hln; exact Except.ok.inj hln
    subst this
    exact Migration.diff_inv g.dialect mn mo' d hrn.inv hro'.inv hrn.np hd'
  have e2 : td2 = td := eq_of_name_nodup (fun x : Table => x.name) hdInv.tbls.nodup h21 htd (h22.trans hname.symm)
  subst e2
  obtain ⟨hproj, hshape⟩ := hfkall dc
  have hfkwf : tbO.FkWF := execAll_fkwf rc old [] dbO hoc fkwf_empty heo tbO (mem_of_find hfo)
  refine ⟨td2, htd, hname, cs, dc, is, hcs, his, ?_⟩
  intro db0 hnd0 hf0
  obtain ⟨db1, tb1, he1, hf1, hc1, hi1, hp1, hn1, hk1, hdcN, hother1, hnames1⟩ := hrun db0 hnd0 hf0
  obtain ⟨R, hR, hperm⟩ := Abs.Idx.emitDownKeepSup_correct dc tbN.fks tbO.fks hNf hOf hnr
    (fun s hs hcd => hdcN _ hcd (hfkwf s hs))
  have hnames : tb1.colNames = tbO.colNames := by
    show tb1.cols.map (·.name) = tbO.cols.map (·.name)
    exact colsEquiv_names _ _ hc1
  have hnd1 : (db1.map (·.name)).Nodup := by rw [hnames1]; exact hnd0
  obtain ⟨db2, he2, hf2, hother2, hnames2⟩ := execAll_fk (td2.migrationForeignKeyDown dc) db1 t tb1 R hnd1 hf1 hshape (by
      intro f hf
      rw [hproj] at hf
      have hfN := create_mem_emitDownKeepSup _ _ _ f hf
      rw [hnames]; exact hfkwf f hfN) (by rw [hk1, hproj]; exact hR)
  refine ⟨db2, { tb1 with fks := R }, ?_, hf2, hc1, hi1, hp1, hn1, hperm, ?_, hnames2.trans hnames1⟩
  · rw [execAll_append, he1]; exact he2
  · intro u hu
    rw [hother2 u hu, hother1 u hu]

/-- **C02, second half, foreign keys of a table both sides have**: every key statement the down migration prints for it
    acts on a key that differs between the two reference schemas -/
theorem fk_stmts_justified_down (g : Globals) (hg : g.dialect = .mysql) (rc : Bool)
    (old new : List Stmt) (dbO dbN : DB) (ho : old.all Stmt.elemSafe = true) (hn : new.all Stmt.elemSafe = true)
    (heo : execAll rc [] old = some dbO) (hen : execAll rc [] new = some dbN)
    (d : Migration) (hd : loadAndDiff g old new = .ok d)
    (t : String) (tbO tbN : TableSpec) (hfo : dbO.find t = some tbO) (hfn : dbN.find t = some tbN) :
    ∃ td ∈ d.tables, td.name = t ∧ ∀ dc, ∀ s ∈ td.migrationForeignKeyDown dc, justified dbN dbO s = true := by
  obtain ⟨td, htd, hname, _, hfkall, hNf, hOf⟩ := fks_with_drops_end_to_end_down g hg rc old new dbO dbN ho hn heo hen d hd t tbO tbN hfo hfn
  refine ⟨td, htd, hname, ?_⟩
  intro dc s hs
  obtain ⟨hproj, hshape⟩ := hfkall dc
  obtain ⟨ht', hsome⟩ := hshape s hs
  obtain ⟨a, ha⟩ := Option.isSome_iff_exists.mp hsome
  have hmem : a ∈ Abs.Idx.emitDownKeepSup dc tbN.fks tbO.fks := by
    rw [← hproj]; exact List.mem_filterMap.mpr ⟨s, hs, ha⟩
  cases s with
  | addFk t2 name col rt rcol =>
    have ht2 : t2 = t := ht'
    subst ht2
    have hae : a = .create { name := name, col := col, refT := rt, refC := rcol } := by
      simpa [fkStmt] using ha.symm
    subst hae
    unfold Abs.Idx.emitDownKeepSup at hmem
    rcases List.mem_append.mp hmem with h1 | h1
    · obtain ⟨o, _, he⟩ := List.mem_map.mp h1
      cases he
    · obtain ⟨f, hf, he⟩ := List.mem_map.mp h1
      have hfe : f = { name := name, col := col, refT := rt, refC := rcol } := by injection he
      obtain ⟨hfO, hc⟩ := List.mem_filter.mp hf
      have hnot : f.name ∉ Abs.Idx.names tbN.fks := by simpa using hc
      show (dbN.fk t2 name != dbO.fk t2 name) = true
      have h2 : dbO.fk t2 name = some f := by
        rw [fk_find dbO t2 tbO hfo]
        have := find?_of_mem_nodup (fun x : FkSpec => x.name) tbO.fks f hOf hfO
        rw [hfe] at this ⊢; exact this
      have h3 : dbN.fk t2 name = none := by
        rw [fk_find dbN t2 tbN hfn]
        apply List.find?_eq_none.mpr
        intro x hx hxn
        apply hnot
        have hxn : x.name = name := by simpa using hxn
        rw [hfe]
        show name ∈ _
        rw [← hxn]
        exact List.mem_map_of_mem (f := fun y : FkSpec => Abs.Idx.Named.name y) hx
      rw [h2, h3]; rfl
  | dropFk t2 name =>
    have ht2 : t2 = t := ht'
    subst ht2
    have hae : a = .drop name := by simpa [fkStmt] using ha.symm
    subst hae
    unfold Abs.Idx.emitDownKeepSup at hmem
    rcases List.mem_append.mp hmem with h1 | h1
    · obtain ⟨o, ho, he⟩ := List.mem_map.mp h1
      have hon : o.name = name := by injection he
      obtain ⟨hoN, hc⟩ := List.mem_filter.mp ho
      simp only [Bool.and_eq_true, Bool.not_eq_true'] at hc
      have hnot : o.name ∉ Abs.Idx.names tbO.fks := by simpa using hc.1
      show (dbN.fk t2 name != dbO.fk t2 name) = true
      have h2 : dbN.fk t2 name = some o := by
        rw [fk_find dbN t2 tbN hfn, ← hon]
        exact find?_of_mem_nodup (fun x : FkSpec => x.name) tbN.fks o hNf hoN
      have h3 : dbO.fk t2 name = none := by
        rw [fk_find dbO t2 tbO hfo]
        apply List.find?_eq_none.mpr
        intro x hx hxn
        apply hnot
        have hxn : x.name = name := by simpa using hxn
        rw [hon, ← hxn]
        exact List.mem_map_of_mem (f := fun y : FkSpec => Abs.Idx.Named.name y) hx
      rw [h2, h3]; rfl
    · obtain ⟨f, _, he⟩ := List.mem_map.mp h1
      cases he
  | _ => simp [fkStmt] at ha

end Sqlize
