import SqlizeModel.Proofs.Untouched

namespace Sqlize
open Spec

/-- same length, and every element of `nb` occurs as often in `na`: the lists are permutations of each other -/
theorem perm_of_counts {α : Type} [DecidableEq α] : ∀ (nb na : List α), na.length = nb.length →
    (∀ k ∈ nb, na.count k = nb.count k) → na.Perm nb := by
  intro nb
  induction nb with
  | nil => intro na hl _; rw [List.length_eq_zero_iff.mp hl]
  | cons k r ih =>
    intro na hl hc
    have hk : k ∈ na := by
      have := hc k (by simp)
      rw [List.count_cons_self] at this
      exact List.count_pos_iff.mp (by omega)
    have hp : na.Perm (k :: na.erase k) := List.perm_cons_erase hk
    refine hp.trans (List.Perm.cons k (ih (na.erase k) ?_ ?_))
    · have := hp.length_eq
      simp only [List.length_cons] at this hl
      omega
    · intro j hj
      by_cases hjk : j = k
      · subst hjk
        have := hc j (by simp)
        rw [List.count_cons_self] at this
        rw [List.count_erase_self]; omega
      · have := hc j (List.mem_cons_of_mem _ hj)
        rw [List.count_cons_of_ne (Ne.symm hjk)] at this
        rw [List.count_erase_of_ne hjk]; exact this

/-- a permutation of images under a function injective across the two lists is a permutation of the lists -/
theorem perm_of_map_perm {α β : Type} [DecidableEq α] (f : α → β) : ∀ (A B : List α),
    (∀ x ∈ A, ∀ y ∈ B, f x = f y → x = y) → (A.map f).Perm (B.map f) → A.Perm B := by
  intro A
  induction A with
  | nil =>
    intro B _ hp
    have := hp.length_eq
    simp only [List.map_nil, List.length_nil, List.length_map] at this
    rw [List.length_eq_zero_iff.mp this.symm]
  | cons x A' ih =>
    intro B hinj hp
    have hfx : f x ∈ B.map f := hp.subset (by simp)
    obtain ⟨y, hy, hfy⟩ := List.mem_map.mp hfx
    have hxy : x = y := hinj x (by simp) y hy hfy.symm
    subst hxy
    have hB : B.Perm (x :: B.erase x) := List.perm_cons_erase hy
    have h2 : (f x :: A'.map f).Perm (f x :: (B.erase x).map f) := by
      have := hp.trans (hB.map f)
      simpa using this
    have h3 := ih (B.erase x) (fun a ha b hb => hinj a (List.mem_cons_of_mem _ ha) b (List.mem_of_mem_erase hb)) h2.cons_inv
    exact (List.Perm.cons x h3).trans hB.symm

def _root_.Sqlize.Spec.COpt.noComment : COpt → Bool
  | .comment _ => false
  | _ => true

theorem str_prefix_ne (p r c : String) (h : p.toList.head? ≠ c.toList.head?) (hp : p.toList ≠ []) : p ++ r ≠ c := by
  intro he
  have := congrArg String.toList he
  simp only [String.toList_append] at this
  apply h
  rw [← this]
  cases hpl : p.toList with
  | nil => exact absurd hpl hp
  | cons a l => simp

theorem dqChars_inj : ∀ (a b : List Char), dqChars a = dqChars b → a = b := by
  intro a
  induction a with
  | nil =>
    intro b h
    cases b with
    | nil => rfl
    | cons y r => unfold dqChars at h; split at h <;> cases h
  | cons x ra ih =>
    intro b h
    cases b with
    | nil => unfold dqChars at h; split at h <;> cases h
    | cons y rb =>
      simp only [dqChars] at h
      by_cases hx : (x == '\'') = true
      · by_cases hy : (y == '\'') = true
        · rw [if_pos hx, if_pos hy] at h
          have hxe : x = '\'' := by simpa using hx
          have hye : y = '\'' := by simpa using hy
          rw [hxe, hye, ih rb (List.cons.inj (List.cons.inj h).2).2]
        · rw [if_pos hx, if_neg hy] at h
          have hye := (List.cons.inj h).1
          exact absurd (by rw [← hye]; rfl) hy
      · by_cases hy : (y == '\'') = true
        · rw [if_neg hx, if_pos hy] at h
          have hxe := (List.cons.inj h).1
          exact absurd (by rw [hxe]; rfl) hx
        · rw [if_neg hx, if_neg hy] at h
          rw [(List.cons.inj h).1, ih rb (List.cons.inj h).2]

theorem ne_default_key (c r : String) (hc : c.toList.head? ≠ some 'D') : c ≠ "DEFAULT " ++ r := by
  intro h
  apply hc
  rw [h, String.toList_append]
  rfl

theorem ne_comment_key (c t : String) (hc : c.toList.head? ≠ some 'C') : c ≠ "COMMENT '" ++ doubleQuotes t ++ "'" := by
  intro h
  apply hc
  rw [h, String.toList_append, String.toList_append]
  rfl

theorem default_ne_comment (r t : String) : "DEFAULT " ++ r ≠ "COMMENT '" ++ doubleQuotes t ++ "'" := by
  intro h
  have := congrArg (fun s => s.toList.head?) h
  simp only [String.toList_append] at this
  have e1 : ("DEFAULT ".toList ++ r.toList).head? = some 'D' := rfl
  have e2 : ("COMMENT '".toList ++ (doubleQuotes t).toList ++ "'".toList).head? = some 'C' := rfl
  rw [e1, e2] at this
  cases this

/-- the comparison key is injective -/
theorem ckey_inj (a b : COpt) (h : ckey a = ckey b) : a = b := by
  cases a with
  | notNull =>
    cases b with
    | notNull => rfl
    | null => exact absurd h (by decide)
    | autoInc => exact absurd h (by decide)
    | uniq => exact absurd h (by decide)
    | default r => exact absurd h (ne_default_key _ r (by decide))
    | comment t => exact absurd h (ne_comment_key _ t (by decide))
  | null =>
    cases b with
    | notNull => exact absurd h (by decide)
    | null => rfl
    | autoInc => exact absurd h (by decide)
    | uniq => exact absurd h (by decide)
    | default r => exact absurd h (ne_default_key _ r (by decide))
    | comment t => exact absurd h (ne_comment_key _ t (by decide))
  | autoInc =>
    cases b with
    | notNull => exact absurd h (by decide)
    | null => exact absurd h (by decide)
    | autoInc => rfl
    | uniq => exact absurd h (by decide)
    | default r => exact absurd h (ne_default_key _ r (by decide))
    | comment t => exact absurd h (ne_comment_key _ t (by decide))
  | uniq =>
    cases b with
    | notNull => exact absurd h (by decide)
    | null => exact absurd h (by decide)
    | autoInc => exact absurd h (by decide)
    | uniq => rfl
    | default r => exact absurd h (ne_default_key _ r (by decide))
    | comment t => exact absurd h (ne_comment_key _ t (by decide))
  | default r =>
    cases b with
    | notNull => exact absurd h.symm (ne_default_key _ r (by decide))
    | null => exact absurd h.symm (ne_default_key _ r (by decide))
    | autoInc => exact absurd h.symm (ne_default_key _ r (by decide))
    | uniq => exact absurd h.symm (ne_default_key _ r (by decide))
    | default r2 =>
      have := congrArg String.toList h
      simp only [ckey, String.toList_append] at this
      rw [String.toList_inj.mp (List.append_cancel_left this)]
    | comment t => exact absurd h (default_ne_comment r t)
  | comment t =>
    cases b with
    | notNull => exact absurd h.symm (ne_comment_key _ t (by decide))
    | null => exact absurd h.symm (ne_comment_key _ t (by decide))
    | autoInc => exact absurd h.symm (ne_comment_key _ t (by decide))
    | uniq => exact absurd h.symm (ne_comment_key _ t (by decide))
    | default r => exact absurd h.symm (default_ne_comment r t)
    | comment t2 =>
      have := congrArg String.toList h
      simp only [ckey, String.toList_append, doubleQuotes, String.toList_ofList] at this
      have h2 := List.append_cancel_left (List.append_cancel_right this)
      rw [String.toList_inj.mp (dqChars_inj _ _ h2)]

/-- converse of `hasChangedOptions_of_perm`: options that compare equal are the same option kinds and values up to
    order (all option kinds) -/
theorem perm_of_not_changed (a b : List Opt) (ha : ∀ o ∈ a, o.Plain) (hb : ∀ o ∈ b, o.Plain)
    (h : hasChangedOptions a b = false) : (Table.optKinds a).Perm (Table.optKinds b) := by
  unfold hasChangedOptions at h
  rw [keys_of_plain a ha, keys_of_plain b hb] at h
  simp only [Bool.or_eq_false_iff, bne_eq_false_iff_eq, beq_iff_eq] at h
  obtain ⟨hl, hc⟩ := h
  rw [List.any_eq_false] at hc
  have hp := perm_of_counts _ _ hl (fun k hk => by simpa using hc k hk)
  exact perm_of_map_perm ckey _ _ (fun x _ y _ hxy => ckey_inj x y hxy) hp

theorem changed_of_not_perm (a b : List Opt) (ha : ∀ o ∈ a, o.Plain) (hb : ∀ o ∈ b, o.Plain)
    (h : ¬ (Table.optKinds a).Perm (Table.optKinds b)) : hasChangedOptions a b = true := by
  cases hh : hasChangedOptions a b with
  | true => rfl
  | false => exact absurd (perm_of_not_changed a b ha hb hh) h

theorem foldl_pkFlag (f : List COpt × Bool → Opt → List COpt × Bool)
    (hf : ∀ acc o, (f acc o).2 = (acc.2 || o.kind == .primaryKey)) (os : List Opt) :
    ∀ acc, (os.foldl f acc).2 = (acc.2 || os.any (·.kind == .primaryKey)) := by
  induction os with
  | nil => intro acc; simp
  | cons o r ih =>
    intro acc
    rw [List.foldl_cons, ih, hf, List.any_cons, Bool.or_assoc]

/-- the PRIMARY KEY flag the reference engine reads off an option list -/
theorem optsOf_snd (os : List Opt) : (optsOf os).2 = os.any (·.kind == .primaryKey) := by
  unfold optsOf
  rw [foldl_pkFlag _ _ os]
  · simp
  · intro acc o
    cases hk : o.kind <;> simp [hk,
        (by decide : (OptKind.notNull == OptKind.primaryKey) = false), (by decide : (OptKind.null == OptKind.primaryKey) = false),
        (by decide : (OptKind.autoIncrement == OptKind.primaryKey) = false), (by decide : (OptKind.uniqKey == OptKind.primaryKey) = false),
        (by decide : (OptKind.default == OptKind.primaryKey) = false), (by decide : (OptKind.comment == OptKind.primaryKey) = false),
        (by decide : (OptKind.reference == OptKind.primaryKey) = false)]

namespace Table

/-- first column loop: a live column whose namesake compares different comes out `modify`, carrying the old attributes -/
theorem diffCols1_changed_mem (d : Dialect) (old : Table) (hold : old.Inv) : ∀ (cols cols' : List Column),
    diffCols1 d old cols = .ok cols' → ∀ c ∈ cols, c.action = .add →
    ∀ oc ∈ old.cols, oc.name = c.name → oc.action = .add →
    (hasChangedOptions c.cur.opts oc.cur.opts = true ∨ hasChangedType d c.cur.typ oc.cur.typ = .ok true) →
    ({ c with action := .modify, prev := oc.cur } : Column) ∈ cols' := by
  intro cols
  induction cols with
  | nil => intro cols' _ c hc; cases hc
  | cons x rest ih =>
    intro cols' hs c hc ha oc hoc hn hoa hch
    unfold diffCols1 at hs
    obtain ⟨x', hx', hs⟩ := bind_ok hs
    obtain ⟨rest', hr, hs⟩ := bind_ok hs
    have := pure_ok hs; subst this
    rcases List.mem_cons.mp hc with rfl | hc'
    · obtain ⟨j, hg, hgi⟩ := NInv.getIdx_of_mem (f := fun y : Column => y.name) hold.cols hoc "Table.Diff"
      rw [hn] at hg
      simp only [ha, hg, hgi, hoa, bind, Except.bind, pure, Except.pure, beq_self_eq_true, if_true,
        bne_iff_ne, ne_eq, reduceCtorEq, not_false_eq_true, decide_true] at hx'
      by_cases ho : hasChangedOptions c.cur.opts oc.cur.opts = true
      · rw [if_pos ho] at hx'
        rw [← Except.ok.inj hx']
        exact List.mem_cons_self
      · rw [if_neg ho] at hx'
        rcases hch with h1 | h1
        · exact absurd h1 ho
        · rw [h1] at hx'
          simp only [if_true] at hx'
          rw [← Except.ok.inj hx']
          exact List.mem_cons_self
    · exact List.mem_cons_of_mem _ (ih rest' hr c hc' ha oc hoc hn hoa hch)

/-- the column walk prints the MODIFY of every `modify` record: up with the current attributes, down with the previous -/
theorem walkCols_modify (g : Globals) (tb : String) (up : Bool) : ∀ (cols before : List Column) (c : Column),
    c ∈ cols → c.action = .modify →
    Stmt.modifyColumn tb (if up then { c.colDef false with stripPk := c.cur.isPk && c.prev.isPk }
                          else { c.colDef true with stripPk := c.prev.isPk && c.cur.isPk }) ∈ (walkCols g tb up before cols).1 := by
  intro cols
  induction cols with
  | nil => intro _ c hc; cases hc
  | cons x rest ih =>
    intro before c hc ha
    unfold walkCols
    simp only
    rcases List.mem_cons.mp hc with rfl | hc'
    · have hne : (c.action == .none) = false := by rw [ha]; rfl
      simp only [hne, Bool.false_eq_true, if_false]
      apply List.mem_append_left
      cases up
      · simp [Column.migrationDownAlter, Column.migrationUpAlter, ha, Column.colDef]
      · simp [Column.migrationUpAlter, ha]
    · have := ih (before ++ [x]) c hc' ha
      by_cases hnone : (x.action == .none) = true
      · simp only [hnone, if_true]; exact this
      · simp only [hnone, Bool.false_eq_true, if_false]
        exact List.mem_append_right _ this

/-- a column record up to the bare foreign-key marks `AddForeignKey` appends to its options -/
def ColLike (x x' : Column) : Prop :=
  x'.name = x.name ∧ x'.action = x.action ∧ x'.cur.typ = x.cur.typ ∧
    withoutFkMarks x'.cur.opts = withoutFkMarks x.cur.opts ∧ x'.prev = x.prev

theorem ColLike.refl (x : Column) : ColLike x x := ⟨rfl, rfl, rfl, rfl, rfl⟩

theorem ColLike.trans {x y z : Column} (h1 : ColLike x y) (h2 : ColLike y z) : ColLike x z :=
  ⟨h2.1.trans h1.1, h2.2.1.trans h1.2.1, h2.2.2.1.trans h1.2.2.1, h2.2.2.2.1.trans h1.2.2.2.1, h2.2.2.2.2.trans h1.2.2.2.2⟩

theorem addIndex_cols (t t' : Table) (idx : Index) (hs : t.addIndex idx = .ok t') : t'.cols = t.cols := by
  unfold addIndex at hs
  cases hg : t.idxIdx.get? idx.name with
  | none => rw [hg] at hs; have := pure_ok hs; subst this; rfl
  | some id =>
    rw [hg] at hs
    simp only at hs
    obtain ⟨l, _, hs⟩ := bind_ok hs
    have := pure_ok hs; subst this; rfl

theorem addForeignKey_like (t t' : Table) (fk : ForeignKey) (hs : t.addForeignKey fk = .ok t') :
    ∀ x ∈ t.cols, ∃ x' ∈ t'.cols, ColLike x x' := by
  unfold addForeignKey at hs
  obtain ⟨t1, h1, hs⟩ := bind_ok hs
  have := pure_ok hs; subst this
  have h1s : t1.cols = t.cols := by
    cases hg : t.fkIdx.get? fk.name with
    | none => rw [hg] at h1; have := pure_ok h1; subst this; rfl
    | some id =>
      rw [hg] at h1
      simp only at h1
      obtain ⟨l, _, h1⟩ := bind_ok h1
      have := pure_ok h1; subst this; rfl
  intro x hx
  rw [← h1s] at hx
  refine ⟨_, List.mem_map_of_mem hx, ?_⟩
  split
  · refine ⟨rfl, rfl, rfl, ?_, rfl⟩
    show withoutFkMarks (x.cur.opts ++ [_]) = _
    unfold withoutFkMarks
    rw [List.filter_append]
    simp
  · exact ColLike.refl x

theorem diffIdx2_cols (ois : List Index) : ∀ (t t' : Table), diffIdx2 t ois = .ok t' → t'.cols = t.cols := by
  induction ois with
  | nil => intro t t' hs; unfold diffIdx2 at hs; have := pure_ok hs; subst this; rfl
  | cons oi rest ih =>
    intro t t' hs
    unfold diffIdx2 at hs
    obtain ⟨t1, h1, hs⟩ := bind_ok hs
    have h1s : t1.cols = t.cols := by
      split at h1
      · exact addIndex_cols t t1 _ h1
      · have := pure_ok h1; subst this; rfl
    rw [ih t1 t' hs, h1s]

theorem diffFk2_like (ofs : List ForeignKey) : ∀ (t t' : Table), diffFk2 t ofs = .ok t' →
    ∀ x ∈ t.cols, ∃ x' ∈ t'.cols, ColLike x x' := by
  induction ofs with
  | nil => intro t t' hs; unfold diffFk2 at hs; have := pure_ok hs; subst this; exact fun x hx => ⟨x, hx, ColLike.refl x⟩
  | cons o rest ih =>
    intro t t' hs x hx
    unfold diffFk2 at hs
    obtain ⟨t1, h1, hs⟩ := bind_ok hs
    have h1x : ∃ x1 ∈ t1.cols, ColLike x x1 := by
      split at h1
      · exact addForeignKey_like t t1 _ h1 x hx
      · have := pure_ok h1; subst this; exact ⟨x, hx, ColLike.refl x⟩
    obtain ⟨x1, hx1, hl1⟩ := h1x
    obtain ⟨x', hx', hl'⟩ := ih t1 t' hs x1 hx1
    exact ⟨x', hx', hl1.trans hl'⟩

/-- `Table.Diff`: every record the two column loops leave is in the result, up to foreign-key marks -/
theorem diff_like (d : Dialect) (t old t' : Table) (hs : t.diff d old = .ok t') :
    ∃ cols1 t1, diffCols1 d old t.cols = .ok cols1 ∧
      diffCols2 (d == .mysql) { t with cols := cols1 } [] old.cols = .ok t1 ∧
      ∀ x ∈ t1.cols, ∃ x' ∈ t'.cols, ColLike x x' := by
  unfold diff at hs
  obtain ⟨cols, hc, hs⟩ := bind_ok hs
  obtain ⟨t1, h1, hs⟩ := bind_ok hs
  obtain ⟨idxs, hi, hs⟩ := bind_ok hs
  obtain ⟨t2, h2, hs⟩ := bind_ok hs
  obtain ⟨fks, hf, hs⟩ := bind_ok hs
  refine ⟨cols, t1, hc, h1, ?_⟩
  intro x hx
  have e2 := diffIdx2_cols old.idxs _ t2 h2
  have hx2 : x ∈ t2.cols := by rw [e2]; exact hx
  exact diffFk2_like old.fks _ t' hs x hx2

end Table

theorem optKinds_withoutFkMarks (l : List Opt) : Table.optKinds (withoutFkMarks l) = Table.optKinds l := by
  unfold Table.optKinds withoutFkMarks
  induction l with
  | nil => rfl
  | cons o r ih =>
    rw [List.filter_cons, List.filterMap_cons]
    by_cases hm : (o.kind == .reference && !o.hasExpr) = true
    · have hk : o.kind = .reference := by
        simp only [Bool.and_eq_true, beq_iff_eq] at hm; exact hm.1
      simp only [hm, Bool.not_true, Bool.false_eq_true, if_false]
      have : Table.optKind o = none := by unfold Table.optKind; rw [hk]
      rw [this]; exact ih
    · have : (!(o.kind == .reference && !o.hasExpr)) = true := by
        cases hb : (o.kind == .reference && !o.hasExpr) with
        | true => exact absurd hb hm
        | false => rfl
      rw [if_pos this, List.filterMap_cons, ih]

/-- an option list all of whose members are plain has no PRIMARY KEY option, and neither has a list that agrees with
    it up to bare foreign-key marks -/
theorem no_pk_of_like (a b : List Opt) (ha : ∀ o ∈ a, o.Plain) (h : withoutFkMarks b = withoutFkMarks a) :
    b.any (·.kind == .primaryKey) = false := by
  rw [List.any_eq_false]
  intro o ho hpk
  have hk : o.kind = .primaryKey := by simpa using hpk
  have hmem : o ∈ withoutFkMarks b := by
    unfold withoutFkMarks
    refine List.mem_filter.mpr ⟨ho, ?_⟩
    rw [hk]; rfl
  rw [h] at hmem
  have hoa : o ∈ a := (List.mem_filter.mp hmem).1
  rcases ha o hoa with hm | ⟨_, h2, _⟩
  · unfold Opt.isMark at hm
    simp only [Bool.and_eq_true, beq_iff_eq] at hm
    rw [hk] at hm; cases hm.1
  · exact h2 hk

/-- **C01 / C02: a column that differs between the two sides is modified, with the new definition going up and the old
    one going down**, end to end (MySQL reader model, column definitions without an inline PRIMARY KEY).  For two scripts
    the reference engine accepts and a table present on both sides: if a column of that table has another type on the
    two sides, or other options (all option kinds, compared up to order), then `MigrationColumnUp` of the
    diffed record prints a MODIFY COLUMN whose definition the reference engine reads as exactly the new side's column
    (same name, same type, same options up to order, no PRIMARY KEY flag), and `MigrationColumnDown` prints a MODIFY
    COLUMN it reads as the old side's column.  Together with `equal_column_untouched`: MODIFY exactly for the columns
    that differ. -/
theorem changed_column_modified (g : Globals) (hg : g.dialect = .mysql) (rc : Bool)
    (old new : List Stmt) (dbO dbN : DB) (ho : old.all Stmt.elemSafe = true) (hn : new.all Stmt.elemSafe = true)
    (hpo : old.all Stmt.plainOpts = true) (hpn : new.all Stmt.plainOpts = true)
    (heo : execAll rc [] old = some dbO) (hen : execAll rc [] new = some dbN)
    (d : Migration) (hd : loadAndDiff g old new = .ok d)
    (t : String) (tbO tbN : TableSpec) (hfo : dbO.find t = some tbO) (hfn : dbN.find t = some tbN)
    (cN cO : ColSpec) (hcN : cN ∈ tbN.cols) (hcO : cO ∈ tbO.cols) (hname : cO.name = cN.name)
    (hchg : cO.typ ≠ cN.typ ∨ ¬ cO.opts.Perm cN.opts) :
    ∃ td ∈ d.tables, td.name = t ∧ td.action = .none ∧
      (∃ cd, Stmt.modifyColumn t cd ∈ (Table.walkCols g t true [] td.cols).1 ∧
        (colOf cd).2 = false ∧ (colOf cd).1.name = cN.name ∧ (colOf cd).1.typ = cN.typ ∧ (colOf cd).1.opts.Perm cN.opts) ∧
      (∃ cd, Stmt.modifyColumn t cd ∈ (Table.walkCols g t false [] td.cols).1 ∧
        (colOf cd).2 = false ∧ (colOf cd).1.name = cO.name ∧ (colOf cd).1.typ = cO.typ ∧ (colOf cd).1.opts.Perm cO.opts) := by
  have hoc : old.all Stmt.colSafe = true :=
    List.all_eq_true.mpr (fun s hs => Stmt.colSafe_of_elemSafe s (List.all_eq_true.mp ho s hs))
  have hnc : new.all Stmt.colSafe = true :=
    List.all_eq_true.mpr (fun s hs => Stmt.colSafe_of_elemSafe s (List.all_eq_true.mp hn s hs))
  unfold loadAndDiff at hd
  obtain ⟨o, hlo, hd⟩ := bind_ok hd
  obtain ⟨n, hln, hd⟩ := bind_ok hd
  obtain ⟨mo, hmo', hro⟩ := ReaderMysql.run_rel rc old {} [] dbO Rel.empty hoc heo
  obtain ⟨mn, hmn', hrn⟩ := ReaderMysql.run_rel rc new {} [] dbN Rel.empty hnc hen
  have hplo : mo.Plain False := ReaderMysql.run_plain old {} mo Migration.plain_empty hpo (fun k => k.elim) hmo'
  have hpln : mn.Plain False := ReaderMysql.run_plain new {} mn Migration.plain_empty hpn (fun k => k.elim) hmn'
  have : mo = o := by
    have : readScript g {} old = .ok mo := by unfold readScript; rw [hg]; exact hmo'
    rw [this] at hlo; exact Except.ok.inj hlo
  subst this
  have : mn = n := by
    have : readScript g {} new = .ok mn := by unfold readScript; rw [hg]; exact hmn'
    rw [this] at hln; exact Except.ok.inj hln
  subst this
  obtain ⟨io, to, hgo, hmo, hdo, hnmo, hcolo, _, htyO⟩ := hro.lookup hfo
  obtain ⟨i, tn, _, hmn, hdn, hnmn, hcoln, _, htyN⟩ := hrn.lookup hfn
  have hmemo := List.mem_of_getElem? hmo
  have hmemn := List.mem_of_getElem? hmn
  unfold Migration.diff at hd
  obtain ⟨ts, h1, hd⟩ := bind_ok hd
  obtain ⟨td, htd, hspec⟩ := Migration.diffTables1_getElem g.dialect mo mn.tables ts i tn h1 hmn
  rw [hnmn, hgo] at hspec
  obtain ⟨ot, hot, hspec⟩ := hspec
  have : ot = to := by rw [hmo] at hot; exact (Option.some.inj hot).symm
  subst this
  have hex : ot.exists_ = true := by
    unfold Table.exists_; rw [(hro.fresh ot hmemo).2]; rfl
  rw [if_pos hex] at hspec
  obtain ⟨t1, ht1, htdeq⟩ := hspec
  obtain ⟨extra, hext⟩ := Migration.diffTables2_prefix mo.tables _ d hd
  have htd_mem : td ∈ d.tables := by
    rw [hext]; exact List.mem_append_left _ (List.mem_of_getElem? htd)
  have hi_n := hrn.inv.each tn hmemn
  have hi_o := hro.inv.each ot hmemo
  have hdi := Table.diff_inv g.dialect tn ot t1 hi_n hi_o (hrn.np tn hmemn) ht1
  have hname' : td.name = t := by rw [htdeq]; show t1.name = t; rw [hdi.2]; exact hnmn
  -- the two model columns of that name
  have hmN : cN.name ∈ tn.colNames := by rw [hcoln]; exact List.mem_map_of_mem hcN
  obtain ⟨c, hc, hcn⟩ := List.mem_map.mp hmN
  have hmO : cO.name ∈ ot.colNames := by rw [hcolo]; exact List.mem_map_of_mem hcO
  obtain ⟨oc, hoc', hocn⟩ := List.mem_map.mp hmO
  obtain ⟨cs, hcs, hcsn, hcst, hcso⟩ := htyN c hc
  obtain ⟨cs', hcs', hcsn', hcst', hcso'⟩ := htyO oc hoc'
  have hndN : tbN.colNames.Nodup := by rw [← hcoln]; exact hi_n.cols.nodup
  have hndO : tbO.colNames.Nodup := by rw [← hcolo]; exact hi_o.cols.nodup
  have e1 : cs = cN := eq_of_name_nodup (fun x : ColSpec => x.name) hndN hcs hcN (hcsn.trans hcn)
  have e2 : cs' = cO := eq_of_name_nodup (fun x : ColSpec => x.name) hndO hcs' hcO (hcsn'.trans hocn)
  rw [e1] at hcst hcso
  rw [e2] at hcst' hcso'
  have hplc := (hpln tn hmemn).opts c hc
  have hploc := (hplo ot hmemo).opts oc hoc'
  -- what the first loop of `Table.Diff` sees
  have hdiff : hasChangedOptions c.cur.opts oc.cur.opts = true ∨ hasChangedType g.dialect c.cur.typ oc.cur.typ = .ok true := by
    rcases hchg with ht | hnp
    · right
      rw [hcst, hcst', hg]
      have : (cN.typ != cO.typ) = true := by simpa using (Ne.symm ht)
      simp [hasChangedType, pure, Except.pure, this]
    · left
      refine changed_of_not_perm _ _ hplc hploc ?_
      intro hp
      exact hnp (hcso'.symm.trans (hp.symm.trans hcso))
  -- through `Table.Diff`
  obtain ⟨cols1, tc, hc1, hc2, hlike⟩ := Table.diff_like g.dialect tn ot t1 ht1
  have h0 := Table.diffCols1_changed_mem g.dialect ot hi_o tn.cols cols1 hc1 c hc ((hrn.fresh tn hmemn).1 c hc)
    oc hoc' (hocn.trans (hname.trans hcn.symm)) ((hro.fresh ot hmemo).1 oc hoc') hdiff
  have h0' : ({ c with action := .modify, prev := oc.cur } : Column) ∈ tc.cols :=
    Table.diffCols2_keeps _ ot.cols { tn with cols := cols1 } tc [] hc2 _ h0
  obtain ⟨x, hx, hxn, hxa, hxt, hxo, hxp⟩ := hlike _ h0'
  have hxtd : x ∈ td.cols := by rw [htdeq]; exact hx
  have hxn : x.name = cN.name := hxn.trans hcn
  have hxa : x.action = .modify := hxa
  have hxt : x.cur.typ = some cN.typ := hxt.trans hcst
  have hxo : withoutFkMarks x.cur.opts = withoutFkMarks c.cur.opts := hxo
  have hxp : x.prev = oc.cur := hxp
  have hnopk : x.cur.opts.any (·.kind == .primaryKey) = false := no_pk_of_like _ _ hplc hxo
  have hnopkP : x.prev.opts.any (·.kind == .primaryKey) = false := by
    rw [hxp]; exact no_pk_of_like _ _ hploc rfl
  refine ⟨td, htd_mem, hname', by rw [htdeq], ?_, ?_⟩
  · refine ⟨_, Table.walkCols_modify g t true td.cols [] x hxtd hxa, ?_, ?_, ?_, ?_⟩
    · show ((optsOf x.cur.opts).2 && !(x.cur.isPk && x.prev.isPk)) = false
      rw [optsOf_snd, hnopk]; rfl
    · exact hxn
    · show x.cur.typeText = cN.typ
      unfold Attr.typeText; rw [hxt]; rfl
    · show (optsOf x.cur.opts).1.Perm cN.opts
      rw [Table.optsOf_fst, ← optKinds_withoutFkMarks, hxo, optKinds_withoutFkMarks]
      exact hcso
  · refine ⟨_, Table.walkCols_modify g t false td.cols [] x hxtd hxa, ?_, ?_, ?_, ?_⟩
    · show ((optsOf x.prev.opts).2 && !(x.prev.isPk && x.cur.isPk)) = false
      rw [optsOf_snd, hnopkP]; rfl
    · show x.name = cO.name
      rw [hxn, hname]
    · show x.prev.typeText = cO.typ
      unfold Attr.typeText; rw [hxp, hcst']; rfl
    · show (optsOf x.prev.opts).1.Perm cO.opts
      rw [Table.optsOf_fst, hxp]
      exact hcso'

end Sqlize
