/-
  Proofs/StripExec.lean — the reference engine and the positional clause.  Executing a script whose ADD COLUMN statements
  have lost their positional clause (`Spec.stripPosition`) succeeds whenever the original does, and ends in the same
  schema up to the order of columns inside the tables (`DBR`): same tables in the same order, the same column records,
  primary key, indexes and foreign keys.  (All seventeen statement kinds.)
-/
import SqlizeModel.Proofs.SpecUnchanged
import SqlizeModel.Proofs.FidelityElems
import SqlizeModel.Proofs.ExecCreate

namespace Sqlize
open Spec

/-- the same table up to the order of its columns -/
def TR (a b : TableSpec) : Prop := a.name = b.name ∧ a.cols.Perm b.cols ∧ a.pk = b.pk ∧ a.idxs = b.idxs ∧ a.fks = b.fks

/-- the same schema up to the order of the columns inside the tables -/
def DBR : DB → DB → Prop
  | [], [] => True
  | a :: as, b :: bs => TR a b ∧ DBR as bs
  | _, _ => False

theorem TR.refl (a : TableSpec) : TR a a := ⟨rfl, List.Perm.refl _, rfl, rfl, rfl⟩

theorem DBR.refl : ∀ (a : DB), DBR a a
  | [] => trivial
  | x :: r => ⟨TR.refl x, DBR.refl r⟩

theorem anyPerm {α : Type} {l l' : List α} (h : l.Perm l') (p : α → Bool) : l.any p = l'.any p := by
  induction h with
  | nil => rfl
  | cons x _ ih => simp [List.any_cons, ih]
  | swap x y l => simp [List.any_cons, Bool.or_left_comm]
  | trans _ _ ih1 ih2 => exact ih1.trans ih2

theorem TR.hasCol {a b : TableSpec} (h : TR a b) (c : String) : a.hasCol c = b.hasCol c := by
  unfold TableSpec.hasCol
  exact anyPerm h.2.1 _

theorem DBR.has : ∀ {a b : DB}, DBR a b → ∀ t, a.has t = b.has t
  | [], [], _, _ => rfl
  | x :: r, y :: r', h, t => by
    unfold DB.has
    rw [List.any_cons, List.any_cons, h.1.1]
    congr 1
    exact DBR.has h.2 t
  | [], _ :: _, h, _ => h.elim
  | _ :: _, [], h, _ => h.elim

theorem DBR.find : ∀ {a b : DB}, DBR a b → ∀ t,
    (a.find t = none ∧ b.find t = none) ∨ (∃ ta tb, a.find t = some ta ∧ b.find t = some tb ∧ TR ta tb)
  | [], [], _, _ => Or.inl ⟨rfl, rfl⟩
  | x :: r, y :: r', h, t => by
    unfold DB.find
    rw [List.find?_cons, List.find?_cons, ← h.1.1]
    cases hx : (x.name == t) with
    | true => exact Or.inr ⟨x, y, rfl, rfl, h.1⟩
    | false => exact DBR.find h.2 t
  | [], _ :: _, h, _ => h.elim
  | _ :: _, [], h, _ => h.elim

theorem DBR.replace : ∀ {a b : DB}, DBR a b → ∀ {ta tb : TableSpec}, TR ta tb → DBR (a.replace ta) (b.replace tb)
  | [], [], _, _, _, _ => trivial
  | x :: r, y :: r', h, ta, tb, ht => by
    unfold DB.replace
    rw [List.map_cons, List.map_cons]
    refine ⟨?_, DBR.replace h.2 ht⟩
    rw [← h.1.1, ← ht.1]
    split
    · exact ht
    · exact h.1
  | [], _ :: _, h, _, _, _ => h.elim
  | _ :: _, [], h, _, _, _ => h.elim

theorem DBR.filter (p q : TableSpec → Bool) : ∀ {a b : DB}, DBR a b → (∀ x y, TR x y → p x = q y) → DBR (a.filter p) (b.filter q)
  | [], [], _, _ => trivial
  | x :: r, y :: r', h, hpq => by
    rw [List.filter_cons, List.filter_cons, hpq x y h.1]
    split
    · exact ⟨h.1, DBR.filter p q h.2 hpq⟩
    · exact DBR.filter p q h.2 hpq
  | [], _ :: _, h, _ => h.elim
  | _ :: _, [], h, _ => h.elim

theorem DBR.append : ∀ {a b : DB}, DBR a b → ∀ (t : TableSpec), DBR (a ++ [t]) (b ++ [t])
  | [], [], _, t => ⟨TR.refl t, trivial⟩
  | x :: r, y :: r', h, t => ⟨h.1, DBR.append h.2 t⟩
  | [], _ :: _, h, _ => h.elim
  | _ :: _, [], h, _ => h.elim

theorem DBR.any (p q : TableSpec → Bool) : ∀ {a b : DB}, DBR a b → (∀ x y, TR x y → p x = q y) → a.any p = b.any q
  | [], [], _, _ => rfl
  | x :: r, y :: r', h, hpq => by
    rw [List.any_cons, List.any_cons, hpq x y h.1, DBR.any p q h.2 hpq]
  | [], _ :: _, h, _ => h.elim
  | _ :: _, [], h, _ => h.elim

theorem DBR.map (f : List FkSpec → List FkSpec) : ∀ {a b : DB}, DBR a b →
    DBR (a.map (fun x => { x with fks := f x.fks })) (b.map (fun x => { x with fks := f x.fks }))
  | [], [], _ => trivial
  | x :: r, y :: r', h => ⟨⟨h.1.1, h.1.2.1, h.1.2.2.1, h.1.2.2.2.1, by show f x.fks = f y.fks; rw [h.1.2.2.2.2]⟩, DBR.map f h.2⟩
  | [], _ :: _, h => h.elim
  | _ :: _, [], h => h.elim

theorem insertAfter_perm (p : String) (c : ColSpec) : ∀ (l l' : List ColSpec), insertAfter p c l = some l' → l'.Perm (c :: l) := by
  intro l
  induction l with
  | nil => intro l' h; simp [insertAfter] at h
  | cons x r ih =>
    intro l' h
    unfold insertAfter at h
    split at h
    · have := Option.some.inj h; subst this
      exact List.Perm.swap c x r
    · cases hr : insertAfter p c r with
      | none => rw [hr] at h; cases h
      | some r' =>
        rw [hr] at h
        have := Option.some.inj h; subst this
        exact ((ih r' hr).cons x).trans (List.Perm.swap c x r)

theorem TR.allHasCol {a b : TableSpec} (h : TR a b) (cols : List String) : cols.all a.hasCol = cols.all b.hasCol := by
  induction cols with
  | nil => rfl
  | cons c r ih => rw [List.all_cons, List.all_cons, h.hasCol c, ih]

/-- **one statement**: from schemas equal up to column order, a statement and the same
    statement without its positional clause succeed together and keep the schemas equal up to column order -/
theorem exec_strip (rc : Bool) {a b : DB} (hab : DBR a b) (s : Stmt) {a1 : DB}
    (he : exec rc a s = some a1) : ∃ b1, exec rc b (stripPosition s) = some b1 ∧ DBR a1 b1 := by
  cases s with
  | createTable t i cols pk =>
    rw [show stripPosition (.createTable t i cols pk) = .createTable t i cols pk from rfl]
    rw [exec_createTable] at he ⊢
    rw [← hab.has t]
    split at he
    · cases he
    · rename_i h1
      rw [if_neg h1]
      cases hm : mkTable t cols pk with
      | none => rw [hm] at he; cases he
      | some tb =>
        rw [hm] at he
        have := Option.some.inj he; subst this
        exact ⟨_, rfl, hab.append tb⟩
  | dropTable t =>
    simp only [stripPosition, exec] at he ⊢
    rw [← hab.has t]
    have hany : a.any (fun o => o.name != t && o.fks.any (·.refT == t)) = b.any (fun o => o.name != t && o.fks.any (·.refT == t)) :=
      hab.any _ _ (fun x y h => by rw [h.1, h.2.2.2.2])
    rw [← hany]
    split at he
    · cases he
    · split at he
      · cases he
      · rename_i h1 h2
        have := Option.some.inj he; subst this
        simp only [h1, h2, if_false, Bool.false_eq_true]
        exact ⟨_, rfl, hab.filter _ _ (fun x y h => by rw [h.1])⟩
  | addColumn t c pos =>
    rcases hab.find t with ⟨h1, h2⟩ | ⟨ta, tb, h1, h2, htr⟩
    · simp only [exec, h1] at he; cases he
    · have hstrip : stripPosition (.addColumn t c pos) = .addColumn t c .none := rfl
      rw [hstrip]
      simp only [exec, h1] at he
      simp only [exec, h2]
      rw [← htr.hasCol c.name, ← htr.2.2.1]
      split at he
      · cases he
      · split at he
        · cases he
        · rename_i hc1 hc2
          simp only [hc1, hc2, if_false, Bool.false_eq_true]
          have hfin : ∀ cols : List ColSpec, cols.Perm ((colOf c).1 :: ta.cols) →
              DBR (a.replace { ta with cols := cols, pk := if (colOf c).2 = true then [c.name] else ta.pk })
                (b.replace { tb with cols := tb.cols ++ [(colOf c).1], pk := if (colOf c).2 = true then [c.name] else ta.pk }) := by
            intro cols hp
            refine hab.replace ⟨htr.1, ?_, rfl, htr.2.2.2.1, htr.2.2.2.2⟩
            exact hp.trans ((htr.2.1.cons _).trans (List.perm_append_comm (l₁ := [(colOf c).1]) (l₂ := tb.cols)))
          cases pos with
          | none =>
            simp only at he
            have := Option.some.inj he; subst this
            exact ⟨_, rfl, hfin _ List.perm_append_comm⟩
          | first =>
            simp only at he
            have := Option.some.inj he; subst this
            exact ⟨_, rfl, hfin _ (List.Perm.refl _)⟩
          | after p =>
            simp only at he
            cases hins : insertAfter p (colOf c).1 ta.cols with
            | none => rw [hins] at he; cases he
            | some cols =>
              rw [hins] at he
              have := Option.some.inj he; subst this
              exact ⟨_, rfl, hfin cols (insertAfter_perm p _ _ _ hins)⟩
  | dropColumn t c =>
    simp only [stripPosition, exec] at he ⊢
    rcases hab.find t with ⟨h1, h2⟩ | ⟨ta, tb, h1, h2, htr⟩
    · rw [h1] at he; cases he
    · rw [h1] at he
      rw [h2]
      simp only at he ⊢
      have hany : a.any (fun o => o.fks.any (fun f => f.refT == t && f.refC == c)) = b.any (fun o => o.fks.any (fun f => f.refT == t && f.refC == c)) :=
        hab.any _ _ (fun x y h => by rw [h.2.2.2.2])
      rw [← htr.hasCol c, ← hany]
      split at he
      · cases he
      · split at he
        · cases he
        · rename_i hc1 hc2
          have := Option.some.inj he; subst this
          simp only [hc1, hc2, if_false, Bool.false_eq_true]
          refine ⟨_, rfl, hab.replace ⟨htr.1, htr.2.1.filter _, ?_, ?_, ?_⟩⟩
          · show ta.pk.filter _ = tb.pk.filter _; rw [htr.2.2.1]
          · show (List.filter _ (List.map _ ta.idxs)) = (List.filter _ (List.map _ tb.idxs)); rw [htr.2.2.2.1]
          · show ta.fks.filter _ = tb.fks.filter _; rw [htr.2.2.2.2]
  | modifyColumn t c =>
    simp only [stripPosition, exec] at he ⊢
    rcases hab.find t with ⟨h1, h2⟩ | ⟨ta, tb, h1, h2, htr⟩
    · rw [h1] at he; cases he
    · rw [h1] at he
      rw [h2]
      simp only at he ⊢
      rw [← htr.hasCol c.name, ← htr.2.2.1]
      split at he
      · cases he
      · split at he
        · cases he
        · rename_i hc1 hc2
          have := Option.some.inj he; subst this
          simp only [hc1, hc2, if_false, Bool.false_eq_true]
          exact ⟨_, rfl, hab.replace ⟨htr.1, htr.2.1.map _, rfl, htr.2.2.2.1, htr.2.2.2.2⟩⟩
  | addPrimaryKey t cols =>
    simp only [stripPosition, exec] at he ⊢
    rcases hab.find t with ⟨h1, h2⟩ | ⟨ta, tb, h1, h2, htr⟩
    · rw [h1] at he; cases he
    · rw [h1] at he
      rw [h2]
      simp only at he ⊢
      rw [← htr.allHasCol cols, ← htr.2.2.1]
      split at he
      · cases he
      · rename_i hc1
        have := Option.some.inj he; subst this
        simp only [hc1, if_false, Bool.false_eq_true]
        exact ⟨_, rfl, hab.replace ⟨htr.1, htr.2.1, rfl, htr.2.2.2.1, htr.2.2.2.2⟩⟩
  | addFk t name col rt rcol =>
    simp only [stripPosition, exec] at he ⊢
    rcases hab.find t with ⟨h1, h2⟩ | ⟨ta, tb, h1, h2, htr⟩
    · rw [h1] at he; cases he
    · rw [h1] at he
      rw [h2]
      simp only at he ⊢
      have href : ((a.find rt).map (·.hasCol rcol)).getD false = ((b.find rt).map (·.hasCol rcol)).getD false := by
        rcases hab.find rt with ⟨g1, g2⟩ | ⟨ra, rb, g1, g2, gtr⟩
        · rw [g1, g2]
        · rw [g1, g2]; simp only [Option.map_some, Option.getD_some]; exact gtr.hasCol rcol
      rw [← htr.hasCol col, ← htr.2.2.2.2, ← href]
      split at he
      · cases he
      · split at he
        · cases he
        · rename_i hc1 hc2
          have := Option.some.inj he; subst this
          simp only [hc1, hc2, if_false, Bool.false_eq_true]
          exact ⟨_, rfl, hab.replace ⟨htr.1, htr.2.1, htr.2.2.1, htr.2.2.2.1, rfl⟩⟩
  | dropFk t name =>
    simp only [stripPosition, exec] at he ⊢
    rcases hab.find t with ⟨h1, h2⟩ | ⟨ta, tb, h1, h2, htr⟩
    · rw [h1] at he; cases he
    · rw [h1] at he
      rw [h2]
      simp only at he ⊢
      rw [← htr.2.2.2.2]
      split at he
      · cases he
      · rename_i hc1
        have := Option.some.inj he; subst this
        simp only [hc1, if_false, Bool.false_eq_true]
        exact ⟨_, rfl, hab.replace ⟨htr.1, htr.2.1, htr.2.2.1, htr.2.2.2.1, rfl⟩⟩
  | createIndex t name cols uniq u =>
    simp only [stripPosition, exec] at he ⊢
    rcases hab.find t with ⟨h1, h2⟩ | ⟨ta, tb, h1, h2, htr⟩
    · rw [h1] at he; cases he
    · rw [h1] at he
      rw [h2]
      simp only at he ⊢
      rw [← htr.allHasCol cols, ← htr.2.2.2.1]
      split at he
      · cases he
      · rename_i hc1
        have := Option.some.inj he; subst this
        simp only [hc1, if_false, Bool.false_eq_true]
        exact ⟨_, rfl, hab.replace ⟨htr.1, htr.2.1, htr.2.2.1, rfl, htr.2.2.2.2⟩⟩
  | dropIndex t name =>
    simp only [stripPosition, exec] at he ⊢
    rcases hab.find t with ⟨h1, h2⟩ | ⟨ta, tb, h1, h2, htr⟩
    · rw [h1] at he; cases he
    · rw [h1] at he
      rw [h2]
      simp only at he ⊢
      rw [← htr.2.2.2.1]
      split at he
      · cases he
      · rename_i hc1
        have := Option.some.inj he; subst this
        simp only [hc1, if_false, Bool.false_eq_true]
        exact ⟨_, rfl, hab.replace ⟨htr.1, htr.2.1, htr.2.2.1, rfl, htr.2.2.2.2⟩⟩
  | dropPrimaryKey t =>
    simp only [stripPosition, exec] at he ⊢
    rcases hab.find t with ⟨h1, h2⟩ | ⟨ta, tb, h1, h2, htr⟩
    · rw [h1] at he; cases he
    · rw [h1] at he
      rw [h2]
      simp only at he ⊢
      rw [← htr.2.2.1]
      split at he
      · cases he
      · rename_i hc1
        have := Option.some.inj he; subst this
        simp only [hc1, if_false, Bool.false_eq_true]
        exact ⟨_, rfl, hab.replace ⟨htr.1, htr.2.1, rfl, htr.2.2.2.1, htr.2.2.2.2⟩⟩
  | renameColumn t o n =>
    simp only [stripPosition, exec] at he ⊢
    rcases hab.find t with ⟨h1, h2⟩ | ⟨ta, tb, h1, h2, htr⟩
    · rw [h1] at he; cases he
    · rw [h1] at he
      rw [h2]
      simp only at he ⊢
      rw [← htr.hasCol o, ← htr.hasCol n]
      split at he
      · cases he
      · rename_i hc1
        have := Option.some.inj he; subst this
        simp only [hc1, if_false, Bool.false_eq_true]
        refine ⟨_, rfl, DBR.map _ (hab.replace ⟨htr.1, htr.2.1.map _, ?_, ?_, ?_⟩)⟩
        · show renameIn o n ta.pk = renameIn o n tb.pk; rw [htr.2.2.1]
        · show ta.idxs.map _ = tb.idxs.map _; rw [htr.2.2.2.1]
        · show ta.fks.map _ = tb.fks.map _; rw [htr.2.2.2.2]
  | renameIndex t o n =>
    simp only [stripPosition, exec] at he ⊢
    rcases hab.find t with ⟨h1, h2⟩ | ⟨ta, tb, h1, h2, htr⟩
    · rw [h1] at he; cases he
    · rw [h1] at he
      rw [h2]
      simp only at he ⊢
      rw [← htr.2.2.2.1]
      split at he
      · cases he
      · rename_i hc1
        have := Option.some.inj he; subst this
        simp only [hc1, if_false, Bool.false_eq_true]
        exact ⟨_, rfl, hab.replace ⟨htr.1, htr.2.1, htr.2.2.1, rfl, htr.2.2.2.2⟩⟩
  | commentOn t c x =>
    simp only [stripPosition, exec] at he ⊢
    rcases hab.find t with ⟨h1, h2⟩ | ⟨ta, tb, h1, h2, htr⟩
    · rw [h1] at he; cases he
    · rw [h1] at he
      rw [h2]
      simp only at he ⊢
      rw [← htr.hasCol c]
      split at he
      · rename_i hc0
        have := Option.some.inj he; subst this
        rw [if_pos hc0]
        exact ⟨_, rfl, hab⟩
      · rename_i hc0
        rw [if_neg hc0]
        split at he
        · cases he
        · rename_i hc1
          have := Option.some.inj he; subst this
          simp only [hc1, if_false, Bool.false_eq_true]
          exact ⟨_, rfl, hab.replace ⟨htr.1, htr.2.1.map _, htr.2.2.1, htr.2.2.2.1, htr.2.2.2.2⟩⟩
  | alterType t c x =>
    simp only [stripPosition, exec] at he ⊢
    rcases hab.find t with ⟨h1, h2⟩ | ⟨ta, tb, h1, h2, htr⟩
    · rw [h1] at he; cases he
    · rw [h1] at he
      rw [h2]
      simp only at he ⊢
      rw [← htr.hasCol c]
      split at he
      · cases he
      · rename_i hc1
        have := Option.some.inj he; subst this
        simp only [hc1, if_false, Bool.false_eq_true]
        exact ⟨_, rfl, hab.replace ⟨htr.1, htr.2.1.map _, htr.2.2.1, htr.2.2.2.1, htr.2.2.2.2⟩⟩
  | setDefault t c x =>
    simp only [stripPosition, exec] at he ⊢
    rcases hab.find t with ⟨h1, h2⟩ | ⟨ta, tb, h1, h2, htr⟩
    · rw [h1] at he; cases he
    · rw [h1] at he
      rw [h2]
      simp only at he ⊢
      rw [← htr.hasCol c]
      split at he
      · cases he
      · rename_i hc1
        have := Option.some.inj he; subst this
        simp only [hc1, if_false, Bool.false_eq_true]
        exact ⟨_, rfl, hab.replace ⟨htr.1, htr.2.1.map _, htr.2.2.1, htr.2.2.2.1, htr.2.2.2.2⟩⟩
  | dropNotNull t c =>
    simp only [stripPosition, exec] at he ⊢
    rcases hab.find t with ⟨h1, h2⟩ | ⟨ta, tb, h1, h2, htr⟩
    · rw [h1] at he; cases he
    · rw [h1] at he
      rw [h2]
      simp only at he ⊢
      rw [← htr.hasCol c]
      split at he
      · cases he
      · rename_i hc1
        have := Option.some.inj he; subst this
        simp only [hc1, if_false, Bool.false_eq_true]
        exact ⟨_, rfl, hab.replace ⟨htr.1, htr.2.1.map _, htr.2.2.1, htr.2.2.2.1, htr.2.2.2.2⟩⟩

/-- **a whole script**: without its positional clauses it is accepted whenever the original is, and ends in the same
    schema up to the order of the columns -/
theorem execAll_strip (rc : Bool) : ∀ (ss : List Stmt) {a b a1 : DB}, DBR a b →
    execAll rc a ss = some a1 → ∃ b1, execAll rc b (ss.map stripPosition) = some b1 ∧ DBR a1 b1 := by
  intro ss
  induction ss with
  | nil =>
    intro a b a1 hab he
    simp only [execAll] at he
    have := Option.some.inj he; subst this
    exact ⟨b, rfl, hab⟩
  | cons s r ih =>
    intro a b a1 hab he
    simp only [execAll] at he
    cases h1 : exec rc a s with
    | none => rw [h1] at he; cases he
    | some a2 =>
      rw [h1] at he
      simp only [Option.bind_some] at he
      obtain ⟨b2, hb2, hab2⟩ := exec_strip rc hab s h1
      obtain ⟨b1, hb1, hab1⟩ := ih hab2 he
      exact ⟨b1, by simp only [List.map_cons, execAll, hb2, Option.bind_some]; exact hb1, hab1⟩

theorem justified_strip (a b : DB) (s : Stmt) : justified a b (stripPosition s) = justified a b s := by
  cases s <;> rfl

theorem DBR.length : ∀ {a b : DB}, DBR a b → a.length = b.length
  | [], [], _ => rfl
  | _ :: _, _ :: _, h => by simp [DBR.length h.2]
  | [], _ :: _, h => h.elim
  | _ :: _, [], h => h.elim

theorem colsEquiv_mem_equiv : ∀ (a b : List ColSpec), colsEquiv a b = true → ∀ c ∈ a, ∃ d ∈ b, c.equiv d = true := by
  intro a
  induction a with
  | nil => intro b _ c hc; cases hc
  | cons x r ih =>
    intro b h c hc
    cases b with
    | nil => simp [colsEquiv] at h
    | cons y r' =>
      simp only [colsEquiv, Bool.and_eq_true] at h
      rcases List.mem_cons.mp hc with rfl | hc'
      · exact ⟨y, by simp, h.1⟩
      · obtain ⟨d, hd, hcd⟩ := ih r' h.2 c hc'
        exact ⟨d, List.mem_cons_of_mem _ hd, hcd⟩

theorem colsEquiv_length : ∀ (a b : List ColSpec), colsEquiv a b = true → a.length = b.length := by
  intro a
  induction a with
  | nil => intro b h; cases b with
    | nil => rfl
    | cons _ _ => simp [colsEquiv] at h
  | cons x r ih =>
    intro b h
    cases b with
    | nil => simp [colsEquiv] at h
    | cons y r' =>
      simp only [colsEquiv, Bool.and_eq_true] at h
      simp [ih r' h.2]

/-- a table equal to `u` in the ordered sense, with its columns shuffled, is equal to `u` in the unordered sense -/
theorem TR.equivUnordered {t t' u : TableSpec} (h : TR t t') (he : t.equiv u = true) : t'.equivUnordered u = true := by
  unfold TableSpec.equiv at he
  simp only [Bool.and_eq_true, beq_iff_eq] at he
  obtain ⟨⟨⟨⟨h1, h2⟩, h3⟩, h4⟩, h5⟩ := he
  unfold TableSpec.equivUnordered
  simp only [Bool.and_eq_true, beq_iff_eq]
  refine ⟨⟨⟨⟨⟨h.1.symm.trans h1, ?_⟩, ?_⟩, h.2.2.1.symm.trans h3⟩, by rw [← h.2.2.2.1]; exact h4⟩, by rw [← h.2.2.2.2]; exact h5⟩
  · rw [← h.2.1.length_eq]; exact colsEquiv_length _ _ h2
  · rw [List.all_eq_true]
    intro c hc
    obtain ⟨d, hd, hcd⟩ := colsEquiv_mem_equiv _ _ h2 c (h.2.1.mem_iff.mpr hc)
    exact List.any_eq_true.mpr ⟨d, hd, hcd⟩

theorem DBR.equivUnordered {a1 b1 : DB} (dbN : DB) (h : DBR a1 b1) (he : a1.equiv dbN = true) : b1.equivUnordered dbN = true := by
  unfold DB.equiv DB.equivBy at he
  unfold DB.equivUnordered DB.equivBy
  simp only [Bool.and_eq_true, beq_iff_eq] at he ⊢
  refine ⟨by rw [← h.length]; exact he.1, ?_⟩
  have key : ∀ (x y : DB), DBR x y →
      x.all (fun t => match dbN.find t.name with | some u => t.equiv u | none => false) = true →
      y.all (fun t => match dbN.find t.name with | some u => t.equivUnordered u | none => false) = true := by
    intro x
    induction x with
    | nil => intro y hxy _; cases y with
      | nil => rfl
      | cons _ _ => exact hxy.elim
    | cons t r ih =>
      intro y hxy hall
      cases y with
      | nil => exact hxy.elim
      | cons t' r' =>
        simp only [List.all_cons, Bool.and_eq_true] at hall ⊢
        refine ⟨?_, ih r' hxy.2 hall.2⟩
        rw [← hxy.1.1]
        cases hf : dbN.find t.name with
        | none => rw [hf] at hall; exact absurd hall.1 (by simp)
        | some u =>
          rw [hf] at hall
          exact hxy.1.equivUnordered hall.1
  exact key a1 b1 h he.2

end Sqlize
