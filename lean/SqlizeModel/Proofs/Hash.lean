import SqlizeModel.Impl.Hash
import SqlizeModel.Spec.HashSpec

namespace Sqlize

theorem insertStr_comm (a b : String) : ∀ l : List String, insertStr a (insertStr b l) = insertStr b (insertStr a l) := by
  intro l
  induction l with
  | nil =>
    simp only [insertStr]
    by_cases hab : a < b
    · have hba : ¬ b < a := String.lt_asymm hab
      simp [hab, hba]
    · by_cases hba : b < a
      · simp [hab, hba]
      · have : a = b := String.le_antisymm (String.not_lt.mp hba) (String.not_lt.mp hab)
        subst this; rfl
  | cons y r ih =>
    by_cases hay : a < y <;> by_cases hby : b < y
    · -- both in front of y
      by_cases hab : a < b
      · have hba : ¬ b < a := String.lt_asymm hab
        simp [insertStr, hay, hby, hab, hba]
      · by_cases hba : b < a
        · simp [insertStr, hay, hby, hab, hba]
        · have : a = b := String.le_antisymm (String.not_lt.mp hba) (String.not_lt.mp hab)
          subst this; rfl
    · -- a in front, b behind
      have hba : ¬ b < a := fun h => hby (String.lt_trans h hay)
      simp [insertStr, hay, hby, hba]
    · have hab : ¬ a < b := fun h => hay (String.lt_trans h hby)
      simp [insertStr, hay, hby, hab]
    · simp [insertStr, hay, hby, ih]

/-- sorting only depends on the multiset of strings -/
theorem sortStrs_perm {l₁ l₂ : List String} (h : l₁.Perm l₂) : sortStrs l₁ = sortStrs l₂ := by
  induction h with
  | nil => rfl
  | cons x _ ih => simp [sortStrs, List.foldr_cons] at ih ⊢; rw [ih]
  | swap x y l => simp only [sortStrs, List.foldr_cons]; exact insertStr_comm y x _
  | trans _ _ ih1 ih2 => exact ih1.trans ih2

theorem hashWith_eq (H : String → String) (g : Globals) (t : Table) (idxIn : List String)
    (h : t.idxs.mapM (Index.hashInput g) = .ok idxIn) :
    t.hashWith H g = .ok (tableHashOf H (t.cols.map (Column.hashInput g)) idxIn) := by
  simp [Table.hashWith, h, tableHashOf, bind, Except.bind, pure, Except.pure, List.map_map, Function.comp_def]

theorem tableHashOf_perm (H : String → String) {c₁ c₂ i₁ i₂ : List String} (hc : c₁.Perm c₂) (hi : i₁.Perm i₂) :
    tableHashOf H c₁ i₁ = tableHashOf H c₂ i₂ := by
  unfold tableHashOf
  rw [sortStrs_perm (hc.map H), sortStrs_perm (hi.map H)]

end Sqlize
