/-
  Proofs/IdxRefine.lean — the index and foreign-key walks of the implementation model refine the abstract emissions of
  Abs/Idx.lean: for the slices `Table.Diff` leaves (Proofs/DiffElems.lean) for two freshly loaded tables, the CREATE /
  DROP INDEX statements `MigrationIndexUp` prints (no column dropped) are `Abs.Idx.emit` of the two reference index lists,
  the ADD / DROP foreign-key statements `MigrationForeignKeyUp` prints are `Abs.Idx.emitKeep` of the two reference
  foreign-key lists.  The `primary_key` record prints ADD / DROP PRIMARY KEY, which are not index statements.
-/
import SqlizeModel.Abs.Idx
import SqlizeModel.Abs.IdxDrop
import SqlizeModel.Proofs.DiffElems
import SqlizeModel.Impl.Emit

namespace Sqlize
open Spec Abs.Idx

/-- the index statements among the printed statements, as statements of the abstract machine -/
def idxStmt : Stmt → Option (IStmt IdxSpec)
  | .createIndex _ name cols uniq u =>
    some (.create { name := name, cols := cols, unique := uniq, itype := Table.normIdxType u })
  | .dropIndex _ name => some (.drop name)
  | _ => none

def fkStmt : Stmt → Option (IStmt FkSpec)
  | .addFk _ name col rt rc => some (.create { name := name, col := col, refT := rt, refC := rc })
  | .dropFk _ name => some (.drop name)
  | _ => none

@[simp] theorem named_idx (s : IdxSpec) : Named.name s = s.name := rfl
@[simp] theorem named_fk (s : FkSpec) : Named.name s = s.name := rfl

theorem filterMap_flatMap' {α β γ : Type} (l : List α) (f : α → List β) (p : β → Option γ) :
    (l.flatMap f).filterMap p = l.flatMap (fun x => (f x).filterMap p) := by
  induction l with
  | nil => rfl
  | cons a r ih => simp [List.flatMap_cons, List.filterMap_append, ih]

namespace Index

/-- what `Index.migrationUp` prints for a plain or unique index record tagged by the reader or by `Table.Diff` -/
def upStmts (i : Index) (tb : String) : List Stmt :=
  match i.action with
  | .none => []
  | .add => if i.isPk then [.addPrimaryKey tb i.cols] else [.createIndex tb i.name i.cols (i.typ == .unique) i.indexType]
  | .remove => if i.isPk then [.dropPrimaryKey tb] else [.dropIndex tb i.name]
  | .modify =>
    [if i.isPk then Stmt.dropPrimaryKey tb else Stmt.dropIndex tb i.name,
     if i.isPk then Stmt.addPrimaryKey tb i.cols else Stmt.createIndex tb i.name i.cols (i.typ == .unique) i.indexType]
  | _ => []

theorem migrationUp_pure (g : Globals) (i : Index) (tb : String) (ht : i.typ = .none ∨ i.typ = .unique)
    (ha : i.action = .none ∨ i.action = .add ∨ i.action = .remove ∨ i.action = .modify) :
    i.migrationUp g tb = .ok (i.upStmts tb) := by
  unfold migrationUp upStmts
  rcases ha with ha | ha | ha | ha <;> rw [ha] <;> simp only
  · rfl
  · cases hp : i.isPk
    · rcases ht with ht | ht <;> simp [ht, pure, Except.pure]
    · simp [pure, Except.pure]
  · cases hp : i.isPk <;> simp [pure, Except.pure]
  · cases hp : i.isPk
    · rcases ht with ht | ht <;> simp [ht, pure, Except.pure, bind, Except.bind]
    · simp [pure, Except.pure, bind, Except.bind]

end Index

namespace Table

theorem idxSuppressed_nil (i : Index) : idxSuppressed i [] = false := by
  unfold idxSuppressed
  cases i.cols <;> simp

/-- `MigrationIndexUp` of a table kept on both sides, no column dropped: every record prints its own statements -/
theorem walkIdx_pure (g : Globals) (tb : String) : ∀ idxs : List Index,
    (∀ i ∈ idxs, (i.typ = .none ∨ i.typ = .unique) ∧
      (i.action = .none ∨ i.action = .add ∨ i.action = .remove ∨ i.action = .modify)) →
    walkIdx g tb true [] idxs = .ok (idxs.flatMap (fun i => i.upStmts tb)) := by
  intro idxs
  induction idxs with
  | nil => intro _; rfl
  | cons i r ih =>
    intro h
    obtain ⟨ht, ha⟩ := h i (by simp)
    have hr := ih (fun x hx => h x (by simp [hx]))
    unfold walkIdx
    rw [hr, idxSuppressed_nil]
    by_cases hn : i.action = .none
    · have : i.upStmts tb = [] := by unfold Index.upStmts; rw [hn]
      simp [hn, this, bind, Except.bind, pure, Except.pure]
    · have hne : (i.action != .none) = true := by simpa using hn
      simp only [hne, Bool.not_false, Bool.or_true, Bool.and_self, if_true, Index.migrationUp_pure g i tb ht ha,
        bind, Except.bind, pure, Except.pure, List.flatMap_cons]

theorem walkFk_nil (tb : String) (fks : List ForeignKey) :
    walkFk tb true [] fks = fks.flatMap (fun f => f.migrationUp tb) := by
  unfold walkFk
  congr 1
  funext f
  by_cases hn : f.action = .none
  · simp [hn, ForeignKey.migrationUp]
  · have : (f.action != .none) = true := by simpa using hn
    simp [this]

-- ---------------------------------------------------------------------------------------------------------------
-- per record: the printed index statements are the abstract ones

theorem idxSpecOf_find (l : List Index) (n : String) (hn : n ≠ pkName) :
    (idxSpecOf l).find? (fun y => Named.name y == n) = (l.find? (fun y => y.name == n)).map Index.toSpec := by
  unfold idxSpecOf
  induction l with
  | nil => rfl
  | cons a r ih =>
    rw [List.filter_cons, List.find?_cons]
    by_cases hp : a.name = pkName
    · have h1 : (a.name != pkName) = false := by simp [hp]
      have h2 : (a.name == n) = false := by
        have : a.name ≠ n := fun he => hn (he ▸ hp)
        simpa using this
      rw [h1, h2]
      exact ih
    · have h1 : (a.name != pkName) = true := by simpa using hp
      rw [h1]
      simp only [if_true, List.map_cons, List.find?_cons, named_idx]
      show (match a.toSpec.name == n with | true => _ | false => _) = _
      have : a.toSpec.name = a.name := rfl
      rw [this]
      cases hc : (a.name == n)
      · exact ih
      · rfl

/-- `Table.Diff`'s comparison of two live records of one name = equality of their reference images -/
theorem same_iff_toSpec (i oi : Index) (hi : i.Live) (ho : oi.Live) (hn : oi.name = i.name) :
    (i.typ == oi.typ && i.cols == oi.cols && normIdxType i.indexType == normIdxType oi.indexType) = true ↔
      oi.toSpec = i.toSpec := by
  unfold Index.toSpec
  constructor
  · intro h
    simp only [Bool.and_eq_true, beq_iff_eq] at h
    obtain ⟨⟨h1, h2⟩, h3⟩ := h
    rw [hn, h1, h2, h3]
  · intro h
    have h1 : oi.cols = i.cols := congrArg IdxSpec.cols h
    have h2 : (oi.typ == .unique) = (i.typ == .unique) := congrArg IdxSpec.unique h
    have h3 : normIdxType oi.indexType = normIdxType i.indexType := congrArg IdxSpec.itype h
    have h4 : i.typ = oi.typ := by
      rcases hi.typ with a | a <;> rcases ho.typ with b | b <;> rw [a, b] at h2 ⊢ <;> simp_all
    simp [h4, h1, h3]

theorem proj_new (tb : String) (o : Table) (ho : ∀ x ∈ o.idxs, x.Live) (i : Index) (hi : i.Live) :
    ((tagIdx o i).upStmts tb).filterMap idxStmt =
      if i.name == pkName then [] else emitOne (idxSpecOf o.idxs) i.toSpec := by
  have hpk := hi.pk
  by_cases hp : i.name = pkName
  · -- the primary-key record prints ADD / DROP PRIMARY KEY only
    have hpk' : i.isPk = true := by rw [hpk]; simp [hp]
    have : (i.name == pkName) = true := by simp [hp]
    rw [this, if_pos rfl]
    unfold tagIdx
    cases hf : o.idxs.find? (fun y => y.name == i.name) with
    | none => simp [Index.upStmts, hi.add, hpk', idxStmt]
    | some oi =>
      simp only
      split <;> simp [Index.upStmts, hpk', idxStmt]
  · have hpk' : i.isPk = false := by rw [hpk]; simpa using hp
    have : (i.name == pkName) = false := by simpa using hp
    rw [this]
    simp only [Bool.false_eq_true, if_false]
    unfold emitOne
    have hname : (Named.name i.toSpec) = i.name := rfl
    rw [hname, idxSpecOf_find o.idxs i.name hp]
    unfold tagIdx
    cases hf : o.idxs.find? (fun y => y.name == i.name) with
    | none =>
      simp [Index.upStmts, hi.add, hpk', idxStmt, Index.toSpec]
    | some oi =>
      have hoi : oi ∈ o.idxs := List.mem_of_find?_eq_some hf
      have hon : oi.name = i.name := by simpa using List.find?_some hf
      have hiff := same_iff_toSpec i oi hi (ho oi hoi) hon
      simp only [Option.map_some]
      by_cases hc : (i.typ == oi.typ && i.cols == oi.cols && normIdxType i.indexType == normIdxType oi.indexType) = true
      · rw [if_pos hc, if_pos (hiff.mp hc)]
        simp [Index.upStmts]
      · rw [if_neg hc, if_neg (fun h => hc (hiff.mpr h))]
        simp [Index.upStmts, hpk', idxStmt, Index.toSpec]

theorem proj_old (tb : String) (oi : Index) (ho : oi.Live) :
    (Index.upStmts { oi with action := .remove } tb).filterMap idxStmt =
      if oi.name == pkName then [] else [IStmt.drop oi.name] := by
  have hpk := ho.pk
  by_cases hp : oi.name = pkName
  · have hpk' : oi.isPk = true := by rw [hpk]; simp [hp]
    simp [Index.upStmts, hpk', idxStmt, hp]
  · have hpk' : oi.isPk = false := by rw [hpk]; simpa using hp
    have : (oi.name == pkName) = false := by simpa using hp
    simp [Index.upStmts, hpk', idxStmt, this]

/-- **the index walk refines the abstract emission** -/
theorem walkIdx_refines (g : Globals) (tb : String) (t o : Table) (ht : ∀ i ∈ t.idxs, i.Live) (ho : ∀ i ∈ o.idxs, i.Live) :
    ∃ ss, walkIdx g tb true []
        (t.idxs.map (tagIdx o) ++
          (o.idxs.filter (fun oi => !t.idxNames.contains oi.name)).map (fun oi => { oi with action := .remove })) = .ok ss ∧
      ss.filterMap idxStmt = emit (idxSpecOf t.idxs) (idxSpecOf o.idxs) := by
  refine ⟨_, walkIdx_pure g tb _ ?_, ?_⟩
  · intro x hx
    rcases List.mem_append.mp hx with h | h
    · obtain ⟨i, hi, rfl⟩ := List.mem_map.mp h
      have hl := ht i hi
      unfold tagIdx
      cases o.idxs.find? (fun y => y.name == i.name) with
      | none => exact ⟨hl.typ, Or.inr (Or.inl hl.add)⟩
      | some oi =>
        simp only
        split
        · exact ⟨hl.typ, Or.inl rfl⟩
        · exact ⟨hl.typ, Or.inr (Or.inr (Or.inr rfl))⟩
    · obtain ⟨oi, hoi, rfl⟩ := List.mem_map.mp h
      exact ⟨(ho oi (List.mem_filter.mp hoi).1).typ, Or.inr (Or.inr (Or.inl rfl))⟩
  · rw [filterMap_flatMap', List.flatMap_append]
    unfold emit
    congr 1
    · -- the new side's records
      rw [List.flatMap_map]
      unfold idxSpecOf
      have : ∀ l : List Index, (∀ i ∈ l, i.Live) →
          l.flatMap (fun i => ((tagIdx o i).upStmts tb).filterMap idxStmt) =
            ((l.filter (fun i => i.name != pkName)).map Index.toSpec).flatMap
              (emitOne ((o.idxs.filter (fun i => i.name != pkName)).map Index.toSpec)) := by
        intro l
        induction l with
        | nil => intro _; rfl
        | cons i r ih =>
          intro hl
          rw [List.flatMap_cons, ih (fun x hx => hl x (by simp [hx])), proj_new tb o ho i (hl i (by simp)),
            List.filter_cons]
          by_cases hp : i.name = pkName
          · simp [hp]
          · have h1 : (i.name == pkName) = false := by simpa using hp
            have h2 : (i.name != pkName) = true := by simpa using hp
            rw [h1, h2]
            simp only [Bool.false_eq_true, if_false, if_true, List.map_cons, List.flatMap_cons]
            rfl
      exact this t.idxs ht
    · -- the old side's records without a namesake
      rw [List.flatMap_map]
      have hnames : ∀ oi : Index, oi.name ≠ pkName →
          (names (idxSpecOf t.idxs)).contains oi.name = t.idxNames.contains oi.name := by
        intro oi hne
        have : names (idxSpecOf t.idxs) = (t.idxs.map (·.name)).filter (· != pkName) := idxSpecOf_names t.idxs
        rw [this]
        cases hc : t.idxNames.contains oi.name with
        | true =>
          have hm : oi.name ∈ t.idxNames := by simpa using hc
          have : oi.name ∈ (t.idxs.map (·.name)).filter (· != pkName) := List.mem_filter.mpr ⟨hm, by simpa using hne⟩
          simpa using this
        | false =>
          have hm : oi.name ∉ t.idxNames := by simpa using hc
          have : oi.name ∉ (t.idxs.map (·.name)).filter (· != pkName) := fun h => hm (List.mem_filter.mp h).1
          simpa using this
      unfold idxSpecOf at hnames ⊢
      have : ∀ l : List Index, (∀ i ∈ l, i.Live) →
          (l.filter (fun oi => !t.idxNames.contains oi.name)).flatMap
              (fun oi => (Index.upStmts { oi with action := .remove } tb).filterMap idxStmt) =
            (((l.filter (fun i => i.name != pkName)).map Index.toSpec).filter
                (fun s => !(names ((t.idxs.filter (fun i => i.name != pkName)).map Index.toSpec)).contains (Named.name s))).map
              (fun s => IStmt.drop (Named.name s)) := by
        intro l
        induction l with
        | nil => intro _; rfl
        | cons oi r ih =>
          intro hl
          have ihr := ih (fun x hx => hl x (by simp [hx]))
          by_cases hp : oi.name = pkName
          · have h2 : (oi.name != pkName) = false := by simp [hp]
            rw [List.filter_cons (p := fun i : Index => i.name != pkName), h2]
            simp only [Bool.false_eq_true, if_false]
            rw [← ihr, List.filter_cons]
            split
            · rw [List.flatMap_cons, proj_old tb oi (hl oi (by simp))]
              simp [hp]
            · rfl
          · have h2 : (oi.name != pkName) = true := by simpa using hp
            have h1 : (oi.name == pkName) = false := by simpa using hp
            rw [List.filter_cons (p := fun i : Index => i.name != pkName), h2]
            simp only [if_true, List.map_cons]
            rw [List.filter_cons (p := fun s : IdxSpec => _)]
            have hnm : Named.name oi.toSpec = oi.name := rfl
            rw [hnm, hnames oi hp, List.filter_cons]
            cases hc : t.idxNames.contains oi.name
            · simp only [Bool.not_false, if_true, List.flatMap_cons, List.map_cons]
              rw [proj_old tb oi (hl oi (by simp)), h1, ihr]
              rfl
            · simp only [Bool.not_true, Bool.false_eq_true, if_false]
              exact ihr
      exact this o.idxs ho

-- ---------------------------------------------------------------------------------------------------------------
-- the up walk with dropped columns: the DROP of an old-only index all of whose columns are dropped is suppressed

theorem flatMap_congr' {α β : Type} {f g : α → List β} : ∀ (l : List α), (∀ x ∈ l, f x = g x) → l.flatMap f = l.flatMap g := by
  intro l
  induction l with
  | nil => intro _; rfl
  | cons a r ih =>
    intro h
    rw [List.flatMap_cons, List.flatMap_cons, h a (by simp), ih (fun x hx => h x (by simp [hx]))]

/-- what the walk prints for one record when `dc` are the dropped columns -/
def supStmts (dc : List String) (tb : String) (i : Index) : List Stmt :=
  if i.action == .remove && idxSuppressed i dc then [] else i.upStmts tb

theorem supStmts_of_not_remove (dc : List String) (tb : String) (i : Index) (h : i.action ≠ .remove) :
    supStmts dc tb i = i.upStmts tb := by
  unfold supStmts
  have : (i.action == .remove) = false := by simpa using h
  simp [this]

theorem supStmts_removed (dc : List String) (tb : String) (oi : Index) :
    supStmts dc tb { oi with action := .remove } =
      if suppressed dc oi.toSpec then [] else Index.upStmts { oi with action := .remove } tb := by
  unfold supStmts
  have : idxSuppressed { oi with action := .remove } dc = suppressed dc oi.toSpec := rfl
  rw [this]
  simp

theorem walkIdx_pure_sup (g : Globals) (tb : String) (dc : List String) : ∀ idxs : List Index,
    (∀ i ∈ idxs, (i.typ = .none ∨ i.typ = .unique) ∧
      (i.action = .none ∨ i.action = .add ∨ i.action = .remove ∨ i.action = .modify)) →
    walkIdx g tb true dc idxs = .ok (idxs.flatMap (supStmts dc tb)) := by
  intro idxs
  induction idxs with
  | nil => intro _; rfl
  | cons i r ih =>
    intro h
    obtain ⟨ht, ha⟩ := h i (by simp)
    have hr := ih (fun x hx => h x (by simp [hx]))
    unfold walkIdx
    rw [hr]
    by_cases hn : i.action = .none
    · have : i.upStmts tb = [] := by unfold Index.upStmts; rw [hn]
      simp [hn, this, supStmts, bind, Except.bind, pure, Except.pure]
    · have hne : (i.action != .none) = true := by simpa using hn
      by_cases hrm : i.action = .remove
      · have hup := Index.migrationUp_pure g i tb ht ha
        cases hs : idxSuppressed i dc
        · simp [hrm, hs, hup, supStmts, bind, Except.bind, pure, Except.pure]
        · simp [hrm, hs, supStmts, bind, Except.bind, pure, Except.pure]
      · have h1 : (i.action != .remove) = true := by simpa using hrm
        rw [supStmts_of_not_remove dc tb i hrm |> fun e => show List.flatMap (supStmts dc tb) (i :: r) = i.upStmts tb ++ List.flatMap (supStmts dc tb) r by rw [List.flatMap_cons, e]]
        simp only [hne, h1, Index.migrationUp_pure g i tb ht ha, bind, Except.bind, pure, Except.pure,
          Bool.true_or, Bool.and_self, if_true]

/-- every statement the index walk prints for a record is a PRIMARY KEY statement or an index statement of that table -/
theorem supStmts_shape (dc : List String) (tb : String) (i : Index) : ∀ s ∈ supStmts dc tb i,
    s.table = tb ∧ ((∃ cols, s = .addPrimaryKey tb cols) ∨ s = .dropPrimaryKey tb ∨ (idxStmt s).isSome = true) := by
  intro s hs
  unfold supStmts at hs
  split at hs
  · cases hs
  · unfold Index.upStmts at hs
    cases ha : i.action <;> rw [ha] at hs <;> simp only at hs
    · cases hs
    · split at hs
      · rw [List.mem_singleton.mp hs]; exact ⟨rfl, Or.inl ⟨_, rfl⟩⟩
      · rw [List.mem_singleton.mp hs]; exact ⟨rfl, Or.inr (Or.inr rfl)⟩
    · split at hs
      · rw [List.mem_singleton.mp hs]; exact ⟨rfl, Or.inr (Or.inl rfl)⟩
      · rw [List.mem_singleton.mp hs]; exact ⟨rfl, Or.inr (Or.inr rfl)⟩
    · rcases List.mem_cons.mp hs with h | h
      · rw [h]; split
        · exact ⟨rfl, Or.inr (Or.inl rfl)⟩
        · exact ⟨rfl, Or.inr (Or.inr rfl)⟩
      · rw [List.mem_singleton.mp h]; split
        · exact ⟨rfl, Or.inl ⟨_, rfl⟩⟩
        · exact ⟨rfl, Or.inr (Or.inr rfl)⟩
    · cases hs
    · cases hs

/-- the records `Table.Diff` leaves print their own statements, less the suppressed drops -/
theorem walkIdx_sup_eq (g : Globals) (tb : String) (dc : List String) (t o : Table) (ht : ∀ i ∈ t.idxs, i.Live)
    (ho : ∀ i ∈ o.idxs, i.Live) (L : List Index)
    (hL : L = t.idxs.map (tagIdx o) ++
          (o.idxs.filter (fun oi => !t.idxNames.contains oi.name)).map (fun oi => { oi with action := .remove })) :
    walkIdx g tb true dc L = .ok (L.flatMap (supStmts dc tb)) := by
  subst hL
  refine walkIdx_pure_sup g tb dc _ ?_
  intro x hx
  rcases List.mem_append.mp hx with h | h
  · obtain ⟨i, hi, rfl⟩ := List.mem_map.mp h
    have hl := ht i hi
    unfold tagIdx
    cases o.idxs.find? (fun y => y.name == i.name) with
    | none => exact ⟨hl.typ, Or.inr (Or.inl hl.add)⟩
    | some oi =>
      simp only
      split
      · exact ⟨hl.typ, Or.inl rfl⟩
      · exact ⟨hl.typ, Or.inr (Or.inr (Or.inr rfl))⟩
  · obtain ⟨oi, hoi, rfl⟩ := List.mem_map.mp h
    exact ⟨(ho oi (List.mem_filter.mp hoi).1).typ, Or.inr (Or.inr (Or.inl rfl))⟩

/-- **the index walk with a dropped-column list refines `Abs.Idx.emitSup`** -/
theorem walkIdx_refines_sup (g : Globals) (tb : String) (dc : List String) (t o : Table) (ht : ∀ i ∈ t.idxs, i.Live)
    (ho : ∀ i ∈ o.idxs, i.Live) :
    ∃ ss, walkIdx g tb true dc
        (t.idxs.map (tagIdx o) ++
          (o.idxs.filter (fun oi => !t.idxNames.contains oi.name)).map (fun oi => { oi with action := .remove })) = .ok ss ∧
      ss.filterMap idxStmt = emitSup dc (idxSpecOf t.idxs) (idxSpecOf o.idxs) := by
  refine ⟨_, walkIdx_pure_sup g tb dc _ ?_, ?_⟩
  · intro x hx
    rcases List.mem_append.mp hx with h | h
    · obtain ⟨i, hi, rfl⟩ := List.mem_map.mp h
      have hl := ht i hi
      unfold tagIdx
      cases o.idxs.find? (fun y => y.name == i.name) with
      | none => exact ⟨hl.typ, Or.inr (Or.inl hl.add)⟩
      | some oi =>
        simp only
        split
        · exact ⟨hl.typ, Or.inl rfl⟩
        · exact ⟨hl.typ, Or.inr (Or.inr (Or.inr rfl))⟩
    · obtain ⟨oi, hoi, rfl⟩ := List.mem_map.mp h
      exact ⟨(ho oi (List.mem_filter.mp hoi).1).typ, Or.inr (Or.inr (Or.inl rfl))⟩
  · rw [filterMap_flatMap', List.flatMap_append]
    unfold emitSup
    congr 1
    · -- the new side's records are never tagged `remove`: as without dropped columns
      rw [List.flatMap_map]
      have hsame : ∀ i ∈ t.idxs, (supStmts dc tb (tagIdx o i)).filterMap idxStmt =
          ((tagIdx o i).upStmts tb).filterMap idxStmt := by
        intro i hi
        rw [supStmts_of_not_remove]
        unfold tagIdx
        cases o.idxs.find? (fun y => y.name == i.name) with
        | none => simp [(ht i hi).add]
        | some oi => simp only; split <;> simp
      rw [flatMap_congr' t.idxs hsame]
      unfold idxSpecOf
      have : ∀ l : List Index, (∀ i ∈ l, i.Live) →
          l.flatMap (fun i => ((tagIdx o i).upStmts tb).filterMap idxStmt) =
            ((l.filter (fun i => i.name != pkName)).map Index.toSpec).flatMap
              (emitOne ((o.idxs.filter (fun i => i.name != pkName)).map Index.toSpec)) := by
        intro l
        induction l with
        | nil => intro _; rfl
        | cons i r ih =>
          intro hl
          rw [List.flatMap_cons, ih (fun x hx => hl x (by simp [hx])), proj_new tb o ho i (hl i (by simp)),
            List.filter_cons]
          by_cases hp : i.name = pkName
          · simp [hp]
          · have h1 : (i.name == pkName) = false := by simpa using hp
            have h2 : (i.name != pkName) = true := by simpa using hp
            rw [h1, h2]
            simp only [Bool.false_eq_true, if_false, if_true, List.map_cons, List.flatMap_cons]
            rfl
      exact this t.idxs ht
    · rw [List.flatMap_map]
      have hnames : ∀ oi : Index, oi.name ≠ pkName →
          (names (idxSpecOf t.idxs)).contains oi.name = t.idxNames.contains oi.name := by
        intro oi hne
        have : names (idxSpecOf t.idxs) = (t.idxs.map (·.name)).filter (· != pkName) := idxSpecOf_names t.idxs
        rw [this]
        cases hc : t.idxNames.contains oi.name with
        | true =>
          have hm : oi.name ∈ t.idxNames := by simpa using hc
          have : oi.name ∈ (t.idxs.map (·.name)).filter (· != pkName) := List.mem_filter.mpr ⟨hm, by simpa using hne⟩
          simpa using this
        | false =>
          have hm : oi.name ∉ t.idxNames := by simpa using hc
          have : oi.name ∉ (t.idxs.map (·.name)).filter (· != pkName) := fun h => hm (List.mem_filter.mp h).1
          simpa using this
      have : ∀ l : List Index, (∀ i ∈ l, i.Live) →
          (l.filter (fun oi => !t.idxNames.contains oi.name)).flatMap
              (fun oi => (supStmts dc tb { oi with action := .remove }).filterMap idxStmt) =
            ((idxSpecOf l).filter
                (fun s => !(names (idxSpecOf t.idxs)).contains s.name && !suppressed dc s)).map
              (fun s => IStmt.drop s.name) := by
        intro l
        induction l with
        | nil => intro _; rfl
        | cons oi r ih =>
          intro hl
          have ihr := ih (fun x hx => hl x (by simp [hx]))
          have hcons : idxSpecOf (oi :: r) = if oi.name != pkName then oi.toSpec :: idxSpecOf r else idxSpecOf r := by
            unfold idxSpecOf
            rw [List.filter_cons]
            split <;> rfl
          rw [hcons]
          by_cases hp : oi.name = pkName
          · have h2 : (oi.name != pkName) = false := by simp [hp]
            rw [h2]
            simp only [Bool.false_eq_true, if_false]
            rw [← ihr, List.filter_cons]
            split
            · rw [List.flatMap_cons, supStmts_removed]
              split
              · rfl
              · rw [proj_old tb oi (hl oi (by simp))]
                simp [hp]
            · rfl
          · have h2 : (oi.name != pkName) = true := by simpa using hp
            have h1 : (oi.name == pkName) = false := by simpa using hp
            rw [h2]
            simp only [if_true]
            rw [List.filter_cons (xs := idxSpecOf r)]
            have hnm : oi.toSpec.name = oi.name := rfl
            rw [hnm, hnames oi hp, List.filter_cons (xs := r)]
            cases hc : t.idxNames.contains oi.name
            · simp only [Bool.not_false, Bool.true_and, if_true, List.flatMap_cons]
              rw [supStmts_removed]
              cases hs : suppressed dc oi.toSpec
              · simp only [Bool.not_false, if_true, Bool.false_eq_true, if_false, List.map_cons]
                rw [proj_old tb oi (hl oi (by simp)), h1, ihr]
                rfl
              · simp only [Bool.not_true, Bool.false_eq_true, if_false, if_true, List.filterMap_nil, List.nil_append]
                exact ihr
            · simp only [Bool.not_true, Bool.false_and, Bool.false_eq_true, if_false]
              exact ihr
      exact this o.idxs ho

-- ---------------------------------------------------------------------------------------------------------------
-- the down direction

end Table

namespace Index

/-- what `Index.migrationDown` prints -/
def downStmts (i : Index) (tb : String) : List Stmt :=
  match i.action with
  | .add => Index.upStmts { i with action := .remove } tb
  | .remove => Index.upStmts { i with action := .add } tb
  | .modify =>
    match i.prev with
    | some p => Index.upStmts { i with name := p.name, typ := p.typ, indexType := p.indexType, isPk := p.isPk,
                                       cols := p.cols, prev := none, action := .modify } tb
    | none => i.upStmts tb
  | _ => []

theorem migrationDown_pure (g : Globals) (i : Index) (tb : String) (ht : i.typ = .none ∨ i.typ = .unique)
    (hp : ∀ p, i.prev = some p → p.typ = .none ∨ p.typ = .unique)
    (ha : i.action = .none ∨ i.action = .add ∨ i.action = .remove ∨ i.action = .modify) :
    i.migrationDown g tb = .ok (i.downStmts tb) := by
  unfold migrationDown downStmts
  rcases ha with ha | ha | ha | ha <;> rw [ha] <;> simp only
  · rfl
  · exact migrationUp_pure g _ tb ht (Or.inr (Or.inr (Or.inl rfl)))
  · exact migrationUp_pure g _ tb ht (Or.inr (Or.inl rfl))
  · cases hpr : i.prev with
    | none => simp only; exact migrationUp_pure g i tb ht (Or.inr (Or.inr (Or.inr ha)))
    | some p => simp only; exact migrationUp_pure g _ tb (hp p hpr) (Or.inr (Or.inr (Or.inr rfl)))

end Index

namespace Table

theorem walkIdx_pure_down (g : Globals) (tb : String) : ∀ idxs : List Index,
    (∀ i ∈ idxs, (i.typ = .none ∨ i.typ = .unique) ∧ (∀ p, i.prev = some p → p.typ = .none ∨ p.typ = .unique) ∧
      (i.action = .none ∨ i.action = .add ∨ i.action = .remove ∨ i.action = .modify)) →
    walkIdx g tb false [] idxs = .ok (idxs.flatMap (fun i => i.downStmts tb)) := by
  intro idxs
  induction idxs with
  | nil => intro _; rfl
  | cons i r ih =>
    intro h
    obtain ⟨ht, hp, ha⟩ := h i (by simp)
    have hr := ih (fun x hx => h x (by simp [hx]))
    unfold walkIdx
    rw [hr, idxSuppressed_nil]
    by_cases hn : i.action = .none
    · have : i.downStmts tb = [] := by unfold Index.downStmts; rw [hn]
      simp [hn, this, bind, Except.bind, pure, Except.pure]
    · have hne : (i.action != .none) = true := by simpa using hn
      simp only [hne, Bool.not_false, Bool.or_true, Bool.and_self, if_true, Index.migrationDown_pure g i tb ht hp ha,
        bind, Except.bind, pure, Except.pure, List.flatMap_cons, Bool.false_eq_true, if_false]

theorem proj_new_down (tb : String) (o : Table) (ho : ∀ x ∈ o.idxs, x.Live) (i : Index) (hi : i.Live) :
    ((tagIdx o i).downStmts tb).filterMap idxStmt =
      if i.name == pkName then [] else emitDownOne (idxSpecOf o.idxs) i.toSpec := by
  have hpk := hi.pk
  by_cases hp : i.name = pkName
  · have hpk' : i.isPk = true := by rw [hpk]; simp [hp]
    have : (i.name == pkName) = true := by simp [hp]
    rw [this, if_pos rfl]
    unfold tagIdx
    cases hf : o.idxs.find? (fun y => y.name == i.name) with
    | none => simp [Index.downStmts, Index.upStmts, hi.add, hpk', idxStmt]
    | some oi =>
      have hoi : oi ∈ o.idxs := List.mem_of_find?_eq_some hf
      have hon : oi.name = i.name := by simpa using List.find?_some hf
      have hopk : oi.isPk = true := by rw [(ho oi hoi).pk]; simp [hon, hp]
      simp only
      split <;> simp [Index.downStmts, Index.upStmts, hpk', idxStmt, Index.toDef, hopk]
  · have hpk' : i.isPk = false := by rw [hpk]; simpa using hp
    have : (i.name == pkName) = false := by simpa using hp
    rw [this]
    simp only [Bool.false_eq_true, if_false]
    unfold emitDownOne
    have hname : (Named.name i.toSpec) = i.name := rfl
    rw [hname, idxSpecOf_find o.idxs i.name hp]
    unfold tagIdx
    cases hf : o.idxs.find? (fun y => y.name == i.name) with
    | none =>
      simp [Index.downStmts, Index.upStmts, hi.add, hpk', idxStmt]
    | some oi =>
      have hoi : oi ∈ o.idxs := List.mem_of_find?_eq_some hf
      have hon : oi.name = i.name := by simpa using List.find?_some hf
      have hopk : oi.isPk = false := by
        rw [(ho oi hoi).pk, hon]; simpa using hp
      have hiff := same_iff_toSpec i oi hi (ho oi hoi) hon
      simp only [Option.map_some]
      by_cases hc : (i.typ == oi.typ && i.cols == oi.cols && normIdxType i.indexType == normIdxType oi.indexType) = true
      · rw [if_pos hc, if_pos (hiff.mp hc)]
        simp [Index.downStmts]
      · rw [if_neg hc, if_neg (fun h => hc (hiff.mpr h))]
        simp [Index.downStmts, Index.upStmts, idxStmt, Index.toSpec, Index.toDef, hopk, hon]

theorem proj_old_down (tb : String) (oi : Index) (ho : oi.Live) :
    (Index.downStmts { oi with action := .remove } tb).filterMap idxStmt =
      if oi.name == pkName then [] else [IStmt.create oi.toSpec] := by
  have hpk := ho.pk
  by_cases hp : oi.name = pkName
  · have hpk' : oi.isPk = true := by rw [hpk]; simp [hp]
    simp [Index.downStmts, Index.upStmts, hpk', idxStmt, hp]
  · have hpk' : oi.isPk = false := by rw [hpk]; simpa using hp
    have : (oi.name == pkName) = false := by simpa using hp
    simp [Index.downStmts, Index.upStmts, hpk', idxStmt, this, Index.toSpec]

/-- **the index walk of the down migration refines the abstract down emission** -/
theorem walkIdx_refines_down (g : Globals) (tb : String) (t o : Table) (ht : ∀ i ∈ t.idxs, i.Live) (ho : ∀ i ∈ o.idxs, i.Live) :
    ∃ ss, walkIdx g tb false []
        (t.idxs.map (tagIdx o) ++
          (o.idxs.filter (fun oi => !t.idxNames.contains oi.name)).map (fun oi => { oi with action := .remove })) = .ok ss ∧
      ss.filterMap idxStmt = emitDown (idxSpecOf t.idxs) (idxSpecOf o.idxs) := by
  refine ⟨_, walkIdx_pure_down g tb _ ?_, ?_⟩
  · intro x hx
    rcases List.mem_append.mp hx with h | h
    · obtain ⟨i, hi, rfl⟩ := List.mem_map.mp h
      have hl := ht i hi
      unfold tagIdx
      cases hf : o.idxs.find? (fun y => y.name == i.name) with
      | none => exact ⟨hl.typ, (by intro p hp; rw [hl.prev] at hp; cases hp), Or.inr (Or.inl hl.add)⟩
      | some oi =>
        have hoi : oi ∈ o.idxs := List.mem_of_find?_eq_some hf
        simp only
        split
        · exact ⟨hl.typ, (by intro p hp; have hp : i.prev = some p := hp; rw [hl.prev] at hp; cases hp), Or.inl rfl⟩
        · refine ⟨hl.typ, ?_, Or.inr (Or.inr (Or.inr rfl))⟩
          intro p hp
          have hp : some oi.toDef = some p := hp
          rw [← Option.some.inj hp]
          exact (ho oi hoi).typ
    · obtain ⟨oi, hoi, rfl⟩ := List.mem_map.mp h
      have hl := ho oi (List.mem_filter.mp hoi).1
      exact ⟨hl.typ, (by intro p hp; have hp : oi.prev = some p := hp; rw [hl.prev] at hp; cases hp), Or.inr (Or.inr (Or.inl rfl))⟩
  · rw [filterMap_flatMap', List.flatMap_append]
    unfold emitDown
    congr 1
    · rw [List.flatMap_map]
      unfold idxSpecOf
      have : ∀ l : List Index, (∀ i ∈ l, i.Live) →
          l.flatMap (fun i => ((tagIdx o i).downStmts tb).filterMap idxStmt) =
            ((l.filter (fun i => i.name != pkName)).map Index.toSpec).flatMap
              (emitDownOne ((o.idxs.filter (fun i => i.name != pkName)).map Index.toSpec)) := by
        intro l
        induction l with
        | nil => intro _; rfl
        | cons i r ih =>
          intro hl
          rw [List.flatMap_cons, ih (fun x hx => hl x (by simp [hx])), proj_new_down tb o ho i (hl i (by simp)),
            List.filter_cons]
          by_cases hp : i.name = pkName
          · simp [hp]
          · have h1 : (i.name == pkName) = false := by simpa using hp
            have h2 : (i.name != pkName) = true := by simpa using hp
            rw [h1, h2]
            simp only [Bool.false_eq_true, if_false, if_true, List.map_cons, List.flatMap_cons]
            rfl
      exact this t.idxs ht
    · rw [List.flatMap_map]
      have hnames : ∀ oi : Index, oi.name ≠ pkName →
          (names (idxSpecOf t.idxs)).contains oi.name = t.idxNames.contains oi.name := by
        intro oi hne
        have : names (idxSpecOf t.idxs) = (t.idxs.map (·.name)).filter (· != pkName) := idxSpecOf_names t.idxs
        rw [this]
        cases hc : t.idxNames.contains oi.name with
        | true =>
          have hm : oi.name ∈ t.idxNames := by simpa using hc
          have : oi.name ∈ (t.idxs.map (·.name)).filter (· != pkName) := List.mem_filter.mpr ⟨hm, by simpa using hne⟩
          simpa using this
        | false =>
          have hm : oi.name ∉ t.idxNames := by simpa using hc
          have : oi.name ∉ (t.idxs.map (·.name)).filter (· != pkName) := fun h => hm (List.mem_filter.mp h).1
          simpa using this
      unfold idxSpecOf at hnames ⊢
      have : ∀ l : List Index, (∀ i ∈ l, i.Live) →
          (l.filter (fun oi => !t.idxNames.contains oi.name)).flatMap
              (fun oi => (Index.downStmts { oi with action := .remove } tb).filterMap idxStmt) =
            (((l.filter (fun i => i.name != pkName)).map Index.toSpec).filter
                (fun s => !(names ((t.idxs.filter (fun i => i.name != pkName)).map Index.toSpec)).contains (Named.name s))).map
              IStmt.create := by
        intro l
        induction l with
        | nil => intro _; rfl
        | cons oi r ih =>
          intro hl
          have ihr := ih (fun x hx => hl x (by simp [hx]))
          by_cases hp : oi.name = pkName
          · have h2 : (oi.name != pkName) = false := by simp [hp]
            rw [List.filter_cons (p := fun i : Index => i.name != pkName), h2]
            simp only [Bool.false_eq_true, if_false]
            rw [← ihr, List.filter_cons]
            split
            · rw [List.flatMap_cons, proj_old_down tb oi (hl oi (by simp))]
              simp [hp]
            · rfl
          · have h2 : (oi.name != pkName) = true := by simpa using hp
            have h1 : (oi.name == pkName) = false := by simpa using hp
            rw [List.filter_cons (p := fun i : Index => i.name != pkName), h2]
            simp only [if_true, List.map_cons]
            rw [List.filter_cons (p := fun s : IdxSpec => _)]
            have hnm : Named.name oi.toSpec = oi.name := rfl
            rw [hnm, hnames oi hp, List.filter_cons]
            cases hc : t.idxNames.contains oi.name
            · simp only [Bool.not_false, if_true, List.flatMap_cons, List.map_cons]
              rw [proj_old_down tb oi (hl oi (by simp)), h1, ihr]
              rfl
            · simp only [Bool.not_true, Bool.false_eq_true, if_false]
              exact ihr
      exact this o.idxs ho

/-- **the foreign-key walk refines the keep-emission** -/
theorem walkFk_refines (tb : String) (t o : Table) (ht : ∀ f ∈ t.fks, f.action = .add) :
    (walkFk tb true []
        (t.fks.map (tagFk o) ++
          (o.fks.filter (fun f => !t.fkNames.contains f.name)).map (fun f => { f with action := .remove }))).filterMap fkStmt =
      emitKeep (fkSpecOf t.fks) (fkSpecOf o.fks) := by
  rw [walkFk_nil, filterMap_flatMap', List.flatMap_append]
  unfold emitKeep fkSpecOf
  congr 1
  · rw [List.flatMap_map]
    have : ∀ l : List ForeignKey, (∀ f ∈ l, f.action = .add) →
        l.flatMap (fun f => ((tagFk o f).migrationUp tb).filterMap fkStmt) =
          ((l.map ForeignKey.toSpec).filter (fun s => !(names (o.fks.map ForeignKey.toSpec)).contains (Named.name s))).map
            IStmt.create := by
      intro l
      induction l with
      | nil => intro _; rfl
      | cons f r ih =>
        intro hl
        rw [List.flatMap_cons, ih (fun x hx => hl x (by simp [hx])), List.map_cons, List.filter_cons]
        have hnm : Named.name f.toSpec = f.name := rfl
        have hnames : names (o.fks.map ForeignKey.toSpec) = o.fks.map (·.name) := by
          show (o.fks.map ForeignKey.toSpec).map (fun s : FkSpec => Named.name s) = _
          rw [List.map_map]; rfl
        rw [hnm, hnames]
        unfold tagFk
        cases hf : o.fks.find? (fun y => y.name == f.name) with
        | none =>
          have hnot : f.name ∉ o.fks.map (·.name) := by
            intro hm
            obtain ⟨x, hx, he⟩ := List.mem_map.mp hm
            have := List.find?_eq_none.mp hf x hx
            simp [he] at this
          have hc : (!(o.fks.map (·.name)).contains f.name) = true := by simpa using hnot
          rw [hc]
          simp [ForeignKey.migrationUp, hl f (by simp), fkStmt, ForeignKey.toSpec]
        | some of_ =>
          have hin : f.name ∈ o.fks.map (·.name) := by
            have h1 := List.mem_of_find?_eq_some hf
            have h2 : of_.name = f.name := by simpa using List.find?_some hf
            exact h2 ▸ List.mem_map_of_mem h1
          have hc : (!(o.fks.map (·.name)).contains f.name) = false := by simpa using hin
          rw [hc]
          simp [ForeignKey.migrationUp]
    exact this t.fks ht
  · rw [List.flatMap_map]
    have hnames : names (t.fks.map ForeignKey.toSpec) = t.fkNames := by
      show (t.fks.map ForeignKey.toSpec).map (fun s : FkSpec => Named.name s) = _
      rw [List.map_map]; rfl
    rw [hnames, List.filter_map, List.map_map]
    induction o.fks with
    | nil => rfl
    | cons f r ih =>
      rw [List.filter_cons, List.filter_cons]
      have hnm : Named.name f.toSpec = f.name := rfl
      simp only [Function.comp, hnm]
      split
      · rw [List.flatMap_cons, List.map_cons, ih]
        simp [ForeignKey.migrationUp, fkStmt, ForeignKey.toSpec]
      · exact ih

theorem walkFk_nil_down (tb : String) (fks : List ForeignKey) :
    walkFk tb false [] fks = fks.flatMap (fun f => f.migrationDown tb) := by
  unfold walkFk
  congr 1
  funext f
  by_cases hn : f.action = .none
  · simp [hn, ForeignKey.migrationDown]
  · have : (f.action != .none) = true := by simpa using hn
    simp [this]

/-- **the foreign-key walk of the down migration refines the keep-emission of the down direction** -/
theorem walkFk_refines_down (tb : String) (t o : Table) (ht : ∀ f ∈ t.fks, f.action = .add) :
    (walkFk tb false []
        (t.fks.map (tagFk o) ++
          (o.fks.filter (fun f => !t.fkNames.contains f.name)).map (fun f => { f with action := .remove }))).filterMap fkStmt =
      emitDownKeep (fkSpecOf t.fks) (fkSpecOf o.fks) := by
  rw [walkFk_nil_down, filterMap_flatMap', List.flatMap_append]
  unfold emitDownKeep fkSpecOf
  congr 1
  · rw [List.flatMap_map]
    have : ∀ l : List ForeignKey, (∀ f ∈ l, f.action = .add) →
        l.flatMap (fun f => ((tagFk o f).migrationDown tb).filterMap fkStmt) =
          ((l.map ForeignKey.toSpec).filter (fun s => !(names (o.fks.map ForeignKey.toSpec)).contains (Named.name s))).map
            (fun s => IStmt.drop (Named.name s)) := by
      intro l
      induction l with
      | nil => intro _; rfl
      | cons f r ih =>
        intro hl
        rw [List.flatMap_cons, ih (fun x hx => hl x (by simp [hx])), List.map_cons, List.filter_cons]
        have hnm : Named.name f.toSpec = f.name := rfl
        have hnames : names (o.fks.map ForeignKey.toSpec) = o.fks.map (·.name) := by
          show (o.fks.map ForeignKey.toSpec).map (fun s : FkSpec => Named.name s) = _
          rw [List.map_map]; rfl
        rw [hnm, hnames]
        unfold tagFk
        cases hf : o.fks.find? (fun y => y.name == f.name) with
        | none =>
          have hnot : f.name ∉ o.fks.map (·.name) := by
            intro hm
            obtain ⟨x, hx, he⟩ := List.mem_map.mp hm
            have := List.find?_eq_none.mp hf x hx
            simp [he] at this
          have hc : (!(o.fks.map (·.name)).contains f.name) = true := by simpa using hnot
          rw [hc]
          simp [ForeignKey.migrationDown, ForeignKey.migrationUp, hl f (by simp), fkStmt, ForeignKey.toSpec]
        | some of_ =>
          have hin : f.name ∈ o.fks.map (·.name) := by
            have h1 := List.mem_of_find?_eq_some hf
            have h2 : of_.name = f.name := by simpa using List.find?_some hf
            exact h2 ▸ List.mem_map_of_mem h1
          have hc : (!(o.fks.map (·.name)).contains f.name) = false := by simpa using hin
          rw [hc]
          simp [ForeignKey.migrationDown]
    exact this t.fks ht
  · rw [List.flatMap_map]
    have hnames : names (t.fks.map ForeignKey.toSpec) = t.fkNames := by
      show (t.fks.map ForeignKey.toSpec).map (fun s : FkSpec => Named.name s) = _
      rw [List.map_map]; rfl
    rw [hnames, List.filter_map, List.map_map]
    induction o.fks with
    | nil => rfl
    | cons f r ih =>
      rw [List.filter_cons, List.filter_cons]
      have hnm : Named.name f.toSpec = f.name := rfl
      simp only [Function.comp, hnm]
      split
      · rw [List.flatMap_cons, List.map_cons, ih]
        simp [ForeignKey.migrationDown, ForeignKey.migrationUp, fkStmt, ForeignKey.toSpec]
      · exact ih

end Table
end Sqlize
