/-
  Proofs/Stable.lean — output calls on an *arrange-stable* state are pure: `MigrationUp` / `MigrationDown` return the
  state they were given, so any sequence of output calls sees the same state and returns the same values.
  (`Arrange` is the only place where an output method writes to the model: it re-sorts the shared column array.)
-/
import SqlizeModel.Impl.Emit

namespace Sqlize

/-- `Arrange` leaves every (printed) table as it is -/
def Migration.Stable (m : Migration) : Prop :=
  ∀ t ∈ m.tables, t.name ≠ Migration.defaultMigrationTable → t.arrange = .ok t

theorem migrate_state_of_stable (g : Globals) (up : Bool) : ∀ (ts ts' : List Table) (out : List (List Stmt)),
    (∀ t ∈ ts, t.name ≠ Migration.defaultMigrationTable → t.arrange = .ok t) →
    Migration.migrate g up ts = .ok (ts', out) → ts' = ts := by
  intro ts
  induction ts with
  | nil =>
    intro ts' out _ he
    simp [Migration.migrate, pure, Except.pure] at he
    exact he.1
  | cons t r ih =>
    intro ts' out h he
    have hr : ∀ x ∈ r, x.name ≠ Migration.defaultMigrationTable → x.arrange = .ok x :=
      fun x hx => h x (by simp [hx])
    unfold Migration.migrate at he
    split at he
    · simp only [bind, Except.bind] at he
      cases hm : Migration.migrate g up r with
      | error e => rw [hm] at he; simp at he
      | ok res =>
        obtain ⟨ts1, out1⟩ := res
        rw [hm] at he
        simp [pure, Except.pure] at he
        obtain ⟨rfl, _⟩ := he
        rw [ih ts1 out1 hr hm]
    · rename_i hname
      have hst : t.arrange = .ok t := h t (by simp) (by simpa using hname)
      simp only [bind, Except.bind, hst] at he
      -- whatever the three printers return, the table stored back is `t`
      cases hc : (if up = true then t.migrationColumnUp g else t.migrationColumnDown g) with
      | error e => rw [hc] at he; simp at he
      | ok cres =>
        obtain ⟨cs, dropCols⟩ := cres
        rw [hc] at he
        simp only at he
        cases hi : (if up = true then t.migrationIndexUp g dropCols else t.migrationIndexDown g dropCols) with
        | error e => rw [hi] at he; simp at he
        | ok is =>
          rw [hi] at he
          simp only at he
          cases hm : Migration.migrate g up r with
          | error e => rw [hm] at he; simp at he
          | ok res =>
            obtain ⟨ts1, out1⟩ := res
            rw [hm] at he
            simp [pure, Except.pure] at he
            obtain ⟨rfl, _⟩ := he
            rw [ih ts1 out1 hr hm]

theorem migrationUp_state_of_stable (g : Globals) (m m' : Migration) (out : List (List Stmt)) (h : m.Stable)
    (he : m.migrationUp g = .ok (m', out)) : m' = m := by
  unfold Migration.migrationUp at he
  simp only [bind, Except.bind] at he
  cases hm : Migration.migrate g true m.tables with
  | error e => rw [hm] at he; simp at he
  | ok res =>
    obtain ⟨ts, o⟩ := res
    rw [hm] at he
    simp [pure, Except.pure] at he
    obtain ⟨rfl, _⟩ := he
    rw [migrate_state_of_stable g true m.tables ts o h hm]

theorem migrationDown_state_of_stable (g : Globals) (m m' : Migration) (out : List (List Stmt)) (h : m.Stable)
    (he : m.migrationDown g = .ok (m', out)) : m' = m := by
  unfold Migration.migrationDown at he
  simp only [bind, Except.bind] at he
  cases hm : Migration.migrate g false m.tables with
  | error e => rw [hm] at he; simp at he
  | ok res =>
    obtain ⟨ts, o⟩ := res
    rw [hm] at he
    simp [pure, Except.pure] at he
    obtain ⟨rfl, _⟩ := he
    rw [migrate_state_of_stable g false m.tables ts o h hm]

end Sqlize
