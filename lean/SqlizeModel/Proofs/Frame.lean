/-
  Proofs/Frame.lean — what the `Table` primitives leave alone: the table's own action never changes, and the primitives
  on indexes and foreign keys keep every column's name and action (`sig`).
-/
import SqlizeModel.Proofs.ColOps

namespace Sqlize
namespace Table

theorem swapOrder_action (t t' : Table) (cn : String) (a b : Nat) (hs : t.swapOrder cn a b = .ok t') :
    t'.action = t.action := by
  unfold swapOrder at hs
  split at hs
  · have := pure_ok hs; subst this; rfl
  · obtain ⟨col, _, hs⟩ := bind_ok hs
    split at hs
    · have := pure_ok hs; subst this; rfl
    · cases hs

theorem positionStep_action (t t' : Table) (c : String) (id : Nat) (hs : t.positionStep c id = .ok t') :
    t'.action = t.action := by
  unfold positionStep at hs
  cases hp : t.pendingPos with
  | none => rw [hp] at hs; have := pure_ok hs; subst this; rfl
  | some p =>
    rw [hp] at hs
    cases p with
    | first =>
      obtain ⟨t1, h1, hs⟩ := bind_ok hs
      have := pure_ok hs; subst this
      exact swapOrder_action t t1 _ _ _ h1
    | after r =>
      simp only at hs
      cases hr : t.colIdx.get? r with
      | none => rw [hr] at hs; have := pure_ok hs; subst this; rfl
      | some a =>
        rw [hr] at hs
        obtain ⟨t1, h1, hs⟩ := bind_ok hs
        have := pure_ok hs; subst this
        exact swapOrder_action t t1 _ _ _ h1

theorem addColumn_action (t t' : Table) (col : Column) (mysql : Bool) {pg : Bool} (hs : t.addColumn col mysql pg = .ok t') :
    t'.action = t.action := by
  unfold addColumn at hs
  cases hg : t.colIdx.get? col.name with
  | none =>
    rw [hg] at hs
    simp only at hs
    exact positionStep_action { t with cols := t.cols ++ [col], colIdx := t.colIdx.set col.name t.cols.length } t' _ _ hs
  | some id =>
    rw [hg] at hs
    simp only at hs
    obtain ⟨c, _, hs⟩ := bind_ok hs
    split at hs
    · exact positionStep_action { t with cols := t.cols.set id col } t' _ _ hs
    · have := pure_ok hs; subst this; rfl

theorem forgetIndex_action (t t' : Table) (id : Nat) (hs : t.forgetIndex id = .ok t') : t'.action = t.action := by
  unfold forgetIndex at hs
  obtain ⟨i, _, hs⟩ := bind_ok hs
  have := pure_ok hs; subst this; rfl

theorem forgetForeignKey_action (t t' : Table) (id : Nat) (hs : t.forgetForeignKey id = .ok t') :
    t'.action = t.action := by
  unfold forgetForeignKey at hs
  obtain ⟨i, _, hs⟩ := bind_ok hs
  have := pure_ok hs; subst this; rfl

theorem stripColFromIndexes_action (col : String) (k : Nat) : ∀ (t t' : Table),
    t.stripColFromIndexes col k = .ok t' → t'.action = t.action := by
  induction k with
  | zero => intro t t' hs; unfold stripColFromIndexes at hs; have := pure_ok hs; subst this; rfl
  | succ k ih =>
    intro t t' hs
    unfold stripColFromIndexes at hs
    obtain ⟨i, _, hs⟩ := bind_ok hs
    obtain ⟨t1, h1, hs⟩ := bind_ok hs
    have h1p : t1.action = t.action := by
      split at h1
      · exact forgetIndex_action t t1 k h1
      · have := pure_ok h1; subst this; rfl
    rw [ih t1 t' hs, h1p]

theorem dropFksOnCol_action (col : String) (k : Nat) : ∀ (t t' : Table),
    t.dropFksOnCol col k = .ok t' → t'.action = t.action := by
  induction k with
  | zero => intro t t' hs; unfold dropFksOnCol at hs; have := pure_ok hs; subst this; rfl
  | succ k ih =>
    intro t t' hs
    unfold dropFksOnCol at hs
    obtain ⟨f, _, hs⟩ := bind_ok hs
    obtain ⟨t1, h1, hs⟩ := bind_ok hs
    have h1p : t1.action = t.action := by
      split at h1
      · exact forgetForeignKey_action t t1 k h1
      · have := pure_ok h1; subst this; rfl
    rw [ih t1 t' hs, h1p]

theorem removeColumn_action (t t' : Table) (name : String) (hs : t.removeColumn name = .ok t') :
    t'.action = t.action := by
  unfold removeColumn at hs
  cases hg : t.colIdx.get? name with
  | none => rw [hg] at hs; have := pure_ok hs; subst this; rfl
  | some id =>
    rw [hg] at hs
    simp only at hs
    obtain ⟨c, _, hs⟩ := bind_ok hs
    split at hs
    · obtain ⟨t2, h2, hs⟩ := bind_ok hs
      rw [dropFksOnCol_action name _ t2 t' hs, stripColFromIndexes_action name _ _ t2 h2]
    · have := pure_ok hs; subst this; rfl

/-- a primitive that leaves the columns' names and actions, the table's action and the pending position alone -/
structure Frame (t t' : Table) : Prop where
  sig : t'.sig = t.sig
  action : t'.action = t.action
  pending : t'.pendingPos = t.pendingPos

theorem addIndex_frame (t t' : Table) (idx : Index) (hs : t.addIndex idx = .ok t') : Frame t t' := by
  refine ⟨?_, ?_, addIndex_pending t t' idx hs⟩ <;>
  · unfold addIndex at hs
    cases hg : t.idxIdx.get? idx.name with
    | none => rw [hg] at hs; have := pure_ok hs; subst this; rfl
    | some id =>
      rw [hg] at hs
      simp only at hs
      obtain ⟨l, _, hs⟩ := bind_ok hs
      have := pure_ok hs; subst this; rfl

theorem removeIndex_frame (t t' : Table) (name : String) (hs : t.removeIndex name = .ok t') : Frame t t' := by
  refine ⟨?_, ?_, removeIndex_pending t t' name hs⟩
  · unfold removeIndex at hs
    cases hg : t.idxIdx.get? name with
    | none => rw [hg] at hs; have := pure_ok hs; subst this; rfl
    | some id =>
      rw [hg] at hs
      simp only at hs
      obtain ⟨i, _, hs⟩ := bind_ok hs
      split at hs
      · exact forgetIndex_sig t t' id hs
      · have := pure_ok hs; subst this; rfl
  · unfold removeIndex at hs
    cases hg : t.idxIdx.get? name with
    | none => rw [hg] at hs; have := pure_ok hs; subst this; rfl
    | some id =>
      rw [hg] at hs
      simp only at hs
      obtain ⟨i, _, hs⟩ := bind_ok hs
      split at hs
      · exact forgetIndex_action t t' id hs
      · have := pure_ok hs; subst this; rfl

theorem addForeignKey_frame (t t' : Table) (fk : ForeignKey) (hs : t.addForeignKey fk = .ok t') : Frame t t' := by
  refine ⟨?_, ?_, addForeignKey_pending t t' fk hs⟩
  · unfold addForeignKey at hs
    obtain ⟨t1, h1, hs⟩ := bind_ok hs
    have := pure_ok hs; subst this
    have h1s : t1.cols = t.cols := by
      cases hg : t.fkIdx.get? fk.name with
      | none => rw [hg] at h1; have := pure_ok h1; subst this; rfl
      | some id =>
        rw [hg] at h1
        simp only at h1
        obtain ⟨l, _, h1⟩ := bind_ok h1
        have := pure_ok h1; subst this; rfl
    show List.map (fun c : Column => (c.name, c.action, c.cur.typ, optKinds c.cur.opts)) (t1.cols.map _) = _
    rw [List.map_map, h1s]
    apply List.map_congr_left
    intro c _
    simp only [Function.comp_apply]
    split
    · simp only [optKinds_append_mark]
    · rfl
  · unfold addForeignKey at hs
    obtain ⟨t1, h1, hs⟩ := bind_ok hs
    have := pure_ok hs; subst this
    show t1.action = _
    cases hg : t.fkIdx.get? fk.name with
    | none => rw [hg] at h1; have := pure_ok h1; subst this; rfl
    | some id =>
      rw [hg] at h1
      simp only at h1
      obtain ⟨l, _, h1⟩ := bind_ok h1
      have := pure_ok h1; subst this; rfl

theorem removeForeignKey_frame (t t' : Table) (name : String) (hs : t.removeForeignKey name = .ok t') : Frame t t' := by
  refine ⟨?_, ?_, removeForeignKey_pending t t' name hs⟩
  · unfold removeForeignKey at hs
    cases hg : t.fkIdx.get? name with
    | none => rw [hg] at hs; have := pure_ok hs; subst this; rfl
    | some id =>
      rw [hg] at hs
      simp only at hs
      obtain ⟨f, _, hs⟩ := bind_ok hs
      split at hs
      · exact forgetForeignKey_sig t t' id hs
      · have := pure_ok hs; subst this; rfl
  · unfold removeForeignKey at hs
    cases hg : t.fkIdx.get? name with
    | none => rw [hg] at hs; have := pure_ok hs; subst this; rfl
    | some id =>
      rw [hg] at hs
      simp only at hs
      obtain ⟨f, _, hs⟩ := bind_ok hs
      split at hs
      · exact forgetForeignKey_action t t' id hs
      · have := pure_ok hs; subst this; rfl

end Table
end Sqlize
