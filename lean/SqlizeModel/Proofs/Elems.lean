/-
  Proofs/Elems.lean — what the `Table` primitives do to the index and foreign-key slices (`Table.raw`), and how those
  slices read as the reference engine's `IdxSpec` / `FkSpec` lists (`idxSpecOf`, `fkSpecOf`).

  The model keeps a table-level primary key as an index record named `primary_key`; the reference engine keeps the
  primary key apart from the indexes, so `idxSpecOf` leaves that record out.
-/
import SqlizeModel.Proofs.Frame
import SqlizeModel.Impl.Diff
import SqlizeModel.Impl.ReaderMysql
import SqlizeModel.Spec.Exec

namespace Sqlize
open Spec

/-- the index and foreign-key slices of a table -/
def Table.raw (t : Table) : List Index × List ForeignKey := (t.idxs, t.fks)

def pkName : String := "primary_key"

def Index.toSpec (i : Index) : IdxSpec :=
  { name := i.name, cols := i.cols, unique := i.typ == .unique, itype := Table.normIdxType i.indexType }

def ForeignKey.toSpec (f : ForeignKey) : FkSpec :=
  { name := f.name, col := f.column, refT := f.refTable, refC := f.refColumn }

/-- the indexes of a table as the reference engine lists them (the `primary_key` record is not an index there) -/
def idxSpecOf (is : List Index) : List IdxSpec := (is.filter (·.name != pkName)).map Index.toSpec
def fkSpecOf (fs : List ForeignKey) : List FkSpec := fs.map ForeignKey.toSpec

/-- an index record as the reader leaves it: created by the history read so far, not empty, marked as the primary key
    exactly when it is the `primary_key` record, plain or unique -/
structure Index.Live (i : Index) : Prop where
  add : i.action = .add
  ne : i.cols ≠ []
  pk : i.isPk = (i.name == pkName)
  typ : i.typ = .none ∨ i.typ = .unique
  prev : i.prev = none      -- `previous` is set by `Table.Diff` only

/-- every index / foreign key was created by the history read so far, and every index record is well-formed -/
@[reducible] def ElemFresh (r : List Index × List ForeignKey) : Prop :=
  (∀ i ∈ r.1, i.Live) ∧ (∀ f ∈ r.2, f.action = .add)

-- ---------------------------------------------------------------------------------------------------------------
-- list facts

/-- deleting the record at a position = filtering its (unique) name out -/
theorem eraseIdx_eq_filter_name {α : Type} (f : α → String) : ∀ (l : List α) (id : Nat) (x : α),
    (l.map f).Nodup → l[id]? = some x → l.eraseIdx id = l.filter (fun y => f y != f x) := by
  intro l
  induction l with
  | nil => intro id x _ h; simp at h
  | cons a r ih =>
    intro id x hnd h
    rw [List.map_cons, List.nodup_cons] at hnd
    cases id with
    | zero =>
      have hax : a = x := by simpa using h
      subst hax
      rw [List.eraseIdx_cons_zero, List.filter_cons]
      have : (f a != f a) = false := by simp
      rw [this]
      simp only [Bool.false_eq_true, if_false]
      symm
      rw [List.filter_eq_self]
      intro y hy
      have : f y ≠ f a := fun he => hnd.1 (he ▸ List.mem_map_of_mem hy)
      simpa using this
    | succ n =>
      have hx : r[n]? = some x := by simpa using h
      have hmem : x ∈ r := List.mem_of_getElem? hx
      have hne : f a ≠ f x := fun he => hnd.1 (he ▸ List.mem_map_of_mem hmem)
      rw [List.eraseIdx_cons_succ, List.filter_cons]
      have : (f a != f x) = true := by simpa using hne
      rw [this]
      simp only [if_true]
      rw [ih n x hnd.2 hx]

theorem filter_set_hidden {α : Type} (p : α → Bool) : ∀ (l : List α) (id : Nat) (x y : α),
    l[id]? = some x → p x = false → p y = false → (l.set id y).filter p = l.filter p := by
  intro l
  induction l with
  | nil => intro id x y h; simp at h
  | cons a r ih =>
    intro id x y h hx hy
    cases id with
    | zero =>
      have hax : a = x := by simpa using h
      subst hax
      rw [List.set_cons_zero, List.filter_cons, List.filter_cons, hx, hy]
      simp
    | succ n =>
      have h' : r[n]? = some x := by simpa using h
      rw [List.set_cons_succ, List.filter_cons, List.filter_cons, ih n x y h' hx hy]

theorem take_eraseIdx_self {α : Type} (l : List α) (k : Nat) : (l.eraseIdx k).take k = l.take k := by
  induction l generalizing k with
  | nil => simp
  | cons a r ih => cases k with
    | zero => simp
    | succ n => simp [ih]

theorem drop_eraseIdx_self {α : Type} (l : List α) (k : Nat) : (l.eraseIdx k).drop k = l.drop (k + 1) := by
  induction l generalizing k with
  | nil => simp
  | cons a r ih => cases k with
    | zero => simp
    | succ n => simp [ih]

theorem take_set_self {α : Type} (l : List α) (k : Nat) (x : α) : (l.set k x).take k = l.take k := by
  induction l generalizing k with
  | nil => simp
  | cons a r ih => cases k with
    | zero => simp
    | succ n => simp [ih]

theorem drop_set_self {α : Type} (l : List α) (k : Nat) (x : α) (h : k < l.length) : (l.set k x).drop k = x :: l.drop (k + 1) := by
  induction l generalizing k with
  | nil => simp at h
  | cons a r ih => cases k with
    | zero => simp
    | succ n => simp at h; simp [ih n h]

theorem take_succ_of {α : Type} (l : List α) (k : Nat) (x : α) (h : l[k]? = some x) : l.take (k + 1) = l.take k ++ [x] := by
  rw [List.take_add_one, h]; rfl

-- ---------------------------------------------------------------------------------------------------------------
-- how the spec views follow the list edits

theorem idxSpecOf_append (is : List Index) (i : Index) (h : i.name ≠ pkName) :
    idxSpecOf (is ++ [i]) = idxSpecOf is ++ [i.toSpec] := by
  unfold idxSpecOf
  have : (i.name != pkName) = true := by simpa using h
  simp [List.filter_append, this]

theorem idxSpecOf_append_pk (is : List Index) (i : Index) (h : i.name = pkName) :
    idxSpecOf (is ++ [i]) = idxSpecOf is := by
  unfold idxSpecOf
  have : (i.name != pkName) = false := by simp [h]
  simp [List.filter_append, this]

theorem idxSpecOf_set_pk (is : List Index) (id : Nat) (x i : Index) (hx : is[id]? = some x) (hxn : x.name = pkName)
    (h : i.name = pkName) : idxSpecOf (is.set id i) = idxSpecOf is := by
  unfold idxSpecOf
  rw [filter_set_hidden _ is id x i hx (by simp [hxn]) (by simp [h])]

theorem idxSpecOf_names (is : List Index) : (idxSpecOf is).map (·.name) = (is.map (·.name)).filter (· != pkName) := by
  unfold idxSpecOf
  rw [List.map_map, List.filter_map]
  rfl

theorem idxSpecOf_filter (is : List Index) (n : String) :
    idxSpecOf (is.filter (fun y => y.name != n)) = (idxSpecOf is).filter (·.name != n) := by
  unfold idxSpecOf
  rw [List.filter_map, List.filter_filter, List.filter_filter]
  congr 1
  apply List.filter_congr
  intro x _
  simp [Index.toSpec, Bool.and_comm]

/-- the strip of `removeColumn` on an index record / on its reference image -/
def Index.strip (c : String) (i : Index) : Index := { i with cols := i.cols.filter (· != c) }

theorem idxSpecOf_strip (is : List Index) (c : String) :
    idxSpecOf ((is.map (Index.strip c)).filter (fun i => !i.cols.isEmpty)) =
      ((idxSpecOf is).map (fun i => { i with cols := i.cols.filter (· != c) })).filter (fun i => !i.cols.isEmpty) := by
  unfold idxSpecOf
  induction is with
  | nil => rfl
  | cons i r ih =>
    simp only [List.map_cons, List.filter_cons]
    by_cases hn : (i.name != pkName) = true
    · by_cases he : (!(i.cols.filter (· != c)).isEmpty) = true
      · simp [Index.strip, hn, he, Index.toSpec] at ih ⊢
        exact ih
      · simp [Index.strip, hn, he, Index.toSpec] at ih ⊢
        exact ih
    · by_cases he : (!(i.cols.filter (· != c)).isEmpty) = true
      · simp [Index.strip, hn, he, Index.toSpec] at ih ⊢
        exact ih
      · simp [Index.strip, hn, he, Index.toSpec] at ih ⊢
        exact ih

theorem fkSpecOf_filter_name (fs : List ForeignKey) (n : String) :
    fkSpecOf (fs.filter (fun y => y.name != n)) = (fkSpecOf fs).filter (·.name != n) := by
  unfold fkSpecOf
  rw [List.filter_map]
  rfl

theorem fkSpecOf_filter_col (fs : List ForeignKey) (c : String) :
    fkSpecOf (fs.filter (fun y => y.column != c)) = (fkSpecOf fs).filter (·.col != c) := by
  unfold fkSpecOf
  rw [List.filter_map]
  rfl

theorem fkSpecOf_names (fs : List ForeignKey) : (fkSpecOf fs).map (·.name) = fs.map (·.name) := by
  unfold fkSpecOf
  rw [List.map_map]
  rfl

-- ---------------------------------------------------------------------------------------------------------------
-- the column primitives leave both slices alone

namespace Table

theorem swapOrder_raw (t t' : Table) (cn : String) (a b : Nat) (hs : t.swapOrder cn a b = .ok t') : t'.raw = t.raw := by
  unfold swapOrder at hs
  split at hs
  · have := pure_ok hs; subst this; rfl
  · obtain ⟨col, _, hs⟩ := bind_ok hs
    split at hs
    · have := pure_ok hs; subst this; rfl
    · cases hs

theorem positionStep_raw (t t' : Table) (c : String) (id : Nat) (hs : t.positionStep c id = .ok t') : t'.raw = t.raw := by
  unfold positionStep at hs
  cases hp : t.pendingPos with
  | none => rw [hp] at hs; have := pure_ok hs; subst this; rfl
  | some p =>
    rw [hp] at hs
    cases p with
    | first =>
      obtain ⟨t1, h1, hs⟩ := bind_ok hs
      have := pure_ok hs; subst this
      exact swapOrder_raw t t1 _ _ _ h1
    | after r =>
      simp only at hs
      cases hr : t.colIdx.get? r with
      | none => rw [hr] at hs; have := pure_ok hs; subst this; rfl
      | some a =>
        rw [hr] at hs
        obtain ⟨t1, h1, hs⟩ := bind_ok hs
        have := pure_ok hs; subst this
        exact swapOrder_raw t t1 _ _ _ h1

theorem addColumn_raw (t t' : Table) (col : Column) (mysql : Bool) (hs : t.addColumn col mysql = .ok t') :
    t'.raw = t.raw := by
  unfold addColumn at hs
  cases hg : t.colIdx.get? col.name with
  | none =>
    rw [hg] at hs
    simp only at hs
    exact positionStep_raw { t with cols := t.cols ++ [col], colIdx := t.colIdx.set col.name t.cols.length } t' _ _ hs
  | some id =>
    rw [hg] at hs
    simp only at hs
    obtain ⟨c, _, hs⟩ := bind_ok hs
    split at hs
    · exact positionStep_raw { t with cols := t.cols.set id col } t' _ _ hs
    · have := pure_ok hs; subst this; rfl

-- the index / key primitives

theorem addIndex_raw_fresh (t t' : Table) (idx : Index) (hg : t.idxIdx.get? idx.name = none)
    (hs : t.addIndex idx = .ok t') : t'.raw = (t.idxs ++ [idx], t.fks) := by
  unfold addIndex at hs
  rw [hg] at hs
  have := pure_ok hs; subst this; rfl

theorem addIndex_raw_hit (t t' : Table) (idx : Index) (id : Nat) (hg : t.idxIdx.get? idx.name = some id)
    (hs : t.addIndex idx = .ok t') : t'.raw = (t.idxs.set id idx, t.fks) := by
  unfold addIndex at hs
  rw [hg] at hs
  simp only at hs
  obtain ⟨l, hl, hs⟩ := bind_ok hs
  have := pure_ok hs; subst this
  rw [(setIdx_ok hl).2]
  rfl

theorem forgetIndex_raw (t t' : Table) (id : Nat) (hs : t.forgetIndex id = .ok t') :
    t'.raw = (t.idxs.eraseIdx id, t.fks) := by
  unfold forgetIndex at hs
  obtain ⟨i, _, hs⟩ := bind_ok hs
  have := pure_ok hs; subst this; rfl

theorem forgetForeignKey_raw (t t' : Table) (id : Nat) (hs : t.forgetForeignKey id = .ok t') :
    t'.raw = (t.idxs, t.fks.eraseIdx id) := by
  unfold forgetForeignKey at hs
  obtain ⟨i, _, hs⟩ := bind_ok hs
  have := pure_ok hs; subst this; rfl

theorem removeIndex_raw_hit (t t' : Table) (name : String) (id : Nat) (i : Index) (hg : t.idxIdx.get? name = some id)
    (hi : t.idxs[id]? = some i) (ha : i.action = .add) (hs : t.removeIndex name = .ok t') :
    t'.raw = (t.idxs.eraseIdx id, t.fks) := by
  unfold removeIndex at hs
  rw [hg] at hs
  simp only at hs
  obtain ⟨i', hi', hs⟩ := bind_ok hs
  have : i' = i := by have := getIdx_ok hi'; rw [hi] at this; exact (Option.some.inj this).symm
  subst this
  rw [ha] at hs
  simp only [beq_self_eq_true, if_true] at hs
  exact forgetIndex_raw t t' id hs

theorem addForeignKey_raw_fresh (t t' : Table) (fk : ForeignKey) (hg : t.fkIdx.get? fk.name = none)
    (hs : t.addForeignKey fk = .ok t') : t'.raw = (t.idxs, t.fks ++ [fk]) := by
  unfold addForeignKey at hs
  rw [hg] at hs
  obtain ⟨t1, h1, hs⟩ := bind_ok hs
  have := pure_ok h1; subst this
  have := pure_ok hs; subst this
  rfl

theorem removeForeignKey_raw_hit (t t' : Table) (name : String) (id : Nat) (f : ForeignKey)
    (hg : t.fkIdx.get? name = some id) (hi : t.fks[id]? = some f) (ha : f.action = .add)
    (hs : t.removeForeignKey name = .ok t') : t'.raw = (t.idxs, t.fks.eraseIdx id) := by
  unfold removeForeignKey at hs
  rw [hg] at hs
  simp only at hs
  obtain ⟨f', hf', hs⟩ := bind_ok hs
  have : f' = f := by have := getIdx_ok hf'; rw [hi] at this; exact (Option.some.inj this).symm
  subst this
  rw [ha] at hs
  simp only [beq_self_eq_true, if_true] at hs
  exact forgetForeignKey_raw t t' id hs

/-- the index clean-up loop of `removeColumn`: visited records are stripped of the column, those left empty are gone -/
theorem stripColFromIndexes_raw (c : String) : ∀ (k : Nat) (t t' : Table), k ≤ t.idxs.length →
    (∀ i ∈ t.idxs, i.cols ≠ []) → t.stripColFromIndexes c k = .ok t' →
    t'.idxs = ((t.idxs.take k).map (Index.strip c)).filter (fun i => !i.cols.isEmpty) ++ t.idxs.drop k ∧ t'.fks = t.fks := by
  intro k
  induction k with
  | zero =>
    intro t t' _ _ hs
    unfold stripColFromIndexes at hs
    have := pure_ok hs; subst this
    simp
  | succ k ih =>
    intro t t' hk hne hs
    unfold stripColFromIndexes at hs
    obtain ⟨i, hi, hs⟩ := bind_ok hs
    have hi := getIdx_ok hi
    obtain ⟨t1, h1, hs⟩ := bind_ok hs
    have himem : i ∈ t.idxs := List.mem_of_getElem? hi
    have hine : i.cols ≠ [] := hne i himem
    have hine' : i.cols.isEmpty = false := by
      cases hc : i.cols with
      | nil => exact absurd hc hine
      | cons _ _ => rfl
    have htk := take_succ_of t.idxs k i hi
    by_cases he : (i.cols.filter (· != c)).isEmpty = true
    · -- the index is left without columns: forgotten
      rw [he, hine'] at h1
      simp only [Bool.not_false, Bool.and_self, if_true] at h1
      have hr := forgetIndex_raw t t1 k h1
      have hr1 : t1.idxs = t.idxs.eraseIdx k := congrArg Prod.fst hr
      have hr2 : t1.fks = t.fks := congrArg Prod.snd hr
      have hlen : k ≤ t1.idxs.length := by rw [hr1, List.length_eraseIdx]; split <;> omega
      have hne1 : ∀ x ∈ t1.idxs, x.cols ≠ [] := by
        intro x hx; rw [hr1] at hx; exact hne x ((List.eraseIdx_sublist _ _).subset hx)
      obtain ⟨a, b⟩ := ih t1 t' hlen hne1 hs
      refine ⟨?_, b.trans hr2⟩
      rw [a, hr1, take_eraseIdx_self, drop_eraseIdx_self, htk, List.map_append, List.filter_append]
      have : ([i].map (Index.strip c)).filter (fun i => !i.cols.isEmpty) = [] := by
        simp [Index.strip, he]
      rw [this, List.append_nil]
    · -- the index keeps some column: stripped in place
      have he' : (i.cols.filter (· != c)).isEmpty = false := by simpa using he
      rw [he'] at h1
      simp only [Bool.false_and, Bool.false_eq_true, if_false] at h1
      have := pure_ok h1; subst this
      have hklt : k < t.idxs.length := by omega
      have hlen : k ≤ (t.idxs.set k { i with cols := i.cols.filter (· != c) }).length := by rw [List.length_set]; omega
      have hne1 : ∀ x ∈ t.idxs.set k { i with cols := i.cols.filter (· != c) }, x.cols ≠ [] := by
        intro x hx
        rcases List.mem_or_eq_of_mem_set hx with h' | h'
        · exact hne x h'
        · subst h'
          intro hc
          simp only at hc
          rw [hc] at he'
          cases he'
      obtain ⟨a, b⟩ := ih { t with idxs := t.idxs.set k { i with cols := i.cols.filter (· != c) } } t' hlen hne1 hs
      refine ⟨?_, b⟩
      rw [a]
      show ((t.idxs.set k _).take k |>.map (Index.strip c)).filter _ ++ (t.idxs.set k _).drop k = _
      rw [take_set_self, drop_set_self _ _ _ hklt, htk, List.map_append, List.filter_append]
      have : ([i].map (Index.strip c)).filter (fun i => !i.cols.isEmpty) = [Index.strip c i] := by
        simp [Index.strip, he']
      rw [this, List.append_assoc]
      rfl

/-- the foreign-key clean-up loop of `removeColumn` -/
theorem dropFksOnCol_raw (c : String) : ∀ (k : Nat) (t t' : Table), k ≤ t.fks.length → t.dropFksOnCol c k = .ok t' →
    t'.fks = (t.fks.take k).filter (fun f => f.column != c) ++ t.fks.drop k ∧ t'.idxs = t.idxs := by
  intro k
  induction k with
  | zero =>
    intro t t' _ hs
    unfold dropFksOnCol at hs
    have := pure_ok hs; subst this
    simp
  | succ k ih =>
    intro t t' hk hs
    unfold dropFksOnCol at hs
    obtain ⟨f, hf, hs⟩ := bind_ok hs
    have hf := getIdx_ok hf
    obtain ⟨t1, h1, hs⟩ := bind_ok hs
    have htk := take_succ_of t.fks k f hf
    by_cases he : (f.column == c) = true
    · rw [if_pos he] at h1
      have hr := forgetForeignKey_raw t t1 k h1
      have hr1 : t1.idxs = t.idxs := congrArg Prod.fst hr
      have hr2 : t1.fks = t.fks.eraseIdx k := congrArg Prod.snd hr
      have hlen : k ≤ t1.fks.length := by rw [hr2, List.length_eraseIdx]; split <;> omega
      obtain ⟨a, b⟩ := ih t1 t' hlen hs
      refine ⟨?_, b.trans hr1⟩
      rw [a, hr2, take_eraseIdx_self, drop_eraseIdx_self, htk, List.filter_append]
      have : [f].filter (fun f => f.column != c) = [] := by
        have : f.column = c := by simpa using he
        simp [this]
      rw [this, List.append_nil]
    · rw [if_neg he] at h1
      have := pure_ok h1; subst this
      obtain ⟨a, b⟩ := ih t t' (by omega) hs
      refine ⟨?_, b⟩
      rw [a, htk, List.filter_append]
      have hklt : k < t.fks.length := by omega
      have hd : t.fks.drop k = f :: t.fks.drop (k + 1) := by
        rw [List.drop_eq_getElem_cons hklt]
        have := (List.getElem?_eq_some_iff.mp hf).2
        rw [this]
      have : [f].filter (fun f => f.column != c) = [f] := by
        have : (f.column != c) = true := by simpa using he
        simp [this]
      rw [this, hd, List.append_assoc]
      rfl

/-- `removeColumn` of a column this history created: both slices are filtered -/
theorem removeColumn_raw (t t' : Table) (name : String) (id : Nat) (col : Column) (hg : t.colIdx.get? name = some id)
    (hc : t.cols[id]? = some col) (ha : col.action = .add) (hne : ∀ i ∈ t.idxs, i.cols ≠ [])
    (hs : t.removeColumn name = .ok t') :
    t'.raw = ((t.idxs.map (Index.strip name)).filter (fun i => !i.cols.isEmpty), t.fks.filter (fun f => f.column != name)) := by
  unfold removeColumn at hs
  rw [hg] at hs
  simp only at hs
  obtain ⟨c', hc', hs⟩ := bind_ok hs
  have : c' = col := by have := getIdx_ok hc'; rw [hc] at this; exact (Option.some.inj this).symm
  subst this
  rw [ha] at hs
  simp only [beq_self_eq_true, if_true] at hs
  obtain ⟨t2, h2, hs⟩ := bind_ok hs
  obtain ⟨a2, b2⟩ := stripColFromIndexes_raw name _ _ t2 (Nat.le_refl _) (by exact hne) h2
  obtain ⟨a3, b3⟩ := dropFksOnCol_raw name _ t2 t' (Nat.le_refl _) hs
  simp only [List.take_length, List.drop_length, List.append_nil] at a2 a3
  unfold raw
  rw [a3, b3, a2, b2]

end Table
end Sqlize
