/-
  Proofs/SpecJustifiedDown.lean — C02, second half, for a table both sides have: every statement of the down migration
  acts on an element that differs between the two reference schemas (the mirror of `table_stmts_justified`).
-/
import SqlizeModel.Proofs.SpecJustified
import SqlizeModel.Proofs.SpecTableDown

namespace Sqlize
open Spec

/-- what the members of `emitDownSup` say about the two index lists -/
theorem emitDownSup_create (D : List String) (N O : List IdxSpec) (i : IdxSpec) (hN : (Abs.Idx.names N).Nodup)
    (h : Abs.Idx.IStmt.create i ∈ Abs.Idx.emitDownSup D N O) :
    i ∈ O ∧ N.find? (fun y => y.name == i.name) ≠ some i := by
  refine ⟨create_mem_emitDownSup D N O i h, ?_⟩
  unfold Abs.Idx.emitDownSup at h
  rcases List.mem_append.mp h with h1 | h1
  · obtain ⟨s, hs, hm⟩ := List.mem_flatMap.mp h1
    unfold Abs.Idx.emitDownSupOne at hm
    split at hm
    · split at hm
      · cases hm
      · simp at hm
    · rename_i o hsome
      split at hm
      · cases hm
      · rename_i hne
        have hio : i = o := by simpa using hm
        have hon : o.name = s.name := by simpa using List.find?_some hsome
        have hfs : N.find? (fun y => y.name == s.name) = some s := Abs.Idx.find?_of_mem (α := IdxSpec) hN hs
        rw [hio, hon, hfs]
        intro e
        exact hne (Option.some.inj e).symm
  · obtain ⟨o, ho, he⟩ := List.mem_map.mp h1
    have hoi : o = i := by injection he
    have hc := (List.mem_filter.mp ho).2
    have hnot : o.name ∉ Abs.Idx.names N := by simpa using hc
    rw [← hoi]
    intro e
    have := List.mem_of_find?_eq_some e
    exact hnot (List.mem_map_of_mem (f := fun y : IdxSpec => Abs.Idx.Named.name y) this)

theorem emitDownSup_drop (D : List String) (N O : List IdxSpec) (n : String)
    (h : Abs.Idx.IStmt.drop n ∈ Abs.Idx.emitDownSup D N O) :
    ∃ s ∈ N, s.name = n ∧ O.find? (fun y => y.name == n) ≠ some s := by
  unfold Abs.Idx.emitDownSup at h
  rcases List.mem_append.mp h with h1 | h1
  · obtain ⟨s, hs, hm⟩ := List.mem_flatMap.mp h1
    unfold Abs.Idx.emitDownSupOne at hm
    split at hm
    · rename_i hnone
      split at hm
      · cases hm
      · have hn : n = s.name := by simpa using hm
        refine ⟨s, hs, hn.symm, ?_⟩
        rw [hn, hnone]; simp
    · rename_i o hsome
      split at hm
      · cases hm
      · rename_i hne
        have hn : n = s.name := by
          rcases List.mem_cons.mp hm with e | e
          · injection e
          · simp at e
        refine ⟨s, hs, hn.symm, ?_⟩
        rw [hn, hsome]
        intro e
        exact hne (Option.some.inj e)
  · obtain ⟨o, _, ho⟩ := List.mem_map.mp h1
    cases ho

/-- **C02, second half, for a table both sides have**: every column and index statement the down migration prints for
    it acts on an element that differs between the two reference schemas -/
theorem table_stmts_justified_down (g : Globals) (hg : g.dialect = .mysql) (hio : g.ignoreOrder = false) (rc : Bool)
    (old new : List Stmt) (dbO dbN : DB) (ho : old.all Stmt.elemSafe = true) (hn : new.all Stmt.elemSafe = true)
    (hpo : old.all Stmt.plainOpts = true) (hpn : new.all Stmt.plainOpts = true)
    (heo : execAll rc [] old = some dbO) (hen : execAll rc [] new = some dbN)
    (d : Migration) (hd : loadAndDiff g old new = .ok d)
    (t : String) (tbO tbN : TableSpec) (hfo : dbO.find t = some tbO) (hfn : dbN.find t = some tbN)
    (hne : ∀ n ∈ tbN.colNames ++ tbO.colNames, n ≠ "") (hpk : tbO.pk = tbN.pk) :
    ∃ td ∈ d.tables, td.name = t ∧
      ∃ cs dc is, td.migrationColumnDown g = .ok (cs, dc) ∧ td.migrationIndexDown g dc = .ok is ∧
        ∀ s ∈ cs ++ is, justified dbN dbO s = true := by
  have hoc : old.all Stmt.colSafe = true :=
    List.all_eq_true.mpr (fun s hs => Stmt.colSafe_of_elemSafe s (List.all_eq_true.mp ho s hs))
  have hnc : new.all Stmt.colSafe = true :=
    List.all_eq_true.mpr (fun s hs => Stmt.colSafe_of_elemSafe s (List.all_eq_true.mp hn s hs))
  have hto : old.all Stmt.tablePk = true :=
    List.all_eq_true.mpr (fun s hs => ReaderMysql.tablePk_of_plainOpts s (List.all_eq_true.mp hpo s hs))
  have htn : new.all Stmt.tablePk = true :=
    List.all_eq_true.mpr (fun s hs => ReaderMysql.tablePk_of_plainOpts s (List.all_eq_true.mp hpn s hs))
  have hdInv : d.Inv := by
    have hd' := hd
    unfold loadAndDiff at hd'
    obtain ⟨o, hlo, hd'⟩ := bind_ok hd'
    obtain ⟨n, hln, hd'⟩ := bind_ok hd'
    obtain ⟨mo', hmo', hro'⟩ := ReaderMysql.run_rel rc old {} [] dbO Rel.empty hoc heo
    obtain ⟨mn, hmn', hrn⟩ := ReaderMysql.run_rel rc new {} [] dbN Rel.empty hnc hen
    have : mo' = o := by
      have : readScript g {} old = .ok mo' := by unfold readScript; rw [hg]; exact hmo'
      rw [this] at hlo; exact Except.ok.inj hlo
    subst this
    have : mn = n := by
      have : readScript g {} new = .ok mn := by unfold readScript; rw [hg]; exact hmn'
      rw [this] at hln; exact Except.ok.inj hln
    subst this
    exact Migration.diff_inv g.dialect mn mo' d hrn.inv hro'.inv hrn.np hd'
  obtain ⟨td, htd, hname, hact, _, habs, hsimple, _, hndtd, hNnd, hOnd⟩ :=
    diffed_record g hg rc old new dbO dbN hoc hnc heo hen d hd t tbO tbN hfo hfn hne
  have huniq : ∀ td' ∈ d.tables, td'.name = t → td' = td := fun td' h1 h2 =>
    eq_of_name_nodup (fun x : Table => x.name) hdInv.tbls.nodup h1 htd (h2.trans hname.symm)
  obtain ⟨td2, h21, h22, _, cs, dc, is, hcs, his, _, hproj, _, hcs', _, hshape, hNi, hOi⟩ :=
    indexes_with_drops_end_to_end_down' g hg hio rc old new dbO dbN ho hn heo hen d hd t tbO tbN hfo hfn hne
  have e2 := huniq td2 h21 h22
  subst e2
  obtain ⟨td3, h31, h32, _, hnopk⟩ := equal_pk_untouched_down g hg rc old new dbO dbN ho hn hto htn heo hen d hd t tbO tbN hfo hfn hpk
  have e3 := huniq td3 h31 h32
  subst e3
  refine ⟨td3, htd, hname, cs, dc, is, hcs, his, ?_⟩
  -- the tag of a record says where its column is
  have htag : ∀ c ∈ td3.cols, Abs.tagOf tbN.colNames tbO.colNames c.name = tagOfAction c.action ∧
      (c.name ∈ tbN.colNames ∨ c.name ∈ tbO.colNames) := by
    intro c hc
    have hm : (c.name, tagOfAction c.action) ∈ absCols td3.cols := List.mem_map_of_mem hc
    rw [habs] at hm
    obtain ⟨x, hx, he⟩ := List.mem_map.mp hm
    have hx1 : x = c.name := (Prod.mk.inj he).1
    have hx2 : Abs.tagOf tbN.colNames tbO.colNames x = tagOfAction c.action := (Prod.mk.inj he).2
    rw [hx1] at hx2 hx
    exact ⟨hx2, Abs.mem_merge hx⟩
  intro s hs
  rcases List.mem_append.mp hs with hsc | hsi
  · -- a column statement
    rw [hcs'] at hsc
    obtain ⟨c, hc, hca, after, hsc'⟩ := Table.walkCols_shape_down g t td3.cols [] s hsc
    obtain ⟨htg, hwhere⟩ := htag c hc
    unfold Abs.tagOf at htg
    rcases hsimple c hc with h | h | h | h
    · exact absurd h hca
    · -- the up migration added the column: DROP COLUMN on the way down
      simp only [Column.migrationDownAlter, Column.migrationUpAlter, h, hg] at hsc'
      have hs' : s = .dropColumn t c.name := by simpa using hsc'
      rw [h] at htg
      have hinN : c.name ∈ tbN.colNames := by
        by_cases h1 : c.name ∈ tbN.colNames
        · exact h1
        · rw [if_neg h1] at htg; cases htg
      rw [if_pos hinN] at htg
      have hnotO : c.name ∉ tbO.colNames := by
        intro h2; rw [if_pos h2] at htg; cases htg
      rw [hs']
      show ((dbN.col t c.name).isSome && (dbO.col t c.name).isNone) = true
      rw [col_none_of_not_mem dbO t tbO hfo _ hnotO]
      obtain ⟨cN, hcN, hcNn⟩ := List.mem_map.mp hinN
      rw [← hcNn, col_some_of_mem dbN t tbN hfn hNnd cN hcN]
      rfl
    · -- the up migration dropped the column: ADD COLUMN on the way down
      simp only [Column.migrationDownAlter, Column.migrationUpAlter, h, List.mem_singleton] at hsc'
      rw [h] at htg
      have hnotN : c.name ∉ tbN.colNames := by
        intro h1; rw [if_pos h1] at htg
        split at htg <;> cases htg
      have hinO : c.name ∈ tbO.colNames := by
        rcases hwhere with h1 | h1
        · exact absurd h1 hnotN
        · exact h1
      rw [hsc']
      show ((dbN.col t c.name).isNone && (dbO.col t c.name).isSome) = true
      rw [col_none_of_not_mem dbN t tbN hfn _ hnotN]
      obtain ⟨cO, hcO, hcOn⟩ := List.mem_map.mp hinO
      rw [← hcOn, col_some_of_mem dbO t tbO hfo hOnd cO hcO]
      rfl
    · -- MODIFY COLUMN back: the two sides differ on that column
      simp only [Column.migrationDownAlter, Column.migrationUpAlter, h, List.mem_singleton] at hsc'
      rw [h] at htg
      have hinN : c.name ∈ tbN.colNames := by
        by_cases h1 : c.name ∈ tbN.colNames
        · exact h1
        · rw [if_neg h1] at htg; cases htg
      rw [if_pos hinN] at htg
      have hinO : c.name ∈ tbO.colNames := by
        by_cases h2 : c.name ∈ tbO.colNames
        · exact h2
        · rw [if_neg h2] at htg; cases htg
      obtain ⟨cN, hcN, hcNn⟩ := List.mem_map.mp hinN
      obtain ⟨cO, hcO, hcOn⟩ := List.mem_map.mp hinO
      rw [hsc']
      show (!optColEquiv (dbN.col t c.name) (dbO.col t c.name) ||
        (dbN.pk t).contains c.name != (dbO.pk t).contains c.name) = true
      have h1 : dbO.col t c.name = some cO := by rw [← hcOn]; exact col_some_of_mem dbO t tbO hfo hOnd cO hcO
      have h2 : dbN.col t c.name = some cN := by rw [← hcNn]; exact col_some_of_mem dbN t tbN hfn hNnd cN hcN
      rw [h1, h2]
      have hneq : cN.equiv cO = false := by
        cases heq : cN.equiv cO with
        | false => rfl
        | true =>
          exfalso
          unfold ColSpec.equiv at heq
          simp only [Bool.and_eq_true, beq_iff_eq] at heq
          obtain ⟨td', htd', hn', _, hno⟩ := equal_column_untouched g hg rc old new dbO dbN ho hn hpo hpn heo hen d hd t tbO tbN hfo hfn
            cN cO hcN hcO heq.1.1.symm heq.1.2.symm (permEq_perm _ _ heq.2).symm
          rw [huniq td' htd' hn'] at hno
          exact hno false s hsc (by rw [hsc']; show some c.name = some cN.name; rw [hcNn])
      simp [optColEquiv, hneq]
  · -- an index statement
    obtain ⟨ss', hw', hnp⟩ := hnopk dc
    have his' : td3.migrationIndexDown g dc = .ok ss' := by
      unfold Table.migrationIndexDown; rw [hact, hname]; exact hw'
    rw [his] at his'
    have hiss : is = ss' := Except.ok.inj his'
    subst hiss
    obtain ⟨ht', hkind⟩ := hshape s hsi
    rcases hkind with ⟨cols, rfl⟩ | rfl | hsome
    · have := hnp _ hsi; simp [pkStmt] at this
    · have := hnp _ hsi; simp [pkStmt] at this
    · obtain ⟨a, ha⟩ := Option.isSome_iff_exists.mp hsome
      have hmem : a ∈ Abs.Idx.emitDownSup dc tbN.idxs tbO.idxs := by
        rw [← hproj]; exact List.mem_filterMap.mpr ⟨s, hsi, ha⟩
      cases s with
      | createIndex t2 name cols uniq u =>
        have ht2 : t2 = t := ht'
        subst ht2
        have hae : a = .create { name := name, cols := cols, unique := uniq, itype := Table.normIdxType u } := by
          simpa [idxStmt] using ha.symm
        subst hae
        obtain ⟨hiO, hneN⟩ := emitDownSup_create _ _ _ _ hNi hmem
        show (dbN.idx t2 name != dbO.idx t2 name) = true
        rw [idx_find dbN t2 tbN hfn]
        have hb := idx_some_of_mem dbO t2 tbO hfo hOi _ hiO
        simp only at hb
        rw [hb]
        simpa using hneN
      | dropIndex t2 name =>
        have ht2 : t2 = t := ht'
        subst ht2
        have hae : a = .drop name := by simpa [idxStmt] using ha.symm
        subst hae
        show (dbN.idx t2 name != dbO.idx t2 name) = true
        obtain ⟨s', hs', hsn, hdiff⟩ := emitDownSup_drop _ _ _ _ hmem
        have hb := idx_some_of_mem dbN t2 tbN hfn hNi s' hs'
        rw [hsn] at hb
        rw [hb, idx_find dbO t2 tbO hfo]
        have hdiff' : ¬ some s' = List.find? (fun x => x.name == name) tbO.idxs := fun e => hdiff e.symm
        simpa using hdiff'
      | _ => simp [idxStmt] at ha

end Sqlize
