/-
  Proofs/UpVocab.lean — the printed up migration stays inside the vocabulary the theorems about re-reading assume: every
  statement is `Stmt.elemSafe`, and what reaches the text (`Stmt.textual`: the statement without the bare foreign-key
  marks, which the renderer does not print) is `Stmt.plainOpts`.
-/
import SqlizeModel.Proofs.Textual
import SqlizeModel.Proofs.DiffPlain
import SqlizeModel.Proofs.SpecSchema
import SqlizeModel.Proofs.EndToEndFk

namespace Sqlize
open Spec

theorem upAlter_vocab (g : Globals) (c : Column) (tb after : String) (htb : tb ≠ "") (hact : SimpleAction c.action)
    (hp : ∀ o ∈ c.cur.opts, o.Plain) : ∀ s ∈ c.migrationUpAlter g tb after, s.vocab = true := by
  intro s hs
  have htb' : (tb != "") = true := by simpa using htb
  unfold Column.migrationUpAlter at hs
  rcases hact with h | h | h | h <;> rw [h] at hs <;> simp only at hs
  · cases hs
  · rw [List.mem_singleton.mp hs]
    unfold Stmt.vocab
    simp only [Stmt.elemSafe, Stmt.colSafe, Stmt.table, htb', Stmt.textual, Stmt.plainOpts, Bool.true_and]
    exact plain_textual _ hp
  · split at hs
    · cases hs
    · rw [List.mem_singleton.mp hs]
      unfold Stmt.vocab
      simp [Stmt.elemSafe, Stmt.colSafe, Stmt.table, htb', Stmt.textual, Stmt.plainOpts]
  · rw [List.mem_singleton.mp hs]
    unfold Stmt.vocab
    simp only [Stmt.elemSafe, Stmt.colSafe, Stmt.table, htb', Stmt.textual, Stmt.plainOpts, Bool.true_and]
    exact plain_textual _ hp

/-- no index of a reference schema read from an element-safe script is called like the primary key record -/
theorem ref_idx_names (rc : Bool) (ss : List Stmt) (db : DB) (hs : ss.all Stmt.elemSafe = true)
    (he : execAll rc [] ss = some db) (t : String) (tb : TableSpec) (hf : db.find t = some tb) :
    ∀ i ∈ tb.idxs, i.name ≠ pkName := by
  obtain ⟨m, _, hr, hx⟩ := ReaderMysql.run_elems rc ss {} [] db Rel.empty ElemsOK.empty hs he
  obtain ⟨id, tm, _, hm, hd, _, _, _, _⟩ := hr.lookup hf
  have hraw := Migration.raws_getElem m hm
  obtain ⟨hvi, _⟩ := hx.at_ hraw hd
  have hvi : idxSpecOf tm.idxs = tb.idxs := hvi
  intro i hi hn
  have hm' : i.name ∈ (idxSpecOf tm.idxs).map (·.name) := by rw [hvi]; exact List.mem_map_of_mem hi
  rw [idxSpecOf_names] at hm'
  have := (List.mem_filter.mp hm').2
  rw [hn] at this
  simp at this

/-- **the statements printed for a table both sides have are inside the vocabulary** -/
theorem table_up_vocab (g : Globals) (hg : g.dialect = .mysql) (hio : g.ignoreOrder = false) (rc : Bool)
    (old new : List Stmt) (dbO dbN : DB) (ho : old.all Stmt.elemSafe = true) (hn : new.all Stmt.elemSafe = true)
    (hpo : old.all Stmt.plainOpts = true) (hpn : new.all Stmt.plainOpts = true)
    (heo : execAll rc [] old = some dbO) (hen : execAll rc [] new = some dbN)
    (d : Migration) (hd : loadAndDiff g old new = .ok d)
    (t : String) (ht : t ≠ "") (tbO tbN : TableSpec) (hfo : dbO.find t = some tbO) (hfn : dbN.find t = some tbN)
    (hne : ∀ n ∈ tbN.colNames ++ tbO.colNames, n ≠ "") (hpk : tbO.pk = tbN.pk) :
    ∃ td ∈ d.tables, td.name = t ∧
      ∃ cs dc is, td.migrationColumnUp g = .ok (cs, dc) ∧ td.migrationIndexUp g dc = .ok is ∧
        ∀ s ∈ cs ++ is, s.vocab = true := by
  have hoc : old.all Stmt.colSafe = true :=
    List.all_eq_true.mpr (fun s hs => Stmt.colSafe_of_elemSafe s (List.all_eq_true.mp ho s hs))
  have hnc : new.all Stmt.colSafe = true :=
    List.all_eq_true.mpr (fun s hs => Stmt.colSafe_of_elemSafe s (List.all_eq_true.mp hn s hs))
  have hto : old.all Stmt.tablePk = true :=
    List.all_eq_true.mpr (fun s hs => ReaderMysql.tablePk_of_plainOpts s (List.all_eq_true.mp hpo s hs))
  have htn : new.all Stmt.tablePk = true :=
    List.all_eq_true.mpr (fun s hs => ReaderMysql.tablePk_of_plainOpts s (List.all_eq_true.mp hpn s hs))
  -- the diffed model: consistent, options plain-or-mark
  obtain ⟨mo, hmo', hro⟩ := ReaderMysql.run_rel rc old {} [] dbO Rel.empty hoc heo
  obtain ⟨mn, hmn', hrn⟩ := ReaderMysql.run_rel rc new {} [] dbN Rel.empty hnc hen
  have hplo : mo.Plain False := ReaderMysql.run_plain old {} mo Migration.plain_empty hpo (fun k => k.elim) hmo'
  have hpln : mn.Plain False := ReaderMysql.run_plain new {} mn Migration.plain_empty hpn (fun k => k.elim) hmn'
  have e1 : readScript g {} old = .ok mo := by unfold readScript; rw [hg]; exact hmo'
  have e2 : readScript g {} new = .ok mn := by unfold readScript; rw [hg]; exact hmn'
  have hd' : mn.diff g.dialect mo = .ok d := by
    have hd0 := hd
    unfold loadAndDiff at hd0
    simp only [e1, e2, bind, Except.bind] at hd0
    exact hd0
  have hdpl : d.Plain False := Migration.diff_plain g.dialect mn mo d hpln hplo hd'
  have hdInv : d.Inv := Migration.diff_inv g.dialect mn mo d hrn.inv hro.inv hrn.np hd'
  obtain ⟨td, htd, hname, hact, _, habs, hsimple, _, hndtd, hNnd, hOnd⟩ :=
    diffed_record g hg rc old new dbO dbN hoc hnc heo hen d hd t tbO tbN hfo hfn hne
  have huniq : ∀ td' ∈ d.tables, td'.name = t → td' = td := fun td' h1 h2 =>
    eq_of_name_nodup (fun x : Table => x.name) hdInv.tbls.nodup h1 htd (h2.trans hname.symm)
  obtain ⟨td2, h21, h22, _, cs, dc, is, hcs, his, _, hproj, _, hcs', _, hshape, _, _⟩ :=
    indexes_with_drops_end_to_end' g hg hio rc old new dbO dbN ho hn heo hen d hd t tbO tbN hfo hfn hne
  have e2' := huniq td2 h21 h22
  subst e2'
  obtain ⟨td3, h31, h32, _, hnopk⟩ := equal_pk_untouched g hg rc old new dbO dbN ho hn hto htn heo hen d hd t tbO tbN hfo hfn hpk
  have e3 := huniq td3 h31 h32
  subst e3
  refine ⟨td3, htd, hname, cs, dc, is, hcs, his, ?_⟩
  have ht' : (t != "") = true := by simpa using ht
  intro s hs
  rcases List.mem_append.mp hs with hsc | hsi
  · rw [hcs'] at hsc
    obtain ⟨c, hc, _, after, hsc'⟩ := Table.walkCols_shape g t td3.cols [] s hsc
    exact upAlter_vocab g c t after ht (hsimple c hc) ((hdpl td3 htd).opts c hc) s hsc'
  · obtain ⟨ss', hw', hnp⟩ := hnopk dc
    have his' : td3.migrationIndexUp g dc = .ok ss' := by
      unfold Table.migrationIndexUp; rw [hact, hname]; exact hw'
    rw [his] at his'
    have hiss : is = ss' := Except.ok.inj his'
    subst hiss
    obtain ⟨ht2, hkind⟩ := hshape s hsi
    rcases hkind with ⟨cols, rfl⟩ | rfl | hsome
    · have := hnp _ hsi; simp [pkStmt] at this
    · have := hnp _ hsi; simp [pkStmt] at this
    · obtain ⟨a, ha⟩ := Option.isSome_iff_exists.mp hsome
      have hmem : a ∈ Abs.Idx.emitSup dc tbN.idxs tbO.idxs := by
        rw [← hproj]; exact List.mem_filterMap.mpr ⟨s, hsi, ha⟩
      cases s with
      | createIndex t2 name cols uniq u =>
        have ht2' : t2 = t := ht2
        subst ht2'
        have hae : a = .create { name := name, cols := cols, unique := uniq, itype := Table.normIdxType u } := by
          simpa [idxStmt] using ha.symm
        subst hae
        have hiN := create_mem_emitSup _ _ _ _ hmem
        have hnn : name ≠ pkName := ref_idx_names rc new dbN hn hen t2 tbN hfn _ hiN
        have hnn' : (name != pkName) = true := by simpa using hnn
        simp [Stmt.vocab, Stmt.elemSafe, ht', hnn', Stmt.textual, Stmt.plainOpts]
      | dropIndex t2 name =>
        have ht2' : t2 = t := ht2
        subst ht2'
        simp [Stmt.vocab, Stmt.elemSafe, Stmt.colSafe, Stmt.table, ht', Stmt.textual, Stmt.plainOpts]
      | _ => simp [idxStmt] at ha

namespace Migration

/-- every statement `MigrationUp` prints belongs to the group of some table of the model -/
theorem migrate_mem (g : Globals) : ∀ (ts ts' : List Table) (out : List (List Stmt)), migrate g true ts = .ok (ts', out) →
    ∀ s ∈ out.flatten, ∃ t ∈ ts, ∃ t', t.arrange = .ok t' ∧ ∃ ss, TableOut g t' ss ∧ s ∈ ss := by
  intro ts
  induction ts with
  | nil =>
    intro ts' out h s hs
    unfold migrate at h
    have := pure_ok h
    rw [← (Prod.mk.inj this).2] at hs
    cases hs
  | cons t rest ih =>
    intro ts' out h s hs
    unfold migrate at h
    split at h
    · obtain ⟨r, hr, h⟩ := bind_ok h
      have := pure_ok h
      rw [← (Prod.mk.inj this).2] at hs
      obtain ⟨x, hx, hrest⟩ := ih r.1 r.2 hr s hs
      exact ⟨x, List.mem_cons_of_mem _ hx, hrest⟩
    · obtain ⟨t', ht', h⟩ := bind_ok h
      obtain ⟨cd, hcd, h⟩ := bind_ok h
      obtain ⟨is, his, h⟩ := bind_ok h
      obtain ⟨r, hr, h⟩ := bind_ok h
      have := pure_ok h
      simp only [if_true] at hcd his this
      have hout := (Prod.mk.inj this).2
      by_cases hem : (cd.1 ++ is ++ t'.migrationForeignKeyUp cd.2).isEmpty = true
      · rw [if_pos hem] at hout
        rw [← hout] at hs
        obtain ⟨x, hx, hrest⟩ := ih r.1 r.2 hr s hs
        exact ⟨x, List.mem_cons_of_mem _ hx, hrest⟩
      · rw [if_neg hem] at hout
        rw [← hout, List.flatten_cons] at hs
        rcases List.mem_append.mp hs with h1 | h1
        · exact ⟨t, by simp, t', ht', _, ⟨cd.1, cd.2, is, hcd, his, rfl⟩, h1⟩
        · obtain ⟨x, hx, hrest⟩ := ih r.1 r.2 hr s h1
          exact ⟨x, List.mem_cons_of_mem _ hx, hrest⟩

end Migration

/-- **the whole printed up migration is inside the vocabulary** (hypotheses of `schema_spec_up`, and no table without a
    name): every statement is element-safe and, as it reaches the text, carries plain options only -/
theorem schema_up_vocab (g : Globals) (hg : g.dialect = .mysql) (hio : g.ignoreOrder = false) (rc : Bool)
    (old new : List Stmt) (dbO dbN : DB) (ho : old.all Stmt.elemSafe = true) (hn : new.all Stmt.elemSafe = true)
    (hpo : old.all Stmt.plainOpts = true) (hpn : new.all Stmt.plainOpts = true)
    (heo : execAll rc [] old = some dbO) (hen : execAll rc [] new = some dbN)
    (hnm : ∀ tb ∈ dbO ++ dbN, tb.name ≠ "")
    (hboth : ∀ tbO ∈ dbO, ∀ tbN ∈ dbN, tbO.name = tbN.name →
      (∀ n ∈ tbN.colNames ++ tbO.colNames, n ≠ "") ∧ tbO.pk = tbN.pk)
    (d : Migration) (out : List (List Stmt)) (hd : loadAndDiff g old new = .ok d) (hU : d.migrationUp g = .ok (d, out)) :
    ∀ s ∈ out.flatten, s.vocab = true := by
  have hoc : old.all Stmt.colSafe = true :=
    List.all_eq_true.mpr (fun s hs => Stmt.colSafe_of_elemSafe s (List.all_eq_true.mp ho s hs))
  have hnc : new.all Stmt.colSafe = true :=
    List.all_eq_true.mpr (fun s hs => Stmt.colSafe_of_elemSafe s (List.all_eq_true.mp hn s hs))
  obtain ⟨mo, hmo', hro, heo'⟩ := ReaderMysql.run_elems rc old {} [] dbO Rel.empty ElemsOK.empty ho heo
  obtain ⟨mn, hmn', hrn, hen'⟩ := ReaderMysql.run_elems rc new {} [] dbN Rel.empty ElemsOK.empty hn hen
  have e1 : readScript g {} old = .ok mo := by unfold readScript; rw [hg]; exact hmo'
  have e2 : readScript g {} new = .ok mn := by unfold readScript; rw [hg]; exact hmn'
  have hd' : mn.diff g.dialect mo = .ok d := by
    have hd0 := hd
    unfold loadAndDiff at hd0
    simp only [e1, e2, bind, Except.bind] at hd0
    exact hd0
  have hd'' := hd'
  unfold Migration.diff at hd''
  obtain ⟨ts, h1, h2⟩ := bind_ok hd''
  obtain ⟨hnames, hinvs⟩ := Migration.diffTables1_inv g.dialect mo hro.inv mn.tables ts
    (fun t ht => ⟨hrn.inv.each t ht, hrn.np t ht⟩) h1
  have hm1 : Migration.Inv { mn with tables := ts } :=
    ⟨by show NInv (ts.map (·.name)) _; rw [hnames]; exact hrn.inv.tbls, hinvs⟩
  have happ := Migration.diffTables2_appends mo.tables { mn with tables := ts } d hm1 hro.inv.each hro.inv.tbls.nodup
    (fun ot hot => (hro.fresh ot hot).2) h2
  have hts : Migration.tblNames { mn with tables := ts } = mn.tblNames := hnames
  rw [hts] at happ
  have hNn : dbN.map (·.name) = mn.tblNames := hrn.names
  have hOn : dbO.map (·.name) = mo.tblNames := hro.names
  have hdinv := Migration.diff_inv g.dialect mn mo d hrn.inv hro.inv hrn.np hd'
  have huniq : ∀ a ∈ d.tables, ∀ b ∈ d.tables, a.name = b.name → a = b := fun a ha b hb e =>
    eq_of_name_nodup (fun x : Table => x.name) hdinv.tbls.nodup ha hb e
  intro s hs
  have hU' := hU
  unfold Migration.migrationUp at hU'
  obtain ⟨r, hr, hU'⟩ := bind_ok hU'
  have hrout : r.2 = out := (Prod.mk.inj (pure_ok hU')).2
  rw [← hrout] at hs
  obtain ⟨td, htd, td', harr, ss, ⟨cs, dc, is, hcs, his, hss⟩, hsm⟩ := Migration.migrate_mem g d.tables r.1 r.2 hr s hs
  have : td' = td := by
    have := arrange_id td (hdinv.each td htd).colInv
    rw [this] at harr; exact (Except.ok.inj harr).symm
  subst this
  cases hfN : dbN.find td'.name with
  | some tbN =>
    have hnN : tbN.name = td'.name := find_name dbN _ _ hfN
    have htne : td'.name ≠ "" := by rw [← hnN]; exact hnm tbN (List.mem_append_right _ (mem_of_find hfN))
    cases hfO : dbO.find td'.name with
    | some tbO =>
      have hnO : tbO.name = td'.name := find_name dbO _ _ hfO
      obtain ⟨hne, hpk⟩ := hboth tbO (mem_of_find hfO) tbN (mem_of_find hfN) (hnO.trans hnN.symm)
      obtain ⟨td2, h21, h22, cs2, dc2, is2, hcs2, his2, hv⟩ := table_up_vocab g hg hio rc old new dbO dbN ho hn hpo hpn heo hen d hd
        td'.name htne tbO tbN hfO hfN hne hpk
      have := huniq td2 h21 td' htd h22
      subst this
      rw [hcs] at hcs2
      have e1 := (Prod.mk.inj (Except.ok.inj hcs2)).1
      have e2 := (Prod.mk.inj (Except.ok.inj hcs2)).2
      subst e1 e2
      rw [his] at his2
      have e3 := Except.ok.inj his2
      subst e3
      -- the key statements: ADD CONSTRAINT / DROP FOREIGN KEY on this table
      obtain ⟨td3, h31, h32, _, hfkall, _, _⟩ := fks_with_drops_end_to_end g hg rc old new dbO dbN ho hn heo hen d hd td2.name tbO tbN hfO hfN
      have := huniq td3 h31 td2 htd h32
      subst this
      rw [hss] at hsm
      rcases List.mem_append.mp hsm with h | h
      · exact hv s h
      · obtain ⟨ht', hsome⟩ := (hfkall dc).2 s h
        have htne' : (td3.name != "") = true := by simpa using htne
        cases s with
        | addFk t2 name col rt rcol =>
          have ht2 : t2 = td3.name := ht'
          subst ht2
          simp [Stmt.vocab, Stmt.elemSafe, Stmt.colSafe, Stmt.table, htne', Stmt.textual, Stmt.plainOpts]
        | dropFk t2 name =>
          have ht2 : t2 = td3.name := ht'
          subst ht2
          simp [Stmt.vocab, Stmt.elemSafe, Stmt.colSafe, Stmt.table, htne', Stmt.textual, Stmt.plainOpts]
        | _ => simp [fkStmt] at hsome
    | none =>
      have hnew : dbO.has td'.name = false := by
        cases h : dbO.has td'.name with
        | false => rfl
        | true => exact absurd ((has_iff dbO td'.name).mp h) ((find_none_iff dbO td'.name).mp hfO)
      obtain ⟨td2, h21, h22, _, cs2, is2, fs2, hcs2, his2, hfs2, _, hv, _⟩ := created_table_spec g hg rc old new dbO dbN ho hn hpo hpn heo hen d hd
        td'.name tbN hfN hnew
      have := huniq td2 h21 td' htd h22
      subst this
      rw [hcs] at hcs2
      have e1 := (Prod.mk.inj (Except.ok.inj hcs2)).1
      have e2 := (Prod.mk.inj (Except.ok.inj hcs2)).2
      subst e1 e2
      rw [his] at his2
      have e3 := Except.ok.inj his2
      subst e3
      rw [hss, hfs2] at hsm
      exact hv htne s hsm
  | none =>
    have hnotN : td'.name ∉ mn.tblNames := by rw [← hNn]; exact (find_none_iff dbN td'.name).mp hfN
    have hrem : td'.action = .remove ∧ td'.name ∈ dbO.map (·.name) := by
      rw [happ] at htd
      rcases List.mem_append.mp htd with h | h
      · have hm : td'.name ∈ ts.map (·.name) := List.mem_map_of_mem h
        rw [hnames] at hm
        exact absurd hm hnotN
      · obtain ⟨ot, hot, rfl⟩ := List.mem_map.mp h
        refine ⟨rfl, ?_⟩
        rw [hOn]
        show ot.name ∈ mo.tblNames
        exact List.mem_map_of_mem (f := fun x : Table => x.name) (List.mem_filter.mp hot).1
    obtain ⟨tb, htb, hne⟩ := List.mem_map.mp hrem.2
    have htne : td'.name ≠ "" := by rw [← hne]; exact hnm tb (List.mem_append_left _ htb)
    have htne' : (td'.name != "") = true := by simpa using htne
    have hcs0 : td'.migrationColumnUp g = .ok ([.dropTable td'.name], []) := by
      unfold Table.migrationColumnUp; rw [hrem.1]; rfl
    rw [hcs] at hcs0
    have e1 := (Prod.mk.inj (Except.ok.inj hcs0)).1
    have e2 := (Prod.mk.inj (Except.ok.inj hcs0)).2
    subst e1 e2
    have his0 : td'.migrationIndexUp g [] = .ok [] := by
      unfold Table.migrationIndexUp; rw [hrem.1]; rfl
    rw [his] at his0
    have e3 := Except.ok.inj his0
    subst e3
    have hfs0 : td'.migrationForeignKeyUp [] = [] := by
      unfold Table.migrationForeignKeyUp; rw [hrem.1]
    rw [hss, hfs0] at hsm
    have : s = .dropTable td'.name := by simpa using hsm
    rw [this]
    simp [Stmt.vocab, Stmt.elemSafe, Stmt.colSafe, Stmt.table, htne', Stmt.textual, Stmt.plainOpts]

end Sqlize
