/-
  Proofs/Untouched.lean — "no element that is equal on both sides is dropped, re-created or modified", column clause, on
  the implementation model: a column that `Table.Diff`'s first loop compares equal keeps no action through the whole
  of `Table.Diff`, and `MigrationColumnUp` / `MigrationColumnDown` print no statement about a column without action.
-/
import SqlizeModel.Proofs.CrossLoad
import SqlizeModel.Proofs.EndToEnd

namespace Sqlize
open Spec

/-- the column an ALTER statement of the column walk is about -/
def stmtCol : Stmt → Option String
  | .addColumn _ c _ => some c.name
  | .dropColumn _ c => some c
  | .modifyColumn _ c => some c.name
  | _ => none

theorem upAlter_about (g : Globals) (c : Column) (tb after : String) :
    ∀ s ∈ c.migrationUpAlter g tb after, ∀ n, stmtCol s = some n → c.name = n := by
  intro s hs n hn
  unfold Column.migrationUpAlter at hs
  cases ha : c.action <;> rw [ha] at hs <;> simp only at hs
  · cases hs
  · have : s = _ := List.mem_singleton.mp hs
    subst this
    simpa [stmtCol, Column.colDef] using hn
  · split at hs
    · cases hs
    · have : s = _ := List.mem_singleton.mp hs
      subst this
      simpa [stmtCol] using hn
  · have : s = _ := List.mem_singleton.mp hs
    subst this
    simpa [stmtCol, Column.colDef] using hn
  · have : s = _ := List.mem_singleton.mp hs
    subst this
    simpa [stmtCol, Column.colDef] using hn
  · have : s = _ := List.mem_singleton.mp hs
    subst this
    simp [stmtCol] at hn

theorem downAlter_about (g : Globals) (c : Column) (tb after : String) :
    ∀ s ∈ c.migrationDownAlter g tb after, ∀ n, stmtCol s = some n → c.name = n := by
  intro s hs n hn
  unfold Column.migrationDownAlter at hs
  cases ha : c.action <;> rw [ha] at hs <;> simp only at hs
  · cases hs
  · exact upAlter_about g { c with action := .remove } tb after s hs n hn
  · exact upAlter_about g { c with action := .add } tb after s hs n hn
  · exact upAlter_about g { c with action := .revert } tb after s hs n hn
  · cases hs
  · unfold Column.migrationUpAlter at hs
    simp only at hs
    have : s = _ := List.mem_singleton.mp hs
    subst this
    simp [stmtCol] at hn

namespace Table

/-- every statement the column walk prints about a column comes from a column record of that name with an action -/
theorem walkCols_about (g : Globals) (tb : String) (up : Bool) : ∀ (cols before : List Column),
    ∀ s ∈ (walkCols g tb up before cols).1, ∀ n, stmtCol s = some n → ∃ c ∈ cols, c.name = n ∧ c.action ≠ .none := by
  intro cols
  induction cols with
  | nil => intro before s hs; simp [walkCols] at hs
  | cons c rest ih =>
    intro before s hs n hn
    have hrest := ih (before ++ [c])
    unfold walkCols at hs
    simp only at hs
    by_cases hnone : c.action = .none
    · simp only [hnone, beq_self_eq_true, if_true] at hs
      obtain ⟨x, hx, h1, h2⟩ := hrest s hs n hn
      exact ⟨x, by simp [hx], h1, h2⟩
    · have hne : (c.action == .none) = false := by simpa using hnone
      simp only [hne, Bool.false_eq_true, if_false] at hs
      rcases List.mem_append.mp hs with h1 | h1
      · refine ⟨c, by simp, ?_, hnone⟩
        cases up
        · exact downAlter_about g c tb _ s (by simpa using h1) n hn
        · exact upAlter_about g c tb _ s (by simpa using h1) n hn
      · obtain ⟨x, hx, h2, h3⟩ := hrest s h1 n hn
        exact ⟨x, by simp [hx], h2, h3⟩

/-- first column loop: a live column with a namesake that compares equal comes out with no action -/
theorem diffCols1_unchanged_mem (d : Dialect) (old : Table) (hold : old.Inv) : ∀ (cols cols' : List Column),
    diffCols1 d old cols = .ok cols' → ∀ c ∈ cols, c.action = .add →
    (∃ oc ∈ old.cols, oc.name = c.name ∧ oc.action = .add ∧ colSame d c oc) →
    ({ c with action := .none } : Column) ∈ cols' := by
  intro cols
  induction cols with
  | nil => intro cols' _ c hc; cases hc
  | cons x rest ih =>
    intro cols' hs c hc ha hex
    unfold diffCols1 at hs
    obtain ⟨x', hx', hs⟩ := bind_ok hs
    obtain ⟨rest', hr, hs⟩ := bind_ok hs
    have := pure_ok hs; subst this
    rcases List.mem_cons.mp hc with rfl | hc'
    · obtain ⟨oc, hoc, hn, hoa, hso, hst⟩ := hex
      obtain ⟨j, hg, hgi⟩ := NInv.getIdx_of_mem (f := fun y : Column => y.name) hold.cols hoc "Table.Diff"
      rw [hn] at hg
      simp only [ha, hg, hgi, hoa, hso, hst, bind, Except.bind, pure, Except.pure, beq_self_eq_true, if_true,
        bne_iff_ne, ne_eq, reduceCtorEq, not_false_eq_true, decide_true, Bool.false_eq_true, if_false] at hx'
      have := Except.ok.inj hx'
      rw [← this]
      exact List.mem_cons_self
    · exact List.mem_cons_of_mem _ (ih rest' hr c hc' ha hex)

theorem positionStep_keeps (t t' : Table) (cn : String) (id : Nat) (hs : t.positionStep cn id = .ok t') :
    ∀ c ∈ t.cols, c ∈ t'.cols := by
  unfold positionStep at hs
  cases hp : t.pendingPos with
  | none => rw [hp] at hs; have := pure_ok hs; subst this; exact fun c hc => hc
  | some p =>
    rw [hp] at hs
    cases p with
    | first =>
      obtain ⟨t1, h1, hs⟩ := bind_ok hs
      have := pure_ok hs; subst this
      exact fun c hc => (swapOrder_mem t t1 _ _ _ h1 c).mpr hc
    | after r =>
      simp only at hs
      cases hr : t.colIdx.get? r with
      | none => rw [hr] at hs; have := pure_ok hs; subst this; exact fun c hc => hc
      | some a =>
        rw [hr] at hs
        obtain ⟨t1, h1, hs⟩ := bind_ok hs
        have := pure_ok hs; subst this
        exact fun c hc => (swapOrder_mem t t1 _ _ _ h1 c).mpr hc

/-- second column loop: nothing the first loop produced is lost -/
theorem diffCols2_keeps (mysql : Bool) : ∀ (ocs : List Column) (t t' : Table) (before : List Column),
    diffCols2 mysql t before ocs = .ok t' → ∀ c ∈ t.cols, c ∈ t'.cols := by
  intro ocs
  induction ocs with
  | nil => intro t t' before hs; unfold diffCols2 at hs; have := pure_ok hs; subst this; exact fun c hc => hc
  | cons oc rest ih =>
    intro t t' before hs c hc
    unfold diffCols2 at hs
    obtain ⟨t1, h1, hs⟩ := bind_ok hs
    have h1c : c ∈ t1.cols := by
      split at h1
      · rename_i hcond
        simp only [Bool.and_eq_true, Option.isNone_iff_eq_none] at hcond
        obtain ⟨ta, hta, h1⟩ := bind_ok h1
        have hta' : c ∈ ta.cols := by
          unfold addColumn at hta
          rw [hcond.2] at hta
          simp only at hta
          refine positionStep_keeps _ ta _ _ hta c ?_
          show c ∈ t.cols ++ [_]
          exact List.mem_append_left _ hc
        exact (swapOrder_mem ta t1 _ _ _ h1 c).mpr hta'
      · have := pure_ok h1; subst this; exact hc
    exact ih t1 t' _ hs c h1c

end Table

/-- **C01 / C02: a column equal on both sides is left alone**, end to end (MySQL reader model, schemas without an inline
    PRIMARY KEY option; keys declared at table level are fine).  For two scripts the reference engine accepts and a table present on both sides: if a column has,
    on both sides, the same type and the same options up to order, then neither `MigrationColumnUp` nor
    `MigrationColumnDown` of the diffed record prints an ADD / DROP / MODIFY COLUMN statement about it. -/
theorem equal_column_untouched (g : Globals) (hg : g.dialect = .mysql) (rc : Bool)
    (old new : List Stmt) (dbO dbN : DB) (ho : old.all Stmt.elemSafe = true) (hn : new.all Stmt.elemSafe = true)
    (hpo : old.all Stmt.plainOpts = true) (hpn : new.all Stmt.plainOpts = true)
    (heo : execAll rc [] old = some dbO) (hen : execAll rc [] new = some dbN)
    (d : Migration) (hd : loadAndDiff g old new = .ok d)
    (t : String) (tbO tbN : TableSpec) (hfo : dbO.find t = some tbO) (hfn : dbN.find t = some tbN)
    (cN cO : ColSpec) (hcN : cN ∈ tbN.cols) (hcO : cO ∈ tbO.cols) (hname : cO.name = cN.name) (htyp : cO.typ = cN.typ)
    (hopts : cO.opts.Perm cN.opts) :
    ∃ td ∈ d.tables, td.name = t ∧ td.action = .none ∧
      ∀ up, ∀ s ∈ (Table.walkCols g t up [] td.cols).1, stmtCol s ≠ some cN.name := by
  have hoc : old.all Stmt.colSafe = true :=
    List.all_eq_true.mpr (fun s hs => Stmt.colSafe_of_elemSafe s (List.all_eq_true.mp ho s hs))
  have hnc : new.all Stmt.colSafe = true :=
    List.all_eq_true.mpr (fun s hs => Stmt.colSafe_of_elemSafe s (List.all_eq_true.mp hn s hs))
  unfold loadAndDiff at hd
  obtain ⟨o, hlo, hd⟩ := bind_ok hd
  obtain ⟨n, hln, hd⟩ := bind_ok hd
  obtain ⟨mo, hmo', hro⟩ := ReaderMysql.run_rel rc old {} [] dbO Rel.empty hoc heo
  obtain ⟨mn, hmn', hrn⟩ := ReaderMysql.run_rel rc new {} [] dbN Rel.empty hnc hen
  have hplo : mo.Plain False := ReaderMysql.run_plain old {} mo Migration.plain_empty hpo (fun k => k.elim) hmo'
  have hpln : mn.Plain False := ReaderMysql.run_plain new {} mn Migration.plain_empty hpn (fun k => k.elim) hmn'
  have : mo = o := by
    have : readScript g {} old = .ok mo := by unfold readScript; rw [hg]; exact hmo'
    rw [this] at hlo; exact Except.ok.inj hlo
  subst this
  have : mn = n := by
    have : readScript g {} new = .ok mn := by unfold readScript; rw [hg]; exact hmn'
    rw [this] at hln; exact Except.ok.inj hln
  subst this
  obtain ⟨io, to, hgo, hmo, hdo, hnmo, hcolo, _, htyO⟩ := hro.lookup hfo
  obtain ⟨i, tn, _, hmn, hdn, hnmn, hcoln, _, htyN⟩ := hrn.lookup hfn
  have hmemo := List.mem_of_getElem? hmo
  have hmemn := List.mem_of_getElem? hmn
  unfold Migration.diff at hd
  obtain ⟨ts, h1, hd⟩ := bind_ok hd
  obtain ⟨td, htd, hspec⟩ := Migration.diffTables1_getElem g.dialect mo mn.tables ts i tn h1 hmn
  rw [hnmn, hgo] at hspec
  obtain ⟨ot, hot, hspec⟩ := hspec
  have : ot = to := by rw [hmo] at hot; exact (Option.some.inj hot).symm
  subst this
  have hex : ot.exists_ = true := by
    unfold Table.exists_; rw [(hro.fresh ot hmemo).2]; rfl
  rw [if_pos hex] at hspec
  obtain ⟨t1, ht1, htdeq⟩ := hspec
  obtain ⟨extra, hext⟩ := Migration.diffTables2_prefix mo.tables _ d hd
  have htd_mem : td ∈ d.tables := by
    rw [hext]; exact List.mem_append_left _ (List.mem_of_getElem? htd)
  have hi_n := hrn.inv.each tn hmemn
  have hi_o := hro.inv.each ot hmemo
  have hdi := Table.diff_inv g.dialect tn ot t1 hi_n hi_o (hrn.np tn hmemn) ht1
  have hname' : td.name = t := by rw [htdeq]; show t1.name = t; rw [hdi.2]; exact hnmn
  -- the two model columns of that name, and what `Table.Diff` compares
  have hmN : cN.name ∈ tn.colNames := by rw [hcoln]; exact List.mem_map_of_mem hcN
  obtain ⟨c, hc, hcn⟩ := List.mem_map.mp hmN
  have hmO : cO.name ∈ ot.colNames := by rw [hcolo]; exact List.mem_map_of_mem hcO
  obtain ⟨oc, hoc', hocn⟩ := List.mem_map.mp hmO
  obtain ⟨cs, hcs, hcsn, hcst, hcso⟩ := htyN c hc
  obtain ⟨cs', hcs', hcsn', hcst', hcso'⟩ := htyO oc hoc'
  have hndN : tbN.colNames.Nodup := by rw [← hcoln]; exact hi_n.cols.nodup
  have hndO : tbO.colNames.Nodup := by rw [← hcolo]; exact hi_o.cols.nodup
  have e1 : cs = cN := eq_of_name_nodup (fun x : ColSpec => x.name) hndN hcs hcN (hcsn.trans hcn)
  have e2 : cs' = cO := eq_of_name_nodup (fun x : ColSpec => x.name) hndO hcs' hcO (hcsn'.trans hocn)
  rw [e1] at hcst hcso
  rw [e2] at hcst' hcso'
  have hsame : Table.colSame g.dialect c oc := by
    refine ⟨?_, ?_⟩
    · exact hasChangedOptions_of_perm _ _ ((hpln tn hmemn).opts c hc) ((hplo ot hmemo).opts oc hoc')
        (hcso.trans (hopts.symm.trans hcso'.symm))
    · rw [hcst, hcst', htyp, hg]
      simp [hasChangedType, pure, Except.pure]
  -- through `Table.Diff`
  obtain ⟨cols1, tc, hc1, hc2, hsig⟩ := Table.diff_decompose g.dialect tn ot t1 ht1
  have h0 := Table.diffCols1_unchanged_mem g.dialect ot hi_o tn.cols cols1 hc1 c hc ((hrn.fresh tn hmemn).1 c hc)
    ⟨oc, hoc', hocn.trans (hname.trans hcn.symm), (hro.fresh ot hmemo).1 oc hoc', hsame⟩
  have h0' : ({ c with action := .none } : Column) ∈ tc.cols :=
    Table.diffCols2_keeps _ ot.cols { tn with cols := cols1 } tc [] hc2 _ h0
  have hsigm : (cN.name, Action.none, c.cur.typ, Table.optKinds c.cur.opts) ∈ t1.sig := by
    rw [hsig]
    have := List.mem_map_of_mem (f := fun x : Column => (x.name, x.action, x.cur.typ, Table.optKinds x.cur.opts)) h0'
    rw [← hcn]
    exact this
  obtain ⟨c', hc', hce⟩ := List.mem_map.mp hsigm
  have hc'n : c'.name = cN.name := (Prod.mk.inj hce).1
  have hc'a : c'.action = .none := (Prod.mk.inj (Prod.mk.inj hce).2).1
  have hc'td : c' ∈ td.cols := by rw [htdeq]; exact hc'
  have hndtd : (td.cols.map (·.name)).Nodup := by rw [htdeq]; exact hdi.1.cols.nodup
  refine ⟨td, htd_mem, hname', by rw [htdeq], ?_⟩
  intro up s hs hcontra
  obtain ⟨x, hx, hxn, hxa⟩ := Table.walkCols_about g t up td.cols [] s hs cN.name hcontra
  have : x = c' := eq_of_name_nodup (fun y : Column => y.name) hndtd hx hc'td (hxn.trans hc'n.symm)
  subst this
  exact hxa hc'a

end Sqlize

namespace Sqlize
open Spec

/-- the primary-key statements -/
def pkStmt : Stmt → Bool
  | .addPrimaryKey _ _ => true
  | .dropPrimaryKey _ => true
  | _ => false

theorem upStmts_pk (i : Index) (tb : String) (s : Stmt) (hs : s ∈ i.upStmts tb) (hp : pkStmt s = true) :
    i.isPk = true ∧ i.action ≠ .none := by
  unfold Index.upStmts at hs
  cases ha : i.action <;> rw [ha] at hs <;> simp only at hs
  · cases hs
  · cases hpk : i.isPk
    · simp [hpk] at hs; subst hs; simp [pkStmt] at hp
    · exact ⟨rfl, by simp⟩
  · cases hpk : i.isPk
    · simp [hpk] at hs; subst hs; simp [pkStmt] at hp
    · exact ⟨rfl, by simp⟩
  · cases hpk : i.isPk
    · simp [hpk] at hs
      rcases hs with rfl | rfl <;> simp [pkStmt] at hp
    · exact ⟨rfl, by simp⟩
  · cases hs
  · cases hs

/-- **C01 / C02: an unchanged table-level primary key gets no statement**, end to end (MySQL reader model, no inline
    PRIMARY KEY option).  If the reference engine's primary key of a table is the same on both sides, the index walk of
    the diffed record — whatever dropped-column list it is called with — prints no ADD / DROP PRIMARY KEY. -/
theorem equal_pk_untouched (g : Globals) (hg : g.dialect = .mysql) (rc : Bool)
    (old new : List Stmt) (dbO dbN : DB) (ho : old.all Stmt.elemSafe = true) (hn : new.all Stmt.elemSafe = true)
    (hto : old.all Stmt.tablePk = true) (htn : new.all Stmt.tablePk = true)
    (heo : execAll rc [] old = some dbO) (hen : execAll rc [] new = some dbN)
    (d : Migration) (hd : loadAndDiff g old new = .ok d)
    (t : String) (tbO tbN : TableSpec) (hfo : dbO.find t = some tbO) (hfn : dbN.find t = some tbN)
    (hpk : tbO.pk = tbN.pk) :
    ∃ td ∈ d.tables, td.name = t ∧ td.action = .none ∧
      ∀ dc, ∃ ss, Table.walkIdx g t true dc td.idxs = .ok ss ∧ ∀ s ∈ ss, pkStmt s = false := by
  unfold loadAndDiff at hd
  obtain ⟨o, hlo, hd⟩ := bind_ok hd
  obtain ⟨n, hln, hd⟩ := bind_ok hd
  obtain ⟨mo, hmo', hro, heo', hko⟩ := ReaderMysql.run_pk rc old {} [] dbO Rel.empty ElemsOK.empty PkOK.empty ho hto heo
  obtain ⟨mn, hmn', hrn, hen', hkn⟩ := ReaderMysql.run_pk rc new {} [] dbN Rel.empty ElemsOK.empty PkOK.empty hn htn hen
  have : mo = o := by
    have : readScript g {} old = .ok mo := by unfold readScript; rw [hg]; exact hmo'
    rw [this] at hlo; exact Except.ok.inj hlo
  subst this
  have : mn = n := by
    have : readScript g {} new = .ok mn := by unfold readScript; rw [hg]; exact hmn'
    rw [this] at hln; exact Except.ok.inj hln
  subst this
  obtain ⟨io, to, hgo, hmo, hdo, hnmo, _, _, _⟩ := hro.lookup hfo
  obtain ⟨i, tn, _, hmn, hdn, hnmn, _, _, _⟩ := hrn.lookup hfn
  have hmemo := List.mem_of_getElem? hmo
  have hmemn := List.mem_of_getElem? hmn
  unfold Migration.diff at hd
  obtain ⟨ts, h1, hd⟩ := bind_ok hd
  obtain ⟨td, htd, hspec⟩ := Migration.diffTables1_getElem g.dialect mo mn.tables ts i tn h1 hmn
  rw [hnmn, hgo] at hspec
  obtain ⟨ot, hot, hspec⟩ := hspec
  have : ot = to := by rw [hmo] at hot; exact (Option.some.inj hot).symm
  subst this
  have hex : ot.exists_ = true := by
    unfold Table.exists_; rw [(hro.fresh ot hmemo).2]; rfl
  rw [if_pos hex] at hspec
  obtain ⟨t1, ht1, htdeq⟩ := hspec
  obtain ⟨extra, hext⟩ := Migration.diffTables2_prefix mo.tables _ d hd
  have htd_mem : td ∈ d.tables := by
    rw [hext]; exact List.mem_append_left _ (List.mem_of_getElem? htd)
  have hi_n := hrn.inv.each tn hmemn
  have hi_o := hro.inv.each ot hmemo
  have hdi := Table.diff_inv g.dialect tn ot t1 hi_n hi_o (hrn.np tn hmemn) ht1
  have hname' : td.name = t := by rw [htdeq]; show t1.name = t; rw [hdi.2]; exact hnmn
  have hrawn := Migration.raws_getElem mn hmn
  have hrawo := Migration.raws_getElem mo hmo
  obtain ⟨hlin, _⟩ := hen'.fresh _ (List.mem_of_getElem? hrawn)
  obtain ⟨hlio, _⟩ := heo'.fresh _ (List.mem_of_getElem? hrawo)
  have hkN : pkOf tn.idxs = tbN.pk := hkn.at_ hrawn hdn
  have hkO : pkOf ot.idxs = tbO.pk := hko.at_ hrawo hdo
  have hsN : PkShape tn.idxs := hkn.shape _ (List.mem_of_getElem? hrawn)
  have hsO : PkShape ot.idxs := hko.shape _ (List.mem_of_getElem? hrawo)
  have hfn' := (ReaderMysql.fresh_of_rel hrn hen').tables tn hmemn
  have hfo' := (ReaderMysql.fresh_of_rel hro heo').tables ot hmemo
  obtain ⟨hidx, _⟩ := Table.diff_elems g.dialect tn ot t1 hi_n hi_o (hrn.np tn hmemn) hfn'.1 hfo'.1 ht1
  have htdi : td.idxs = t1.idxs := by rw [htdeq]
  refine ⟨td, htd_mem, hname', by rw [htdeq], ?_⟩
  intro dc
  -- what the walk prints: every record's own statements, the suppressed drops apart
  have hcond : ∀ x ∈ tn.idxs.map (Table.tagIdx ot) ++
      (ot.idxs.filter (fun oi => !tn.idxNames.contains oi.name)).map (fun oi => { oi with action := .remove }),
      (x.typ = .none ∨ x.typ = .unique) ∧
        (x.action = .none ∨ x.action = .add ∨ x.action = .remove ∨ x.action = .modify) := by
    intro x hx
    rcases List.mem_append.mp hx with h | h
    · obtain ⟨i0, hi0, rfl⟩ := List.mem_map.mp h
      have hl := hlin i0 hi0
      unfold Table.tagIdx
      cases ot.idxs.find? (fun y => y.name == i0.name) with
      | none => exact ⟨hl.typ, Or.inr (Or.inl hl.add)⟩
      | some oi =>
        simp only
        split
        · exact ⟨hl.typ, Or.inl rfl⟩
        · exact ⟨hl.typ, Or.inr (Or.inr (Or.inr rfl))⟩
    · obtain ⟨oi, hoi, rfl⟩ := List.mem_map.mp h
      exact ⟨(hlio oi (List.mem_filter.mp hoi).1).typ, Or.inr (Or.inr (Or.inl rfl))⟩
  have hw := Table.walkIdx_pure_sup g t dc _ hcond
  refine ⟨_, by rw [htdi, hidx]; exact hw, ?_⟩
  intro s hs
  cases hps : pkStmt s with
  | false => rfl
  | true =>
    exfalso
    obtain ⟨x, hx, hsx⟩ := List.mem_flatMap.mp hs
    have hsx' : s ∈ x.upStmts t := by
      unfold Table.supStmts at hsx
      split at hsx
      · cases hsx
      · exact hsx
    obtain ⟨hxpk, hxa⟩ := upStmts_pk x t s hsx' hps
    rcases List.mem_append.mp hx with h | h
    · -- a record of the new side: the key record, which the old side has too
      obtain ⟨i0, hi0, rfl⟩ := List.mem_map.mp h
      have hl := hlin i0 hi0
      have hi0pk : i0.isPk = true := by
        unfold Table.tagIdx at hxpk
        cases hf : ot.idxs.find? (fun y => y.name == i0.name) with
        | none => rw [hf] at hxpk; exact hxpk
        | some oi => rw [hf] at hxpk; simp only at hxpk; split at hxpk <;> exact hxpk
      have hi0n : i0.name = pkName := by
        have := hl.pk; rw [hi0pk] at this; simpa using this.symm
      have hic : pkOf tn.idxs = i0.cols := pkOf_of_mem hi_n.idxs.nodup hi0 hi0n
      have hne : pkOf ot.idxs ≠ [] := by rw [hkO, hpk, ← hkN, hic]; exact hl.ne
      obtain ⟨oi, hoi, hon, hoc⟩ := pkOf_ne_nil hne
      have heq : oi = i0 := by rw [hsO oi hoi hon, hsN i0 hi0 hi0n, hoc, hkO, hpk, ← hkN, hic]
      have hfind : ot.idxs.find? (fun y => y.name == i0.name) = some oi := by
        have := find?_of_mem_nodup (fun y : Index => y.name) ot.idxs oi hi_o.idxs.nodup hoi
        rw [heq] at this ⊢
        exact this
      apply hxa
      unfold Table.tagIdx
      rw [hfind, heq]
      simp
    · obtain ⟨oi, hoi, rfl⟩ := List.mem_map.mp h
      obtain ⟨hoi', hnot⟩ := List.mem_filter.mp hoi
      have hl := hlio oi hoi'
      have hon : oi.name = pkName := by
        have := hl.pk
        have hxpk' : oi.isPk = true := hxpk
        rw [hxpk'] at this; simpa using this.symm
      have hoc : pkOf ot.idxs = oi.cols := pkOf_of_mem hi_o.idxs.nodup hoi' hon
      have hne : pkOf tn.idxs ≠ [] := by rw [hkN, ← hpk, ← hkO, hoc]; exact hl.ne
      obtain ⟨i0, hi0, hi0n, _⟩ := pkOf_ne_nil hne
      have : oi.name ∈ tn.idxNames := by rw [hon, ← hi0n]; exact List.mem_map_of_mem hi0
      simp [this] at hnot

end Sqlize
