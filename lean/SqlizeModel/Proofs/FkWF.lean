/-
  Proofs/FkWF.lean — an invariant of the reference engine over the column-safe vocabulary: every foreign key of a table
  is on a column of that table.
-/
import SqlizeModel.Proofs.ExecCreate
import SqlizeModel.Proofs.SpecCols
import SqlizeModel.Proofs.SpecWF

namespace Sqlize
open Spec

def Spec.TableSpec.FkWF (tb : TableSpec) : Prop := ∀ f ∈ tb.fks, f.col ∈ tb.colNames
def Spec.DB.FkWF (db : DB) : Prop := ∀ tb ∈ db, tb.FkWF

theorem fkwf_empty : DB.FkWF [] := by intro tb h; cases h

theorem fkwf_replace {db : DB} {tb' : TableSpec} (h : db.FkWF) (ht : tb'.FkWF) : DB.FkWF (db.replace tb') := by
  intro x hx
  rcases mem_replace hx with rfl | hx'
  · exact ht
  · exact h x hx'

theorem fkwf_of_cols_superset {tb tb' : TableSpec} (h : tb.FkWF) (hf : tb'.fks = tb.fks)
    (hc : ∀ c ∈ tb.colNames, c ∈ tb'.colNames) : tb'.FkWF := by
  intro f hf'
  rw [hf] at hf'
  exact hc _ (h f hf')

theorem exec_fkwf (rc : Bool) {db db' : DB} (s : Stmt) (hs : s.colSafe = true) (h : db.FkWF)
    (he : exec rc db s = some db') : db'.FkWF := by
  cases s with
  | createTable t i cols pk =>
    rw [exec_createTable] at he
    split at he
    · cases he
    · cases hm : mkTable t cols pk with
      | none => rw [hm] at he; cases he
      | some tb =>
        rw [hm] at he
        have := Option.some.inj he; subst this
        intro x hx
        rcases List.mem_append.mp hx with hx' | hx'
        · exact h x hx'
        · have hxe : x = tb := by simpa using hx'
          subst hxe
          have hfk : x.fks = [] := by
            unfold mkTable at hm
            simp only at hm
            repeat' split at hm
            all_goals first
              | (have := Option.some.inj hm; subst this; rfl)
              | cases hm
          intro f hf; rw [hfk] at hf; cases hf
  | dropTable t =>
    simp only [exec] at he
    split at he
    · cases he
    · split at he
      · cases he
      · have := Option.some.inj he; subst this
        intro x hx; exact h x (List.mem_filter.mp hx).1
  | addColumn t c pos =>
    cases hf : db.find t with
    | none => simp only [exec, hf] at he; cases he
    | some tb =>
      have htb := h tb (mem_of_find hf)
      simp only [exec, hf] at he
      split at he
      · cases he
      · split at he
        · cases he
        · cases pos with
          | none =>
            simp only at he
            have := Option.some.inj he; subst this
            refine fkwf_replace h (fkwf_of_cols_superset htb rfl ?_)
            intro x hx
            show x ∈ (tb.cols ++ [(colOf c).1]).map (fun y : ColSpec => y.name)
            rw [List.map_append]; exact List.mem_append_left _ hx
          | first =>
            simp only at he
            have := Option.some.inj he; subst this
            refine fkwf_replace h (fkwf_of_cols_superset htb rfl ?_)
            intro x hx
            show x ∈ ((colOf c).1 :: tb.cols).map (fun y : ColSpec => y.name)
            rw [List.map_cons]; exact List.mem_cons_of_mem _ hx
          | after p =>
            simp only at he
            cases hins : insertAfter p (colOf c).1 tb.cols with
            | none => rw [hins] at he; cases he
            | some cols =>
              rw [hins] at he
              have := Option.some.inj he; subst this
              refine fkwf_replace h (fkwf_of_cols_superset htb rfl ?_)
              intro x hx
              obtain ⟨y, hy, rfl⟩ := List.mem_map.mp hx
              exact List.mem_map_of_mem (insertAfter_superset p _ _ _ hins y hy)
  | dropColumn t c =>
    cases hf : db.find t with
    | none => simp only [exec, hf] at he; cases he
    | some tb =>
      have htb := h tb (mem_of_find hf)
      simp only [exec, hf] at he
      split at he
      · cases he
      · split at he
        · cases he
        · have := Option.some.inj he; subst this
          refine fkwf_replace h ?_
          intro f hf'
          have hf' : f ∈ tb.fks.filter (·.col != c) := hf'
          obtain ⟨hfm, hne⟩ := List.mem_filter.mp hf'
          have hcol := htb f hfm
          obtain ⟨y, hy, hyn⟩ := List.mem_map.mp hcol
          show f.col ∈ (tb.cols.filter (·.name != c)).map (·.name)
          refine List.mem_map.mpr ⟨y, List.mem_filter.mpr ⟨hy, ?_⟩, hyn⟩
          rw [hyn]; exact hne
  | modifyColumn t c =>
    cases hf : db.find t with
    | none => simp only [exec, hf] at he; cases he
    | some tb =>
      have htb := h tb (mem_of_find hf)
      simp only [exec, hf] at he
      split at he
      · cases he
      · split at he
        · cases he
        · have := Option.some.inj he; subst this
          refine fkwf_replace h (fkwf_of_cols_superset htb rfl ?_)
          intro x hx
          obtain ⟨y, hy, rfl⟩ := List.mem_map.mp hx
          show y.name ∈ (tb.cols.map (fun x => if x.name == c.name then (colOf c).1 else x)).map (fun y : ColSpec => y.name)
          rw [List.map_map]
          refine List.mem_map.mpr ⟨y, hy, ?_⟩
          show (if y.name == c.name then (colOf c).1 else y).name = y.name
          split
          · rename_i hyn
            have : y.name = c.name := by simpa using hyn
            rw [this]; exact colOf_name c
          · rfl
  | addPrimaryKey t cols =>
    cases hf : db.find t with
    | none => simp only [exec, hf] at he; cases he
    | some tb =>
      have htb := h tb (mem_of_find hf)
      simp only [exec, hf] at he
      split at he
      · cases he
      · have := Option.some.inj he; subst this
        exact fkwf_replace h (fkwf_of_cols_superset htb rfl (fun _ hx => hx))
  | dropPrimaryKey t =>
    cases hf : db.find t with
    | none => simp only [exec, hf] at he; cases he
    | some tb =>
      have htb := h tb (mem_of_find hf)
      simp only [exec, hf] at he
      split at he
      · cases he
      · have := Option.some.inj he; subst this
        exact fkwf_replace h (fkwf_of_cols_superset htb rfl (fun _ hx => hx))
  | addFk t name col rt rcol =>
    cases hf : db.find t with
    | none => simp only [exec, hf] at he; cases he
    | some tb =>
      have htb := h tb (mem_of_find hf)
      simp only [exec, hf] at he
      split at he
      · cases he
      · rename_i hc1
        split at he
        · cases he
        · have := Option.some.inj he; subst this
          refine fkwf_replace h ?_
          intro f hf'
          have hf' : f ∈ tb.fks ++ [({ name := name, col := col, refT := rt, refC := rcol } : FkSpec)] := hf'
          rcases List.mem_append.mp hf' with h1 | h1
          · exact htb f h1
          · have : f = ({ name := name, col := col, refT := rt, refC := rcol } : FkSpec) := by simpa using h1
            subst this
            simp only [Bool.or_eq_true, Bool.not_eq_true', not_or, Bool.not_eq_true] at hc1
            exact (ReaderMysql.hasCol_iff tb col).mp (by simpa using hc1.1)
  | dropFk t name =>
    cases hf : db.find t with
    | none => simp only [exec, hf] at he; cases he
    | some tb =>
      have htb := h tb (mem_of_find hf)
      simp only [exec, hf] at he
      split at he
      · cases he
      · have := Option.some.inj he; subst this
        refine fkwf_replace h ?_
        intro f hf'
        have hf' : f ∈ tb.fks.filter _ := hf'
        exact htb f (List.mem_filter.mp hf').1
  | createIndex t name cols uniq u =>
    cases hf : db.find t with
    | none => simp only [exec, hf] at he; cases he
    | some tb =>
      have htb := h tb (mem_of_find hf)
      simp only [exec, hf] at he
      split at he
      · cases he
      · have := Option.some.inj he; subst this
        exact fkwf_replace h (fkwf_of_cols_superset htb rfl (fun _ hx => hx))
  | dropIndex t name =>
    cases hf : db.find t with
    | none => simp only [exec, hf] at he; cases he
    | some tb =>
      have htb := h tb (mem_of_find hf)
      simp only [exec, hf] at he
      split at he
      · cases he
      · have := Option.some.inj he; subst this
        exact fkwf_replace h (fkwf_of_cols_superset htb rfl (fun _ hx => hx))
  | renameColumn t o n => simp [Stmt.colSafe] at hs
  | renameIndex t o n => simp [Stmt.colSafe] at hs
  | commentOn t c x => simp [Stmt.colSafe] at hs
  | alterType t c x => simp [Stmt.colSafe] at hs
  | setDefault t c x => simp [Stmt.colSafe] at hs
  | dropNotNull t c => simp [Stmt.colSafe] at hs

theorem execAll_fkwf (rc : Bool) (ss : List Stmt) : ∀ (db db' : DB), ss.all Stmt.colSafe = true → db.FkWF →
    execAll rc db ss = some db' → db'.FkWF := by
  induction ss with
  | nil => intro db db' _ h he; unfold execAll at he; exact (Option.some.inj he) ▸ h
  | cons s rest ih =>
    intro db db' hs h he
    simp only [List.all_cons, Bool.and_eq_true] at hs
    unfold execAll at he
    cases h1 : exec rc db s with
    | none => rw [h1] at he; cases he
    | some d1 =>
      rw [h1] at he
      exact ih d1 db' hs.2 (exec_fkwf rc s hs.1 h h1) he

end Sqlize
