import SqlizeModel.Impl.Snake

namespace Sqlize.Snake

theorem char_cases (c : Char) : isUpper c = true ∨ (isUpper c = false ∧ isLower c = true) ∨
    (isUpper c = false ∧ isLower c = false) := by
  cases h1 : isUpper c <;> cases h2 : isLower c <;> simp

theorem marksGo_upper {c : Char} (h : isUpper c = true) (f u : Bool) (r : List Char) :
    marksGo f u (c :: r) = (!f && (!u || nextIsLower r)) :: marksGo false true r := by
  simp [marksGo, h]
theorem marksGo_lower {c : Char} (hU : isUpper c = false) (h : isLower c = true) (f u : Bool) (r : List Char) :
    marksGo f u (c :: r) = false :: marksGo false false r := by
  simp [marksGo, h, hU]
theorem marksGo_other {c : Char} (hU : isUpper c = false) (h : isLower c = false) (f u : Bool) (r : List Char) :
    marksGo f u (c :: r) = false :: marksGo false u r := by
  simp [marksGo, h, hU]

theorem go_upper {c : Char} (h : isUpper c = true) (f u : Bool) (r : List Char) :
    go f u (c :: r) = (if (!f && (!u || nextIsLower r)) = true then ['_'] else []) ++ lowerC c :: go false true r := by
  simp only [go, h, if_true]; split <;> simp
theorem go_lower {c : Char} (hU : isUpper c = false) (h : isLower c = true) (f u : Bool) (r : List Char) :
    go f u (c :: r) = c :: go false false r := by
  simp [go, h, hU]
theorem go_other {c : Char} (hU : isUpper c = false) (h : isLower c = false) (f u : Bool) (r : List Char) :
    go f u (c :: r) = c :: go false u r := by
  simp [go, h, hU]

theorem marksGo_length (s : List Char) : ∀ f u, (marksGo f u s).length = s.length := by
  induction s with
  | nil => intro f u; rfl
  | cons c r ih =>
    intro f u
    rcases char_cases c with h | ⟨h1, h2⟩ | ⟨h1, h2⟩
    · simp [marksGo_upper h, ih]
    · simp [marksGo_lower h1 h2, ih]
    · simp [marksGo_other h1 h2, ih]

theorem go_eq_render (s : List Char) : ∀ f u, go f u s = (renderMarked s (marksGo f u s)).map (·.1) := by
  induction s with
  | nil => intro f u; rfl
  | cons c r ih =>
    intro f u
    rcases char_cases c with h | ⟨h1, h2⟩ | ⟨h1, h2⟩
    · rw [go_upper h, marksGo_upper h]
      by_cases hm : (!f && (!u || nextIsLower r)) = true
      · simp [hm, renderMarked, ih]
      · simp only [hm]; simp [renderMarked, ih]
    · rw [go_lower h1 h2, marksGo_lower h1 h2]
      simp [renderMarked, ih, lowerC_of_not_upper h1]
    · rw [go_other h1 h2, marksGo_other h1 h2]
      simp [renderMarked, ih, lowerC_of_not_upper h1]

theorem unmark (s : List Char) : ∀ ms : List Bool, ms.length = s.length →
    ((renderMarked s ms).filter (fun p => !p.2)).map (·.1) = lowerS s := by
  induction s with
  | nil => intro ms _; cases ms <;> rfl
  | cons c r ih =>
    intro ms h
    cases ms with
    | nil => simp at h
    | cons m ms =>
      simp only [List.length_cons, Nat.add_right_cancel_iff] at h
      cases m <;> simp [renderMarked, lowerS] <;> exact ih ms h

theorem marks_upper (s : List Char) : ∀ f u, ∀ p ∈ s.zip (marksGo f u s), p.2 = true → isUpper p.1 = true := by
  induction s with
  | nil => intro f u p hp; simp at hp
  | cons c r ih =>
    intro f u p hp hm
    rcases char_cases c with h | ⟨h1, h2⟩ | ⟨h1, h2⟩
    · rw [marksGo_upper h, List.zip_cons_cons, List.mem_cons] at hp
      rcases hp with rfl | hp
      · exact h
      · exact ih _ _ p hp hm
    · rw [marksGo_lower h1 h2, List.zip_cons_cons, List.mem_cons] at hp
      rcases hp with rfl | hp
      · simp at hm
      · exact ih _ _ p hp hm
    · rw [marksGo_other h1 h2, List.zip_cons_cons, List.mem_cons] at hp
      rcases hp with rfl | hp
      · simp at hm
      · exact ih _ _ p hp hm

theorem marks_head (s : List Char) (u : Bool) : (marksGo true u s).head? ≠ some true := by
  cases s with
  | nil => simp [marksGo]
  | cons c r =>
    rcases char_cases c with h | ⟨h1, h2⟩ | ⟨h1, h2⟩
    · simp [marksGo_upper h]
    · simp [marksGo_lower h1 h2]
    · simp [marksGo_other h1 h2]

/-- stepping over one character only changes the state -/
theorem marksGo_cons (f u : Bool) (x : Char) (r : List Char) :
    ∃ b u', marksGo f u (x :: r) = b :: marksGo false u' r := by
  rcases char_cases x with h | ⟨h1, h2⟩ | ⟨h1, h2⟩
  · exact ⟨_, _, marksGo_upper h f u r⟩
  · exact ⟨_, _, marksGo_lower h1 h2 f u r⟩
  · exact ⟨_, _, marksGo_other h1 h2 f u r⟩

theorem marks_after_lower (pre : List Char) (p c : Char) (post : List Char)
    (hp : isLower p = true) (hc : isUpper c = true) :
    ∀ f u, (marksGo f u (pre ++ p :: c :: post))[pre.length + 1]? = some true := by
  induction pre with
  | nil =>
    intro f u
    have hpU : isUpper p = false := isLower_not_isUpper hp
    simp [marksGo, hpU, hp, hc]
  | cons x pre ih =>
    intro f u
    obtain ⟨b, u', h⟩ := marksGo_cons f u x (pre ++ p :: c :: post)
    simp only [List.cons_append, h, List.length_cons]
    rw [List.getElem?_cons_succ]
    exact ih false u'

theorem marks_in_caps (pre : List Char) (p c : Char) (post : List Char)
    (hp : isUpper p = true) (hc : isUpper c = true) :
    ∀ f u, (marksGo f u (pre ++ p :: c :: post))[pre.length + 1]? = some (nextIsLower post) := by
  induction pre with
  | nil =>
    intro f u
    simp [marksGo, hp, hc]
  | cons x pre ih =>
    intro f u
    obtain ⟨b, u', h⟩ := marksGo_cons f u x (pre ++ p :: c :: post)
    simp only [List.cons_append, h, List.length_cons]
    rw [List.getElem?_cons_succ]
    exact ih false u'

theorem go_no_upper (s : List Char) : ∀ f u, ∀ c ∈ go f u s, isUpper c = false := by
  induction s with
  | nil => intro f u c hc; simp [go] at hc
  | cons x r ih =>
    intro f u c hc
    rcases char_cases x with h | ⟨h1, h2⟩ | ⟨h1, h2⟩
    · rw [go_upper h] at hc
      simp only [List.mem_append, List.mem_cons] at hc
      rcases hc with hc | rfl | hc
      · split at hc
        · simp at hc; subst hc; decide
        · simp at hc
      · exact isUpper_lowerC x
      · exact ih _ _ c hc
    · rw [go_lower h1 h2, List.mem_cons] at hc
      rcases hc with rfl | hc
      · exact h1
      · exact ih _ _ c hc
    · rw [go_other h1 h2, List.mem_cons] at hc
      rcases hc with rfl | hc
      · exact h1
      · exact ih _ _ c hc

theorem go_id_of_no_upper (s : List Char) (h : ∀ c ∈ s, isUpper c = false) : ∀ f u, go f u s = s := by
  induction s with
  | nil => intro f u; rfl
  | cons x r ih =>
    intro f u
    have hx : isUpper x = false := h x (by simp)
    have hr : ∀ c ∈ r, isUpper c = false := fun c hc => h c (by simp [hc])
    cases h2 : isLower x
    · rw [go_other hx h2, ih hr]
    · rw [go_lower hx h2, ih hr]

theorem strip_cons (a : Char) (l : List Char) : stripUnderscore (a :: l) =
    (if a = '_' then [] else [a]) ++ stripUnderscore l := by
  unfold stripUnderscore; by_cases h : a = '_' <;> simp [h]

theorem strip_go (s : List Char) : ∀ f u, stripUnderscore (go f u s) = stripUnderscore (lowerS s) := by
  induction s with
  | nil => intro f u; rfl
  | cons x r ih =>
    intro f u
    have hl : lowerS (x :: r) = lowerC x :: lowerS r := rfl
    rcases char_cases x with h | ⟨h1, h2⟩ | ⟨h1, h2⟩
    · rw [go_upper h, hl]
      split
      · simp only [List.cons_append, List.nil_append]
        rw [strip_cons '_', strip_cons (lowerC x), strip_cons (lowerC x), ih]; simp
      · simp only [List.nil_append]
        rw [strip_cons (lowerC x), strip_cons (lowerC x), ih]
    · rw [go_lower h1 h2, hl, lowerC_of_not_upper h1, strip_cons x, strip_cons x, ih]
    · rw [go_other h1 h2, hl, lowerC_of_not_upper h1, strip_cons x, strip_cons x, ih]

end Sqlize.Snake
