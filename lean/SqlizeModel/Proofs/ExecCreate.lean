/-
  Proofs/ExecCreate.lean — CREATE TABLE on the reference engine, factored: the table it adds does not depend on the schema
  it is added to (only the name clash does).
-/
import SqlizeModel.Spec.Exec

namespace Sqlize
open Spec

/-- the table a CREATE TABLE statement adds, if it is well-formed (everything `exec` checks but the name clash) -/
def mkTable (t : String) (cols : List ColDef) (pk : List String) : Option TableSpec :=
  let specs := cols.map colOf
  let names := specs.map (·.1.name)
  let inlinePk := (specs.filter (·.2)).map (·.1.name)
  if !allNodup names then none
  else if !pk.isEmpty && !inlinePk.isEmpty then none
  else if inlinePk.length > 1 then none
  else
    let pk' := if pk.isEmpty then inlinePk else pk
    if !(pk'.all names.contains) || !allNodup pk' then none
    else some { name := t, cols := specs.map (·.1), pk := pk' }

theorem exec_createTable (rc : Bool) (db : DB) (t : String) (i : Nat) (cols : List ColDef) (pk : List String) :
    exec rc db (.createTable t i cols pk) = if db.has t then none else (mkTable t cols pk).map (fun tb => db ++ [tb]) := by
  simp only [exec, mkTable]
  split
  · rfl
  · split
    · rfl
    · split
      · rfl
      · split
        · rfl
        · split <;> (split <;> rfl)

end Sqlize
