import SqlizeModel.Proofs.SpecCreate
import SqlizeModel.Proofs.SpecTableFk
import SqlizeModel.Proofs.SpecJustified
import SqlizeModel.Proofs.TablesClause
import SqlizeModel.Proofs.TableOrder

namespace Sqlize
open Spec

/-- a run of per-table statement groups: each group works on its own table, whatever the other groups did to theirs -/
theorem execAll_groups : ∀ (steps : List (String × List Stmt)) (db : DB) (Q : String → Option TableSpec → Prop),
    (steps.map (·.1)).Nodup → (db.map (·.name)).Nodup →
    (∀ p ∈ steps, ∀ db0 : DB, (db0.map (·.name)).Nodup → db0.find p.1 = db.find p.1 →
        ∃ db1, execAll false db0 p.2 = some db1 ∧ Q p.1 (db1.find p.1) ∧ (∀ u, u ≠ p.1 → db1.find u = db0.find u) ∧
          (db1.map (·.name)).Nodup) →
    ∃ db', execAll false db (steps.flatMap (·.2)) = some db' ∧ (∀ p ∈ steps, Q p.1 (db'.find p.1)) ∧
      (∀ u, u ∉ steps.map (·.1) → db'.find u = db.find u) ∧ (db'.map (·.name)).Nodup := by
  intro steps
  induction steps with
  | nil =>
    intro db Q _ hnd _
    exact ⟨db, rfl, fun p hp => (by cases hp), fun _ _ => rfl, hnd⟩
  | cons p rest ih =>
    intro db Q hndS hnd hstep
    rw [List.map_cons, List.nodup_cons] at hndS
    obtain ⟨db1, he1, hf1, hfr1, hnd1⟩ := hstep p (by simp) db hnd rfl
    obtain ⟨db', he', hfin', hfr', hnd'⟩ := ih db1 Q hndS.2 hnd1 (by
      intro q hq db0 hnd0 hfq
      have hne : q.1 ≠ p.1 := fun e => hndS.1 (e ▸ List.mem_map_of_mem hq)
      exact hstep q (List.mem_cons_of_mem _ hq) db0 hnd0 (by rw [hfq, hfr1 q.1 hne]))
    refine ⟨db', ?_, ?_, ?_, hnd'⟩
    · rw [List.flatMap_cons, execAll_append, he1]; exact he'
    · intro q hq
      rcases List.mem_cons.mp hq with rfl | hq'
      · rw [hfr' q.1 hndS.1]; exact hf1
      · exact hfin' q hq'
    · intro u hu
      have hu1 : u ≠ p.1 := fun e => hu (by simp [e])
      have hu2 : u ∉ rest.map (·.1) := fun h => hu (by simp [h])
      rw [hfr' u hu2, hfr1 u hu1]

/-- the same with the list of table names followed through the groups: group `p` turns the names `l` into `T p.1 l` -/
theorem execAll_groups_names (T : String → List String → List String) :
    ∀ (steps : List (String × List Stmt)) (db : DB) (Q : String → Option TableSpec → Prop),
    (steps.map (·.1)).Nodup → (db.map (·.name)).Nodup →
    (∀ p ∈ steps, ∀ db0 : DB, (db0.map (·.name)).Nodup → db0.find p.1 = db.find p.1 →
        ∃ db1, execAll false db0 p.2 = some db1 ∧ Q p.1 (db1.find p.1) ∧ (∀ u, u ≠ p.1 → db1.find u = db0.find u) ∧
          (db1.map (·.name)).Nodup ∧ db1.map (·.name) = T p.1 (db0.map (·.name))) →
    ∃ db', execAll false db (steps.flatMap (·.2)) = some db' ∧ (∀ p ∈ steps, Q p.1 (db'.find p.1)) ∧
      (∀ u, u ∉ steps.map (·.1) → db'.find u = db.find u) ∧ (db'.map (·.name)).Nodup ∧
      db'.map (·.name) = (steps.map (·.1)).foldl (fun l t => T t l) (db.map (·.name)) := by
  intro steps
  induction steps with
  | nil =>
    intro db Q _ hnd _
    exact ⟨db, rfl, fun p hp => (by cases hp), fun _ _ => rfl, hnd, rfl⟩
  | cons p rest ih =>
    intro db Q hndS hnd hstep
    rw [List.map_cons, List.nodup_cons] at hndS
    obtain ⟨db1, he1, hf1, hfr1, hnd1, hnm1⟩ := hstep p (by simp) db hnd rfl
    obtain ⟨db', he', hfin', hfr', hnd', hnm'⟩ := ih db1 Q hndS.2 hnd1 (by
      intro q hq db0 hnd0 hfq
      have hne : q.1 ≠ p.1 := fun e => hndS.1 (e ▸ List.mem_map_of_mem hq)
      exact hstep q (List.mem_cons_of_mem _ hq) db0 hnd0 (by rw [hfq, hfr1 q.1 hne]))
    refine ⟨db', ?_, ?_, ?_, hnd', ?_⟩
    · rw [List.flatMap_cons, execAll_append, he1]; exact he'
    · intro q hq
      rcases List.mem_cons.mp hq with rfl | hq'
      · rw [hfr' q.1 hndS.1]; exact hf1
      · exact hfin' q hq'
    · intro u hu
      have hu1 : u ≠ p.1 := fun e => hu (by simp [e])
      have hu2 : u ∉ rest.map (·.1) := fun h => hu (by simp [h])
      rw [hfr' u hu2, hfr1 u hu1]
    · rw [hnm', hnm1, List.map_cons, List.foldl_cons]

/-- finite choice along a list -/
theorem list_choice {α β : Type} (P : α → β → Prop) : ∀ (l : List α), (∀ x ∈ l, ∃ y, P x y) →
    ∃ ys : List (α × β), ys.map (·.1) = l ∧ ∀ p ∈ ys, P p.1 p.2 := by
  intro l
  induction l with
  | nil => intro _; exact ⟨[], rfl, fun p hp => (by cases hp)⟩
  | cons x r ih =>
    intro h
    obtain ⟨y, hy⟩ := h x (by simp)
    obtain ⟨ys, hys, hP⟩ := ih (fun z hz => h z (List.mem_cons_of_mem _ hz))
    refine ⟨(x, y) :: ys, by simp [hys], ?_⟩
    intro p hp
    rcases List.mem_cons.mp hp with rfl | hp'
    · exact hy
    · exact hP p hp'

theorem find_filter_ne (db : DB) (t u : String) (hu : u ≠ t) : DB.find (db.filter (·.name != t)) u = db.find u := by
  unfold DB.find
  induction db with
  | nil => rfl
  | cons x r ih =>
    rw [List.filter_cons]
    by_cases hx : (x.name != t) = true
    · rw [if_pos hx, List.find?_cons, List.find?_cons, ih]
    · rw [if_neg hx, List.find?_cons]
      have hxt : x.name = t := by simpa using hx
      have : (x.name == u) = false := by rw [hxt]; simpa using (Ne.symm hu)
      rw [this]; exact ih

theorem find_filter_self (db : DB) (t : String) : DB.find (db.filter (·.name != t)) t = none := by
  unfold DB.find
  apply List.find?_eq_none.mpr
  intro x hx hxt
  have := (List.mem_filter.mp hx).2
  have hxt : x.name = t := by simpa using hxt
  rw [hxt] at this
  simp at this

theorem find_some_of_mem (db : DB) (hnd : (db.map (·.name)).Nodup) (tb : TableSpec) (h : tb ∈ db) :
    db.find tb.name = some tb := by
  obtain ⟨i, hi⟩ := List.mem_iff_getElem?.mp h
  exact find_of_getElem db hnd i tb hi

theorem find_name (db : DB) (t : String) (tb : TableSpec) (h : db.find t = some tb) : tb.name = t := by
  obtain ⟨_, _, hn⟩ := find_getElem db t tb h
  exact hn

theorem find_none_iff (db : DB) (t : String) : db.find t = none ↔ t ∉ db.map (·.name) := by
  unfold DB.find
  rw [List.find?_eq_none]
  constructor
  · intro h hm
    obtain ⟨x, hx, hxt⟩ := List.mem_map.mp hm
    exact h x hx (by simpa using hxt)
  · intro h x hx hxt
    exact h (List.mem_map.mpr ⟨x, hx, by simpa using hxt⟩)

namespace Migration

/-- what `MigrationUp` prints for one table: the column statements, then the index statements, then the key statements -/
def TableOut (g : Globals) (t : Table) (ss : List Stmt) : Prop :=
  ∃ cs dc is, t.migrationColumnUp g = .ok (cs, dc) ∧ t.migrationIndexUp g dc = .ok is ∧
    ss = cs ++ is ++ t.migrationForeignKeyUp dc

/-- the printer on a list of arrange-stable tables, none of them the bookkeeping table: the groups, in order -/
theorem migrate_groups (g : Globals) : ∀ (steps : List (Table × List Stmt)),
    (∀ p ∈ steps, p.1.name ≠ defaultMigrationTable ∧ p.1.arrange = .ok p.1 ∧ TableOut g p.1 p.2) →
    ∃ out, migrate g true (steps.map (·.1)) = .ok (steps.map (·.1), out) ∧ out.flatten = steps.flatMap (·.2) := by
  intro steps
  induction steps with
  | nil => intro _; exact ⟨[], rfl, rfl⟩
  | cons p rest ih =>
    intro hall
    obtain ⟨hne, harr, cs, dc, is, hcs, his, hss⟩ := hall p (by simp)
    obtain ⟨out, ho, hfl⟩ := ih (fun x hx => hall x (List.mem_cons_of_mem _ hx))
    have hn : (p.1.name == defaultMigrationTable) = false := by simpa using hne
    rw [List.map_cons]
    unfold migrate
    simp only [hn, Bool.false_eq_true, if_false, harr, hcs, his, ho, bind, Except.bind, pure, Except.pure, if_true]
    by_cases hem : (cs ++ is ++ p.1.migrationForeignKeyUp dc).isEmpty = true
    · refine ⟨out, by rw [if_pos hem], ?_⟩
      rw [hfl, List.flatMap_cons, hss, List.isEmpty_iff.mp hem, List.nil_append]
    · refine ⟨(cs ++ is ++ p.1.migrationForeignKeyUp dc) :: out, by rw [if_neg hem], ?_⟩
      rw [List.flatten_cons, hfl, List.flatMap_cons, hss]

end Migration

/-- with no key on either side the key walk prints nothing, whatever the dropped columns -/
theorem walkFk_empty (tb : String) (dc : List String) (fks : List ForeignKey)
    (h : (Table.walkFk tb true [] fks).filterMap fkStmt = []) : Table.walkFk tb true dc fks = [] := by
  unfold Table.walkFk at h ⊢
  apply List.flatMap_eq_nil_iff.mpr
  intro f hf
  by_cases hcond : (f.action != .none && (f.action != (if true = true then Action.remove else Action.add) || !dc.contains f.column)) = true
  · -- the key is printed without dropped columns too, and what it prints is a key statement
    have hcond0 : (f.action != .none && (f.action != (if true = true then Action.remove else Action.add) || !([] : List String).contains f.column)) = true := by
      simp only [Bool.and_eq_true] at hcond ⊢
      exact ⟨hcond.1, by simp⟩
    have hall : ∀ s ∈ f.migrationUp tb, (fkStmt s).isSome = true := by
      intro s hs
      unfold ForeignKey.migrationUp at hs
      cases ha : f.action <;> rw [ha] at hs <;> simp at hs
      all_goals (rw [hs]; rfl)
    have hsub : (f.migrationUp tb).filterMap fkStmt = [] := by
      have := List.filterMap_eq_nil_iff.mp h
      apply List.filterMap_eq_nil_iff.mpr
      intro s hs
      apply this
      apply List.mem_flatMap.mpr
      refine ⟨f, hf, ?_⟩
      rw [if_pos hcond0]
      simpa using hs
    rw [if_pos hcond]
    simp only [if_true]
    cases hm : f.migrationUp tb with
    | nil => rfl
    | cons s r =>
      have h1 := hall s (by rw [hm]; simp)
      rw [hm] at hsub
      have := List.filterMap_eq_nil_iff.mp hsub s (by simp)
      rw [this] at h1; cases h1
  · rw [if_neg hcond]

/-- what a group has to leave of its table: the new side's table up to equivalence, or nothing -/
def GroupGoal (dbN : DB) (t : String) (r : Option TableSpec) : Prop :=
  match dbN.find t with
  | some tbN => ∃ tb', r = some tb' ∧ tb'.equiv tbN = true
  | none => r = none

/-- **C01 for a whole schema, on the reference engine** (MySQL reader model, default field order; scripts without inline PRIMARY KEY; no foreign key found on both sides differs (the recorded region
    `foreign-key-redefined`); tables on both sides keep the relative order of their
    common columns and their primary key, and none of them is in the recorded region
    `index-redefined-old-columns-dropped`; no table is called like the bookkeeping table).  `Diff` and `MigrationUp`
    return, and the printed up migration — CREATE TABLE with its indexes for the tables only the new side has, the
    column and index statements of the tables both sides have, DROP TABLE for the tables only the old side has —,
    executed statement by statement by `Spec.execAll` on the old schema (referential checks aside), is well-formed at
    every step and ends in a schema `DB.equiv` to the new one. -/
theorem schema_spec_up (g : Globals) (hg : g.dialect = .mysql) (hio : g.ignoreOrder = false) (rc : Bool)
    (old new : List Stmt) (dbO dbN : DB) (ho : old.all Stmt.elemSafe = true) (hn : new.all Stmt.elemSafe = true)
    (hpo : old.all Stmt.plainOpts = true) (hpn : new.all Stmt.plainOpts = true)
    (heo : execAll rc [] old = some dbO) (hen : execAll rc [] new = some dbN)
    (hdef : ∀ tb ∈ dbO ++ dbN, tb.name ≠ Migration.defaultMigrationTable)
    (hboth : ∀ tbO ∈ dbO, ∀ tbN ∈ dbN, tbO.name = tbN.name →
      Abs.OrderCompatible tbN.colNames tbO.colNames ∧ (∀ n ∈ tbN.colNames ++ tbO.colNames, n ≠ "") ∧ tbO.pk = tbN.pk ∧
      (∀ dc : List String, (∀ c ∈ dc, c ∉ tbN.colNames) →
        ∀ s ∈ tbN.idxs, ∀ o ∈ tbO.idxs, o.name = s.name → o ≠ s → ∃ c ∈ o.cols, c ∉ dc) ∧
      (∀ s ∈ tbN.fks, ∀ o ∈ tbO.fks, s.name = o.name → s = o)) :
    ∃ d out, loadAndDiff g old new = .ok d ∧ d.migrationUp g = .ok (d, out) ∧
      (∃ db', execAll false dbO out.flatten = some db' ∧ db'.equiv dbN = true ∧
        db'.map (·.name) = namesAfter (dbO.map (·.name)) (dbN.map (·.name))) ∧
      ∀ s ∈ out.flatten, justified dbO dbN s = true := by
  have hoc : old.all Stmt.colSafe = true :=
    List.all_eq_true.mpr (fun s hs => Stmt.colSafe_of_elemSafe s (List.all_eq_true.mp ho s hs))
  have hnc : new.all Stmt.colSafe = true :=
    List.all_eq_true.mpr (fun s hs => Stmt.colSafe_of_elemSafe s (List.all_eq_true.mp hn s hs))
  obtain ⟨d, outU, _, hd, hU, _⟩ := diff_print_total g hg rc old new dbO dbN ho hn heo hen
  obtain ⟨mo, hmo', hro, heo'⟩ := ReaderMysql.run_elems rc old {} [] dbO Rel.empty ElemsOK.empty ho heo
  obtain ⟨mn, hmn', hrn, hen'⟩ := ReaderMysql.run_elems rc new {} [] dbN Rel.empty ElemsOK.empty hn hen
  have e1 : readScript g {} old = .ok mo := by unfold readScript; rw [hg]; exact hmo'
  have e2 : readScript g {} new = .ok mn := by unfold readScript; rw [hg]; exact hmn'
  have hd' : mn.diff g.dialect mo = .ok d := by
    have hd0 := hd
    unfold loadAndDiff at hd0
    simp only [e1, e2, bind, Except.bind] at hd0
    exact hd0
  have hd'' := hd'
  unfold Migration.diff at hd''
  obtain ⟨ts, h1, h2⟩ := bind_ok hd''
  obtain ⟨hnames, hinvs⟩ := Migration.diffTables1_inv g.dialect mo hro.inv mn.tables ts
    (fun t ht => ⟨hrn.inv.each t ht, hrn.np t ht⟩) h1
  have hm1 : Migration.Inv { mn with tables := ts } :=
    ⟨by show NInv (ts.map (·.name)) _; rw [hnames]; exact hrn.inv.tbls, hinvs⟩
  have happ := Migration.diffTables2_appends mo.tables { mn with tables := ts } d hm1 hro.inv.each hro.inv.tbls.nodup
    (fun ot hot => (hro.fresh ot hot).2) h2
  have hts : Migration.tblNames { mn with tables := ts } = mn.tblNames := hnames
  rw [hts] at happ
  have hNn : dbN.map (·.name) = mn.tblNames := hrn.names
  have hOn : dbO.map (·.name) = mo.tblNames := hro.names
  have hdinv := Migration.diff_inv g.dialect mn mo d hrn.inv hro.inv hrn.np hd'
  have huniq : ∀ a ∈ d.tables, ∀ b ∈ d.tables, a.name = b.name → a = b := fun a ha b hb e =>
    eq_of_name_nodup (fun x : Table => x.name) hdinv.tbls.nodup ha hb e
  -- every record of the diffed migration has a group with the right effect on the reference engine
  have hgroup : ∀ td ∈ d.tables, ∃ ss, Migration.TableOut g td ss ∧ (∀ s ∈ ss, justified dbO dbN s = true) ∧
      ∀ db0 : DB, (db0.map (·.name)).Nodup → db0.find td.name = dbO.find td.name →
        ∃ db1, execAll false db0 ss = some db1 ∧ GroupGoal dbN td.name (db1.find td.name) ∧
          (∀ u, u ≠ td.name → db1.find u = db0.find u) ∧ (db1.map (·.name)).Nodup ∧
          db1.map (·.name) = stepNames (dbO.map (·.name)) (dbN.map (·.name)) td.name (db0.map (·.name)) := by
    intro td htd
    cases hfN : dbN.find td.name with
    | some tbN =>
      have hnN : tbN.name = td.name := find_name dbN _ _ hfN
      cases hfO : dbO.find td.name with
      | some tbO =>
        -- a table both sides have
        have hnO : tbO.name = td.name := find_name dbO _ _ hfO
        obtain ⟨hcmp, hne, hpk, hred, hnr⟩ := hboth tbO (mem_of_find hfO) tbN (mem_of_find hfN) (hnO.trans hnN.symm)
        obtain ⟨td', htd', hn', cs, dc, is, hcs, his, hrun⟩ := table_spec_up_fk_any g hg hio rc old new dbO dbN ho hn hpo hpn heo hen d hd
          td.name tbO tbN hfO hfN hcmp hne hpk hred hnr
        have := huniq td' htd' td htd hn'
        subst this
        have hjust : ∀ s ∈ cs ++ is ++ td'.migrationForeignKeyUp dc, justified dbO dbN s = true := by
          obtain ⟨td4, h41, h42, cs4, dc4, is4, hcs4, his4, hj4⟩ := table_stmts_justified g hg hio rc old new dbO dbN ho hn hpo hpn heo hen d hd
            td'.name tbO tbN hfO hfN hne hpk
          have := huniq td4 h41 td' htd h42
          subst this
          rw [hcs] at hcs4
          have e1 := (Prod.mk.inj (Except.ok.inj hcs4)).1
          have e2 := (Prod.mk.inj (Except.ok.inj hcs4)).2
          subst e1 e2
          rw [his] at his4
          have e3 := Except.ok.inj his4
          subst e3
          obtain ⟨td5, h51, h52, hj5⟩ := fk_stmts_justified g hg rc old new dbO dbN ho hn heo hen d hd td4.name tbO tbN hfO hfN
          have := huniq td5 h51 td4 htd h52
          subst this
          intro s hs
          rcases List.mem_append.mp hs with h | h
          · exact hj4 s h
          · exact hj5 dc s h
        refine ⟨cs ++ is ++ td'.migrationForeignKeyUp dc, ⟨cs, dc, is, hcs, his, rfl⟩, hjust, ?_⟩
        intro db0 hnd0 hf0
        obtain ⟨db1, tb1, he1, hf1, hc1, hi1, hp1, hn1, hk1, hfr1, hnm1⟩ := hrun db0 hnd0 hf0
        have hinN : (dbN.map (·.name)).contains td'.name = true := by
          have : td'.name ∈ dbN.map (·.name) := by rw [← hnN]; exact List.mem_map_of_mem (mem_of_find hfN)
          simpa using this
        have hinO : (dbO.map (·.name)).contains td'.name = true := by
          have : td'.name ∈ dbO.map (·.name) := by rw [← hnO]; exact List.mem_map_of_mem (mem_of_find hfO)
          simpa using this
        refine ⟨db1, he1, ?_, hfr1, by rw [hnm1]; exact hnd0, by unfold stepNames; rw [if_pos hinN, if_pos hinO]; exact hnm1⟩
        unfold GroupGoal
        rw [hfN]
        refine ⟨tb1, hf1, ?_⟩
        unfold TableSpec.equiv
        rw [hn1, hnN, hc1, hp1, perm_permEq _ _ hi1, perm_permEq _ _ hk1]
        simp
      | none =>
        -- a table only the new side has
        have hnew : dbO.has td.name = false := by
          cases h : dbO.has td.name with
          | false => rfl
          | true =>
            have := (has_iff dbO td.name).mp h
            exact absurd this ((find_none_iff dbO td.name).mp hfO)
        obtain ⟨td', htd', hn', _, cs, is, fs, hcs, his, hfs, hjc, _, hrun⟩ := created_table_spec g hg rc old new dbO dbN ho hn hpo hpn heo hen d hd
          td.name tbN hfN hnew
        have := huniq td' htd' td htd hn'
        subst this
        refine ⟨cs ++ is ++ td'.migrationForeignKeyUp [], ⟨cs, [], is, hcs, his, rfl⟩,
          (by rw [hfs]; exact hjc), ?_⟩
        intro db0 hnd0 hf0
        have hnot : db0.has td'.name = false := by
          cases h : db0.has td'.name with
          | false => rfl
          | true =>
            have := (has_iff db0 td'.name).mp h
            exact absurd this ((find_none_iff db0 td'.name).mp hf0)
        obtain ⟨db1, tb1, he1, hf1, heq1, hfr1, hnm1⟩ := hrun db0 hnd0 hnot
        have hinN : (dbN.map (·.name)).contains td'.name = true := by
          have : td'.name ∈ dbN.map (·.name) := by rw [← hnN]; exact List.mem_map_of_mem (mem_of_find hfN)
          simpa using this
        have hninO : (dbO.map (·.name)).contains td'.name = false := by
          have : td'.name ∉ dbO.map (·.name) := (find_none_iff dbO td'.name).mp hfO
          simpa using this
        refine ⟨db1, by rw [hfs]; exact he1, ?_, hfr1, ?_, ?_⟩
        · unfold GroupGoal
          rw [hfN]
          exact ⟨tb1, hf1, heq1⟩
        · rw [hnm1]
          apply List.nodup_append.mpr
          refine ⟨hnd0, List.nodup_cons.mpr ⟨by simp, List.nodup_nil⟩, ?_⟩
          intro a ha b hb hab
          have hb : b = td'.name := by simpa using hb
          exact (find_none_iff db0 td'.name).mp hf0 (by rw [← hb, ← hab]; exact ha)
        · unfold stepNames
          rw [if_pos hinN, hninO]
          exact hnm1
    | none =>
      -- a table only the old side has: DROP TABLE
      have hnotN : td.name ∉ mn.tblNames := by rw [← hNn]; exact (find_none_iff dbN td.name).mp hfN
      have hrem : td.action = .remove := by
        rw [happ] at htd
        rcases List.mem_append.mp htd with h | h
        · have hm : td.name ∈ ts.map (·.name) := List.mem_map_of_mem h
          rw [hnames] at hm
          exact absurd hm hnotN
        · obtain ⟨ot, _, rfl⟩ := List.mem_map.mp h
          rfl
      have hinO : td.name ∈ dbO.map (·.name) := by
        rw [happ] at htd
        rcases List.mem_append.mp htd with h | h
        · have hm : td.name ∈ ts.map (·.name) := List.mem_map_of_mem h
          rw [hnames] at hm
          exact absurd hm hnotN
        · obtain ⟨ot, hot, rfl⟩ := List.mem_map.mp h
          rw [hOn]
          show ot.name ∈ mo.tblNames
          exact List.mem_map_of_mem (f := fun x : Table => x.name) (List.mem_filter.mp hot).1
      refine ⟨[.dropTable td.name], ⟨[.dropTable td.name], [], [], ?_, ?_, ?_⟩, ?_, ?_⟩
      · unfold Table.migrationColumnUp; rw [hrem]; rfl
      · unfold Table.migrationIndexUp; rw [hrem]; rfl
      · unfold Table.migrationForeignKeyUp; rw [hrem]; rfl
      · intro s hs
        rw [List.mem_singleton.mp hs]
        show (dbO.has td.name && !dbN.has td.name) = true
        have h1 : dbO.has td.name = true := (has_iff dbO td.name).mpr hinO
        have h2 : dbN.has td.name = false := by
          cases h : dbN.has td.name with
          | false => rfl
          | true => exact absurd ((has_iff dbN td.name).mp h) ((find_none_iff dbN td.name).mp hfN)
        rw [h1, h2]; rfl
      · intro db0 hnd0 hf0
        have hhas : db0.has td.name = true := by
          cases hfo : dbO.find td.name with
          | none => exact absurd hinO ((find_none_iff dbO td.name).mp hfo)
          | some tbO =>
            rw [hfo] at hf0
            exact (has_iff db0 td.name).mpr (by rw [← find_name db0 _ _ hf0]; exact List.mem_map_of_mem (mem_of_find hf0))
        have hninN : (dbN.map (·.name)).contains td.name = false := by
          have : td.name ∉ dbN.map (·.name) := (find_none_iff dbN td.name).mp hfN
          simpa using this
        refine ⟨db0.filter (·.name != td.name), ?_, ?_, fun u hu => find_filter_ne db0 td.name u hu, ?_, ?_⟩
        · simp [execAll, exec, hhas]
        · unfold GroupGoal; rw [hfN]; exact find_filter_self db0 td.name
        · exact hnd0.sublist ((List.filter_sublist).map _)
        · unfold stepNames
          rw [hninN]
          simp only [Bool.false_eq_true, if_false]
          rw [List.filter_map]
          rfl
  -- names covered by the records
  have hcovN : ∀ u ∈ dbN.map (·.name), ∃ td ∈ d.tables, td.name = u := by
    intro u hu
    rw [hNn] at hu
    have hu : u ∈ ts.map (·.name) := by rw [hnames]; exact hu
    obtain ⟨td, htd, he⟩ := List.mem_map.mp hu
    exact ⟨td, by rw [happ]; exact List.mem_append_left _ htd, he⟩
  have hcovO : ∀ u ∈ dbO.map (·.name), ∃ td ∈ d.tables, td.name = u := by
    intro u hu
    by_cases hin : u ∈ dbN.map (·.name)
    · exact hcovN u hin
    · rw [hOn] at hu
      obtain ⟨ot, hot, he⟩ := List.mem_map.mp hu
      refine ⟨{ ot with action := .remove }, ?_, he⟩
      rw [happ]
      apply List.mem_append_right
      refine List.mem_map.mpr ⟨ot, List.mem_filter.mpr ⟨hot, ?_⟩, rfl⟩
      have : ot.name ∉ mn.tblNames := by rw [← hNn, he]; exact hin
      simpa using this
  have hnamesD : ∀ td ∈ d.tables, td.name ∈ dbN.map (·.name) ∨ td.name ∈ dbO.map (·.name) := by
    intro td htd
    rw [happ] at htd
    rcases List.mem_append.mp htd with h | h
    · left
      have hm : td.name ∈ ts.map (·.name) := List.mem_map_of_mem h
      rw [hnames] at hm
      rw [hNn]; exact hm
    · right
      obtain ⟨ot, hot, rfl⟩ := List.mem_map.mp h
      rw [hOn]
      show ot.name ∈ mo.tblNames
      exact List.mem_map_of_mem (f := fun x : Table => x.name) (List.mem_filter.mp hot).1
  -- the groups, in the order of the records
  obtain ⟨steps, hsteps, hP⟩ := list_choice (fun (td : Table) (ss : List Stmt) => Migration.TableOut g td ss ∧
      (∀ s ∈ ss, justified dbO dbN s = true) ∧
      ∀ db0 : DB, (db0.map (·.name)).Nodup → db0.find td.name = dbO.find td.name →
        ∃ db1, execAll false db0 ss = some db1 ∧ GroupGoal dbN td.name (db1.find td.name) ∧
          (∀ u, u ≠ td.name → db1.find u = db0.find u) ∧ (db1.map (·.name)).Nodup ∧
          db1.map (·.name) = stepNames (dbO.map (·.name)) (dbN.map (·.name)) td.name (db0.map (·.name))) d.tables hgroup
  have hmemS : ∀ p ∈ steps, p.1 ∈ d.tables := by
    intro p hp
    rw [← hsteps]; exact List.mem_map_of_mem hp
  obtain ⟨out2, hmig, hflat⟩ := Migration.migrate_groups g steps (by
    intro p hp
    have hpd := hmemS p hp
    refine ⟨?_, arrange_id p.1 (hdinv.each p.1 hpd).colInv, (hP p hp).1⟩
    rcases hnamesD p.1 hpd with h | h
    · obtain ⟨tb, htb, he⟩ := List.mem_map.mp h
      rw [← he]; exact hdef tb (List.mem_append_right _ htb)
    · obtain ⟨tb, htb, he⟩ := List.mem_map.mp h
      rw [← he]; exact hdef tb (List.mem_append_left _ htb))
  rw [hsteps] at hmig
  have hout : outU = out2 := by
    have hU' := hU
    unfold Migration.migrationUp at hU'
    simp only [hmig, bind, Except.bind, pure, Except.pure] at hU'
    exact ((Prod.mk.inj (Except.ok.inj hU')).2).symm
  -- run them on the old schema
  obtain ⟨db', hrun, hfin, hframe, hndD, hnmD⟩ := execAll_groups_names
      (stepNames (dbO.map (·.name)) (dbN.map (·.name))) (steps.map (fun p => (p.1.name, p.2))) dbO (GroupGoal dbN)
    (by
      rw [List.map_map]
      have : steps.map ((fun p : String × List Stmt => p.1) ∘ (fun p : Table × List Stmt => (p.1.name, p.2))) = (steps.map (·.1)).map (·.name) := by
        rw [List.map_map]; rfl
      rw [this, hsteps]; exact hdinv.tbls.nodup)
    hro.nodup
    (by
      intro q hq db0 hnd0 hf0
      obtain ⟨p, hp, rfl⟩ := List.mem_map.mp hq
      exact (hP p hp).2.2 db0 hnd0 hf0)
  have hflat2 : (steps.map (fun p => (p.1.name, p.2))).flatMap (·.2) = steps.flatMap (·.2) := by
    rw [List.flatMap_map]
  rw [hflat2, ← hflat, ← hout] at hrun
  refine ⟨d, outU, hd, hU, ⟨db', hrun, ?eq, ?nm⟩, ?just⟩
  case nm =>
    -- the order of the tables: the records are the new side's tables in its order, then the old-only ones
    rw [hnmD]
    have hrec : (steps.map (fun p => (p.1.name, p.2))).map (·.1) = d.tables.map (·.name) := by
      rw [List.map_map, ← hsteps, List.map_map]; rfl
    rw [hrec, happ, List.map_append, hnames, List.map_map]
    have hrem : (mo.tables.filter (fun ot => !mn.tblNames.contains ot.name)).map
        ((fun x : Table => x.name) ∘ (fun ot : Table => { ot with action := .remove })) =
        (dbO.map (·.name)).filter (fun n => !(dbN.map (·.name)).contains n) := by
      rw [hOn, hNn]
      show _ = (mo.tables.map (·.name)).filter _
      rw [List.filter_map]
      rfl
    rw [hrem]
    have hNn' : mn.tables.map (fun x => x.name) = dbN.map (·.name) := hNn.symm
    rw [hNn']
    exact foldl_stepNames _ _
  case just =>
    -- every printed statement is justified by a difference
    intro s hs
    rw [hout, hflat] at hs
    obtain ⟨p, hp, hsp⟩ := List.mem_flatMap.mp hs
    exact (hP p hp).2.1 s hsp
  -- the result is equivalent to the new schema
  have hfinD : ∀ td ∈ d.tables, GroupGoal dbN td.name (db'.find td.name) := by
    intro td htd
    rw [← hsteps] at htd
    obtain ⟨p, hp, rfl⟩ := List.mem_map.mp htd
    exact hfin (p.1.name, p.2) (List.mem_map_of_mem (f := fun p : Table × List Stmt => (p.1.name, p.2)) hp)
  have hframeD : ∀ u, (∀ td ∈ d.tables, td.name ≠ u) → db'.find u = dbO.find u := by
    intro u hu
    apply hframe
    intro hm
    obtain ⟨q, hq, hqu⟩ := List.mem_map.mp hm
    obtain ⟨p, hp, rfl⟩ := List.mem_map.mp hq
    exact hu p.1 (hmemS p hp) hqu
  have hndN : (dbN.map (·.name)).Nodup := hrn.nodup
  -- every table of the result is a table of the new schema, up to equivalence
  have hall : ∀ tb' ∈ db', ∃ u, dbN.find tb'.name = some u ∧ tb'.equiv u = true := by
    intro tb' htb'
    have hf' := find_some_of_mem db' hndD tb' htb'
    by_cases hcov : ∃ td ∈ d.tables, td.name = tb'.name
    · obtain ⟨td, htd, hn'⟩ := hcov
      have hg' := hfinD td htd
      rw [hn'] at hg'
      unfold GroupGoal at hg'
      cases hfN : dbN.find tb'.name with
      | some tbN =>
        rw [hfN] at hg'
        obtain ⟨tb'', h1, h2⟩ := hg'
        rw [hf'] at h1
        have := Option.some.inj h1
        exact ⟨tbN, rfl, by rw [this]; exact h2⟩
      | none =>
        rw [hfN] at hg'
        rw [hf'] at hg'; cases hg'
    · have hno : ∀ td ∈ d.tables, td.name ≠ tb'.name := fun td htd e => hcov ⟨td, htd, e⟩
      have := hframeD tb'.name hno
      rw [hf'] at this
      have hinO : tb'.name ∈ dbO.map (·.name) := by
        cases hfo : dbO.find tb'.name with
        | none => rw [hfo] at this; cases this
        | some x => rw [← find_name dbO _ _ hfo]; exact List.mem_map_of_mem (mem_of_find hfo)
      obtain ⟨td, htd, he⟩ := hcovO _ hinO
      exact absurd he (hno td htd)
  -- same names on both sides
  have hmemNames : ∀ u, u ∈ db'.map (·.name) ↔ u ∈ dbN.map (·.name) := by
    intro u
    constructor
    · intro hu
      obtain ⟨tb', htb', rfl⟩ := List.mem_map.mp hu
      obtain ⟨x, hx, _⟩ := hall tb' htb'
      rw [← find_name dbN _ _ hx]; exact List.mem_map_of_mem (mem_of_find hx)
    · intro hu
      obtain ⟨td, htd, he⟩ := hcovN u hu
      have hg' := hfinD td htd
      rw [he] at hg'
      unfold GroupGoal at hg'
      cases hfN : dbN.find u with
      | none => exact absurd hu ((find_none_iff dbN u).mp hfN)
      | some tbN =>
        rw [hfN] at hg'
        obtain ⟨tb'', h1, _⟩ := hg'
        rw [← find_name db' _ _ h1]; exact List.mem_map_of_mem (mem_of_find h1)
  have hlen : db'.length = dbN.length := by
    have hp : (db'.map (·.name)).Perm (dbN.map (·.name)) := (List.perm_ext_iff_of_nodup hndD hndN).mpr hmemNames
    simpa using hp.length_eq
  unfold DB.equiv DB.equivBy
  rw [Bool.and_eq_true]
  refine ⟨by simp [hlen], ?_⟩
  rw [List.all_eq_true]
  intro tb' htb'
  obtain ⟨u, hu, he⟩ := hall tb' htb'
  rw [hu]; exact he

end Sqlize
