/-
  Proofs/MergeRefine.lean — refinement of `Table.Diff`'s second loop (`diffCols2`: slices, position maps, `AddColumn`,
  `swapOrder`) to the abstract merge `Abs.Merge.mergeAux` on name lists: the column names of the table the loop leaves
  are exactly the merged list, for tables of any size.  Hypotheses: the new-side table is consistent and has no pending
  position (both hold on every reachable state: Proofs/ReaderInv, Proofs/ReaderPending), and the old side is a freshly
  loaded table (every column record has action `add`, names unique).
-/
import SqlizeModel.Proofs.ReaderPending
import SqlizeModel.Abs.Merge
import SqlizeModel.Abs.Columns
import SqlizeModel.Proofs.WalkRefine

namespace Sqlize
open Abs.Merge

/-- inserting after the element at position `i` of a duplicate-free list -/
theorem insertAfterT_at (l : List String) (hl : l.Nodup) (i : Nat) (p c : String) (hp : l[i]? = some p) :
    insertAfterT p c l = l.take (i + 1) ++ c :: l.drop (i + 1) := by
  obtain ⟨hi, he⟩ := List.getElem?_eq_some_iff.mp hp
  have hsplit : l = l.take i ++ p :: l.drop (i + 1) := by
    conv => lhs; rw [← List.take_append_drop i l]
    rw [List.drop_eq_getElem_cons hi, he]
  have hnot : p ∉ l.take i := by
    intro hm
    obtain ⟨j, hj⟩ := List.mem_iff_getElem?.mp hm
    rw [List.getElem?_take] at hj
    by_cases hji : j < i
    · rw [if_pos hji] at hj
      have := (List.getElem?_inj (by omega : j < l.length) hl).mp (hj.trans hp.symm)
      omega
    · rw [if_neg hji] at hj; cases hj
  have h1 := insertAfterT_split p c (l.take i) (l.drop (i + 1)) hnot
  rw [← hsplit] at h1
  rw [h1]
  have h2 : l.take (i + 1) = l.take i ++ [p] := by
    rw [List.take_add_one, hp]; rfl
  rw [h2, List.append_assoc]
  rfl

namespace Table

/-- the names after `swapOrder` moved the last column to `newID` -/
theorem swapOrder_names (t t' : Table) (cn : String) (oldID newID : Nat) (hlast : oldID + 1 = t.cols.length)
    (hle : newID ≤ oldID) (hs : t.swapOrder cn oldID newID = .ok t') :
    ∃ c, t.colNames[oldID]? = some c ∧
      t'.colNames = t.colNames.dropLast.take newID ++ c :: t.colNames.dropLast.drop newID := by
  unfold swapOrder at hs
  have hlt : oldID < t.cols.length := by omega
  have hcn : t.colNames[oldID]? = some (t.cols[oldID]).name := by
    simp [colNames, List.getElem?_eq_getElem hlt]
  have hsplitN : t.colNames = t.colNames.dropLast ++ [(t.cols[oldID]).name] :=
    last_split t.colNames oldID _ hcn (by simpa [colNames] using hlast)
  refine ⟨(t.cols[oldID]).name, hcn, ?_⟩
  by_cases he : (oldID == newID) = true
  · rw [if_pos he] at hs
    have := pure_ok hs; subst this
    have hid : oldID = newID := by simpa using he
    subst hid
    have hl : t.colNames.dropLast.length = oldID := by simp [colNames]; omega
    rw [List.take_of_length_le (by omega), List.drop_of_length_le (by omega)]
    exact hsplitN
  · rw [if_neg he] at hs
    rw [getIdx_of_lt _ _ _ hlt] at hs
    have hne : oldID ≠ newID := by simpa using he
    have hcond : (oldID + 1 == t.cols.length && decide (newID < oldID)) = true := by
      simp only [Bool.and_eq_true, beq_iff_eq, decide_eq_true_eq]; omega
    have hs' : (pure { t with cols := t.cols.dropLast.take newID ++ t.cols[oldID] :: t.cols.dropLast.drop newID,
                              colIdx := (t.colIdx.mapVals (fun v => if newID ≤ v && v < oldID then v + 1 else v)).set cn newID }
                  : M Table) = .ok t' := by
      have := hs
      simp only [bind, Except.bind, hcond, if_true] at this
      exact this
    have := pure_ok hs'; subst this
    show (t.cols.dropLast.take newID ++ t.cols[oldID] :: t.cols.dropLast.drop newID).map (·.name) = _
    simp only [List.map_append, List.map_cons, List.map_take, List.map_drop, colNames, List.map_dropLast]


/-- `mergePos` when the nearest live predecessor is the last of `before` -/
theorem mergePos_last (t : Table) (before : List Column) (p : Column) (hp : p.action = .add) :
    mergePos t (before ++ [p]) = ((t.colIdx.get? p.name).map (· + 1)).getD 0 := by
  unfold mergePos
  have : (p.action != Action.none) = true := by rw [hp]; decide
  simp only [List.reverse_append, List.reverse_cons, List.reverse_nil, List.nil_append, List.cons_append,
    List.find?_cons, this]
  cases t.colIdx.get? p.name <;> rfl

/-- the abstract merge at a non-empty tail of old names -/
def insertPrev (prev : Option String) (o : String) (M : List String) : List String :=
  match prev with
  | none => o :: M
  | some p => insertAfterT p o M

theorem mergeAux_cons (prev : Option String) (M : List String) (o : String) (os : List String) :
    mergeAux prev M (o :: os) = if o ∈ M then mergeAux (some o) M os else mergeAux (some o) (insertPrev prev o M) os := by
  rw [mergeAux.eq_def]
  simp only [insertPrev]
  split <;> rfl

theorem mergePos_nil (t : Table) : mergePos t [] = 0 := rfl

/-- **`diffCols2` builds the abstract merged list** -/
theorem diffCols2_names (mysql : Bool) (ocs : List Column) : ∀ (t t' : Table) (before : List Column), t.Inv →
    t.pendingPos = none → (∀ c ∈ before ++ ocs, c.action = .add) → ((before ++ ocs).map (·.name)).Nodup →
    (∀ c ∈ before, c.name ∈ t.colNames) → diffCols2 mysql t before ocs = .ok t' →
    t'.colNames = mergeAux ((before.getLast?).map (·.name)) t.colNames (ocs.map (·.name)) := by
  induction ocs with
  | nil =>
    intro t t' before _ _ _ _ _ hs
    unfold diffCols2 at hs
    have := pure_ok hs; subst this
    rfl
  | cons oc rest ih =>
    intro t t' before h hp hact hnd hin hs
    unfold diffCols2 at hs
    obtain ⟨t1, h1, hs⟩ := bind_ok hs
    have hoc : oc.action = .add := hact oc (by simp)
    have hact' : ∀ c ∈ (before ++ [oc]) ++ rest, c.action = .add := by
      intro c hc; exact hact c (by simpa [List.append_assoc] using hc)
    have hnd' : (((before ++ [oc]) ++ rest).map (·.name)).Nodup := by simpa [List.append_assoc] using hnd
    have hlast : ((before ++ [oc]).getLast?).map (·.name) = some oc.name := by simp
    rw [List.map_cons, mergeAux_cons]
    by_cases hmem : oc.name ∈ t.colNames
    · -- present on the new side: nothing to insert
      have hget : (t.colIdx.get? oc.name).isNone = false := by
        cases hg : t.colIdx.get? oc.name with
        | none => exact absurd hmem ((h.cols.get?_none_iff oc.name).mp hg)
        | some _ => rfl
      rw [hget, Bool.and_false] at h1
      have := pure_ok h1; subst this
      rw [if_pos hmem, ← hlast]
      refine ih t t' (before ++ [oc]) h hp hact' hnd' ?_ hs
      intro c hc
      rcases List.mem_append.mp hc with hc | hc
      · exact hin c hc
      · rw [List.mem_singleton.mp hc]; exact hmem
    · -- dropped column: appended, then moved right behind its old predecessor
      have hg : t.colIdx.get? oc.name = none := (h.cols.get?_none_iff oc.name).mpr hmem
      have hcond : (oc.action == .add && (t.colIdx.get? oc.name).isNone) = true := by
        rw [hoc, hg]; rfl
      rw [if_pos hcond] at h1
      have hfresh := addColumn_fresh t { oc with action := .remove } mysql hg hp
      rw [hfresh] at h1
      obtain ⟨ta, hta, h1⟩ := bind_ok h1
      have := Except.ok.inj hta; subst this
      have hia := (addColumn_inv t _ _ mysql h hfresh).1
      -- the appended table
      have hnamesA : (Table.colNames { t with cols := t.cols ++ [{ oc with action := .remove }],
                                              colIdx := t.colIdx.set oc.name t.cols.length }) = t.colNames ++ [oc.name] := by
        show List.map (fun x : Column => x.name) (t.cols ++ [{ oc with action := Action.remove }]) = _
        simp [colNames]
      have hlenA : (t.cols ++ [{ oc with action := Action.remove }]).length - 1 = t.cols.length := by simp
      have hlenN : t.colNames.length = t.cols.length := by simp [colNames]
      have hndA : (t.colNames ++ [oc.name]).Nodup := by rw [← hnamesA]; exact hia.cols.nodup
      have hdl : (t.colNames ++ [oc.name]).dropLast = t.colNames := by simp
      rw [if_neg hmem, ← hlast]
      -- where it is moved to, and what the abstract merge does
      have hmove : ∀ newID, newID ≤ t.cols.length →
          Table.swapOrder { t with cols := t.cols ++ [{ oc with action := .remove }],
                                   colIdx := t.colIdx.set oc.name t.cols.length } oc.name
            ((t.cols ++ [{ oc with action := Action.remove }]).length - 1) newID = .ok t1 →
          t1.colNames = t.colNames.take newID ++ oc.name :: t.colNames.drop newID := by
        intro newID hle hsw
        rw [hlenA] at hsw
        obtain ⟨c, hc, hn⟩ := swapOrder_names _ t1 oc.name t.cols.length newID (by simp) hle hsw
        rw [hnamesA] at hc hn
        rw [hdl] at hn
        have : c = oc.name := by
          rw [List.getElem?_append_right (by omega), hlenN] at hc
          simpa using hc.symm
        rw [hn, this]
      have hinv1 := (swapOrder_inv _ t1 oc.name _ _ hia (by rw [hnamesA, hlenA, ← hlenN]; simp) h1)
      have hp1 : t1.pendingPos = none := by rw [swapOrder_pending _ t1 _ _ _ h1]; exact hp
      have hin1 : ∀ nm, nm ∈ t.colNames ∨ nm = oc.name → ∀ newID, t1.colNames = t.colNames.take newID ++ oc.name :: t.colNames.drop newID →
          nm ∈ t1.colNames := by
        intro nm hnm newID hn
        rw [hn]
        rcases hnm with hnm | hnm
        · have : nm ∈ t.colNames.take newID ++ t.colNames.drop newID := by rw [List.take_append_drop]; exact hnm
          rcases List.mem_append.mp this with h' | h'
          · exact List.mem_append_left _ h'
          · exact List.mem_append_right _ (List.mem_cons_of_mem _ h')
        · rw [hnm]; exact List.mem_append_right _ List.mem_cons_self
      rcases List.eq_nil_or_concat before with hb | ⟨b0, p, hb⟩
      · -- no predecessor: first
        subst hb
        rw [mergePos_nil] at h1
        have hn1 := hmove 0 (by omega) h1
        simp only [List.take_zero, List.nil_append, List.drop_zero] at hn1
        have hgoal : insertPrev ((([] : List Column).getLast?).map (·.name)) oc.name t.colNames = oc.name :: t.colNames := rfl
        rw [hgoal, ← hn1]
        refine ih t1 t' ([] ++ [oc]) hinv1.1 hp1 hact' hnd' ?_ hs
        intro c hc
        rcases List.mem_append.mp hc with hc | hc
        · cases hc
        · rw [List.mem_singleton.mp hc, hn1]; exact List.mem_cons_self
      · -- predecessor `p`: right behind it
        subst hb
        rw [List.concat_eq_append] at *
        have hpa : p.action = .add := hact p (by simp)
        have hpin : p.name ∈ t.colNames := hin p (by simp)
        obtain ⟨i, hi⟩ := List.mem_iff_getElem?.mp hpin
        have hgp : t.colIdx.get? p.name = some i := (h.cols.get p.name i).mpr hi
        have hpne : p.name ≠ oc.name := by
          intro e; exact hmem (e ▸ hpin)
        have hgpA : (t.colIdx.set oc.name t.cols.length).get? p.name = some i := by
          rw [AMap.get?_set, if_neg hpne]; exact hgp
        rw [mergePos_last _ b0 p hpa] at h1
        have hgpA' : (Table.colIdx { t with cols := t.cols ++ [{ oc with action := .remove }],
                                            colIdx := t.colIdx.set oc.name t.cols.length }).get? p.name = some i := hgpA
        rw [hgpA'] at h1
        simp only [Option.map_some, Option.getD_some] at h1
        have hil : i < t.cols.length := by
          have := (List.getElem?_eq_some_iff.mp hi).1; omega
        have hn1 := hmove (i + 1) (by omega) h1
        have hins := insertAfterT_at t.colNames h.cols.nodup i p.name oc.name hi
        have hprev : ((b0 ++ [p]).getLast?).map (·.name) = some p.name := by simp
        rw [hprev]
        show t'.colNames = mergeAux _ (insertAfterT p.name oc.name t.colNames) _
        rw [hins, ← hn1]
        refine ih t1 t' ((b0 ++ [p]) ++ [oc]) hinv1.1 hp1 hact' hnd' ?_ hs
        intro c hc
        rcases List.mem_append.mp hc with hc | hc
        · exact hin1 c.name (Or.inl (hin c hc)) (i + 1) hn1
        · rw [List.mem_singleton.mp hc]; exact hin1 oc.name (Or.inr rfl) (i + 1) hn1


/-- first loop: names stay, every column of a freshly loaded new side ends `keep` (none / modify) when the old side has
    a live column of that name and stays `add` otherwise -/
theorem diffCols1_tags (d : Dialect) (old : Table) (hold : old.Inv) (holdAdd : ∀ c ∈ old.cols, c.action = .add)
    (cols : List Column) : ∀ cols', (∀ c ∈ cols, c.action = .add) → diffCols1 d old cols = .ok cols' →
    cols'.map (fun c => (c.name, tagOfAction c.action)) =
      cols.map (fun c => (c.name, if c.name ∈ old.colNames then Abs.Tag.keep else Abs.Tag.add)) ∧
    ∀ c ∈ cols', SimpleAction c.action := by
  induction cols with
  | nil =>
    intro cols' _ hs; unfold diffCols1 at hs; have := pure_ok hs; subst this
    exact ⟨rfl, by intro c hc; cases hc⟩
  | cons c rest ih =>
    intro cols' hadd hs
    unfold diffCols1 at hs
    obtain ⟨c', hc, hs⟩ := bind_ok hs
    obtain ⟨rest', hr, hs⟩ := bind_ok hs
    have := pure_ok hs; subst this
    have hca : c.action = .add := hadd c List.mem_cons_self
    obtain ⟨ih1, ih2⟩ := ih rest' (fun x hx => hadd x (List.mem_cons_of_mem _ hx)) hr
    have hone : c'.name = c.name ∧ tagOfAction c'.action = (if c.name ∈ old.colNames then Abs.Tag.keep else Abs.Tag.add) ∧
        SimpleAction c'.action := by
      have ha : (c.action == .add) = true := by rw [hca]; rfl
      rw [if_pos ha] at hc
      cases hg : old.colIdx.get? c.name with
      | none =>
        rw [hg] at hc; have := pure_ok hc; subst this
        have hnm : c.name ∉ old.colNames := (hold.cols.get?_none_iff c.name).mp hg
        rw [if_neg hnm, hca]
        exact ⟨rfl, rfl, Or.inr (Or.inl rfl)⟩
      | some j =>
        rw [hg] at hc
        simp only at hc
        have hnm : c.name ∈ old.colNames := by
          apply Classical.byContradiction
          intro hn
          rw [(hold.cols.get?_none_iff c.name).mpr hn] at hg
          cases hg
        obtain ⟨oc, hoc, hc⟩ := bind_ok hc
        have hoc := getIdx_ok hoc
        have hoca : oc.action = .add := holdAdd oc (List.mem_of_getElem? hoc)
        have h1 : (oc.action != .none) = true := by rw [hoca]; decide
        rw [if_pos h1] at hc
        rw [if_pos hnm]
        split at hc
        · have := pure_ok hc; subst this
          exact ⟨rfl, rfl, Or.inr (Or.inr (Or.inr rfl))⟩
        · obtain ⟨tc, _, hc⟩ := bind_ok hc
          cases tc with
          | true => have := pure_ok hc; subst this; exact ⟨rfl, rfl, Or.inr (Or.inr (Or.inr rfl))⟩
          | false => have := pure_ok hc; subst this; exact ⟨rfl, rfl, Or.inl rfl⟩
    refine ⟨?_, ?_⟩
    · simp only [List.map_cons, hone.1, hone.2.1, ih1]
    · intro x hx
      rcases List.mem_cons.mp hx with hx | hx
      · rw [hx]; exact hone.2.2
      · exact ih2 x hx

theorem swapOrder_perm (t t' : Table) (cn : String) (a b : Nat) (hs : t.swapOrder cn a b = .ok t') :
    t'.cols.Perm t.cols := by
  unfold swapOrder at hs
  split at hs
  · have := pure_ok hs; subst this; exact List.Perm.refl _
  · obtain ⟨col, hcol, hs⟩ := bind_ok hs
    have hcol := getIdx_ok hcol
    split at hs
    · rename_i hc
      simp only [Bool.and_eq_true, beq_iff_eq, decide_eq_true_eq] at hc
      have := pure_ok hs; subst this
      show (t.cols.dropLast.take b ++ col :: t.cols.dropLast.drop b).Perm t.cols
      have hsplit := last_split t.cols a col hcol hc.1
      refine List.perm_middle.trans ?_
      rw [List.take_append_drop]
      conv => rhs; rw [hsplit]
      exact List.perm_append_singleton col t.cols.dropLast |>.symm
    · cases hs

theorem swapOrder_mem (t t' : Table) (cn : String) (a b : Nat) (hs : t.swapOrder cn a b = .ok t') :
    ∀ c, c ∈ t'.cols ↔ c ∈ t.cols := fun _ => (swapOrder_perm t t' cn a b hs).mem_iff

/-- second loop: every column of the result is a column of the new side, or a dropped old column marked `remove` -/
theorem diffCols2_mem (mysql : Bool) (ocs : List Column) : ∀ (t t' : Table) (before : List Column), t.Inv →
    t.pendingPos = none → diffCols2 mysql t before ocs = .ok t' →
    ∀ c ∈ t'.cols, c ∈ t.cols ∨ (c.action = .remove ∧ ∃ oc ∈ ocs, c.name = oc.name ∧ oc.name ∉ t.colNames) := by
  induction ocs with
  | nil =>
    intro t t' before _ _ hs; unfold diffCols2 at hs; have := pure_ok hs; subst this
    intro c hc; exact Or.inl hc
  | cons oc rest ih =>
    intro t t' before h hp hs
    unfold diffCols2 at hs
    obtain ⟨t1, h1, hs⟩ := bind_ok hs
    by_cases hcond : (oc.action == .add && (t.colIdx.get? oc.name).isNone) = true
    · rw [if_pos hcond] at h1
      simp only [Bool.and_eq_true, Option.isNone_iff_eq_none] at hcond
      have hfresh := addColumn_fresh t { oc with action := .remove } mysql hcond.2 hp
      rw [hfresh] at h1
      obtain ⟨ta, hta, h1⟩ := bind_ok h1
      have := Except.ok.inj hta; subst this
      have hia := (addColumn_inv t _ _ mysql h hfresh).1
      have hlast : (Table.colNames { t with cols := t.cols ++ [{ oc with action := .remove }],
                                            colIdx := t.colIdx.set oc.name t.cols.length })[
          (t.cols ++ [{ oc with action := Action.remove }]).length - 1]? = some oc.name := by
        show (List.map (fun x : Column => x.name) (t.cols ++ [{ oc with action := Action.remove }]))[_]? = _
        simp
      obtain ⟨hi1, _⟩ := swapOrder_inv _ t1 oc.name _ _ hia hlast h1
      have hp1 : t1.pendingPos = none := by rw [swapOrder_pending _ t1 _ _ _ h1]; exact hp
      have hnot : oc.name ∉ t.colNames := (h.cols.get?_none_iff oc.name).mp hcond.2
      intro c hc
      rcases ih t1 t' _ hi1 hp1 hs c hc with h2 | ⟨ha, o2, ho2, hn, hnin⟩
      · have h3 := (swapOrder_mem _ t1 _ _ _ h1 c).mp h2
        have h3 : c ∈ t.cols ++ [{ oc with action := Action.remove }] := h3
        rcases List.mem_append.mp h3 with h4 | h4
        · exact Or.inl h4
        · right
          rw [List.mem_singleton.mp h4]
          exact ⟨rfl, oc, List.mem_cons_self, rfl, hnot⟩
      · right
        refine ⟨ha, o2, List.mem_cons_of_mem _ ho2, hn, ?_⟩
        intro hm
        apply hnin
        -- names only grow: `swapOrder` permutes the appended slice
        obtain ⟨cc, hcc, hcn⟩ := List.mem_map.mp hm
        have hcc1 : cc ∈ t1.cols := (swapOrder_mem _ t1 _ _ _ h1 cc).mpr (by
          show cc ∈ t.cols ++ [{ oc with action := Action.remove }]
          exact List.mem_append_left _ hcc)
        exact hcn ▸ List.mem_map_of_mem hcc1
    · rw [if_neg hcond] at h1
      have := pure_ok h1; subst this
      intro c hc
      rcases ih t t' _ h hp hs c hc with h2 | ⟨ha, o2, ho2, hn, hnin⟩
      · exact Or.inl h2
      · exact Or.inr ⟨ha, o2, List.mem_cons_of_mem _ ho2, hn, hnin⟩


/-- **the column part of `Table.Diff`, abstractly**: after the two column loops the slice is the merged list of
    `Abs.Merge.merge`, tagged as `Abs.tagged` tags it -/
theorem diff_cols_tagged (d : Dialect) (t old t1 : Table) (cols1 : List Column) (h : t.Inv) (hold : old.Inv)
    (hp : t.pendingPos = none) (hadd : ∀ c ∈ t.cols, c.action = .add) (holdAdd : ∀ c ∈ old.cols, c.action = .add)
    (h1 : diffCols1 d old t.cols = .ok cols1)
    (h2 : diffCols2 (d == .mysql) { t with cols := cols1 } [] old.cols = .ok t1) :
    absCols t1.cols = Abs.tagged t.colNames old.colNames ∧ (∀ c ∈ t1.cols, SimpleAction c.action) := by
  obtain ⟨htags, hsimple⟩ := diffCols1_tags d old hold holdAdd t.cols cols1 hadd h1
  have hn1 : cols1.map (·.name) = t.colNames := diffCols1_names d old t.cols cols1 h1
  have hi0 : Table.Inv { t with cols := cols1 } :=
    ⟨by show NInv (cols1.map (·.name)) _; rw [hn1]; exact h.cols, h.idxs, h.fks⟩
  have hN0 : (Table.colNames { t with cols := cols1 }) = t.colNames := hn1
  have hnames := diffCols2_names (d == .mysql) old.cols { t with cols := cols1 } t1 [] hi0 hp
    (by simpa using holdAdd) (by simpa using hold.cols.nodup) (by intro c hc; cases hc) h2
  rw [hN0] at hnames
  have hmerge : t1.colNames = Abs.Merge.merge t.colNames old.colNames := hnames
  have hmem := diffCols2_mem (d == .mysql) old.cols { t with cols := cols1 } t1 [] hi0 hp h2
  -- the tag of every column of the result
  have htag : ∀ c ∈ t1.cols, tagOfAction c.action = Abs.tagOf t.colNames old.colNames c.name ∧ SimpleAction c.action := by
    intro c hc
    rcases hmem c hc with hc1 | ⟨ha, oc, hoc, hcn, hnin⟩
    · have hc1 : c ∈ cols1 := hc1
      have hm : (c.name, tagOfAction c.action) ∈ cols1.map (fun c => (c.name, tagOfAction c.action)) :=
        List.mem_map_of_mem (f := fun c : Column => (c.name, tagOfAction c.action)) hc1
      rw [htags] at hm
      obtain ⟨c0, hc0, he⟩ := List.mem_map.mp hm
      have hname : c0.name = c.name := (Prod.mk.inj he).1
      have hN : c.name ∈ t.colNames := hname ▸ List.mem_map_of_mem hc0
      refine ⟨?_, hsimple c hc1⟩
      rw [← (Prod.mk.inj he).2, hname]
      unfold Abs.tagOf
      rw [if_pos hN]
    · have hO : c.name ∈ old.colNames := hcn ▸ List.mem_map_of_mem hoc
      have hN : c.name ∉ t.colNames := by rw [hcn]; rw [hN0] at hnin; exact hnin
      refine ⟨?_, by rw [ha]; exact Or.inr (Or.inr (Or.inl rfl))⟩
      rw [ha]
      unfold Abs.tagOf
      rw [if_neg hN]
      rfl
  refine ⟨?_, fun c hc => (htag c hc).2⟩
  unfold absCols Abs.tagged
  rw [← hmerge]
  show t1.cols.map _ = (t1.cols.map (·.name)).map _
  rw [List.map_map]
  apply List.map_congr_left
  intro c hc
  simp only [Function.comp_apply, (htag c hc).1]

/-- **C01 / C02, column order, on the implementation model of `Table.Diff` ∘ `MigrationColumnUp/Down`**: for a freshly
    loaded new and old table (consistent, no pending position) whose common columns keep their relative order, the
    ADD / DROP COLUMN statements printed for the diffed table turn the old column order into the new one, and the
    down statements turn it back; every step is well-formed by the reference rules.  Any number of columns. -/
theorem diffed_columns (g : Globals) (hio : g.ignoreOrder = false) (hd : g.dialect ≠ .sqlite) (tb : String)
    (d : Dialect) (t old t1 : Table) (cols1 : List Column) (h : t.Inv) (hold : old.Inv)
    (hp : t.pendingPos = none) (hadd : ∀ c ∈ t.cols, c.action = .add) (holdAdd : ∀ c ∈ old.cols, c.action = .add)
    (hne : ∀ n ∈ t.colNames ++ old.colNames, n ≠ "") (hc : Abs.OrderCompatible t.colNames old.colNames)
    (h1 : diffCols1 d old t.cols = .ok cols1)
    (h2 : diffCols2 (d == .mysql) { t with cols := cols1 } [] old.cols = .ok t1) :
    Abs.execAll old.colNames ((Table.walkCols g tb true [] t1.cols).1.filterMap colStmt) = some t.colNames ∧
    Abs.execAll t.colNames ((Table.walkCols g tb false [] t1.cols).1.filterMap colStmt) = some old.colNames := by
  obtain ⟨htag, hsimple⟩ := diff_cols_tagged d t old t1 cols1 h hold hp hadd holdAdd h1 h2
  have hne1 : ∀ c ∈ ([] : List Column) ++ t1.cols, c.name ≠ "" := by
    intro c hc
    have hc : c ∈ t1.cols := by simpa using hc
    have hm : c.name ∈ (absCols t1.cols).map (·.1) := by
      simp only [absCols, List.map_map]
      exact List.mem_map_of_mem (f := (fun c : Column => (c.name, tagOfAction c.action).1)) hc
    rw [htag, Abs.tagged_names] at hm
    rcases Abs.mem_merge hm with hm | hm
    · exact hne _ (List.mem_append_left _ hm)
    · exact hne _ (List.mem_append_right _ hm)
  constructor
  · rw [(walkCols_up_refines g hio hd tb t1.cols [] hsimple hne1).1, htag]
    exact Abs.columns_up t.colNames old.colNames h.cols.nodup hold.cols.nodup hc
  · rw [(walkCols_down_refines g hio hd tb t1.cols [] hsimple hne1).1, htag]
    exact Abs.columns_down t.colNames old.colNames h.cols.nodup hold.cols.nodup hc

end Table
end Sqlize
