/-
  Proofs/OptsGood.lean — provenance of column options and of index names along a load, for scripts without any PRIMARY
  KEY declaration (`Stmt.plain`): every option of every loaded column is either an option some column definition of the
  script carried (not `reference`, not `primaryKey`, built with its expression node) or a bare foreign-key mark put there
  by `AddForeignKey`; no index record is called `primary_key`.

  Consequence (`hasChangedOptions_of_perm`): for two such option lists, `Table.Diff`'s option comparison reports "no
  change" whenever their reference images (`optKinds`) are permutations of each other.
-/
import SqlizeModel.Proofs.Elems
import SqlizeModel.Proofs.MergeRefine

namespace Sqlize
open Spec

def Opt.isMark (o : Opt) : Bool := o.kind == .reference && !o.hasExpr

/-- an option of a loaded column in a script without PRIMARY KEY declarations -/
def Opt.Plain (o : Opt) : Prop :=
  o.isMark = true ∨ (o.kind ≠ .reference ∧ o.kind ≠ .primaryKey ∧ o.hasExpr = true)

theorem Opt.plain_mark : Opt.Plain { kind := .reference, hasExpr := false } := Or.inl rfl

namespace Table

/-- every option of every column satisfies `P`, and no index record is the `primary_key` record -/
structure Plain (K : Prop) (t : Table) : Prop where
  opts : ∀ c ∈ t.cols, ∀ o ∈ c.cur.opts, o.Plain
  noPk : K → ∀ i ∈ t.idxs, i.name ≠ pkName     -- `K`: the mode without any PRIMARY KEY declaration

variable {K : Prop}

theorem plain_new (n : String) (a : Action) : (Table.new n a).Plain K :=
  ⟨fun c hc => (List.not_mem_nil hc).elim, fun _ i hi => (List.not_mem_nil hi).elim⟩

theorem plain_of_raw_cols {t t' : Table} (h : t.Plain K) (hr : t'.raw = t.raw) (hc : ∀ c ∈ t'.cols, c ∈ t.cols) : t'.Plain K := by
  have hi : t'.idxs = t.idxs := congrArg Prod.fst hr
  exact ⟨fun c hcm => h.opts c (hc c hcm), by rw [hi]; exact h.noPk⟩

theorem swapOrder_plain (t t' : Table) (cn : String) (a b : Nat) (h : t.Plain K) (hs : t.swapOrder cn a b = .ok t') :
    t'.Plain K :=
  plain_of_raw_cols h (swapOrder_raw t t' cn a b hs) (fun c hc => (swapOrder_mem t t' cn a b hs c).mp hc)

theorem positionStep_plain (t t' : Table) (c : String) (id : Nat) (h : t.Plain K) (hs : t.positionStep c id = .ok t') :
    t'.Plain K := by
  unfold positionStep at hs
  cases hp : t.pendingPos with
  | none => rw [hp] at hs; have := pure_ok hs; subst this; exact h
  | some p =>
    rw [hp] at hs
    cases p with
    | first =>
      obtain ⟨t1, h1, hs⟩ := bind_ok hs
      have := pure_ok hs; subst this
      have := swapOrder_plain t t1 _ _ _ h h1
      exact ⟨this.opts, this.noPk⟩
    | after r =>
      simp only at hs
      cases hr : t.colIdx.get? r with
      | none => rw [hr] at hs; have := pure_ok hs; subst this; exact ⟨h.opts, h.noPk⟩
      | some a =>
        rw [hr] at hs
        obtain ⟨t1, h1, hs⟩ := bind_ok hs
        have := pure_ok hs; subst this
        have := swapOrder_plain t t1 _ _ _ h h1
        exact ⟨this.opts, this.noPk⟩

theorem addColumn_plain (t t' : Table) (col : Column) (mysql : Bool) (h : t.Plain K) (hcol : ∀ o ∈ col.cur.opts, o.Plain)
    (hs : t.addColumn col mysql = .ok t') : t'.Plain K := by
  unfold addColumn at hs
  cases hg : t.colIdx.get? col.name with
  | none =>
    rw [hg] at hs
    simp only at hs
    refine positionStep_plain { t with cols := t.cols ++ [col], colIdx := t.colIdx.set col.name t.cols.length } t' _ _
      ⟨?_, h.noPk⟩ hs
    intro c hc
    have hc : c ∈ t.cols ++ [col] := hc
    rcases List.mem_append.mp hc with h1 | h1
    · exact h.opts c h1
    · rw [List.mem_singleton.mp h1]; exact hcol
  | some id =>
    rw [hg] at hs
    simp only at hs
    obtain ⟨c, hc, hs⟩ := bind_ok hs
    have hcm : c ∈ t.cols := List.mem_of_getElem? (getIdx_ok hc)
    split at hs
    · refine positionStep_plain { t with cols := t.cols.set id col } t' _ _ ⟨?_, h.noPk⟩ hs
      intro x hx
      have hx : x ∈ t.cols.set id col := hx
      rcases List.mem_or_eq_of_mem_set hx with h1 | h1
      · exact h.opts x h1
      · rw [h1]; exact hcol
    · have := pure_ok hs; subst this
      refine ⟨?_, h.noPk⟩
      intro x hx
      have hx : x ∈ t.cols.set id _ := hx
      rcases List.mem_or_eq_of_mem_set hx with h1 | h1
      · exact h.opts x h1
      · rw [h1]
        intro o ho
        have ho : o ∈ pkSwap _ := ho
        have ho := (pkSwap_perm _).mem_iff.mp ho
        rcases List.mem_append.mp ho with h2 | h2
        · split at h2
          · cases h2
          · exact h.opts c hcm o h2
        · exact hcol o h2

theorem mem_dropLastFkMark {os : List Opt} {o : Opt} (h : o ∈ dropLastFkMark os) : o ∈ os := by
  unfold dropLastFkMark at h
  split at h
  · exact (List.eraseIdx_sublist _ _).subset h
  · exact h

theorem forgetIndex_plain (t t' : Table) (id : Nat) (h : t.Plain K) (hs : t.forgetIndex id = .ok t') : t'.Plain K := by
  have hr := forgetIndex_raw t t' id hs
  have hi : t'.idxs = t.idxs.eraseIdx id := congrArg Prod.fst hr
  unfold forgetIndex at hs
  obtain ⟨i, _, hs⟩ := bind_ok hs
  have := pure_ok hs; subst this
  exact ⟨h.opts, fun hk i hi' => h.noPk hk i ((List.eraseIdx_sublist _ _).subset hi')⟩

theorem forgetForeignKey_plain (t t' : Table) (id : Nat) (h : t.Plain K) (hs : t.forgetForeignKey id = .ok t') :
    t'.Plain K := by
  unfold forgetForeignKey at hs
  obtain ⟨f, _, hs⟩ := bind_ok hs
  have := pure_ok hs; subst this
  refine ⟨?_, h.noPk⟩
  intro c hc
  have hc : c ∈ t.cols.map _ := hc
  obtain ⟨c0, hc0, rfl⟩ := List.mem_map.mp hc
  split
  · intro o ho
    exact h.opts c0 hc0 o (mem_dropLastFkMark ho)
  · exact h.opts c0 hc0

theorem stripColFromIndexes_plain (col : String) : ∀ (k : Nat) (t t' : Table), t.Plain K →
    t.stripColFromIndexes col k = .ok t' → t'.Plain K := by
  intro k
  induction k with
  | zero => intro t t' h hs; unfold stripColFromIndexes at hs; have := pure_ok hs; subst this; exact h
  | succ k ih =>
    intro t t' h hs
    unfold stripColFromIndexes at hs
    obtain ⟨i, hi, hs⟩ := bind_ok hs
    have hi := getIdx_ok hi
    obtain ⟨t1, h1, hs⟩ := bind_ok hs
    have h1p : t1.Plain K := by
      split at h1
      · exact forgetIndex_plain t t1 k h h1
      · have := pure_ok h1; subst this
        refine ⟨h.opts, ?_⟩
        intro hk x hx
        have hx : x ∈ t.idxs.set k _ := hx
        rcases List.mem_or_eq_of_mem_set hx with h2 | h2
        · exact h.noPk hk x h2
        · rw [h2]; exact h.noPk hk i (List.mem_of_getElem? hi)
    exact ih t1 t' h1p hs

theorem dropFksOnCol_plain (col : String) : ∀ (k : Nat) (t t' : Table), t.Plain K →
    t.dropFksOnCol col k = .ok t' → t'.Plain K := by
  intro k
  induction k with
  | zero => intro t t' h hs; unfold dropFksOnCol at hs; have := pure_ok hs; subst this; exact h
  | succ k ih =>
    intro t t' h hs
    unfold dropFksOnCol at hs
    obtain ⟨f, _, hs⟩ := bind_ok hs
    obtain ⟨t1, h1, hs⟩ := bind_ok hs
    have h1p : t1.Plain K := by
      split at h1
      · exact forgetForeignKey_plain t t1 k h h1
      · have := pure_ok h1; subst this; exact h
    exact ih t1 t' h1p hs

theorem removeColumn_plain (t t' : Table) (name : String) (h : t.Plain K) (hs : t.removeColumn name = .ok t') :
    t'.Plain K := by
  unfold removeColumn at hs
  cases hg : t.colIdx.get? name with
  | none =>
    rw [hg] at hs
    have := pure_ok hs; subst this
    refine ⟨?_, h.noPk⟩
    intro c hc
    have hc : c ∈ t.cols ++ [_] := hc
    rcases List.mem_append.mp hc with h1 | h1
    · exact h.opts c h1
    · rw [List.mem_singleton.mp h1]; intro o ho; cases ho
  | some id =>
    rw [hg] at hs
    simp only at hs
    obtain ⟨c, hc, hs⟩ := bind_ok hs
    split at hs
    · obtain ⟨t2, h2, hs⟩ := bind_ok hs
      let t0 : Table := { t with cols := t.cols.eraseIdx id,
                                 colIdx := (t.colIdx.erase name).mapVals (fun v => if v > id then v - 1 else v) }
      have h0 : t0.Plain K := ⟨fun x hx => h.opts x ((List.eraseIdx_sublist _ _).subset hx), h.noPk⟩
      exact dropFksOnCol_plain name _ t2 t' (stripColFromIndexes_plain name _ t0 t2 h0 h2) hs
    · have := pure_ok hs; subst this
      refine ⟨?_, h.noPk⟩
      intro x hx
      have hx : x ∈ t.cols.set id _ := hx
      rcases List.mem_or_eq_of_mem_set hx with h1 | h1
      · exact h.opts x h1
      · rw [h1]; exact h.opts c (List.mem_of_getElem? (getIdx_ok hc))

theorem addIndex_plain (t t' : Table) (idx : Index) (h : t.Plain K) (hn : K → idx.name ≠ pkName) (hs : t.addIndex idx = .ok t') :
    t'.Plain K := by
  unfold addIndex at hs
  cases hg : t.idxIdx.get? idx.name with
  | none =>
    rw [hg] at hs
    have := pure_ok hs; subst this
    refine ⟨h.opts, ?_⟩
    intro hk i hi
    have hi : i ∈ t.idxs ++ [idx] := hi
    rcases List.mem_append.mp hi with h1 | h1
    · exact h.noPk hk i h1
    · rw [List.mem_singleton.mp h1]; exact hn hk
  | some id =>
    rw [hg] at hs
    simp only at hs
    obtain ⟨l, hl, hs⟩ := bind_ok hs
    have := pure_ok hs; subst this
    refine ⟨h.opts, ?_⟩
    intro hk i hi
    have hi : i ∈ l := hi
    rw [(setIdx_ok hl).2] at hi
    rcases List.mem_or_eq_of_mem_set hi with h1 | h1
    · exact h.noPk hk i h1
    · rw [h1]; exact hn hk

theorem removeIndex_plain (t t' : Table) (name : String) (h : t.Plain K) (hn : K → name ≠ pkName)
    (hs : t.removeIndex name = .ok t') : t'.Plain K := by
  unfold removeIndex at hs
  cases hg : t.idxIdx.get? name with
  | none =>
    rw [hg] at hs
    have := pure_ok hs; subst this
    refine ⟨h.opts, ?_⟩
    intro hk i hi
    have hi : i ∈ t.idxs ++ [_] := hi
    rcases List.mem_append.mp hi with h1 | h1
    · exact h.noPk hk i h1
    · rw [List.mem_singleton.mp h1]; exact hn hk
  | some id =>
    rw [hg] at hs
    simp only at hs
    obtain ⟨i, hi, hs⟩ := bind_ok hs
    split at hs
    · exact forgetIndex_plain t t' id h hs
    · have := pure_ok hs; subst this
      refine ⟨h.opts, ?_⟩
      intro hk x hx
      have hx : x ∈ t.idxs.set id _ := hx
      rcases List.mem_or_eq_of_mem_set hx with h1 | h1
      · exact h.noPk hk x h1
      · rw [h1]; exact h.noPk hk i (List.mem_of_getElem? (getIdx_ok hi))

theorem addForeignKey_plain (t t' : Table) (fk : ForeignKey) (h : t.Plain K) (hs : t.addForeignKey fk = .ok t') :
    t'.Plain K := by
  unfold addForeignKey at hs
  obtain ⟨t1, h1, hs⟩ := bind_ok hs
  have := pure_ok hs; subst this
  have h1p : t1.cols = t.cols ∧ t1.idxs = t.idxs := by
    split at h1
    · have := pure_ok h1; subst this; exact ⟨rfl, rfl⟩
    · obtain ⟨l, _, h1⟩ := bind_ok h1
      have := pure_ok h1; subst this; exact ⟨rfl, rfl⟩
  refine ⟨?_, ?_⟩
  · intro c hc
    have hc : c ∈ t1.cols.map _ := hc
    rw [h1p.1] at hc
    obtain ⟨c0, hc0, rfl⟩ := List.mem_map.mp hc
    split
    · intro o ho
      have ho : o ∈ c0.cur.opts ++ [_] := ho
      rcases List.mem_append.mp ho with h2 | h2
      · exact h.opts c0 hc0 o h2
      · rw [List.mem_singleton.mp h2]; exact Opt.plain_mark
    · exact h.opts c0 hc0
  · show K → ∀ i ∈ t1.idxs, _
    rw [h1p.2]; exact h.noPk

theorem removeForeignKey_plain (t t' : Table) (name : String) (h : t.Plain K) (hs : t.removeForeignKey name = .ok t') :
    t'.Plain K := by
  unfold removeForeignKey at hs
  cases hg : t.fkIdx.get? name with
  | none => rw [hg] at hs; have := pure_ok hs; subst this; exact ⟨h.opts, h.noPk⟩
  | some id =>
    rw [hg] at hs
    simp only at hs
    obtain ⟨f, _, hs⟩ := bind_ok hs
    split at hs
    · exact forgetForeignKey_plain t t' id h hs
    · have := pure_ok hs; subst this; exact ⟨h.opts, h.noPk⟩

end Table

namespace Migration

def Plain (K : Prop) (m : Migration) : Prop := ∀ t ∈ m.tables, t.Plain K

theorem plain_empty : ({} : Migration).Plain K := by intro t ht; cases ht

theorem plain_using (m : Migration) (x : String) (h : m.Plain K) : (m.using_ x).Plain K := by
  unfold using_; split <;> exact h

theorem plain_addTable (m m' : Migration) (tb : Table) (h : m.Plain K) (htb : tb.Plain K) (hs : m.addTable tb = .ok m') :
    m'.Plain K := by
  unfold addTable at hs
  split at hs
  · have := pure_ok hs; subst this
    intro t ht
    have ht : t ∈ m.tables ++ [tb] := ht
    rcases List.mem_append.mp ht with h1 | h1
    · exact h t h1
    · rw [List.mem_singleton.mp h1]; exact htb
  · obtain ⟨l, hl, hs⟩ := bind_ok hs
    have := pure_ok hs; subst this
    intro t ht
    have ht : t ∈ l := ht
    rw [(setIdx_ok hl).2] at ht
    rcases List.mem_or_eq_of_mem_set ht with h1 | h1
    · exact h t h1
    · rw [h1]; exact htb

theorem plain_removeTable (m m' : Migration) (name : String) (h : m.Plain K) (hs : m.removeTable name = .ok m') :
    m'.Plain K := by
  unfold removeTable at hs
  split at hs
  · have := pure_ok hs; subst this
    intro t ht
    have ht : t ∈ m.tables ++ [Table.new name .remove] := ht
    rcases List.mem_append.mp ht with h1 | h1
    · exact h t h1
    · rw [List.mem_singleton.mp h1]; exact Table.plain_new _ _
  · obtain ⟨t0, ht0, hs⟩ := bind_ok hs
    split at hs
    · have := pure_ok hs; subst this
      exact fun t ht => h t ((List.eraseIdx_sublist _ _).subset ht)
    · have := pure_ok hs; subst this
      intro t ht
      have ht : t ∈ m.tables.set _ _ := ht
      rcases List.mem_or_eq_of_mem_set ht with h1 | h1
      · exact h t h1
      · rw [h1]
        have := h t0 (List.mem_of_getElem? (getIdx_ok ht0))
        exact ⟨this.opts, this.noPk⟩

theorem plain_ensureTable (m m' : Migration) (tb : String) (id : Nat) (h : m.Plain K)
    (hs : m.ensureTable tb = .ok (m', id)) : m'.Plain K := by
  unfold ensureTable at hs
  split at hs
  · have := pure_ok hs
    rw [← (Prod.mk.inj this).1]; exact h
  · obtain ⟨m1, h1, hs⟩ := bind_ok hs
    have := pure_ok hs
    rw [← (Prod.mk.inj this).1]
    exact plain_addTable m m1 _ h (Table.plain_new _ _) h1

theorem plain_onTable (m m' : Migration) (site : String) (id : Nat) (f : Table → M Table) (h : m.Plain K)
    (hf : ∀ t t', t.Plain K → f t = .ok t' → t'.Plain K) (hs : m.onTable site id f = .ok m') : m'.Plain K := by
  unfold onTable at hs
  obtain ⟨t, ht, hs⟩ := bind_ok hs
  obtain ⟨t', ht', hs⟩ := bind_ok hs
  have := pure_ok hs; subst this
  intro x hx
  have hx : x ∈ m.tables.set id t' := hx
  rcases List.mem_or_eq_of_mem_set hx with h1 | h1
  · exact h x h1
  · rw [h1]; exact hf t t' (h t (List.mem_of_getElem? (getIdx_ok ht))) ht'

/-- the shape shared by the edit primitives: make sure the table exists, then edit it -/
theorem plain_edit (m m' : Migration) (tb site : String) (f : Table → M Table) (h : m.Plain K)
    (hf : ∀ t t', t.Plain K → f t = .ok t' → t'.Plain K)
    (hs : (do let (m1, i) ← m.ensureTable tb; m1.onTable site i f) = .ok m') : m'.Plain K := by
  obtain ⟨⟨m1, i⟩, h1, hs⟩ := bind_ok hs
  exact plain_onTable m1 m' site i f (plain_ensureTable m m1 tb i h h1) hf hs

theorem plain_addColumn (m m' : Migration) (tb : String) (col : Column) (mysql : Bool) (h : m.Plain K)
    (hcol : ∀ o ∈ col.cur.opts, o.Plain) (hs : m.addColumn tb col mysql = .ok m') : m'.Plain K :=
  plain_edit m m' _ _ _ h (fun t t' ht hs => Table.addColumn_plain t t' col mysql ht hcol hs) hs

theorem plain_setColumnPosition (m m' : Migration) (tb : String) (pos : Pos) (h : m.Plain K)
    (hs : m.setColumnPosition tb pos = .ok m') : m'.Plain K := by
  unfold setColumnPosition at hs
  split at hs
  · exact plain_onTable m m' _ _ _ h (fun t t' ht hs => by have := pure_ok hs; subst this; exact ⟨ht.opts, ht.noPk⟩) hs
  · have := pure_ok hs; subst this; exact h

end Migration

/-- a column definition without PRIMARY KEY / REFERENCES options, every option built with its expression node -/
def ColDef.plain (c : ColDef) : Bool :=
  c.opts.all (fun o => o.kind != .reference && o.kind != .primaryKey && o.hasExpr)

theorem ColDef.plain_opts (c : ColDef) (h : c.plain = true) : ∀ o ∈ c.toColumn.cur.opts, o.Plain := by
  intro o ho
  have ho : o ∈ c.opts := ho
  have := List.all_eq_true.mp h o ho
  simp only [Bool.and_eq_true, bne_iff_ne, ne_eq] at this
  exact Or.inr ⟨this.1.1, this.1.2, this.2⟩

/-- statements whose column definitions are plain (no inline PRIMARY KEY / REFERENCES, options built with their node) -/
def Stmt.plainOpts : Stmt → Bool
  | .createTable _ _ cols _ => cols.all ColDef.plain
  | .addColumn _ c _ => c.plain
  | .modifyColumn _ c => c.plain
  | _ => true

/-- statements of a script without any PRIMARY KEY declaration (and without the index name `primary_key`) -/
def Stmt.plain : Stmt → Bool
  | .createTable _ _ cols pk => pk.isEmpty && cols.all ColDef.plain
  | .addColumn _ c _ => c.plain
  | .modifyColumn _ c => c.plain
  | .addPrimaryKey _ _ => false
  | .dropPrimaryKey _ => false
  | .createIndex _ name _ _ _ => name != pkName
  | .dropIndex _ name => name != pkName
  | .renameIndex _ _ n => n != pkName
  | _ => true

namespace ReaderMysql

theorem addCols_plain (cols : List ColDef) : ∀ (m m' : Migration), m.Plain K → cols.all ColDef.plain = true →
    addCols m cols = .ok m' → m'.Plain K := by
  induction cols with
  | nil => intro m m' h _ hs; unfold addCols at hs; have := pure_ok hs; subst this; exact h
  | cons c rest ih =>
    intro m m' h hc hs
    simp only [List.all_cons, Bool.and_eq_true] at hc
    unfold addCols at hs
    obtain ⟨m1, h1, hs⟩ := bind_ok hs
    exact ih m1 m' (Migration.plain_addColumn m m1 "" _ true h (c.plain_opts hc.1) h1) hc.2 hs

/-- **provenance of column options along a load**: for a script whose column definitions are plain, every option of
    every loaded column is an option of the script or a bare foreign-key mark; in the mode `K` (no PRIMARY KEY declaration
    at all: `Stmt.plain`) there is also no `primary_key` record -/
theorem step_plain (m m' : Migration) (s : Stmt) (h : m.Plain K) (hp : s.plainOpts = true) (hk : K → s.plain = true)
    (hs : step m s = .ok m') : m'.Plain K := by
  cases s with
  | createTable t ident cols pk =>
    have hcols : cols.all ColDef.plain = true := hp
    unfold step at hs
    obtain ⟨tb0, h0, hs⟩ := bind_ok hs
    obtain ⟨m2, h2, hs⟩ := bind_ok hs
    have htb0 : tb0.Plain K := by
      by_cases hpe : pk.isEmpty = true
      · rw [if_pos hpe] at h0
        exact (pure_ok h0) ▸ Table.plain_new t .add
      · rw [if_neg hpe] at h0
        refine Table.addIndex_plain (Table.new t .add) tb0 (pkIndex pk) (Table.plain_new t .add) ?_ h0
        intro k
        have := hk k
        simp only [Stmt.plain, Bool.and_eq_true] at this
        exact absurd this.1 hpe
    have hm2 := Migration.plain_addTable _ m2 _ (Migration.plain_using m t h) htb0 h2
    exact addCols_plain cols _ m' (Migration.plain_using m2 t hm2) hcols hs
  | dropTable t =>
    unfold step at hs
    obtain ⟨m1, h1, hs⟩ := bind_ok hs
    have := pure_ok hs; subst this
    exact Migration.plain_using m1 t (Migration.plain_removeTable m m1 t h h1)
  | addColumn t c pos =>
    have hc : c.plain = true := hp
    unfold step at hs
    obtain ⟨m1, h1, hs⟩ := bind_ok hs
    have hm1 : m1.Plain K := by
      split at h1
      · exact Migration.plain_setColumnPosition m m1 t _ h h1
      · have := pure_ok h1; subst this; exact h
    exact Migration.plain_addColumn _ m' "" _ true (Migration.plain_using m1 t hm1) (c.plain_opts hc) hs
  | dropColumn t c =>
    unfold step at hs
    obtain ⟨m1, h1, hs⟩ := bind_ok hs
    have := pure_ok hs; subst this
    refine Migration.plain_using m1 t ?_
    exact Migration.plain_edit m m1 _ _ _ h (fun t t' ht hs => Table.removeColumn_plain t t' c ht hs) h1
  | modifyColumn t c =>
    have hc : c.plain = true := hp
    unfold step at hs
    obtain ⟨m1, h1, hs⟩ := bind_ok hs
    have hm1 := Migration.plain_addColumn m m1 t _ true h (by intro o ho; cases ho) h1
    exact Migration.plain_addColumn _ m' "" _ true (Migration.plain_using m1 t hm1) (c.plain_opts hc) hs
  | renameColumn t o n =>
    unfold step at hs
    obtain ⟨m1, h1, hs⟩ := bind_ok hs
    have := pure_ok hs; subst this
    refine Migration.plain_using m1 t ?_
    unfold Migration.renameColumn at h1
    split at h1
    · refine Migration.plain_onTable m m1 _ _ _ h ?_ h1
      intro tb tb' htb hs'
      unfold Table.renameColumn at hs'
      split at hs'
      · have := pure_ok hs'; subst this; exact htb
      · obtain ⟨c, hc, hs'⟩ := bind_ok hs'
        have := pure_ok hs'; subst this
        refine ⟨?_, htb.noPk⟩
        intro x hx
        have hx : x ∈ tb.cols.set _ _ := hx
        rcases List.mem_or_eq_of_mem_set hx with h2 | h2
        · exact htb.opts x h2
        · rw [h2]; exact htb.opts c (List.mem_of_getElem? (getIdx_ok hc))
    · have := pure_ok h1; subst this; exact h
  | addPrimaryKey t cols =>
    unfold step at hs
    obtain ⟨m1, h1, hs⟩ := bind_ok hs
    have := pure_ok hs; subst this
    refine Migration.plain_using m1 t ?_
    unfold Migration.addIndex at h1
    refine Migration.plain_edit m m1 _ _ _ h (fun t t' ht hs => Table.addIndex_plain t t' _ ht ?_ hs) h1
    intro k
    have := hk k
    simp [Stmt.plain] at this
  | dropPrimaryKey t =>
    unfold step at hs
    obtain ⟨m1, h1, hs⟩ := bind_ok hs
    have := pure_ok hs; subst this
    refine Migration.plain_using m1 t ?_
    unfold Migration.removeIndex at h1
    refine Migration.plain_edit m m1 _ _ _ h (fun t t' ht hs => Table.removeIndex_plain t t' _ ht ?_ hs) h1
    intro k
    have := hk k
    simp [Stmt.plain] at this
  | addFk t name col rt rc =>
    unfold step at hs
    obtain ⟨m1, h1, hs⟩ := bind_ok hs
    have := pure_ok hs; subst this
    refine Migration.plain_using _ rt (Migration.plain_using m1 t ?_)
    unfold Migration.addForeignKey at h1
    exact Migration.plain_edit m m1 _ _ _ h (fun t t' ht hs => Table.addForeignKey_plain t t' _ ht hs) h1
  | dropFk t name =>
    unfold step at hs
    obtain ⟨m1, h1, hs⟩ := bind_ok hs
    have := pure_ok hs; subst this
    refine Migration.plain_using m1 t ?_
    exact Migration.plain_edit m m1 _ _ _ h (fun t t' ht hs => Table.removeForeignKey_plain t t' name ht hs) h1
  | renameIndex t o n =>
    unfold step at hs
    obtain ⟨m1, h1, hs⟩ := bind_ok hs
    have := pure_ok hs; subst this
    have hn : K → n ≠ pkName := by intro k; simpa [Stmt.plain] using hk k
    refine Migration.plain_using m1 t ?_
    unfold Migration.renameIndex at h1
    split at h1
    · refine Migration.plain_onTable m m1 _ _ _ h ?_ h1
      intro tb tb' htb hs'
      unfold Table.renameIndex at hs'
      split at hs'
      · have := pure_ok hs'; subst this; exact htb
      · obtain ⟨l, hl, hs'⟩ := bind_ok hs'
        have := pure_ok hs'; subst this
        refine ⟨htb.opts, ?_⟩
        intro k x hx
        have hx : x ∈ l := hx
        unfold modifyIdx at hl
        split at hl
        · have := pure_ok hl; subst this
          rcases List.mem_or_eq_of_mem_set hx with h2 | h2
          · exact htb.noPk k x h2
          · rw [h2]; exact hn k
        · cases hl
    · have := pure_ok h1; subst this; exact h
  | createIndex t name cols uniq u =>
    have hn : K → name ≠ pkName := by intro k; simpa [Stmt.plain] using hk k
    unfold step at hs
    obtain ⟨m1, h1, hs⟩ := bind_ok hs
    have := pure_ok hs; subst this
    refine Migration.plain_using m1 t ?_
    exact Migration.plain_edit m m1 _ _ _ h (fun t t' ht hs => Table.addIndex_plain t t' _ ht hn hs) h1
  | dropIndex t name =>
    have hn : K → name ≠ pkName := by intro k; simpa [Stmt.plain] using hk k
    unfold step at hs
    obtain ⟨m1, h1, hs⟩ := bind_ok hs
    have := pure_ok hs; subst this
    refine Migration.plain_using m1 t ?_
    exact Migration.plain_edit m m1 _ _ _ h (fun t t' ht hs => Table.removeIndex_plain t t' name ht hn hs) h1
  | commentOn t c text => unfold step at hs; cases hs
  | alterType t c typ => unfold step at hs; cases hs
  | setDefault t c d => unfold step at hs; cases hs
  | dropNotNull t c => unfold step at hs; cases hs

theorem plainOpts_of_plain (s : Stmt) (h : s.plain = true) : s.plainOpts = true := by
  cases s <;> simp_all [Stmt.plain, Stmt.plainOpts]

end ReaderMysql
end Sqlize
