/-
  Proofs/AMap.lean — `map[string]int` as an association list: lookup laws of set / erase / mapVals, and the functional
  form of the map invariant (`FInv`: unique keys, and `get?` is the position of the name in the column slice).
-/
import SqlizeModel.Proofs.Inv

namespace Sqlize

namespace AMap

def keys (m : AMap) : List String := m.map (·.1)

theorem get?_nil (k : String) : AMap.get? [] k = none := rfl

theorem get?_cons (p : String × Nat) (m : AMap) (k : String) :
    AMap.get? (p :: m) k = if p.1 == k then some p.2 else AMap.get? m k := by
  unfold AMap.get?
  by_cases h : p.1 == k <;> simp [List.find?_cons, h]

theorem get?_eq_none_iff (m : AMap) (k : String) : AMap.get? m k = none ↔ k ∉ keys m := by
  induction m with
  | nil => simp [get?_nil, keys]
  | cons p r ih =>
    rw [get?_cons]
    by_cases h : p.1 == k
    · have : p.1 = k := by simpa using h
      simp [h, keys, this]
    · have hne : p.1 ≠ k := by simpa using h
      simp only [h, Bool.false_eq_true, if_false, ih, keys, List.map_cons, List.mem_cons, not_or]
      constructor
      · intro hh; exact ⟨fun e => hne e.symm, hh⟩
      · intro hh; exact hh.2

theorem get?_append (m₁ m₂ : AMap) (k : String) :
    AMap.get? (m₁ ++ m₂) k = (AMap.get? m₁ k).orElse (fun _ => AMap.get? m₂ k) := by
  induction m₁ with
  | nil => simp [get?_nil]
  | cons p r ih =>
    simp only [List.cons_append, get?_cons]
    by_cases h : p.1 == k <;> simp [h, ih]

theorem get?_map_ne (m : AMap) (k k' : String) (v : Nat) (h : k' ≠ k) :
    AMap.get? (m.map (fun p => if p.1 == k then (k, v) else p)) k' = AMap.get? m k' := by
  induction m with
  | nil => rfl
  | cons p r ih =>
    rw [List.map_cons, get?_cons, get?_cons, ih]
    by_cases hp : (p.1 == k) = true
    · have hpk : p.1 = k := by simpa using hp
      have h1 : (k == k') = false := by simpa using fun e => h e.symm
      have h2 : (p.1 == k') = false := by rw [hpk]; exact h1
      rw [if_pos hp]
      simp only [h1, h2, Bool.false_eq_true, if_false]
    · rw [if_neg hp]

theorem get?_map_eq (m : AMap) (k : String) (v : Nat) (h : k ∈ keys m) :
    AMap.get? (m.map (fun p => if p.1 == k then (k, v) else p)) k = some v := by
  induction m with
  | nil => simp [keys] at h
  | cons p r ih =>
    rw [List.map_cons, get?_cons]
    by_cases hp : (p.1 == k) = true
    · rw [if_pos hp]; simp
    · have hne : p.1 ≠ k := by simpa using hp
      have hr : k ∈ keys r := by
        simp only [keys, List.map_cons, List.mem_cons] at h
        rcases h with h | h
        · exact absurd h.symm hne
        · exact h
      rw [if_neg hp, ih hr]
      have : (p.1 == k) = false := by simpa using hne
      simp only [this, Bool.false_eq_true, if_false]

/-- lookup after `m[k] = v` -/
theorem get?_set (m : AMap) (k k' : String) (v : Nat) :
    AMap.get? (AMap.set m k v) k' = if k' = k then some v else AMap.get? m k' := by
  unfold AMap.set
  by_cases hin : m.any (·.1 == k) = true
  · have hk : k ∈ keys m := by
      simp only [List.any_eq_true] at hin
      obtain ⟨p, hp, he⟩ := hin
      have : p.1 = k := by simpa using he
      exact this ▸ List.mem_map_of_mem hp
    rw [if_pos hin]
    by_cases h : k' = k
    · subst h; rw [if_pos rfl]; exact get?_map_eq m k' v hk
    · rw [if_neg h]; exact get?_map_ne m k k' v h
  · have hk : k ∉ keys m := by
      intro hk
      apply hin
      simp only [keys, List.mem_map] at hk
      obtain ⟨p, hp, he⟩ := hk
      exact List.any_eq_true.mpr ⟨p, hp, by simpa using he⟩
    rw [if_neg hin, get?_append, get?_cons, get?_nil]
    by_cases h : k' = k
    · subst h
      rw [if_pos rfl, (get?_eq_none_iff m k').mpr hk]
      simp
    · have h1 : (k == k') = false := by simpa using fun e => h e.symm
      rw [if_neg h]
      simp only [h1, Bool.false_eq_true, if_false]
      cases AMap.get? m k' <;> rfl

theorem keys_set (m : AMap) (k : String) (v : Nat) :
    keys (AMap.set m k v) = if k ∈ keys m then keys m else keys m ++ [k] := by
  unfold AMap.set
  by_cases hin : m.any (·.1 == k) = true
  · have hk : k ∈ keys m := by
      simp only [List.any_eq_true] at hin
      obtain ⟨p, hp, he⟩ := hin
      have : p.1 = k := by simpa using he
      exact this ▸ List.mem_map_of_mem hp
    rw [if_pos hin, if_pos hk]
    simp only [keys, List.map_map]
    apply List.map_congr_left
    intro p _
    by_cases hp : (p.1 == k) = true
    · have : p.1 = k := by simpa using hp
      simp only [Function.comp_apply, if_pos hp]
      exact this.symm
    · simp only [Function.comp_apply, if_neg hp]
  · have hk : k ∉ keys m := by
      intro hk
      apply hin
      simp only [keys, List.mem_map] at hk
      obtain ⟨p, hp, he⟩ := hk
      exact List.any_eq_true.mpr ⟨p, hp, by simpa using he⟩
    rw [if_neg hin, if_neg hk]
    simp [keys]

theorem get?_erase (m : AMap) (k k' : String) :
    AMap.get? (AMap.erase m k) k' = if k' = k then none else AMap.get? m k' := by
  unfold AMap.erase
  induction m with
  | nil => simp [get?_nil]
  | cons p r ih =>
    by_cases hp : p.1 == k
    · have hpk : p.1 = k := by simpa using hp
      simp only [List.filter_cons, hp, bne_self_eq_false, Bool.not_true, Bool.false_eq_true, if_false]
      have : (p.1 != k) = false := by simp [hpk]
      simp only [this, Bool.false_eq_true, if_false, ih, get?_cons]
      by_cases h : k' = k
      · simp [h]
      · have : (p.1 == k') = false := by rw [hpk]; simpa using fun e => h e.symm
        simp [h, this]
    · have hne : p.1 ≠ k := by simpa using hp
      have : (p.1 != k) = true := by simpa using hne
      simp only [List.filter_cons, this, if_true, get?_cons, ih]
      by_cases h : k' = k
      · subst h
        have : (p.1 == k') = false := by simpa using hne
        simp [this]
      · simp [h]

theorem keys_erase (m : AMap) (k : String) : keys (AMap.erase m k) = (keys m).filter (· != k) := by
  unfold AMap.erase keys
  induction m with
  | nil => rfl
  | cons p r ih => by_cases hp : p.1 != k <;> simp [List.filter_cons, hp, ih]

theorem get?_mapVals (m : AMap) (f : Nat → Nat) (k : String) :
    AMap.get? (AMap.mapVals m f) k = (AMap.get? m k).map f := by
  unfold AMap.mapVals
  induction m with
  | nil => rfl
  | cons p r ih =>
    simp only [List.map_cons, get?_cons]
    by_cases hp : p.1 == k <;> simp [hp, ih]

theorem keys_mapVals (m : AMap) (f : Nat → Nat) : keys (AMap.mapVals m f) = keys m := by
  simp [AMap.mapVals, keys, List.map_map, Function.comp_def]

end AMap

/-- position of a name in a list of names -/
def pos? (n : String) : List String → Option Nat
  | [] => none
  | x :: r => if x == n then some 0 else (pos? n r).map (· + 1)

theorem pos?_none_iff (n : String) (l : List String) : pos? n l = none ↔ n ∉ l := by
  induction l with
  | nil => simp [pos?]
  | cons x r ih =>
    unfold pos?
    by_cases h : x == n
    · have : x = n := by simpa using h
      simp [h, this]
    · have hne : x ≠ n := by simpa using h
      simp only [h, Bool.false_eq_true, if_false, Option.map_eq_none_iff, ih, List.mem_cons, not_or]
      exact ⟨fun hh => ⟨fun e => hne e.symm, hh⟩, fun hh => hh.2⟩

theorem pos?_append (n : String) (a b : List String) :
    pos? n (a ++ b) = (pos? n a).orElse (fun _ => (pos? n b).map (· + a.length)) := by
  induction a with
  | nil => simp [pos?]
  | cons x r ih =>
    simp only [List.cons_append, pos?]
    by_cases h : x == n
    · simp [h]
    · simp only [h, Bool.false_eq_true, if_false, ih, List.length_cons]
      cases pos? n r with
      | some v => simp
      | none =>
        simp only [Option.map_none, Option.orElse_none]
        cases pos? n b with
        | none => rfl
        | some v => simp; omega

/-- the functional form of the column invariant -/
structure Table.FInv (t : Table) : Prop where
  names : (t.cols.map (·.name)).Nodup
  keys : (AMap.keys t.colIdx).Nodup
  get : ∀ n, t.colIdx.get? n = pos? n (t.cols.map (·.name))

end Sqlize
