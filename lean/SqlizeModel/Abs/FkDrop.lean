/-
  Abs/FkDrop.lean — the foreign-key clause in the presence of dropped columns.  `DROP COLUMN c` removes the foreign keys
  on `c` (reference engine); after the column statements the old key list `O` has become `pruneFk D O`.
  `MigrationForeignKeyUp` then prints ADD CONSTRAINT for the keys only the new side has and DROP for the keys only the old
  side has, except those on a dropped column (`emitKeepSup`); a key found on both sides gets nothing (`Table.Diff` tags it
  `modify`, and nothing is printed for that tag — the recorded finding `foreign-key-redefined` when the two differ).
  `emitKeepSup_correct`: from `pruneFk D O` the statements are well-formed at every step and give `N` up to order, provided
  no key found on both sides differs and the new keys are not on dropped columns.  An instance of `plan_correct`.
-/
import SqlizeModel.Abs.IdxDrop

namespace Sqlize.Abs.Idx
open Sqlize.Spec

def pruneFk (D : List String) (O : List FkSpec) : List FkSpec := O.filter (fun o => !D.contains o.col)

def emitKeepSup (D : List String) (N O : List FkSpec) : List (IStmt FkSpec) :=
  (N.filter (fun s => !(names O).contains s.name)).map IStmt.create ++
    (O.filter (fun o => !(names N).contains o.name && !D.contains o.col)).map (fun o => IStmt.drop o.name)

theorem emitKeepSup_nil (N O : List FkSpec) : emitKeepSup [] N O = emitKeep N O := by
  unfold emitKeepSup emitKeep
  congr 2
  apply List.filter_congr
  intro o _
  simp
  rfl

def keepPlan (D : List String) (N O : List FkSpec) : List (String × Act) :=
  (N.filter (fun s => !(names O).contains s.name)).map (fun s => (s.name, Act.create)) ++
    (O.filter (fun o => !(names N).contains o.name && !D.contains o.col)).map (fun o => (o.name, Act.drop))

theorem emitKeepSup_correct (D : List String) (N O : List FkSpec) (hN : (names N).Nodup) (hO : (names O).Nodup)
    (hnr : ∀ s ∈ N, ∀ o ∈ O, s.name = o.name → s = o) (hNcols : ∀ s ∈ N, s.col ∉ D) :
    ∃ R, execAll (pruneFk D O) (emitKeepSup D N O) = some R ∧ R.Perm N := by
  have hem : (keepPlan D N O).flatMap (planOne N) = emitKeepSup D N O := by
    unfold keepPlan emitKeepSup
    rw [List.flatMap_append]
    congr 1
    · rw [List.flatMap_map]
      have : ∀ l : List FkSpec, (∀ s ∈ l, s ∈ N) →
          l.flatMap (fun s => planOne N (s.name, Act.create)) = l.map IStmt.create := by
        intro l
        induction l with
        | nil => intro _; rfl
        | cons s r ih =>
          intro hl
          rw [List.flatMap_cons, List.map_cons, ih (fun x hx => hl x (by simp [hx]))]
          have hfs : N.find? (fun y => Named.name y == s.name) = some s := find?_of_mem hN (hl s (by simp))
          simp [planOne, hfs]
      exact this _ (fun s hs => (List.mem_filter.mp hs).1)
    · rw [List.flatMap_map]
      induction (O.filter (fun o => !(names N).contains o.name && !D.contains o.col)) with
      | nil => rfl
      | cons o r ih =>
        rw [List.flatMap_cons, List.map_cons, ih]
        rfl
  have hSnd : (names (pruneFk D O)).Nodup := by
    unfold pruneFk
    exact (List.filter_sublist.map _).nodup hO
  have hpn : ((keepPlan D N O).map (·.1)).Nodup := by
    unfold keepPlan
    rw [List.map_append, List.nodup_append]
    refine ⟨?_, ?_, ?_⟩
    · rw [List.map_map]
      exact (List.filter_sublist.map _).nodup hN
    · rw [List.map_map]
      exact (List.filter_sublist.map _).nodup hO
    · intro a ha b hb hab
      subst hab
      rw [List.map_map] at ha hb
      obtain ⟨s, hs, hsa⟩ := List.mem_map.mp ha
      obtain ⟨o, ho, hoa⟩ := List.mem_map.mp hb
      have h1 := (List.mem_filter.mp hs).2
      have hsa : s.name = a := hsa
      have hoa : o.name = a := hoa
      have hnot : s.name ∉ names O := by simpa using h1
      apply hnot
      rw [hsa, ← hoa]
      exact List.mem_map_of_mem (f := fun y : FkSpec => Named.name y) (List.mem_filter.mp ho).1
  have hfit : ∀ p ∈ keepPlan D N O, Fits (pruneFk D O) N p := by
    intro p hp
    unfold keepPlan at hp
    rcases List.mem_append.mp hp with h | h
    · obtain ⟨s, hs, rfl⟩ := List.mem_map.mp h
      obtain ⟨hsN, hc⟩ := List.mem_filter.mp hs
      have hnot : s.name ∉ names O := by simpa using hc
      refine ⟨?_, List.mem_map_of_mem (f := fun y : FkSpec => Named.name y) hsN⟩
      intro hm
      obtain ⟨x, hx, hxn⟩ := List.mem_map.mp hm
      apply hnot
      have hxn : x.name = s.name := hxn
      rw [← hxn]
      exact List.mem_map_of_mem (f := fun y : FkSpec => Named.name y) (List.mem_filter.mp hx).1
    · obtain ⟨o, ho, rfl⟩ := List.mem_map.mp h
      obtain ⟨hoO, hc⟩ := List.mem_filter.mp ho
      simp only [Bool.and_eq_true, Bool.not_eq_true'] at hc
      have hnot : o.name ∉ names N := by simpa using hc.1
      refine ⟨?_, hnot⟩
      have : o ∈ pruneFk D O := List.mem_filter.mpr ⟨hoO, by rw [hc.2]; rfl⟩
      exact List.mem_map_of_mem (f := fun y : FkSpec => Named.name y) this
  have hrest : ∀ x : FkSpec, (Named.name x) ∉ (keepPlan D N O).map (·.1) → (x ∈ pruneFk D O ↔ x ∈ N) := by
    intro x hx
    constructor
    · intro hxp
      obtain ⟨hxO, hxc⟩ := List.mem_filter.mp hxp
      have hxc : D.contains x.col = false := by simpa using hxc
      by_cases hin : x.name ∈ names N
      · obtain ⟨s, hs, hsn⟩ := List.mem_map.mp hin
        have : s = x := hnr s hs x hxO hsn
        exact this ▸ hs
      · exfalso
        apply hx
        unfold keepPlan
        rw [List.map_append]
        refine List.mem_append_right _ ?_
        rw [List.map_map]
        refine List.mem_map.mpr ⟨x, List.mem_filter.mpr ⟨hxO, ?_⟩, rfl⟩
        have : (names N).contains x.name = false := by simpa using hin
        rw [this, hxc]; rfl
    · intro hxN
      by_cases hin : x.name ∈ names O
      · obtain ⟨o, ho, hon⟩ := List.mem_map.mp hin
        have : x = o := hnr x hxN o ho hon.symm
        subst this
        refine List.mem_filter.mpr ⟨ho, ?_⟩
        have := hNcols x hxN
        simpa using this
      · exfalso
        apply hx
        unfold keepPlan
        rw [List.map_append]
        refine List.mem_append_left _ ?_
        rw [List.map_map]
        refine List.mem_map.mpr ⟨x, List.mem_filter.mpr ⟨hxN, ?_⟩, rfl⟩
        simpa using hin
  obtain ⟨R, hR, hperm⟩ := plan_correct (pruneFk D O) N hSnd hN (keepPlan D N O) hpn hfit hrest
  rw [hem] at hR
  exact ⟨R, hR, hperm⟩

end Sqlize.Abs.Idx
