/-
  Abs/FkDropDown.lean — the foreign-key clause of the down migration in the presence of dropped columns (the mirror of
  Abs/FkDrop.lean).  The down migration drops the columns `D` the up migration added; on the reference engine that removes
  the new keys on them: the new key list `N` has become `pruneFk D N`.  `MigrationForeignKeyDown` then prints DROP for the
  keys only the new side has, except those on a dropped column, and ADD CONSTRAINT for the keys only the old side has
  (`emitDownKeepSup`); a key found on both sides gets nothing.
  `emitDownKeepSup_correct`: from `pruneFk D N` the statements are well-formed at every step and give `O` up to order,
  provided no key found on both sides differs and the old keys are not on dropped columns.  An instance of `plan_correct`.
-/
import SqlizeModel.Abs.FkDrop

namespace Sqlize.Abs.Idx
open Sqlize.Spec

def emitDownKeepSup (D : List String) (N O : List FkSpec) : List (IStmt FkSpec) :=
  (N.filter (fun s => !(names O).contains s.name && !D.contains s.col)).map (fun s => IStmt.drop s.name) ++
    (O.filter (fun o => !(names N).contains o.name)).map IStmt.create

def downKeepPlan (D : List String) (N O : List FkSpec) : List (String × Act) :=
  (N.filter (fun s => !(names O).contains s.name && !D.contains s.col)).map (fun s => (s.name, Act.drop)) ++
    (O.filter (fun o => !(names N).contains o.name)).map (fun o => (o.name, Act.create))

theorem emitDownKeepSup_correct (D : List String) (N O : List FkSpec) (hN : (names N).Nodup) (hO : (names O).Nodup)
    (hnr : ∀ s ∈ N, ∀ o ∈ O, s.name = o.name → s = o) (hOcols : ∀ o ∈ O, o.col ∉ D) :
    ∃ R, execAll (pruneFk D N) (emitDownKeepSup D N O) = some R ∧ R.Perm O := by
  have hem : (downKeepPlan D N O).flatMap (planOne O) = emitDownKeepSup D N O := by
    unfold downKeepPlan emitDownKeepSup
    rw [List.flatMap_append]
    congr 1
    · rw [List.flatMap_map]
      induction (N.filter (fun s => !(names O).contains s.name && !D.contains s.col)) with
      | nil => rfl
      | cons o r ih =>
        rw [List.flatMap_cons, List.map_cons, ih]
        rfl
    · rw [List.flatMap_map]
      have : ∀ l : List FkSpec, (∀ s ∈ l, s ∈ O) →
          l.flatMap (fun s => planOne O (s.name, Act.create)) = l.map IStmt.create := by
        intro l
        induction l with
        | nil => intro _; rfl
        | cons s r ih =>
          intro hl
          rw [List.flatMap_cons, List.map_cons, ih (fun x hx => hl x (by simp [hx]))]
          have hfs : O.find? (fun y => Named.name y == s.name) = some s := find?_of_mem hO (hl s (by simp))
          simp [planOne, hfs]
      exact this _ (fun s hs => (List.mem_filter.mp hs).1)
  have hSnd : (names (pruneFk D N)).Nodup := by
    unfold pruneFk
    exact (List.filter_sublist.map _).nodup hN
  have hpn : ((downKeepPlan D N O).map (·.1)).Nodup := by
    unfold downKeepPlan
    rw [List.map_append, List.nodup_append]
    refine ⟨?_, ?_, ?_⟩
    · rw [List.map_map]
      exact (List.filter_sublist.map _).nodup hN
    · rw [List.map_map]
      exact (List.filter_sublist.map _).nodup hO
    · intro a ha b hb hab
      subst hab
      rw [List.map_map] at ha hb
      obtain ⟨s, hs, hsa⟩ := List.mem_map.mp ha
      obtain ⟨o, ho, hoa⟩ := List.mem_map.mp hb
      have h1 := (List.mem_filter.mp ho).2
      have hsa : s.name = a := hsa
      have hoa : o.name = a := hoa
      have hnot : o.name ∉ names N := by simpa using h1
      apply hnot
      rw [hoa, ← hsa]
      exact List.mem_map_of_mem (f := fun y : FkSpec => Named.name y) (List.mem_filter.mp hs).1
  have hfit : ∀ p ∈ downKeepPlan D N O, Fits (pruneFk D N) O p := by
    intro p hp
    unfold downKeepPlan at hp
    rcases List.mem_append.mp hp with h | h
    · obtain ⟨s, hs, rfl⟩ := List.mem_map.mp h
      obtain ⟨hsN, hc⟩ := List.mem_filter.mp hs
      simp only [Bool.and_eq_true, Bool.not_eq_true'] at hc
      have hnot : s.name ∉ names O := by simpa using hc.1
      refine ⟨?_, hnot⟩
      have : s ∈ pruneFk D N := List.mem_filter.mpr ⟨hsN, by rw [hc.2]; rfl⟩
      exact List.mem_map_of_mem (f := fun y : FkSpec => Named.name y) this
    · obtain ⟨o, ho, rfl⟩ := List.mem_map.mp h
      obtain ⟨hoO, hc⟩ := List.mem_filter.mp ho
      have hnot : o.name ∉ names N := by simpa using hc
      refine ⟨?_, List.mem_map_of_mem (f := fun y : FkSpec => Named.name y) hoO⟩
      intro hm
      obtain ⟨x, hx, hxn⟩ := List.mem_map.mp hm
      apply hnot
      have hxn : x.name = o.name := hxn
      rw [← hxn]
      exact List.mem_map_of_mem (f := fun y : FkSpec => Named.name y) (List.mem_filter.mp hx).1
  have hrest : ∀ x : FkSpec, (Named.name x) ∉ (downKeepPlan D N O).map (·.1) → (x ∈ pruneFk D N ↔ x ∈ O) := by
    intro x hx
    constructor
    · intro hxp
      obtain ⟨hxN, hxc⟩ := List.mem_filter.mp hxp
      have hxc : D.contains x.col = false := by simpa using hxc
      by_cases hin : x.name ∈ names O
      · obtain ⟨o, ho, hon⟩ := List.mem_map.mp hin
        have : x = o := hnr x hxN o ho hon.symm
        exact this ▸ ho
      · exfalso
        apply hx
        unfold downKeepPlan
        rw [List.map_append]
        refine List.mem_append_left _ ?_
        rw [List.map_map]
        refine List.mem_map.mpr ⟨x, List.mem_filter.mpr ⟨hxN, ?_⟩, rfl⟩
        have : (names O).contains x.name = false := by simpa using hin
        rw [this, hxc]; rfl
    · intro hxO
      by_cases hin : x.name ∈ names N
      · obtain ⟨s, hs, hsn⟩ := List.mem_map.mp hin
        have : s = x := hnr s hs x hxO hsn
        subst this
        refine List.mem_filter.mpr ⟨hs, ?_⟩
        have := hOcols s hxO
        simpa using this
      · exfalso
        apply hx
        unfold downKeepPlan
        rw [List.map_append]
        refine List.mem_append_right _ ?_
        rw [List.map_map]
        refine List.mem_map.mpr ⟨x, List.mem_filter.mpr ⟨hxO, ?_⟩, rfl⟩
        simpa using hin
  obtain ⟨R, hR, hperm⟩ := plan_correct (pruneFk D N) O hSnd hO (downKeepPlan D N O) hpn hfit hrest
  rw [hem] at hR
  exact ⟨R, hR, hperm⟩

end Sqlize.Abs.Idx
