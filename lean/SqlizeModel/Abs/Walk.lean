/-
  Abs/Walk.lean — L-walk: the column walk of `MigrationColumnUp/Down` on a clean list of tagged names.
  `M` is the merged column list with tags; `emitUp` is the walk (AFTER target = nearest preceding column that is not
  being dropped; none ⇒ FIRST); `exec` is the reference engine restricted to column names (MySQL rules).
  Main results: `emitUp_correct`, `emitDown_correct`, `emitUpIgnore_correct`.
-/
namespace Sqlize.Abs

inductive Tag | keep | add | rem
deriving DecidableEq, Repr

abbrev Name := String

inductive Stmt
  | addCol (c : Name) (after : Option Name)     -- `none` = FIRST, `some p` = AFTER p
  | appendCol (c : Name)                         -- no positional clause: the column goes to the end
  | dropCol (c : Name)
deriving Repr, DecidableEq

/-- reference engine on a column list (MySQL rules) -/
def insertAfter (p c : Name) : List Name → Option (List Name)
  | [] => none
  | x :: xs => if x = p then some (x :: c :: xs) else (insertAfter p c xs).map (x :: ·)

def exec (db : List Name) : Stmt → Option (List Name)
  | .addCol c none => if c ∈ db then none else some (c :: db)
  | .addCol c (some p) => if c ∈ db then none else insertAfter p c db
  | .appendCol c => if c ∈ db then none else some (db ++ [c])
  | .dropCol c => if c ∈ db then some (db.erase c) else none

def execAll (db : List Name) : List Stmt → Option (List Name)
  | [] => some db
  | s :: ss => (exec db s).bind (execAll · ss)

abbrev M := List (Name × Tag)

def newSide (m : M) : List Name := (m.filter (·.2 ≠ .rem)).map (·.1)
def oldSide (m : M) : List Name := (m.filter (·.2 ≠ .add)).map (·.1)

/-- emission: walks the merged list, `prev` = processed prefix (reversed not needed: we carry last non-rem name) -/
def emitUpAux (after : Option Name) : M → List Stmt
  | [] => []
  | (c, .keep) :: r => emitUpAux (some c) r
  | (c, .add) :: r => .addCol c after :: emitUpAux (some c) r
  | (c, .rem) :: r => .dropCol c :: emitUpAux after r

def emitUp (m : M) : List Stmt := emitUpAux none m

theorem insertAfter_getLast (p : List Name) (c : Name) (s : List Name) (x : Name)
    (hx : x ∉ p) : insertAfter x c (p ++ x :: s) = some (p ++ x :: c :: s) := by
  induction p with
  | nil => simp [insertAfter]
  | cons y ys ih =>
    have hne : y ≠ x := by intro h; apply hx; simp [h]
    have hx' : x ∉ ys := by intro h; apply hx; simp [h]
    simp [insertAfter, hne, ih hx']

end Sqlize.Abs

namespace Sqlize.Abs

theorem mem_oldSide {c : Name} {S : M} (h : c ∈ oldSide S) : c ∈ S.map (·.1) := by
  unfold oldSide at h
  simp only [List.mem_map, List.mem_filter] at h ⊢
  obtain ⟨a, ⟨ha, _⟩, rfl⟩ := h
  exact ⟨a, ha, rfl⟩

theorem emitUpAux_correct (S : M) : ∀ (P : List Name) (after : Option Name),
    after = P.getLast? → (P ++ S.map (·.1)).Nodup →
    execAll (P ++ oldSide S) (emitUpAux after S) = some (P ++ newSide S) := by
  induction S with
  | nil => intro P after _ _; simp [emitUpAux, execAll, oldSide, newSide]
  | cons hd r ih =>
    intro P after hafter hnd
    obtain ⟨c, t⟩ := hd
    have hndr : ((P ++ [c]) ++ r.map (·.1)).Nodup := by simpa using hnd
    have hcP : c ∉ P := by
      intro h
      have := List.nodup_append.mp hnd
      exact this.2.2 c h c (by simp) rfl
    have hcr : c ∉ r.map (·.1) := by
      have := (List.nodup_append.mp hnd).2.1
      simp only [List.map_cons, List.nodup_cons] at this
      exact this.1
    have hcold : c ∉ oldSide r := fun h => hcr (mem_oldSide h)
    cases t with
    | keep =>
      have := ih (P ++ [c]) (some c) (by simp) hndr
      simpa [emitUpAux, oldSide, newSide] using this
    | add =>
      have := ih (P ++ [c]) (some c) (by simp) hndr
      simp only [emitUpAux, execAll]
      have hstep : exec (P ++ oldSide ((c, Tag.add) :: r)) (.addCol c after) = some ((P ++ [c]) ++ oldSide r) := by
        have hold : oldSide ((c, Tag.add) :: r) = oldSide r := by simp [oldSide]
        rw [hold]
        have hnot : c ∉ P ++ oldSide r := by simp [hcP, hcold]
        rcases List.eq_nil_or_concat P with hP | ⟨P', x, hP⟩
        · subst hP; simp at hafter; subst hafter
          simp [exec, hcold]
        · subst hP
          simp at hafter; subst hafter
          have hxP' : x ∉ P' := by
            intro h
            have h1 := (List.nodup_append.mp hnd).1
            rw [List.concat_eq_append] at h1
            have h2 := List.nodup_append.mp h1
            exact h2.2.2 x h x (by simp) rfl
          simp only [exec, hnot, if_false]
          have := insertAfter_getLast P' c (oldSide r) x hxP'
          simpa using this
      rw [hstep]
      simpa [newSide] using this
    | rem =>
      have := ih P after hafter (by
        have := List.nodup_append.mp hnd
        refine List.nodup_append.mpr ⟨this.1, ?_, ?_⟩
        · have h2 := this.2.1; simp only [List.map_cons, List.nodup_cons] at h2; exact h2.2
        · intro a ha b hb; exact this.2.2 a ha b (by simp [hb]))
      simp only [emitUpAux, execAll]
      have hstep : exec (P ++ oldSide ((c, Tag.rem) :: r)) (.dropCol c) = some (P ++ oldSide r) := by
        have hold : oldSide ((c, Tag.rem) :: r) = c :: oldSide r := by simp [oldSide]
        rw [hold]
        simp only [exec, List.mem_append, List.mem_cons, true_or, or_true, if_true]
        congr 1
        rw [List.erase_append_right _ hcP]
        simp
      rw [hstep]
      simpa [newSide] using this

theorem emitUp_correct (m : M) (h : (m.map (·.1)).Nodup) :
    execAll (oldSide m) (emitUp m) = some (newSide m) := by
  have := emitUpAux_correct m [] none (by simp) (by simpa using h)
  simpa [emitUp] using this

end Sqlize.Abs

namespace Sqlize.Abs

/-- the down direction is the up direction of the flipped tagging -/
def Tag.flip : Tag → Tag
  | .keep => .keep | .add => .rem | .rem => .add

def flipM (m : M) : M := m.map (fun p => (p.1, p.2.flip))

def emitDown (m : M) : List Stmt := emitUp (flipM m)

theorem oldSide_flip (m : M) : oldSide (flipM m) = newSide m := by
  induction m with
  | nil => rfl
  | cons hd r ih =>
    obtain ⟨c, t⟩ := hd
    cases t <;> simp_all [oldSide, newSide, flipM, Tag.flip]

theorem newSide_flip (m : M) : newSide (flipM m) = oldSide m := by
  induction m with
  | nil => rfl
  | cons hd r ih =>
    obtain ⟨c, t⟩ := hd
    cases t <;> simp_all [oldSide, newSide, flipM, Tag.flip]

theorem names_flip (m : M) : (flipM m).map (·.1) = m.map (·.1) := by
  simp [flipM, List.map_map, Function.comp_def]

/-- L-walk, down direction: from the new column list the down walk restores exactly the old one -/
theorem emitDown_correct (m : M) (h : (m.map (·.1)).Nodup) :
    execAll (newSide m) (emitDown m) = some (oldSide m) := by
  have := emitUp_correct (flipM m) (by rw [names_flip]; exact h)
  rw [oldSide_flip, newSide_flip] at this
  exact this

/-- the walk under the ignore-field-order option: same statements, no positional clause -/
def emitUpIgnore : M → List Stmt
  | [] => []
  | (_, .keep) :: r => emitUpIgnore r
  | (c, .add) :: r => .appendCol c :: emitUpIgnore r
  | (c, .rem) :: r => .dropCol c :: emitUpIgnore r

def stripPos : Stmt → Stmt
  | .addCol c _ => .appendCol c
  | s => s

theorem emitUpIgnore_eq_strip (m : M) : ∀ after, emitUpIgnore m = (emitUpAux after m).map stripPos := by
  induction m with
  | nil => intro _; rfl
  | cons hd r ih =>
    intro after
    obtain ⟨c, t⟩ := hd
    cases t
    · simpa [emitUpIgnore, emitUpAux] using ih (some c)
    · simpa [emitUpIgnore, emitUpAux, stripPos] using ih (some c)
    · simpa [emitUpIgnore, emitUpAux, stripPos] using ih after

def keptSide (m : M) : List Name := (m.filter (·.2 = .keep)).map (·.1)
def addedSide (m : M) : List Name := (m.filter (·.2 = .add)).map (·.1)

theorem mem_sides {c : Name} {S : M} (h : c ∈ oldSide S ∨ c ∈ addedSide S) : c ∈ S.map (·.1) := by
  rcases h with h | h
  · exact mem_oldSide h
  · unfold addedSide at h
    simp only [List.mem_map, List.mem_filter] at h ⊢
    obtain ⟨a, ⟨ha, _⟩, rfl⟩ := h
    exact ⟨a, ha, rfl⟩

/-- with the ignore option: surviving columns keep their order, added columns are appended in model order -/
theorem emitUpIgnoreAux_correct (S : M) : ∀ (P Q : List Name),
    (P ++ S.map (·.1) ++ Q).Nodup →
    execAll (P ++ oldSide S ++ Q) (emitUpIgnore S) = some (P ++ keptSide S ++ Q ++ addedSide S) := by
  induction S with
  | nil => intro P Q _; simp [emitUpIgnore, execAll, oldSide, keptSide, addedSide]
  | cons hd r ih =>
    intro P Q hnd
    obtain ⟨c, t⟩ := hd
    have hnd' : (P ++ c :: (r.map (·.1) ++ Q)).Nodup := by simpa using hnd
    have hparts := List.nodup_append.mp hnd'
    have hcP : c ∉ P := fun h => hparts.2.2 c h c (by simp) rfl
    have hcrest : c ∉ r.map (·.1) ++ Q := (List.nodup_cons.mp hparts.2.1).1
    have hcr : c ∉ r.map (·.1) := fun h => hcrest (by simp [h])
    have hcQ : c ∉ Q := fun h => hcrest (by simp [h])
    have hcold : c ∉ oldSide r := fun h => hcr (mem_oldSide h)
    cases t with
    | keep =>
      have hnd2 : ((P ++ [c]) ++ r.map (·.1) ++ Q).Nodup := by simpa using hnd
      have := ih (P ++ [c]) Q hnd2
      simpa [emitUpIgnore, oldSide, keptSide, addedSide, List.filter_cons] using this
    | add =>
      -- the added column goes to the end: thread it through `Q`
      have hnd2 : (P ++ r.map (·.1) ++ (Q ++ [c])).Nodup := by
        have h1 : (P ++ (r.map (·.1) ++ Q)).Nodup := by
          refine List.nodup_append.mpr ⟨hparts.1, (List.nodup_cons.mp hparts.2.1).2, ?_⟩
          intro a ha b hb; exact hparts.2.2 a ha b (by simp [hb])
        have h2 : (P ++ r.map (·.1) ++ Q ++ [c]).Nodup := by
          refine List.nodup_append.mpr ⟨by simpa using h1, by simp, ?_⟩
          intro a ha b hb
          simp at hb; subst hb
          intro hab; subst hab
          simp only [List.mem_append] at ha
          rcases ha with (ha | ha) | ha
          · exact hcP ha
          · exact hcr ha
          · exact hcQ ha
        simpa using h2
      have := ih P (Q ++ [c]) hnd2
      simp only [emitUpIgnore, execAll]
      have hstep : exec (P ++ oldSide ((c, Tag.add) :: r) ++ Q) (.appendCol c) = some (P ++ oldSide r ++ (Q ++ [c])) := by
        have hold : oldSide ((c, Tag.add) :: r) = oldSide r := by simp [oldSide]
        rw [hold]
        simp [exec, hcP, hcold, hcQ]
      rw [hstep]
      simp only [Option.bind_some]
      rw [this]
      simp [keptSide, addedSide]
    | rem =>
      have hnd2 : (P ++ r.map (·.1) ++ Q).Nodup := by
        have h1 : (P ++ (r.map (·.1) ++ Q)).Nodup := by
          refine List.nodup_append.mpr ⟨hparts.1, (List.nodup_cons.mp hparts.2.1).2, ?_⟩
          intro a ha b hb; exact hparts.2.2 a ha b (by simp [hb])
        simpa using h1
      have := ih P Q hnd2
      simp only [emitUpIgnore, execAll]
      have hstep : exec (P ++ oldSide ((c, Tag.rem) :: r) ++ Q) (.dropCol c) = some (P ++ oldSide r ++ Q) := by
        have hold : oldSide ((c, Tag.rem) :: r) = c :: oldSide r := by simp [oldSide]
        rw [hold]
        have hmem : c ∈ P ++ c :: oldSide r ++ Q := by simp
        simp only [exec, hmem, if_true]
        congr 1
        have : P ++ c :: oldSide r ++ Q = P ++ (c :: (oldSide r ++ Q)) := by simp
        rw [this, List.erase_append_right _ hcP]
        simp
      rw [hstep]
      simp only [Option.bind_some]
      rw [this]
      simp [keptSide, addedSide]

theorem emitUpIgnore_correct (m : M) (h : (m.map (·.1)).Nodup) :
    execAll (oldSide m) (emitUpIgnore m) = some (keptSide m ++ addedSide m) := by
  have := emitUpIgnoreAux_correct m [] [] (by simpa using h)
  simpa using this

end Sqlize.Abs
