/-
  Abs/Merge.lean — L-merge: the second loop of `Table.Diff` (as repaired: a dropped column is inserted right after its
  old predecessor's position in the merged list) on clean name lists.
  Main result `merge_correct`: for order-compatible column lists the merged list restricts to both orders.
-/
namespace Sqlize.Abs.Merge

abbrev Name := String

/-- total insert-after: appends when `p` is missing (Go: column stays at the end) -/
def insertAfterT (p c : Name) : List Name → List Name
  | [] => [c]
  | x :: xs => if x = p then x :: c :: xs else x :: insertAfterT p c xs

/-- Table.Diff second loop (repaired rule): walk old columns in order; a column missing from the
merged list is inserted right after its old predecessor (or first). -/
def mergeAux (prev : Option Name) (M : List Name) : List Name → List Name
  | [] => M
  | o :: os =>
    if o ∈ M then mergeAux (some o) M os
    else mergeAux (some o) (match prev with
                            | none => o :: M
                            | some p => insertAfterT p o M) os

def merge (N O : List Name) : List Name := mergeAux none N O

theorem insertAfterT_split (p c : Name) (A B : List Name) (hp : p ∉ A) :
    insertAfterT p c (A ++ p :: B) = A ++ p :: c :: B := by
  induction A with
  | nil => simp [insertAfterT]
  | cons a A ih =>
    have h1 : a ≠ p := by intro h; apply hp; simp [h]
    have h2 : p ∉ A := by intro h; apply hp; simp [h]
    simp [insertAfterT, h1, ih h2]

theorem split_unique {x : Name} : ∀ {a a' b b' : List Name},
    a ++ x :: b = a' ++ x :: b' → x ∉ a → x ∉ a' → a = a' ∧ b = b'
  | [], [], b, b', h, _, _ => by simpa using h
  | [], y :: a', b, b', h, _, h2 => by
      simp at h; exfalso; apply h2; simp [h.1]
  | y :: a, [], b, b', h, h1, _ => by
      simp at h; exfalso; apply h1; simp [h.1]
  | y :: a, z :: a', b, b', h, h1, h2 => by
      simp at h
      have h1' : x ∉ a := by intro hh; apply h1; simp [hh]
      have h2' : x ∉ a' := by intro hh; apply h2; simp [hh]
      have := split_unique h.2 h1' h2'
      simp [h.1, this.1, this.2]

end Sqlize.Abs.Merge

namespace Sqlize.Abs.Merge

theorem mem_insertAfterT {p c x : Name} {M : List Name} :
    x ∈ insertAfterT p c M ↔ x = c ∨ x ∈ M := by
  induction M with
  | nil => simp [insertAfterT]
  | cons y ys ih =>
    unfold insertAfterT
    split
    · simp; constructor <;> intro h <;> rcases h with h | h | h <;> simp [h]
    · simp [ih]; constructor <;> intro h <;> rcases h with h | h | h <;> simp [h]

theorem nodup_insertAfterT {p c : Name} {M : List Name} (hM : M.Nodup) (hc : c ∉ M) :
    (insertAfterT p c M).Nodup := by
  induction M with
  | nil => simp [insertAfterT]
  | cons y ys ih =>
    have hy : y ∉ ys := (List.nodup_cons.mp hM).1
    have hys : ys.Nodup := (List.nodup_cons.mp hM).2
    have hcy : c ≠ y := by intro h; apply hc; simp [h]
    have hcys : c ∉ ys := by intro h; apply hc; simp [h]
    unfold insertAfterT
    split
    · refine List.nodup_cons.mpr ⟨?_, List.nodup_cons.mpr ⟨hcys, hys⟩⟩
      simp [hy, Ne.symm hcy]
    · refine List.nodup_cons.mpr ⟨?_, ih hys hcys⟩
      intro h
      rcases mem_insertAfterT.mp h with h | h
      · exact hcy h.symm
      · exact hy h

theorem filter_insertAfterT_neg {p c : Name} {M : List Name} (f : Name → Bool) (hf : f c = false) :
    (insertAfterT p c M).filter f = M.filter f := by
  induction M with
  | nil => simp [insertAfterT, hf]
  | cons y ys ih =>
    unfold insertAfterT
    split
    · simp [List.filter_cons, hf]
    · simp [List.filter_cons, ih]

/-- The invariant of the second loop of `Table.Diff`. `N` = new column names, `O` = old (live) column
names, `O = O₁ ++ O₂` with `O₁` already processed. -/
theorem mergeAux_inv (N O : List Name) (hO : O.Nodup) :
    ∀ (O₂ O₁ M : List Name) (prev : Option Name), O = O₁ ++ O₂ → prev = O₁.getLast? →
      M.Nodup → (∀ x ∈ M, x ∈ N ∨ x ∈ O₁) → (∀ x ∈ O₁, x ∈ M) → (∀ x ∈ N, x ∈ M) →
      M.filter (fun x => decide (x ∈ O)) = O₁ ++ O₂.filter (fun x => decide (x ∈ N)) →
      M.filter (fun x => decide (x ∈ N)) = N →
      (mergeAux prev M O₂).filter (fun x => decide (x ∈ O)) = O ∧
      (mergeAux prev M O₂).filter (fun x => decide (x ∈ N)) = N ∧
      (mergeAux prev M O₂).Nodup := by
  intro O₂
  induction O₂ with
  | nil =>
    intro O₁ M prev hsplit _ hM _ _ _ hfO hfN
    simp at hsplit hfO
    subst hsplit
    exact ⟨by simpa [mergeAux] using hfO, by simpa [mergeAux] using hfN, by simpa [mergeAux] using hM⟩
  | cons o os ih =>
    intro O₁ M prev hsplit hprev hM hsub hO₁M hNM hfO hfN
    have hsplit' : O = (O₁ ++ [o]) ++ os := by simp [hsplit]
    have hoO₁ : o ∉ O₁ := by
      intro h
      rw [hsplit] at hO
      exact (List.nodup_append.mp hO).2.2 o h o (by simp) rfl
    have hoO : o ∈ O := by simp [hsplit]
    unfold mergeAux
    by_cases hoM : o ∈ M
    · -- common column: nothing inserted
      have hoN : o ∈ N := by
        rcases hsub o hoM with h | h
        · exact h
        · exact absurd h hoO₁
      simp only [hoM, if_true]
      apply ih (O₁ ++ [o]) M (some o) hsplit' (by simp) hM
      · intro x hx; rcases hsub x hx with h | h
        · exact Or.inl h
        · exact Or.inr (by simp [h])
      · intro x hx; simp at hx; rcases hx with h | h
        · exact hO₁M x h
        · subst h; exact hoM
      · exact hNM
      · rw [hfO]; simp [hoN]
      · exact hfN
    · -- dropped column: insert after predecessor
      have hoN : o ∉ N := fun h => hoM (hNM o h)
      simp only [hoM, if_false]
      have hfO' : M.filter (fun x => decide (x ∈ O)) = O₁ ++ os.filter (fun x => decide (x ∈ N)) := by
        rw [hfO]; simp [hoN]
      -- the new merged list M'
      generalize hM' : (match prev with
                        | none => o :: M
                        | some p => insertAfterT p o M) = M'
      have hmem : ∀ x, x ∈ M' ↔ x = o ∨ x ∈ M := by
        intro x; subst hM'
        cases prev with
        | none => simp
        | some p => exact mem_insertAfterT
      have hnd : M'.Nodup := by
        subst hM'
        cases prev with
        | none => exact List.nodup_cons.mpr ⟨hoM, hM⟩
        | some p => exact nodup_insertAfterT hM hoM
      have hfN' : M'.filter (fun x => decide (x ∈ N)) = N := by
        subst hM'
        cases prev with
        | none => simp [hoN, hfN]
        | some p => rw [filter_insertAfterT_neg _ (by simp [hoN])]; exact hfN
      have hfO'' : M'.filter (fun x => decide (x ∈ O)) =
          (O₁ ++ [o]) ++ os.filter (fun x => decide (x ∈ N)) := by
        subst hM'
        cases prev with
        | none =>
          have hnil : O₁ = [] := List.getLast?_eq_none_iff.mp hprev.symm
          subst hnil
          simp [hoO] at hfO' ⊢
          exact hfO'
        | some p =>
          -- O₁ = O₁' ++ [p]
          rcases List.eq_nil_or_concat O₁ with hnil | ⟨O₁', q, hq⟩
          · subst hnil; simp at hprev
          · rw [List.concat_eq_append] at hq
            subst hq
            simp at hprev; subst hprev
            have hpM : p ∈ M := hO₁M p (by simp)
            obtain ⟨A, B, hAB, hpA⟩ := List.eq_append_cons_of_mem hpM
            subst hAB
            show List.filter (fun x => decide (x ∈ O)) (insertAfterT p o (A ++ p :: B)) = _
            rw [insertAfterT_split p o A B hpA]
            have hpO : p ∈ O := by rw [hsplit]; simp
            have hpO₁' : p ∉ O₁' := by
              intro h
              rw [hsplit] at hO
              have h1 := (List.nodup_append.mp hO).1
              exact (List.nodup_append.mp h1).2.2 p h p (by simp) rfl
            simp only [List.filter_append, List.filter_cons, hpO, hoO, decide_true, if_true] at hfO' ⊢
            have hpAf : p ∉ A.filter (fun x => decide (x ∈ O)) := fun h => hpA (List.mem_filter.mp h).1
            have hu := split_unique (by simpa using hfO') hpAf hpO₁'
            rw [hu.1, hu.2]; simp
      apply ih (O₁ ++ [o]) M' (some o) hsplit' (by simp) hnd
      · intro x hx
        rcases (hmem x).mp hx with h | h
        · subst h; exact Or.inr (by simp)
        · rcases hsub x h with h' | h'
          · exact Or.inl h'
          · exact Or.inr (by simp [h'])
      · intro x hx; simp at hx
        rcases hx with h | h
        · exact (hmem x).mpr (Or.inr (hO₁M x h))
        · subst h; exact (hmem x).mpr (Or.inl rfl)
      · intro x hx; exact (hmem x).mpr (Or.inr (hNM x hx))
      · exact hfO''
      · exact hfN'

/-- L-merge: for order-compatible column lists the merged list restricts to both orders. -/
theorem merge_correct (N O : List Name) (hN : N.Nodup) (hO : O.Nodup)
    (hcompat : N.filter (fun x => decide (x ∈ O)) = O.filter (fun x => decide (x ∈ N))) :
    (merge N O).filter (fun x => decide (x ∈ O)) = O ∧
    (merge N O).filter (fun x => decide (x ∈ N)) = N ∧ (merge N O).Nodup := by
  unfold merge
  apply mergeAux_inv N O hO O [] N none (by simp) (by simp) hN
  · intro x hx; exact Or.inl hx
  · intro x hx; simp at hx
  · intro x hx; exact hx
  · simpa using hcompat
  · apply List.filter_eq_self.mpr; intro x hx; simpa using hx

end Sqlize.Abs.Merge
