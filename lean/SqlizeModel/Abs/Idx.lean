/-
  Abs/Idx.lean — the index clause of C01 on lists of reference index records.

  The machine: a table's index list, `CREATE INDEX` (needs a fresh name, appends) and `DROP INDEX` (needs the name,
  removes it) — the reference engine's rules for these two statements on the index list of one table.
  `emit N O` is the statement sequence `Table.Diff` + `MigrationIndexUp` come to for a new list `N` and an old list
  `O`: walking `N`, a record without a namesake in `O` is created, a record whose namesake differs is dropped and
  re-created, an equal one is left alone; then every record of `O` without a namesake in `N` is dropped.

  `emit_correct`: for lists with unique names, every step of `emit N O` is well-formed from `O`, and the result is `N` up
  to order.
-/
import SqlizeModel.Spec.Exec

namespace Sqlize.Abs.Idx
open Sqlize.Spec

inductive IStmt (α : Type)
  | create (s : α)
  | drop (n : String)
  deriving DecidableEq, Repr

/-- records with a name -/
class Named (α : Type) where
  name : α → String

instance : Named IdxSpec := ⟨(·.name)⟩
instance : Named FkSpec := ⟨(·.name)⟩

variable {α : Type} [DecidableEq α] [Named α]
local notation "nm" => Named.name

abbrev names (l : List α) : List String := l.map nm

def exec (l : List α) : IStmt α → Option (List α)
  | .create s => if l.any (fun y => (nm y) == (nm s)) then none else some (l ++ [s])
  | .drop n => if l.any (fun y => (nm y) == n) then some (l.filter (fun y => (nm y) != n)) else none

def execAll (l : List α) : List (IStmt α) → Option (List α)
  | [] => some l
  | s :: ss => (exec l s).bind (execAll · ss)

def emitOne (O : List α) (s : α) : List (IStmt α) :=
  match O.find? (fun y => (nm y) == (nm s)) with
  | none => [.create s]
  | some o => if o = s then [] else [.drop (nm s), .create s]

def emit (N O : List α) : List (IStmt α) :=
  N.flatMap (emitOne O) ++ (O.filter (fun o => !(names N).contains (nm o))).map (fun o => IStmt.drop (nm o))

theorem execAll_append (l : List α) (a b : List (IStmt α)) :
    execAll l (a ++ b) = (execAll l a).bind (execAll · b) := by
  induction a generalizing l with
  | nil => rfl
  | cons s r ih =>
    simp only [List.cons_append, execAll]
    cases exec l s with
    | none => rfl
    | some l' => simp only [Option.bind_some]; exact ih l'

theorem any_name_iff (l : List α) (n : String) : l.any (fun y => (nm y) == n) = true ↔ n ∈ names l := by
  rw [List.any_eq_true]
  constructor
  · intro ⟨x, hx, he⟩
    have : (nm x) = n := by simpa using he
    exact this ▸ List.mem_map_of_mem hx
  · intro h
    obtain ⟨x, hx, he⟩ := List.mem_map.mp h
    exact ⟨x, hx, by simpa using he⟩

theorem any_name_false (l : List α) (n : String) (h : n ∉ names l) : l.any (fun y => (nm y) == n) = false := by
  cases hc : l.any (fun y => (nm y) == n) with
  | false => rfl
  | true => exact absurd ((any_name_iff l n).mp hc) h

/-- unique names: a record is determined by its name -/
theorem eq_of_name {l : List α} (h : (names l).Nodup) {a b : α} (ha : a ∈ l) (hb : b ∈ l)
    (hn : (nm a) = (nm b)) : a = b := by
  induction l with
  | nil => cases ha
  | cons x r ih =>
    rw [names, List.map_cons, List.nodup_cons] at h
    rcases List.mem_cons.mp ha with rfl | ha'
    · rcases List.mem_cons.mp hb with rfl | hb'
      · rfl
      · exact absurd (hn ▸ List.mem_map_of_mem hb') h.1
    · rcases List.mem_cons.mp hb with rfl | hb'
      · exact absurd (hn ▸ List.mem_map_of_mem ha') h.1
      · exact ih h.2 ha' hb'

theorem nodup_of_names {l : List α} (h : (names l).Nodup) : l.Nodup :=
  List.Pairwise.of_map (fun x : α => (nm x)) (fun _ _ hne he => hne (he ▸ rfl)) h

theorem find?_name {O : List α} {n : String} {o : α} (h : O.find? (fun y => (nm y) == n) = some o) :
    o ∈ O ∧ (nm o) = n :=
  ⟨List.mem_of_find?_eq_some h, by simpa using List.find?_some h⟩

/-- in a list with unique names, looking a member's name up finds it -/
theorem find?_of_mem {l : List α} (h : (names l).Nodup) {x : α} (hx : x ∈ l) :
    l.find? (fun y => (nm y) == (nm x)) = some x := by
  induction l with
  | nil => cases hx
  | cons a r ih =>
    rw [names, List.map_cons, List.nodup_cons] at h
    rw [List.find?_cons]
    rcases List.mem_cons.mp hx with rfl | hx'
    · simp
    · have : (nm a) ≠ (nm x) := fun he => h.1 (he ▸ List.mem_map_of_mem hx')
      have : ((nm a) == (nm x)) = false := by simpa using this
      rw [this]
      exact ih h.2 hx'

theorem find?_none_name {O : List α} {n : String} (h : O.find? (fun y => (nm y) == n) = none) : n ∉ names O := by
  intro hm
  obtain ⟨x, hx, he⟩ := List.mem_map.mp hm
  have := List.find?_eq_none.mp h x hx
  simp [he] at this

-- ---------------------------------------------------------------------------------------------------------------
-- phase 1: the walk over the new list

/-- `o` has a namesake in `P` that differs from it -/
def changed (P : List α) (o : α) : Bool := P.any (fun s => (nm s) == (nm o) && s != o)

/-- the index list after the walk has visited the prefix `P` of the new list -/
def inv (O P : List α) : List α :=
  O.filter (fun o => !changed P o) ++ P.filter (fun s => !O.contains s)

theorem changed_append (P : List α) (s o : α) :
    changed (P ++ [s]) o = (changed P o || (nm s == (nm o) && s != o)) := by
  simp [changed, List.any_append]

theorem mem_inv_name {O P : List α} {x : α} (h : x ∈ inv O P) : (nm x) ∈ names O ∨ (nm x) ∈ names P := by
  rcases List.mem_append.mp h with h | h
  · exact Or.inl (List.mem_map_of_mem (List.mem_filter.mp h).1)
  · exact Or.inr (List.mem_map_of_mem (List.mem_filter.mp h).1)

theorem step1 (O P : List α) (s : α) (hO : (names O).Nodup) (hs : (nm s) ∉ names P) :
    execAll (inv O P) (emitOne O s) = some (inv O (P ++ [s])) := by
  unfold emitOne
  cases hf : O.find? (fun y => (nm y) == (nm s)) with
  | none =>
    have hnO : (nm s) ∉ names O := find?_none_name hf
    have hsO : s ∉ O := fun h => hnO (List.mem_map_of_mem h)
    have hfresh : (inv O P).any (fun y => (nm y) == (nm s)) = false := by
      apply any_name_false
      intro hm
      obtain ⟨x, hx, he⟩ := List.mem_map.mp hm
      rcases mem_inv_name hx with h | h
      · exact hnO (he ▸ h)
      · exact hs (he ▸ h)
    simp only [execAll, exec, hfresh, Bool.false_eq_true, if_false, Option.bind_some]
    congr 1
    unfold inv
    rw [List.filter_append, List.append_assoc]
    congr 1
    · apply List.filter_congr
      intro o ho
      rw [changed_append]
      have : (nm s == (nm o)) = false := by
        have : (nm s) ≠ (nm o) := fun he => hnO (he ▸ List.mem_map_of_mem ho)
        simpa using this
      simp [this]
    · simp [List.filter_cons, hsO]
  | some o =>
    obtain ⟨hoO, hon⟩ := find?_name hf
    simp only
    by_cases heq : o = s
    · subst heq
      rw [if_pos rfl]
      simp only [execAll]
      congr 1
      unfold inv
      rw [List.filter_append]
      have : (!O.contains o) = false := by simpa using hoO
      simp only [List.filter_cons, this, Bool.false_eq_true, if_false, List.filter_nil, List.append_nil]
      congr 1
      apply List.filter_congr
      intro o' ho'
      rw [changed_append]
      by_cases hn : (nm o) = (nm o')
      · have := eq_of_name hO hoO ho' hn
        subst this
        simp
      · have : (nm o == (nm o')) = false := by simpa using hn
        simp [this]
    · rw [if_neg heq]
      have hsO : s ∉ O := fun h => heq (eq_of_name hO hoO h hon)
      have hnc : changed P o = false := by
        unfold changed
        rw [List.any_eq_false]
        intro x hx
        have : (nm x) ≠ (nm o) := fun he => hs (hon ▸ he ▸ List.mem_map_of_mem hx)
        simp [this]
      have hpres : (inv O P).any (fun y => (nm y) == (nm s)) = true := by
        rw [any_name_iff]
        apply List.mem_map.mpr
        refine ⟨o, ?_, hon⟩
        unfold inv
        exact List.mem_append_left _ (List.mem_filter.mpr ⟨hoO, by simp [hnc]⟩)
      have hfresh : ((inv O P).filter (fun y => (nm y) != (nm s))).any (fun y => (nm y) == (nm s)) = false := by
        rw [List.any_eq_false]
        intro x hx
        have := (List.mem_filter.mp hx).2
        simpa using this
      simp only [execAll, exec, hpres, if_true, Option.bind_some, hfresh, Bool.false_eq_true, if_false]
      congr 1
      unfold inv
      rw [List.filter_append, List.filter_append, List.filter_filter, List.append_assoc]
      congr 1
      · apply List.filter_congr
        intro o' ho'
        rw [changed_append]
        by_cases hn : (nm s) = (nm o')
        · have : o = o' := eq_of_name hO hoO ho' (hon.trans hn)
          subst this
          have h1 : (s != o) = true := by simpa using fun h => heq h.symm
          simp [hn, h1]
        · have h1 : (nm s == (nm o')) = false := by simpa using hn
          have h2 : (nm o' != (nm s)) = true := by simpa using fun h => hn h.symm
          simp [h1, h2]
      · have h1 : (P.filter (fun s => !O.contains s)).filter (fun y => (nm y) != (nm s)) = P.filter (fun s => !O.contains s) := by
          rw [List.filter_eq_self]
          intro x hx
          have : (nm x) ≠ (nm s) := fun he => hs (he ▸ List.mem_map_of_mem (List.mem_filter.mp hx).1)
          simpa using this
        rw [h1]
        simp [List.filter_cons, hsO]

theorem phase1 (O : List α) (hO : (names O).Nodup) : ∀ (Q P : List α), (names (P ++ Q)).Nodup →
    execAll (inv O P) (Q.flatMap (emitOne O)) = some (inv O (P ++ Q)) := by
  intro Q
  induction Q with
  | nil => intro P _; simp [execAll]
  | cons s Q ih =>
    intro P hnd
    have hs : (nm s) ∉ names P := by
      rw [names, List.map_append, List.nodup_append] at hnd
      intro hm
      exact hnd.2.2 (nm s) hm (nm s) (by simp) rfl
    rw [List.flatMap_cons, execAll_append, step1 O P s hO hs, Option.bind_some]
    have : P ++ s :: Q = (P ++ [s]) ++ Q := by simp
    rw [this] at hnd ⊢
    exact ih (P ++ [s]) hnd

-- ---------------------------------------------------------------------------------------------------------------
-- phase 2: the drops of the records only the old list has

theorem drops (D : List String) : ∀ (S : List α), D.Nodup → (∀ n ∈ D, n ∈ names S) →
    execAll S (D.map (IStmt.drop (α := α))) = some (S.filter (fun x => !D.contains (nm x))) := by
  induction D with
  | nil =>
    intro S _ _
    simp only [List.map_nil, execAll]
    congr 1
    symm
    rw [List.filter_eq_self]
    intro x _
    rfl
  | cons n D ih =>
    intro S hnd hin
    rw [List.nodup_cons] at hnd
    have hp : S.any (fun y => (nm y) == n) = true := (any_name_iff S n).mpr (hin n (by simp))
    simp only [List.map_cons, execAll, exec, hp, if_true, Option.bind_some]
    rw [ih (S.filter (fun y => (nm y) != n)) hnd.2]
    · congr 1
      rw [List.filter_filter]
      apply List.filter_congr
      intro x _
      by_cases hx : (nm x) = n
      · simp [hx]
      · have h1 : (nm x != n) = true := by simpa using hx
        have h2 : (nm x == n) = false := by simpa using hx
        simp only [List.contains_cons, h1, h2, Bool.true_and, Bool.false_or, Bool.and_true]
    · intro k hk
      obtain ⟨x, hx, he⟩ := List.mem_map.mp (hin k (by simp [hk]))
      refine List.mem_map.mpr ⟨x, List.mem_filter.mpr ⟨hx, ?_⟩, he⟩
      have : k ≠ n := fun h => hnd.1 (h ▸ hk)
      simpa [he] using this

-- ---------------------------------------------------------------------------------------------------------------

/-- **the index clause**: from the old list, every statement of `emit N O` is well-formed and the result is the new list
    up to order -/
theorem emit_correct (N O : List α) (hN : (names N).Nodup) (hO : (names O).Nodup) :
    ∃ R, execAll O (emit N O) = some R ∧ R.Perm N := by
  have h0 : inv O [] = O := by
    unfold inv changed
    simp
  have h1 := phase1 O hO N [] (by simpa using hN)
  rw [h0, List.nil_append] at h1
  let D := names (O.filter (fun o => !(names N).contains (nm o)))
  have hDnd : D.Nodup := by
    have : (O.filter (fun o => !(names N).contains (nm o))).Sublist O := List.filter_sublist
    exact (this.map _).nodup hO
  have hDin : ∀ n ∈ D, n ∈ names (inv O N) := by
    intro n hn
    obtain ⟨o, ho, he⟩ := List.mem_map.mp hn
    obtain ⟨hoO, hoN⟩ := List.mem_filter.mp ho
    refine List.mem_map.mpr ⟨o, ?_, he⟩
    unfold inv
    refine List.mem_append_left _ (List.mem_filter.mpr ⟨hoO, ?_⟩)
    have hnot : (nm o) ∉ names N := by simpa using hoN
    have : changed N o = false := by
      unfold changed
      rw [List.any_eq_false]
      intro x hx
      have : (nm x) ≠ (nm o) := fun h => hnot (h ▸ List.mem_map_of_mem hx)
      simp [this]
    simp [this]
  have h2 := drops D (inv O N) hDnd hDin
  refine ⟨(inv O N).filter (fun x => !D.contains (nm x)), ?_, ?_⟩
  · unfold emit
    rw [execAll_append, h1, Option.bind_some]
    have : (O.filter (fun o => !(names N).contains (nm o))).map (fun o => IStmt.drop (α := α) (nm o)) = D.map (IStmt.drop (α := α)) := by
      simp [D, List.map_map, Function.comp_def]
    rw [this]
    exact h2
  · have hNnd := nodup_of_names hN
    have hOnd := nodup_of_names hO
    have hinvnd : (inv O N).Nodup := by
      unfold inv
      rw [List.nodup_append]
      refine ⟨hOnd.sublist List.filter_sublist, hNnd.sublist List.filter_sublist, ?_⟩
      intro a ha b hb hab
      subst hab
      have h1 := (List.mem_filter.mp ha).1
      have h2 := (List.mem_filter.mp hb).2
      simp [h1] at h2
    rw [List.perm_ext_iff_of_nodup (hinvnd.sublist List.filter_sublist) hNnd]
    intro x
    have hDmem : ∀ y : α, (nm y) ∈ names N → D.contains (nm y) = false := by
      intro y hy
      cases hc : D.contains (nm y) with
      | false => rfl
      | true =>
        have : (nm y) ∈ D := by simpa using hc
        obtain ⟨o, ho, he⟩ := List.mem_map.mp this
        have := (List.mem_filter.mp ho).2
        rw [he] at this
        simp [hy] at this
    constructor
    · intro hx
      obtain ⟨hxi, hxd⟩ := List.mem_filter.mp hx
      unfold inv at hxi
      rcases List.mem_append.mp hxi with h | h
      · obtain ⟨hxO, hxc⟩ := List.mem_filter.mp h
        have hnN : (nm x) ∈ names N := by
          apply Classical.byContradiction
          intro hnot
          have : (nm x) ∈ D := List.mem_map.mpr ⟨x, List.mem_filter.mpr ⟨hxO, by simpa using hnot⟩, rfl⟩
          have : D.contains (nm x) = true := by simpa using this
          rw [this] at hxd
          cases hxd
        obtain ⟨s, hs, he⟩ := List.mem_map.mp hnN
        have hcf : changed N x = false := by simpa using hxc
        unfold changed at hcf
        rw [List.any_eq_false] at hcf
        have := hcf s hs
        simp only [he, beq_self_eq_true, Bool.true_and, bne_iff_ne, ne_eq, Decidable.not_not, Bool.not_eq_true] at this
        have hsx : s = x := by
          by_cases h' : s = x
          · exact h'
          · have : (s != x) = true := by simpa using h'
            simp_all
        exact hsx ▸ hs
      · exact (List.mem_filter.mp h).1
    · intro hx
      have hnN : (nm x) ∈ names N := List.mem_map_of_mem hx
      refine List.mem_filter.mpr ⟨?_, by rw [hDmem x hnN]; rfl⟩
      unfold inv
      by_cases hxO : x ∈ O
      · refine List.mem_append_left _ (List.mem_filter.mpr ⟨hxO, ?_⟩)
        have : changed N x = false := by
          unfold changed
          rw [List.any_eq_false]
          intro s hs
          by_cases hn : (nm s) = (nm x)
          · have := eq_of_name hN hs hx hn
            subst this
            simp
          · have : (nm s == (nm x)) = false := by simpa using hn
            simp [this]
        simp [this]
      · exact List.mem_append_right _ (List.mem_filter.mpr ⟨hx, by simpa using hxO⟩)

/-- the emission for records that are never redefined in place (foreign keys: `Table.Diff` tags a key found on both sides
    `modify`, and nothing is printed for that tag): new records are created, records only the old list has are dropped -/
def emitKeep (N O : List α) : List (IStmt α) :=
  (N.filter (fun s => !(names O).contains (nm s))).map IStmt.create ++
    (O.filter (fun o => !(names N).contains (nm o))).map (fun o => IStmt.drop (nm o))

/-- when no record found on both sides differs, that is the general emission -/
theorem emitKeep_eq (N O : List α) (hnr : ∀ s ∈ N, ∀ o ∈ O, (nm s) = (nm o) → s = o) : emitKeep N O = emit N O := by
  unfold emitKeep emit
  congr 1
  induction N with
  | nil => rfl
  | cons s r ih =>
    rw [List.flatMap_cons, ← ih (fun x hx => hnr x (by simp [hx])), List.filter_cons]
    unfold emitOne
    cases hf : O.find? (fun y => (nm y) == (nm s)) with
    | none =>
      have : (!(names O).contains (nm s)) = true := by simpa using find?_none_name hf
      rw [this]
      rfl
    | some o =>
      obtain ⟨hoO, hon⟩ := find?_name hf
      have : s = o := hnr s (by simp) o hoO hon.symm
      have hc : (!(names O).contains (nm s)) = false := by
        have : (nm s) ∈ names O := hon ▸ List.mem_map_of_mem hoO
        simpa using this
      rw [hc]
      simp [this]

theorem emitKeep_correct (N O : List α) (hN : (names N).Nodup) (hO : (names O).Nodup)
    (hnr : ∀ s ∈ N, ∀ o ∈ O, (nm s) = (nm o) → s = o) : ∃ R, execAll O (emitKeep N O) = some R ∧ R.Perm N := by
  rw [emitKeep_eq N O hnr]
  exact emit_correct N O hN hO

-- ---------------------------------------------------------------------------------------------------------------
-- the down direction: the same walk over the new list, every statement inverted

/-- what the walk prints for the down migration: a record without a namesake on the old side is dropped, one whose
    namesake differs is dropped and the *old* record re-created, an equal one is left alone; then every record only the
    old list has is created -/
def emitDownOne (O : List α) (s : α) : List (IStmt α) :=
  match O.find? (fun y => (nm y) == (nm s)) with
  | none => [.drop (nm s)]
  | some o => if o = s then [] else [.drop (nm s), .create o]

def emitDown (N O : List α) : List (IStmt α) :=
  N.flatMap (emitDownOne O) ++ (O.filter (fun o => !(names N).contains (nm o))).map IStmt.create

theorem exec_drop {S : List α} {n : String} (h : ∃ x ∈ S, (nm x) = n) :
    exec S (.drop n) = some (S.filter (fun y => (nm y) != n)) := by
  obtain ⟨x, hx, he⟩ := h
  have : S.any (fun y => (nm y) == n) = true := List.any_eq_true.mpr ⟨x, hx, by simpa using he⟩
  simp [exec, this]

theorem exec_create {S : List α} {o : α} (h : ∀ x ∈ S, (nm x) ≠ (nm o)) : exec S (.create o) = some (S ++ [o]) := by
  have : S.any (fun y => (nm y) == (nm o)) = false := by
    rw [List.any_eq_false]
    intro x hx
    simpa using h x hx
  simp [exec, this]

/-- the index list while the down walk has visited the prefix `P` of the new list: the new records of the names not yet
    visited, the old records of the names visited -/
def InvD (N O S P : List α) : Prop :=
  S.Nodup ∧ ∀ x, x ∈ S ↔ (x ∈ N ∧ (nm x) ∉ names P) ∨ (x ∈ O ∧ (nm x) ∈ names P)

theorem names_snoc (P : List α) (s : α) (n : String) : n ∈ names (P ++ [s]) ↔ n ∈ names P ∨ n = (nm s) := by
  simp [names, eq_comm]

theorem stepD (N O S P : List α) (s : α) (hN : (names N).Nodup) (hO : (names O).Nodup) (hinv : InvD N O S P)
    (hsN : s ∈ N) (hsP : (nm s) ∉ names P) :
    ∃ S', execAll S (emitDownOne O s) = some S' ∧ InvD N O S' (P ++ [s]) := by
  obtain ⟨hnd, hmem⟩ := hinv
  have hsS : s ∈ S := (hmem s).mpr (Or.inl ⟨hsN, hsP⟩)
  have hfilt : ∀ x, x ∈ S.filter (fun y => (nm y) != (nm s)) ↔ x ∈ S ∧ (nm x) ≠ (nm s) := by
    intro x; simp [List.mem_filter]
  unfold emitDownOne
  cases hf : O.find? (fun y => (nm y) == (nm s)) with
  | none =>
    have hnO : (nm s) ∉ names O := find?_none_name hf
    refine ⟨S.filter (fun y => (nm y) != (nm s)), ?_, hnd.sublist List.filter_sublist, ?_⟩
    · simp only [execAll, exec_drop ⟨s, hsS, rfl⟩, Option.bind_some]
    · intro x
      rw [hfilt, hmem, names_snoc]
      constructor
      · rintro ⟨h | h, hne⟩
        · exact Or.inl ⟨h.1, fun hc => hc.elim h.2 hne⟩
        · exact Or.inr ⟨h.1, Or.inl h.2⟩
      · rintro (h | h)
        · exact ⟨Or.inl ⟨h.1, fun hc => h.2 (Or.inl hc)⟩, fun he => h.2 (Or.inr he)⟩
        · have hxne : (nm x) ≠ (nm s) := fun he => hnO (he ▸ List.mem_map_of_mem h.1)
          rcases h.2 with h2 | h2
          · exact ⟨Or.inr ⟨h.1, h2⟩, hxne⟩
          · exact absurd h2 hxne
  | some o =>
    obtain ⟨hoO, hon⟩ := find?_name hf
    simp only
    by_cases heq : o = s
    · subst heq
      rw [if_pos rfl]
      refine ⟨S, rfl, hnd, ?_⟩
      intro x
      rw [hmem, names_snoc]
      constructor
      · rintro (h | h)
        · by_cases hxs : (nm x) = (nm o)
          · have : x = o := eq_of_name hN h.1 hsN hxs
            subst this
            exact Or.inr ⟨hoO, Or.inr rfl⟩
          · exact Or.inl ⟨h.1, fun hc => hc.elim h.2 hxs⟩
        · exact Or.inr ⟨h.1, Or.inl h.2⟩
      · rintro (h | h)
        · exact Or.inl ⟨h.1, fun hc => h.2 (Or.inl hc)⟩
        · rcases h.2 with h2 | h2
          · exact Or.inr ⟨h.1, h2⟩
          · have : x = o := eq_of_name hO h.1 hoO h2
            subst this
            exact Or.inl ⟨hsN, hsP⟩
    · rw [if_neg heq]
      have hfresh : ∀ x ∈ S.filter (fun y => (nm y) != (nm s)), (nm x) ≠ (nm o) := by
        intro x hx
        rw [hon]
        exact ((hfilt x).mp hx).2
      refine ⟨S.filter (fun y => (nm y) != (nm s)) ++ [o], ?_, ?_, ?_⟩
      · simp only [execAll, exec_drop ⟨s, hsS, rfl⟩, Option.bind_some, exec_create hfresh]
      · rw [List.nodup_append]
        refine ⟨hnd.sublist List.filter_sublist, by simp, ?_⟩
        intro a ha b hb hab
        have : b = o := by simpa using hb
        subst this
        subst hab
        exact hfresh a ha rfl
      · intro x
        rw [List.mem_append, hfilt, hmem, names_snoc]
        constructor
        · rintro (⟨h | h, hne⟩ | h)
          · exact Or.inl ⟨h.1, fun hc => hc.elim h.2 hne⟩
          · exact Or.inr ⟨h.1, Or.inl h.2⟩
          · have : x = o := by simpa using h
            subst this
            exact Or.inr ⟨hoO, Or.inr hon⟩
        · rintro (h | h)
          · exact Or.inl ⟨Or.inl ⟨h.1, fun hc => h.2 (Or.inl hc)⟩, fun he => h.2 (Or.inr he)⟩
          · rcases h.2 with h2 | h2
            · have hxne : (nm x) ≠ (nm s) := fun he => hsP (he ▸ h2)
              exact Or.inl ⟨Or.inr ⟨h.1, h2⟩, hxne⟩
            · have : x = o := eq_of_name hO h.1 hoO (h2.trans hon.symm)
              subst this
              exact Or.inr (by simp)

theorem phaseD (N O : List α) (hN : (names N).Nodup) (hO : (names O).Nodup) : ∀ (Q P S : List α),
    (∀ x ∈ Q, x ∈ N) → (names (P ++ Q)).Nodup → InvD N O S P →
    ∃ S', execAll S (Q.flatMap (emitDownOne O)) = some S' ∧ InvD N O S' (P ++ Q) := by
  intro Q
  induction Q with
  | nil => intro P S _ _ h; exact ⟨S, rfl, by simpa using h⟩
  | cons s Q ih =>
    intro P S hQ hnd hinv
    have hs : (nm s) ∉ names P := by
      rw [names, List.map_append, List.nodup_append] at hnd
      intro hm
      exact hnd.2.2 (nm s) hm (nm s) (by simp) rfl
    obtain ⟨S1, h1, hinv1⟩ := stepD N O S P s hN hO hinv (hQ s (by simp)) hs
    have : P ++ s :: Q = (P ++ [s]) ++ Q := by simp
    rw [this] at hnd ⊢
    obtain ⟨S', h2, hinv2⟩ := ih (P ++ [s]) S1 (fun x hx => hQ x (by simp [hx])) hnd hinv1
    refine ⟨S', ?_, hinv2⟩
    rw [List.flatMap_cons, execAll_append, h1, Option.bind_some]
    exact h2

theorem creates : ∀ (L S : List α), (names L).Nodup → (∀ o ∈ L, ∀ x ∈ S, (nm x) ≠ (nm o)) →
    execAll S (L.map IStmt.create) = some (S ++ L) := by
  intro L
  induction L with
  | nil => intro S _ _; simp [execAll]
  | cons o L ih =>
    intro S hnd hfr
    rw [names, List.map_cons, List.nodup_cons] at hnd
    simp only [List.map_cons, execAll, exec_create (hfr o (by simp)), Option.bind_some]
    rw [ih (S ++ [o]) hnd.2]
    · simp
    · intro o' ho' x hx
      rcases List.mem_append.mp hx with h | h
      · exact hfr o' (by simp [ho']) x h
      · have : x = o := by simpa using h
        subst this
        intro he
        exact hnd.1 (he ▸ List.mem_map_of_mem ho')

/-- **the index clause, down direction**: from the new list, every statement of `emitDown N O` is well-formed and the
    result is the old list up to order -/
theorem emitDown_correct (N O : List α) (hN : (names N).Nodup) (hO : (names O).Nodup) :
    ∃ R, execAll N (emitDown N O) = some R ∧ R.Perm O := by
  have h0 : InvD N O N [] := ⟨nodup_of_names hN, by intro x; simp [names]⟩
  obtain ⟨S, h1, hnd, hmem⟩ := phaseD N O hN hO N [] N (fun x hx => hx) (by simpa using hN) h0
  rw [List.nil_append] at hmem
  have hS : ∀ x, x ∈ S ↔ x ∈ O ∧ (nm x) ∈ names N := by
    intro x
    rw [hmem]
    constructor
    · rintro (h | h)
      · exact absurd (List.mem_map_of_mem h.1) h.2
      · exact h
    · intro h; exact Or.inr h
  let L := O.filter (fun o => !(names N).contains (nm o))
  have hLnd : (names L).Nodup := (List.filter_sublist.map _).nodup hO
  have hLfr : ∀ o ∈ L, ∀ x ∈ S, (nm x) ≠ (nm o) := by
    intro o ho x hx he
    have h1 := ((hS x).mp hx).2
    have h2 := (List.mem_filter.mp ho).2
    rw [he] at h1
    simp [h1] at h2
  refine ⟨S ++ L, ?_, ?_⟩
  · unfold emitDown
    rw [execAll_append, h1, Option.bind_some]
    exact creates L S hLnd hLfr
  · have hOnd := nodup_of_names hO
    have hnd' : (S ++ L).Nodup := by
      rw [List.nodup_append]
      refine ⟨hnd, hOnd.sublist List.filter_sublist, ?_⟩
      intro a ha b hb hab
      subst hab
      exact hLfr a hb a ha rfl
    rw [List.perm_ext_iff_of_nodup hnd' hOnd]
    intro x
    rw [List.mem_append, hS, List.mem_filter]
    constructor
    · rintro (h | h)
      · exact h.1
      · exact h.1
    · intro hx
      by_cases hn : (nm x) ∈ names N
      · exact Or.inl ⟨hx, hn⟩
      · exact Or.inr ⟨hx, by simpa using hn⟩

/-- the down emission for records never redefined in place -/
def emitDownKeep (N O : List α) : List (IStmt α) :=
  (N.filter (fun s => !(names O).contains (nm s))).map (fun s => IStmt.drop (nm s)) ++
    (O.filter (fun o => !(names N).contains (nm o))).map IStmt.create

theorem emitDownKeep_eq (N O : List α) (hnr : ∀ s ∈ N, ∀ o ∈ O, (nm s) = (nm o) → s = o) :
    emitDownKeep N O = emitDown N O := by
  unfold emitDownKeep emitDown
  congr 1
  induction N with
  | nil => rfl
  | cons s r ih =>
    rw [List.flatMap_cons, ← ih (fun x hx => hnr x (by simp [hx])), List.filter_cons]
    unfold emitDownOne
    cases hf : O.find? (fun y => (nm y) == (nm s)) with
    | none =>
      have : (!(names O).contains (nm s)) = true := by simpa using find?_none_name hf
      rw [this]
      rfl
    | some o =>
      obtain ⟨hoO, hon⟩ := find?_name hf
      have : s = o := hnr s (by simp) o hoO hon.symm
      have hc : (!(names O).contains (nm s)) = false := by
        have : (nm s) ∈ names O := hon ▸ List.mem_map_of_mem hoO
        simpa using this
      rw [hc]
      simp [this]

theorem emitDownKeep_correct (N O : List α) (hN : (names N).Nodup) (hO : (names O).Nodup)
    (hnr : ∀ s ∈ N, ∀ o ∈ O, (nm s) = (nm o) → s = o) : ∃ R, execAll N (emitDownKeep N O) = some R ∧ R.Perm O := by
  rw [emitDownKeep_eq N O hnr]
  exact emitDown_correct N O hN hO

-- ---------------------------------------------------------------------------------------------------------------
-- plans: the general form (used for the index walk in the presence of dropped columns)

/-- what a plan does with one name -/
inductive Act | drop | create | replace
  deriving DecidableEq, Repr

/-- the statements of one plan entry, the created record being the target's record of that name -/
def planOne (T : List α) (p : String × Act) : List (IStmt α) :=
  match p.2 with
  | .drop => [.drop p.1]
  | .create => match T.find? (fun y => (nm y) == p.1) with
    | some t => [.create t]
    | none => []
  | .replace => match T.find? (fun y => (nm y) == p.1) with
    | some t => [.drop p.1, .create t]
    | none => [.drop p.1]

/-- a plan entry fits the start list `S0` and the target `T` -/
def Fits (S0 T : List α) (p : String × Act) : Prop :=
  match p.2 with
  | .drop => p.1 ∈ names S0 ∧ p.1 ∉ names T
  | .create => p.1 ∉ names S0 ∧ p.1 ∈ names T
  | .replace => p.1 ∈ names S0 ∧ p.1 ∈ names T

/-- the list while the names `Q` have been handled: the start records of the other names, the target records of these -/
def InvP (S0 T S : List α) (Q : List String) : Prop :=
  S.Nodup ∧ ∀ x, x ∈ S ↔ (x ∈ S0 ∧ (nm x) ∉ Q) ∨ (x ∈ T ∧ (nm x) ∈ Q)

theorem stepP (S0 T S : List α) (Q : List String) (p : String × Act) (hT : (names T).Nodup)
    (hinv : InvP S0 T S Q) (hq : p.1 ∉ Q) (hfit : Fits S0 T p) :
    ∃ S', execAll S (planOne T p) = some S' ∧ InvP S0 T S' (Q ++ [p.1]) := by
  obtain ⟨n, a⟩ := p
  obtain ⟨hnd, hmem⟩ := hinv
  simp only at hq
  have hfilt : ∀ x, x ∈ S.filter (fun y => (nm y) != n) ↔ x ∈ S ∧ (nm x) ≠ n := by
    intro x; simp [List.mem_filter]
  have hsn : ∀ k, k ∈ Q ++ [n] ↔ k ∈ Q ∨ k = n := by intro k; simp
  -- a start record of that name is still there
  have hpresent : n ∈ names S0 → ∃ x ∈ S, (nm x) = n := by
    intro h
    obtain ⟨x, hx, he⟩ := List.mem_map.mp h
    exact ⟨x, (hmem x).mpr (Or.inl ⟨hx, by rw [he]; exact hq⟩), he⟩
  -- the target record of that name can be created once no start record of that name is left
  have hcreate : ∀ (S1 : List α) (t : α), t ∈ T → (nm t) = n → S1.Nodup →
      (∀ x, x ∈ S1 ↔ ((x ∈ S0 ∧ (nm x) ∉ Q) ∨ (x ∈ T ∧ (nm x) ∈ Q)) ∧ (nm x) ≠ n) →
      exec S1 (.create t) = some (S1 ++ [t]) ∧ InvP S0 T (S1 ++ [t]) (Q ++ [n]) := by
    intro S1 t htT htn hnd1 hm1
    have hfresh : ∀ x ∈ S1, (nm x) ≠ (nm t) := by
      intro x hx; rw [htn]; exact ((hm1 x).mp hx).2
    refine ⟨exec_create hfresh, ?_, ?_⟩
    · rw [List.nodup_append]
      refine ⟨hnd1, by simp, ?_⟩
      intro a ha b hb hab
      have : b = t := by simpa using hb
      subst this; subst hab
      exact hfresh a ha rfl
    · intro x
      rw [List.mem_append, hm1, hsn]
      constructor
      · rintro (⟨h | h, hne⟩ | h)
        · exact Or.inl ⟨h.1, fun hc => hc.elim h.2 hne⟩
        · exact Or.inr ⟨h.1, Or.inl h.2⟩
        · have : x = t := by simpa using h
          subst this
          exact Or.inr ⟨htT, Or.inr htn⟩
      · rintro (h | h)
        · exact Or.inl ⟨Or.inl ⟨h.1, fun hc => h.2 (Or.inl hc)⟩, fun he => h.2 (Or.inr he)⟩
        · rcases h.2 with h2 | h2
          · exact Or.inl ⟨Or.inr ⟨h.1, h2⟩, fun he => hq (he ▸ h2)⟩
          · have : x = t := eq_of_name hT h.1 htT (h2.trans htn.symm)
            subst this
            exact Or.inr (by simp)
  cases a with
  | drop =>
    obtain ⟨h1, h2⟩ : n ∈ names S0 ∧ n ∉ names T := hfit
    refine ⟨S.filter (fun y => (nm y) != n), ?_, hnd.sublist List.filter_sublist, ?_⟩
    · simp only [planOne, execAll, exec_drop (hpresent h1), Option.bind_some]
    · intro x
      rw [hfilt, hmem, hsn]
      constructor
      · rintro ⟨h | h, hne⟩
        · exact Or.inl ⟨h.1, fun hc => hc.elim h.2 hne⟩
        · exact Or.inr ⟨h.1, Or.inl h.2⟩
      · rintro (h | h)
        · exact ⟨Or.inl ⟨h.1, fun hc => h.2 (Or.inl hc)⟩, fun he => h.2 (Or.inr he)⟩
        · have hxne : (nm x) ≠ n := fun he => h2 (he ▸ List.mem_map_of_mem h.1)
          rcases h.2 with h3 | h3
          · exact ⟨Or.inr ⟨h.1, h3⟩, hxne⟩
          · exact absurd h3 hxne
  | create =>
    obtain ⟨h1, h2⟩ : n ∉ names S0 ∧ n ∈ names T := hfit
    obtain ⟨t, htT, htn⟩ := List.mem_map.mp h2
    have hfind : T.find? (fun y => (nm y) == n) = some t := by
      rw [← htn]; exact find?_of_mem hT htT
    have hm1 : ∀ x, x ∈ S ↔ ((x ∈ S0 ∧ (nm x) ∉ Q) ∨ (x ∈ T ∧ (nm x) ∈ Q)) ∧ (nm x) ≠ n := by
      intro x
      rw [hmem]
      constructor
      · intro h
        refine ⟨h, ?_⟩
        rcases h with h | h
        · exact fun he => h1 (he ▸ List.mem_map_of_mem h.1)
        · exact fun he => hq (he ▸ h.2)
      · exact fun h => h.1
    obtain ⟨e, hi⟩ := hcreate S t htT htn hnd hm1
    exact ⟨S ++ [t], by simp only [planOne, hfind, execAll, e, Option.bind_some], hi⟩
  | replace =>
    obtain ⟨h1, h2⟩ : n ∈ names S0 ∧ n ∈ names T := hfit
    obtain ⟨t, htT, htn⟩ := List.mem_map.mp h2
    have hfind : T.find? (fun y => (nm y) == n) = some t := by
      rw [← htn]; exact find?_of_mem hT htT
    have hm1 : ∀ x, x ∈ S.filter (fun y => (nm y) != n) ↔
        ((x ∈ S0 ∧ (nm x) ∉ Q) ∨ (x ∈ T ∧ (nm x) ∈ Q)) ∧ (nm x) ≠ n := by
      intro x; rw [hfilt, hmem]
    obtain ⟨e, hi⟩ := hcreate _ t htT htn (hnd.sublist List.filter_sublist) hm1
    exact ⟨_, by simp only [planOne, hfind, execAll, exec_drop (hpresent h1), Option.bind_some, e], hi⟩

/-- **plans are correct**: a plan whose entries have pairwise different names and fit, and that leaves only names alone
    whose records agree on both sides, is well-formed at every step from the start list and ends in the target up to order -/
theorem plan_correct (S0 T : List α) (hS : (names S0).Nodup) (hT : (names T).Nodup) (pl : List (String × Act))
    (hpn : (pl.map (·.1)).Nodup) (hfit : ∀ p ∈ pl, Fits S0 T p)
    (hrest : ∀ x, (nm x) ∉ pl.map (·.1) → (x ∈ S0 ↔ x ∈ T)) :
    ∃ R, execAll S0 (pl.flatMap (planOne T)) = some R ∧ R.Perm T := by
  have key : ∀ (rest : List (String × Act)) (Q : List String) (S : List α), (Q ++ rest.map (·.1)).Nodup →
      (∀ p ∈ rest, Fits S0 T p) → InvP S0 T S Q →
      ∃ S', execAll S (rest.flatMap (planOne T)) = some S' ∧ InvP S0 T S' (Q ++ rest.map (·.1)) := by
    intro rest
    induction rest with
    | nil => intro Q S _ _ h; exact ⟨S, rfl, by simpa using h⟩
    | cons p rest ih =>
      intro Q S hnd hf hinv
      have hq : p.1 ∉ Q := by
        rw [List.nodup_append] at hnd
        intro hm
        exact hnd.2.2 p.1 hm p.1 (by simp) rfl
      obtain ⟨S1, h1, hinv1⟩ := stepP S0 T S Q p hT hinv hq (hf p (by simp))
      have he : Q ++ (p :: rest).map (·.1) = (Q ++ [p.1]) ++ rest.map (·.1) := by simp
      rw [he] at hnd ⊢
      obtain ⟨S', h2, hinv2⟩ := ih (Q ++ [p.1]) S1 hnd (fun x hx => hf x (by simp [hx])) hinv1
      refine ⟨S', ?_, hinv2⟩
      rw [List.flatMap_cons, execAll_append, h1, Option.bind_some]
      exact h2
  have h0 : InvP S0 T S0 [] := ⟨nodup_of_names hS, by intro x; simp⟩
  obtain ⟨R, hR, hnd, hmem⟩ := key pl [] S0 (by simpa using hpn) hfit h0
  refine ⟨R, hR, ?_⟩
  rw [List.perm_ext_iff_of_nodup hnd (nodup_of_names hT)]
  intro x
  rw [hmem, List.nil_append]
  constructor
  · rintro (h | h)
    · exact (hrest x h.2).mp h.1
    · exact h.1
  · intro hx
    by_cases hn : (nm x) ∈ pl.map (·.1)
    · exact Or.inr ⟨hx, hn⟩
    · exact Or.inl ⟨(hrest x hn).mpr hx, hn⟩

-- ---------------------------------------------------------------------------------------------------------------
-- up, then down

theorem any_perm {l l' : List α} (h : l.Perm l') (p : α → Bool) : l.any p = l'.any p := by
  cases hc : l'.any p with
  | true =>
    obtain ⟨x, hx, hp⟩ := List.any_eq_true.mp hc
    exact List.any_eq_true.mpr ⟨x, h.mem_iff.mpr hx, hp⟩
  | false =>
    rw [List.any_eq_false] at hc ⊢
    exact fun x hx => hc x (h.mem_iff.mp hx)

/-- the machine does not see the order of the list -/
theorem exec_perm {l l' : List α} (h : l.Perm l') (st : IStmt α) {r : List α} (he : exec l st = some r) :
    ∃ r', exec l' st = some r' ∧ r.Perm r' := by
  cases st with
  | create s =>
    simp only [exec] at he ⊢
    rw [← any_perm h]
    split at he
    · cases he
    · rename_i hc
      rw [if_neg hc]
      exact ⟨_, rfl, (Option.some.inj he) ▸ h.append_right [s]⟩
  | drop n =>
    simp only [exec] at he ⊢
    rw [← any_perm h]
    split at he
    · rename_i hc
      rw [if_pos hc]
      exact ⟨_, rfl, (Option.some.inj he) ▸ h.filter _⟩
    · cases he

theorem execAll_perm : ∀ (sts : List (IStmt α)) {l l' r : List α}, l.Perm l' → execAll l sts = some r →
    ∃ r', execAll l' sts = some r' ∧ r.Perm r' := by
  intro sts
  induction sts with
  | nil => intro l l' r h he; exact ⟨l', rfl, (Option.some.inj he) ▸ h⟩
  | cons st rest ih =>
    intro l l' r h he
    unfold execAll at he ⊢
    cases h1 : exec l st with
    | none => rw [h1] at he; cases he
    | some l1 =>
      rw [h1] at he
      obtain ⟨l1', h1', hp1⟩ := exec_perm h st h1
      rw [h1']
      exact ih hp1 he

/-- **the down emission undoes the up emission**: from the old list, up and then down is well-formed at every step and
    ends in the old list up to order -/
theorem up_then_down (N O : List α) (hN : (names N).Nodup) (hO : (names O).Nodup) :
    ∃ R R', execAll O (emit N O) = some R ∧ execAll R (emitDown N O) = some R' ∧ R'.Perm O := by
  obtain ⟨R, hR, hRN⟩ := emit_correct N O hN hO
  obtain ⟨D, hD, hDO⟩ := emitDown_correct N O hN hO
  obtain ⟨R', hR', hp⟩ := execAll_perm (emitDown N O) hRN.symm hD
  exact ⟨R, R', hR, hR', hp.symm.trans hDO⟩

theorem up_then_down_keep (N O : List α) (hN : (names N).Nodup) (hO : (names O).Nodup)
    (hnr : ∀ s ∈ N, ∀ o ∈ O, (nm s) = (nm o) → s = o) :
    ∃ R R', execAll O (emitKeep N O) = some R ∧ execAll R (emitDownKeep N O) = some R' ∧ R'.Perm O := by
  rw [emitKeep_eq N O hnr, emitDownKeep_eq N O hnr]
  exact up_then_down N O hN hO

-- the statements are non-trivial and the hypotheses satisfiable
example : emit (α := IdxSpec) [⟨"a", ["x"], false, "BTREE"⟩, ⟨"b", ["y"], true, "BTREE"⟩, ⟨"n", ["z"], false, "HASH"⟩]
              [⟨"b", ["x", "y"], true, "BTREE"⟩, ⟨"a", ["x"], false, "BTREE"⟩, ⟨"old", ["x"], false, "BTREE"⟩] =
    [.drop "b", .create ⟨"b", ["y"], true, "BTREE"⟩, .create ⟨"n", ["z"], false, "HASH"⟩, .drop "old"] := by decide

end Sqlize.Abs.Idx
