/-
  Abs/IdxDropDown.lean — the index clause of C02 in the presence of dropped columns (the mirror of Abs/IdxDrop.lean).

  The down migration drops the columns `D` the up migration added; on the reference engine that strips them from the
  *new* index list `N`, which becomes `prune D N`.  `MigrationIndexDown` then prints the same statements as without
  dropped columns, except that the DROP of a new-only index is suppressed when all its columns are among the dropped
  ones (`emitDownSup`).

  `emitDownSup_correct`: from `prune D N`, every statement of `emitDownSup D N O` is well-formed and the result is `O`
  up to order — provided the old indexes do not mention the dropped columns, the new ones are not empty, and no index
  redefined under its name has lost all its *new* columns (the recorded finding `index-redefined-old-columns-dropped`
  read in the down direction).  An instance of `Abs.Idx.plan_correct`.
-/
import SqlizeModel.Abs.IdxDrop

namespace Sqlize.Abs.Idx
open Sqlize.Spec

def emitDownSupOne (D : List String) (O : List IdxSpec) (s : IdxSpec) : List (IStmt IdxSpec) :=
  match O.find? (fun y => y.name == s.name) with
  | none => if suppressed D s then [] else [.drop s.name]
  | some o => if o = s then [] else [.drop s.name, .create o]

def emitDownSup (D : List String) (N O : List IdxSpec) : List (IStmt IdxSpec) :=
  N.flatMap (emitDownSupOne D O) ++ (O.filter (fun o => !(names N).contains o.name)).map IStmt.create

/-- without dropped columns this is the plain down emission -/
theorem emitDownSup_nil (N O : List IdxSpec) (hne : ∀ s ∈ N, s.cols ≠ []) : emitDownSup [] N O = emitDown N O := by
  unfold emitDownSup emitDown
  congr 1
  have : ∀ l : List IdxSpec, (∀ s ∈ l, s.cols ≠ []) → l.flatMap (emitDownSupOne [] O) = l.flatMap (emitDownOne O) := by
    intro l
    induction l with
    | nil => intro _; rfl
    | cons s r ih =>
      intro h
      rw [List.flatMap_cons, List.flatMap_cons, ih (fun x hx => h x (by simp [hx]))]
      congr 1
      unfold emitDownSupOne emitDownOne
      have hfe : O.find? (fun y => Named.name y == Named.name s) = O.find? (fun y => y.name == s.name) := rfl
      rw [hfe]
      cases O.find? (fun y => y.name == s.name) with
      | some o => rfl
      | none =>
        have hs : suppressed [] s = false := by
          unfold suppressed
          cases hc : s.cols with
          | nil => exact absurd hc (h s (by simp))
          | cons a r => simp
        simp only [hs]
        rfl
  exact this N hne

/-- the plan behind `emitDownSup` -/
def downPlanOne (D : List String) (O : List IdxSpec) (s : IdxSpec) : List (String × Act) :=
  match O.find? (fun y => y.name == s.name) with
  | none => if suppressed D s then [] else [(s.name, .drop)]
  | some o => if o = s then [] else [(s.name, .replace)]

def downPlan (D : List String) (N O : List IdxSpec) : List (String × Act) :=
  N.flatMap (downPlanOne D O) ++ (O.filter (fun o => !(names N).contains o.name)).map (fun o => (o.name, Act.create))

theorem downPlanOne_name (D : List String) (O : List IdxSpec) (s : IdxSpec) (p : String × Act)
    (hp : p ∈ downPlanOne D O s) : p.1 = s.name := by
  unfold downPlanOne at hp
  split at hp
  · split at hp
    · cases hp
    · simp at hp; rw [hp]
  · split at hp
    · cases hp
    · simp at hp; rw [hp]

/-- **the index clause of the down migration with dropped columns** -/
theorem emitDownSup_correct (D : List String) (N O : List IdxSpec) (hN : (names N).Nodup) (hO : (names O).Nodup)
    (hOcols : ∀ o ∈ O, ∀ c ∈ o.cols, c ∉ D) (hNne : ∀ s ∈ N, s.cols ≠ [])
    (hredef : ∀ s ∈ N, ∀ o ∈ O, o.name = s.name → o ≠ s → ∃ c ∈ s.cols, c ∉ D) :
    ∃ R, execAll (prune D N) (emitDownSup D N O) = some R ∧ R.Perm O := by
  -- the emission is the plan's
  have hem : (downPlan D N O).flatMap (planOne O) = emitDownSup D N O := by
    unfold downPlan emitDownSup
    rw [List.flatMap_append]
    congr 1
    · have : ∀ l : List IdxSpec,
          (l.flatMap (downPlanOne D O)).flatMap (planOne O) = l.flatMap (emitDownSupOne D O) := by
        intro l
        induction l with
        | nil => rfl
        | cons s r ih =>
          rw [List.flatMap_cons, List.flatMap_append, List.flatMap_cons, ih]
          congr 1
          unfold downPlanOne emitDownSupOne
          cases hf : O.find? (fun y => y.name == s.name) with
          | none =>
            simp only
            split
            · rfl
            · simp [planOne]
          | some o =>
            simp only
            split
            · rfl
            · have hf' : O.find? (fun y => Named.name y == s.name) = some o := hf
              simp [planOne, hf']
      exact this N
    · rw [List.flatMap_map]
      have : ∀ l : List IdxSpec, (∀ o ∈ l, o ∈ O) →
          l.flatMap (fun o => planOne O (o.name, Act.create)) = l.map IStmt.create := by
        intro l
        induction l with
        | nil => intro _; rfl
        | cons o r ih =>
          intro hl
          rw [List.flatMap_cons, List.map_cons, ih (fun x hx => hl x (by simp [hx]))]
          have hfo : O.find? (fun y => Named.name y == o.name) = some o := find?_of_mem hO (hl o (by simp))
          simp [planOne, hfo]
      exact this _ (fun o ho => (List.mem_filter.mp ho).1)
  -- names of the plan
  have hplN : ∀ n, n ∈ (N.flatMap (downPlanOne D O)).map (·.1) → n ∈ names N := by
    intro n hn
    obtain ⟨p, hp, rfl⟩ := List.mem_map.mp hn
    obtain ⟨s, hs, hps⟩ := List.mem_flatMap.mp hp
    rw [downPlanOne_name D O s p hps]
    exact List.mem_map_of_mem (f := fun y : IdxSpec => Named.name y) hs
  have hnd1 : ((N.flatMap (downPlanOne D O)).map (·.1)).Nodup := by
    have : ∀ l : List IdxSpec, (names l).Nodup → ((l.flatMap (downPlanOne D O)).map (·.1)).Nodup := by
      intro l
      induction l with
      | nil => intro _; simp
      | cons s r ih =>
        intro hnd
        rw [names, List.map_cons, List.nodup_cons] at hnd
        rw [List.flatMap_cons, List.map_append, List.nodup_append]
        refine ⟨?_, ih hnd.2, ?_⟩
        · unfold downPlanOne
          split
          · split <;> simp
          · split <;> simp
        · intro a ha b hb hab
          subst hab
          have ha' : a = s.name := by
            obtain ⟨p, hp, rfl⟩ := List.mem_map.mp ha
            exact downPlanOne_name D O s p hp
          obtain ⟨p, hp, hpe⟩ := List.mem_map.mp hb
          obtain ⟨s', hs', hps⟩ := List.mem_flatMap.mp hp
          have := downPlanOne_name D O s' p hps
          apply hnd.1
          show s.name ∈ _
          rw [← ha', ← hpe, this]
          exact List.mem_map_of_mem (f := fun y : IdxSpec => Named.name y) hs'
    exact this N hN
  have hpn : ((downPlan D N O).map (·.1)).Nodup := by
    unfold downPlan
    rw [List.map_append, List.nodup_append]
    refine ⟨hnd1, ?_, ?_⟩
    · rw [List.map_map]
      exact (List.filter_sublist.map _).nodup hO
    · intro a ha b hb hab
      subst hab
      have h1 := hplN a ha
      rw [List.map_map] at hb
      obtain ⟨o, ho, he⟩ := List.mem_map.mp hb
      have := (List.mem_filter.mp ho).2
      have hnot : o.name ∉ names N := by simpa using this
      have he' : o.name = a := he
      exact hnot (he' ▸ h1)
  -- every entry fits
  have hfit : ∀ p ∈ downPlan D N O, Fits (prune D N) O p := by
    intro p hp
    unfold downPlan at hp
    rcases List.mem_append.mp hp with h | h
    · obtain ⟨s, hs, hps⟩ := List.mem_flatMap.mp h
      unfold downPlanOne at hps
      cases hf : O.find? (fun y => y.name == s.name) with
      | none =>
        rw [hf] at hps
        simp only at hps
        cases hsup : suppressed D s with
        | true => rw [hsup] at hps; simp at hps
        | false =>
          rw [hsup] at hps
          have : p = (s.name, Act.drop) := by simpa using hps
          subst this
          refine ⟨?_, find?_none_name (α := IdxSpec) hf⟩
          have hsurv := not_suppressed_survives D s (hNne s hs) hsup
          have : stripD D s ∈ prune D N := mem_prune.mpr ⟨s, hs, rfl, hsurv⟩
          exact (List.mem_map_of_mem (f := fun y : IdxSpec => Named.name y) this : (stripD D s).name ∈ names (prune D N))
      | some o =>
        rw [hf] at hps
        simp only at hps
        obtain ⟨hoO, hon⟩ := find?_name (α := IdxSpec) hf
        split at hps
        · cases hps
        · rename_i hne
          have : p = (s.name, Act.replace) := by simpa using hps
          subst this
          refine ⟨?_, ?_⟩
          · obtain ⟨c, hc, hcD⟩ := hredef s hs o hoO hon hne
            have hsurv : (stripD D s).cols ≠ [] := by
              intro he
              have : c ∈ (stripD D s).cols := List.mem_filter.mpr ⟨hc, by simpa using hcD⟩
              rw [he] at this
              cases this
            have : stripD D s ∈ prune D N := mem_prune.mpr ⟨s, hs, rfl, hsurv⟩
            exact (List.mem_map_of_mem (f := fun y : IdxSpec => Named.name y) this : (stripD D s).name ∈ names (prune D N))
          · have h2 := List.mem_map_of_mem (f := fun y : IdxSpec => Named.name y) hoO
            rw [show Named.name o = s.name from hon] at h2
            exact h2
    · obtain ⟨o, ho, rfl⟩ := List.mem_map.mp h
      obtain ⟨hoO, hc⟩ := List.mem_filter.mp ho
      have hnot : o.name ∉ names N := by simpa using hc
      exact ⟨fun hm => hnot (names_prune_sub D N hm), List.mem_map_of_mem (f := fun y : IdxSpec => Named.name y) hoO⟩
  -- names the plan leaves alone carry the same record on both sides
  have hrest : ∀ x : IdxSpec, (Named.name x) ∉ (downPlan D N O).map (·.1) → (x ∈ prune D N ↔ x ∈ O) := by
    intro x hx
    have hx1 : x.name ∉ (N.flatMap (downPlanOne D O)).map (·.1) := by
      intro h; apply hx; unfold downPlan; rw [List.map_append]; exact List.mem_append_left _ h
    have hx2 : ∀ o ∈ O, o.name = x.name → o.name ∈ names N := by
      intro o ho hn
      cases hc : (names N).contains o.name with
      | true => simpa using hc
      | false =>
        exfalso
        apply hx
        unfold downPlan
        rw [List.map_append]
        refine List.mem_append_right _ ?_
        rw [List.map_map]
        exact List.mem_map.mpr ⟨o, List.mem_filter.mpr ⟨ho, by rw [hc]; rfl⟩, hn⟩
    -- a new record of that name is its own old namesake, or is new-only and vanishes with its columns
    have hsame : ∀ s ∈ N, s.name = x.name → s ∈ O ∨ (s.name ∉ names O ∧ suppressed D s = true) := by
      intro s hs hn
      cases hf : O.find? (fun y => y.name == s.name) with
      | none =>
        cases hsup : suppressed D s with
        | true => exact Or.inr ⟨find?_none_name (α := IdxSpec) hf, rfl⟩
        | false =>
          exfalso
          apply hx1
          refine List.mem_map.mpr ⟨(s.name, Act.drop), List.mem_flatMap.mpr ⟨s, hs, ?_⟩, hn⟩
          unfold downPlanOne; rw [hf]; simp [hsup]
      | some o =>
        obtain ⟨hoO, hon⟩ := find?_name (α := IdxSpec) hf
        by_cases he : o = s
        · exact Or.inl (he ▸ hoO)
        · exfalso
          apply hx1
          refine List.mem_map.mpr ⟨(s.name, Act.replace), List.mem_flatMap.mpr ⟨s, hs, ?_⟩, hn⟩
          unfold downPlanOne; rw [hf]; simp [he]
    constructor
    · intro hxp
      obtain ⟨s, hsN, rfl, hne⟩ := mem_prune.mp hxp
      rcases hsame s hsN rfl with hsO | ⟨_, hsup⟩
      · rw [stripD_id D s (hOcols s hsO)]
        exact hsO
      · exact absurd (suppressed_gone D s hsup) hne
    · intro hxO
      obtain ⟨s, hs, hsn⟩ := List.mem_map.mp (hx2 x hxO rfl)
      rcases hsame s hs hsn with hsO | ⟨hnot, _⟩
      · have : s = x := eq_of_name (α := IdxSpec) hO hsO hxO hsn
        subst this
        exact mem_prune.mpr ⟨s, hs, (stripD_id D s (hOcols s hxO)).symm, hNne s hs⟩
      · exfalso
        apply hnot
        have := List.mem_map_of_mem (f := fun y : IdxSpec => Named.name y) hxO
        have hsn' : s.name = x.name := hsn
        rw [hsn']
        exact this
  obtain ⟨R, hR, hperm⟩ := plan_correct (prune D N) O (names_prune_nodup D N hN) hO (downPlan D N O) hpn hfit hrest
  rw [hem] at hR
  exact ⟨R, hR, hperm⟩

end Sqlize.Abs.Idx
