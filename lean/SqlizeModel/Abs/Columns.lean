/-
  Abs/Columns.lean — L-merge ∘ L-walk: the column part of C01/C02/C13 on clean name lists.
  For column-name lists `O` (old) and `N` (new), duplicate-free and order-compatible, the merged and tagged list that
  `Table.Diff` builds, walked by `MigrationColumnUp` / `MigrationColumnDown`, turns `O` into exactly `N` and back,
  well-formed at every step (`execAll … = some …`), for lists of any length.
-/
import SqlizeModel.Abs.Walk
import SqlizeModel.Abs.Merge

namespace Sqlize.Abs
open Merge

theorem mem_mergeAux (O₂ : List Name) : ∀ (prev : Option Name) (M : List Name) (x : Name),
    x ∈ mergeAux prev M O₂ → x ∈ M ∨ x ∈ O₂ := by
  induction O₂ with
  | nil => intro prev M x h; exact Or.inl (by simpa [mergeAux] using h)
  | cons o os ih =>
    intro prev M x h
    unfold mergeAux at h
    split at h
    · rcases ih _ _ _ h with h | h
      · exact Or.inl h
      · exact Or.inr (by simp [h])
    · rcases ih _ _ _ h with h | h
      · cases prev with
        | none =>
          simp at h
          rcases h with rfl | h
          · exact Or.inr (by simp)
          · exact Or.inl h
        | some p =>
          rcases mem_insertAfterT.mp h with rfl | h
          · exact Or.inr (by simp)
          · exact Or.inl h
      · exact Or.inr (by simp [h])

theorem mem_merge {N O : List Name} {x : Name} (h : x ∈ merge N O) : x ∈ N ∨ x ∈ O :=
  mem_mergeAux O none N x h

/-- the tag `Table.Diff` leaves on a column of the merged list -/
def tagOf (N O : List Name) (c : Name) : Tag :=
  if c ∈ N then (if c ∈ O then .keep else .add) else .rem

def tagged (N O : List Name) : M := (merge N O).map (fun c => (c, tagOf N O c))

theorem tagged_names (N O : List Name) : (tagged N O).map (·.1) = merge N O := by
  simp [tagged, List.map_map, Function.comp_def]

theorem filter_map_tag (N O L : List Name) (hL : ∀ x ∈ L, x ∈ N ∨ x ∈ O) :
    ((L.map (fun c => (c, tagOf N O c))).filter (fun p => decide (p.2 ≠ Tag.add))).map (·.1) = L.filter (fun x => decide (x ∈ O)) ∧
    ((L.map (fun c => (c, tagOf N O c))).filter (fun p => decide (p.2 ≠ Tag.rem))).map (·.1) = L.filter (fun x => decide (x ∈ N)) ∧
    ((L.map (fun c => (c, tagOf N O c))).filter (fun p => decide (p.2 = Tag.keep))).map (·.1) = L.filter (fun x => decide (x ∈ N) && decide (x ∈ O)) ∧
    ((L.map (fun c => (c, tagOf N O c))).filter (fun p => decide (p.2 = Tag.add))).map (·.1) = L.filter (fun x => decide (x ∈ N) && !decide (x ∈ O)) := by
  induction L with
  | nil => simp
  | cons c r ih =>
    have hr : ∀ x ∈ r, x ∈ N ∨ x ∈ O := fun x hx => hL x (by simp [hx])
    obtain ⟨i1, i2, i3, i4⟩ := ih hr
    have hc := hL c (by simp)
    simp only [ne_eq, decide_not] at i1 i2 ⊢
    by_cases hN : c ∈ N <;> by_cases hO : c ∈ O
    · have ht : tagOf N O c = Tag.keep := by simp [tagOf, hN, hO]
      simp only [List.map_cons, List.filter_cons, ht]
      simp [hN, hO, i1, i2, i3, i4]
    · have ht : tagOf N O c = Tag.add := by simp [tagOf, hN, hO]
      simp only [List.map_cons, List.filter_cons, ht]
      simp [hN, hO, i1, i2, i3, i4]
    · have ht : tagOf N O c = Tag.rem := by simp [tagOf, hN]
      simp only [List.map_cons, List.filter_cons, ht]
      simp [hN, hO, i1, i2, i3, i4]
    · rcases hc with h | h
      · exact absurd h hN
      · exact absurd h hO

theorem sides (N O : List Name) :
    oldSide (tagged N O) = (merge N O).filter (fun x => decide (x ∈ O)) ∧
    newSide (tagged N O) = (merge N O).filter (fun x => decide (x ∈ N)) ∧
    keptSide (tagged N O) = (merge N O).filter (fun x => decide (x ∈ N) && decide (x ∈ O)) ∧
    addedSide (tagged N O) = (merge N O).filter (fun x => decide (x ∈ N) && !decide (x ∈ O)) := by
  have := filter_map_tag N O (merge N O) (fun x hx => mem_merge hx)
  exact this

/-- hypothesis of C01/C02: columns present on both sides keep their relative order -/
def OrderCompatible (N O : List Name) : Prop :=
  N.filter (fun x => decide (x ∈ O)) = O.filter (fun x => decide (x ∈ N))

/-- C01, column part: the up walk over the merged list turns the old column order into exactly the new one -/
theorem columns_up (N O : List Name) (hN : N.Nodup) (hO : O.Nodup) (hc : OrderCompatible N O) :
    execAll O (emitUp (tagged N O)) = some N := by
  obtain ⟨h1, h2, h3⟩ := merge_correct N O hN hO hc
  have hs := sides N O
  have := emitUp_correct (tagged N O) (by rw [tagged_names]; exact h3)
  rw [hs.1, hs.2.1, h1, h2] at this
  exact this

/-- C02, column part: the down walk restores exactly the old column order -/
theorem columns_down (N O : List Name) (hN : N.Nodup) (hO : O.Nodup) (hc : OrderCompatible N O) :
    execAll N (emitDown (tagged N O)) = some O := by
  obtain ⟨h1, h2, h3⟩ := merge_correct N O hN hO hc
  have hs := sides N O
  have := emitDown_correct (tagged N O) (by rw [tagged_names]; exact h3)
  rw [hs.1, hs.2.1, h1, h2] at this
  exact this

/-- up then down is the identity on the old column list -/
theorem columns_up_down (N O : List Name) (hN : N.Nodup) (hO : O.Nodup) (hc : OrderCompatible N O) :
    (execAll O (emitUp (tagged N O))).bind (fun db => execAll db (emitDown (tagged N O))) = some O := by
  rw [columns_up N O hN hO hc]
  exact columns_down N O hN hO hc

end Sqlize.Abs
