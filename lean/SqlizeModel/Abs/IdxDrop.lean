/-
  Abs/IdxDrop.lean — the index clause of C01 in the presence of dropped columns.

  `DROP COLUMN c` strips `c` from every index of the table and deletes an index left without columns (reference engine,
  MySQL rule); after the column statements of a migration the old index list `O` has become `prune D O`, `D` the dropped
  columns.  `MigrationIndexUp` then prints the same statements as without dropped columns, except that the DROP of an
  old-only index is *suppressed* when all its columns are among the dropped ones (`emitSup`).

  `emitSup_correct`: from `prune D O`, every statement of `emitSup D N O` is well-formed and the result is `N` up to
  order — provided the new indexes do not mention dropped columns, the old ones are not empty, and no index redefined
  under its name has lost all its old columns (the recorded finding `index-redefined-old-columns-dropped`: its DROP INDEX
  would name an index that no longer exists).  An instance of `Abs.Idx.plan_correct`.
-/
import SqlizeModel.Abs.Idx

namespace Sqlize.Abs.Idx
open Sqlize.Spec

def stripD (D : List String) (i : IdxSpec) : IdxSpec := { i with cols := i.cols.filter (fun c => !D.contains c) }

/-- what the DROP COLUMN statements for the columns `D` leave of an index list -/
def prune (D : List String) (O : List IdxSpec) : List IdxSpec := (O.map (stripD D)).filter (fun i => !i.cols.isEmpty)

/-- `allDropped` of `MigrationIndexUp`: the index has columns and all of them are dropped -/
def suppressed (D : List String) (o : IdxSpec) : Bool := !o.cols.isEmpty && o.cols.all D.contains

def emitSup (D : List String) (N O : List IdxSpec) : List (IStmt IdxSpec) :=
  N.flatMap (emitOne O) ++
    (O.filter (fun o => !(names N).contains o.name && !suppressed D o)).map (fun o => IStmt.drop o.name)

/-- one reference-engine DROP COLUMN on the index list -/
def dropColIdx (c : String) (l : List IdxSpec) : List IdxSpec :=
  (l.map (fun i => { i with cols := i.cols.filter (· != c) })).filter (!·.cols.isEmpty)

theorem dropColIdx_eq_prune (c : String) (l : List IdxSpec) : dropColIdx c l = prune [c] l := by
  unfold dropColIdx prune stripD
  congr 2
  funext i
  congr 1
  apply List.filter_congr
  intro x _
  by_cases h : x = c <;> simp [h]

theorem prune_prune (D E : List String) (l : List IdxSpec) : prune E (prune D l) = prune (D ++ E) l := by
  unfold prune
  induction l with
  | nil => rfl
  | cons i r ih =>
    simp only [List.map_cons, List.filter_cons]
    have hs : stripD E (stripD D i) = stripD (D ++ E) i := by
      unfold stripD
      simp only [List.filter_filter]
      congr 1
      apply List.filter_congr
      intro x _
      simp [List.contains_append, Bool.and_comm]
    by_cases h1 : (!(stripD D i).cols.isEmpty) = true
    · rw [if_pos h1]
      simp only [List.map_cons, List.filter_cons, hs, ih]
    · rw [if_neg h1]
      have hempty : (stripD D i).cols = [] := by simpa using h1
      have h2 : (stripD (D ++ E) i).cols = [] := by
        rw [← hs]
        show ((stripD D i).cols.filter (fun c => !E.contains c)) = []
        rw [hempty]
        rfl
      have : (!(stripD (D ++ E) i).cols.isEmpty) = false := by simp [h2]
      rw [this]
      simp only [Bool.false_eq_true, if_false]
      exact ih

theorem prune_nil (l : List IdxSpec) (hne : ∀ i ∈ l, i.cols ≠ []) : prune [] l = l := by
  unfold prune
  have hs : ∀ i : IdxSpec, stripD [] i = i := by
    intro i
    unfold stripD
    have : i.cols.filter (fun c => !([] : List String).contains c) = i.cols := by
      rw [List.filter_eq_self]; intro x _; rfl
    rw [this]
  rw [List.map_congr_left (fun i _ => hs i), List.map_id', List.filter_eq_self]
  intro i hi
  cases hc : i.cols with
  | nil => exact absurd hc (hne i hi)
  | cons _ _ => rfl

/-- the DROP COLUMN statements, one after the other, leave `prune D` of a list of non-empty indexes -/
theorem dropCols_idxs (D : List String) : ∀ l : List IdxSpec, (∀ i ∈ l, i.cols ≠ []) →
    D.foldl (fun l c => dropColIdx c l) l = prune D l := by
  induction D with
  | nil => intro l hne; rw [List.foldl_nil, prune_nil l hne]
  | cons c D ih =>
    intro l _
    have hne' : ∀ i ∈ dropColIdx c l, i.cols ≠ [] := by
      intro i hi
      unfold dropColIdx at hi
      have := (List.mem_filter.mp hi).2
      intro hc
      rw [hc] at this
      cases this
    rw [List.foldl_cons, ih _ hne', dropColIdx_eq_prune, prune_prune]
    rfl

-- ---------------------------------------------------------------------------------------------------------------

/-- the plan behind `emitSup` -/
def supPlanOne (O : List IdxSpec) (s : IdxSpec) : List (String × Act) :=
  match O.find? (fun y => y.name == s.name) with
  | none => [(s.name, .create)]
  | some o => if o = s then [] else [(s.name, .replace)]

def supPlan (D : List String) (N O : List IdxSpec) : List (String × Act) :=
  N.flatMap (supPlanOne O) ++
    (O.filter (fun o => !(names N).contains o.name && !suppressed D o)).map (fun o => (o.name, Act.drop))

theorem stripD_name (D : List String) (i : IdxSpec) : (stripD D i).name = i.name := rfl

theorem mem_prune {D : List String} {O : List IdxSpec} {x : IdxSpec} :
    x ∈ prune D O ↔ ∃ o ∈ O, x = stripD D o ∧ x.cols ≠ [] := by
  unfold prune
  rw [List.mem_filter, List.mem_map]
  constructor
  · rintro ⟨⟨o, ho, rfl⟩, hne⟩
    exact ⟨o, ho, rfl, by intro hc; rw [hc] at hne; cases hne⟩
  · rintro ⟨o, ho, rfl, hne⟩
    refine ⟨⟨o, ho, rfl⟩, ?_⟩
    cases hc : (stripD D o).cols with
    | nil => exact absurd hc hne
    | cons _ _ => rfl

theorem names_prune_sub (D : List String) (O : List IdxSpec) {n : String} (h : n ∈ names (prune D O)) : n ∈ names O := by
  obtain ⟨x, hx, he⟩ := List.mem_map.mp h
  obtain ⟨o, ho, rfl, _⟩ := mem_prune.mp hx
  have h1 : o.name ∈ names O := List.mem_map_of_mem (f := fun y : IdxSpec => Named.name y) ho
  have h2 : o.name = n := he
  exact h2 ▸ h1

theorem names_prune_nodup (D : List String) (O : List IdxSpec) (hO : (names O).Nodup) : (names (prune D O)).Nodup := by
  unfold prune
  have : ((O.map (stripD D)).filter (fun i => !i.cols.isEmpty)).map (fun y : IdxSpec => Named.name y) =
      ((O.filter (fun o => !(stripD D o).cols.isEmpty)).map (fun y : IdxSpec => Named.name y)) := by
    rw [List.filter_map, List.map_map]
    rfl
  show (((O.map (stripD D)).filter (fun i => !i.cols.isEmpty)).map (fun y : IdxSpec => Named.name y)).Nodup
  rw [this]
  exact (List.filter_sublist.map _).nodup hO

theorem stripD_id (D : List String) (s : IdxSpec) (h : ∀ c ∈ s.cols, c ∉ D) : stripD D s = s := by
  unfold stripD
  have : s.cols.filter (fun c => !D.contains c) = s.cols := by
    rw [List.filter_eq_self]
    intro c hc
    simpa using h c hc
  rw [this]

theorem not_suppressed_survives (D : List String) (o : IdxSpec) (hne : o.cols ≠ []) (hs : suppressed D o = false) :
    (stripD D o).cols ≠ [] := by
  unfold suppressed at hs
  have h1 : (!o.cols.isEmpty) = true := by
    cases hc : o.cols with
    | nil => exact absurd hc hne
    | cons _ _ => rfl
  rw [h1, Bool.true_and] at hs
  have : ¬ (∀ c ∈ o.cols, D.contains c = true) := by
    intro hall
    rw [List.all_eq_true.mpr hall] at hs
    cases hs
  intro hc
  apply this
  intro c hcm
  cases hd : D.contains c with
  | true => rfl
  | false =>
    have : c ∈ (stripD D o).cols := List.mem_filter.mpr ⟨hcm, by rw [hd]; rfl⟩
    rw [hc] at this
    cases this

theorem suppressed_gone (D : List String) (o : IdxSpec) (hs : suppressed D o = true) : (stripD D o).cols = [] := by
  unfold suppressed at hs
  simp only [Bool.and_eq_true] at hs
  have hall := List.all_eq_true.mp hs.2
  unfold stripD
  simp only
  rw [List.filter_eq_nil_iff]
  intro c hc
  rw [hall c hc]
  simp

/-- **the index clause with dropped columns** -/
theorem emitSup_correct (D : List String) (N O : List IdxSpec) (hN : (names N).Nodup) (hO : (names O).Nodup)
    (hNcols : ∀ s ∈ N, ∀ c ∈ s.cols, c ∉ D) (hOne : ∀ o ∈ O, o.cols ≠ [])
    (hredef : ∀ s ∈ N, ∀ o ∈ O, o.name = s.name → o ≠ s → ∃ c ∈ o.cols, c ∉ D) :
    ∃ R, execAll (prune D O) (emitSup D N O) = some R ∧ R.Perm N := by
  -- the emission is the plan's
  have hem : (supPlan D N O).flatMap (planOne N) = emitSup D N O := by
    unfold supPlan emitSup
    rw [List.flatMap_append]
    congr 1
    · have : ∀ l : List IdxSpec, (∀ s ∈ l, s ∈ N) →
          (l.flatMap (supPlanOne O)).flatMap (planOne N) = l.flatMap (emitOne O) := by
        intro l
        induction l with
        | nil => intro _; rfl
        | cons s r ih =>
          intro hl
          have hs := hl s (by simp)
          rw [List.flatMap_cons, List.flatMap_append, List.flatMap_cons, ih (fun x hx => hl x (by simp [hx]))]
          congr 1
          have hfs : N.find? (fun y => Named.name y == s.name) = some s := find?_of_mem hN hs
          unfold supPlanOne emitOne
          have hfe : O.find? (fun y => Named.name y == Named.name s) = O.find? (fun y => y.name == s.name) := rfl
          rw [hfe]
          cases O.find? (fun y => y.name == s.name) with
          | none => simp [planOne, hfs]
          | some o =>
            simp only
            split
            · rfl
            · simp [planOne, hfs]
              rfl
      exact this N (fun s hs => hs)
    · rw [List.flatMap_map]
      induction (O.filter (fun o => !(names N).contains o.name && !suppressed D o)) with
      | nil => rfl
      | cons o r ih =>
        rw [List.flatMap_cons, List.map_cons, ih]
        rfl
  -- names of the plan
  have hplN : ∀ n, n ∈ (N.flatMap (supPlanOne O)).map (·.1) → n ∈ names N := by
    intro n hn
    obtain ⟨p, hp, rfl⟩ := List.mem_map.mp hn
    obtain ⟨s, hs, hps⟩ := List.mem_flatMap.mp hp
    have : p.1 = s.name := by
      unfold supPlanOne at hps
      split at hps
      · simp at hps; rw [hps]
      · split at hps
        · cases hps
        · simp at hps; rw [hps]
    rw [this]
    exact List.mem_map_of_mem (f := fun y : IdxSpec => Named.name y) hs
  have hnd1 : ((N.flatMap (supPlanOne O)).map (·.1)).Nodup := by
    have : ∀ l : List IdxSpec, (names l).Nodup → ((l.flatMap (supPlanOne O)).map (·.1)).Nodup := by
      intro l
      induction l with
      | nil => intro _; simp
      | cons s r ih =>
        intro hnd
        rw [names, List.map_cons, List.nodup_cons] at hnd
        rw [List.flatMap_cons, List.map_append, List.nodup_append]
        refine ⟨?_, ih hnd.2, ?_⟩
        · unfold supPlanOne
          split
          · simp
          · split <;> simp
        · intro a ha b hb hab
          subst hab
          have ha' : a = s.name := by
            obtain ⟨p, hp, rfl⟩ := List.mem_map.mp ha
            unfold supPlanOne at hp
            split at hp
            · simp at hp; rw [hp]
            · split at hp
              · cases hp
              · simp at hp; rw [hp]
          obtain ⟨p, hp, hpe⟩ := List.mem_map.mp hb
          obtain ⟨s', hs', hps⟩ := List.mem_flatMap.mp hp
          have : p.1 = s'.name := by
            unfold supPlanOne at hps
            split at hps
            · simp at hps; rw [hps]
            · split at hps
              · cases hps
              · simp at hps; rw [hps]
          apply hnd.1
          show s.name ∈ _
          rw [← ha', ← hpe, this]
          exact List.mem_map_of_mem (f := fun y : IdxSpec => Named.name y) hs'
    exact this N hN
  have hpn : ((supPlan D N O).map (·.1)).Nodup := by
    unfold supPlan
    rw [List.map_append, List.nodup_append]
    refine ⟨hnd1, ?_, ?_⟩
    · rw [List.map_map]
      exact (List.filter_sublist.map _).nodup hO
    · intro a ha b hb hab
      subst hab
      have h1 := hplN a ha
      rw [List.map_map] at hb
      obtain ⟨o, ho, he⟩ := List.mem_map.mp hb
      have := (List.mem_filter.mp ho).2
      simp only [Bool.and_eq_true, Bool.not_eq_true'] at this
      have hnot : o.name ∉ names N := by simpa using this.1
      have he' : o.name = a := he
      exact hnot (he' ▸ h1)
  -- every entry fits
  have hfit : ∀ p ∈ supPlan D N O, Fits (prune D O) N p := by
    intro p hp
    unfold supPlan at hp
    rcases List.mem_append.mp hp with h | h
    · obtain ⟨s, hs, hps⟩ := List.mem_flatMap.mp h
      unfold supPlanOne at hps
      cases hf : O.find? (fun y => y.name == s.name) with
      | none =>
        rw [hf] at hps
        have : p = (s.name, Act.create) := by simpa using hps
        subst this
        refine ⟨?_, List.mem_map_of_mem (f := fun y : IdxSpec => Named.name y) hs⟩
        intro hm
        exact find?_none_name (α := IdxSpec) hf (names_prune_sub D O hm)
      | some o =>
        rw [hf] at hps
        simp only at hps
        obtain ⟨hoO, hon⟩ := find?_name (α := IdxSpec) hf
        split at hps
        · cases hps
        · rename_i hne
          have : p = (s.name, Act.replace) := by simpa using hps
          subst this
          refine ⟨?_, List.mem_map_of_mem (f := fun y : IdxSpec => Named.name y) hs⟩
          obtain ⟨c, hc, hcD⟩ := hredef s hs o hoO hon hne
          have hsurv : (stripD D o).cols ≠ [] := by
            intro he
            have : c ∈ (stripD D o).cols := List.mem_filter.mpr ⟨hc, by simpa using hcD⟩
            rw [he] at this
            cases this
          have : stripD D o ∈ prune D O := mem_prune.mpr ⟨o, hoO, rfl, hsurv⟩
          have h2 := List.mem_map_of_mem (f := fun y : IdxSpec => Named.name y) this
          rw [show Named.name (stripD D o) = s.name from hon] at h2
          exact h2
    · obtain ⟨o, ho, rfl⟩ := List.mem_map.mp h
      obtain ⟨hoO, hc⟩ := List.mem_filter.mp ho
      simp only [Bool.and_eq_true, Bool.not_eq_true'] at hc
      have hnot : o.name ∉ names N := by simpa using hc.1
      refine ⟨?_, hnot⟩
      have hsurv := not_suppressed_survives D o (hOne o hoO) hc.2
      have : stripD D o ∈ prune D O := mem_prune.mpr ⟨o, hoO, rfl, hsurv⟩
      have h2 := List.mem_map_of_mem (f := fun y : IdxSpec => Named.name y) this
      exact h2
  -- names the plan leaves alone carry the same record on both sides
  have hrest : ∀ x : IdxSpec, (Named.name x) ∉ (supPlan D N O).map (·.1) → (x ∈ prune D O ↔ x ∈ N) := by
    intro x hx
    have hx1 : x.name ∉ (N.flatMap (supPlanOne O)).map (·.1) := by
      intro h; apply hx; unfold supPlan; rw [List.map_append]; exact List.mem_append_left _ h
    have hx2 : ∀ o ∈ O, o.name = x.name → (names N).contains o.name = false → suppressed D o = true := by
      intro o ho hn hc
      cases hsup : suppressed D o with
      | true => rfl
      | false =>
        exfalso
        apply hx
        unfold supPlan
        rw [List.map_append]
        refine List.mem_append_right _ ?_
        rw [List.map_map]
        exact List.mem_map.mpr ⟨o, List.mem_filter.mpr ⟨ho, by rw [hc, hsup]; rfl⟩, hn⟩
    -- a new record of that name is its own old namesake
    have hsame : ∀ s ∈ N, s.name = x.name → s ∈ O := by
      intro s hs hn
      cases hf : O.find? (fun y => y.name == s.name) with
      | none =>
        exfalso
        apply hx1
        refine List.mem_map.mpr ⟨(s.name, Act.create), List.mem_flatMap.mpr ⟨s, hs, ?_⟩, hn⟩
        unfold supPlanOne; rw [hf]; simp
      | some o =>
        obtain ⟨hoO, hon⟩ := find?_name (α := IdxSpec) hf
        by_cases he : o = s
        · exact he ▸ hoO
        · exfalso
          apply hx1
          refine List.mem_map.mpr ⟨(s.name, Act.replace), List.mem_flatMap.mpr ⟨s, hs, ?_⟩, hn⟩
          unfold supPlanOne; rw [hf]; simp [he]
    constructor
    · intro hxp
      obtain ⟨o, hoO, rfl, hne⟩ := mem_prune.mp hxp
      by_cases hnN : o.name ∈ names N
      · obtain ⟨s, hs, hsn⟩ := List.mem_map.mp hnN
        have hsO := hsame s hs hsn
        have : s = o := eq_of_name (α := IdxSpec) hO hsO hoO hsn
        subst this
        rw [stripD_id D s (hNcols s hs)]
        exact hs
      · have hc : (names N).contains o.name = false := by simpa using hnN
        have := suppressed_gone D o (hx2 o hoO rfl hc)
        exact absurd this hne
    · intro hxN
      have hxO := hsame x hxN rfl
      refine mem_prune.mpr ⟨x, hxO, (stripD_id D x (hNcols x hxN)).symm, hOne x hxO⟩
  obtain ⟨R, hR, hperm⟩ := plan_correct (prune D O) N (names_prune_nodup D O hO) hN (supPlan D N O) hpn hfit hrest
  rw [hem] at hR
  exact ⟨R, hR, hperm⟩

end Sqlize.Abs.Idx
