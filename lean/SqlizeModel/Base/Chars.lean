/-
  Base/Chars.lean — ASCII helpers over `Char` / `List Char` (core Lean only).
  Everything that is proved about text is stated over `List Char`.
-/
namespace Sqlize

def isUpper (c : Char) : Bool := decide ('A'.toNat ≤ c.toNat) && decide (c.toNat ≤ 'Z'.toNat)
def isLower (c : Char) : Bool := decide ('a'.toNat ≤ c.toNat) && decide (c.toNat ≤ 'z'.toNat)
def isDigit (c : Char) : Bool := decide ('0'.toNat ≤ c.toNat) && decide (c.toNat ≤ '9'.toNat)

/-- ASCII lower-casing of one character (Go: `c - 'A' + 'a'` for `A..Z`). -/
def lowerC (c : Char) : Char := if isUpper c then Char.ofNat (c.toNat + 32) else c

def lowerS (s : List Char) : List Char := s.map lowerC

theorem isUpper_lowerC (c : Char) : isUpper (lowerC c) = false := by
  unfold lowerC
  by_cases h : isUpper c = true
  · simp only [h, if_true]
    unfold isUpper at h ⊢
    simp only [Bool.and_eq_true, decide_eq_true_eq] at h
    have h1 : c.toNat + 32 < 0xd800 := by
      have : 'Z'.toNat = 90 := by decide
      omega
    have : (Char.ofNat (c.toNat + 32)).toNat = c.toNat + 32 := by
      unfold Char.ofNat
      rw [dif_pos (Or.inl h1)]
      rfl
    rw [this]
    have hA : 'A'.toNat = 65 := by decide
    have hZ : 'Z'.toNat = 90 := by decide
    simp only [hA, hZ] at h ⊢
    simp only [Bool.and_eq_false_iff, decide_eq_false_iff_not]
    omega
  · simp only [h]
    simpa using h

theorem isLower_not_isUpper {c : Char} (h : isLower c = true) : isUpper c = false := by
  unfold isLower at h; unfold isUpper
  simp only [Bool.and_eq_true, decide_eq_true_eq] at h
  have ha : 'a'.toNat = 97 := by decide
  have hZ : 'Z'.toNat = 90 := by decide
  simp only [ha] at h
  simp only [hZ, Bool.and_eq_false_iff, decide_eq_false_iff_not]
  omega

theorem lowerC_of_not_upper {c : Char} (h : isUpper c = false) : lowerC c = c := by
  simp [lowerC, h]

theorem lowerC_idem (c : Char) : lowerC (lowerC c) = lowerC c :=
  lowerC_of_not_upper (isUpper_lowerC c)

end Sqlize
