/- Base/Base64.lean — `base64.URLEncoding.EncodeToString` (URL-safe alphabet, with padding).  Executable code only. -/
namespace Sqlize.Base64

def alphabet : Array Char := "ABCDEFGHIJKLMNOPQRSTUVWXYZabcdefghijklmnopqrstuvwxyz0123456789-_".toList.toArray

def enc (n : Nat) : Char := alphabet[n % 64]!

def encodeBytes : List Nat → List Char
  | a :: b :: c :: rest =>
    enc (a / 4) :: enc ((a % 4) * 16 + b / 16) :: enc ((b % 16) * 4 + c / 64) :: enc (c % 64) :: encodeBytes rest
  | [a, b] => [enc (a / 4), enc ((a % 4) * 16 + b / 16), enc ((b % 16) * 4), '=']
  | [a] => [enc (a / 4), enc ((a % 4) * 16), '=', '=']
  | [] => []

/-- strings travel as byte strings (one `Char` < 256 per byte) unless they are pure ASCII / real UTF-8 -/
def bytesOf (s : String) : List Nat :=
  if s.toList.all (fun c => c.toNat < 128) then s.toList.map (·.toNat)
  else if s.toList.all (fun c => c.toNat < 256) then s.toList.map (·.toNat)
  else s.toUTF8.toList.map (·.toNat)

def urlEncode (s : String) : String := String.ofList (encodeBytes (bytesOf s))

end Sqlize.Base64
