/-
  Base/MD5.lean — MD5 (RFC 1321) on byte arrays, so that the model's `HashValue` can be compared with the Go value.
  Executable code only; the theorems about `HashValue` are stated for an arbitrary digest function `H`.
-/
namespace Sqlize.MD5

def sTable : Array Nat := #[
  7, 12, 17, 22, 7, 12, 17, 22, 7, 12, 17, 22, 7, 12, 17, 22,
  5, 9, 14, 20, 5, 9, 14, 20, 5, 9, 14, 20, 5, 9, 14, 20,
  4, 11, 16, 23, 4, 11, 16, 23, 4, 11, 16, 23, 4, 11, 16, 23,
  6, 10, 15, 21, 6, 10, 15, 21, 6, 10, 15, 21, 6, 10, 15, 21]

def kTable : Array UInt32 := #[
  0xd76aa478, 0xe8c7b756, 0x242070db, 0xc1bdceee, 0xf57c0faf, 0x4787c62a, 0xa8304613, 0xfd469501,
  0x698098d8, 0x8b44f7af, 0xffff5bb1, 0x895cd7be, 0x6b901122, 0xfd987193, 0xa679438e, 0x49b40821,
  0xf61e2562, 0xc040b340, 0x265e5a51, 0xe9b6c7aa, 0xd62f105d, 0x02441453, 0xd8a1e681, 0xe7d3fbc8,
  0x21e1cde6, 0xc33707d6, 0xf4d50d87, 0x455a14ed, 0xa9e3e905, 0xfcefa3f8, 0x676f02d9, 0x8d2a4c8a,
  0xfffa3942, 0x8771f681, 0x6d9d6122, 0xfde5380c, 0xa4beea44, 0x4bdecfa9, 0xf6bb4b60, 0xbebfbc70,
  0x289b7ec6, 0xeaa127fa, 0xd4ef3085, 0x04881d05, 0xd9d4d039, 0xe6db99e5, 0x1fa27cf8, 0xc4ac5665,
  0xf4292244, 0x432aff97, 0xab9423a7, 0xfc93a039, 0x655b59c3, 0x8f0ccc92, 0xffeff47d, 0x85845dd1,
  0x6fa87e4f, 0xfe2ce6e0, 0xa3014314, 0x4e0811a1, 0xf7537e82, 0xbd3af235, 0x2ad7d2bb, 0xeb86d391]

def rotl (x : UInt32) (n : Nat) : UInt32 :=
  (x <<< n.toUInt32) ||| (x >>> (32 - n).toUInt32)

/-- padded message: bytes, 0x80, zeros, 64-bit little-endian bit length -/
def pad (msg : ByteArray) : ByteArray := Id.run do
  let bitLen : UInt64 := msg.size.toUInt64 * 8
  let mut out := msg.push 0x80
  while out.size % 64 != 56 do
    out := out.push 0
  for i in [0:8] do
    out := out.push ((bitLen >>> (8 * i).toUInt64) &&& 0xff).toUInt8
  return out

def word (b : ByteArray) (off : Nat) : UInt32 :=
  (b.get! off).toUInt32 ||| ((b.get! (off + 1)).toUInt32 <<< 8) ||| ((b.get! (off + 2)).toUInt32 <<< 16) |||
  ((b.get! (off + 3)).toUInt32 <<< 24)

def digest (msg : ByteArray) : ByteArray := Id.run do
  let p := pad msg
  let mut a0 : UInt32 := 0x67452301
  let mut b0 : UInt32 := 0xefcdab89
  let mut c0 : UInt32 := 0x98badcfe
  let mut d0 : UInt32 := 0x10325476
  for chunk in [0:p.size / 64] do
    let base := chunk * 64
    let mut a := a0
    let mut b := b0
    let mut c := c0
    let mut d := d0
    for i in [0:64] do
      let mut f : UInt32 := 0
      let mut g : Nat := 0
      if i < 16 then
        f := (b &&& c) ||| ((~~~ b) &&& d)
        g := i
      else if i < 32 then
        f := (d &&& b) ||| ((~~~ d) &&& c)
        g := (5 * i + 1) % 16
      else if i < 48 then
        f := b ^^^ c ^^^ d
        g := (3 * i + 5) % 16
      else
        f := c ^^^ (b ||| (~~~ d))
        g := (7 * i) % 16
      let f2 := f + a + kTable[i]! + word p (base + 4 * g)
      a := d
      d := c
      c := b
      b := b + rotl f2 sTable[i]!
    a0 := a0 + a
    b0 := b0 + b
    c0 := c0 + c
    d0 := d0 + d
  let mut out := ByteArray.empty
  for w in [a0, b0, c0, d0] do
    for i in [0:4] do
      out := out.push ((w >>> (8 * i).toUInt32) &&& 0xff).toUInt8
  return out

def hexDigit (n : Nat) : Char := if n < 10 then Char.ofNat (48 + n) else Char.ofNat (87 + n)

def toHex (b : ByteArray) : String :=
  String.ofList (b.toList.flatMap (fun x => [hexDigit (x.toNat / 16), hexDigit (x.toNat % 16)]))

/-- strings travel through the driver as byte strings: one `Char` (< 256) per byte; real UTF-8 otherwise -/
def bytesOf (s : String) : ByteArray :=
  if s.toList.all (fun c => c.toNat < 128) then s.toUTF8
  else ByteArray.mk (s.toList.toArray.map (fun c => (c.toNat % 256).toUInt8))

/-- `hex.EncodeToString(md5.Sum([]byte(s)))` -/
def hex (s : String) : String := toHex (digest (bytesOf s))

/-- `int64(binary.BigEndian.Uint64(md5.Sum([]byte(s))[:8]))` -/
def int64BE (s : String) : Int :=
  let d := digest (bytesOf s)
  let u : Nat := (List.range 8).foldl (fun acc i => acc * 256 + (d.get! i).toNat) 0
  if u ≥ 2 ^ 63 then (u : Int) - 2 ^ 64 else u

end Sqlize.MD5
