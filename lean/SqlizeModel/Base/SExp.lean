/-
  Base/SExp.lean — the wire format between the Go harness and the Lean driver: one S-expression per line.
  Atoms are either bare tokens or double-quoted strings with `\\ \" \n \t \r \xHH` escapes (bytes ≥ 0x80 are
  sent as \xHH and decoded to `Char.ofNat HH`, i.e. strings are treated as byte strings).
  Driver-side code only: nothing here is used in a theorem.
-/
namespace Sqlize

inductive SExp where
  | atom (s : String)
  | list (xs : List SExp)
  deriving Repr, Inhabited, BEq

namespace SExp

private def hexVal (c : Char) : Nat :=
  if '0' ≤ c ∧ c ≤ '9' then c.toNat - '0'.toNat
  else if 'a' ≤ c ∧ c ≤ 'f' then c.toNat - 'a'.toNat + 10
  else if 'A' ≤ c ∧ c ≤ 'F' then c.toNat - 'A'.toNat + 10
  else 0

private def isBare (c : Char) : Bool :=
  c.isAlphanum || c == '_' || c == '-' || c == '.' || c == ':' || c == '+' || c == '/' || c == '*' || c == '='

/-- parse a quoted string body (after the opening quote); returns the string and the rest -/
private partial def parseQuoted (acc : List Char) : List Char → Option (String × List Char)
  | [] => none
  | '"' :: r => some (String.ofList acc.reverse, r)
  | '\\' :: 'n' :: r => parseQuoted ('\n' :: acc) r
  | '\\' :: 't' :: r => parseQuoted ('\t' :: acc) r
  | '\\' :: 'r' :: r => parseQuoted ('\r' :: acc) r
  | '\\' :: 'x' :: a :: b :: r => parseQuoted (Char.ofNat (hexVal a * 16 + hexVal b) :: acc) r
  | '\\' :: c :: r => parseQuoted (c :: acc) r
  | c :: r => parseQuoted (c :: acc) r

mutual
  private partial def parseOne : List Char → Option (SExp × List Char)
    | [] => none
    | ' ' :: r => parseOne r
    | '(' :: r => parseList [] r
    | '"' :: r => (parseQuoted [] r).map fun (s, r) => (.atom s, r)
    | c :: r =>
      if isBare c then
        let tok := (c :: r).takeWhile isBare
        some (.atom (String.ofList tok), (c :: r).dropWhile isBare)
      else none
  private partial def parseList (acc : List SExp) : List Char → Option (SExp × List Char)
    | [] => none
    | ' ' :: r => parseList acc r
    | ')' :: r => some (.list acc.reverse, r)
    | cs => match parseOne cs with
      | some (e, r) => parseList (e :: acc) r
      | none => none
end

def parse (s : String) : Option SExp :=
  match parseOne s.toList with
  | some (e, r) => if r.all (· == ' ') then some e else none
  | none => none

private def hexDigit (n : Nat) : Char :=
  if n < 10 then Char.ofNat ('0'.toNat + n) else Char.ofNat ('a'.toNat + n - 10)

def quote (s : String) : String :=
  let body := s.toList.foldl (fun acc c =>
    if c == '"' then acc ++ "\\\""
    else if c == '\\' then acc ++ "\\\\"
    else if c == '\n' then acc ++ "\\n"
    else if c == '\t' then acc ++ "\\t"
    else if c == '\r' then acc ++ "\\r"
    else if c.toNat < 32 || c.toNat ≥ 127 then
      acc ++ "\\x" ++ String.ofList [hexDigit ((c.toNat / 16) % 16), hexDigit (c.toNat % 16)]
    else acc.push c) ""
  "\"" ++ body ++ "\""

partial def toString : SExp → String
  | .atom s => quote s
  | .list xs => "(" ++ " ".intercalate (xs.map toString) ++ ")"

def str? : SExp → Option String
  | .atom s => some s
  | _ => none

def list? : SExp → Option (List SExp)
  | .list xs => some xs
  | _ => none

def nat? : SExp → Option Nat
  | .atom s => s.toNat?
  | _ => none

def int? : SExp → Option Int
  | .atom s => s.toInt?
  | _ => none

def bool? : SExp → Option Bool
  | .atom "true" => some true
  | .atom "false" => some false
  | .atom "1" => some true
  | .atom "0" => some false
  | _ => none

def strs? (e : SExp) : Option (List String) := do
  let xs ← e.list?
  xs.mapM str?

end SExp
end Sqlize
