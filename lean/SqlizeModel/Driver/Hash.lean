import SqlizeModel.Driver.Pair
import SqlizeModel.Impl.Hash
import SqlizeModel.Spec.HashSpec
import SqlizeModel.Spec.ProvedScope

namespace Sqlize.Driver
open Sqlize Sqlize.Codec Sqlize.Spec

/-- (case id hash cfg (base…) ((pres kind (stmts…) hash)…) ((edit kind (stmts…) hash)…)) -/
def hashHandler : Handler
  | [cfg, base, .list pres, .list edits] => do
    let g ← decodeCfg cfg
    let b ← decodeStmts base
    let decodeEntry := fun (e : SExp) => match e with
      | .list [.atom _, .atom kind, ss, .atom h] => (decodeStmts ss).map (fun s => (kind, s, h))
      | _ => none
    let ps ← pres.mapM decodeEntry
    let es ← edits.mapM decodeEntry
    let modelHash := fun (gg : Globals) (ss : List Stmt) => (do let m ← readScript gg {} ss; let h ← m.hashValue gg; pure (toString h) : M String)
    -- correspondence: the model's value for every presentation and edit
    let corr := (ps ++ es).foldl (fun v (kind, ss, h) =>
      let gg := if kind == "case-option" then { g with lower := !g.lower } else g
      v.and (expectOutcome s!"hash-{kind}" (modelHash gg ss) h)) okV
    -- property
    let db := execAll true [] b
    let region := match db with
      | some d => Scope.c07 g d b
      | none => some "excluded:ill-formed-input"
    let hashes := ps.map (fun (_, _, h) => h)
    let sameOver := fun (sel : List (String × List Stmt × String)) => (
      match hashes with
      | [] => pure ()
      | h0 :: _ =>
        if isPanic h0 || h0.startsWith "error:" then throw s!"the schema does not load / hash: {h0}"
        else match sel.find? (fun (_, _, h) => h != h0) with
          | some (kind, _, h) => throw s!"presentation {kind} has a different HashValue ({h}) than the canonical one ({h0})"
          | none => if b.isEmpty && h0 != "0" then throw s!"the empty schema has HashValue {h0}" else pure () : Check)
    let same := sameOver (ps.filter (fun (k, _, _) => k != "detour" && k != "table-level-pk" && k != "alter-column"))
    -- the ALTER COLUMN route (postgres): an ALTER statement on a reserved-word table / column goes to a second, quoted
    -- entity (recorded finding postgres-reader-vocabulary)
    let alters := ps.filter (fun (k, _, _) => k == "alter-column")
    let sameAlter := sameOver alters
    let quotedAlter := alters.any (fun (_, ss, _) => ss.any (fun s => match s with
      | .alterType t c _ | .setDefault t c _ | .dropNotNull t c => Scope.pgQuoted t || Scope.pgQuoted c
      | _ => false))
    let alterRegion := region.orElse fun _ => if quotedAlter then some "postgres-reader-vocabulary" else none
    -- the primary key's two representations hash differently (recorded finding pk-inline-vs-table-level)
    let tlpk := ps.filter (fun (k, _, _) => k == "table-level-pk")
    let sameTlpk := sameOver tlpk
    let tlpkRegion := match region with
      | some r => some r
      | none => if tlpk.isEmpty then none else some "pk-inline-vs-table-level"
    -- the detour presentation uses DROP statements: outside the reader vocabulary of the postgres / sqlite glue
    let detours := ps.filter (fun (k, _, _) => k == "detour")
    let detourRegion := match region, detours with
      | some r, _ => some r
      | none, (_, ss, _) :: _ => (match execAll true [] ss with
          | some d => Scope.c05 g d ss
          | none => some "excluded:ill-formed-input")
      | none, [] => none
    let sameDetour := sameOver detours
    let differs : Check :=
      match hashes with
      | [] => pure ()
      | h0 :: _ => match es.find? (fun (_, _, h) => h == h0) with
        | some (kind, _, _) => throw s!"edit {kind} leaves the HashValue unchanged ({h0})"
        | none => pure ()
    -- the model reads the canonical statements: the table-level presentation is judged by the property only
    let corr := (ps ++ es).foldl (fun v (kind, ss, h) =>
      if kind == "table-level-pk" then v else
      let gg := if kind == "case-option" then { g with lower := !g.lower } else g
      v.and (expectOutcome s!"hash-{kind}" (modelHash gg ss) h)) okV
    -- inside the executable scope of `proved_hash` (Proofs/ScopeB.lean) the value of every presentation must be the value
    -- of its reference schema, computed from the schema alone (`DB.hashOf`, real md5): an oracle that does not go through
    -- the model of the reader
    let specOracle : Verdict := (ps ++ es).foldl (fun v (kind, ss, h) =>
      let gg := if kind == "case-option" then { g with lower := !g.lower } else g
      if !(Scope.Proved.hash gg ss) then v else
      match execAll true [] ss with
      | none => v
      | some d =>
        let want := toString (d.hashOf MD5.hex MD5.int64BE gg)
        v.and
          (judge "C07" none (check (h == want) s!"presentation {kind}: HashValue {h} is not the value of the reference schema ({want})"))) okV
    let anyInside := (ps ++ es).any (fun (kind, ss, _) =>
      Scope.Proved.hash (if kind == "case-option" then { g with lower := !g.lower } else g) ss && (execAll true [] ss).isSome)
    let specOracle := (if anyInside then { items := ["proved[C07]"] } else okV : Verdict).and specOracle
    some (specOracle.and <| corr.and ((judge "C07" region same).and ((judge "C07" (detourRegion.map (· ++ "/detour")) sameDetour).and
      ((judge "C07" (region.map (· ++ "/edits")) differs).and ((judge "C07" tlpkRegion sameTlpk).and
        (judge "C07" (alterRegion.map (· ++ "/alter-column")) sameAlter))))))
  | _ => none

end Sqlize.Driver
