import SqlizeModel.Driver.Pair

namespace Sqlize.Driver
open Sqlize Sqlize.Codec Sqlize.Spec

structure HStep where
  models : List Stmt
  up : String
  down : String
  nextUp : String
  nextDown : String
  hashHist : String
  hashModels : String
  errs : String

def decodeHStep : SExp → Option HStep
  | .list [ms, .atom up, .atom down, .atom nu, .atom nd, .atom hh, .atom hm, .atom errs] => do
    let ms ← decodeStmts ms
    some { models := ms, up := up, down := down, nextUp := nu, nextDown := nd, hashHist := hh, hashModels := hm, errs := errs }
  | _ => none

/-- replay of the recorded migrations on the reference engine -/
def replay (g : Globals) (steps : List HStep) : Check := do
  -- ups in order: after step i the database is the models' schema
  let mut db : DB := []
  let mut downs : List (List Stmt) := []
  let mut k := 0
  for s in steps do
    let target ← match execAll true [] s.models with
      | some d => pure d
      | none => throw s!"revision {k}: ill-formed models (generator)"
    let up ← parseImpl g s!"up migration of revision {k}" s.up
    let down ← parseImpl g s!"down migration of revision {k}" s.down
    match execAll false db (resolveDropIndex db up) with
    | none => throw s!"revision {k}: the recorded up migration is ill-formed on the schema the history built so far (statement #{(firstIllFormed false db (resolveDropIndex db up)).getD 0})"
    | some db' =>
      if !(if g.ignoreOrder then db'.equivUnordered target else db'.equiv target) then
        throw s!"revision {k}: the history does not build the models' schema: {db'.diffReport target}"
      db := if g.ignoreOrder then db' else target
    downs := down :: downs
    k := k + 1
  -- downs in reverse order return to the empty schema
  for d in downs do
    match execAll false db (resolveDropIndex db d) with
    | none => throw s!"replaying the recorded down migrations in reverse: ill-formed statement #{(firstIllFormed false db (resolveDropIndex db d)).getD 0}"
    | some db' => db := db'
  check db.isEmpty s!"replaying the recorded down migrations in reverse does not return to the empty schema: {repr (db.map (·.name))}"

/-- (case id history cfg onDisk ((models up down nextUp nextDown hashHist hashModels errs)…)) -/
def historyHandlerCore (versioned : Bool) : Handler
  | [cfg, _onDisk, .list steps] => do
    let g ← decodeCfg cfg
    let steps ← steps.mapM decodeHStep
    let converge : Check := do
      let mut k := 0
      for s in steps do
        if (s.errs.splitOn "panic:").length > 1 || (s.errs.splitOn "error:").length > 1 then
          throw s!"revision {k}: a step of the workflow failed: {s.errs}"
        if s.nextUp != "" || s.nextDown != "" then
          throw s!"revision {k}: after appending the migration the next diff is not empty: up={SExp.quote s.nextUp} down={SExp.quote s.nextDown}"
        k := k + 1
    let fingerprint : Check := do
      let mut k := 0
      for s in steps do
        -- a versioned folder (WriteFilesWithVersion, version 0 first) declares the bookkeeping table, which HashValue
        -- counts: C04 speaks of WriteFiles, so the fingerprints are not compared there (DESIGN.md section 8)
        if !versioned && s.hashHist != s.hashModels then
          throw s!"revision {k}: fingerprint of the reloaded history ({s.hashHist}) differs from the models' ({s.hashModels})"
        k := k + 1
    let scripts := steps.map (·.models)
    let region := Scope.c04 g scripts
    let regionConv := Scope.c04 g scripts (conv := true)
    -- inside the executable scope of the C04 theorems on the model (`proved_chain*`, Proofs/ScopeB.lean) nothing is excused
    let revs := if g.dialect == .mysql && !g.ignoreOrder then Scope.Proved.revsOf scripts else none
    let pC := match revs with | some r => Scope.Proved.chainUp r | none => false
    let pF := pC && (match revs with | some r => Scope.Proved.chainOrdered r | none => false)
    let pD := pC && (match revs with | some r => Scope.Proved.chainDown r | none => false)
    let provedNote := fun (tag : String) (p : Bool) => (if p then { items := [s!"proved[{tag}]"] } else okV : Verdict)
    let region := if pD then none else region
    let regionConv := if pC then none else regionConv
    -- C13 along the workflow: under the ignore-field-order option no recorded migration mentions a position, whichever
    -- way the history was loaded (text or migration folder)
    let noPositions : Check := do
      if g.ignoreOrder then
        let mut k := 0
        for s in steps do
          let up ← parseImpl g s!"up migration of revision {k}" s.up
          let down ← parseImpl g s!"down migration of revision {k}" s.down
          c13NoPositions (up ++ down)
          k := k + 1
    -- the fingerprint clause has one more recorded region: a revision that lists a new table before an old one
    let regionFp := if pF then none else regionConv.orElse fun _ => Scope.c04Order [] scripts
    let notes := ((provedNote "C04" pC).and (provedNote "C04-fingerprint" pF)).and (provedNote "C04-down" pD)
    some (notes.and ((((judge "C04" regionConv converge).and (judge "C04" (regionFp.map (· ++ "/fingerprint")) fingerprint)).and
      (judge "C04" (region.map (· ++ "/replay")) (replay g steps))).and
      (judge "C13" regionConv noPositions)))
  | _ => none

def historyHandler : Handler := historyHandlerCore false
/-- the same workflow with the files written by WriteFilesWithVersion -/
def historyVersionedHandler : Handler := historyHandlerCore true

end Sqlize.Driver
