import SqlizeModel.Driver.Pair
import SqlizeModel.Impl.Hash

namespace Sqlize.Driver
open Sqlize Sqlize.Codec Sqlize.Spec

/-- (case id script cfg (stmts...) ((err ..) (state ..) (dump ..) ...)) -/
def scriptHandler : Handler
  | [cfg, stmts, .list obs] => do
    let g ← decodeCfg cfg
    let ss ← decodeStmts stmts
    let o := fun k => (obsStr obs k).getD "<missing>"
    -- correspondence
    -- a text the dialect's grammar rejects: FromString returns an error and the model stays as it was (empty here)
    let raw := readScript g {} ss
    let parseErr := match raw with
      | .error e => e.startsWith "PARSE"
      | .ok _ => false
    -- sqlite is fed one statement per call: a rejected statement leaves what the earlier calls loaded
    let prefixState : List Stmt → Migration → Migration := fun stmts m0 =>
      stmts.foldl (fun (acc : Migration × Bool) s =>
        if acc.2 then acc else match readScript g acc.1 [s] with
          | .ok m' => (m', false)
          | .error _ => (acc.1, true)) (m0, false) |>.1
    let m : M Migration := if parseErr then .ok (if g.dialect == .sqlite then prefixState ss {} else {}) else raw
    let r1 := do let x ← m; x.migrationUp g
    let dump := do let (_, out) ← r1; renderMigration g out
    let r2 := do let (x1, _) ← r1; x1.migrationDown g
    let dumpDown := do let (_, out) ← r2; renderMigration g out
    let corr :=
      (if parseErr then (if (o "err").startsWith "error:" then okV else corrFail "load" "error:<syntax error>" (o "err"))
       else expectOutcome "load" (m.map (fun _ => "ok")) (o "err")).and <|
      (expectOutcome "state" (m.map stateDump) (o "state")).and <|
      (expectOutcome "dump" dump (o "dump")).and <|
      (expectOutcome "dump-down" dumpDown (o "dumpDown")).and <|
      (expectOutcome "state-after-outputs" (do let (x2, _) ← r2; pure (stateDump x2)) (o "stateAfterOutputs")).and <|
      (expectOutcome "hash" (do let x ← m; let h ← x.hashValue g; pure (toString h)) (o "hash"))
    -- properties on the implementation's observations
    let props : Verdict :=
      match execAll true [] ss with
      | none => { items := ["illformed-input"] }
      | some db =>
        let region := Scope.c05 g db ss
        let fidelity := fun (rc : Bool) => (do
          if o "err" != "ok" then throw s!"a well-formed script is not loaded: {o "err"}"
          let d ← parseImpl g "the schema dump (StringUp)" (o "dump")
          match execAll rc [] d with
          | none => throw s!"the dump is not a well-formed script: statement #{(firstIllFormed rc [] d).getD 0}"
          | some db' => if db'.equiv db then pure () else throw ("the dump describes a different schema: " ++ db'.diffReport db) : Check)
        let ordering : Option String :=
          if (fidelity true).toBool then none else if (fidelity false).toBool then some "referential-ordering" else none
        -- inside the executable scope of the dump theorem (`proved_dump`, Proofs/ScopeB.lean) only the statement order across
        -- tables is excused (the theorem runs the engine with its referential checks off)
        let pD := Scope.Proved.dump g ss db
        let regionDump := if pD then ordering else match region with
          | some r => some r
          | none => ordering
        let region := match region with
          | some r => some r
          | none => ordering
        let split : Check := do
          check (o "errSplit" == "ok" && o "splitEq" == "true") s!"one statement per call gives a different model ({o "errSplit"})"
          check (o "errSplit2" == "ok" && o "split2Eq" == "true") s!"a split into calls gives a different model ({o "errSplit2"})"
        -- a text the dialect's grammar rejects (FromString returned an error) must leave the model unchanged;
        -- a text the grammar happens to accept is outside the clause
        let reject : Check :=
          check (o "reject" != "error" || o "rejectUnchanged" == "true") "a rejected text changed the loaded model"
        let crash : Check :=
          match ["err", "state", "dump", "dumpDown", "hash", "errSplit", "errSplit2", "reject"].find? (fun k => isPanic (o k)) with
          | some k => throw s!"panic in {k}: {o k}"
          | none => pure ()
        (judge "C08" region (check (o "stateAfterOutputs" == o "state" || isPanic (o "dump") || isPanic (o "dumpDown"))
          "StringUp / StringDown / HashValue changed the loaded model")).and <|
        ((if pD then { items := ["proved[C05]"] } else okV : Verdict)).and <|
        (judge "C05" regionDump (fidelity true)).and <|
        (judge "C05" (region.map (· ++ "/split")) split).and <|
        (judge "C05" none reject).and <|
        (judge "C09" (Scope.c09 g db ss) crash)
    some (corr.and props)
  | _ => none

end Sqlize.Driver
