import SqlizeModel.Driver.Pair
import SqlizeModel.Impl.Mermaid
import SqlizeModel.Impl.Avro
import SqlizeModel.Spec.Exports

namespace Sqlize.Driver
open Sqlize Sqlize.Codec Sqlize.Spec

/-- the text between the first `"fields":[` of the `Value` record and its closing — extracted from a Go document -/
def valueFields (doc : String) : Option String :=
  let pre := "\"name\":\"Value\",\"namespace\":\"\",\"fields\":["
  match doc.splitOn pre with
  | _ :: rest :: _ => some ((rest.splitOn "],\"connect.name\":\"\"}]},{\"name\":\"after\"").headD "")
  | _ => none

/-- (case id export cfg (stmts…) (need…) erd live (avro…)) -/
def exportHandler : Handler
  | [cfg, stmts, need, erd, live, avro] => do
    let g ← decodeCfg cfg
    let ss ← decodeStmts stmts
    let need ← need.strs?
    let erd ← erd.str?
    let live ← live.str?
    let avro ← avro.strs?
    let m := readScript g {} ss
    let corr :=
      (expectOutcome "MermaidJsErd" (m.map (fun x => Mermaid.erd x need)) erd).and <|
      (expectOutcome "MermaidJsLive" (m.map (fun x => Mermaid.live x need)) live).and <|
      (expectOutcome "ArvoSchema" (m.map (fun x => "\n".intercalate (Avro.arvoSchema g.dialect x need))) ("\n".intercalate avro))
    let props : Verdict :=
      match execAll true [] ss with
      | none => { items := ["illformed-input"] }
      | some db =>
        let region := Scope.c14 g db ss
        let r14 : Check := do
          if isPanic erd then throw s!"MermaidJsErd panicked: {erd}"
          check (erd == Exports.erd ss db need) s!"ERD is not the one of the schema: got {SExp.quote erd} want {SExp.quote (Exports.erd ss db need)}"
          check (live == Mermaid.liveUrl ++ Base64.urlEncode erd) "MermaidJsLive is not the mermaid.ink URL of the URL-safe base64 of the ERD text"
        let r15 : Check := do
          let sel := Exports.selectDB db need
          if g.dialect != .mysql then check avro.isEmpty "ArvoSchema returned documents for a dialect other than mysql"
          else do
            check (avro.length == sel.length) s!"{avro.length} documents for {sel.length} selected tables"
            match (sel.zip avro).find? (fun (t, doc) =>
                !(doc.startsWith ("{\"type\":\"record\",\"name\":" ++ Avro.jsonStr t.name)) || valueFields doc != some (Exports.avroFields t)) with
            | some (t, doc) => throw s!"document of table {t.name} does not have exactly one correctly typed field per column: {(valueFields doc).getD doc}"
            | none => pure ()
        -- inside the executable scope of `proved_avro` (Proofs/ScopeB.lean) nothing is excused
        let pA := Scope.Proved.avro g ss
        ((if pA then { items := ["proved[C15]"] } else okV : Verdict)).and <|
        (judge "C14" region r14).and (judge "C15" (if pA then none else Scope.c15 g db ss) r15)
    some (corr.and props)
  | _ => none

end Sqlize.Driver
