import SqlizeModel.Driver.Core

namespace Sqlize.Driver

/-- (case id race cfg same sequential concurrent) -/
def raceHandler : Handler
  | [_cfg, same, seq, conc] => do
    let same ← same.bool?
    let seq ← seq.str?
    let conc ← conc.str?
    some (if same then okV else propFail "C17" s!"a goroutine's results differ from the sequential run: sequential {SExp.quote seq} concurrent {SExp.quote conc}")
  | _ => none

end Sqlize.Driver
