import SqlizeModel.Driver.Core

namespace Sqlize.Driver
open Sqlize

/-- (case id calls cfg diffed (pre…) ((method same out baseline)…)): every call must return what a fresh instance in
    the same state returns -/
def callsHandler : Handler
  | [_cfg, _diffed, _pre, .list results] => do
    let bad := results.filterMap fun r => match r with
      | .list [.atom m, .atom same, .atom out, .atom base] =>
        if same == "true" then none else some s!"{m} returned {SExp.quote out} but a fresh instance returns {SExp.quote base}"
      | _ => some "malformed result"
    let panics := results.filterMap fun r => match r with
      | .list [.atom m, _, .atom out, _] => if out.startsWith "panic:" then some s!"{m}: {out}" else none
      | _ => none
    let v1 := match bad with
      | [] => okV
      | b :: _ => propFail "C08" b
    -- panics are C09's business; they are reported there by the script / pair suites, here only as a note
    some (if panics.isEmpty then v1 else v1.and { items := ["note: " ++ (panics.headD "")] })
  | _ => none

end Sqlize.Driver
