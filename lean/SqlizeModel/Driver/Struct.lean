import SqlizeModel.Driver.Pair
import SqlizeModel.Impl.Builder
import SqlizeModel.Impl.Atoms

namespace Sqlize.Driver
open Sqlize Sqlize.Codec Sqlize.Spec Sqlize.Builder

partial def decodeGoType : SExp → Option GoType
  | .atom "bool" => some .bool | .atom "int8" => some .int8 | .atom "uint8" => some .uint8
  | .atom "int16" => some .int16 | .atom "uint16" => some .uint16 | .atom "int" => some .int
  | .atom "int32" => some .int32 | .atom "uint32" => some .uint32 | .atom "int64" => some .int64
  | .atom "uint64" => some .uint64 | .atom "float32" => some .float32 | .atom "float64" => some .float64
  | .atom "string" => some .string | .atom "time" => some .time
  | .atom "nullBool" => some .nullBool | .atom "nullInt32" => some .nullInt32 | .atom "nullInt64" => some .nullInt64
  | .atom "nullFloat64" => some .nullFloat64 | .atom "nullString" => some .nullString | .atom "nullTime" => some .nullTime
  | .atom "ptrNil" => some .ptrNil | .atom "other" => some .other
  | .list [.atom "ptrTo", t] => (decodeGoType t).map .ptrTo
  | .list [.atom "struct", .list fs] => (fs.mapM decodeField).map .struct
  | _ => none
where
  decodeField : SExp → Option Field
    | .list [.atom "field", .atom n, t, .atom tn, .atom tag] => (decodeGoType t).map (fun ty => .mk n ty tn tag)
    | _ => none

def decodeDecl : SExp → Option Decl
  | .list [.atom "decl", .atom tn, .atom tbm, .list fs] => do
    let fields ← fs.mapM decodeGoType.decodeField
    some { typeName := tn, tableNameMethod := if tbm == "" then none else some tbm, fields := fields }
  | _ => none

structure ExpCol where
  name : String
  typ : String
  opts : List String
  pk : Bool

structure Expect where
  table : String
  cols : List ExpCol
  idxs : List (String × List String × Bool × String)
  renames : List (String × String)
  fks : List FkSpec := []

def decodeFks : List SExp → Option (List FkSpec)
  | [] => some []
  | .list [.atom "fk", .atom n, .atom c, .atom rt, .atom rc] :: rest => do
    let r ← decodeFks rest
    some ({ name := n, col := c, refT := rt, refC := rc } :: r)
  | _ => none

def decodeExpect : SExp → Option Expect
  | .list [.atom "expect", tb, cols, idxs, rens, .list fks] => do
    let e ← decodeExpect (.list [.atom "expect", tb, cols, idxs, rens])
    let f ← decodeFks fks
    some { e with fks := f }
  | .list [.atom "expect", .atom tb, .list cols, .list idxs, .list rens] => do
    let cs ← cols.mapM fun c => match c with
      | .list [.atom "col", .atom n, .atom t, os, pk] => do
        let os ← os.strs?; let pk ← pk.bool?
        some { name := n, typ := t, opts := os, pk := pk : ExpCol }
      | _ => none
    let is ← idxs.mapM fun i => match i with
      | .list [.atom "idx", .atom n, cs, u, .atom using_] => do
        let cs ← cs.strs?; let u ← u.bool?
        some (n, cs, u, using_)
      | _ => none
    let rs ← rens.mapM fun r => match r with
      | .list [.atom o, .atom n] => some (o, n)
      | _ => none
    some { table := tb, cols := cs, idxs := is, renames := rs }
  | _ => none

/-- option atoms of a reference-engine column, in the vocabulary of the expectation -/
def coptAtom : COpt → String
  | .notNull => "notnull" | .null => "null" | .autoInc => "autoinc" | .uniq => "uniq"
  | .default v => "default:" ++ (if v == "CURRENT_TIMESTAMP()" then "CURRENT_TIMESTAMP" else v)
  | .comment t => "comment:" ++ t

/-- quoted segments (identifiers and string literals) of a text, in order -/
def quotedSegments (q : Char) (s : List Char) : List (List Char) :=
  let rec go (inQ : Option Char) (cur : List Char) (acc : List (List Char)) : List Char → List (List Char)
    | [] => acc.reverse
    | c :: rest =>
      match inQ with
      | some qc => if c == qc then go none [] (cur.reverse :: acc) rest else go inQ (c :: cur) acc rest
      | none => if c == q || c == '\'' then go (some c) [] acc rest else go none cur acc rest
  go none [] [] s

/-- C06 predicate: the DDL the builder printed describes exactly the schema the documented conventions give -/
def structSpec (g : Globals) (exp : Expect) (ddl : String) : Check := do
  let stmts ← parseImpl g "the DDL of AddTable" ddl
  -- referential checks off: the table a foreign key refers to belongs to another model of the same call
  let db ← match execAll false [] stmts with
    | some d => pure d
    | none => throw s!"the DDL of AddTable is not a well-formed script (statement #{(firstIllFormed false [] stmts).getD 0})"
  match db with
  | [t] =>
    check (t.name == exp.table) s!"table is named {t.name}, expected {exp.table}"
    check (t.cols.length == exp.cols.length)
      s!"{t.cols.length} columns {t.cols.map (·.name)}, expected {exp.cols.length} {exp.cols.map (·.name)}"
    match (t.cols.zip exp.cols).find? (fun (c, e) =>
        !(c.name == e.name && c.typ.toUpper == e.typ.toUpper && permEq (c.opts.map coptAtom) (e.opts.filter (· != "pk")) &&
          (t.pk.contains c.name == e.pk))) with
    | some (c, e) => throw s!"column #{(t.cols.map (·.name)).idxOf c.name}: got {c.name} {c.typ} {c.opts.map coptAtom} pk={t.pk.contains c.name}, expected {e.name} {e.typ} {e.opts} pk={e.pk}"
    | none => pure ()
    let gotIdx := t.idxs.map (fun i => (i.name, i.cols, i.unique))
    let wantIdx := exp.idxs.map (fun (n, cs, u, _) => (n, cs, u))
    check (permEq gotIdx wantIdx) s!"indexes {repr gotIdx}, expected {repr wantIdx}"
    let gotUsing := stmts.filterMap (fun s => match s with | .createIndex _ n _ _ u => some (n, u) | _ => none)
    check (exp.idxs.all (fun (n, _, _, u) => gotUsing.contains (n, u))) s!"index types {repr gotUsing}, expected {repr (exp.idxs.map (fun (n, _, _, u) => (n, u)))}"
    let gotRen := stmts.filterMap (fun s => match s with | .renameColumn _ o n => some (o, n) | _ => none)
    check (permEq gotRen exp.renames) s!"renames {repr gotRen}, expected {repr exp.renames}"
    check (permEq t.fks exp.fks) s!"foreign keys {repr t.fks}, expected {repr exp.fks}"
  | _ => throw s!"AddTable describes {db.length} tables"

/-- (case id struct cfg (bcfg comment plural) decl expect ddl ddlFlip load dump hash extra);
    `extra` = `()` or `((childFirst b) parentDecl)`: another model loaded by the same `FromObjects` call -/
def structHandler10 : Handler
  | [cfg, .list [.atom "bcfg", cm, pl], decl, expect, ddl, ddlFlip, load, dump, hash, .list extra] => do
    let g ← decodeCfg cfg
    let cm ← cm.bool?; let pl ← pl.bool?
    let d ← decodeDecl decl
    let exp ← decodeExpect expect
    let ddl ← ddl.str?; let ddlFlip ← ddlFlip.str?; let load ← load.str?; let dump ← dump.str?; let hash ← hash.str?
    let (childFirst, parents) ← (match extra with
      | [] => some (true, [])
      | [.list [.atom "childFirst", b], pd] => do
        let b ← b.bool?; let p ← decodeDecl pd
        some (b, [p])
      | _ => none : Option (Bool × List Decl))
    let nameCfg : Cfg := { dialect := g.dialect, plural := pl }
    -- `FromObjects` registers the table name of every model of the call before it builds the first DDL
    let bc : Cfg := { dialect := g.dialect, lower := g.lower, generateComment := cm, plural := pl,
                      tables := (d :: parents).map (fun x => (x.typeName, tableName nameCfg x)) }
    let mddl := addTable bc d
    let mflip := addTable { bc with lower := !bc.lower } d
    let order := if childFirst then d :: parents else parents ++ [d]
    -- the struct route continues through the dialect's reader: model it on the statements of the model's DDL
    let viaReader : M (String × String) := do
      let m ← order.foldlM (fun (m : Migration) (x : Decl) => do
        let stmts ← (match Grammar.parseScript g.dialect (addTable bc x) with
          | .ok s => pure s
          | .error e => .error ("PARSE: " ++ e) : M (List Stmt))
        readScript g m (stmts.map (Atoms.canonStmt g.dialect))) {}
      let h ← m.hashValue g
      let (_, out) ← m.migrationUp g
      let text ← renderMigration g out
      pure (text, toString h)
    let corr :=
      (expectEq "AddTable" mddl ddl).and <| (expectEq "AddTable-other-case" mflip ddlFlip).and <|
      (if load == "ok" && g.dialect == .mysql then
        (expectOutcome "FromObjects-dump" (viaReader.map (·.1)) dump).and (expectOutcome "FromObjects-hash" (viaReader.map (·.2)) hash)
       else okV)
    -- the DDL the builder printed, against the expected schema (also judged for structs with a field of a Go type that
    -- has no SQL mapping: that field's column is expected with the type UNSPECIFIED / POINTER)
    let r06ddl : Check := do
      if isPanic ddl then throw s!"AddTable panicked: {ddl}"
      structSpec g exp ddl
    let r06 : Check := do
      if isPanic ddl then throw s!"AddTable panicked: {ddl}"
      check (load == "ok") s!"FromObjects does not load the generated DDL: {load}"
      -- what FromObjects loaded (all models of the call), printed back: the foreign keys of this model's table
      if g.dialect == .mysql && !isPanic dump then do
        let ds ← parseImpl g "StringUp after FromObjects" dump
        let got := ds.filterMap (fun s => match s with
          | .addFk t n c rt rc => if t == exp.table then some ({ name := n, col := c, refT := rt, refC := rc } : FkSpec) else none
          | _ => none)
        check (permEq got exp.fks) s!"FromObjects loaded the foreign keys {repr got}, expected {repr exp.fks}"
    -- postgres with generated comments: COMMENT ON statements follow the RENAME of a `previous` column but name the old
    -- column (part of the recorded finding postgres-builder-output)
    let prevWithComment := Scope.anyTags (fun t => (t.splitOn ",previous:").length > 1 &&
      ((t.splitOn ";").map Builder.snake).any (fun n => n.startsWith "comment:")) d.fields
    let regionDdl := if g.dialect == .postgres && (cm || prevWithComment) then some "postgres-builder-output"
      else Scope.c06 g d (allowUnsupported := true) (ddlOnly := true)
    let r10 : Check := do
      check (toLowerAscii ddl == toLowerAscii ddlFlip) "the two keyword-case options differ by more than ASCII case"
      let q := Grammar.quoteOf g.dialect
      check (quotedSegments q ddl.toList == quotedSegments q ddlFlip.toList) "an identifier, string literal or comment differs between the two keyword-case options"
    some (corr.and (((judge "C06" regionDdl r06ddl).and (judge "C06" (Scope.c06 g d) r06)).and (judge "C10" (Scope.c06 g d) r10)))
  | _ => none

/-- C03 on the struct route: the same models loaded twice, and the models against sqlize's own dump of them, diff to
    nothing (structs with a pending `previous` rename marker are excluded by the property) -/
def structC03 (g : Globals) (d : Decl) : SExp → Verdict
  | .list [.atom "c03", .atom su, .atom sd, .atom du, .atom dd] =>
    let region := (Scope.c06 g d).orElse fun _ =>
      if Scope.anyTags (fun t => (t.splitOn ",previous:").length > 1) d.fields then some "excluded:pending-previous-rename" else none
    let r : Check := do
      check (su == "" && sd == "") s!"the same models loaded twice give a non-empty migration: up={SExp.quote su} down={SExp.quote sd}"
      check (du == "" && dd == "") s!"models against sqlize's own dump of them give a non-empty migration: up={SExp.quote du} down={SExp.quote dd}"
    judge "C03" region r
  | _ => okV

def structHandler : Handler
  | [cfg, bcfg, decl, expect, ddl, ddlFlip, load, dump, hash] =>
    structHandler10 [cfg, bcfg, decl, expect, ddl, ddlFlip, load, dump, hash, .list []]
  | [cfg, bcfg, decl, expect, ddl, ddlFlip, load, dump, hash, extra, c03] => do
    let v ← structHandler10 [cfg, bcfg, decl, expect, ddl, ddlFlip, load, dump, hash, extra]
    let g ← decodeCfg cfg
    let d ← decodeDecl decl
    some (v.and (structC03 g d c03))
  | [cfg, bcfg, decl, expect, ddl, ddlFlip, load, dump, hash, extra, c03, .list [.atom "snake", has, sn]] => do
    let v0 ← structHandler10 [cfg, bcfg, decl, expect, ddl, ddlFlip, load, dump, hash, extra]
    let g ← decodeCfg cfg
    let d ← decodeDecl decl
    let v := v0.and (structC03 g d c03)
    let has ← has.bool?; let sn ← sn.str?; let ddlS ← ddl.str?
    -- C10, tag spelling: the twin declaration with every tag key in snake_case gives the same DDL text
    let r : Check := check (ddlS == sn) s!"the declaration with snake_case tag keys gives another DDL: {SExp.quote sn}"
    some (if has then v.and (judge "C10" (Scope.c06 g d (allowUnsupported := true) (ddlOnly := true)) r) else v)
  | args => structHandler10 args

end Sqlize.Driver
