/-
  Driver/Core.lean — verdict type and helpers shared by all suites of the line-protocol driver.
  A case is one S-expression per line:  (case <id> <suite> <arg>...)
  The answer is one line:               <id> TAB <status> TAB <detail>
    status = ok        model and implementation agree and the property predicate holds on the implementation's output
             corr      the implementation's observation differs from the model's (correspondence broken)
             prop      the executable property predicate fails on the implementation's output
             corr+prop both
             skip      case outside the modelled domain (detail names the region)
             bad       malformed case line
-/
import SqlizeModel.Base.SExp

namespace Sqlize.Driver

structure Verdict where
  corrOk : Bool := true
  propOk : Bool := true
  skip : Option String := none
  detail : List String := []

def Verdict.status (v : Verdict) : String :=
  match v.skip with
  | some _ => "skip"
  | none =>
    match v.corrOk, v.propOk with
    | true, true => "ok"
    | false, true => "corr"
    | true, false => "prop"
    | false, false => "corr+prop"

def Verdict.render (id : String) (v : Verdict) : String :=
  let d := match v.skip with
    | some r => r
    | none => " | ".intercalate v.detail
  let d := (d.replace "\n" "\\n").replace "\t" "\\t"
  id ++ "\t" ++ v.status ++ "\t" ++ d

def Verdict.and (a b : Verdict) : Verdict :=
  { corrOk := a.corrOk && b.corrOk, propOk := a.propOk && b.propOk,
    skip := a.skip <|> b.skip, detail := a.detail ++ b.detail }

/-- first differing line of two multi-line texts -/
def firstDiff (a b : String) : String × String :=
  let rec go : List String → List String → String × String
    | x :: xs, y :: ys => if x == y then go xs ys else (x, y)
    | x :: _, [] => (x, "<end>")
    | [], y :: _ => ("<end>", y)
    | [], [] => ("", "")
  go (a.splitOn "\n") (b.splitOn "\n")

def corrFail (what : String) (model impl : String) : Verdict :=
  let (m, i) := firstDiff model impl
  { corrOk := false, detail := [s!"corr {what}: model={SExp.quote m} impl={SExp.quote i}"] }

def propFail (what : String) : Verdict :=
  { propOk := false, detail := [s!"prop {what}"] }

def okV : Verdict := {}

/-- compare a model string with the implementation's observation -/
def expectEq (what : String) (model impl : String) : Verdict :=
  if model == impl then okV else corrFail what model impl

abbrev Handler := List SExp → Option Verdict

end Sqlize.Driver
