/-
  Driver/Core.lean — verdict type and helpers shared by all suites of the line-protocol driver.
  A case is one S-expression per line:  (case <id> <suite> <arg>...)
  The answer is one line:               <id> TAB <status> TAB <items joined by " | ">
    status = ok     nothing failed (out-of-scope notes may be present)
             fail   at least one `corr[...]` or `prop[...]` item
             bad    malformed case line
    items  = corr[<point>]: model=… impl=…      the implementation's observation differs from the model's
             prop[<Cxx>]: <reason>               the executable property predicate fails on the implementation's output,
                                                 on an input inside the property's proved scope
             oos[<Cxx>:<region>]: fails|holds …  the input is outside the scope of `Cxx_partial` (region = which hypothesis
                                                 fails); whether the property happens to fail there is reported, not judged
             unmodelled[<what>]                  the model refuses this path (e.g. capacity-dependent slice code)
-/
import SqlizeModel.Base.SExp

namespace Sqlize.Driver

structure Verdict where
  items : List String := []
  failed : Bool := false

def Verdict.status (v : Verdict) : String := if v.failed then "fail" else "ok"

def Verdict.render (id : String) (v : Verdict) : String :=
  let d := " | ".intercalate v.items
  let d := (d.replace "\n" "\\n").replace "\t" "\\t"
  id ++ "\t" ++ v.status ++ "\t" ++ d

def Verdict.and (a b : Verdict) : Verdict :=
  { items := a.items ++ b.items, failed := a.failed || b.failed }

def okV : Verdict := {}

/-- first differing line of two multi-line texts -/
def firstDiff (a b : String) : String × String :=
  let rec go : List String → List String → String × String
    | x :: xs, y :: ys => if x == y then go xs ys else (x, y)
    | x :: _, [] => (x, "<end>")
    | [], y :: _ => ("<end>", y)
    | [], [] => ("", "")
  go (a.splitOn "\n") (b.splitOn "\n")

def corrFail (what : String) (model impl : String) : Verdict :=
  let (m, i) := firstDiff model impl
  { failed := true, items := [s!"corr[{what}]: model={SExp.quote m} impl={SExp.quote i}"] }

def propFail (pid : String) (why : String) : Verdict :=
  { failed := true, items := [s!"prop[{pid}]: {why}"] }

/-- out of the proved scope of `pid` (region names the failed hypothesis); `fails` = the predicate is false there -/
def oosNote (pid region : String) (fails : Bool) (why : String := "") : Verdict :=
  { items := [s!"oos[{pid}:{region}]: {if fails then "fails " ++ why else "holds"}"] }

def unmodelled (what : String) : Verdict := { items := [s!"unmodelled[{what}]"] }

/-- compare a model string with the implementation's observation -/
def expectEq (what : String) (model impl : String) : Verdict :=
  if model == impl then okV else corrFail what model impl

/-- a property result routed through its scope: `region = none` ⇒ in scope -/
def judge (pid : String) (region : Option String) (result : Except String Unit) : Verdict :=
  match region, result with
  | none, .ok _ => okV
  | none, .error why => propFail pid why
  | some r, .ok _ => oosNote pid r false
  | some r, .error why => oosNote pid r true why

abbrev Handler := List SExp → Option Verdict

end Sqlize.Driver
