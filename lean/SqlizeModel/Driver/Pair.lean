import SqlizeModel.Driver.Core
import SqlizeModel.Driver.Codec
import SqlizeModel.Impl.ReaderMysql
import SqlizeModel.Impl.Diff
import SqlizeModel.Impl.Emit
import SqlizeModel.Impl.Render
import SqlizeModel.Impl.Api
import SqlizeModel.Impl.Hash
import SqlizeModel.Spec.Props
import SqlizeModel.Spec.Grammar
import SqlizeModel.Spec.Scope
import SqlizeModel.Spec.ProvedScope

namespace Sqlize.Driver
open Sqlize Sqlize.Codec Sqlize.Spec

def isPanic (s : String) : Bool := s.startsWith "panic:"
def isUnmodelledMsg (s : String) : Bool := (s.splitOn "UNMODELLED").length > 1

/-- compare an implementation observation with the model's outcome; panics are compared as "both panic" -/
def expectOutcome (what : String) (model : M String) (impl : String) : Verdict :=
  match model with
  | .ok s => if s == impl then okV else corrFail what s impl
  | .error e =>
    if isUnmodelledMsg e then unmodelled e
    else if isPanic impl then okV else corrFail what ("panic:" ++ e) impl

structure PairRun where
  mOld : M Migration
  mNew : M Migration
  mDiff : M Migration
  up : M String
  down : M String
  up2 : M String

def runPairModel (g : Globals) (old new : List Stmt) : PairRun :=
  let mOld := readScript g {} old
  let mNew := readScript g {} new
  let mDiff := do let o ← mOld; let n ← mNew; n.diff g.dialect o
  let r1 := do let d ← mDiff; d.migrationUp g
  let up := do let (_, ss) ← r1; renderMigration g ss
  let r2 := do let (d1, _) ← r1; d1.migrationDown g
  let down := do let (_, ss) ← r2; renderMigration g ss
  -- a panicking StringDown is recovered by the harness; the instance keeps the state it had before the call
  let r3 := do
    let d2 ← (match r2 with
      | .ok (d2, _) => pure d2
      | .error _ => do let (d1, _) ← r1; pure d1 : M Migration)
    d2.migrationUp g
  let up2 := do let (_, ss) ← r3; renderMigration g ss
  { mOld, mNew, mDiff, up, down, up2 }

def pairCorr (g : Globals) (run : PairRun) (obs : List SExp) : Verdict :=
  let o := fun k => (obsStr obs k).getD "<missing>"
  let errOf := fun (m : M Migration) => (m.map (fun _ => "ok"))
  (expectOutcome "load-old" (errOf run.mOld) (o "errOld")).and <|
  (expectOutcome "load-new" (errOf run.mNew) (o "errNew")).and <|
  (expectOutcome "state-old" (run.mOld.map stateDump) (o "stOld")).and <|
  (expectOutcome "state-new" (run.mNew.map stateDump) (o "stNew")).and <|
  (expectOutcome "hash-old" (do let x ← run.mOld; let h ← x.hashValue g; pure (toString h)) (o "hOld")).and <|
  (expectOutcome "hash-new" (do let x ← run.mNew; let h ← x.hashValue g; pure (toString h)) (o "hNew")).and <|
  (expectOutcome "Diff" (errOf run.mDiff) (o "errDiff")).and <|
  (expectOutcome "state-diff" (run.mDiff.map stateDump) (o "stDiff")).and <|
  (expectOutcome "StringUp" run.up (o "up")).and <|
  (expectOutcome "StringDown" run.down (o "down")).and <|
  (expectOutcome "StringUp-2nd" run.up2 (o "up2"))

/-- the same pair under the other keyword-case option (C10) -/
def pairCaseCorr (g : Globals) (old new : List Stmt) (obs : List SExp) : Verdict :=
  let o := fun k => (obsStr obs k).getD "<missing>"
  let run := runPairModel { g with lower := !g.lower } old new
  (expectOutcome "StringUp-other-case" run.up (o "upCase")).and <|
  (expectOutcome "StringDown-other-case" run.down (o "downCase"))

/-- sqlite prints `DROP INDEX name;` without a table: resolve it against the schema it runs on -/
def resolveDropIndex (db : DB) : List Stmt → List Stmt
  | [] => []
  | .dropIndex "" n :: rest =>
    let t := ((db.find? (fun tb => tb.idxs.any (·.name == n))).map (·.name)).getD ""
    .dropIndex t n :: resolveDropIndex db rest
  | s :: rest => s :: resolveDropIndex db rest

/-- parse a migration text printed by the implementation -/
def parseImpl (g : Globals) (what : String) (text : String) : Except String (List Stmt) :=
  if isPanic text then .error s!"{what} panicked: {text}"
  else match Grammar.parseScript g.dialect text with
    | .ok ss => .ok ss
    | .error e => .error s!"{what} is not accepted by the grammar: {e}"

/-- the property predicates evaluated on the implementation's outputs -/
def pairProps (g : Globals) (old new : List Stmt) (obs : List SExp) : Verdict :=
  let o := fun k => (obsStr obs k).getD "<missing>"
  match execAll true [] old, execAll true [] new with
  | some dbOld, some dbNew =>
    let up := parseImpl g "StringUp" (o "up")
    let down := parseImpl g "StringDown" (o "down")
    let r01 := fun (rc : Bool) => (do let u ← up; c01 g.ignoreOrder dbOld dbNew (resolveDropIndex dbOld u) rc : Check)
    let r02 := fun (rc : Bool) => (do let d ← down; c02 g.ignoreOrder dbOld dbNew (resolveDropIndex dbNew d) rc : Check)
    let r03 : Check := do let u ← up; let d ← down; c03 dbOld dbNew u d
    let r13 := fun (rc : Bool) => (do
      let u ← up; let d ← down
      if g.ignoreOrder then do
        c13NoPositions (u ++ d)
        let uf ← parseImpl g "StringUp(default order setting)" (o "upFlip")
        let df ← parseImpl g "StringDown(default order setting)" (o "downFlip")
        c13Same uf u
        c13Same df d
      else do
        -- default setting: the table ends up in the models' column order (the ordered equivalence of C01)
        migrates false dbOld dbNew (resolveDropIndex dbOld u) rc : Check)
    -- the same for the down migration: it puts the table back in the *old* models' column order (seeded change C13-g)
    let r13d := fun (rc : Bool) => (do
      let d ← down
      if g.ignoreOrder then pure () else migrates false dbNew dbOld (resolveDropIndex dbNew d) rc : Check)
    -- a failure that disappears when referential checks are switched off is an ordering-only failure (region F23)
    let ordering := fun (r : Bool → Check) (region : Option String) =>
      match region with
      | some x => some x
      | none => if (r true).toBool then none else if (r false).toBool then some "referential-ordering" else none
    -- a side written in statements the dialect's reader glue does not understand (recorded findings)
    let readerRegion : Option String := (Scope.c05 g dbOld old).orElse fun _ => Scope.c05 g dbNew new
    let readerRegion := if g.dialect == .mysql then none else readerRegion
    let withReader := fun (r : Option String) => r.orElse fun _ => readerRegion
    -- inside the executable scope of the whole-schema theorems (Proofs/ScopeB.lean) nothing is excused — except, now that
    -- the scope includes foreign keys, a failure that disappears when the engine's referential checks are switched off:
    -- the theorems are about `c01 … false` / `c02 … false`, the statement order across tables is the recorded finding
    let pU := Scope.Proved.up g old new dbOld dbNew
    let pD := Scope.Proved.down g old new dbOld dbNew
    let unlessProved := fun (p : Bool) (r : Option String) => if p then none else r
    let provedNote := fun (pid : String) (p : Bool) => (if p then { items := [s!"proved[{pid}]"] } else okV : Verdict)
    ({ items := [s!"scope[{Scope.Proved.whyNot g old new dbOld dbNew}]"] } : Verdict).and <|
    (provedNote "C01" pU).and <| (provedNote "C02" pD).and <| (provedNote "C03" (pU && pD)).and <|
    (judge "C01" (if pU then ordering r01 none else ordering r01 (withReader (Scope.c01 g dbOld dbNew old new))) (r01 true)).and <|
    (judge "C02" (if pD then ordering r02 none else ordering r02 (withReader (Scope.c02 g dbOld dbNew old new))) (r02 true)).and <|
    (judge "C03" (unlessProved (pU && pD) (withReader (Scope.c03 g dbOld dbNew old new))) r03).and <|
    let r10 : Check := do
      let skip := isPanic (o "up") || isPanic (o "upCase") || isPanic (o "down") || isPanic (o "downCase")
      if skip then pure () else do
        c10CaseOnly (o "up") (o "upCase")
        c10CaseOnly (o "down") (o "downCase")
    -- C09 on pairs: no observation of a pair of well-formed scripts is a recovered panic (sqlite: outside the recorded
    -- reader region only)
    let crash : Check :=
      match ["errOld", "errNew", "stOld", "stNew", "hOld", "hNew", "errDiff", "stDiff", "up", "down", "up2", "upCase", "downCase"].find?
          (fun k => isPanic (o k)) with
      | some k => throw s!"panic in {k}: {o k}"
      | none => pure ()
    let region09 := (Scope.c09 g dbOld old).orElse fun _ => Scope.c09 g dbNew new
    -- under the option C13's two predicates are theorems of the model for every pair (`C13.option_predicates`, no hypothesis):
    -- for the MySQL reader nothing is excused there
    (let p13 := g.dialect == .mysql && g.ignoreOrder
     ((if p13 then { items := ["proved[C13]"] } else okV : Verdict)).and
      (judge "C13" (if p13 then none else ordering r13 (withReader (Scope.c13 g dbOld dbNew old new))) (r13 true))).and <|
    (judge "C13" (ordering r13d (withReader ((Scope.c13 g dbOld dbNew old new).orElse fun _ => Scope.c02 g dbOld dbNew old new))) (r13d true)).and <|
    (judge "C10" none r10).and <|
    (judge "C09" region09 crash)
  | _, _ => { items := ["illformed-input"] }

def pairHandler : Handler
  | [cfg, old, new, .list obs] => do
    let g ← decodeCfg cfg
    let o ← decodeStmts old
    let n ← decodeStmts new
    let run := runPairModel g o n
    some (((pairCorr g run obs).and (pairCaseCorr g o n obs)).and (pairProps g o n obs))
  | _ => none

end Sqlize.Driver

namespace Sqlize.Driver
open Sqlize Sqlize.Codec Sqlize.Spec

/-- (case id routes cfg route1 route2 (stmts…) errs up down): the same schema by two routes must diff to nothing -/
def routesHandler : Handler
  | [cfg, r1, r2, stmts, errs, up, down] => do
    let g ← decodeCfg cfg
    let r1 ← r1.str?; let r2 ← r2.str?
    let ss ← decodeStmts stmts
    let errs ← errs.str?; let up ← up.str?; let down ← down.str?
    let region : Option String := match execAll true [] ss with
      | none => some "excluded:ill-formed-input"
      | some db =>
        (Scope.c03 g db db ss ss).orElse fun _ =>
          -- the primary key has two representations (column option / `primary_key` index): a single-column key written
          -- inline on one side and as a table-level constraint on the other is reported as changed (recorded finding)
          if (r1 == "table-level-pk") != (r2 == "table-level-pk") && db.any (fun t => t.pk.length == 1) then some "pk-inline-vs-table-level"
          else if g.dialect == .sqlite then some "sqlite-reader-vocabulary"
          else if g.dialect == .postgres && !(Scope.pgFragment "" ss) then some "postgres-reader-vocabulary"
          else if g.dialect == .postgres && (r1 == "canonical" || r2 == "canonical") then some "postgres-reader-vocabulary"
          else if g.dialect == .postgres && (r1 == "own-dump" || r2 == "own-dump") then some "postgres-migrations-not-rereadable"
          else none
    let r : Check := do
      check (errs == "ok,ok,ok") s!"loading by route {r1} / {r2} failed: {errs}"
      check (up == "" && down == "") s!"the same schema loaded by routes {r1} and {r2} gives a non-empty migration: up={SExp.quote up} down={SExp.quote down}"
    some (judge "C03" region r)
  | _ => none

end Sqlize.Driver
