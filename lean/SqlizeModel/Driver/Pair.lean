import SqlizeModel.Driver.Core
import SqlizeModel.Driver.Codec
import SqlizeModel.Impl.ReaderMysql
import SqlizeModel.Impl.Diff
import SqlizeModel.Impl.Emit
import SqlizeModel.Impl.Render

namespace Sqlize.Driver
open Sqlize Sqlize.Codec

/-- how an `Except` outcome is shown to match the harness's `guard` encoding -/
def outcome (r : M String) : String :=
  match r with
  | .ok s => s
  | .error e => "panic:" ++ e

def isPanic (s : String) : Bool := s.startsWith "panic:"
def isUnmodelled (s : String) : Bool := (s.splitOn "UNMODELLED").length > 1

/-- compare an implementation observation with the model's outcome; panics are compared as "both panic" -/
def expectOutcome (what : String) (model : M String) (impl : String) : Verdict :=
  match model with
  | .ok s => if s == impl then okV else corrFail what s impl
  | .error e =>
    if isUnmodelled e then { skip := some ("unmodelled-path " ++ e) }
    else if isPanic impl then okV else corrFail what ("panic:" ++ e) impl

def readScript (g : Globals) (m : Migration) (ss : List Stmt) : M Migration :=
  match g.dialect with
  | .mysql => ReaderMysql.run m ss
  | _ => .error "UNMODELLED reader for this dialect"

structure PairRun where
  mOld : M Migration
  mNew : M Migration
  mDiff : M Migration
  up : M String
  down : M String
  up2 : M String
  upStmts : M (List (List Stmt))
  downStmts : M (List (List Stmt))

def runPairModel (g : Globals) (old new : List Stmt) : PairRun :=
  let mOld := readScript g {} old
  let mNew := readScript g {} new
  let mDiff := do let o ← mOld; let n ← mNew; n.diff g.dialect o
  let r1 := do let d ← mDiff; d.migrationUp g
  let up := do let (_, ss) ← r1; renderMigration g ss
  let r2 := do let (d1, _) ← r1; d1.migrationDown g
  let down := do let (_, ss) ← r2; renderMigration g ss
  let r3 := do let (d2, _) ← r2; d2.migrationUp g
  let up2 := do let (_, ss) ← r3; renderMigration g ss
  { mOld, mNew, mDiff, up, down, up2, upStmts := r1.map (·.2), downStmts := r2.map (·.2) }

/-- (case id pair cfg (old...) (new...) ((errOld ..) (errNew ..) (stOld ..) ...)) — correspondence part -/
def pairCorr (g : Globals) (run : PairRun) (obs : List SExp) : Verdict :=
  let o := fun k => (obsStr obs k).getD "<missing>"
  let errOf := fun (m : M Migration) => (m.map (fun _ => "ok"))
  (expectOutcome "load(old)" (errOf run.mOld) (o "errOld")).and <|
  (expectOutcome "load(new)" (errOf run.mNew) (o "errNew")).and <|
  (expectOutcome "state(old)" (run.mOld.map stateDump) (o "stOld")).and <|
  (expectOutcome "state(new)" (run.mNew.map stateDump) (o "stNew")).and <|
  (expectOutcome "Diff" (errOf run.mDiff) (o "errDiff")).and <|
  (expectOutcome "state(diff)" (run.mDiff.map stateDump) (o "stDiff")).and <|
  (expectOutcome "StringUp" run.up (o "up")).and <|
  (expectOutcome "StringDown" run.down (o "down")).and <|
  (expectOutcome "StringUp(2nd)" run.up2 (o "up2"))

def pairHandler : Handler
  | [cfg, old, new, .list obs] => do
    let g ← decodeCfg cfg
    let o ← decodeStmts old
    let n ← decodeStmts new
    let run := runPairModel g o n
    some (pairCorr g run obs)
  | _ => none

end Sqlize.Driver
