import SqlizeModel.Driver.Core
import SqlizeModel.Impl.Files

namespace Sqlize.Driver
open Sqlize Sqlize.Files

def decodeEntry : SExp → Option (String × Option String)
  | .list [.atom "file", .atom p, .atom c] => some (p, some c)
  | .list [.atom "dir", .atom p] => some (p, none)
  | _ => none

/-- file-name characters allowed by C11 -/
def nameOk (s : String) : Bool := s.toList.all (fun c => isLower c || isDigit c || c == '_')

/-- (case id files name upSuffix downSuffix upText downText err t0 t1 (listing…) (foreign…)) -/
def filesHandler : Handler
  | [name, upS, downS, upT, downT, err, t0, t1, .list listing, .list foreign] => do
    let name ← name.str?; let upS ← upS.str?; let downS ← downS.str?
    let upT ← upT.str?; let downT ← downT.str?; let err ← err.str?
    let t0 ← t0.str?; let t1 ← t1.str?
    let got ← listing.mapM decodeEntry
    let frn ← foreign.mapM decodeEntry
    let written := got.filter (fun e => !frn.contains e)
    let cfg : FileCfg := { folder := "", upSuffix := upS, downSuffix := downS }
    -- the clock is read once between t0 and t1; accept either second
    let expect := fun (ts : String) => (writeFiles cfg ts name upT downT).map (fun (p, c) => (p, some c))
    let sortE := fun (l : List (String × Option String)) => (l.foldr (fun p acc => insertByName (p.1, (p.2.getD "<dir>")) acc) []).map (·.1)
    let same := fun (a b : List (String × Option String)) => a.length == b.length && a.all b.contains && (sortE a == sortE b)
    let corrOk := same written (expect t0) || same written (expect t1)
    let v1 := if err != "ok" then propFail "C11" s!"WriteFiles returned an error in a writable folder" else
      if corrOk then okV else corrFail "writeFiles" (toString (repr (expect t0))) (toString (repr written))
    -- property predicate, stated directly on what is on disk
    let frnKept := frn.all got.contains
    let stamps := [t0, t1]
    let wellNamed := written.all fun (p, _) =>
      stamps.any fun ts =>
        (p.startsWith (ts ++ "_")) &&
        ((p.endsWith upS && nameOk ((p.drop (ts.length + 1)).toString.dropEnd upS.length).toString) ||
         (downS != "" && p.endsWith downS && nameOk ((p.drop (ts.length + 1)).toString.dropEnd downS.length).toString))
    let expectedCount := if upT == "" && downT == "" then 0 else if downS != "" && downS != upS then 2 else 1
    let contents := written.all fun (_, c) =>
      match c with
      | some txt => txt == genDescription ++ (if upT == "" then emptyMigration else upT) ||
                    txt == genDescription ++ (if downT == "" then emptyMigration else downT)
      | none => false
    let v2 := if !frnKept then propFail "C11" "a foreign file or directory was touched"
      else if written.length != expectedCount then propFail "C11" s!"{written.length} files written, {expectedCount} expected: {repr written}"
      else if !wellNamed then propFail "C11" s!"file name is not <14-digit timestamp>_<[a-z0-9_]*><suffix>: {repr (written.map (·.1))}"
      else if !contents then propFail "C11" "file content is not header + migration text / empty marker"
      else okV
    some (v1.and v2)
  | _ => none

/-- (case id filesread suffix ((name content)…) (got…) err) -/
def filesReadHandler : Handler
  | [suffix, .list entries, got, err] => do
    let suffix ← suffix.str?
    let es ← entries.mapM fun e => match e with
      | .list [.atom n, .atom c] => some (n, c)
      | _ => none
    let got ← got.strs?
    let err ← err.str?
    let model := readFolder es suffix
    let v1 := expectEq "ReadPath" (toString model) (toString got)
    -- predicate: exactly the non-hidden entries ending with the suffix, ascending by name
    let want := es.filter (fun e => e.1.endsWith suffix && !e.1.startsWith ".")
    let sortedNames := (sortByName want).map (·.2)
    let v2 := if err != "ok" then propFail "C11" "ReadPath failed on an existing folder"
      else if got == sortedNames then okV else propFail "C11" s!"ReadPath returned {got}, expected {sortedNames}"
    some (v1.and v2)
  | _ => none

/-- (case id filesmisc what got expected) -/
def filesMiscHandler : Handler
  | [what, got, want] => do
    let what ← what.str?; let got ← got.str?; let want ← want.str?
    some (if got == want then okV else propFail "C11" s!"{what}: got {got}, expected {want}")
  | _ => none

/-- (case id filesseq (written…) (reloaded…) upAfterReload downAfterReload) -/
def filesSeqHandler : Handler
  | [written, got, up, down] => do
    let written ← written.strs?; let got ← got.strs?
    let up ← up.str?; let down ← down.str?
    some (if written != got then propFail "C11" s!"successive writes are not reloaded in write order: wrote {written.length} files, reloaded {repr got}"
          else if up != "" || down != "" then propFail "C11" s!"the reloaded folder does not build the models' schema: next diff is {SExp.quote up}"
          else okV)
  | _ => none

/-- the same check for two writes within one second: out of the scope of the "strictly increasing timestamps" hypothesis -/
def filesSeqFastHandler : Handler
  | [written, got, _, _] => do
    let written ← written.strs?; let got ← got.strs?
    some (judge "C11" (some "same-second-writes")
      (if written == got then .ok () else .error "two writes within the same second are reloaded in name order, not in write order"))
  | _ => none

/-- (case id filesover (texts…) (listing…)): every file holds exactly header + one of the texts -/
def filesOverHandler : Handler
  | [texts, .list listing] => do
    let texts ← texts.strs?
    let got ← listing.mapM decodeEntry
    let bad := got.find? fun (_, c) => match c with
      | some txt => !(texts.any (fun t => txt == genDescription ++ t))
      | none => true
    some (match bad with
      | none => okV
      | some (p, c) => propFail "C11" s!"file {p} does not hold exactly the header followed by one migration text: {SExp.quote ((c.getD "<dir>").take 200).toString}")
  | _ => none

end Sqlize.Driver
