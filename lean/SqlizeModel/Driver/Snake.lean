import SqlizeModel.Driver.Core
import SqlizeModel.Impl.Snake
import SqlizeModel.Spec.Snake

namespace Sqlize.Driver
open Sqlize

/-- (case id snake <input> <go-output>) -/
def snakeHandler : Handler
  | [inp, out] => do
    let i ← inp.str?
    let o ← out.str?
    let m := String.ofList (Snake.toSnake i.toList)
    let v1 := expectEq "ToSnakeCase" m o
    let v2 := if SnakeSpec.snakeSpecOK i.toList o.toList then okV
              else propFail "C16" s!"placement rules fail on input {SExp.quote i} output {SExp.quote o}"
    some (v1.and v2)
  | _ => none

end Sqlize.Driver
