import SqlizeModel.Driver.Pair
import SqlizeModel.Impl.Version
import SqlizeModel.Spec.Version

namespace Sqlize.Driver
open Sqlize Sqlize.Codec Sqlize.VersionSpec

/-- the declarative C12 text for one configuration, independent of the templates -/
def specUp (d : Dialect) (lower : Bool) (table : String) (ver : Int) (dirty : Bool) : String :=
  String.ofList (if ver == 0 then createTable d lower table.toList
    else replaceRow lower table.toList (toString ver).toList (fmtBool dirty).toList)

def specDown (lower : Bool) (table : String) (ver : Int) : String :=
  String.ofList (if ver == 0 then dropTable lower table.toList else deleteRow lower table.toList)

/-- (case id version cfg table ver dirty plainUp plainDown upWithVersion downWithVersion) -/
def versionHandler : Handler
  | [cfg, tb, ver, dirty, pu, pd, up, down] => do
    let g ← decodeCfg cfg
    let tb ← tb.str?
    let ver ← ver.int?
    let dirty ← dirty.bool?
    let pu ← pu.str?
    let pd ← pd.str?
    let up ← up.str?
    let down ← down.str?
    let c : VersionCfg := { dialect := g.dialect, lower := g.lower, table := tb }
    let v1 := (expectEq "StringUpWithVersion" (stringUpWithVersion c pu ver dirty) up).and
              (expectEq "StringDownWithVersion" (stringDownWithVersion c pd ver) down)
    -- the property predicate on the implementation's output, from the declarative spec
    let okUp := up == pu ++ "\n" ++ specUp g.dialect g.lower tb ver dirty
    let okDown := down == pd ++ "\n" ++ specDown g.lower tb ver
    let v2 := if okUp then okV else propFail "C12" s!"StringUpWithVersion is not the plain migration + newline + the exact bookkeeping statement: {SExp.quote up}"
    let v3 := if okDown then okV else propFail "C12" s!"StringDownWithVersion is not the plain migration + newline + the exact bookkeeping statement: {SExp.quote down}"
    some (v1.and (v2.and v3))
  | _ => none

/-- (case id versionexcl cfg table up down): no statement of a schema migration may target the bookkeeping table -/
def versionExclHandler : Handler
  | [cfg, tb, up, down] => do
    let g ← decodeCfg cfg
    let tb ← tb.str?
    let up ← up.str?
    let down ← down.str?
    let r : Spec.Check := do
      let u ← parseImpl g "StringUp" up
      let d ← parseImpl g "StringDown" down
      match (u ++ d).find? (fun s => s.table == tb) with
      | some s => throw s!"a schema migration statement targets the bookkeeping table {tb}: {repr s}"
      | none => pure ()
    let region := if tb == Migration.defaultMigrationTable then none else some "custom-migration-table"
    some (judge "C12" region r)
  | _ => none

end Sqlize.Driver
