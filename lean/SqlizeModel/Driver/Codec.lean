/-
  Driver/Codec.lean — decoding of abstract cases (S-expressions written by the Go harness) into model values,
  and the canonical text dump of a model state that is compared with the harness's dump of the Go state.
-/
import SqlizeModel.Base.SExp
import SqlizeModel.Impl.Stmt
import SqlizeModel.Impl.Render

namespace Sqlize.Codec
open Sqlize

def decodeOpt : SExp → Option Opt
  | .list [.atom "pk"] => some { kind := .primaryKey }
  | .list [.atom "notnull"] => some { kind := .notNull }
  | .list [.atom "null"] => some { kind := .null }
  | .list [.atom "autoinc"] => some { kind := .autoIncrement }
  | .list [.atom "uniq"] => some { kind := .uniqKey }
  | .list [.atom "default", .atom "num", .atom v] => some { kind := .default, dflt := .num v }
  | .list [.atom "default", .atom "str", .atom v] => some { kind := .default, dflt := .str v }
  | .list [.atom "default", .atom "now"] => some { kind := .default, dflt := .now }
  | .list [.atom "default", .atom "null"] => some { kind := .default, dflt := .null }
  | .list [.atom "default", .atom "raw", .atom v] => some { kind := .default, dflt := .raw v, hasExpr := false }
  | .list [.atom "comment", .atom v] => some { kind := .comment, text := v }
  | _ => none

def decodeCol : SExp → Option ColDef
  | .list [.atom "col", .atom name, .atom typ, .list opts] => do
    let os ← opts.mapM decodeOpt
    some { name := name, typ := typ, opts := os }
  | _ => none

def decodePos : SExp → Option AddPos
  | .list [.atom "none"] => some .none
  | .list [.atom "first"] => some .first
  | .list [.atom "after", .atom c] => some (.after c)
  | _ => none

def decodeStmt : SExp → Option Stmt
  | .list [.atom "createTable", .atom t, .list cols, pk] => do
    let cs ← cols.mapM decodeCol
    let pks ← pk.strs?
    some (.createTable t 0 cs pks)
  | .list [.atom "dropTable", .atom t] => some (.dropTable t)
  | .list [.atom "addColumn", .atom t, c, pos] => do
    let c ← decodeCol c
    let p ← decodePos pos
    some (.addColumn t c p)
  | .list [.atom "dropColumn", .atom t, .atom c] => some (.dropColumn t c)
  | .list [.atom "modifyColumn", .atom t, c] => do
    let c ← decodeCol c
    some (.modifyColumn t c)
  | .list [.atom "renameColumn", .atom t, .atom o, .atom n] => some (.renameColumn t o n)
  | .list [.atom "addPk", .atom t, cols] => do
    let cs ← cols.strs?
    some (.addPrimaryKey t cs)
  | .list [.atom "dropPk", .atom t] => some (.dropPrimaryKey t)
  | .list [.atom "addFk", .atom t, .atom n, .atom c, .atom rt, .atom rc] => some (.addFk t n c rt rc)
  | .list [.atom "dropFk", .atom t, .atom n] => some (.dropFk t n)
  | .list [.atom "renameIndex", .atom t, .atom o, .atom n] => some (.renameIndex t o n)
  | .list [.atom "createIndex", .atom t, .atom n, cols, u, .atom usingT] => do
    let cs ← cols.strs?
    let u ← u.bool?
    some (.createIndex t n cs u usingT)
  | .list [.atom "dropIndex", .atom t, .atom n] => some (.dropIndex t n)
  | .list [.atom "commentOn", .atom t, .atom c, .atom x] => some (.commentOn t c x)
  | .list [.atom "alterType", .atom t, .atom c, .atom typ] => some (.alterType t c typ)
  | .list [.atom "setDefault", .atom t, .atom c, d] => do
    let o ← decodeOpt d
    some (.setDefault t c o.dflt)
  | .list [.atom "dropNotNull", .atom t, .atom c] => some (.dropNotNull t c)
  | _ => none

def decodeStmts (e : SExp) : Option (List Stmt) := do
  let xs ← e.list?
  xs.mapM decodeStmt

def decodeDialect : String → Option Dialect
  | "mysql" => some .mysql
  | "postgres" => some .postgres
  | "sqlite3" => some .sqlite
  | _ => none

/-- (cfg <dialect> <lower> <ignoreOrder>) -/
def decodeCfg : SExp → Option Globals
  | .list [.atom "cfg", .atom d, l, i] => do
    let d ← decodeDialect d
    let l ← l.bool?
    let i ← i.bool?
    some { dialect := d, lower := l, ignoreOrder := i }
  | _ => none

/-- association list of named observations: ((key value) ...) -/
def obsGet (obs : List SExp) (key : String) : Option SExp :=
  obs.findSome? fun
    | .list [.atom k, v] => if k == key then some v else none
    | _ => none

def obsStr (obs : List SExp) (key : String) : Option String := (obsGet obs key).bind SExp.str?

-- ---------------------------------------------------------------------------------------------------------------
-- canonical state dump

def optDump (o : Opt) : String :=
  let up : Globals := {}
  match o.kind with
  | .primaryKey => "pk"
  | .notNull => "notnull"
  | .null => "null"
  | .autoIncrement => "autoinc"
  | .uniqKey => "uniq"
  | .reference => "reference"
  | .comment => "comment=" ++ o.text
  | .default => if o.hasExpr then "default=" ++ o.dflt.render up
                else "default-raw=" ++ (match o.dflt with | .raw s => s | d => d.render up)

def attrDump (a : Attr) : String :=
  "typ=" ++ (a.typ.getD "~") ++ " opts=[" ++ ";".intercalate (a.opts.map optDump) ++ "] comment=" ++ a.comment

def insertSorted (p : String × Nat) : List (String × Nat) → List (String × Nat)
  | [] => [p]
  | q :: r => if p.1 < q.1 then p :: q :: r else q :: insertSorted p r

def mapDump (m : AMap) : String :=
  let sorted := m.foldl (fun acc p => insertSorted p acc) []
  ",".intercalate (sorted.map fun (k, v) => k ++ "=" ++ toString v)

def posDump : Option Pos → String
  | none => "none"
  | some .first => "first"
  | some (.after c) => "after:" ++ c

def keyTypeDump : KeyType → String
  | .none => "0" | .unique => "1" | .spatial => "2" | .fulltext => "3"

def prevDump : Option IndexDef → String
  | none => "~"
  | some p => s!"{p.name}:{keyTypeDump p.typ}:{p.indexType}:{p.isPk}:{",".intercalate p.cols}"

def tableDump (t : Table) : List String :=
  [s!"T {t.name} old={t.oldName} act={t.action.toNat} pos={posDump t.pendingPos}"] ++
  t.cols.map (fun c => s!" C {c.name} old={c.oldName} act={c.action.toNat} {attrDump c.cur} prev:{attrDump c.prev}") ++
  [" CI " ++ mapDump t.colIdx] ++
  t.idxs.map (fun i => s!" I {i.name} old={i.oldName} act={i.action.toNat} typ={keyTypeDump i.typ} itype={i.indexType} pk={i.isPk} cols={",".intercalate i.cols} prev={prevDump i.prev}") ++
  [" II " ++ mapDump t.idxIdx] ++
  t.fks.map (fun f => s!" F {f.name} act={f.action.toNat} table={f.table} col={f.column} rt={f.refTable} rc={f.refColumn}") ++
  [" FI " ++ mapDump t.fkIdx]

def stateDump (m : Migration) : String :=
  "\n".intercalate ([s!"cursor={m.cursor}"] ++ m.tables.flatMap tableDump ++ ["TI " ++ mapDump m.tblIdx])

end Sqlize.Codec
