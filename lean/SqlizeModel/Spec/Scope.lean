/-
  Spec/Scope.lean — the decidable scope predicates `InScope_Cxx` of the `…_partial` theorems, as functions returning
  the *region* (name of the violated hypothesis) an input falls into, or `none` when it is in scope.
  Every region corresponds to one entry of /verif/known_findings.json (a genuine defect recorded with a witness) or —
  regions starting with `excluded:` — to an exclusion the property text itself makes.
-/
import SqlizeModel.Spec.Props
import SqlizeModel.Proofs.TableOrder
import SqlizeModel.Impl.Builder

namespace Sqlize.Spec.Scope

/-- a table on both sides whose primary key differs (sqlize expresses an inline key change by MODIFY COLUMN, which
    cannot drop a key and cannot move it) -/
def pkChanged (a b : DB) : Bool :=
  a.any fun t => match b.find t.name with
    | some u => t.pk != u.pk
    | none => false

/-- an index redefined under its name while every column of its old definition is dropped: the old index vanishes
    with its columns and the emitted `DROP INDEX` has nothing to drop -/
def idxRedefinedOldColsDropped (a b : DB) : Bool :=
  a.any fun t => match b.find t.name with
    | some u => t.idxs.any fun i => match u.idxs.find? (·.name == i.name) with
      | some j => i != j && i.cols.all (fun c => !u.hasCol c)
      | none => false
    | none => false

/-- a foreign key kept under its name with a different definition: sqlize marks it `modify` and prints nothing -/
def fkRedefined (a b : DB) : Bool :=
  a.any fun t => match b.find t.name with
    | some u => t.fks.any fun f => match u.fks.find? (·.name == f.name) with
      | some f' => f != f'
      | none => false
    | none => false

/-- some column of a table present on both sides is missing from `b` -/
def needsColumnRemoval (a b : DB) : Bool :=
  a.any fun t => match b.find t.name with
    | some u => t.cols.any (fun c => !u.hasCol c.name)
    | none => false

def hasColumnOptions (db : DB) : Bool := db.any fun t => !t.pk.isEmpty || t.cols.any (fun c => !c.opts.isEmpty)
def hasForeignKeys (db : DB) : Bool := db.any fun t => !t.fks.isEmpty
def hasDefaults (db : DB) : Bool :=
  db.any fun t => t.cols.any (fun c => c.opts.any (fun o => match o with | .default _ => true | _ => false))

/-- a column on both sides whose type or options differ -/
def columnRedefined (a b : DB) : Bool :=
  a.any fun t => match b.find t.name with
    | some u => t.cols.any fun c => match u.cols.find? (·.name == c.name) with
      | some d => !c.equiv d
      | none => false
    | none => false

/-- columns present on both sides keep their relative order (hypothesis of C01/C02, stated in their quantifier) -/
def orderCompatible (a b : DB) : Bool :=
  a.all fun t => match b.find t.name with
    | some u => (t.colNames.filter u.hasCol) == (u.colNames.filter t.hasCol)
    | none => true

/-- regions that do not depend on the direction -/
def commonBut (skipIdxRedefined : Bool) (g : Globals) (a b : DB) : Option String :=
  if !orderCompatible a b then some "excluded:not-order-compatible"
  else if pkChanged a b then some "pk-changed"
  else if !skipIdxRedefined && (idxRedefinedOldColsDropped a b || idxRedefinedOldColsDropped b a) then
    some "index-redefined-old-columns-dropped"
  else if fkRedefined a b then some "foreign-key-redefined"
  else match g.dialect with
    | .mysql => none
    | .postgres =>
      if hasColumnOptions a || hasColumnOptions b then some "postgres-column-options"
      else if hasForeignKeys a || hasForeignKeys b then some "postgres-foreign-keys"
      else none
    | .sqlite =>
      if hasDefaults a || hasDefaults b then some "sqlite-default-values"
      else if hasForeignKeys a || hasForeignKeys b then some "sqlite-foreign-keys"
      else if columnRedefined a b then some "sqlite-column-redefined"
      else none

def common (g : Globals) (a b : DB) : Option String := commonBut false g a b

def c01 (g : Globals) (dbOld dbNew : DB) (_old _new : List Stmt) : Option String :=
  if g.dialect == .sqlite && needsColumnRemoval dbOld dbNew then some "excluded:sqlite-column-removal"
  else common g dbOld dbNew

def c02 (g : Globals) (dbOld dbNew : DB) (_old _new : List Stmt) : Option String :=
  if g.dialect == .sqlite && needsColumnRemoval dbNew dbOld then some "excluded:sqlite-column-removal"
  else common g dbOld dbNew

def c03 (g : Globals) (dbOld dbNew : DB) (_old _new : List Stmt) : Option String :=
  if g.dialect == .sqlite && (needsColumnRemoval dbNew dbOld || needsColumnRemoval dbOld dbNew) then some "excluded:sqlite-column-removal"
  else common g dbOld dbNew

def c13 (g : Globals) (dbOld dbNew : DB) (_old _new : List Stmt) : Option String :=
  if g.dialect == .sqlite && (needsColumnRemoval dbNew dbOld || needsColumnRemoval dbOld dbNew) then some "excluded:sqlite-column-removal"
  else common g dbOld dbNew

-- ---------------------------------------------------------------------------------------------------------------
-- scripts (C05, C09)

def colDefPlain (c : ColDef) : Bool := c.opts.isEmpty

/-- MODIFY COLUMN of a primary-key column by a definition that does not repeat PRIMARY KEY: the database keeps the
    key, sqlize's model (key = an option of the column) loses it.  Evaluated along the script on the reference engine. -/
def modifiesPkColumn : DB → List Stmt → Bool
  | _, [] => false
  | db, s :: rest =>
    let here := match s with
      | .modifyColumn t c => (db.pk t).contains c.name && !(c.opts.any (·.kind == .primaryKey))
      | _ => false
    here || (match exec true db s with
      | some db' => modifiesPkColumn db' rest
      | none => false)

/-- identifiers the postgres parser prints back with quotes (reserved words); in ALTER statements the reader uses the
    printed form, so such a table or column becomes a second, quoted one (F24) -/
def pgQuoted (n : String) : Bool := ["select", "order", "group", "desc", "index", "user", "table", "column"].contains n

/-- the fragment of the vocabulary the postgres reader glue understands: plain CREATE TABLE, ADD COLUMN without
    position, DROP COLUMN, and CREATE INDEX directly after a statement on the same table (the reader attaches an index
    to the table of the previous statement) -/
def colDefPgOk (c : ColDef) : Bool := c.opts.all (·.kind == .primaryKey)   -- an inline PRIMARY KEY is recorded (as a key)

def pgFragmentAux (renames : Bool) : String → List Stmt → Bool
  | _, [] => true
  | cursor, s :: rest =>
    match s with
    | .createTable t _ cols pk => cols.all colDefPgOk && pk.isEmpty && pgFragmentAux renames t rest
    | .addColumn t c .none => colDefPgOk c && !pgQuoted t && !pgQuoted c.name && pgFragmentAux renames cursor rest
    | .dropColumn t c => !pgQuoted t && !pgQuoted c && pgFragmentAux renames cursor rest
    | .createIndex t _ _ _ u => t == cursor && u == "" && pgFragmentAux renames cursor rest
    | .alterType t c _ => !pgQuoted t && !pgQuoted c && pgFragmentAux renames cursor rest
    | .dropNotNull t c => !pgQuoted t && !pgQuoted c && pgFragmentAux renames cursor rest
    -- RENAME COLUMN renames the column record only (recorded finding rename-column): faithful when the script declares
    -- no index and no key at all
    | .renameColumn t o n => renames && !pgQuoted t && !pgQuoted o && !pgQuoted n && pgFragmentAux renames cursor rest
    | _ => false

/-- the script declares no index and no key -/
def noKeys (ss : List Stmt) : Bool := ss.all fun s => match s with
  | .createIndex .. => false
  | .createTable _ _ cols pk => pk.isEmpty && cols.all (fun c => c.opts.isEmpty)
  | .addColumn _ c _ => c.opts.isEmpty
  | .addPrimaryKey .. => false
  | _ => true

def pgFragment (cursor : String) (ss : List Stmt) : Bool := pgFragmentAux (noKeys ss) cursor ss

/-- the fragment the sqlite reader glue understands: CREATE TABLE without DEFAULT, CREATE INDEX -/
def sqliteFragment : List Stmt → Bool
  | [] => true
  | s :: rest =>
    match s with
    | .createTable _ _ cols pk =>
      cols.all (fun c => c.opts.all (fun o => o.kind == .notNull || o.kind == .primaryKey)) && pk.isEmpty && sqliteFragment rest
    | .createIndex _ _ _ _ u => u == "" && sqliteFragment rest
    | _ => false

def c05 (g : Globals) (_db : DB) (ss : List Stmt) : Option String :=
  match g.dialect with
  | .postgres => if pgFragment "" ss then none else some "postgres-reader-vocabulary"
  | .sqlite => if sqliteFragment ss then none else some "sqlite-reader-vocabulary"
  | .mysql =>
    if ss.any (fun s => match s with | .renameColumn .. => true | _ => false) then some "rename-column"
    else if modifiesPkColumn [] ss then some "pk-column-modified"
    else none

def c09 (g : Globals) (db : DB) (ss : List Stmt) : Option String :=
  match g.dialect with
  | .mysql => none
  | .postgres => none      -- no panic of the postgres reader glue is known: every panic is judged
  | .sqlite => c05 g db ss

def c07 (_g : Globals) (_db : DB) (_ss : List Stmt) : Option String := none

/-- some table or column name of the schema is printed back with quotes by the postgres parser -/
def anyPgQuoted (db : DB) : Bool := db.any fun t => pgQuoted t.name || t.cols.any (fun c => pgQuoted c.name)

def c14 (g : Globals) (db : DB) (ss : List Stmt) : Option String :=
  match g.dialect with
  | .mysql => none
  | .sqlite => some "sqlite-quoted-identifiers"
  | .postgres =>
    if anyPgQuoted db then some "postgres-quoted-identifiers"
    else if hasColumnOptions db then some "postgres-column-options"
    else if hasForeignKeys db then some "postgres-foreign-keys"
    else if pgFragment "" ss then none else some "postgres-reader-vocabulary"

def c15 (_g : Globals) (_db : DB) (_ss : List Stmt) : Option String := none

/-- C04: the first region met by a consecutive pair of revisions (starting from the empty history) -/
def c04Pairs (conv : Bool) (g : Globals) : DB → List (List Stmt) → Option String
  | _, [] => none
  | prev, r :: rest =>
    match execAll true [] r with
    | none => some "excluded:ill-formed-input"
    | some db =>
      match commonBut conv g prev db with
      | some x => some x
      | none => c04Pairs conv g db rest

/-- `conv`: the scope of the convergence clause (sqlize re-reads its own migrations).  The recorded defect
    `index-redefined-old-columns-dropped` is an ill-formed statement on a real engine; sqlize's own reader tolerates it
    and the history still converges, so those revisions stay in scope for that clause. -/
def c04 (g : Globals) (revs : List (List Stmt)) (conv : Bool := false) : Option String :=
  match g.dialect with
  | .postgres => some "postgres-migrations-not-rereadable"
  | .sqlite => some "sqlite-one-statement-per-call"
  | .mysql => c04Pairs conv g [] revs

/-- C04, the fingerprint clause: `HashValue` lists the table digests in table order, and the history lists a created table
    after the tables it already had — a revision that lists a new table before a table the previous revision had (or
    changes the relative order of the common tables) has another fingerprint than the history that reaches it, although
    the next diff is empty (recorded finding; `C04.model_fingerprint` proves the clause for the other chains,
    `ChainOrdered`) -/
def c04Order : List String → List (List Stmt) → Option String
  | _, [] => none
  | prev, r :: rest =>
    match execAll true [] r with
    | none => some "excluded:ill-formed-input"
    | some db =>
      let names := db.map (·.name)
      if namesAfter prev names != names then some "fingerprint-table-order" else c04Order names rest

-- ---------------------------------------------------------------------------------------------------------------
-- struct declarations (C06, C10)

open Builder in
mutual
  /-- a non-ignored field without `type:` tag whose Go type has no documented SQL mapping (nil pointer, slices, …) -/
  def unsupportedField : Field → Bool
    | .mk _ ty _ tag =>
      tag != "-" && !((tag.splitOn ";").any (fun it => (snake it).startsWith "type:")) &&
      (match ty with
       | .other => true
       | .ptrNil => true
       | .struct fs => unsupportedFields fs
       | _ => false)
  def unsupportedFields : List Field → Bool
    | [] => false
    | f :: rest => unsupportedField f || unsupportedFields rest
end

open Builder in
mutual
  /-- number of columns the declaration yields -/
  def columnCount : Field → Nat
    | .mk _ ty _ tag =>
      if tag == "-" then 0 else
      match ty with
      | .struct fs =>
        if (tag.splitOn ";").any (fun it => let n := snake it; n == "embedded" || n == "squash" || n.startsWith "embedded_prefix:")
        then columnCounts fs else 1
      | _ => 1
  def columnCounts : List Field → Nat
    | [] => 0
    | f :: rest => columnCount f + columnCounts rest
end

/-- in one tag, an index item is written before the `column:` item: the index is created on the field-name column -/
def indexBeforeColumn (tag : String) : Bool :=
  let items := (tag.splitOn ";").map Builder.snake
  let isIdx := fun (n : String) => n == "index" || n == "unique" || n.startsWith "index:" || n.startsWith "unique:" ||
    n.startsWith "index_type:" || n.startsWith "index_columns:"
  match items.findIdx? (·.startsWith "column:"), items.findIdx? isIdx with
  | some c, some i => i < c
  | _, _ => false

open Builder in
mutual
  def anyTag (p : String → Bool) : Field → Bool
    | .mk _ ty _ tag => (tag != "-" && p tag) || (match ty with | .struct fs => anyTags p fs | _ => false)
  def anyTags (p : String → Bool) : List Field → Bool
    | [] => false
    | f :: rest => anyTag p f || anyTags p rest
end

open Builder in
mutual
  /-- a `previous` column name inside a struct embedded with a prefix: the RENAME statement is printed without the prefix -/
  def prefixedPrevious (prefixed : Bool) : Field → Bool
    | .mk _ ty _ tag =>
      tag != "-" && ((prefixed && (tag.splitOn ",previous:").length > 1) ||
      (match ty with
       | .struct fs =>
         let items := (tag.splitOn ";").map snake
         if items.any (·.startsWith "embedded_prefix:") then prefixedPreviousL true fs
         else if items.any (fun n => n == "embedded" || n == "squash") then prefixedPreviousL prefixed fs
         else false
       | _ => false))
  def prefixedPreviousL (prefixed : Bool) : List Field → Bool
    | [] => false
    | f :: rest => prefixedPrevious prefixed f || prefixedPreviousL prefixed rest
end

def c06 (g : Globals) (d : Builder.Decl) (allowUnsupported : Bool := false) (ddlOnly : Bool := false) : Option String :=
  if !allowUnsupported && unsupportedFields d.fields then some "excluded:unsupported-go-type"
  else if columnCounts d.fields == 0 then some "excluded:no-columns"
  else if prefixedPreviousL false d.fields then some "previous-name-in-prefixed-embedded-struct"
  else if anyTags (fun t => (t.splitOn ",previous:").length > 1 && ((t.splitOn ";").map Builder.snake).any (fun n =>
      n == "index" || n == "unique" || n.startsWith "index:" || n.startsWith "unique:" || n.startsWith "index_type:" ||
      n.startsWith "index_columns:")) d.fields then some "previous-name-with-index"
  else if anyTags indexBeforeColumn d.fields then some "index-tag-before-column-tag"
  else if anyTags (fun t => ((toUpperAscii t).splitOn "PRIMARY KEY").length > 1) d.fields then some "comment-contains-primary-key"
  else if ddlOnly then none      -- the builder's text itself is judged for every dialect; only loading it is dialect-limited
  else match g.dialect with
    | .mysql => none
    | .postgres => some "postgres-builder-output"
    | .sqlite => some "sqlite-builder-output"

end Sqlize.Spec.Scope
