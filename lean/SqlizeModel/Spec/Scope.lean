/-
  Spec/Scope.lean — the decidable scope predicates `InScope_Cxx` of the `…_partial` theorems, as functions returning
  the *region* (name of the violated hypothesis) an input falls into, or `none` when it is in scope.
  Every region corresponds to one entry of /verif/known_findings.json (a genuine defect recorded with a witness) or —
  regions starting with `excluded:` — to an exclusion the property text itself makes.
-/
import SqlizeModel.Spec.Props

namespace Sqlize.Spec.Scope

/-- a table on both sides whose primary key differs (sqlize expresses an inline key change by MODIFY COLUMN, which
    cannot drop a key and cannot move it) -/
def pkChanged (a b : DB) : Bool :=
  a.any fun t => match b.find t.name with
    | some u => t.pk != u.pk
    | none => false

/-- an index redefined under its name while every column of its old definition is dropped: the old index vanishes
    with its columns and the emitted `DROP INDEX` has nothing to drop -/
def idxRedefinedOldColsDropped (a b : DB) : Bool :=
  a.any fun t => match b.find t.name with
    | some u => t.idxs.any fun i => match u.idxs.find? (·.name == i.name) with
      | some j => i != j && i.cols.all (fun c => !u.hasCol c)
      | none => false
    | none => false

/-- some column of a table present on both sides is missing from `b` -/
def needsColumnRemoval (a b : DB) : Bool :=
  a.any fun t => match b.find t.name with
    | some u => t.cols.any (fun c => !u.hasCol c.name)
    | none => false

def hasColumnOptions (db : DB) : Bool := db.any fun t => !t.pk.isEmpty || t.cols.any (fun c => !c.opts.isEmpty)
def hasForeignKeys (db : DB) : Bool := db.any fun t => !t.fks.isEmpty
def hasDefaults (db : DB) : Bool :=
  db.any fun t => t.cols.any (fun c => c.opts.any (fun o => match o with | .default _ => true | _ => false))

/-- a column on both sides whose type or options differ -/
def columnRedefined (a b : DB) : Bool :=
  a.any fun t => match b.find t.name with
    | some u => t.cols.any fun c => match u.cols.find? (·.name == c.name) with
      | some d => !c.equiv d
      | none => false
    | none => false

/-- columns present on both sides keep their relative order (hypothesis of C01/C02, stated in their quantifier) -/
def orderCompatible (a b : DB) : Bool :=
  a.all fun t => match b.find t.name with
    | some u => (t.colNames.filter u.hasCol) == (u.colNames.filter t.hasCol)
    | none => true

/-- regions that do not depend on the direction -/
def common (g : Globals) (a b : DB) : Option String :=
  if !orderCompatible a b then some "excluded:not-order-compatible"
  else if pkChanged a b then some "pk-changed"
  else if idxRedefinedOldColsDropped a b || idxRedefinedOldColsDropped b a then some "index-redefined-old-columns-dropped"
  else match g.dialect with
    | .mysql => none
    | .postgres =>
      if hasColumnOptions a || hasColumnOptions b then some "postgres-column-options"
      else if hasForeignKeys a || hasForeignKeys b then some "postgres-foreign-keys"
      else none
    | .sqlite =>
      if hasDefaults a || hasDefaults b then some "sqlite-default-values"
      else if hasForeignKeys a || hasForeignKeys b then some "sqlite-foreign-keys"
      else if columnRedefined a b then some "sqlite-column-redefined"
      else none

def c01 (g : Globals) (dbOld dbNew : DB) (_old _new : List Stmt) : Option String :=
  if g.dialect == .sqlite && needsColumnRemoval dbOld dbNew then some "excluded:sqlite-column-removal"
  else common g dbOld dbNew

def c02 (g : Globals) (dbOld dbNew : DB) (_old _new : List Stmt) : Option String :=
  if g.dialect == .sqlite && needsColumnRemoval dbNew dbOld then some "excluded:sqlite-column-removal"
  else common g dbOld dbNew

def c03 (g : Globals) (dbOld dbNew : DB) (_old _new : List Stmt) : Option String :=
  if g.dialect == .sqlite && (needsColumnRemoval dbNew dbOld || needsColumnRemoval dbOld dbNew) then some "excluded:sqlite-column-removal"
  else common g dbOld dbNew

def c13 (g : Globals) (dbOld dbNew : DB) (_old _new : List Stmt) : Option String :=
  if g.dialect == .sqlite && (needsColumnRemoval dbNew dbOld || needsColumnRemoval dbOld dbNew) then some "excluded:sqlite-column-removal"
  else common g dbOld dbNew

end Sqlize.Spec.Scope
