/-
  Spec/Exec.lean — the independent reference DDL engine: a database schema `DB` and `exec : DB → Stmt → Option DB`
  (`none` = the statement is ill-formed at that point).  Written from the MySQL rules, not from sqlize's code:

  * tables are keyed by name, columns are an ordered list, indexes / foreign keys are keyed by name within a table;
  * `ADD COLUMN c` appends, `FIRST` prepends, `AFTER p` inserts right after `p`; each needs the table, `p`, and `c` absent;
  * `DROP COLUMN c` needs `c`; it removes `c` from every index of the table, deletes an
    index left without columns, every foreign key on `c`, and `c` from the primary key;
  * `ALTER COLUMN … TYPE / SET DEFAULT / DROP NOT NULL` (Postgres) change that one aspect of an existing column;
  * `MODIFY COLUMN` replaces type and options and keeps the position; declaring PRIMARY KEY on a table that already
    has one is ill-formed, omitting it does not drop the key;
  * the primary key is one list of columns whether declared inline or by `ADD PRIMARY KEY`;
  * `CREATE INDEX` needs the table, all its columns and a fresh name; `DROP INDEX` / `RENAME INDEX` need the index;
  * `ADD CONSTRAINT … FOREIGN KEY` needs its table and column, a fresh name, and — with `refCheck` — the referenced
    table and column; `DROP TABLE` needs the table and — with `refCheck` — no foreign key of another table
    referencing it.  Theorems use `refCheck = true`; the flag exists to classify a failure as "ordering only".
-/
import SqlizeModel.Impl.Stmt

namespace Sqlize.Spec

/-- a column option as the reference engine sees it (primary key is kept at table level) -/
inductive COpt
  | notNull | null | autoInc | uniq
  | default (rendered : String)      -- canonical (upper-case) rendering of the value
  | comment (text : String)
  deriving DecidableEq, Repr, Inhabited

structure ColSpec where
  name : String
  typ : String
  opts : List COpt
  deriving DecidableEq, Repr, Inhabited

structure IdxSpec where
  name : String
  cols : List String
  unique : Bool
  itype : String := "BTREE"     -- index type; an unspecified type is the default one
  deriving DecidableEq, Repr, Inhabited

structure FkSpec where
  name : String
  col : String
  refT : String
  refC : String
  deriving DecidableEq, Repr, Inhabited

structure TableSpec where
  name : String
  cols : List ColSpec := []
  pk : List String := []
  idxs : List IdxSpec := []
  fks : List FkSpec := []
  deriving DecidableEq, Repr, Inhabited

abbrev DB := List TableSpec

def DB.find (db : DB) (t : String) : Option TableSpec := List.find? (·.name == t) db
def DB.has (db : DB) (t : String) : Bool := List.any db (·.name == t)
def DB.replace (db : DB) (t : TableSpec) : DB := List.map (fun x => if x.name == t.name then t else x) db

def TableSpec.hasCol (t : TableSpec) (c : String) : Bool := t.cols.any (·.name == c)
def TableSpec.colNames (t : TableSpec) : List String := t.cols.map (·.name)

/-- option translation; `pk` is reported separately -/
def optsOf (os : List Opt) : List COpt × Bool :=
  os.foldl (fun (acc : List COpt × Bool) o =>
    match o.kind with
    | .primaryKey => (acc.1, true)
    | .notNull => (acc.1 ++ [.notNull], acc.2)
    | .null => (acc.1 ++ [.null], acc.2)
    | .autoIncrement => (acc.1 ++ [.autoInc], acc.2)
    | .uniqKey => (acc.1 ++ [.uniq], acc.2)
    | .default => (acc.1 ++ [.default (defaultCanon o.dflt)], acc.2)
    | .comment => (acc.1 ++ [.comment o.text], acc.2)
    | .reference => acc) ([], false)

def colOf (c : ColDef) : ColSpec × Bool :=
  let (os, pk) := optsOf c.opts
  ({ name := c.name, typ := c.typ, opts := os }, pk && !c.stripPk)

def insertAfter (p : String) (c : ColSpec) : List ColSpec → Option (List ColSpec)
  | [] => none
  | x :: xs => if x.name == p then some (x :: c :: xs) else (insertAfter p c xs).map (x :: ·)

def allNodup : List String → Bool
  | [] => true
  | x :: xs => !xs.contains x && allNodup xs

def renameIn (o n : String) (l : List String) : List String := l.map (fun x => if x == o then n else x)

def exec (refCheck : Bool) (db : DB) : Stmt → Option DB
  | .createTable t _ cols pk =>
    if db.has t then none else      -- a table without columns is accepted (Postgres; sqlize's dump of a table whose columns were all dropped)
    let specs := cols.map colOf
    let names := specs.map (·.1.name)
    let inlinePk := (specs.filter (·.2)).map (·.1.name)
    if !allNodup names then none
    else if !pk.isEmpty && !inlinePk.isEmpty then none
    else if inlinePk.length > 1 then none
    else
      let pk' := if pk.isEmpty then inlinePk else pk
      if !(pk'.all names.contains) || !allNodup pk' then none
      else some (db ++ [{ name := t, cols := specs.map (·.1), pk := pk' }])
  | .dropTable t =>
    if !db.has t then none
    else if refCheck && db.any (fun o => o.name != t && o.fks.any (·.refT == t)) then none
    else some (db.filter (·.name != t))
  | .addColumn t c pos =>
    match db.find t with
    | none => none
    | some tb =>
      let (cs, isPk) := colOf c
      if tb.hasCol c.name then none
      else if isPk && !tb.pk.isEmpty then none
      else
        let cols? := match pos with
          | .none => some (tb.cols ++ [cs])
          | .first => some (cs :: tb.cols)
          | .after p => insertAfter p cs tb.cols
        match cols? with
        | none => none
        | some cols => some (db.replace { tb with cols := cols, pk := if isPk then [c.name] else tb.pk })
  | .dropColumn t c =>
    match db.find t with
    | none => none
    | some tb =>
      if !tb.hasCol c then none
      else if refCheck && db.any (fun o => o.fks.any (fun f => f.refT == t && f.refC == c)) then none
      else
        let idxs := (tb.idxs.map (fun i => { i with cols := i.cols.filter (· != c) })).filter (!·.cols.isEmpty)
        some (db.replace { tb with cols := tb.cols.filter (·.name != c), idxs := idxs,
                                   fks := tb.fks.filter (·.col != c), pk := tb.pk.filter (· != c) })
  | .modifyColumn t c =>
    match db.find t with
    | none => none
    | some tb =>
      let (cs, isPk) := colOf c
      if !tb.hasCol c.name then none
      else if isPk && !tb.pk.isEmpty then none
      else some (db.replace { tb with cols := tb.cols.map (fun x => if x.name == c.name then cs else x),
                                      pk := if isPk then [c.name] else tb.pk })
  | .renameColumn t o n =>
    match db.find t with
    | none => none
    | some tb =>
      if !tb.hasCol o || tb.hasCol n then none
      else
        let tb' := { tb with cols := tb.cols.map (fun x => if x.name == o then { x with name := n } else x),
                             pk := renameIn o n tb.pk,
                             idxs := tb.idxs.map (fun i => { i with cols := renameIn o n i.cols }),
                             fks := tb.fks.map (fun f => if f.col == o then { f with col := n } else f) }
        some ((db.replace tb').map (fun x =>
          { x with fks := x.fks.map (fun f => if f.refT == t && f.refC == o then { f with refC := n } else f) }))
  | .addPrimaryKey t cols =>
    match db.find t with
    | none => none
    | some tb =>
      if !tb.pk.isEmpty || cols.isEmpty || !(cols.all tb.hasCol) || !allNodup cols then none
      else some (db.replace { tb with pk := cols })
  | .dropPrimaryKey t =>
    match db.find t with
    | none => none
    | some tb => if tb.pk.isEmpty then none else some (db.replace { tb with pk := [] })
  | .addFk t name col rt rc =>
    match db.find t with
    | none => none
    | some tb =>
      if !tb.hasCol col || tb.fks.any (·.name == name) then none
      else if refCheck && !((db.find rt).map (·.hasCol rc) |>.getD false) then none
      else some (db.replace { tb with fks := tb.fks ++ [{ name := name, col := col, refT := rt, refC := rc }] })
  | .dropFk t name =>
    match db.find t with
    | none => none
    | some tb =>
      if !tb.fks.any (·.name == name) then none
      else some (db.replace { tb with fks := tb.fks.filter (·.name != name) })
  | .renameIndex t o n =>
    match db.find t with
    | none => none
    | some tb =>
      if !tb.idxs.any (·.name == o) || tb.idxs.any (·.name == n) then none
      else some (db.replace { tb with idxs := tb.idxs.map (fun i => if i.name == o then { i with name := n } else i) })
  | .createIndex t name cols uniq u =>
    match db.find t with
    | none => none
    | some tb =>
      if tb.idxs.any (·.name == name) || cols.isEmpty || !(cols.all tb.hasCol) then none
      else some (db.replace { tb with idxs := tb.idxs ++ [{ name := name, cols := cols, unique := uniq, itype := if u == "" then "BTREE" else u }] })
  | .dropIndex t name =>
    match db.find t with
    | none => none
    | some tb =>
      if !tb.idxs.any (·.name == name) then none
      else some (db.replace { tb with idxs := tb.idxs.filter (·.name != name) })
  | .commentOn t c text =>
    match db.find t with
    | none => none
    | some tb =>
      if c == "" then some db        -- table comment: the table must exist; not part of the schema compared
      else if !tb.hasCol c then none
      else some (db.replace { tb with cols := tb.cols.map (fun x =>
        if x.name == c then { x with opts := x.opts.filter (fun o => match o with | .comment _ => false | _ => true) ++
          (if text == "" then [] else [.comment text]) } else x) })      -- `IS NULL` (empty text here) removes the comment

  -- the Postgres spellings of MODIFY COLUMN, one aspect at a time: the column must exist, its position is kept
  | .alterType t c typ =>
    match db.find t with
    | none => none
    | some tb =>
      if !tb.hasCol c then none
      else some (db.replace { tb with cols := tb.cols.map (fun x => if x.name == c then { x with typ := typ } else x) })
  | .setDefault t c d =>
    match db.find t with
    | none => none
    | some tb =>
      if !tb.hasCol c then none
      else some (db.replace { tb with cols := tb.cols.map (fun x =>
        if x.name == c then { x with opts := x.opts.filter (fun o => match o with | .default _ => false | _ => true) ++ [.default (defaultCanon d)] } else x) })
  | .dropNotNull t c =>
    match db.find t with
    | none => none
    | some tb =>
      if !tb.hasCol c then none
      else some (db.replace { tb with cols := tb.cols.map (fun x =>
        if x.name == c then { x with opts := x.opts.filter (· != .notNull) } else x) })

def execAll (refCheck : Bool) (db : DB) : List Stmt → Option DB
  | [] => some db
  | s :: ss => (exec refCheck db s).bind (execAll refCheck · ss)

/-- index of the first statement that is ill-formed, for diagnostics -/
def firstIllFormed (refCheck : Bool) (db : DB) : List Stmt → Option Nat
  | [] => none
  | s :: ss => match exec refCheck db s with
    | none => some 0
    | some db' => (firstIllFormed refCheck db' ss).map (· + 1)

-- ---------------------------------------------------------------------------------------------------------------
-- schema equivalence: ignores table order, index order, foreign-key order and option order — nothing else

def permEq [DecidableEq α] : List α → List α → Bool
  | [], [] => true
  | [], _ :: _ => false
  | x :: xs, ys => ys.contains x && permEq xs (ys.erase x)

def ColSpec.equiv (a b : ColSpec) : Bool := a.name == b.name && a.typ == b.typ && permEq a.opts b.opts

def colsEquiv : List ColSpec → List ColSpec → Bool
  | [], [] => true
  | a :: as, b :: bs => a.equiv b && colsEquiv as bs
  | _, _ => false

def TableSpec.equiv (a b : TableSpec) : Bool :=
  a.name == b.name && colsEquiv a.cols b.cols && a.pk == b.pk && permEq a.idxs b.idxs && permEq a.fks b.fks

/-- same as `equiv` but the column *order* is ignored (for the ignore-field-order option) -/
def TableSpec.equivUnordered (a b : TableSpec) : Bool :=
  a.name == b.name && a.cols.length == b.cols.length &&
  a.cols.all (fun c => b.cols.any (fun d => c.equiv d)) &&
  a.pk == b.pk && permEq a.idxs b.idxs && permEq a.fks b.fks

def DB.equivBy (f : TableSpec → TableSpec → Bool) (a b : DB) : Bool :=
  a.length == b.length && a.all (fun t => match b.find t.name with | some u => f t u | none => false)

def DB.equiv (a b : DB) : Bool := DB.equivBy TableSpec.equiv a b
def DB.equivUnordered (a b : DB) : Bool := DB.equivBy TableSpec.equivUnordered a b

/-- what differs, for diagnostics -/
def DB.diffReport (a b : DB) : String :=
  let ta := a.map (·.name); let tb := b.map (·.name)
  if !permEq ta tb then s!"table sets differ: got {ta} want {tb}"
  else
    match a.find? (fun t => match b.find t.name with | some u => !t.equiv u | none => true) with
    | none => "equal"
    | some t =>
      match b.find t.name with
      | none => "missing " ++ t.name
      | some u =>
        if !colsEquiv t.cols u.cols then s!"table {t.name}: columns got {repr t.cols} want {repr u.cols}"
        else if t.pk != u.pk then s!"table {t.name}: primary key got {t.pk} want {u.pk}"
        else if !permEq t.idxs u.idxs then s!"table {t.name}: indexes got {repr t.idxs} want {repr u.idxs}"
        else s!"table {t.name}: foreign keys got {repr t.fks} want {repr u.fks}"

end Sqlize.Spec
