/-
  Spec/HashSpec.lean — C07 restated over the *reference* schema: the value `HashValue` should have is a function of the
  reference schema alone (`DB.hashOf`): per table, in table order, the multiset of column pre-images (escaped name, type
  text), the key and the indexes.  `Proofs/HashScripts.lean` proves that the model's value is this function of the
  schema the script describes; the driver evaluates it (with the real md5) as an oracle on the implementation's value.
-/
import SqlizeModel.Spec.Exec
import SqlizeModel.Impl.Hash

namespace Sqlize
open Spec

/-- the table digest as a pure function of the md5 pre-images of its columns and indexes -/
def tableHashOf (H : String → String) (colIn idxIn : List String) : String :=
  H (";".intercalate (sortStrs (colIn.map H) ++ sortStrs (idxIn.map H)))

/-- md5 pre-image of a reference column: escaped name, a blank, the type text -/
def Spec.ColSpec.hashInput (g : Globals) (c : ColSpec) : String := g.esc c.name ++ " " ++ c.typ

/-- md5 pre-image of a reference index: its CREATE statement for the empty table name, upper-case templates, the
    default index type left out -/
def Spec.IdxSpec.hashInput (g : Globals) (i : IdxSpec) : String :=
  let gu := { g with lower := false }
  sprintf (gu.tpl (if i.unique then "CreateUniqueIndexStm" else "CreateIndexStm") (if i.itype == "BTREE" then "" else i.itype))
    [gu.esc i.name, gu.esc "", ", ".intercalate (i.cols.map gu.esc)]

/-- md5 pre-image of a table-level primary key -/
def pkHashInput (g : Globals) (cols : List String) : String :=
  let gu := { g with lower := false }
  sprintf (gu.tpl "CreatePrimaryKeyStm") [gu.esc "", ", ".intercalate (cols.map gu.esc)]

/-- the digest of a reference table: a function of its columns (name, type), its primary key and its indexes -/
def Spec.TableSpec.hashOf (H : String → String) (g : Globals) (tb : TableSpec) : String :=
  tableHashOf H (tb.cols.map (ColSpec.hashInput g))
    ((if tb.pk = [] then [] else [pkHashInput g tb.pk]) ++ tb.idxs.map (IdxSpec.hashInput g))

/-- the value of a reference schema -/
def Spec.DB.hashOf (H : String → String) (F : String → Int) (g : Globals) (db : DB) : Int :=
  if db.isEmpty then 0 else F (";".intercalate (db.map (TableSpec.hashOf H g)))

end Sqlize
