/-
  Spec/Props.lean — the executable predicates of C01/C02/C03/C13 over the reference engine.
  They are evaluated by the driver on the statements parsed from the text the *implementation* printed, and they are
  the predicates the theorems in Props/C0x.lean are about.
-/
import SqlizeModel.Spec.Exec

namespace Sqlize.Spec

abbrev Check := Except String Unit

def check (b : Bool) (msg : String) : Check := if b then .ok () else .error msg

def DB.col (db : DB) (t c : String) : Option ColSpec := (db.find t).bind (fun tb => tb.cols.find? (·.name == c))
def DB.idx (db : DB) (t n : String) : Option IdxSpec := (db.find t).bind (fun tb => tb.idxs.find? (·.name == n))
def DB.fk (db : DB) (t n : String) : Option FkSpec := (db.find t).bind (fun tb => tb.fks.find? (·.name == n))
def DB.pk (db : DB) (t : String) : List String := ((db.find t).map (·.pk)).getD []

def optColEquiv : Option ColSpec → Option ColSpec → Bool
  | none, none => true
  | some a, some b => a.equiv b
  | _, _ => false

/-- is the element a statement acts on different between the two schemas? (every emitted statement must be
    justified by a difference: "no element that is equal on both sides is dropped, re-created or modified") -/
def justified (a b : DB) : Stmt → Bool
  | .createTable t .. => !a.has t && b.has t
  | .dropTable t => a.has t && !b.has t
  | .addColumn t c _ => (a.col t c.name).isNone && (b.col t c.name).isSome
  | .dropColumn t c => (a.col t c).isSome && (b.col t c).isNone
  | .modifyColumn t c => !optColEquiv (a.col t c.name) (b.col t c.name) || (a.pk t).contains c.name != (b.pk t).contains c.name
  | .renameColumn t o n => (a.col t o).isSome && (b.col t o).isNone && (a.col t n).isNone && (b.col t n).isSome
  | .addPrimaryKey t _ => a.pk t != b.pk t
  | .dropPrimaryKey t => a.pk t != b.pk t
  | .addFk t n .. => a.fk t n != b.fk t n
  | .dropFk t n => a.fk t n != b.fk t n
  | .renameIndex t o n => (a.idx t o).isSome && (b.idx t o).isNone && (b.idx t n).isSome
  | .createIndex t n .. => a.idx t n != b.idx t n
  | .dropIndex t n => a.idx t n != b.idx t n
  | .commentOn t c _ => !optColEquiv (a.col t c) (b.col t c)
  | .alterType t c _ | .setDefault t c _ | .dropNotNull t c => !optColEquiv (a.col t c) (b.col t c)

def hasPosition : Stmt → Bool
  | .addColumn _ _ .none => false
  | .addColumn _ _ _ => true
  | _ => false

def stripPosition : Stmt → Stmt
  | .addColumn t c _ => .addColumn t c .none
  | s => s

/-- the migration `ss` executed on `src` is well-formed at every step and leaves exactly `dst` -/
def migrates (ignoreOrder : Bool) (src dst : DB) (ss : List Stmt) (refCheck : Bool := true) : Check :=
  match execAll refCheck src ss with
  | none =>
    let k := (firstIllFormed refCheck src ss).getD 0
    .error s!"statement #{k} is ill-formed at that point: {repr (ss[k]?)}"
  | some db' =>
    if (if ignoreOrder then db'.equivUnordered dst else db'.equiv dst) then .ok ()
    else .error ("result differs from the target schema: " ++ db'.diffReport dst)

def allJustified (src dst : DB) (ss : List Stmt) : Check :=
  match ss.find? (fun s => !justified src dst s) with
  | none => .ok ()
  | some s => .error s!"a statement touches an element that is equal on both sides: {repr s}"

/-- C01 on one pair: `up` turns `old` into `new`, touching only what differs -/
def c01 (ignoreOrder : Bool) (old new : DB) (up : List Stmt) (refCheck : Bool := true) : Check := do
  migrates ignoreOrder old new up refCheck
  allJustified old new up

/-- C02 on one pair: `down` turns `new` back into `old` (with `old`'s column order), touching only what differs -/
def c02 (ignoreOrder : Bool) (old new : DB) (down : List Stmt) (refCheck : Bool := true) : Check := do
  migrates ignoreOrder new old down refCheck
  allJustified new old down

/-- C03 on one pair: equal schemas ⇒ both migrations empty; unchanged tables are never targeted -/
def c03 (old new : DB) (up down : List Stmt) : Check := do
  if old.equiv new then
    check (up.isEmpty && down.isEmpty) s!"schemas are equal but the migration is not empty: up={repr up} down={repr down}"
  else
    let unchanged := old.filter (fun t => match new.find t.name with | some u => t.equiv u | none => false)
    match (up ++ down).find? (fun s => unchanged.any (·.name == s.table)) with
    | none => .ok ()
    | some s => .error s!"unchanged table is targeted: {repr s}"

/-- C13, ignore-field-order setting: no positional clause at all -/
def c13NoPositions (ss : List Stmt) : Check :=
  match ss.find? hasPosition with
  | none => .ok ()
  | some s => .error s!"positional clause under the ignore-field-order option: {repr s}"

/-- C13: the two settings give the same statements up to the positional clause -/
def c13Same (withOrder ignoring : List Stmt) : Check :=
  check (withOrder.map stripPosition == ignoring) "the statements under the two settings of the option differ by more than the positional clause"

/-- the quoted parts of a text, in order: what stands between two quote characters of one kind (`'…'` string
    literals — defaults, comments, enum labels —, `` `…` `` and `"…"` identifiers), quotes included -/
def quotedParts (cs : List Char) : List String :=
  go cs none [] []
where
  go : List Char → Option Char → List Char → List String → List String
    | [], _, _, acc => acc.reverse
    | c :: rest, none, _, acc =>
      if c == '\'' || c == '`' || c == '"' then go rest (some c) [c] acc else go rest none [] acc
    | c :: rest, some q, cur, acc =>
      if c == q then go rest none [] (String.ofList (c :: cur).reverse :: acc) else go rest (some q) (c :: cur) acc

/-- C10: two printouts of one migration under the two keyword-case options are equal up to ASCII case, and equal
    exactly inside quotes (identifiers, string literals, comments) -/
def c10CaseOnly (a b : String) : Check := do
  let low := fun (s : String) => String.ofList (s.toList.map Char.toLower)
  check (low a == low b) "the printouts under the two keyword-case options differ by more than letter case"
  check (quotedParts a.toList == quotedParts b.toList)
    s!"quoted text (identifier, string literal, enum label or comment) differs between the two keyword-case options: {(quotedParts a.toList).zip (quotedParts b.toList) |>.find? (fun p => p.1 != p.2)}"

end Sqlize.Spec
