/-
  Spec/Snake.lean — the C16 statement as an executable predicate, written independently of the
  transducer in Impl/Snake.lean: it looks at the *previous input character*, not at a counter.

  `alignMarks input output` recovers which underscores of `output` were inserted (fails when `output`
  is not "lower-cased input plus underscores in front of capitals"); `marksOK` checks the placement rules:
    * no inserted underscore at the start,
    * none in front of a character that is not a capital (so never between two lowercase letters/digits),
    * one in front of every capital that directly follows a lowercase letter,
    * in front of a capital that directly follows a capital exactly when a lowercase letter other than a
      final `s` follows (the "last capital of an all-caps run" rule).
  A capital after a digit/underscore/other character is left unconstrained, as in the property text.
-/
import SqlizeModel.Base.Chars

namespace Sqlize.SnakeSpec

/-- next character is lower case, but not a final `s` -/
def lowerFollows : List Char → Bool
  | [] => false
  | [c] => isLower c && c != 's'
  | c :: _ :: _ => isLower c

def alignMarks : List Char → List Char → Option (List Bool)
  | [], [] => some []
  | [], _ :: _ => none
  | c :: cs, out =>
    if isUpper c then
      match out with
      | '_' :: x :: rest => if x = lowerC c then (alignMarks cs rest).map (true :: ·) else none
      | x :: rest => if x = lowerC c then (alignMarks cs rest).map (false :: ·) else none
      | [] => none
    else
      match out with
      | x :: rest => if x = c then (alignMarks cs rest).map (false :: ·) else none
      | [] => none

def marksOK (prev : Option Char) : List Char → List Bool → Bool
  | [], [] => true
  | c :: rest, m :: ms =>
    (match prev with
     | none => m == false
     | some p =>
       if !isUpper c then m == false
       else if isLower p then m == true
       else if isUpper p then m == lowerFollows rest
       else true) && marksOK (some c) rest ms
  | _, _ => false

/-- the executable C16 predicate on one (input, output) pair -/
def snakeSpecOK (input output : List Char) : Bool :=
  match alignMarks input output with
  | some ms => marksOK none input ms
  | none => false

end Sqlize.SnakeSpec
