/-
  Spec/Version.lean — C12's bookkeeping statements written out declaratively (independently of the templates):
  version 0 creates / drops the bookkeeping table; any other version replaces / deletes the stored row; the table name
  is inserted verbatim; column types are the dialect's; keywords follow the case option.
-/
import SqlizeModel.Impl.Stmt

namespace Sqlize.VersionSpec

def kw (lower : Bool) (s : List Char) : List Char := if lower then s.map Char.toLower else s

def bigintType : Dialect → List Char
  | .postgres => "BIGINT".toList
  | _ => "bigint(20)".toList

/-- up, version 0: create the bookkeeping table -/
def createTable (d : Dialect) (lower : Bool) (table : List Char) : List Char :=
  kw lower "CREATE TABLE IF NOT EXISTS ".toList ++ table ++ kw lower (" (\n version    ".toList ++ bigintType d ++ " PRIMARY KEY,\n dirty      BOOLEAN\n);".toList)

/-- down, version 0: drop it -/
def dropTable (lower : Bool) (table : List Char) : List Char :=
  kw lower "DROP TABLE IF EXISTS ".toList ++ table ++ ";".toList

/-- up, other versions: replace the stored row by exactly (version, dirty) -/
def replaceRow (lower : Bool) (table ver dirty : List Char) : List Char :=
  kw lower "DELETE FROM ".toList ++ table ++ kw lower " LIMIT 1;\nINSERT INTO ".toList ++ table ++
  kw lower " (version, dirty) VALUES (".toList ++ ver ++ ", ".toList ++ dirty ++ ");".toList

/-- down, other versions: delete the stored row -/
def deleteRow (lower : Bool) (table : List Char) : List Char :=
  kw lower "DELETE FROM ".toList ++ table ++ kw lower " LIMIT 1;".toList

end Sqlize.VersionSpec
