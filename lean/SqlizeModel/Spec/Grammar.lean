/-
  Spec/Grammar.lean — an independent tokenizer + recogniser for the DDL vocabulary the emitters print
  (per dialect quoting, case-insensitive keywords).  `parseScript d text` turns migration text back into `Stmt`s, so
  that the text the *Go code* printed can be executed on the reference engine; a text outside the grammar is a
  property failure ("not accepted by an independent grammar").
-/
import SqlizeModel.Impl.Stmt

namespace Sqlize.Grammar

inductive Tok
  | id (s : String)        -- quoted identifier, quotes removed
  | word (s : String)      -- bare word (keywords, type names, unquoted names), as written
  | str (s : String)       -- single-quoted string, unescaped
  | num (s : String)
  | sym (c : Char)
  deriving DecidableEq, Repr, Inhabited

structure PTok where
  tok : Tok
  start : Nat
  stop : Nat     -- exclusive
  deriving Repr, Inhabited

def isWordStart (c : Char) : Bool := c.isAlpha || c == '_'
def isWordChar (c : Char) : Bool := c.isAlphanum || c == '_'

/-- read until the closing quote `q`; a doubled quote is an escaped quote.  Returns content and rest (after quote). -/
def readQuoted (q : Char) : List Char → List Char → Option (List Char × List Char)
  | _, [] => none
  | acc, c :: rest =>
    if c == q then
      match rest with
      | c2 :: rest2 => if c2 == q then readQuoted q (q :: acc) rest2 else some (acc.reverse, rest)
      | [] => some (acc.reverse, [])
    else readQuoted q (c :: acc) rest
termination_by _ l => l.length

partial def tokenize (quote : Char) (pos : Nat) : List Char → Option (List PTok)
  | [] => some []
  | c :: rest =>
    if c == ' ' || c == '\n' || c == '\t' || c == '\r' then tokenize quote (pos + 1) rest
    else if c == quote then
      match readQuoted quote [] rest with
      | none => none
      | some (s, rest') =>
        let used := (c :: rest).length - rest'.length
        (tokenize quote (pos + used) rest').map (⟨.id (String.ofList s), pos, pos + used⟩ :: ·)
    else if c == '\'' then
      match readQuoted '\'' [] rest with
      | none => none
      | some (s, rest') =>
        let used := (c :: rest).length - rest'.length
        (tokenize quote (pos + used) rest').map (⟨.str (String.ofList s), pos, pos + used⟩ :: ·)
    else if c.isDigit then
      let digs := (c :: rest).takeWhile (fun x => x.isDigit || x == '.')
      let rest' := (c :: rest).dropWhile (fun x => x.isDigit || x == '.')
      (tokenize quote (pos + digs.length) rest').map (⟨.num (String.ofList digs), pos, pos + digs.length⟩ :: ·)
    else if isWordStart c then
      let w := (c :: rest).takeWhile isWordChar
      let rest' := (c :: rest).dropWhile isWordChar
      (tokenize quote (pos + w.length) rest').map (⟨.word (String.ofList w), pos, pos + w.length⟩ :: ·)
    else (tokenize quote (pos + 1) rest).map (⟨.sym c, pos, pos + 1⟩ :: ·)

def quoteOf : Dialect → Char
  | .mysql => '`' | _ => '"'

/-- split a token list into statements at top-level `;` -/
def splitStmts (acc : List PTok) : List PTok → List (List PTok)
  | [] => if acc.isEmpty then [] else [acc.reverse]
  | t :: rest =>
    if t.tok == .sym ';' then acc.reverse :: splitStmts [] rest
    else splitStmts (t :: acc) rest

def kwEq (t : PTok) (k : String) : Bool :=
  match t.tok with
  | .word w => w.toUpper == k
  | _ => false

/-- match a sequence of keywords at the head -/
def eatKws : List String → List PTok → Option (List PTok)
  | [], ts => some ts
  | k :: ks, t :: ts => if kwEq t k then eatKws ks ts else none
  | _ :: _, [] => none

def eatSym (c : Char) : List PTok → Option (List PTok)
  | t :: ts => if t.tok == .sym c then some ts else none
  | [] => none

/-- an object name: quoted identifier or bare word -/
def eatName : List PTok → Option (String × List PTok)
  | t :: ts => match t.tok with
    | .id s => some (s, ts)
    | .word s => some (s, ts)
    | _ => none
  | [] => none

/-- `( name, name, ... )` -/
partial def eatNameList (ts : List PTok) : Option (List String × List PTok) := do
  let ts ← eatSym '(' ts
  let rec go (acc : List String) (ts : List PTok) : Option (List String × List PTok) := do
    let (n, ts) ← eatName ts
    match ts with
    | t :: ts' =>
      if t.tok == .sym ',' then go (n :: acc) ts'
      else if t.tok == .sym ')' then some ((n :: acc).reverse, ts')
      else none
    | [] => none
  go [] ts

def optionKeywords : List String := ["NOT", "NULL", "DEFAULT", "AUTO_INCREMENT", "PRIMARY", "COMMENT", "UNIQUE"]

def isOptionStart (t : PTok) : Bool := optionKeywords.any (kwEq t)

/-- tokens of the type: everything up to the first option keyword / `FIRST` / `AFTER` at parenthesis depth 0 -/
def takeType (depth : Nat) (acc : List PTok) : List PTok → List PTok × List PTok
  | [] => (acc.reverse, [])
  | t :: ts =>
    if depth == 0 && (isOptionStart t || kwEq t "FIRST" || kwEq t "AFTER") then (acc.reverse, t :: ts)
    else if t.tok == .sym '(' then takeType (depth + 1) (t :: acc) ts
    else if t.tok == .sym ')' then takeType (depth - 1) (t :: acc) ts
    else takeType depth (t :: acc) ts

def sliceRaw (raw : List Char) (a b : Nat) : String := String.ofList ((raw.drop a).take (b - a))

partial def parseOpts (ts : List PTok) : Option (List Opt × List PTok) :=
  match ts with
  | [] => some ([], [])
  | t :: rest =>
    if kwEq t "FIRST" || kwEq t "AFTER" then some ([], ts)
    else if kwEq t "NOT" then do
      let rest ← eatKws ["NULL"] rest
      let (os, r) ← parseOpts rest
      some ({ kind := .notNull } :: os, r)
    else if kwEq t "NULL" then do
      let (os, r) ← parseOpts rest
      some ({ kind := .null } :: os, r)
    else if kwEq t "AUTO_INCREMENT" then do
      let (os, r) ← parseOpts rest
      some ({ kind := .autoIncrement } :: os, r)
    else if kwEq t "PRIMARY" then do
      let rest ← eatKws ["KEY"] rest
      let (os, r) ← parseOpts rest
      some ({ kind := .primaryKey } :: os, r)
    else if kwEq t "UNIQUE" then do
      let rest ← eatKws ["KEY"] rest
      let (os, r) ← parseOpts rest
      some ({ kind := .uniqKey } :: os, r)
    else if kwEq t "COMMENT" then
      match rest with
      | c :: rest' => match c.tok with
        | .str s => do
          let (os, r) ← parseOpts rest'
          some ({ kind := .comment, text := s } :: os, r)
        | _ => none
      | [] => none
    else if kwEq t "DEFAULT" then
      match rest with
      | v :: rest' =>
        match v.tok with
        | .str s => do let (os, r) ← parseOpts rest'; some ({ kind := .default, dflt := .str s } :: os, r)
        | .num s => do let (os, r) ← parseOpts rest'; some ({ kind := .default, dflt := .num s } :: os, r)
        | .sym '-' =>
          match rest' with
          | n :: rest'' => match n.tok with
            | .num s => do let (os, r) ← parseOpts rest''; some ({ kind := .default, dflt := .num ("-" ++ s) } :: os, r)
            | _ => none
          | [] => none
        | .word w =>
          if w.toUpper == "NULL" then do let (os, r) ← parseOpts rest'; some ({ kind := .default, dflt := .null } :: os, r)
          else if w.toUpper == "CURRENT_TIMESTAMP" then do
            -- with or without the call parentheses
            let rest' := match eatSym '(' rest' with
              | some r1 => (eatSym ')' r1).getD rest'
              | none => rest'
            let (os, r) ← parseOpts rest'
            some ({ kind := .default, dflt := .now } :: os, r)
          else none
        | _ => none
      | [] => none
    else none

/-- `name type options…`; stops in front of `FIRST` / `AFTER` -/
def parseColDef (raw : List Char) (ts : List PTok) : Option (ColDef × List PTok) := do
  let (name, ts) ← eatName ts
  let (tyToks, rest) := takeType 0 [] ts
  let typ := match tyToks.head?, tyToks.getLast? with
    | some a, some b => sliceRaw raw a.start b.stop
    | _, _ => ""
  let (opts, rest) ← parseOpts rest
  some ({ name := name, typ := typ, opts := opts }, rest)

/-- split the inside of `CREATE TABLE t ( … )` at depth-0 commas -/
def splitCommas (depth : Nat) (acc : List PTok) : List PTok → List (List PTok)
  | [] => [acc.reverse]
  | t :: ts =>
    if t.tok == .sym '(' then splitCommas (depth + 1) (t :: acc) ts
    else if t.tok == .sym ')' then splitCommas (depth - 1) (t :: acc) ts
    else if t.tok == .sym ',' && depth == 0 then acc.reverse :: splitCommas 0 [] ts
    else splitCommas depth (t :: acc) ts

def parseStmt (raw : List Char) (ts : List PTok) : Option Stmt :=
  -- CREATE TABLE
  (do
    let ts ← eatKws ["CREATE", "TABLE"] ts
    let (t, ts) ← eatName ts
    let ts ← eatSym '(' ts
    -- an optional table comment after the closing parenthesis: `) COMMENT 'text'`
    let ts := match ts.reverse with
      | c :: k :: rest => (match c.tok with
          | .str _ => if kwEq k "COMMENT" then rest.reverse else ts
          | _ => ts)
      | _ => ts
    let last ← ts.getLast?
    if last.tok != .sym ')' then none else
    let inner := ts.dropLast
    -- a table without columns: `CREATE TABLE t ()` (Postgres)
    let defs ← if inner.isEmpty then some [] else (splitCommas 0 [] inner).mapM (fun d => do
      let (c, rest) ← parseColDef raw d
      if rest.isEmpty then some c else none)
    some (.createTable t 0 defs [])) <|>
  (do
    let ts ← eatKws ["DROP", "TABLE"] ts
    let ts := (eatKws ["IF", "EXISTS"] ts).getD ts
    let (t, ts) ← eatName ts
    if ts.isEmpty then some (.dropTable t) else none) <|>
  (do
    let ts ← eatKws ["CREATE"] ts
    let (uniq, ts) := match eatKws ["UNIQUE"] ts with
      | some r => (true, r)
      | none => (false, ts)
    let ts ← eatKws ["INDEX"] ts
    let (n, ts) ← eatName ts
    let ts ← eatKws ["ON"] ts
    let (t, ts) ← eatName ts
    let (cols, ts) ← eatNameList ts
    match ts with
    | [] => some (.createIndex t n cols uniq "")
    | _ => do
      let ts ← eatKws ["USING"] ts
      let (u, ts) ← eatName ts
      if ts.isEmpty then some (.createIndex t n cols uniq u.toUpper) else none) <|>
  (do
    let ts ← eatKws ["DROP", "INDEX"] ts
    let (n, ts) ← eatName ts
    match ts with
    | [] => some (.dropIndex "" n)
    | _ => do
      let ts ← eatKws ["ON"] ts
      let (t, ts) ← eatName ts
      if ts.isEmpty then some (.dropIndex t n) else none) <|>
  (do
    -- COMMENT ON TABLE t IS 'text': recorded as a comment on the pseudo column ""
    let ts ← eatKws ["COMMENT", "ON", "TABLE"] ts
    let (t, ts) ← eatName ts
    let ts ← eatKws ["IS"] ts
    match ts with
    | [s] => match s.tok with
      | .str x => some (.commentOn t "" x)
      | _ => none
    | _ => none) <|>
  (do
    let ts ← eatKws ["COMMENT", "ON", "COLUMN"] ts
    let (t, ts) ← eatName ts
    let ts ← eatSym '.' ts
    let (c, ts) ← eatName ts
    let ts ← eatKws ["IS"] ts
    match ts with
    | [s] => match s.tok with
      | .str x => some (.commentOn t c x)
      | _ => none
    | _ => none) <|>
  (do
    let ts ← eatKws ["ALTER", "TABLE"] ts
    let (t, ts) ← eatName ts
    (do
      let ts ← eatKws ["ADD", "COLUMN"] ts
      let (c, rest) ← parseColDef raw ts
      match rest with
      | [] => some (.addColumn t c .none)
      | [f] => if kwEq f "FIRST" then some (.addColumn t c .first) else none
      | [a, n] => if kwEq a "AFTER" then (eatName [n]).map (fun (x, _) => .addColumn t c (.after x)) else none
      | _ => none) <|>
    (do
      let ts ← eatKws ["DROP", "COLUMN"] ts
      let (c, ts) ← eatName ts
      if ts.isEmpty then some (.dropColumn t c) else none) <|>
    (do
      let ts ← eatKws ["MODIFY", "COLUMN"] ts
      let (c, rest) ← parseColDef raw ts
      if rest.isEmpty then some (.modifyColumn t c) else none) <|>
    (do
      let ts ← eatKws ["RENAME", "COLUMN"] ts
      let (o, ts) ← eatName ts
      let ts ← eatKws ["TO"] ts
      let (n, ts) ← eatName ts
      if ts.isEmpty then some (.renameColumn t o n) else none) <|>
    (do
      let ts ← eatKws ["RENAME", "INDEX"] ts
      let (o, ts) ← eatName ts
      let ts ← eatKws ["TO"] ts
      let (n, ts) ← eatName ts
      if ts.isEmpty then some (.renameIndex t o n) else none) <|>
    (do
      let ts ← eatKws ["ADD", "PRIMARY", "KEY"] ts
      let (cols, ts) ← eatNameList ts
      if ts.isEmpty then some (.addPrimaryKey t cols) else none) <|>
    (do
      let ts ← eatKws ["DROP", "PRIMARY", "KEY"] ts
      if ts.isEmpty then some (.dropPrimaryKey t) else none) <|>
    (do
      let ts ← eatKws ["ADD", "CONSTRAINT"] ts
      let (n, ts) ← eatName ts
      let ts ← eatKws ["FOREIGN", "KEY"] ts
      let (cols, ts) ← eatNameList ts
      let ts ← eatKws ["REFERENCES"] ts
      let (rt, ts) ← eatName ts
      let (rcs, ts) ← eatNameList ts
      match cols, rcs, ts with
      | [c], [rc], [] => some (.addFk t n c rt rc)
      | _, _, _ => none) <|>
    (do
      let ts ← (eatKws ["DROP", "CONSTRAINT"] ts <|> eatKws ["DROP", "FOREIGN", "KEY"] ts)
      let (n, ts) ← eatName ts
      if ts.isEmpty then some (.dropFk t n) else none))

/-- parse a whole migration text; `none` when some statement is outside the grammar.
    Block comments `/* … */` (the generated-by header, the empty marker) are skipped. -/
partial def stripComments : List Char → List Char
  | '/' :: '*' :: rest =>
    let rec skip : List Char → List Char
      | '*' :: '/' :: r => r
      | _ :: r => skip r
      | [] => []
    ' ' :: stripComments (skip rest)
  | c :: rest => c :: stripComments rest
  | [] => []

def parseScript (d : Dialect) (text : String) : Except String (List Stmt) :=
  let raw := stripComments text.toList
  match tokenize (quoteOf d) 0 raw with
  | none => .error "unterminated quoted token"
  | some toks =>
    (splitStmts [] toks).mapM (fun st =>
      match parseStmt raw st with
      | some s => .ok s
      | none =>
        let a := (st.head?.map (·.start)).getD 0
        let b := (st.getLast?.map (·.stop)).getD 0
        .error ("statement outside the grammar: " ++ sliceRaw raw a b))

end Sqlize.Grammar
