/-
  Spec/Exports.lean — C14 / C15 restated over the *reference* schema (`Spec.DB`, what an independent reading of the
  script gives), not over sqlize's model: which tables, which columns, in which order, which marker, which nullability.
-/
import SqlizeModel.Spec.Props
import SqlizeModel.Impl.Avro

namespace Sqlize.Spec.Exports
open Sqlize

def selectDB (db : DB) (need : List String) : DB := db.filter (fun t => need.isEmpty || need.contains t.name)

def commentOf (c : ColSpec) : String :=
  (c.opts.filterMap (fun o => match o with | .comment t => some t | _ => none)).getLast?.getD ""

def abbreviate (typ : String) : String :=
  if (toLowerAscii typ).startsWith "enum" then (typ.take 4).toString else typ

/-- the columns whose own definition carries PRIMARY KEY, as (table, column) pairs, read off the script.  The marker of
    the ERD is the *column's* constraint (`element.Column.Constraint`): a key declared at table level — `PRIMARY KEY (a, b)`
    in CREATE TABLE, ALTER TABLE ADD PRIMARY KEY — marks no column, which the repository's own golden
    `expectOrderUserMermaidJsErd` (composite key `client_id, country`, no marker) fixes as intended. -/
def inlineKeys (ss : List Stmt) : List (String × String) :=
  ss.foldl (fun acc s =>
    match s with
    | .createTable t _ cols _ =>
      acc.filter (·.1 != t) ++ (cols.filter (fun c => (colOf c).2)).map (fun c => (t, c.name))
    | .dropTable t => acc.filter (·.1 != t)
    | .addColumn t c _ => if (colOf c).2 then acc ++ [(t, c.name)] else acc
    | .modifyColumn t c =>
      let acc := acc.filter (· != (t, c.name))
      if (colOf c).2 then acc ++ [(t, c.name)] else acc
    | .dropColumn t c => acc.filter (· != (t, c))
    | .renameColumn t o n => acc.map (fun p => if p == (t, o) then (t, n) else p)
    | _ => acc) []

/-- one attribute line: data type (enum abbreviated), name, PK/FK marker, quoted comment -/
def attrLine (inl : List (String × String)) (t : TableSpec) (c : ColSpec) : String :=
  let marker := if t.pk.contains c.name && inl.contains (t.name, c.name) then "PK"
    else if t.fks.any (·.col == c.name) then "FK" else ""
  let cmt := commentOf c
  "  " ++ abbreviate c.typ ++ " " ++ c.name ++ " " ++ marker ++ " " ++ (if cmt == "" then "" else "\"" ++ cmt ++ "\"")

def entity (inl : List (String × String)) (t : TableSpec) : String :=
  "\n".intercalate ([" " ++ toUpperAscii t.name ++ " {"] ++ t.cols.map (attrLine inl t) ++ [" }"])

/-- one many-to-one relation line per ordered pair of entities linked by at least one foreign key (labelled with the
    first such key's column) -/
def relations (t : TableSpec) : List String :=
  let firsts := t.fks.foldl (fun (acc : List FkSpec) f => if acc.any (·.refT == f.refT) then acc else acc ++ [f]) []
  firsts.map (fun f => " " ++ toUpperAscii t.name ++ " }o--|| " ++ toUpperAscii f.refT ++ ": " ++ f.col)

def erd (ss : List Stmt) (db : DB) (need : List String) : String :=
  let ts := selectDB db need
  "erDiagram\n" ++ "\n".intercalate (ts.map (entity (inlineKeys ss))) ++ "\n" ++ "\n".intercalate (ts.flatMap relations)

def hasDefault (c : ColSpec) : Bool := c.opts.any (fun o => match o with | .default _ => true | _ => false)

def avroField (c : ColSpec) : String :=
  let k := (Avro.kindOf c.typ).toJson
  "{\"name\":" ++ Avro.jsonStr c.name ++ ",\"type\":" ++ (if hasDefault c then "[\"null\"," ++ k ++ "]" else k) ++ "}"

/-- the `before.Value.fields` array of a table: one field per column in table order -/
def avroFields (t : TableSpec) : String := ",".intercalate (t.cols.map avroField)

end Sqlize.Spec.Exports
