/-
  Spec/ProvedScope.lean — the hypotheses of the whole-schema theorems (`C01/C02/C03.schema_on_reference_engine`) as one
  executable predicate over a pair of scripts and their reference schemas.  The driver evaluates it on every generated
  pair: a pair inside it is counted (evidence: how much of the explored space lies inside the proved region) and cannot
  be excused by a recorded-finding region.  `Proofs/ScopeB.lean` proves that the predicate implies the theorems'
  hypotheses.
-/
import SqlizeModel.Spec.Props
import SqlizeModel.Impl.Emit
import SqlizeModel.Proofs.TableOrder

namespace Sqlize.Spec.Scope.Proved

/-- copy of `Stmt.elemSafe` (Proofs/FidelityElems.lean), on the driver's side of the import graph -/
def stmtElemSafe : Stmt → Bool
  | .dropPrimaryKey _ => false
  | .createIndex t name _ _ _ => t != "" && name != "primary_key"
  | .renameColumn .. => false
  | .renameIndex .. => false
  | .commentOn .. => false
  | .alterType .. | .setDefault .. | .dropNotNull .. => false
  | s => s.table != ""

/-- copy of `Stmt.colSafe` (Proofs/FidelityMain.lean): the vocabulary of the reader-fidelity theorem `Rel` -/
def stmtColSafe : Stmt → Bool
  | .renameColumn .. => false
  | .renameIndex .. => false
  | .commentOn .. => false
  | .alterType .. | .setDefault .. | .dropNotNull .. => false
  | s => s.table != ""

/-- copy of `Stmt.tablePk` (Proofs/FidelityPk.lean): keys are declared at table level only -/
def stmtTablePk : Stmt → Bool
  | .createTable _ _ cols _ => cols.all (fun c => c.opts.all (fun o => o.kind != .primaryKey))
  | .addColumn _ c _ => c.opts.all (fun o => o.kind != .primaryKey)
  | .modifyColumn _ c => c.opts.all (fun o => o.kind != .primaryKey)
  | _ => true

def colDefPlain (c : ColDef) : Bool :=
  c.opts.all (fun o => o.kind != .reference && o.kind != .primaryKey && o.hasExpr)

/-- copy of `Stmt.plainOpts` (Proofs/OptsGood.lean) -/
def stmtPlainOpts : Stmt → Bool
  | .createTable _ _ cols _ => cols.all colDefPlain
  | .addColumn _ c _ => colDefPlain c
  | .modifyColumn _ c => colDefPlain c
  | _ => true

/-- conditions on every table of either side -/
def tableOK (tb : TableSpec) : Bool :=
  tb.name != "" && tb.name != Migration.defaultMigrationTable

/-- conditions on a table both sides have: common columns in the same relative order, no empty column name, the same
    primary key, no index redefined under its name while all columns of its old (`up`) / new (`down`) definition go, and
    no foreign key redefined under its name (the recorded finding `foreign-key-redefined`) -/
def bothOK (up : Bool) (tbO tbN : TableSpec) : Bool :=
  (tbN.colNames.filter (fun x => decide (x ∈ tbO.colNames))) == (tbO.colNames.filter (fun x => decide (x ∈ tbN.colNames))) &&
  (tbN.colNames ++ tbO.colNames).all (· != "") && tbO.pk == tbN.pk &&
  tbN.idxs.all (fun s => tbO.idxs.all (fun o => o.name != s.name || o == s ||
    (if up then o.cols.any (fun c => tbN.colNames.contains c) else s.cols.any (fun c => tbO.colNames.contains c)))) &&
  tbN.fks.all (fun s => tbO.fks.all (fun o => s.name != o.name || decide (s = o)))

def pairOK (up : Bool) (dbO dbN : DB) : Bool :=
  (dbO ++ dbN).all tableOK &&
  dbO.all (fun tbO => dbN.all (fun tbN => tbO.name != tbN.name || bothOK up tbO tbN))

def scripts (g : Globals) (old new : List Stmt) : Bool :=
  g.dialect == .mysql && old.all stmtElemSafe && new.all stmtElemSafe &&
    old.all stmtPlainOpts && new.all stmtPlainOpts

/-- inside the scope of `C01.schema_on_reference_engine` -/
def up (g : Globals) (old new : List Stmt) (dbO dbN : DB) : Bool := scripts g old new && pairOK true dbO dbN
/-- inside the scope of `C02.schema_on_reference_engine` -/
def down (g : Globals) (old new : List Stmt) (dbO dbN : DB) : Bool := scripts g old new && pairOK false dbO dbN
/-- inside the scope of `C03.schema_on_reference_engine` -/
def both (g : Globals) (old new : List Stmt) (dbO dbN : DB) : Bool := up g old new dbO dbN && down g old new dbO dbN

/-- the first hypothesis of the up theorem a pair fails (for the coverage statistics of the evidence) -/
def whyNot (g : Globals) (old new : List Stmt) (dbO dbN : DB) : String :=
  if g.dialect != .mysql then "dialect"
  else if !(old.all stmtElemSafe && new.all stmtElemSafe) then "vocabulary"
  else if !(old.all stmtPlainOpts && new.all stmtPlainOpts) then "inline-primary-key-or-reference"
  else if !(dbO ++ dbN).all tableOK then "table-name"
  else if !dbO.all (fun tbO => dbN.all (fun tbN => tbO.name != tbN.name ||
      tbN.fks.all (fun s => tbO.fks.all (fun o => s.name != o.name || decide (s = o))))) then "foreign-key-redefined"
  else if !pairOK true dbO dbN then "common-table"
  else "inside"

/-- inside the scope of `C05.dump_on_reference_engine` (the whole-schema theorem of C01 with an empty old side: what is
    printed for a loaded script, executed on the empty schema, is the schema the script describes) -/
def dump (g : Globals) (ss : List Stmt) (db : DB) : Bool := up g [] ss [] db

/-- inside the scope of `C07.value_is_a_function_of_the_schema` -/
def hash (g : Globals) (ss : List Stmt) : Bool := g.dialect == .mysql && ss.all stmtElemSafe && ss.all stmtTablePk

/-- inside the scope of `C15.export_of_the_reference_schema` -/
def avro (g : Globals) (ss : List Stmt) : Bool := g.dialect == .mysql && ss.all stmtColSafe

-- ---------------------------------------------------------------------------------------------------------------
-- C04: revision lists (newest first, each script with the reference schema it describes)

/-- the schema the revisions leave -/
def lastOf : List (List Stmt × DB) → DB
  | [] => []
  | p :: _ => p.2

/-- the revisions of a workflow, newest first, with their reference schemas (referential checks off, as in the theorems) -/
def revsOf (scripts : List (List Stmt)) : Option (List (List Stmt × DB)) :=
  scripts.foldl (fun acc ss => match acc, execAll false [] ss with
    | some revs, some db => some ((ss, db) :: revs)
    | _, _ => none) (some [])

/-- inside the scope of `C04.model_converges` / `model_next_diff_empty`: every revision in the vocabulary, every step inside
    the scope of the whole-schema theorem of C01 -/
def chainUp : List (List Stmt × DB) → Bool
  | [] => true
  | p :: older => p.1.all stmtElemSafe && p.1.all stmtPlainOpts && pairOK true (lastOf older) p.2 && chainUp older

/-- … and of `C04.model_down_returns`: every step inside the scope of the C02 theorem too -/
def chainDown : List (List Stmt × DB) → Bool
  | [] => true
  | p :: older => pairOK false (lastOf older) p.2 && chainDown older

/-- … and of `C04.model_fingerprint`: the tables two consecutive revisions share come first, the new ones after them -/
def chainOrdered : List (List Stmt × DB) → Bool
  | [] => true
  | p :: older => (namesAfter ((lastOf older).map (·.name)) (p.2.map (·.name)) == p.2.map (·.name)) && chainOrdered older

end Sqlize.Spec.Scope.Proved
