/-
  Generated/Skeletons.lean — written by harness/cmd/factgen (skeleton.go) from /repo on every run; do not edit.
-/
namespace Sqlize.Facts

/-- control skeleton of the functions of package element (function, control statements with conditions and selector calls, in source order) -/
def elementSkeleton : List (String × List String) := [
  ("column:Column.Constraint", ["range c.CurrentAttr.Options", "do{", "switch opt.Tp", "cases{", "case ast.ColumnOptionPrimaryKey", "return", "case ast.ColumnOptionReference", "return", "}", "}", "return"]),
  ("column:Column.DataType", ["return", "call typeDefinition"]),
  ("column:Column.GetType", ["if c.CurrentAttr.MysqlType != nil", "then{", "return", "}", "return"]),
  ("column:Column.HasDefaultValue", ["range c.CurrentAttr.Options", "do{", "if opt.Tp == ast.ColumnOptionDefaultValue", "then{", "return", "}", "}", "return"]),
  ("column:Column.definition", ["call pkDefinition", "return"]),
  ("column:Column.hashValue", ["call EscapeSqlName", "call typeDefinition", "call Sum", "return", "call EncodeToString"]),
  ("column:Column.migrationCommentUp", ["if c.CurrentAttr.Comment == \"\" || sql.GetDialect() != sql_templates.PostgresDialect", "then{", "return", "}", "return", "call Sprintf", "call ColumnComment"]),
  ("column:Column.migrationDown", ["switch c.Action", "cases{", "case MigrateNoAction", "return", "case MigrateAddAction", "case MigrateRemoveAction", "case MigrateModifyAction", "case MigrateRenameAction", "case default", "return", "}", "return", "call migrationUp"]),
  ("column:Column.migrationUp", ["switch c.Action", "cases{", "case MigrateNoAction", "return", "case MigrateAddAction", "call EscapeSqlName", "if ident > len(c.Name)", "then{", "call Repeat", "}", "call definition", "if ident < 0", "then{", "if ignoreFieldOrder", "then{", "return", "call Sprintf", "call AlterTableAddColumnStm", "call EscapeSqlName", "}", "if after != \"\"", "then{", "return", "call Sprintf", "call AlterTableAddColumnAfterStm", "call EscapeSqlName", "call EscapeSqlName", "}", "return", "call Sprintf", "call AlterTableAddColumnFirstStm", "call EscapeSqlName", "}", "return", "call migrationCommentUp", "case MigrateRemoveAction", "if sql.IsSqlite()", "then{", "return", "}", "return", "call Sprintf", "call AlterTableDropColumnStm", "call EscapeSqlName", "call EscapeSqlName", "case MigrateModifyAction", "call pkDefinition", "if isPk", "then{", "call pkDefinition", "if isPrevPk", "then{", "call optionsDefinition", "}", "}", "return", "call Sprintf", "call AlterTableModifyColumnStm", "call EscapeSqlName", "call EscapeSqlName", "case MigrateRevertAction", "call pkDefinition", "if isPrevPk", "then{", "call pkDefinition", "if isPk", "then{", "call optionsDefinition", "}", "}", "return", "call Sprintf", "call AlterTableModifyColumnStm", "call EscapeSqlName", "call EscapeSqlName", "case MigrateRenameAction", "return", "call Sprintf", "call AlterTableRenameColumnStm", "call EscapeSqlName", "call EscapeSqlName", "call EscapeSqlName", "case default", "return", "}"]),
  ("column:Column.optionsDefinition", ["if isPrev", "then{", "}", "call typeDefinition", "range attr.Options", "do{", "if opt.Tp == ast.ColumnOptionPrimaryKey", "then{", "if skipPk", "then{", "continue", "}", "}", "call NewBufferString", "if sql.IsLowercase()", "then{", "call NewRestoreCtx", "}", "else{", "call NewRestoreCtx", "}", "if sql.IsPostgres() && opt.Tp == ast.ColumnOptionDefaultValue", "then{", "continue", "}", "if opt.Tp == ast.ColumnOptionReference && opt.Refer == nil", "then{", "continue", "}", "call Restore", "call String", "}", "return"]),
  ("column:Column.pkDefinition", ["return", "call optionsDefinition"]),
  ("column:Column.typeDefinition", ["if isPrev", "then{", "}", "switch ", "cases{", "case sql.IsPostgres() && attr.PgType != nil", "return", "call SQLString", "case sql.IsSqlite() && attr.LiteType != nil", "return", "case attr.MysqlType != nil", "return", "call String", "}", "return"]),
  ("foreign_key:ForeignKey.hashValue", ["call Join", "call migrationUp", "call Sum", "return", "call EncodeToString"]),
  ("foreign_key:ForeignKey.migrationDown", ["switch fk.Action", "cases{", "case MigrateNoAction", "return", "case MigrateAddAction", "case MigrateRemoveAction", "case MigrateModifyAction", "case MigrateRenameAction", "case default", "return", "}", "return", "call migrationUp"]),
  ("foreign_key:ForeignKey.migrationUp", ["switch fk.Action", "cases{", "case MigrateNoAction", "return", "case MigrateAddAction", "return", "call Sprintf", "call CreateForeignKeyStm", "call EscapeSqlName", "call EscapeSqlName", "call EscapeSqlName", "call EscapeSqlName", "call EscapeSqlName", "case MigrateRemoveAction", "return", "call Sprintf", "call DropForeignKeyStm", "call EscapeSqlName", "call EscapeSqlName", "case MigrateModifyAction", "return", "case MigrateRenameAction", "return", "case default", "return", "}"]),
  ("index:Index.hashValue", ["if i.IndexType == model.IndexTypeBtree", "then{", "}", "call Join", "call migrationUpWith", "call NewSql", "call GetDialect", "call Sum", "return", "call EncodeToString"]),
  ("index:Index.migrationDown", ["switch i.Action", "cases{", "case MigrateNoAction", "return", "case MigrateAddAction", "case MigrateRemoveAction", "case MigrateModifyAction", "if i.previous != nil", "then{", "return", "call migrationUp", "}", "case MigrateRenameAction", "case default", "return", "}", "return", "call migrationUp"]),
  ("index:Index.migrationUp", ["return", "call migrationUpWith"]),
  ("index:Index.migrationUpWith", ["switch i.Action", "cases{", "case MigrateNoAction", "return", "case MigrateAddAction", "if i.CnsTyp == ast.ConstraintPrimaryKey", "then{", "return", "call Sprintf", "call CreatePrimaryKeyStm", "call EscapeSqlName", "call Join", "call EscapeSqlNames", "}", "switch i.Typ", "cases{", "case ast.IndexKeyTypeNone", "return", "call Sprintf", "call CreateIndexStm", "call String", "call EscapeSqlName", "call EscapeSqlName", "call Join", "call EscapeSqlNames", "case ast.IndexKeyTypeUnique", "return", "call Sprintf", "call CreateUniqueIndexStm", "call String", "call EscapeSqlName", "call EscapeSqlName", "call Join", "call EscapeSqlNames", "case default", "return", "}", "case MigrateRemoveAction", "if i.CnsTyp == ast.ConstraintPrimaryKey", "then{", "return", "call Sprintf", "call DropPrimaryKeyStm", "call EscapeSqlName", "}", "if sql.IsSqlite()", "then{", "return", "call Sprintf", "call DropIndexStm", "call EscapeSqlName", "}", "return", "call Sprintf", "call DropIndexStm", "call EscapeSqlName", "call EscapeSqlName", "case MigrateModifyAction", "call migrationUpWith", "call migrationUpWith", "return", "case MigrateRenameAction", "return", "call Sprintf", "call AlterTableRenameIndexStm", "call EscapeSqlName", "call EscapeSqlName", "call EscapeSqlName", "case default", "return", "}"]),
  ("migration:Migration.AddColumn", ["if tbName == \"\"", "then{", "}", "call getIndexTable", "if id == -1", "then{", "call NewTableWithAction", "call AddTable", "}", "call AddColumn"]),
  ("migration:Migration.AddComment", ["if tbName == \"\"", "then{", "}", "call getIndexTable", "if id == -1", "then{", "return", "}", "call getIndexColumn", "if colIdx == -1", "then{", "return", "}"]),
  ("migration:Migration.AddForeignKey", ["if tbName == \"\"", "then{", "}", "if fk.Table == \"\"", "then{", "}", "call getIndexTable", "if id == -1", "then{", "call NewTableWithAction", "call AddTable", "}", "call AddForeignKey"]),
  ("migration:Migration.AddIndex", ["if tbName == \"\"", "then{", "}", "call getIndexTable", "if id == -1", "then{", "call NewTableWithAction", "call AddTable", "}", "call AddIndex"]),
  ("migration:Migration.AddTable", ["call getIndexTable", "if id == -1", "then{", "return", "}"]),
  ("migration:Migration.Diff", ["func{", "return", "}", "range m.Tables", "do{", "call getIndexTable", "if j >= 0 && exists(old.Tables[j])", "then{", "call Diff", "}", "}", "range old.Tables", "do{", "call getIndexTable", "if i == -1 && exists(old.Tables[j])", "then{", "call AddTable", "}", "}"]),
  ("migration:Migration.HashValue", ["if len(m.Tables) == 0", "then{", "return", "}", "range m.Tables", "do{", "call hashValue", "}", "call Join", "call Sum", "return", "call int64", "call Uint64"]),
  ("migration:Migration.MigrationDown", ["range m.Tables", "do{", "if m.Tables[i].Name == utils.DefaultMigrationTable", "then{", "continue", "}", "call Arrange", "call MigrationColumnDown", "if len(mCols) > 0", "then{", "call Join", "}", "call MigrationIndexDown", "if len(mIdxs) > 0", "then{", "call Join", "}", "call MigrationForeignKeyDown", "if len(mFks) > 0", "then{", "call Join", "}", "if len(strTb) > 0", "then{", "call Join", "}", "}", "return", "call Join"]),
  ("migration:Migration.MigrationUp", ["range m.Tables", "do{", "if m.Tables[i].Name == utils.DefaultMigrationTable", "then{", "continue", "}", "call Arrange", "call MigrationColumnUp", "if len(mCols) > 0", "then{", "call Join", "}", "call MigrationIndexUp", "if len(mIdxs) > 0", "then{", "call Join", "}", "call MigrationForeignKeyUp", "if len(mFks) > 0", "then{", "call Join", "}", "if len(strTb) > 0", "then{", "call Join", "}", "}", "return", "call Join"]),
  ("migration:Migration.RemoveColumn", ["if tbName == \"\"", "then{", "}", "call getIndexTable", "if id == -1", "then{", "call NewTableWithAction", "call AddTable", "}", "call removeColumn"]),
  ("migration:Migration.RemoveForeignKey", ["if tbName == \"\"", "then{", "}", "call getIndexTable", "if id == -1", "then{", "call NewTableWithAction", "call AddTable", "}", "call RemoveForeignKey"]),
  ("migration:Migration.RemoveIndex", ["if tbName == \"\"", "then{", "}", "call getIndexTable", "if id == -1", "then{", "call NewTableWithAction", "call AddTable", "}", "call RemoveIndex"]),
  ("migration:Migration.RemoveTable", ["call getIndexTable", "if id == -1", "then{", "call NewTableWithAction", "return", "}", "if m.Tables[id].Action == MigrateAddAction", "then{", "call delete", "range m.tableIndexes", "do{", "if v > id", "then{", "}", "}", "}", "else{", "}"]),
  ("migration:Migration.RenameColumn", ["if tbName == \"\"", "then{", "}", "call getIndexTable", "if id >= 0", "then{", "call RenameColumn", "}"]),
  ("migration:Migration.RenameIndex", ["if tbName == \"\"", "then{", "}", "call getIndexTable", "if id >= 0", "then{", "call RenameIndex", "}"]),
  ("migration:Migration.RenameTable", ["call getIndexTable", "if id >= 0", "then{", "call delete", "}"]),
  ("migration:Migration.SetColumnPosition", ["if tbName == \"\"", "then{", "}", "call getIndexTable", "if id >= 0", "then{", "}"]),
  ("migration:Migration.Using", ["if tbName != \"\"", "then{", "}"]),
  ("migration:Migration.getIndexTable", ["if ok", "then{", "return", "}", "return"]),
  ("migration:NewMigration", ["call NewSql", "return"]),
  ("table:NewTable", ["return", "call NewTableWithAction"]),
  ("table:NewTableWithAction", ["return"]),
  ("table:Table.AddColumn", ["call getIndexColumn", "switch ", "cases{", "case id == -1", "case t.Columns[id].Action != MigrateAddAction", "case default", "if col.Action == MigrateModifyAction && col.CurrentAttr.MysqlType != nil", "then{", "}", "if size > 0", "then{", "range t.Columns[id].CurrentAttr.Options[:size-1]", "do{", "if t.Columns[id].CurrentAttr.Options[i].Tp == ast.ColumnOptionPrimaryKey", "then{", "break", "}", "}", "}", "if col.CurrentAttr.PgType != nil", "then{", "}", "return", "}", "if t.columnPosition != nil", "then{", "func{", "}", "switch t.columnPosition.Tp", "cases{", "case ast.ColumnPositionFirst", "call swapOrder", "case ast.ColumnPositionAfter", "call getIndexColumn", "if afterID >= 0", "then{", "call swapOrder", "}", "}", "}"]),
  ("table:Table.AddForeignKey", ["call getIndexForeignKey", "if id == -1", "then{", "}", "else{", "}", "range t.Columns", "do{", "if t.Columns[i].Name == fk.Column", "then{", "}", "}"]),
  ("table:Table.AddIndex", ["call getIndexIndex", "if id == -1", "then{", "return", "}"]),
  ("table:Table.Arrange", ["range t.columnIndexes", "do{", "}", "call Slice", "func{", "return", "}", "range orders", "do{", "range t.Columns", "do{", "if orders[i].k == t.Columns[j].Name", "then{", "break", "}", "}", "}"]),
  ("table:Table.Diff", ["range t.Columns", "do{", "call getIndexColumn", "if t.Columns[i].Action == MigrateAddAction && j >= 0 && old.Columns[j].Action != MigrateNoAction", "then{", "if hasChangedMysqlOptions(t.Columns[i].CurrentAttr.Options, old.Columns[j].CurrentAttr.Options) || hasChangedMysqlType(t.Columns[i].CurrentAttr.MysqlType, old.Columns[j].CurrentAttr.MysqlType) || hasChangePostgresType(t.Columns[i].CurrentAttr.PgType, old.Columns[j].CurrentAttr.PgType)", "then{", "}", "else{", "}", "}", "}", "range old.Columns", "do{", "if old.Columns[j].Action == MigrateAddAction && t.getIndexColumn(old.Columns[j].Name) == -1", "then{", "call AddColumn", "for j - 1; k >= 0; k--", "do{", "if old.Columns[k].Action != MigrateNoAction", "then{", "call getIndexColumn", "break", "}", "}", "call swapOrder", "}", "}", "range t.Indexes", "do{", "call getIndexIndex", "if t.Indexes[i].Action == MigrateAddAction && j >= 0 && old.Indexes[j].Action != MigrateNoAction", "then{", "if t.Indexes[i].Typ == old.Indexes[j].Typ && utils.SlideStrEqual(t.Indexes[i].Columns, old.Indexes[j].Columns) && sameIndexType(t.Indexes[i].IndexType, old.Indexes[j].IndexType)", "then{", "}", "else{", "}", "}", "}", "range old.Indexes", "do{", "if old.Indexes[j].Action == MigrateAddAction && t.getIndexIndex(old.Indexes[j].Name) == -1", "then{", "call AddIndex", "}", "}", "range t.ForeignKeys", "do{", "call getIndexForeignKey", "if t.ForeignKeys[i].Action == MigrateAddAction && j >= 0 && old.ForeignKeys[j].Action != MigrateNoAction", "then{", "}", "}", "range old.ForeignKeys", "do{", "if old.ForeignKeys[j].Action == MigrateAddAction && t.getIndexForeignKey(old.ForeignKeys[j].Name) == -1", "then{", "call AddForeignKey", "}", "}"]),
  ("table:Table.MigrationColumnDown", ["switch t.Action", "cases{", "case MigrateNoAction", "range t.Columns", "do{", "if t.Columns[i].Action != MigrateNoAction", "then{", "if t.Columns[i].Action == MigrateRemoveAction", "then{", "for i - 1; j >= 0; j--", "do{", "if t.Columns[j].Action != MigrateAddAction", "then{", "break", "}", "}", "}", "else{", "if t.Columns[i].Action == MigrateAddAction", "then{", "}", "}", "if ignoreFieldOrder || after == \"\"", "then{", "call migrationDown", "}", "else{", "call migrationDown", "}", "}", "}", "return", "case MigrateAddAction", "return", "call MigrationColumnUp", "case MigrateRemoveAction", "return", "call MigrationColumnUp", "case MigrateModifyAction", "return", "case default", "return", "}"]),
  ("table:Table.MigrationColumnUp", ["switch t.Action", "cases{", "case MigrateNoAction", "range t.Columns", "do{", "if t.Columns[i].Action != MigrateNoAction", "then{", "if t.Columns[i].Action == MigrateAddAction", "then{", "for i - 1; j >= 0; j--", "do{", "if t.Columns[j].Action != MigrateRemoveAction", "then{", "break", "}", "}", "}", "else{", "if t.Columns[i].Action == MigrateRemoveAction", "then{", "}", "}", "if ignoreFieldOrder || after == \"\"", "then{", "call migrationUp", "}", "else{", "call migrationUp", "}", "}", "}", "return", "case MigrateAddAction", "if len(t.Columns) > 0", "then{", "}", "range t.Columns", "do{", "if t.Columns[i].Action == MigrateAddAction || t.Columns[i].Action == MigrateModifyAction || t.Columns[i].Action == MigrateRenameAction", "then{", "if len(t.Columns[i].Name) > maxIdent", "then{", "}", "}", "}", "range t.Columns", "do{", "if t.Columns[i].Action == MigrateAddAction", "then{", "call migrationUp", "}", "else{", "if t.Columns[i].Action == MigrateModifyAction || t.Columns[i].Action == MigrateRenameAction", "then{", "call migrationUp", "}", "}", "call migrationCommentUp", "}", "return", "call Sprintf", "call CreateTableStm", "call EscapeSqlName", "call Join", "case MigrateRemoveAction", "return", "call Sprintf", "call DropTableStm", "call EscapeSqlName", "case MigrateModifyAction", "return", "case default", "return", "}"]),
  ("table:Table.MigrationForeignKeyDown", ["switch t.Action", "cases{", "case MigrateNoAction", "range t.ForeignKeys", "do{", "if t.ForeignKeys[i].Action != MigrateNoAction && (t.ForeignKeys[i].Action != MigrateAddAction || !ok)", "then{", "call migrationDown", "}", "}", "return", "case MigrateAddAction", "return", "call MigrationForeignKeyUp", "case MigrateRemoveAction", "return", "call MigrationForeignKeyUp", "case MigrateModifyAction", "return", "case default", "return", "}"]),
  ("table:Table.MigrationForeignKeyUp", ["switch t.Action", "cases{", "case MigrateNoAction", "range t.ForeignKeys", "do{", "if t.ForeignKeys[i].Action != MigrateNoAction && (t.ForeignKeys[i].Action != MigrateRemoveAction || !ok)", "then{", "call migrationUp", "}", "}", "return", "case MigrateAddAction", "range t.ForeignKeys", "do{", "if t.ForeignKeys[i].Action == MigrateAddAction", "then{", "call migrationUp", "}", "}", "return", "case MigrateRemoveAction", "return", "case MigrateModifyAction", "return", "case default", "return", "}"]),
  ("table:Table.MigrationIndexDown", ["switch t.Action", "cases{", "case MigrateNoAction", "range t.Indexes", "do{", "call allDropped", "if t.Indexes[i].Action != MigrateNoAction && (t.Indexes[i].Action != MigrateAddAction || !ok)", "then{", "call migrationDown", "}", "}", "return", "case MigrateAddAction", "return", "call MigrationIndexUp", "case MigrateRemoveAction", "return", "call MigrationIndexUp", "case MigrateModifyAction", "return", "case default", "return", "}"]),
  ("table:Table.MigrationIndexUp", ["switch t.Action", "cases{", "case MigrateNoAction", "range t.Indexes", "do{", "call allDropped", "if t.Indexes[i].Action != MigrateNoAction && (t.Indexes[i].Action != MigrateRemoveAction || !ok)", "then{", "call migrationUp", "}", "}", "return", "case MigrateAddAction", "range t.Indexes", "do{", "if t.Indexes[i].Action == MigrateAddAction", "then{", "call migrationUp", "}", "else{", "if t.Indexes[i].Action == MigrateRenameAction", "then{", "call migrationUp", "}", "}", "}", "return", "case MigrateRemoveAction", "return", "case MigrateModifyAction", "return", "case default", "return", "}"]),
  ("table:Table.RemoveForeignKey", ["call getIndexForeignKey", "if id == -1", "then{", "return", "}", "if t.ForeignKeys[id].Action == MigrateAddAction", "then{", "call forgetForeignKey", "}", "else{", "}"]),
  ("table:Table.RemoveIndex", ["call getIndexIndex", "if id == -1", "then{", "return", "}", "if t.Indexes[id].Action == MigrateAddAction", "then{", "call forgetIndex", "}", "else{", "}"]),
  ("table:Table.RenameColumn", ["call getIndexColumn", "if id >= 0", "then{", "call delete", "}"]),
  ("table:Table.RenameIndex", ["call getIndexIndex", "if id >= 0", "then{", "call delete", "}"]),
  ("table:Table.forgetForeignKey", ["range t.Columns", "do{", "if t.Columns[i].Name != t.ForeignKeys[id].Column", "then{", "continue", "}", "for len(opts) - 1; j >= 0; j--", "do{", "if opts[j].Tp == ast.ColumnOptionReference && opts[j].Refer == nil", "then{", "break", "}", "}", "}", "call delete", "range t.indexForeignKeys", "do{", "if v > id", "then{", "}", "}"]),
  ("table:Table.forgetIndex", ["call delete", "range t.indexIndexes", "do{", "if v > id", "then{", "}", "}"]),
  ("table:Table.getIndexColumn", ["if ok", "then{", "return", "}", "return"]),
  ("table:Table.getIndexForeignKey", ["if ok", "then{", "return", "}", "return"]),
  ("table:Table.getIndexIndex", ["if ok", "then{", "return", "}", "return"]),
  ("table:Table.hashValue", ["range t.Columns", "do{", "call hashValue", "}", "call Slice", "func{", "return", "}", "range t.Indexes", "do{", "call hashValue", "}", "call Slice", "func{", "return", "}", "call Join", "call Sum", "return", "call EncodeToString"]),
  ("table:Table.removeColumn", ["call getIndexColumn", "switch ", "cases{", "case id == -1", "case t.Columns[id].Action == MigrateAddAction || t.Columns[id].Action == MigrateRenameAction", "call delete", "range t.columnIndexes", "do{", "if v > id", "then{", "}", "}", "for len(t.Indexes) - 1; i >= 0; i--", "do{", "range t.Indexes[i].Columns", "do{", "if c != colName", "then{", "}", "}", "if len(cols) == 0 && len(t.Indexes[i].Columns) > 0", "then{", "call forgetIndex", "}", "else{", "}", "}", "for len(t.ForeignKeys) - 1; i >= 0; i--", "do{", "if t.ForeignKeys[i].Column == colName", "then{", "call forgetForeignKey", "}", "}", "case default", "}"]),
  ("table:Table.swapOrder", ["if oldID == newID", "then{", "return", "}", "if newID == len(t.Columns)-1", "then{", "}", "else{", "}", "switch ", "cases{", "case oldID > newID", "range t.columnIndexes", "do{", "if t.columnIndexes[k] >= newID && t.columnIndexes[k] < oldID", "then{", "}", "}", "if oldID == len(t.Columns)-2", "then{", "}", "else{", "}", "case oldID < newID", "range t.columnIndexes", "do{", "if t.columnIndexes[k] > oldID && t.columnIndexes[k] <= newID", "then{", "}", "}", "}"]),
  ("table:allDropped", ["range cols", "do{", "if !ok", "then{", "return", "}", "}", "return"]),
  ("table:hasChangePostgresType", ["return", "call SQLString", "call SQLString"]),
  ("table:hasChangedMysqlOptions", ["call withoutForeignKeyMarks", "call withoutForeignKeyMarks", "if len(new) != len(old)", "then{", "return", "}", "range new", "do{", "call optionKey", "}", "range old", "do{", "call optionKey", "}", "range mOld", "do{", "if mNew[k] != v", "then{", "return", "}", "}", "return"]),
  ("table:hasChangedMysqlType", ["return", "call String", "call String"]),
  ("table:optionKey", ["if opt.Expr == nil", "then{", "return", "call Sprintf", "}", "call NewBufferString", "call Restore", "call NewRestoreCtx", "return", "call String"]),
  ("table:sameIndexType", ["func{", "if tp == model.IndexTypeInvalid", "then{", "return", "}", "return", "}", "return", "call norm", "call norm"]),
  ("table:withoutForeignKeyMarks", ["range opts", "do{", "if opts[i].Tp == ast.ColumnOptionReference && opts[i].Refer == nil", "then{", "continue", "}", "}", "return"])]

/-- control skeleton of the functions of package sql_builder (function, control statements with conditions and selector calls, in source order) -/
def builderSkeleton : List (String × List String) := [
  ("builder:NewSqlBuilder", ["range opts", "do{", "call apply", "}", "return", "call NewSql"]),
  ("builder:SqlBuilder.AddTable", ["call GetTableName", "call parseStruct", "call PrimaryOption", "range columns", "do{", "if strings.Index(columns[i], sqlPrimaryKey) > 0", "then{", "break", "}", "}", "if s.generateComment", "then{", "switch s.dialect", "cases{", "case sql_templates.PostgresDialect", "call Sprintf", "call TableComment", "call EscapeSqlName", "case default", "call Sprintf", "call TableComment", "}", "}", "call Sprintf", "call CreateTableStm", "call EscapeSqlName", "call Join", "range columnsHistory", "do{", "call Sprintf", "call AlterTableRenameColumnStm", "call EscapeSqlName", "call EscapeSqlName", "call EscapeSqlName", "}", "return", "call Join"]),
  ("builder:SqlBuilder.GetTableName", ["call TypeOf", "if t.Kind() == reflect.Ptr", "then{", "call Name", "call Elem", "}", "else{", "call Name", "}", "call TypeOf", "call MethodByName", "if ok", "then{", "call Call", "call MethodByName", "call ValueOf", "if len(v) > 0", "then{", "return", "call String", "}", "}", "if s.pluralTableName", "then{", "return", "call ToSnakeCase", "}", "return", "call ToSnakeCase"]),
  ("builder:SqlBuilder.MappingTables", ["range m", "do{", "}"]),
  ("builder:SqlBuilder.RemoveTable", ["call GetTableName", "return", "call Sprintf", "call DropTableStm", "call EscapeSqlName"]),
  ("builder:SqlBuilder.parseStruct", ["call ValueOf", "call TypeOf", "for 0; j < t.NumField(); j++", "do{", "call Field", "call Get", "if stag == \"-\"", "then{", "continue", "}", "call ToSnakeCase", "call Split", "range xstag", "do{", "call ToSnakeCase", "switch ", "cases{", "case strings.HasPrefix(normTag, prefixColumn)", "call Split", "call trimPrefix", "if len(columnNames) == 1", "then{", "}", "else{", "}", "case strings.HasPrefix(normTag, prefixEmbedded)", "call trimPrefix", "case strings.HasPrefix(normTag, prefixForeignKey)", "if at.ForeignKey == nil", "then{", "}", "call trimPrefix", "call Split", "call String", "if ok", "then{", "}", "else{", "call ToSnakeCase", "}", "call Sprintf", "if at.ForeignKey.Column == \"\"", "then{", "}", "case strings.HasPrefix(normTag, prefixFkReferences)", "if at.ForeignKey == nil", "then{", "}", "call trimPrefix", "case strings.HasPrefix(normTag, prefixFkConstraint)", "if at.ForeignKey == nil", "then{", "}", "call trimPrefix", "case strings.HasPrefix(normTag, prefixType)", "call trimPrefix", "if s.generateComment && at.Comment == \"\" && strings.HasPrefix(strings.ToLower(at.Type), tagEnum)", "then{", "call ReplaceAllString", "call createCommentFromEnum", "call Split", "}", "case strings.HasPrefix(normTag, prefixDefault)", "call Sprintf", "call DefaultOption", "call trimPrefix", "case strings.HasPrefix(normTag, prefixComment)", "call trimPrefix", "case normTag == tagIsPrimaryKey", "case normTag == tagIsIndex", "call getWhenEmpty", "call createIndexName", "call EscapeSqlName", "case normTag == tagIsUniqueIndex", "call getWhenEmpty", "call createIndexName", "if at.IndexColumns == \"\"", "then{", "call EscapeSqlName", "}", "case strings.HasPrefix(normTag, prefixIndex)", "call Split", "call trimPrefix", "call createIndexName", "if len(idxFields) > 1", "then{", "call Join", "call EscapeSqlNames", "}", "else{", "call EscapeSqlName", "}", "case strings.HasPrefix(normTag, prefixUniqueIndex)", "call createIndexName", "call trimPrefix", "call EscapeSqlName", "case strings.HasPrefix(normTag, prefixIndexColumns)", "call Split", "call trimPrefix", "if at.IsPk", "then{", "}", "call createIndexName", "call Join", "call EscapeSqlNames", "case strings.HasPrefix(normTag, prefixIndexType)", "call getWhenEmpty", "call createIndexName", "if len(at.IndexColumns) == 0", "then{", "call Join", "call EscapeSqlNames", "}", "call trimPrefix", "case normTag == tagIsNull", "case normTag == tagIsNotNull", "case normTag == tagIsAutoIncrement", "case normTag == tagIsSquash,normTag == tagIsEmbedded", "}", "}", "if at.ForeignKey != nil", "then{", "call Sprintf", "call CreateForeignKeyStm", "call EscapeSqlName", "call EscapeSqlName", "call EscapeSqlName", "call EscapeSqlName", "call EscapeSqlName", "continue", "}", "if at.IsPk", "then{", "if len(pkFields) > 1", "then{", "call Join", "call EscapeSqlNames", "call Sprintf", "call CreatePrimaryKeyStm", "}", "}", "else{", "if at.Index != \"\"", "then{", "if at.IsUnique", "then{", "call Sprintf", "call CreateUniqueIndexStm", "call EscapeSqlName", "call EscapeSqlName", "}", "else{", "call Sprintf", "call CreateIndexStm", "call EscapeSqlName", "call EscapeSqlName", "}", "}", "}", "if len(at.Name) > maxLen", "then{", "}", "if at.Type != \"\"", "then{", "}", "else{", "call Field", "if ok", "then{", "continue", "}", "call sqlType", "call Interface", "call Field", "if isEmbedded && (at.IsEmbedded || len(at.Prefix) > 0)", "then{", "call parseStruct", "call Interface", "call Field", "continue", "}", "else{", "if isEmbedded", "then{", "call TextType", "}", "}", "}", "if at.IsNotNull", "then{", "call NotNullValue", "}", "else{", "if at.IsNull", "then{", "call NullValue", "}", "}", "if at.Value != \"\"", "then{", "}", "if at.IsAutoIncr", "then{", "call AutoIncrementOption", "}", "if at.IsPk && len(pkFields) <= 1", "then{", "call PrimaryOption", "}", "if s.generateComment && at.Comment == \"\"", "then{", "call createCommentFromFieldName", "}", "if at.Comment != \"\"", "then{", "switch s.dialect", "cases{", "case sql_templates.PostgresDialect", "call Sprintf", "call ColumnComment", "call EscapeSqlName", "call EscapeSqlName", "case default", "call Sprintf", "call ColumnComment", "}", "}", "}", "range rawCols", "do{", "call Sprintf", "call EscapeSqlName", "call Repeat", "call Join", "}", "return"]),
  ("builder:SqlBuilder.sqlNullType", ["if suffix != \"\"", "then{", "}", "typeswitch", "cases{", "case sql.NullBool", "return", "call BooleanType", "case sql.NullInt32", "return", "call IntType", "case sql.NullInt64", "return", "call BigIntType", "case sql.NullFloat64", "return", "call DoubleType", "case sql.NullString", "return", "call TextType", "case sql.NullTime", "return", "call DatetimeType", "case default", "return", "}"]),
  ("builder:SqlBuilder.sqlPrimitiveType", ["if suffix != \"\"", "then{", "}", "typeswitch", "cases{", "case bool", "return", "call BooleanType", "case int8,uint8", "return", "call TinyIntType", "case int16,uint16", "return", "call SmallIntType", "case int,int32,uint32", "return", "call IntType", "case int64,uint64", "return", "call BigIntType", "case float32", "return", "call FloatType", "case float64", "return", "call DoubleType", "case string", "return", "call TextType", "case time.Time", "return", "call DatetimeType", "case default", "return", "call UnspecificType", "}"]),
  ("builder:SqlBuilder.sqlType", ["call sqlNullType", "call NullValue", "if ok", "then{", "return", "}", "switch reflect.ValueOf(v).Kind()", "cases{", "case reflect.Ptr", "call Indirect", "call ValueOf", "if reflect.ValueOf(v).Pointer() == 0 || vv.IsZero()", "then{", "return", "call PointerType", "}", "return", "call sqlType", "call Interface", "call NullValue", "case reflect.Struct", "if ok", "then{", "break", "}", "return", "}", "return", "call sqlPrimitiveType"]),
  ("builder:createCommentFromEnum", ["if len(enums) > 0", "then{", "return", "call Sprintf", "call Join", "}", "return"]),
  ("builder:createCommentFromFieldName", ["if ok", "then{", "return", "}", "return", "call Replace"]),
  ("builder:createIndexName", ["range indexColumns", "do{", "}", "if len(indexColumns) == 1 && indexColumns[0] != column", "then{", "return", "}", "if len(indexColumns) == 0", "then{", "}", "return", "call Sprintf", "call Join"]),
  ("builder:getWhenEmpty", ["if s == \"\"", "then{", "return", "}", "return"]),
  ("builder:trimPrefix", ["if strings.HasPrefix(ot, prefix)", "then{", "return", "}", "return", "call Index"]),
  ("options:WithCommentGenerate", ["return", "call newFuncSqlBuilderOption", "func{", "}"]),
  ("options:WithDialect", ["return", "call newFuncSqlBuilderOption", "func{", "}"]),
  ("options:WithMysql", ["return", "call newFuncSqlBuilderOption", "func{", "}"]),
  ("options:WithPluralTableName", ["return", "call newFuncSqlBuilderOption", "func{", "}"]),
  ("options:WithPostgresql", ["return", "call newFuncSqlBuilderOption", "func{", "}"]),
  ("options:WithSqlLowercase", ["return", "call newFuncSqlBuilderOption", "func{", "}"]),
  ("options:WithSqlTag", ["return", "call newFuncSqlBuilderOption", "func{", "}"]),
  ("options:WithSqlUppercase", ["return", "call newFuncSqlBuilderOption", "func{", "}"]),
  ("options:WithSqlite", ["return", "call newFuncSqlBuilderOption", "func{", "}"]),
  ("options:WithSqlserver", ["return", "call newFuncSqlBuilderOption", "func{", "}"]),
  ("options:funcSqlBuilderOption.apply", ["call f"]),
  ("options:newFuncSqlBuilderOption", ["return"])]

/-- control skeleton of the functions of package mermaidjs (function, control statements with conditions and selector calls, in source order) -/
def mermaidSkeleton : List (String × List String) := [
  ("builder:MermaidJs.AddTable", ["func{", "return", "call ToUpper", "}", "call normEntityName", "range table.Columns", "do{", "call DataType", "if strings.HasPrefix(strings.ToLower(dataType), \"enum\")", "then{", "}", "call Constraint", "if cmt != \"\"", "then{", "}", "call Sprintf", "}", "call Join", "range table.ForeignKeys", "do{", "if ok", "then{", "continue", "}", "call Sprintf", "call normEntityName", "call normEntityName", "}"]),
  ("builder:MermaidJs.Live", ["call EncodeToString", "call String", "return"]),
  ("builder:MermaidJs.String", ["return", "call Join", "call Join"]),
  ("builder:NewMermaidJs", ["range tables", "do{", "call AddTable", "}", "return"])]

/-- control skeleton of the functions of package avro (function, control statements with conditions and selector calls, in source order) -/
def avroSkeleton : List (String × List String) := [
  ("builder:NewArvoSchema", ["call buildFieldsFromTable", "call newRecordSchema", "return"]),
  ("builder:buildFieldsFromTable", ["range table.Columns", "do{", "if col.HasDefaultValue()", "then{", "call getAvroType", "}", "else{", "call getAvroType", "}", "}", "return"]),
  ("builder:getAvroType", ["switch col.GetType()", "cases{", "case mysql.TypeTiny", "return", "case mysql.TypeEnum", "return", "call Join", "}", "switch col.CurrentAttr.MysqlType.EvalType()", "cases{", "case types.ETInt", "return", "case types.ETDecimal", "return", "call Itoa", "call Itoa", "case types.ETReal", "return", "case types.ETDatetime,types.ETTimestamp", "return", "case types.ETJson", "return", "case types.ETString", "return", "case default", "return", "}"]),
  ("schema:newRecordSchema", ["return"])]

/-- control skeleton of the functions of the constructor, the options and the load / diff / print entry points of sqlize.go (function, control statements with conditions and selector calls, in source order) -/
def apiLoadSkeleton : List (String × List String) := [
  ("options:WithCommentGenerate", ["return", "call newFuncSqlizeOption", "func{", "}"]),
  ("options:WithIgnoreFieldOrder", ["return", "call newFuncSqlizeOption", "func{", "}"]),
  ("options:WithMigrationFolder", ["return", "call newFuncSqlizeOption", "func{", "}"]),
  ("options:WithMigrationSuffix", ["return", "call newFuncSqlizeOption", "func{", "}"]),
  ("options:WithMigrationTable", ["return", "call newFuncSqlizeOption", "func{", "}"]),
  ("options:WithMysql", ["return", "call newFuncSqlizeOption", "func{", "}"]),
  ("options:WithPluralTableName", ["return", "call newFuncSqlizeOption", "func{", "}"]),
  ("options:WithPostgresql", ["return", "call newFuncSqlizeOption", "func{", "}"]),
  ("options:WithSqlLowercase", ["return", "call newFuncSqlizeOption", "func{", "}"]),
  ("options:WithSqlTag", ["return", "call newFuncSqlizeOption", "func{", "}"]),
  ("options:WithSqlUppercase", ["return", "call newFuncSqlizeOption", "func{", "}"]),
  ("options:WithSqlite", ["return", "call newFuncSqlizeOption", "func{", "}"]),
  ("options:WithSqlserver", ["return", "call newFuncSqlizeOption", "func{", "}"]),
  ("options:funcSqlizeOption.apply", ["call f"]),
  ("options:newFuncSqlizeOption", ["return"]),
  ("sqlize:NewSqlize", ["range opts", "do{", "call apply", "}", "call WithSqlTag", "call WithDialect", "if o.lowercase", "then{", "call WithSqlLowercase", "}", "if o.generateComment", "then{", "call WithCommentGenerate", "}", "if o.pluralTableName", "then{", "call WithPluralTableName", "}", "call NewSqlBuilder", "return", "call NewParser"]),
  ("sqlize:Sqlize.Diff", ["if s.dialect != old.dialect", "then{", "call panic", "}", "call Diff"]),
  ("sqlize:Sqlize.FromObjects", ["range objs", "do{", "call GetTableName", "}", "call MappingTables", "range objs", "do{", "call FromString", "call AddTable", "if err != nil", "then{", "return", "}", "}", "return"]),
  ("sqlize:Sqlize.FromString", ["return", "call Parser"]),
  ("sqlize:Sqlize.StringDown", ["return", "call MigrationDown"]),
  ("sqlize:Sqlize.StringUp", ["return", "call MigrationUp"])]

/-- control skeleton of the functions of Sqlize.HashValue (function, control statements with conditions and selector calls, in source order) -/
def apiHashSkeleton : List (String × List String) := [
  ("sqlize:Sqlize.HashValue", ["return", "call HashValue"])]

/-- control skeleton of the functions of the export entry points of sqlize.go (function, control statements with conditions and selector calls, in source order) -/
def apiExportSkeleton : List (String × List String) := [
  ("sqlize:Sqlize.ArvoSchema", ["if s.dialect != sql_templates.MysqlDialect", "then{", "return", "}", "call selectTable", "range tables", "do{", "call NewArvoSchema", "call Marshal", "}", "return"]),
  ("sqlize:Sqlize.MermaidJsErd", ["call NewMermaidJs", "call selectTable", "return", "call String"]),
  ("sqlize:Sqlize.MermaidJsLive", ["call NewMermaidJs", "call selectTable", "return", "call Live"]),
  ("sqlize:Sqlize.selectTable", ["range s.parser.Migration.Tables", "do{", "if len(needTables) == 0 || utils.ContainStr(needTables, s.parser.Migration.Tables[i].Name)", "then{", "}", "}", "return"])]

/-- control skeleton of the functions of the version entry points of sqlize.go (function, control statements with conditions and selector calls, in source order) -/
def apiVersionSkeleton : List (String × List String) := [
  ("sqlize:Sqlize.StringDownWithVersion", ["return", "call StringDown", "call migrationDownVersion"]),
  ("sqlize:Sqlize.StringUpWithVersion", ["return", "call StringUp", "call migrationUpVersion"]),
  ("sqlize:Sqlize.migrationDownVersion", ["call NewSql", "if ver == 0", "then{", "return", "call Sprintf", "call DropTableMigration", "}", "return", "call Sprintf", "call RollbackMigrationVersion"]),
  ("sqlize:Sqlize.migrationUpVersion", ["call NewSql", "if ver == 0", "then{", "return", "call Sprintf", "call CreateTableMigration", "}", "return", "call Sprintf", "call InsertMigrationVersion"])]

/-- control skeleton of the functions of the file entry points of sqlize.go (function, control statements with conditions and selector calls, in source order) -/
def apiFilesSkeleton : List (String × List String) := [
  ("sqlize:Sqlize.FromMigrationFolder", ["call ReadPath", "if err != nil", "then{", "return", "}", "range sqls", "do{", "call FromString", "if err != nil", "then{", "return", "}", "}", "return"]),
  ("sqlize:Sqlize.WriteFiles", ["return", "call writeFiles", "call StringUp", "call StringDown"]),
  ("sqlize:Sqlize.WriteFilesVersion", ["return", "call writeFiles", "call migrationUpVersion", "call migrationDownVersion"]),
  ("sqlize:Sqlize.WriteFilesWithVersion", ["return", "call writeFiles", "call StringUp", "call migrationUpVersion", "call StringDown", "call migrationDownVersion"]),
  ("sqlize:Sqlize.writeFiles", ["if migUp == \"\" && migDown == \"\"", "then{", "return", "}", "if migUp == \"\"", "then{", "}", "if migDown == \"\"", "then{", "}", "call MigrationFileName", "call Join", "call WriteFile", "if err != nil", "then{", "return", "}", "if s.migrationDownSuffix != \"\" && s.migrationDownSuffix != s.migrationUpSuffix", "then{", "call Join", "call WriteFile", "if err != nil", "then{", "return", "}", "}", "return"])]

/-- control skeleton of the functions of utils/str.go (but MigrationFileName) and utils/slc.go (function, control statements with conditions and selector calls, in source order) -/
def utilsStrSkeleton : List (String × List String) := [
  ("slc:ContainStr", ["range ss", "do{", "if s == ss[i]", "then{", "return", "}", "}", "return"]),
  ("slc:SlideStrEqual", ["if len(a) != len(b)", "then{", "return", "}", "range a", "do{", "if a[i] != b[i]", "then{", "return", "}", "}", "return"]),
  ("str:ToSnakeCase", ["range input", "do{", "switch ", "cases{", "case isUppercase(c)", "if i > 0 && (upperCount == 0 || nextIsLower(input, i))", "then{", "call WriteByte", "}", "call WriteByte", "call byte", "case isLowercase(c)", "call WriteByte", "call byte", "case isDigit(c)", "call WriteByte", "call byte", "case default", "call WriteByte", "call byte", "}", "}", "return", "call String"]),
  ("str:isDigit", ["return"]),
  ("str:isLowercase", ["return"]),
  ("str:isUppercase", ["return"]),
  ("str:nextIsLower", ["if i >= len(input)", "then{", "return", "}", "if c == 's' && i == len(input)-1", "then{", "return", "}", "return", "call isLowercase", "call rune"])]

/-- control skeleton of the functions of utils/file.go and MigrationFileName (function, control statements with conditions and selector calls, in source order) -/
def utilsFileSkeleton : List (String × List String) := [
  ("file:ReadPath", ["call glob", "if err != nil", "then{", "return", "}", "range files", "do{", "call ReadFile", "if err != nil", "then{", "return", "}", "}", "return"]),
  ("file:glob", ["call Stat", "if err != nil", "then{", "return", "}", "if f.IsDir()", "then{", "call ReadDir", "if err != nil", "then{", "return", "}", "range listing", "do{", "if f.IsDir()", "then{", "continue", "}", "call Join", "call Name", "}", "}", "else{", "}", "range files", "do{", "if !strings.HasSuffix(file, suffix)", "then{", "continue", "}", "if strings.HasPrefix(filepath.Base(file), \".\")", "then{", "continue", "}", "}", "return"]),
  ("str:MigrationFileName", ["call Compile", "call ToLower", "call ReplaceAllString", "call Replace", "call Replace", "call Replace", "return", "call Sprintf", "call Format", "call Now"])]

/-- control skeleton of the functions of package sql_parser (function, control statements with conditions and selector calls, in source order) -/
def parserSkeleton : List (String × List String) := [
  ("mysql:Parser.Enter", ["if ok", "then{", "call Using", "}", "if ok", "then{", "range tb.Tables", "do{", "call RemoveTable", "}", "}", "if ok", "then{", "range alter.Specs", "do{", "switch alter.Specs[i].Tp", "cases{", "case ast.AlterTableAddColumns", "if alter.Specs[i].Position != nil", "then{", "call SetColumnPosition", "}", "case ast.AlterTableAddConstraint", "switch alter.Specs[i].Constraint.Tp", "cases{", "case ast.ConstraintPrimaryKey", "range alter.Specs[i].Constraint.Keys", "do{", "}", "if alter.Specs[i].Constraint.Keys != nil", "then{", "call AddIndex", "}", "else{", "call AddColumn", "}", "case ast.ConstraintForeignKey", "range alter.Specs[i].Constraint.Keys", "do{", "}", "call AddForeignKey", "call String", "call String", "}", "case ast.AlterTableDropColumn", "call RemoveColumn", "case ast.AlterTableDropPrimaryKey", "call RemoveIndex", "case ast.AlterTableDropIndex", "call RemoveIndex", "case ast.AlterTableDropForeignKey", "call RemoveForeignKey", "case ast.AlterTableModifyColumn", "if len(alter.Specs[i].NewColumns) > 0", "then{", "range alter.Specs[i].NewColumns", "do{", "call AddColumn", "}", "}", "case ast.AlterTableRenameColumn", "call RenameColumn", "case ast.AlterTableRenameTable", "call RenameTable", "case ast.AlterTableRenameIndex", "call RenameIndex", "}", "}", "}", "if ok", "then{", "call RemoveIndex", "}", "if ok", "then{", "call NewTableWithAction", "call Using", "range tab.Constraints", "do{", "range tab.Constraints[i].Keys", "do{", "}", "switch tab.Constraints[i].Tp", "cases{", "case ast.ConstraintPrimaryKey", "if tab.Constraints[i].Keys != nil", "then{", "call AddIndex", "}", "else{", "call AddColumn", "}", "case ast.ConstraintKey,ast.ConstraintIndex", "if tab.Constraints[i].Option != nil", "then{", "}", "call AddIndex", "case ast.ConstraintUniq,ast.ConstraintUniqKey,ast.ConstraintUniqIndex", "if tab.Constraints[i].Option != nil", "then{", "}", "call AddIndex", "}", "}", "call AddTable", "}", "if ok", "then{", "range def.Options", "do{", "if def.Options[i].Tp == ast.ColumnOptionComment", "then{", "if ok && comment == \"\"", "then{", "call GetDatumString", "}", "}", "}", "call AddColumn", "}", "if ok", "then{", "range idx.IndexPartSpecifications", "do{", "}", "if idx.IndexOption != nil", "then{", "}", "call AddIndex", "}", "return"]),
  ("mysql:Parser.Leave", ["return"]),
  ("mysql:Parser.ParserMysql", ["call New", "call Parse", "if err != nil", "then{", "return", "}", "range stmtNodes", "do{", "typeswitch", "cases{", "case ast.DDLNode", "call Accept", "}", "}", "return"]),
  ("parser:NewParser", ["return", "call NewMigration"]),
  ("parser:Parser.Diff", ["call Diff"]),
  ("parser:Parser.HashValue", ["return", "call HashValue"]),
  ("parser:Parser.MigrationDown", ["return", "call MigrationDown"]),
  ("parser:Parser.MigrationUp", ["return", "call MigrationUp"]),
  ("parser:Parser.Parser", ["switch p.dialect", "cases{", "case sql_templates.PostgresDialect", "return", "call ParserPostgresql", "case sql_templates.SqliteDialect", "return", "call ParserSqlite", "case default", "return", "call ParserMysql", "}"]),
  ("postgresql:Parser.ParserPostgresql", ["call Parse", "if err != nil", "then{", "return", "}", "call Walk", "return"]),
  ("postgresql:Parser.walker", ["typeswitch", "cases{", "case *tree.CreateTable", "call Table", "call NewTableWithAction", "call AddTable", "call Using", "case *tree.ColumnTableDef", "call postgresColumn", "call AddColumn", "if len(indexes) > 0", "then{", "range indexes", "do{", "call AddIndex", "}", "}", "case *tree.CommentOnColumn", "if n.Comment != nil", "then{", "}", "call AddComment", "call String", "call Column", "case *tree.CreateIndex", "call AddIndex", "call postgresIndex", "case *tree.DropIndex", "range n.IndexList", "do{", "call RemoveIndex", "call String", "}", "case *tree.AlterTable", "typeswitch", "cases{", "case *tree.AlterTableRenameTable", "call RenameTable", "call String", "call String", "case *tree.AlterTableRenameColumn", "call RenameColumn", "call String", "call String", "call String", "case *tree.AlterTableRenameConstraint", "call RenameIndex", "call String", "call String", "call String", "case *tree.AlterTableAddColumn", "call postgresColumn", "call AddColumn", "call String", "if len(indexes) > 0", "then{", "range indexes", "do{", "call AddIndex", "call String", "}", "}", "case *tree.AlterTableDropColumn", "call RemoveColumn", "call String", "call String", "case *tree.AlterTableDropNotNull", "case *tree.AlterTableAlterColumnType", "call String", "call AddColumn", "call String", "case *tree.AlterTableSetDefault", "if nc.Default != nil", "then{", "call String", "call String", "call AddColumn", "call String", "}", "case *tree.AlterTableAddConstraint", "typeswitch", "cases{", "case *tree.UniqueConstraintTableDef", "call AddIndex", "call String", "call postgresUnique", "case *tree.ForeignKeyConstraintTableDef", "call AddForeignKey", "call String", "call postgresForeignKey", "}", "case *tree.AlterTableDropConstraint", "call String", "if strings.HasPrefix(strings.ToLower(consName), \"fk\")", "then{", "call RemoveForeignKey", "call String", "}", "else{", "call RemoveIndex", "call String", "}", "}", "case *tree.RenameTable", "call RenameTable", "call String", "call String", "}", "return"]),
  ("postgresql:postgresColumn", ["if n.DefaultExpr.Expr != nil", "then{", "call String", "}", "switch ", "cases{", "case n.PrimaryKey.IsPrimaryKey", "call String", "case n.Unique", "call String", "call String", "case n.References.Table != nil", "}", "return", "call String"]),
  ("postgresql:postgresForeignKey", ["return", "call String", "call String", "call Table", "call String"]),
  ("postgresql:postgresIndex", ["range n.Columns", "do{", "call String", "}", "if n.Unique", "then{", "}", "return", "call String"]),
  ("postgresql:postgresUnique", ["range n.Columns", "do{", "call String", "}", "if n.PrimaryKey", "then{", "return", "}", "return", "call String"]),
  ("sqlite:Parser.ParserSqlite", ["call NewParser", "call NewReader", "call ParseStatement", "if err != nil", "then{", "return", "}", "return", "call Walk"]),
  ("sqlite:Parser.Visit", ["typeswitch", "cases{", "case *sqlite.CreateTableStatement", "call String", "call NewTableWithAction", "call AddTable", "call Using", "range n.Columns", "do{", "call String", "call parseSqliteConstrains", "call AddColumn", "}", "range n.Constraints", "do{", "typeswitch", "cases{", "case *sqlite.UniqueConstraint", "range cons.Columns", "do{", "}", "call AddIndex", "case *sqlite.ForeignKeyConstraint", "}", "}", "case *sqlite.CreateIndexStatement", "call String", "range n.Columns", "do{", "call String", "}", "if n.Unique.IsValid()", "then{", "}", "call AddIndex", "case *sqlite.DropTableStatement", "call String", "call RemoveTable", "case *sqlite.DropIndexStatement", "case *sqlite.AlterTableStatement", "call String", "switch ", "cases{", "case n.Rename.IsValid()", "call RenameTable", "case n.RenameColumn.IsValid()", "call RenameColumn", "call String", "call String", "case n.AddColumn.IsValid()", "call AddColumn", "call String", "call parseSqliteConstrains", "}", "}", "return"]),
  ("sqlite:Parser.VisitEnd", ["return"]),
  ("sqlite:Parser.parseSqliteConstrains", ["range conss", "do{", "typeswitch", "cases{", "case *sqlite.PrimaryKeyConstraint", "case *sqlite.NotNullConstraint", "case *sqlite.UniqueConstraint", "range cons.Columns", "do{", "}", "call AddIndex", "case *sqlite.CheckConstraint", "case *sqlite.DefaultConstraint", "call String", "}", "}", "return"])]

/-- control skeleton of the functions of package sql_templates (function, control statements with conditions and selector calls, in source order) -/
def templatesSkeleton : List (String × List String) := [
  ("ddl:NewSql", ["return"]),
  ("ddl:Sql.AlterTableAddColumnAfterStm", ["return", "call apply"]),
  ("ddl:Sql.AlterTableAddColumnFirstStm", ["return", "call apply"]),
  ("ddl:Sql.AlterTableAddColumnStm", ["return", "call apply"]),
  ("ddl:Sql.AlterTableDropColumnStm", ["if s.IsSqlite()", "then{", "return", "}", "return", "call apply"]),
  ("ddl:Sql.AlterTableModifyColumnStm", ["return", "call apply"]),
  ("ddl:Sql.AlterTableRenameColumnStm", ["return", "call apply"]),
  ("ddl:Sql.AlterTableRenameIndexStm", ["return", "call apply"]),
  ("ddl:Sql.CreateForeignKeyStm", ["return", "call apply"]),
  ("ddl:Sql.CreateIndexStm", ["if indexType != \"\"", "then{", "return", "call apply", "call ToUpper", "}", "return", "call apply"]),
  ("ddl:Sql.CreatePrimaryKeyStm", ["return", "call apply"]),
  ("ddl:Sql.CreateTableMigration", ["switch s.dialect", "cases{", "case PostgresDialect", "return", "call apply", "case default", "return", "call apply", "}"]),
  ("ddl:Sql.CreateTableStm", ["return", "call apply"]),
  ("ddl:Sql.CreateUniqueIndexStm", ["if indexType != \"\"", "then{", "return", "call apply", "call ToUpper", "}", "return", "call apply"]),
  ("ddl:Sql.DropForeignKeyStm", ["if s.IsMysql()", "then{", "return", "call apply", "}", "return", "call apply"]),
  ("ddl:Sql.DropIndexStm", ["if s.IsSqlite()", "then{", "return", "call apply", "}", "return", "call apply"]),
  ("ddl:Sql.DropPrimaryKeyStm", ["return", "call apply"]),
  ("ddl:Sql.DropTableMigration", ["return", "call apply"]),
  ("ddl:Sql.DropTableStm", ["return", "call apply"]),
  ("ddl:Sql.GetDialect", ["return"]),
  ("ddl:Sql.InsertMigrationVersion", ["return", "call apply"]),
  ("ddl:Sql.IsLowercase", ["return"]),
  ("ddl:Sql.IsMysql", ["return"]),
  ("ddl:Sql.IsPostgres", ["return"]),
  ("ddl:Sql.IsSqlite", ["return"]),
  ("ddl:Sql.IsSqlserver", ["return"]),
  ("ddl:Sql.RenameTableStm", ["return", "call apply"]),
  ("ddl:Sql.RollbackMigrationVersion", ["return", "call apply"]),
  ("ddl:Sql.apply", ["if s.lowercase", "then{", "return", "call ToLower", "}", "return"]),
  ("option:Sql.AutoIncrementOption", ["switch s.dialect", "cases{", "case PostgresDialect", "return", "case default", "return", "call apply", "}"]),
  ("option:Sql.ColumnComment", ["switch s.dialect", "cases{", "case PostgresDialect", "return", "call apply", "case default", "return", "call apply", "}"]),
  ("option:Sql.DefaultOption", ["return", "call apply"]),
  ("option:Sql.EscapeSqlName", ["if name == \"\"", "then{", "return", "}", "switch s.dialect", "cases{", "case PostgresDialect,SqliteDialect", "}", "return", "call Sprintf", "call Trim"]),
  ("option:Sql.EscapeSqlNames", ["range names", "do{", "call EscapeSqlName", "}", "return"]),
  ("option:Sql.NotNullValue", ["return", "call apply"]),
  ("option:Sql.NullValue", ["return", "call apply"]),
  ("option:Sql.PrimaryOption", ["return", "call apply"]),
  ("option:Sql.TableComment", ["switch s.dialect", "cases{", "case PostgresDialect", "return", "call apply", "case default", "return", "call apply", "}"]),
  ("type:Sql.BigIntType", ["if s.IsSqlite()", "then{", "return", "call apply", "}", "return", "call apply"]),
  ("type:Sql.BooleanType", ["if s.IsSqlite()", "then{", "return", "call apply", "}", "return", "call apply"]),
  ("type:Sql.DatetimeType", ["switch s.dialect", "cases{", "case PostgresDialect", "return", "call apply", "case SqliteDialect", "return", "case default", "return", "call apply", "}"]),
  ("type:Sql.DoubleType", ["if s.IsSqlite()", "then{", "return", "call apply", "}", "return", "call apply"]),
  ("type:Sql.FloatType", ["if s.IsSqlite()", "then{", "return", "call apply", "}", "return", "call apply"]),
  ("type:Sql.IntType", ["if s.IsSqlite()", "then{", "return", "call apply", "}", "return", "call apply"]),
  ("type:Sql.PointerType", ["return", "call apply"]),
  ("type:Sql.SmallIntType", ["return", "call apply"]),
  ("type:Sql.TextType", ["switch s.dialect", "cases{", "case SqliteDialect", "return", "case default", "return", "call apply", "}"]),
  ("type:Sql.TinyIntType", ["return", "call apply"]),
  ("type:Sql.UnspecificType", ["return", "call apply"])]

end Sqlize.Facts
