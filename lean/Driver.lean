import SqlizeModel.Driver.Core
import SqlizeModel.Driver.Snake
import SqlizeModel.Driver.Pair
import SqlizeModel.Driver.Script
import SqlizeModel.Driver.Hash
import SqlizeModel.Driver.Calls
import SqlizeModel.Driver.Version
import SqlizeModel.Driver.Files
import SqlizeModel.Driver.Exports
import SqlizeModel.Driver.Race
import SqlizeModel.Driver.History
import SqlizeModel.Driver.Struct

open Sqlize Sqlize.Driver

def handlers : List (String × Handler) :=
  [("snake", snakeHandler), ("pair", pairHandler), ("routes", routesHandler), ("script", scriptHandler), ("hash", hashHandler), ("calls", callsHandler), ("version", versionHandler), ("versionexcl", versionExclHandler), ("files", filesHandler), ("filesread", filesReadHandler), ("filesmisc", filesMiscHandler), ("filesseq", filesSeqHandler), ("filesseqfast", filesSeqFastHandler), ("filesover", filesOverHandler), ("export", exportHandler), ("race", raceHandler), ("history", historyHandler), ("historyv", historyVersionedHandler), ("struct", structHandler)]

def handleLine (line : String) : String :=
  match SExp.parse line with
  | some (.list (.atom "case" :: .atom id :: .atom suite :: args)) =>
    match handlers.lookup suite with
    | some h =>
      match h args with
      | some v => v.render id
      | none => id ++ "\tbad\tmalformed arguments for suite " ++ suite
    | none => id ++ "\tbad\tunknown suite " ++ suite
  | _ => "?\tbad\tunparsable line"

partial def loop (h : IO.FS.Stream) (out : IO.FS.Stream) : IO Unit := do
  let line ← h.getLine
  if line.isEmpty then return ()
  let l := (line.dropEndWhile (fun c => c == '\n' || c == '\r')).toString
  if !l.isEmpty then
    out.putStrLn (handleLine l)
  loop h out

def main : IO Unit := do
  let stdin ← IO.getStdin
  let stdout ← IO.getStdout
  loop stdin stdout
  stdout.flush
