import SqlizeModel.Base.Chars
import SqlizeModel.Impl.Snake
import SqlizeModel.Proofs.Snake
import SqlizeModel.Proofs.SnakeSpec
import SqlizeModel.Props.C16
