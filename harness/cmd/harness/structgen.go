package main

import (
	"fmt"
	"os"
	"strings"
)

// structgen (C06, C10): generates Go source with struct type declarations (fields of the supported Go types, every tag
// kind alone and combined, camelCase / snake_case spelling, shuffled item order, nested embedded structs with and without
// prefix, ignored fields, TableName methods, acronym names) for cmd/structrun, together with
//   * the abstract declaration the Lean builder model reads (what reflect shows), and
//   * the *expected schema* derived from the structured tag items by the documented conventions (independent of the
//     builder and of the model): the C06 oracle.

func init() { suites["structgen"] = suiteStructGen }

type gField struct {
	goName  string
	goType  string // Go source type
	absType string // S-expression for the Lean model
	init    string // initialiser ("" = zero value)
	tag     string // raw tag value
	// expectation (empty colName = no column)
	colName  string
	sqlType  func(d string) string
	opts     []string // expected option atoms in order: notnull null default:<v> autoinc pk comment:<t>
	embedded *gStruct
	prefix   string
	isPk     bool
	rename   [2]string // old, new
	index    *gIndex
}

type gStruct struct {
	name      string
	fields    []*gField
	tableName string // TableName() result ("" = no method)
	// a foreign_key tag: the referenced model (declared as a separate type and loaded in the same FromObjects call)
	parent     *gStruct
	fkCol      string // local column (`references:`)
	fkRefCol   string // referenced column (`foreign_key:`)
	childFirst bool   // order of the two models in the FromObjects call
}

var goPrims = []struct {
	src, abs string
	sql      map[string]string
}{
	{"bool", "bool", map[string]string{"mysql": "BOOLEAN", "postgres": "BOOLEAN", "sqlite3": "INTEGER"}},
	{"int8", "int8", map[string]string{"mysql": "TINYINT", "postgres": "TINYINT", "sqlite3": "TINYINT"}},
	{"uint8", "uint8", map[string]string{"mysql": "TINYINT", "postgres": "TINYINT", "sqlite3": "TINYINT"}},
	{"int16", "int16", map[string]string{"mysql": "SMALLINT", "postgres": "SMALLINT", "sqlite3": "SMALLINT"}},
	{"int", "int", map[string]string{"mysql": "INT", "postgres": "INT", "sqlite3": "INTEGER"}},
	{"int32", "int32", map[string]string{"mysql": "INT", "postgres": "INT", "sqlite3": "INTEGER"}},
	{"uint32", "uint32", map[string]string{"mysql": "INT", "postgres": "INT", "sqlite3": "INTEGER"}},
	{"int64", "int64", map[string]string{"mysql": "BIGINT", "postgres": "BIGINT", "sqlite3": "INTEGER"}},
	{"uint64", "uint64", map[string]string{"mysql": "BIGINT", "postgres": "BIGINT", "sqlite3": "INTEGER"}},
	{"float32", "float32", map[string]string{"mysql": "FLOAT", "postgres": "FLOAT", "sqlite3": "REAL"}},
	{"float64", "float64", map[string]string{"mysql": "DOUBLE", "postgres": "DOUBLE", "sqlite3": "REAL"}},
	{"string", "string", map[string]string{"mysql": "TEXT", "postgres": "TEXT", "sqlite3": "TEXT"}},
	{"time.Time", "time", map[string]string{"mysql": "DATETIME", "postgres": "TIMESTAMP", "sqlite3": "TEXT"}},
}

var goNulls = []struct {
	src, abs string
	prim     int
}{
	{"sql.NullBool", "nullBool", 0}, {"sql.NullInt32", "nullInt32", 4}, {"sql.NullInt64", "nullInt64", 7},
	{"sql.NullFloat64", "nullFloat64", 10}, {"sql.NullString", "nullString", 11}, {"sql.NullTime", "nullTime", 12},
}

var fieldNames = []string{"ID", "Name", "UserID", "HTMLBody", "CreatedAt", "IsActive", "Qty", "URLs", "APIKey", "Price", "Note", "Age", "XCoord", "Email", "Kind", "Ref", "A", "B1"}

func keywordSpelling(rngBit bool, snake string) string {
	if !rngBit {
		return snake
	}
	parts := strings.Split(snake, "_")
	for i := 1; i < len(parts); i++ {
		parts[i] = strings.ToUpper(parts[i][:1]) + parts[i][1:]
	}
	return strings.Join(parts, "")
}

func snakeRef(s string) string { // independent reference snake_case (regexp style: split before a capital that follows a lower/digit, or before the last capital of a run followed by a lowercase)
	var out []byte
	for i := 0; i < len(s); i++ {
		c := s[i]
		if c >= 'A' && c <= 'Z' {
			if i > 0 {
				prev := s[i-1]
				prevLower := (prev >= 'a' && prev <= 'z') || (prev >= '0' && prev <= '9' && false)
				nextLower := i+1 < len(s) && s[i+1] >= 'a' && s[i+1] <= 'z' && !(s[i+1] == 's' && i+2 == len(s))
				prevUpper := prev >= 'A' && prev <= 'Z'
				if prevLower || (prevUpper && nextLower) {
					out = append(out, '_')
				}
			}
			out = append(out, c-'A'+'a')
		} else {
			out = append(out, c)
		}
	}
	return string(out)
}

func (g *gen) genStruct(c *ctx, name string, depth int, nFields int, usedNames map[string]bool) *gStruct {
	s := &gStruct{name: name}
	perm := g.rng.Perm(len(fieldNames))
	havePk := false
	for k := 0; k < nFields && k < len(perm); k++ {
		fn := fieldNames[perm[k]]
		if depth > 0 {
			fn = fn + "X" // avoid clashing column names between outer and embedded structs
		}
		for usedNames[fn] {
			fn = fn + "Q"
		}
		usedNames[fn] = true
		f := &gField{goName: fn}
		// Go type
		switch r := g.rng.Intn(20); {
		case r < 12:
			p := goPrims[g.rng.Intn(len(goPrims))]
			f.goType, f.absType = p.src, p.abs
			sqlm := p.sql
			f.sqlType = func(d string) string { return sqlm[d] }
		case r < 15:
			n := goNulls[g.rng.Intn(len(goNulls))]
			f.goType, f.absType = n.src, n.abs
			sqlm := goPrims[n.prim].sql
			f.sqlType = func(d string) string { return sqlm[d] }
			f.opts = append(f.opts, "null")
		case r < 17: // pointer: nil or non-nil
			p := goPrims[g.rng.Intn(len(goPrims)-1)] // not time.Time (zero-ness differs)
			f.goType = "*" + p.src
			if g.rng.Intn(2) == 0 {
				f.absType = "ptrNil"
				f.sqlType = func(d string) string { return "POINTER" }
			} else {
				f.absType = L("ptrTo", p.abs)
				switch p.src {
				case "bool":
					f.init = "ptrBool()"
				case "string":
					f.init = "ptrString()"
				case "float32", "float64":
					f.init = "ptr" + strings.Title(p.src) + "()"
				default:
					f.init = "ptr" + strings.Title(p.src) + "()"
				}
				sqlm := p.sql
				f.sqlType = func(d string) string { return sqlm[d] }
				f.opts = append(f.opts, "null")
			}
		case r < 19 && depth < 2: // nested struct
			inner := g.genStruct(c, fmt.Sprintf("%sN%d", name, k), depth+1, 1+g.rng.Intn(3), usedNames)
			f.goType = inner.name
			f.embedded = inner
			f.absType = "struct"
			nestedTypes[f] = inner
		default:
			f.goType, f.absType = "[]byte", "other"
			f.sqlType = func(d string) string { return "UNSPECIFIED" }
		}
		s.fields = append(s.fields, f)
		// tags
		var items []string
		sp := func(k string) string { return keywordSpelling(g.rng.Intn(2) == 0, k) }
		f.colName = snakeRef(fn)
		if g.rng.Intn(12) == 0 {
			f.tag = "-"
			f.colName = ""
			f.embedded = nil
			c.count("tag_ignored")
			continue
		}
		if f.embedded != nil {
			switch g.rng.Intn(4) {
			case 0:
				items = append(items, "embedded")
			case 1:
				items = append(items, "squash")
			case 2:
				f.prefix = "p" + strings.ToLower(fn[:1]) + "_"
				items = append(items, sp("embedded_prefix")+":"+f.prefix)
			default: // not embedded: a TEXT column
				f.embedded = nil
				f.sqlType = func(d string) string { return "TEXT" }
				c.count("struct_as_text")
			}
			if f.embedded != nil {
				f.colName = ""
				f.tag = strings.Join(items, ";")
				c.count("tag_embedded")
				continue
			}
		}
		if g.rng.Intn(6) == 0 {
			f.colName = "c_" + strings.ToLower(fn)
			item := "column:" + f.colName
			if g.rng.Intn(4) == 0 {
				old := "old_" + strings.ToLower(fn)
				item += ",previous:" + old
				f.rename = [2]string{old, f.colName}
				c.count("tag_previous")
			}
			items = append(items, item)
			c.count("tag_column")
		}
		if g.rng.Intn(4) == 0 {
			types := map[string][]string{"mysql": {"VARCHAR(64)", "DATETIME", "ENUM('open','close')", "DECIMAL(10,2)", "BIGINT"}, "postgres": {"VARCHAR(64)", "TIMESTAMP", "BIGINT"}, "sqlite3": {"TEXT", "INTEGER"}}
			tl := types[g.dialect]
			t := tl[g.rng.Intn(len(tl))]
			items = append(items, "type:"+t)
			f.sqlType = func(d string) string { return t }
			// an explicit type replaces the Go mapping, including the NULL of sql.Null* / pointers
			var o []string
			for _, x := range f.opts {
				if x != "null" {
					o = append(o, x)
				}
			}
			f.opts = o
			c.count("tag_type")
		}
		if !havePk && depth == 0 && (k == 0 || g.rng.Intn(6) == 0) && g.rng.Intn(4) != 0 {
			f.isPk = true
			havePk = true
			items = append(items, sp("primary_key"))
			c.count("tag_primary_key")
		}
		nullish := ""
		switch g.rng.Intn(6) {
		case 0:
			items = append(items, sp("not_null"))
			nullish = "notnull"
			c.count("tag_not_null")
		case 1:
			items = append(items, "null")
			nullish = "null"
			c.count("tag_null")
		}
		var opts []string
		if nullish != "" {
			opts = append(opts, nullish)
		}
		if g.rng.Intn(6) == 0 {
			v := []string{"0", "1", "'x'", "CURRENT_TIMESTAMP", "'Open Item'"}[g.rng.Intn(5)]
			items = append(items, "default:"+v)
			opts = append(opts, "default:"+v)
			c.count("tag_default")
		}
		if f.isPk && g.rng.Intn(2) == 0 && g.dialect != "postgres" {
			items = append(items, sp("auto_increment"))
			opts = append(opts, "autoinc")
			c.count("tag_auto_increment")
		}
		if f.isPk {
			opts = append(opts, "pk")
		}
		if g.rng.Intn(6) == 0 {
			txt := []string{"a note", "the key"}[g.rng.Intn(2)]
			if g.rng.Intn(12) == 0 {
				txt = "PRIMARY KEY of x" // the recorded finding comment-contains-primary-key: rare, so that it does not excuse most structs
			}
			items = append(items, "comment:"+txt)
			opts = append(opts, "comment:"+txt)
			c.count("tag_comment")
		}
		// the Go-type NULL (sql.Null*, non-nil pointer) is part of the type text, in front of the tagged options
		f.opts = append(f.opts, opts...)
		if !f.isPk && g.rng.Intn(5) == 0 {
			ix := &gIndex{Cols: []string{f.colName}}
			switch g.rng.Intn(4) {
			case 0:
				items = append(items, "index")
				ix.Name = "idx_" + f.colName
			case 1:
				items = append(items, "unique")
				ix.Name = "idx_" + f.colName
				ix.Unique = true
			case 2:
				ix.Name = "ix_" + strings.ToLower(fn)
				items = append(items, "index:"+ix.Name)
			default:
				ix.Name = "ux_" + strings.ToLower(fn)
				ix.Unique = true
				items = append(items, "unique:"+ix.Name)
			}
			if g.rng.Intn(3) == 0 {
				ix.Using = []string{"BTREE", "HASH"}[g.rng.Intn(2)]
				// the value's letter case is free (the template upper-cases it): lower, upper or capitalised
				using := []string{strings.ToLower(ix.Using), ix.Using, ix.Using[:1] + strings.ToLower(ix.Using[1:])}[g.rng.Intn(3)]
				items = append(items, sp("index_type")+":"+using)
			}
			f.index = ix
			c.count("tag_index")
		}
		// shuffle the items: tag order must not matter (C10)
		g.rng.Shuffle(len(items), func(a, b int) { items[a], items[b] = items[b], items[a] })
		f.tag = strings.Join(items, ";")
	}
	if depth == 0 && g.rng.Intn(5) == 0 {
		s.tableName = "tbl_" + strings.ToLower(name)
	}
	if depth == 0 && g.dialect == "mysql" && g.rng.Intn(5) == 0 {
		// a second model and a foreign key to it: the referenced table is named by that model's TableName() or snake_case type name
		pname := []string{"Owner", "APIClient", "UserGroup"}[g.rng.Intn(3)] + name
		par := &gStruct{name: pname}
		idf := &gField{goName: "ID", goType: "int64", absType: "int64", colName: "id", isPk: true, opts: []string{"pk"}}
		idf.sqlType = func(d string) string { return "BIGINT" }
		idf.tag = "primary_key"
		par.fields = append(par.fields, idf)
		if g.rng.Intn(2) == 0 {
			par.tableName = "app_" + strings.ToLower(pname) + "s"
		}
		ref := &gField{goName: "OwnerRefZ", goType: "int64", absType: "int64", colName: "owner_ref_z"}
		ref.sqlType = func(d string) string { return "BIGINT" }
		sp := func(k string) string { return keywordSpelling(g.rng.Intn(2) == 0, k) }
		items := []string{sp("foreign_key") + ":id", "references:owner_ref_z"}
		if g.rng.Intn(2) == 0 {
			items[0], items[1] = items[1], items[0]
		}
		fkf := &gField{goName: "OwnerZ", goType: pname, absType: "struct", tag: strings.Join(items, ";")}
		nestedTypes[fkf] = par
		s.fields = append(s.fields, ref, fkf)
		s.parent, s.fkCol, s.fkRefCol, s.childFirst = par, "owner_ref_z", "id", g.rng.Intn(3) != 0
		c.count("tag_foreign_key")
	}
	return s
}

// ---------------------------------------------------------------------------------------------------------------------

// canonTag: the same tag with every item key in its snake_case spelling (the twin type of the C10 judge)
func canonTag(tag string) string {
	items := strings.Split(tag, ";")
	for i, it := range items {
		k, v, has := strings.Cut(it, ":")
		var kb []byte
		for j := 0; j < len(k); j++ {
			if k[j] >= 'A' && k[j] <= 'Z' {
				kb = append(kb, '_', k[j]-'A'+'a')
			} else {
				kb = append(kb, k[j])
			}
		}
		if has {
			items[i] = string(kb) + ":" + v
		} else {
			items[i] = string(kb)
		}
	}
	return strings.Join(items, ";")
}

func (s *gStruct) goDecls(sb *strings.Builder, tagKey string) { s.goDeclsX(sb, tagKey, "", "") }

// goDeclsX: with a non-empty `suffix` the twin declaration: type names carry the suffix, tags are canonical, and the
// top-level type answers `tableName` from TableName() (its own name would give another table name)
func (s *gStruct) goDeclsX(sb *strings.Builder, tagKey, suffix, tableName string) {
	for _, f := range s.fields {
		if f.goType == "" {
			continue
		}
		if strings.Contains(f.goType, "N") && f.absType == "struct" {
			// nested struct type declared first
		}
	}
	// nested types first
	for _, f := range s.fields {
		if inner := nestedOf(f); inner != nil {
			inner.goDeclsX(sb, tagKey, suffix, "")
		}
	}
	fmt.Fprintf(sb, "type %s%s struct {\n", s.name, suffix)
	for _, f := range s.fields {
		goType, tag := f.goType, f.tag
		if suffix != "" {
			tag = canonTag(tag)
			if inner := nestedOf(f); inner != nil {
				goType = strings.Replace(goType, inner.name, inner.name+suffix, 1)
			}
		}
		if tag != "" {
			fmt.Fprintf(sb, "\t%s %s `%s:%q`\n", f.goName, goType, tagKey, tag)
		} else {
			fmt.Fprintf(sb, "\t%s %s\n", f.goName, goType)
		}
	}
	sb.WriteString("}\n\n")
	if suffix != "" && tableName != "" {
		fmt.Fprintf(sb, "func (%s%s) TableName() string { return %q }\n\n", s.name, suffix, tableName)
	} else if s.tableName != "" {
		fmt.Fprintf(sb, "func (%s%s) TableName() string { return %q }\n\n", s.name, suffix, s.tableName)
	}
}

// nested struct type of a field, whether or not it ends up embedded
var nestedTypes = map[*gField]*gStruct{}

func nestedOf(f *gField) *gStruct { return nestedTypes[f] }

func (s *gStruct) goValue() string { return s.goValueX("") }

func (s *gStruct) goValueX(suffix string) string {
	var inits []string
	for _, f := range s.fields {
		if f.init != "" {
			inits = append(inits, f.goName+": "+f.init)
		}
		if inner := nestedOf(f); inner != nil {
			if v := inner.goValueX(suffix); v != inner.name+suffix+"{}" {
				inits = append(inits, f.goName+": "+v)
			}
		}
	}
	return s.name + suffix + "{" + strings.Join(inits, ", ") + "}"
}

func (s *gStruct) absFields() string {
	var fs []string
	for _, f := range s.fields {
		at := f.absType
		if inner := nestedOf(f); inner != nil {
			at = L("struct", inner.absFields())
		}
		tn := f.goType
		if i := strings.LastIndex(tn, "."); i >= 0 {
			tn = tn[i+1:]
		}
		fs = append(fs, L("field", q(f.goName), at, q(tn), q(f.tag)))
	}
	return L(fs...)
}

// expected columns in order: own fields in declaration order, embedded ones last (recursively), primary key first
func (s *gStruct) expectCols(prefix string, d string, genComment bool) (own []string, embedded []string, idx []string, renames []string) {
	for _, f := range s.fields {
		if f.embedded != nil {
			o, e, i, r := f.embedded.expectCols(prefix+f.prefix, d, genComment)
			embedded = append(embedded, append(o, e...)...)
			idx = append(idx, i...)
			renames = append(renames, r...)
			continue
		}
		if f.colName == "" {
			continue
		}
		name := prefix + f.colName
		if f.rename[0] != "" {
			// the table is created with the previous name and renamed afterwards
			renames = append(renames, L(q(f.rename[0]), q(f.rename[1])))
		}
		var opts []string
		hasComment := false
		for _, o := range f.opts {
			if o == "autoinc" && d == "postgres" {
				continue
			}
			if strings.HasPrefix(o, "comment:") {
				hasComment = true
			}
			opts = append(opts, q(o))
		}
		if genComment && !hasComment {
			// documented convention: a comment is generated from the enum values of the type tag, else from the column name
			t := f.sqlType(d)
			switch {
			case strings.HasPrefix(strings.ToLower(t), "enum") && strings.Contains(f.tag, "type:"):
				vals := strings.NewReplacer("(", "", ")", "", "'", "").Replace(t[4:])
				opts = append(opts, q("comment:enum values: "+strings.Join(strings.Split(vals, ","), ", ")))
			case name == "id" || name == "created_at" || name == "updated_at" || name == "deleted_at":
			default:
				cname := name
				if f.rename[0] != "" {
					cname = prefix + f.rename[0] // the column is created under its previous name and renamed afterwards
				}
				opts = append(opts, q("comment:"+strings.ReplaceAll(cname, "_", " ")))
			}
		}
		col := L("col", q(name), q(f.sqlType(d)), L(opts...), b2s(f.isPk))
		own = append(own, col)
		if f.index != nil {
			cols := make([]string, len(f.index.Cols))
			for i := range f.index.Cols {
				cols[i] = prefix + f.index.Cols[i]
			}
			iname := f.index.Name
			if iname == "idx_"+f.colName { // default name: idx_<column name>, the column name includes the embedded prefix
				iname = "idx_" + name
			}
			idx = append(idx, L("idx", q(iname), qs(cols), b2s(f.index.Unique), q(f.index.Using)))
		}
	}
	return
}

func suiteStructGen(c *ctx) {
	n := 120
	if c.tier == "thorough" {
		n = 1200
	}
	if c.n > 0 {
		n = c.n
	}
	outFile := os.Getenv("VERIF_STRUCT_OUT")
	if outFile == "" {
		outFile = "cmd/structrun/gen_cases.go"
	}
	var sb strings.Builder
	sb.WriteString("// Code generated by `harness structgen`; DO NOT EDIT.\n\npackage main\n\nimport (\n\t\"database/sql\"\n\t\"time\"\n)\n\nvar _ = sql.NullBool{}\nvar _ = time.Time{}\n\n")
	var regs []string
	for i := 0; i < n; i++ {
		dialect := []string{"mysql", "mysql", "mysql", "postgres", "sqlite3"}[c.rng.Intn(5)]
		if c.dialect != "" {
			dialect = c.dialect
		}
		g := &gen{rng: c.rng, dialect: dialect}
		tagKey := "sql"
		if c.rng.Intn(6) == 0 {
			tagKey = "db"
		}
		nestedTypes = map[*gField]*gStruct{}
		name := fmt.Sprintf("%s%d", []string{"Model", "UserProfile", "HTTPLog", "Order", "APIKeys"}[c.rng.Intn(5)], i)
		s := g.genStructTop(c, name)
		s.goDecls(&sb, tagKey)
		genComment, plural := c.rng.Intn(5) == 0, c.rng.Intn(4) == 0
		cfg := fmt.Sprintf("structCfg{dialect: %q, lower: %v, comment: %v, plural: %v, tagKey: %q}", dialect, c.rng.Intn(2) == 0, genComment, plural, tagKey)
		decl := L("decl", q(s.name), q(s.tableName), s.absFields())
		// expectation per dialect is computed at generation time for the case's dialect
		own, emb, idx, ren := s.expectCols("", dialect, genComment)
		// primary key first
		var pkCol []string
		var rest []string
		for _, col := range own {
			if strings.HasSuffix(col, " true)") && pkCol == nil {
				pkCol = []string{col}
			} else {
				rest = append(rest, col)
			}
		}
		cols := append(append(pkCol, rest...), emb...)
		wantTable := s.tableName
		if wantTable == "" {
			wantTable = snakeRef(s.name)
			if plural {
				wantTable = snakeRef(s.name + "s")
			}
		}
		var fks []string
		others, extra := "nil", L()
		if s.parent != nil {
			pt := s.parent.tableName
			if pt == "" {
				pt = snakeRef(s.parent.name)
				if plural {
					pt = snakeRef(s.parent.name + "s")
				}
			}
			fks = append(fks, L("fk", q("fk_"+pt+"_"+wantTable), q(s.fkCol), q(pt), q(s.fkRefCol)))
			others = "[]interface{}{" + s.parent.goValue() + "}"
			extra = L(L("childFirst", b2s(s.childFirst)), L("decl", q(s.parent.name), q(s.parent.tableName), s.parent.absFields()))
		}
		expect := L("expect", q(wantTable), L(cols...), L(idx...), L(ren...), L(fks...))
		// the twin with canonical (snake_case) tag keys: C10 compares the two DDL texts
		// (not for a model with a foreign_key tag: its field of the parent's type would name the parent's twin)
		objSnake := "nil"
		if s.parent == nil {
			s.goDeclsX(&sb, tagKey, "Sn", wantTable)
			objSnake = s.goValueX("Sn")
		}
		regs = append(regs, fmt.Sprintf("\t{id: %q, cfg: %s, obj: %s, objSnake: %s, decl: %q, expect: %q, others: %s, childFirst: %v, extra: %q},", fmt.Sprintf("st%d", i), cfg, s.goValue(), objSnake, decl, expect, others, s.childFirst, extra))
		c.count("dialect_" + dialect)
		c.nontrivial(decl)
	}
	sb.WriteString("var generatedCases = []structCase{\n" + strings.Join(regs, "\n") + "\n}\n")
	if err := os.WriteFile(outFile, []byte(sb.String()), 0644); err != nil {
		fmt.Fprintln(os.Stderr, err)
		os.Exit(2)
	}
	c.counts["generated_structs"] = n
}

func (g *gen) genStructTop(c *ctx, name string) *gStruct {
	s := g.genStructRec(c, name, 0)
	return s
}

// genStructRec wraps genStruct and records nested types so that they are declared and initialised
func (g *gen) genStructRec(c *ctx, name string, depth int) *gStruct {
	s := g.genStruct(c, name, depth, 1+g.rng.Intn(8), map[string]bool{})
	return s
}
