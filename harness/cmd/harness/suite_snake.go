package main

import (
	"fmt"

	"github.com/sunary/sqlize/utils"
)

// Suite snake (C16): exhaustive strings over {a,s,B,1,_} up to a bounded length, plus random longer ASCII identifiers.
func init() { suites["snake"] = suiteSnake }

func suiteSnake(c *ctx) {
	maxLen := 6
	nRand := 20000
	if c.tier == "thorough" {
		maxLen = 9
		nRand = 200000
	}
	if c.n > 0 {
		nRand = c.n
	}
	alpha := []byte{'a', 's', 'B', '1', '_'}
	id := 0
	var rec func(prefix []byte, l int)
	rec = func(prefix []byte, l int) {
		if len(prefix) == l {
			s := string(prefix)
			o := guard(func() string { return utils.ToSnakeCase(s) })
			if o != s {
				c.nontrivial(s)
			}
			c.emit(fmt.Sprintf("ex%d", id), "snake", q(s), q(o))
			id++
			return
		}
		for _, a := range alpha {
			rec(append(prefix, a), l)
		}
	}
	for l := 0; l <= maxLen; l++ {
		rec(nil, l)
		c.counts[fmt.Sprintf("exhaustive_len_%d", l)] = pow(len(alpha), l)
	}
	// fixed identifiers: boundary letters (z / Z, a / A), digits and underscores next to capital runs
	for k, s := range []string{"z", "Z", "zZ", "Zz", "aZz", "zB", "fooZ", "buzzWord", "ZZTop", "AzB", "MD5", "HTTP2Log", "URL_Path", "Net__Total",
		"a___b", "Foo_Bar", "IDs", "APIs", "userIDs", "A", "aA", "Aa", "AAa", "aAA", "PRIMARY_KEY", "AUTO_INCREMENT", "x9Y", "X9y", "_", "__A"} {
		o := guard(func() string { return utils.ToSnakeCase(s) })
		c.emit(fmt.Sprintf("fx%d", k), "snake", q(s), q(o))
	}
	// random longer identifiers over the full ASCII identifier alphabet, biased towards caps runs and a final 's'
	const letters = "abcdefghijklmnopqrstuvwxyz"
	const caps = "ABCDEFGHIJKLMNOPQRSTUVWXYZ"
	for i := 0; i < nRand; i++ {
		n := 1 + c.rng.Intn(24)
		b := make([]byte, 0, n+1)
		for len(b) < n {
			switch r := c.rng.Intn(10); {
			case r < 4:
				b = append(b, letters[c.rng.Intn(26)])
			case r < 8:
				b = append(b, caps[c.rng.Intn(26)])
			case r < 9:
				b = append(b, byte('0'+c.rng.Intn(10)))
			default:
				b = append(b, '_')
			}
		}
		if c.rng.Intn(3) == 0 {
			b = append(b, 's')
		}
		s := string(b)
		o := guard(func() string { return utils.ToSnakeCase(s) })
		if o != s {
			c.nontrivial(s)
		}
		c.emit(fmt.Sprintf("r%d", i), "snake", q(s), q(o))
	}
	c.counts["random_identifiers"] = nRand
	c.counts["exhaustive_max_len"] = maxLen
}

func pow(a, b int) int {
	r := 1
	for i := 0; i < b; i++ {
		r *= a
	}
	return r
}
