package main

import (
	"fmt"
	"reflect"
	"strings"

	sql_builder "github.com/sunary/sqlize/sql-builder"
	"github.com/sunary/sqlize/utils"
)

// struct types whose names carry underscores, capital runs, digits and a plural s: their table names go through the
// builder's GetTableName (C16: "column/table names in SqlBuilder.AddTable output")
type AuditLog_v2 struct{ ID int }
type Order_Item struct{ ID int }
type HTTPServer_Log struct{ ID int }
type User_IDs struct{ ID int }
type plainCamelCase struct{ ID int }
type X9_y struct{ ID int }
type ABC_DefGhi_jk struct{ ID int }
type URLPaths struct{ ID int }

// a foreign key whose target type is not among the registered tables: the referenced table name is derived from the type name
type Team_MemberX struct{ ID int }
type refHolder struct {
	ID     int
	Member Team_MemberX `sql:"foreign_key:member_id;references:id"`
}

// columnOf builds a one-field struct with that field name and returns the column name AddTable prints for it
func columnOf(field string) string {
	return guard(func() string {
		t := reflect.StructOf([]reflect.StructField{{Name: field, Type: reflect.TypeOf(int(0))}})
		out := sql_builder.NewSqlBuilder().AddTable(reflect.New(t).Elem().Interface())
		i := strings.Index(out, "(\n")
		if i < 0 {
			return "no-column-line:" + out
		}
		rest := out[i+2:]
		a := strings.IndexByte(rest, '`')
		if a < 0 {
			return "no-column-name:" + out
		}
		b := strings.IndexByte(rest[a+1:], '`')
		if b < 0 {
			return "no-column-name:" + out
		}
		return rest[a+1 : a+1+b]
	})
}

// Suite snake (C16): exhaustive strings over {a,s,B,1,_} up to a bounded length, plus random longer ASCII identifiers.
func init() { suites["snake"] = suiteSnake }

func suiteSnake(c *ctx) {
	maxLen := 6
	nRand := 20000
	if c.tier == "thorough" {
		maxLen = 9
		nRand = 200000
	}
	if c.n > 0 {
		nRand = c.n
	}
	alpha := []byte{'a', 's', 'B', '1', '_'}
	id := 0
	var rec func(prefix []byte, l int)
	rec = func(prefix []byte, l int) {
		if len(prefix) == l {
			s := string(prefix)
			o := guard(func() string { return utils.ToSnakeCase(s) })
			if o != s {
				c.nontrivial(s)
			}
			c.emit(fmt.Sprintf("ex%d", id), "snake", q(s), q(o))
			id++
			return
		}
		for _, a := range alpha {
			rec(append(prefix, a), l)
		}
	}
	for l := 0; l <= maxLen; l++ {
		rec(nil, l)
		c.counts[fmt.Sprintf("exhaustive_len_%d", l)] = pow(len(alpha), l)
	}
	// fixed identifiers: boundary letters (z / Z, a / A), digits and underscores next to capital runs
	for k, s := range []string{"z", "Z", "zZ", "Zz", "aZz", "zB", "fooZ", "buzzWord", "ZZTop", "AzB", "MD5", "HTTP2Log", "URL_Path", "Net__Total",
		"a___b", "Foo_Bar", "IDs", "APIs", "userIDs", "A", "aA", "Aa", "AAa", "aAA", "PRIMARY_KEY", "AUTO_INCREMENT", "x9Y", "X9y", "_", "__A"} {
		o := guard(func() string { return utils.ToSnakeCase(s) })
		c.emit(fmt.Sprintf("fx%d", k), "snake", q(s), q(o))
	}
	// random longer identifiers over the full ASCII identifier alphabet, biased towards caps runs and a final 's'
	const letters = "abcdefghijklmnopqrstuvwxyz"
	const caps = "ABCDEFGHIJKLMNOPQRSTUVWXYZ"
	for i := 0; i < nRand; i++ {
		n := 1 + c.rng.Intn(24)
		b := make([]byte, 0, n+1)
		for len(b) < n {
			switch r := c.rng.Intn(10); {
			case r < 4:
				b = append(b, letters[c.rng.Intn(26)])
			case r < 8:
				b = append(b, caps[c.rng.Intn(26)])
			case r < 9:
				b = append(b, byte('0'+c.rng.Intn(10)))
			default:
				b = append(b, '_')
			}
		}
		if c.rng.Intn(3) == 0 {
			b = append(b, 's')
		}
		s := string(b)
		o := guard(func() string { return utils.ToSnakeCase(s) })
		if o != s {
			c.nontrivial(s)
		}
		c.emit(fmt.Sprintf("r%d", i), "snake", q(s), q(o))
	}
	c.counts["random_identifiers"] = nRand
	c.counts["exhaustive_max_len"] = maxLen

	// the builder route: the same conversion observed at the column and table names SqlBuilder prints
	fields := []string{"CreatedAt_UTC", "User_ID", "HTTP_v2Log", "Order_Item", "APIKey", "UserIDs", "X9Y", "A_bC", "Ab_CdEf", "URLs_Path",
		"MD5_Sum", "Net__TotalAmount", "A1_B2c", "Foo_BarBaz", "IDs_List", "Z"}
	nCols := 400
	if c.tier == "thorough" {
		nCols = 4000
	}
	for i := 0; i < nCols; i++ {
		n := 1 + c.rng.Intn(14)
		b := []byte{caps[c.rng.Intn(26)]}
		for len(b) < n {
			switch r := c.rng.Intn(10); {
			case r < 4:
				b = append(b, letters[c.rng.Intn(26)])
			case r < 7:
				b = append(b, caps[c.rng.Intn(26)])
			case r < 8:
				b = append(b, byte('0'+c.rng.Intn(10)))
			default:
				b = append(b, '_')
			}
		}
		if c.rng.Intn(3) == 0 {
			b = append(b, 's')
		}
		fields = append(fields, string(b))
	}
	for k, f := range fields {
		o := columnOf(f)
		if o != f {
			c.nontrivial("col:" + f)
		}
		c.emit(fmt.Sprintf("col%d", k), "snake", q(f), q(o))
	}
	c.counts["builder_column_names"] = len(fields)
	tables := []interface{}{AuditLog_v2{}, Order_Item{}, HTTPServer_Log{}, User_IDs{}, plainCamelCase{}, X9_y{}, ABC_DefGhi_jk{}, URLPaths{}, &AuditLog_v2{}}
	for k, t := range tables {
		for _, plural := range []bool{false, true} {
			t, plural := t, plural
			var name string
			o := guard(func() string {
				b := sql_builder.NewSqlBuilder()
				if plural {
					b = sql_builder.NewSqlBuilder(sql_builder.WithPluralTableName())
				}
				n, tn := b.GetTableName(t)
				name = n
				return tn
			})
			in := name
			if plural {
				in += "s"
			}
			c.nontrivial("tbl:" + in)
			c.emit(fmt.Sprintf("tbl%d_%v", k, plural), "snake", q(in), q(o))
		}
	}
	c.counts["builder_table_names"] = 2 * len(tables)
	// the referenced table of a foreign key whose target is not registered
	{
		o := guard(func() string {
			out := sql_builder.NewSqlBuilder().AddTable(refHolder{})
			i := strings.Index(out, "REFERENCES `")
			if i < 0 {
				return "no-references:" + out
			}
			rest := out[i+len("REFERENCES `"):]
			j := strings.IndexByte(rest, '`')
			if j < 0 {
				return "no-references:" + out
			}
			return rest[:j]
		})
		c.nontrivial("ref:Team_MemberX")
		c.emit("ref0", "snake", q("Team_MemberX"), q(o))
		c.counts["builder_reference_names"] = 1
	}
}

func pow(a, b int) int {
	r := 1
	for i := 0; i < b; i++ {
		r *= a
	}
	return r
}
